/- C19 helper lemmas, theta table part 3: `consolidate_non_empty`, `std::nth_element`, `rebuild`. -/
import DSProofs.Lemmas.LifeThetaB
import DSProofs.Lemmas.LifeSort
namespace DS.Life.Theta
open DS.Life

/-- the state `consolidate_non_empty` establishes: the `num` entries sit in front, everything behind is raw with key 0 -/
structure Packed (h : Heap) (b size num : Nat) : Prop where
  cells : HasCells h b size
  le : num ≤ size
  front : ∀ i, i < num → wordAt h b i ≠ 0 ∧ ∃ v, stAt h b i = .live v
  back : ∀ i, num ≤ i → i < size → wordAt h b i = 0 ∧ stAt h b i = .raw
  dist : Distinct h b size

/-- `firstEmpty`: the index of the first empty slot (or `size`) -/
theorem firstEmpty_spec (S : Nat → Bool) (h : Heap) (b size : Nat) (hc : HasCells h b size) :
    ∀ fuel i, i + fuel = size → (∀ j, j < i → wordAt h b j ≠ 0) →
      SafeF S h (firstEmpty b fuel i h)
        (fun r h' => h' = h ∧ r ≤ size ∧ (∀ j, j < r → wordAt h b j ≠ 0) ∧ (r < size → wordAt h b r = 0)) := by
  intro fuel
  induction fuel with
  | zero =>
    intro i hi hnz
    unfold firstEmpty
    apply SafeF.pure
    exact ⟨rfl, by omega, hnz, fun hlt => by omega⟩
  | succ f ih =>
    intro i hi hnz
    unfold firstEmpty
    apply vstep_readWord hc (by omega : i < size)
    by_cases hw : wordAt h b i = 0
    · rw [if_pos hw]
      apply SafeF.pure
      exact ⟨rfl, by omega, hnz, fun _ => hw⟩
    · rw [if_neg hw]
      apply ih (i + 1) (by omega)
      intro j hj
      by_cases hji : j = i
      · subst hji; exact hw
      · exact hnz j (by omega)

/-- loop invariant of the second loop of `consolidate_non_empty` -/
structure ConsInv (h : Heap) (b size total i j : Nat) (ids : List Nat) : Prop where
  cells : HasCells h b size
  ij : i < j
  js : j ≤ size
  front : ∀ p, p < i → wordAt h b p ≠ 0 ∧ ∃ v, stAt h b p = .live v
  gap : ∀ p, i ≤ p → p < j → wordAt h b p = 0 ∧ stAt h b p = .raw
  rest : ∀ p, j ≤ p → p < size → SlotOK h b p
  dist : Distinct h b size
  count : cnt (nz h b) size = total
  ids : h.ids = ids

theorem ConsInv.packed {h : Heap} {b size total i j : Nat} {ids : List Nat} (inv : ConsInv h b size total i j ids)
    (hstop : j = size ∨ i = total) : Packed h b size total := by
  have hci : cnt (nz h b) i = i := by
    have := cnt_all_true (f := nz h b) (lo := 0) (hi := i) (by omega)
      (fun p _ hp => by simp [nz, (inv.front p hp).1])
    simpa [cnt] using this
  have hcj : cnt (nz h b) j = i := by
    rw [cnt_all_false (f := nz h b) (lo := i) (hi := j) (by have := inv.ij; omega)
      (fun p h1 h2 => by simp [nz, (inv.gap p h1 h2).1]), hci]
  have hzero : ∀ p, j ≤ p → p < size → wordAt h b p = 0 := by
    rcases hstop with hj | hi
    · intro p h1 h2; omega
    · have : cnt (nz h b) size = cnt (nz h b) j := by rw [inv.count, hcj, hi]
      intro p h1 h2
      have := cnt_eq_imp_false inv.js this p h1 h2
      simpa [nz] using this
  have hit : i = total := by
    rcases hstop with hj | hi
    · subst hj; rw [← inv.count, hcj]
    · exact hi
  subst hit
  refine ⟨inv.cells, by have := inv.ij; have := inv.js; omega, inv.front, ?_, inv.dist⟩
  intro p h1 h2
  by_cases hpj : p < j
  · exact inv.gap p h1 hpj
  · have hw := hzero p (by omega) h2
    rcases inv.rest p (by omega) h2 with ⟨_, hr⟩ | ⟨hnz, _⟩
    · exact ⟨hw, hr⟩
    · exact absurd hw hnz

theorem consolidateLoop_spec (n0 : Nat) (S : Nat → Bool) (b size num : Nat) (ids : List Nat) (hS : S b = true) :
    ∀ fuel j i h, n0 ≤ h.next → j + fuel = size → ConsInv h b size num i j ids →
      SafeF S h (consolidateLoop b num fuel j i h) (fun _ h' => Packed h' b size num ∧ h'.ids = ids) := by
  intro fuel
  induction fuel with
  | zero =>
    intro j i h _ hj inv
    unfold consolidateLoop
    apply SafeF.pure
    exact ⟨inv.packed (Or.inl (by omega)), inv.ids⟩
  | succ f ih =>
    intro j i h hn hj inv
    unfold consolidateLoop
    have hjs : j < size := by omega
    apply vstep_readWord inv.cells hjs
    have hso := inv.rest j (Nat.le_refl _) hjs
    by_cases hk : wordAt h b j ≠ 0
    · rw [if_pos hk]
      rcases hso with ⟨hz, _⟩ | ⟨_, v, hv⟩
      · exact absurd hz hk
      · have his : i < size := by have := inv.ij; omega
        have hri := (inv.gap i (Nat.le_refl _) inv.ij).2
        apply vstep_moveConstructEntry inv.cells hjs hv inv.cells his hri (fun x => by have := inv.ij; omega) hS hS
        intro h1 sb1 hwd hsd hws hss
        apply vstep_destroy (sb1.cells _ _ inv.cells) hjs (by rw [hss]; simp) hS
        intro h2 sb2 hw2 hs2
        apply vstep_writeWord 0 (sb2.cells _ _ (sb1.cells _ _ inv.cells)) hjs hS
        intro h3 sb3 hw3 hs3
        have hij : i ≠ j := by have := inv.ij; omega
        have sb13 : SameBut h h3 (fun b' q => b' = b ∧ (q = i ∨ q = j)) :=
          (sb1.trans sb2 (fun _ _ x => by rcases x with x | x; exact ⟨x.1, Or.inr x.2⟩; exact ⟨x.1, Or.inl x.2⟩)
            (fun _ _ x => ⟨x.1, Or.inr x.2⟩)).trans sb3 (fun _ _ x => x) (fun _ _ x => ⟨x.1, Or.inr x.2⟩)
        have hwo : ∀ q, q ≠ i → q ≠ j → wordAt h3 b q = wordAt h b q := fun q h1' h2' =>
          sb13.word b q (fun x => by rcases x.2 with e | e; exact h1' e; exact h2' e)
        have hso' : ∀ q, q ≠ i → q ≠ j → stAt h3 b q = stAt h b q := fun q h1' h2' =>
          sb13.st b q (fun x => by rcases x.2 with e | e; exact h1' e; exact h2' e)
        have hwi : wordAt h3 b i = wordAt h b j := by
          rw [sb3.word b i (fun x => hij x.2), sb2.word b i (fun x => hij x.2), hwd]
        have hsi : stAt h3 b i = .live v := by
          rw [sb3.st b i (fun x => hij x.2), sb2.st b i (fun x => hij x.2), hsd]
        have hsj : stAt h3 b j = .raw := by rw [hs3, hs2]
        have inv3 : ConsInv h3 b size num (i + 1) (j + 1) ids := by
          refine ⟨sb13.cells _ _ inv.cells, by have := inv.ij; omega, by omega, ?_, ?_, ?_, ?_, ?_, by rw [sb13.ids]; exact inv.ids⟩
          · intro p hp
            by_cases hpi : p = i
            · subst hpi; exact ⟨by rw [hwi]; exact hk, v, hsi⟩
            · have hpj : p ≠ j := by have := inv.ij; omega
              rw [hwo p hpi hpj, hso' p hpi hpj]; exact inv.front p (by omega)
          · intro p h1' h2'
            by_cases hpj : p = j
            · subst hpj; exact ⟨hw3, hsj⟩
            · have hpi : p ≠ i := by omega
              rw [hwo p hpi hpj, hso' p hpi hpj]; exact inv.gap p (by omega) (by omega)
          · intro p h1' h2'
            have hpi : p ≠ i := by have := inv.ij; omega
            have hpj : p ≠ j := by omega
            exact (inv.rest p (by omega) h2').of_views (hwo p hpi hpj) (hso' p hpi hpj)
          · intro p q hp hq heq hne
            -- words: i ↦ old word j, j ↦ 0, others unchanged
            have hpj : p ≠ j := by intro e; subst e; exact hne hw3
            have hqj : q ≠ j := by intro e; subst e; rw [hw3] at heq; exact hne heq
            by_cases hpi : p = i
            · by_cases hqi : q = i
              · rw [hpi, hqi]
              · subst hpi
                rw [hwi, hwo q hqi hqj] at heq
                exact absurd (inv.dist j q hjs hq heq hk) (fun e => hqj e.symm)
            · by_cases hqi : q = i
              · subst hqi
                rw [hwi, hwo p hpi hpj] at heq
                have := inv.dist p j hp hjs heq (by rw [heq]; exact hk)
                exact absurd this hpj
              · rw [hwo p hpi hpj] at heq hne
                rw [hwo q hqi hqj] at heq
                exact inv.dist p q hp hq heq hne
          · -- the count is unchanged: one index turned non-zero, another zero
            let g : Nat → Bool := fun q => if q = i then true else nz h b q
            have h1' : cnt g size = cnt (nz h b) size + 1 := by
              apply cnt_set_true (k := i) his
              · simp [nz, (inv.gap i (Nat.le_refl _) inv.ij).1]
              · simp [g]
              · intro q hq; simp [g, hq]
            have h2' : cnt (nz h3 b) size + 1 = cnt g size := by
              apply cnt_set_false (k := j) hjs
              · simp [g, hij.symm, nz, hk]
              · simp [nz, hw3]
              · intro q hq
                by_cases hqi : q = i
                · subst hqi; simp [g, nz, hwi, hk]
                · simp [g, hqi, nz, hwo q hqi hq]
            have := inv.count
            omega
        by_cases hbreak : i + 1 = num
        · rw [if_pos hbreak]
          apply SafeF.pure
          exact ⟨inv3.packed (Or.inr hbreak), inv3.ids⟩
        · rw [if_neg hbreak]
          exact ih (j + 1) (i + 1) h3 (by rw [sb13.next]; exact hn) (by omega) inv3
    · rw [if_neg hk]
      have hk0 : wordAt h b j = 0 := by omega
      apply ih (j + 1) i h hn (by omega)
      refine ⟨inv.cells, by have := inv.ij; omega, by omega, inv.front, ?_, fun p h1 h2 => inv.rest p (by omega) h2,
        inv.dist, inv.count, inv.ids⟩
      intro p h1 h2
      by_cases hpj : p = j
      · subst hpj
        rcases hso with ⟨_, hr⟩ | ⟨hnz, _⟩
        · exact ⟨hk0, hr⟩
        · exact absurd hk0 hnz
      · exact inv.gap p h1 (by omega)


/-- `consolidate_non_empty(entries, size, num)` -/
theorem consolidate_spec (n0 : Nat) (S : Nat → Bool) (b size num : Nat) (ids : List Nat) (hS : S b = true) :
    TripleS n0 S (fun h => SlotsOK h b size ∧ Distinct h b size ∧ cnt (nz h b) size = num ∧ h.ids = ids)
      (consolidate b size num) (fun _ h' => Packed h' b size num ∧ h'.ids = ids) := by
  intro h hn ⟨hs, hd, hcnt, hid⟩
  unfold consolidate
  have hfe := firstEmpty_spec S h b size hs.cells size 0 (by omega) (fun j hj => by omega)
  rw [bind_eq]
  cases hr : firstEmpty b size 0 h with
  | error e =>
    rw [hr] at hfe
    cases e <;> simp_all [SafeX, SafeF]
  | ok res =>
    obtain ⟨r, h1⟩ := res
    rw [hr] at hfe
    obtain ⟨⟨rfl, hle, hnz, hz⟩, _⟩ := hfe
    simp only
    have hlive : ∀ p, p < r → wordAt h1 b p ≠ 0 ∧ ∃ v, stAt h1 b p = .live v := by
      intro p hp
      rcases hs.ok p (by omega) with ⟨hz', _⟩ | ok
      · exact absurd hz' (hnz p hp)
      · exact ok
    by_cases hrs : r = size
    · -- no empty slot at all: the table is full and already packed
      subst hrs
      have : r - (r + 1) = 0 := by omega
      rw [this]
      unfold consolidateLoop
      apply SafeF.pure
      have hall : cnt (nz h1 b) r = r := by
        have := cnt_all_true (f := nz h1 b) (lo := 0) (hi := r) (by omega) (fun p _ hp => by simp [nz, hnz p hp])
        simpa [cnt] using this
      refine ⟨⟨hs.cells, by omega, ?_, fun i h1' h2' => by omega, hd⟩, hid⟩
      intro i hi
      exact hlive i (by omega)
    · have hrlt : r < size := by omega
      have hw0 := hz hrlt
      have hraw : stAt h1 b r = .raw := by
        rcases hs.ok r hrlt with ⟨_, hr'⟩ | ⟨hnz', _⟩
        · exact hr'
        · exact absurd hw0 hnz'
      apply consolidateLoop_spec n0 S b size num ids hS (size - (r + 1)) (r + 1) r h1 hn (by omega)
      refine ⟨hs.cells, by omega, by omega, hlive, ?_, fun p h1' h2' => hs.ok p h2', hd, hcnt, hid⟩
      intro p h1' h2'
      have : p = r := by omega
      subst this
      exact ⟨hw0, hraw⟩


/-- `std::nth_element` over the packed front: still packed, other blocks untouched -/
theorem vstep_nthElement {β} {S : Nat → Bool} {h : Heap} {b size num : Nat} {f : Unit → M β} {Q : β → Heap → Prop}
    (pk : Packed h b size num) (hS : S b = true)
    (s : ∀ h', Packed h' b size num →
          (∀ b' j, b' ≠ b → wordAt h' b' j = wordAt h b' j ∧ stAt h' b' j = stAt h b' j) →
          (∀ b' m, b' ≠ b → HasCells h b' m → HasCells h' b' m) → h'.ids = h.ids → h'.next = h.next →
          SafeF S h' (f () h') Q) :
    SafeF S h ((nthElement b num >>= f) h) Q := by
  obtain ⟨B, hf, hlen⟩ := find?_of_count? pk.cells
  have hcell : ∀ j, h.cell? b j = B.cells[j]? := cell?_of_find? hf
  have hall : (B.cells.take num).all (fun c => match c.st with | .live _ => true | _ => false) = true := by
    rw [List.all_eq_true]
    intro c hc
    rw [List.mem_take_iff_getElem] at hc
    obtain ⟨j, hj, rfl⟩ := hc
    have hjn : j < num := by omega
    have hjl : j < B.cells.length := by omega
    obtain ⟨_, v, hv⟩ := pk.front j hjn
    have : stAt h b j = B.cells[j].st := by
      simp [stAt, hcell j, List.getElem?_eq_getElem hjl]
    rw [← this, hv]
  have hrun : nthElement b num h = .ok ((), h.setCells b
      ((B.cells.take num).mergeSort (fun x y => decide (x.word ≤ y.word)) ++ B.cells.drop num)) := by
    unfold nthElement
    simp only [hf]
    have hle : num ≤ B.cells.length := by have := pk.le; omega
    rw [if_pos ⟨hle, hall⟩]
  -- the new cells as a permuted segment [0, num)
  have hperm0 : ((B.cells.take num).mergeSort (fun x y => decide (x.word ≤ y.word))).Perm ((B.cells.drop 0).take num) := by
    simpa using List.mergeSort_perm _ _
  generalize (B.cells.take num).mergeSort (fun x y => decide (x.word ≤ y.word)) = seg' at hrun hperm0
  have hperm := hperm0
  apply SafeF.bind_ok hrun (Frame_setCells S h b _ hS)
  have hle0 : 0 + num ≤ B.cells.length := by have := pk.le; omega
  have hcs : B.cells.take 0 ++ seg' ++ B.cells.drop (0 + num) = seg' ++ B.cells.drop num := by simp
  have hcell' : ∀ j, (h.setCells b (seg' ++ B.cells.drop num)).cell? b j = (seg' ++ B.cells.drop num)[j]? := by
    intro j; rw [cell?_setCells hf]; simp
  have hlen' : (seg' ++ B.cells.drop num).length = size := by
    rw [← hcs, permSeg_length _ _ _ _ hle0 hperm]; exact hlen
  apply s
  · refine ⟨by simp [HasCells, count?_setCells hf, hlen'], pk.le, ?_, ?_, ?_⟩
    · intro i hi
      obtain ⟨x, hx, k, _, hk2, hkx⟩ := permSeg_inside B.cells seg' 0 num hle0 hperm i (by omega) (by omega)
      rw [hcs] at hx
      have hw : wordAt (h.setCells b (seg' ++ B.cells.drop num)) b i = wordAt h b k := by
        simp [wordAt, hcell', hx, hcell k, hkx]
      have hst : stAt (h.setCells b (seg' ++ B.cells.drop num)) b i = stAt h b k := by
        simp [stAt, hcell', hx, hcell k, hkx]
      rw [hw, hst]
      exact pk.front k (by omega)
    · intro i h1 h2
      have := permSeg_outside B.cells seg' 0 num hle0 hperm i (Or.inr (by omega))
      rw [hcs] at this
      have hw : wordAt (h.setCells b (seg' ++ B.cells.drop num)) b i = wordAt h b i := by
        simp [wordAt, hcell', this, hcell i]
      have hst : stAt (h.setCells b (seg' ++ B.cells.drop num)) b i = stAt h b i := by
        simp [stAt, hcell', this, hcell i]
      rw [hw, hst]
      exact pk.back i h1 h2
    · intro p q hp hq heq hne
      -- both positions are in the front (the back has key 0)
      have hfront : ∀ r, r < size → wordAt (h.setCells b (seg' ++ B.cells.drop num)) b r ≠ 0 → r < num := by
        intro r hr hnz
        by_cases hrn : r < num
        · exact hrn
        · have := permSeg_outside B.cells seg' 0 num hle0 hperm r (Or.inr (by omega))
          rw [hcs] at this
          have hw : wordAt (h.setCells b (seg' ++ B.cells.drop num)) b r = wordAt h b r := by
            simp [wordAt, hcell', this, hcell r]
          rw [hw, (pk.back r (by omega) hr).1] at hnz
          exact absurd rfl hnz
      have hpn := hfront p hp hne
      have hqn := hfront q hq (by rw [← heq]; exact hne)
      obtain ⟨x, hx, _⟩ := permSeg_inside B.cells seg' 0 num hle0 hperm p (by omega) (by omega)
      obtain ⟨y, hy, _⟩ := permSeg_inside B.cells seg' 0 num hle0 hperm q (by omega) (by omega)
      have hxw : wordAt (h.setCells b (seg' ++ B.cells.drop num)) b p = x.word := by
        rw [hcs] at hx; simp [wordAt, hcell', hx]
      have hyw : wordAt (h.setCells b (seg' ++ B.cells.drop num)) b q = y.word := by
        rw [hcs] at hy; simp [wordAt, hcell', hy]
      apply permSeg_inj (fun c : Cell => c.word) B.cells seg' 0 num hle0 hperm ?_ p q (by omega) (by omega) (by omega) (by omega) x y hx hy
        (by rw [← hxw, ← hyw]; exact heq)
      intro i j xi yj _ hi2 _ hj2 hxi hyj hkey
      have hwi : wordAt h b i = xi.word := by simp [wordAt, hcell i, hxi]
      have hwj : wordAt h b j = yj.word := by simp [wordAt, hcell j, hyj]
      exact pk.dist i j (by have := pk.le; omega) (by have := pk.le; omega) (by rw [hwi, hwj]; exact hkey)
        (pk.front i (by omega)).1
  · intro b' j hb'
    simp [wordAt, stAt, cell?_setCells hf, hb']
  · intro b' m hb' hc
    simpa [HasCells, count?_setCells hf, hb'] using hc
  · simp
  · simp

end DS.Life.Theta

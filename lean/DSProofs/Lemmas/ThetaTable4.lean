/- L2 part 5: state-level refinement of resize / rebuild / afterInsert / offer / trim. -/
import DSProofs.Lemmas.ThetaTable3
namespace DS.Theta.L2
open DS.Theta
variable {σ : Type}

theorem entries_empty (lg : Nat) : entries (emptySlots lg : Slots σ) = [] := by
  unfold entries emptySlots
  induction (2^lg) with
  | zero => rfl
  | succ n ih => simp [List.replicate_succ, ih]

theorem absE_empty (lg : Nat) : absE (emptySlots lg : Slots σ) = [] := by
  unfold absE; rw [entries_empty]; rfl

/-- filling an empty table with a duplicate-free list: succeeds, and the abstraction is the sorted list -/
theorem placeAll_empty_abs (bits lg : Nat) (l : List (Nat × σ)) (hnd : (keys l).Nodup) (hlen : l.length < 2^lg) :
    ∃ s', placeAll bits lg (emptySlots lg) l = some s' ∧ PInv bits lg s' ∧ absE s' = sortKV l := by
  obtain ⟨s', hs', hP, hmem, _⟩ := placeAll_abs bits lg l (emptySlots lg) (pinv_empty bits lg) hnd
    (by intro x _; rw [absE_empty]; simp) (by rw [entries_empty]; simp; omega)
  refine ⟨s', hs', hP, ?_⟩
  have s1 := absE_spec bits lg s' hP
  have s2 := sortKV_spec l hnd
  apply sorted_ext_kv _ _ s1.1 s2.1
  intro x
  rw [s1.2, hmem, entries_empty, mem_sortKV]; simp

theorem sortKV_of_sorted (l : List (Nat × σ)) (hs : (keys l).Pairwise (· < ·)) : sortKV l = l := by
  have hnd : (keys l).Nodup := nodup_of_sorted _ hs
  apply sorted_ext_kv _ _ (sortKV_spec l hnd).1 hs
  intro x; exact mem_sortKV x l

theorem abs_ents (t : TSt σ) : (abs t).ents = absE t.slots := rfl

theorem resizeT_refines (bits : Nat) (c : Cfg) (t : TSt σ) (h : PInv bits t.lg t.slots)
    (hroom : (entries t.slots).length < 2^(min (t.lg + c.lgRf) (c.lgNom + 1))) :
    ∃ t', resizeT bits c t = some t' ∧ abs t' = { abs t with lgCur := min (t.lg + c.lgRf) (c.lgNom + 1) } ∧
      PInv bits t'.lg t'.slots := by
  have hnd : (keys (entries t.slots)).Nodup := keys_entries_nodup t.slots h.distinct
  obtain ⟨s', hs', hP, habs⟩ := placeAll_empty_abs bits (min (t.lg + c.lgRf) (c.lgNom + 1)) (entries t.slots) hnd hroom
  refine ⟨{ t with lg := min (t.lg + c.lgRf) (c.lgNom + 1), slots := s' }, ?_, ?_, hP⟩
  · unfold resizeT; simp only [hs']
  · unfold abs
    simp only
    show ({ theta := t.theta, ents := absE s', isEmpty := t.isEmpty, lgCur := _ } : St σ) = _
    rw [habs]

theorem rebuildT_refines (bits : Nat) (c : Cfg) (t : TSt σ) (h : PInv bits t.lg t.slots) (hk : c.lgNom < t.lg) :
    ∃ t', rebuildT bits c t = some t' ∧ abs t' = rebuild c (abs t) ∧ PInv bits t'.lg t'.slots := by
  have s0 := absE_spec bits t.lg t.slots h
  unfold rebuildT rebuild
  simp only [abs_ents]
  show ∃ t', (match (keys (absE t.slots))[2^c.lgNom]? with
      | some th => (match placeAll bits t.lg (emptySlots t.lg) ((absE t.slots).take (2^c.lgNom)) with
          | some s => some { t with theta := th, slots := s }
          | none => none)
      | none => some t) = some t' ∧ _
  cases hth : (keys (absE t.slots))[2^c.lgNom]? with
  | none => exact ⟨t, rfl, rfl, h⟩
  | some th =>
    have hsorted : (keys ((absE t.slots).take (2^c.lgNom))).Pairwise (· < ·) := by
      rw [keys_take]; exact pairwise_take _ _ s0.1
    have hlen : ((absE t.slots).take (2^c.lgNom)).length < 2^t.lg := by
      have : (2:Nat)^c.lgNom < 2^t.lg := Nat.pow_lt_pow_right (by omega) hk
      simp only [List.length_take]; omega
    obtain ⟨s', hs', hP, habs⟩ := placeAll_empty_abs bits t.lg _ (nodup_of_sorted _ hsorted) hlen
    refine ⟨{ t with theta := th, slots := s' }, ?_, ?_, hP⟩
    · simp only [hs']
    · unfold abs
      show ({ theta := th, ents := absE s', isEmpty := t.isEmpty, lgCur := t.lg } : St σ) = _
      rw [habs, sortKV_of_sorted _ hsorted]

theorem afterInsertT_refines (bits : Nat) (c : Cfg) (t : TSt σ) (h : PInv bits t.lg t.slots)
    (hroom : (entries t.slots).length < 2^t.lg) :
    ∃ t', afterInsertT bits c t = some t' ∧ abs t' = afterInsert c (abs t) ∧ PInv bits t'.lg t'.slots := by
  have hlen : (abs t).ents.length = (entries t.slots).length := by rw [abs_ents]; exact length_sortKV _
  have hA : afterInsert c (abs t) = if (entries t.slots).length > capacity c t.lg then
      (if t.lg ≤ c.lgNom then { abs t with lgCur := min (t.lg + c.lgRf) (c.lgNom + 1) } else rebuild c (abs t)) else abs t := by
    unfold afterInsert; rw [hlen]; rfl
  rw [hA]
  unfold afterInsertT
  by_cases h1 : (entries t.slots).length > capacity c t.lg
  · simp only [h1, if_true]
    by_cases h2 : t.lg ≤ c.lgNom
    · simp only [h2, if_true]
      have hge : t.lg ≤ min (t.lg + c.lgRf) (c.lgNom + 1) := by omega
      have : (2:Nat)^t.lg ≤ 2^(min (t.lg + c.lgRf) (c.lgNom + 1)) := Nat.pow_le_pow_right (by omega) hge
      exact resizeT_refines bits c t h (by omega)
    · simp only [h2, if_false]
      exact rebuildT_refines bits c t h (by omega)
  · simp only [h1, if_false]
    exact ⟨t, rfl, rfl, h⟩

theorem trimT_refines (bits : Nat) (c : Cfg) (t : TSt σ) (h : PInv bits t.lg t.slots) (hk : c.lgNom < t.lg) :
    ∃ t', trimT bits c t = some t' ∧ abs t' = trim c (abs t) ∧ PInv bits t'.lg t'.slots := by
  have hlen : (abs t).ents.length = (entries t.slots).length := by rw [abs_ents]; exact length_sortKV _
  unfold trimT trim
  rw [hlen]
  by_cases h1 : (entries t.slots).length > 2^c.lgNom
  · simp only [h1, if_true]
    exact rebuildT_refines bits c t h hk
  · simp only [h1, if_false]
    exact ⟨t, rfl, rfl, h⟩

/-- **one update on the concrete table refines one update on the abstract sketch** -/
theorem offerT_refines (bits : Nat) (c : Cfg) (t : TSt σ) (hash : Nat) (f : Option σ → σ) (h : PInv bits t.lg t.slots)
    (hroom : (entries t.slots).length + 1 < 2^t.lg) :
    ∃ t', offerT bits c t hash f = some t' ∧ abs t' = offer c (abs t) hash f ∧ PInv bits t'.lg t'.slots := by
  unfold offerT offer
  have hth : (abs t).theta = t.theta := rfl
  simp only [hth]
  by_cases hsc : hash = 0 ∨ t.theta ≤ hash
  · simp only [hsc, if_true]
    exact ⟨{ t with isEmpty := false }, rfl, rfl, h⟩
  · simp only [hsc, if_false]
    have s0 := absE_spec bits t.lg t.slots h
    by_cases hin : hash ∈ keys (absE t.slots)
    · -- present: payload update
      obtain ⟨v, hv⟩ := exists_of_mem_keys _ _ hin
      obtain ⟨idx, hidx⟩ := (mem_entries t.slots (hash, v)).1 ((s0.2 _).1 hv)
      have hfind := find_present bits t.lg t.slots h idx hash v hidx
      obtain ⟨hP', habs', hlk, _⟩ := update_old_abs bits t.lg t.slots h idx hash v f hidx
      refine ⟨{ theta := t.theta, lg := t.lg, slots := t.slots.set idx (some (hash, f (some v))), isEmpty := false }, ?_, ?_, hP'⟩
      · simp only [hfind, hidx]
      · have : lookup hash (abs t).ents = some v := hlk
        simp only [this]
        have habs'' : sortKV (entries (t.slots.set idx (some (hash, f (some v))))) = upsert hash f (sortKV (entries t.slots)) := habs'
        unfold abs
        simp only
        rw [habs'']
    · -- absent: insert, then the capacity test
      obtain ⟨idx, hfind, hP', habs', hlen'⟩ := place_new_abs bits t.lg t.slots h hash f hin (by omega)
      have hlk : lookup hash (abs t).ents = none := (lookup_none_iff hash _).2 hin
      simp only [hfind, hlk]
      obtain ⟨t', ht', habs2, hP2⟩ := afterInsertT_refines bits c
        ({ theta := t.theta, lg := t.lg, slots := t.slots.set idx (some (hash, f none)), isEmpty := false } : TSt σ) hP' (by
          show (entries (t.slots.set idx (some (hash, f none)))).length < 2^t.lg
          rw [hlen']; omega)
      refine ⟨t', ht', ?_, hP2⟩
      rw [habs2]
      congr 1
      have habs'' : sortKV (entries (t.slots.set idx (some (hash, f none)))) = upsert hash f (sortKV (entries t.slots)) := habs'
      unfold abs
      simp only
      rw [habs'']

end DS.Theta.L2

/- Invariant of the theta union model (table relative to the set `S` of all entries offered so far). -/
import DSProofs.Lemmas.ThetaInv
import DSModel.Theta.SetOps
namespace DS.Theta

variable {σ : Type}

/-- table invariant relative to the offered keys `S` and the screen `U` (= union_theta_) -/
structure TInv (c : Cfg) (S : List Nat) (U : Nat) (s : St σ) : Prop where
  sorted : (keys s.ents).Pairwise (· < ·)
  sub    : ∀ x, x ∈ keys s.ents → x ∈ S ∧ x < s.theta
  low    : ∀ x, x ∈ S → x < U → x < s.theta → x ∈ keys s.ents
  t_le   : s.theta ≤ c.theta0
  t_mem  : s.theta = c.theta0 ∨ s.theta ∈ S
  klen   : s.theta < c.theta0 → 2^c.lgNom ≤ s.ents.length

theorem tinv_rebuild (c : Cfg) (S : List Nat) (U : Nat) (s : St σ) (h : TInv c S U s) : TInv c S U (rebuild c s) := by
  unfold rebuild
  split
  · rename_i t ht
    have htm : t ∈ keys s.ents := List.mem_of_getElem? ht
    have ht' := h.sub t htm
    have hklt : 2^c.lgNom < (keys s.ents).length := (List.getElem?_eq_some_iff.1 ht).1
    refine ⟨?_, ?_, ?_, ?_, ?_, ?_⟩
    · simp only [keys_take]; exact pairwise_take _ _ h.sorted
    · intro x hx
      simp only [keys_take] at hx
      have := (mem_take_sorted _ h.sorted _ t ht x).1 hx
      exact ⟨(h.sub x this.1).1, this.2⟩
    · intro x hS hU hT
      simp only [keys_take]
      exact (mem_take_sorted _ h.sorted _ t ht x).2 ⟨h.low x hS hU (Nat.lt_trans hT ht'.2), hT⟩
    · exact Nat.le_trans (Nat.le_of_lt ht'.2) h.t_le
    · exact Or.inr ht'.1
    · intro _
      simp only [List.length_take]
      simp only [keys_length] at hklt
      omega
  · exact h

theorem rebuild_theta_le' (c : Cfg) (S : List Nat) (U : Nat) (s : St σ) (h : TInv c S U s) : (rebuild c s).theta ≤ s.theta := by
  unfold rebuild
  split
  · rename_i t ht
    exact Nat.le_of_lt (h.sub t (List.mem_of_getElem? ht)).2
  · exact Nat.le_refl _

theorem tinv_afterInsert (c : Cfg) (S : List Nat) (U : Nat) (s : St σ) (h : TInv c S U s) : TInv c S U (afterInsert c s) := by
  unfold afterInsert
  split
  · split
    · exact ⟨h.sorted, h.sub, h.low, h.t_le, h.t_mem, h.klen⟩
    · exact tinv_rebuild c S U s h
  · exact h

theorem afterInsert_theta_le' (c : Cfg) (S : List Nat) (U : Nat) (s : St σ) (h : TInv c S U s) : (afterInsert c s).theta ≤ s.theta := by
  unfold afterInsert
  split
  · split
    · exact Nat.le_refl _
    · exact rebuild_theta_le' c S U s h
  · exact Nat.le_refl _

/-- adding keys that are screened out (≥ min U theta) keeps the invariant -/
theorem tinv_add_ge (c : Cfg) (S ks : List Nat) (U : Nat) (s : St σ) (h : TInv c S U s)
    (hge : ∀ x, x ∈ ks → U ≤ x ∨ s.theta ≤ x) : TInv c (S ++ ks) U s := by
  refine ⟨h.sorted, ?_, ?_, h.t_le, ?_, h.klen⟩
  · intro x hx; exact ⟨List.mem_append_left _ (h.sub x hx).1, (h.sub x hx).2⟩
  · intro x hS hU hT
    rcases List.mem_append.1 hS with h1 | h1
    · exact h.low x h1 hU hT
    · rcases hge x h1 with h2 | h2 <;> omega
  · rcases h.t_mem with h1 | h1
    · exact Or.inl h1
    · exact Or.inr (List.mem_append_left _ h1)

/-- the table after offering one qualifying entry -/
theorem tinv_insert (c : Cfg) (S : List Nat) (U : Nat) (s : St σ) (k : Nat) (f : Option σ → σ)
    (h : TInv c S U s) (hk : k < s.theta) :
    TInv c (S ++ [k]) U
      (match lookup k s.ents with
       | some _ => { s with ents := upsert k f s.ents }
       | none => afterInsert c { s with ents := upsert k f s.ents }) := by
  have hmid : ∀ (lg : Nat) (hlen : s.theta < c.theta0 → 2^c.lgNom ≤ (upsert k f s.ents).length),
      TInv c (S ++ [k]) U ({ theta := s.theta, ents := upsert k f s.ents, isEmpty := s.isEmpty, lgCur := lg } : St σ) := by
    intro lg hlen
    refine ⟨sorted_upsert _ _ _ h.sorted, ?_, ?_, h.t_le, ?_, hlen⟩
    · intro x hx
      rw [mem_keys_upsert] at hx
      rcases hx with rfl | hx
      · exact ⟨by simp, hk⟩
      · exact ⟨List.mem_append_left _ (h.sub x hx).1, (h.sub x hx).2⟩
    · intro x hS hU hT
      rw [mem_keys_upsert]
      rcases List.mem_append.1 hS with h1 | h1
      · exact Or.inr (h.low x h1 hU hT)
      · simp only [List.mem_singleton] at h1; exact Or.inl h1
    · rcases h.t_mem with h1 | h1
      · exact Or.inl h1
      · exact Or.inr (List.mem_append_left _ h1)
  split
  · rename_i v hv
    have hin : k ∈ keys s.ents := by
      apply Classical.byContradiction
      intro hc
      rw [(lookup_none_iff k s.ents).2 hc] at hv
      cases hv
    apply hmid
    intro hlt
    rw [length_upsert_old _ _ _ hin h.sorted]
    exact h.klen hlt
  · rename_i hv
    have hnin : k ∉ keys s.ents := (lookup_none_iff k s.ents).1 hv
    apply tinv_afterInsert
    apply hmid
    intro hlt
    rw [length_upsert_new _ _ _ hnin]
    have := h.klen hlt
    omega

theorem insert_theta_le (c : Cfg) (S : List Nat) (U : Nat) (s : St σ) (k : Nat) (f : Option σ → σ)
    (h : TInv c S U s) (hk : k < s.theta) :
    (match lookup k s.ents with
       | some _ => { s with ents := upsert k f s.ents }
       | none => afterInsert c { s with ents := upsert k f s.ents }).theta ≤ s.theta := by
  split
  · exact Nat.le_refl _
  · rename_i hv
    have hnin : k ∉ keys s.ents := (lookup_none_iff k s.ents).1 hv
    have hmid : TInv c (S ++ [k]) U ({ theta := s.theta, ents := upsert k f s.ents, isEmpty := s.isEmpty, lgCur := s.lgCur } : St σ) := by
      refine ⟨sorted_upsert _ _ _ h.sorted, ?_, ?_, h.t_le, ?_, ?_⟩
      · intro x hx
        rw [mem_keys_upsert] at hx
        rcases hx with rfl | hx
        · exact ⟨by simp, hk⟩
        · exact ⟨List.mem_append_left _ (h.sub x hx).1, (h.sub x hx).2⟩
      · intro x hS hU hT
        rw [mem_keys_upsert]
        rcases List.mem_append.1 hS with h1 | h1
        · exact Or.inr (h.low x h1 hU hT)
        · simp only [List.mem_singleton] at h1; exact Or.inl h1
      · rcases h.t_mem with h1 | h1
        · exact Or.inl h1
        · exact Or.inr (List.mem_append_left _ h1)
      · intro hlt
        rw [length_upsert_new _ _ _ hnin]
        have := h.klen hlt
        omega
    exact afterInsert_theta_le' c _ U _ hmid

/-! ### the union object -/

def UInv (c : Cfg) (S : List Nat) (u : Union σ) : Prop := TInv c S u.unionTheta u.tbl

theorem unionEntry_unionTheta (c : Cfg) (pol : σ → σ → σ) (u : Union σ) (e : Nat × σ) :
    (unionEntry c pol u e).unionTheta = u.unionTheta := by
  unfold unionEntry; simp only; split <;> rfl

theorem unionEntry_isEmpty (c : Cfg) (pol : σ → σ → σ) (u : Union σ) (e : Nat × σ) :
    (unionEntry c pol u e).tbl.isEmpty = u.tbl.isEmpty := by
  unfold unionEntry; simp only; split
  · rfl
  · simp only [afterInsert_isEmpty]

theorem uinv_entry (c : Cfg) (pol : σ → σ → σ) (S : List Nat) (u : Union σ) (e : Nat × σ)
    (h : UInv c S u) (hk : e.1 < u.tbl.theta) : UInv c (S ++ [e.1]) (unionEntry c pol u e) := by
  unfold UInv
  rw [unionEntry_unionTheta]
  have := tinv_insert c S u.unionTheta u.tbl e.1 (fun o => match o with | none => e.2 | some x => pol x e.2) h hk
  unfold unionEntry
  simp only
  split <;> rename_i hv <;> simp only [hv] at this <;> exact this

theorem unionEntry_theta_le (c : Cfg) (pol : σ → σ → σ) (S : List Nat) (u : Union σ) (e : Nat × σ)
    (h : UInv c S u) (hk : e.1 < u.tbl.theta) : (unionEntry c pol u e).tbl.theta ≤ u.tbl.theta := by
  have := insert_theta_le c S u.unionTheta u.tbl e.1 (fun o => match o with | none => e.2 | some x => pol x e.2) h hk
  unfold unionEntry
  simp only
  split <;> rename_i hv <;> simp only [hv] at this <;> exact this

/-- the whole entry loop: all keys of the input are added to `S`; the early stop for ordered inputs is sound -/
theorem uinv_loop (c : Cfg) (pol : σ → σ → σ) (ord : Bool) (l : List (Nat × σ)) :
    ∀ (S : List Nat) (u : Union σ), UInv c S u → (ord = true → (keys l).Pairwise (· < ·)) →
      UInv c (S ++ keys l) (unionLoop c pol ord l u) ∧
      (unionLoop c pol ord l u).unionTheta = u.unionTheta ∧
      (unionLoop c pol ord l u).tbl.theta ≤ u.tbl.theta ∧
      (unionLoop c pol ord l u).tbl.isEmpty = u.tbl.isEmpty := by
  induction l with
  | nil => intro S u h _; simpa [unionLoop, UInv] using h
  | cons e t ih =>
    intro S u h hs
    have hs' : ord = true → (keys t).Pairwise (· < ·) := fun ho => by
      have := hs ho; simp only [keys_cons, List.pairwise_cons] at this; exact this.2
    simp only [unionLoop]
    split
    · rename_i hq
      have h1 := uinv_entry c pol S u e h hq.2
      have h2 := ih (S ++ [e.1]) (unionEntry c pol u e) h1 hs'
      refine ⟨?_, ?_, ?_, ?_⟩
      · simpa [keys_cons, List.append_assoc] using h2.1
      · rw [h2.2.1, unionEntry_unionTheta]
      · exact Nat.le_trans h2.2.2.1 (unionEntry_theta_le c pol S u e h hq.2)
      · rw [h2.2.2.2, unionEntry_isEmpty]
    · rename_i hq
      have hge : u.unionTheta ≤ e.1 ∨ u.tbl.theta ≤ e.1 := by omega
      split
      · rename_i ho
        -- early stop: every remaining key is larger than e.1, hence screened out as well
        have hsorted := hs ho
        simp only [keys_cons, List.pairwise_cons] at hsorted
        refine ⟨?_, rfl, Nat.le_refl _, rfl⟩
        apply tinv_add_ge c S (keys (e :: t)) u.unionTheta u.tbl h
        intro x hx
        simp only [keys_cons, List.mem_cons] at hx
        rcases hx with rfl | hx
        · exact hge
        · have := hsorted.1 x hx
          rcases hge with h3 | h3
          · exact Or.inl (by omega)
          · exact Or.inr (by omega)
      · have h1 : UInv c (S ++ [e.1]) u := by
          apply tinv_add_ge c S [e.1] u.unionTheta u.tbl h
          intro x hx; simp only [List.mem_singleton] at hx; subst hx; exact hge
        have h2 := ih (S ++ [e.1]) u h1 hs'
        refine ⟨?_, h2.2.1, h2.2.2.1, h2.2.2.2⟩
        simpa [keys_cons, List.append_assoc] using h2.1

end DS.Theta

/- C19, KLL sketch part 13: the level-zero loop of `merge` and the min/max update. -/
import DSProofs.Lemmas.LifeKllL
namespace DS.Life.Kll
open DS.Life

theorem ReallocIds.congr {h h2 h3 : Heap} {b b1 : Nat} (r : ReallocIds h h2 b b1) (hid : h3.ids = h2.ids)
    (hnx : h3.next = h2.next) : ReallocIds h h3 b b1 :=
  ⟨by rw [hnx]; exact r.next, by rw [hnx]; exact r.fresh, fun x a c => by rw [hid]; exact r.old x a c,
   fun x a => by rw [hid]; exact r.new x a, by rw [hid]; exact r.self⟩

/-- the source side during a merge: level zero consumed up to `i` -/
structure OSide (P : Params) (h' : Heap) (o : Sketch) (ob : Nat) (byMove : Bool) (i : Nat) : Prop where
  inv : Inv P h' o
  usable : byMove = false → Usable P h' o
  live : LiveOn h' ob i o.itemsSize

theorem OSide.transfer {P : Params} {h h' : Heap} {o : Sketch} {ob : Nat} {byMove : Bool} {i : Nat}
    (os : OSide P h o ob byMove i) (hob : o.items = some ob) (so : ∀ x, x ∈ owned o → SameOn h h' x)
    (hn : h.next ≤ h'.next) : OSide P h' o ob byMove i :=
  ⟨os.inv.transfer so hn, fun e => (os.usable e).transfer so hn, fun j h1 h2 => by
    rw [(so ob (mem_owned.2 (Or.inr (Or.inl hob)))).st]; exact os.live j h1 h2⟩

/-- objects of the items block of `o` were moved from: `o` can still be destroyed / assigned to -/
theorem Inv.of_nonraw {P : Params} {h h' : Heap} {o : Sketch} {ob : Nat} (inv : Inv P h o) (hob : o.items = some ob)
    (so : ∀ x, x ∈ owned o → x ≠ ob → SameOn h h' x) (hn : h.next ≤ h'.next)
    (hc : ∀ m, HasCells h ob m → HasCells h' ob m)
    (hst : ∀ j, stAt h' ob j = stAt h ob j ∨ (stAt h ob j ≠ .raw ∧ stAt h' ob j ≠ .raw)) : Inv P h' o := by
  obtain ⟨lok, iat, hblt, hbself, hbview⟩ := inv.items_ok ob hob
  refine ⟨inv.m_eq, (so _ (mem_owned.2 (Or.inl rfl)) (fun e => hbself e.symm)).cells _ inv.self_cells,
    by have := inv.self_lt; omega, ?_, ?_⟩
  · intro v hv
    obtain ⟨a, b, c, d⟩ := inv.view_ok v hv
    have sv := so v (mem_owned.2 (Or.inr (Or.inr hv))) (fun e => hbview (e ▸ hv))
    exact ⟨sv.cells _ a, by rw [sv.st]; exact b, by omega, d⟩
  · intro b' hb'
    rw [hob] at hb'; cases hb'
    refine ⟨lok, ⟨hc _ iat.cells, fun j hj => ?_, fun j h1 h2 => ?_⟩, by omega, hbself, hbview⟩
    · rcases hst j with e | e
      · rw [e]; exact iat.raw j hj
      · exact absurd (iat.raw j hj) e.1
    · rcases hst j with e | e
      · rw [e]; exact iat.nonraw j h1 h2
      · exact e.2

/-- the bound on the number of levels in terms of the recorded weight -/
def PW (s : Sketch) : Prop := s.numLevels = 1 ∨ 2 ^ (s.numLevels - 1) ≤ W s

theorem PW.step {s s' : Sketch} (hw : W s' = W s + 1) (hg : LevelGrowth s s') (p : PW s) : PW s' := by
  unfold PW at *
  unfold LevelGrowth at hg
  rcases hg with e | ⟨e, hge⟩
  · rw [e]
    rcases p with e' | e'
    · exact Or.inl e'
    · right; omega
  · right
    rw [e, Nat.add_sub_cancel]
    omega

theorem mergeStep_spec (P : Params) (hP : P.OK) (n0 : Nat) (ids0 : List Nat) (s o : Sketch) (b : Nat) (h : Heap)
    (ctx : MCtx P n0 ids0 s o b h) (ob : Nat) (hob : o.items = some ob) (byMove : Bool) (hA : Heap)
    (_hAid : hA.ids = ids0) (hAnx : hA.next = n0) (i : Nat) (acc : Sketch × List Bool) (ba : Nat) (h1 : Heap)
    (ss : SSide (foot (owned s ++ owned o) n0) hA h1 s acc.1 b ba) (os : OSide P h1 o ob byMove i)
    (hi : i < o.itemsSize) :
    SafeF (foot (owned s ++ owned o) n0) h1 (mergeStep byMove ob i acc h1)
      (fun r h' => ∃ ba', SSide (foot (owned s ++ owned o) n0) hA h' s r.1 b ba' ∧ OSide P h' o ob byMove (i + 1) ∧
        (PW acc.1 → PW r.1) ∧ W r.1 = W acc.1 + 1) := by
  obtain ⟨hself_lt, hblt, hbself, hbi, hviewf, hof⟩ := ctx.static
  obtain ⟨sa, ca⟩ := acc
  simp only at ss
  obtain ⟨io, sm, re, selfc, mm, view, hSba⟩ := ss
  have hobo : ob ∈ owned o := mem_owned.2 (Or.inr (Or.inl hob))
  have hSo : ∀ x, x ∈ owned o → foot (owned s ++ owned o) n0 x = true := fun x hx => foot_own (by simp [hx])
  have hSs : ∀ x, x ∈ owned s → foot (owned s ++ owned o) n0 x = true := fun x hx => foot_own (by simp [hx])
  have hn1 : n0 ≤ h1.next := by have := re.next; omega
  have hbab : ba = b ∨ n0 ≤ ba := by
    rcases re.fresh with e | e
    · exact Or.inl e
    · right; omega
  have hbalt : ba < h1.next := by
    rcases re.fresh with e | e
    · omega
    · exact e.2
  have hoba : ∀ x, x ∈ owned o → x ≠ ba := fun x hx => by
    rcases hbab with e | e
    · rw [e]; exact (hof x hx).2.2.1
    · have := (hof x hx).1; omega
  have hselfba : s.self ≠ ba := by rcases hbab with e | e; rw [e]; exact fun e' => hbself e'.symm; omega
  have hm2 : 2 ≤ sa.m := by rw [sm.m, ctx.us.toInv.m_eq]; exact hP.1
  have hwf1 : ∀ x, x ∈ h1.ids → x < h1.next := re.wf (by omega)
  unfold mergeStep
  simp only
  apply SafeF.bind' (internalUpdate_spec (S := foot (owned s ++ owned o) n0) sa ca h1 hSba
    (fun x hx => foot_new (by omega)) io hm2 hbalt hwf1)
  intro r h2 ⟨b1, hb1, lok1, e0, il2, hidx, re12, sm12, _, hSb1, hw12, hg12⟩ _
  obtain ⟨s1, index, c1⟩ := r
  simp only at hb1 lok1 e0 il2 hidx sm12 hw12 hg12 ⊢
  apply step_deref_eq hb1
  have hn2 := re12.next
  have hb1b : b1 = ba ∨ h1.next ≤ b1 := by
    rcases re12.fresh with e | e
    · exact Or.inl e
    · exact Or.inr e.1
  have hob1 : ∀ x, x ∈ owned o → x ≠ b1 := fun x hx => by
    rcases hb1b with e | e
    · rw [e]; exact hoba x hx
    · have := (hof x hx).1; omega
  have hselfb1 : s.self ≠ b1 := by rcases hb1b with e | e; rw [e]; exact hselfba; omega
  have o12 : ∀ x, x ∈ owned o → SameOn h1 h2 x := fun x hx =>
    re12.others x (by have := (hof x hx).1; omega) (hoba x hx)
  have os2 := os.transfer hob o12 hn2
  have self12 : SameOn h1 h2 s.self := re12.others _ (by omega) hselfba
  obtain ⟨_, iato, _⟩ := os2.inv.items_ok ob hob
  obtain ⟨vi, hvi⟩ := os2.live i (Nat.le_refl _) hi
  -- the state after the item went into slot `index` of `b1`, whatever else happened to cell `(ob, i)`
  have fin : ∀ h3, SameBut h2 h3 (fun b' j => (b' = ob ∧ j = i) ∨ (b' = b1 ∧ j = index)) →
      (∃ w, stAt h3 b1 index = .live w) → OSide P h3 o ob byMove (i + 1) →
      ∃ ba', SSide (foot (owned s ++ owned o) n0) hA h3 s s1 b ba' ∧ OSide P h3 o ob byMove (i + 1) ∧
        (PW sa → PW s1) ∧ W s1 = W sa + 1 := by
    intro h3 sb3 hl3 os3
    refine ⟨b1, ⟨⟨hb1, lok1, ?_⟩, sm.trans sm12, ?_, ?_, ?_, ?_, hSb1⟩, os3, PW.step hw12 hg12, hw12⟩
    · rw [e0]
      refine ⟨sb3.cells _ _ il2.cells, fun j hj => ?_, fun j h1' h2' => ?_⟩
      · rw [sb3.st _ _ (fun x => by
          rcases x with x | x
          · exact hob1 _ hobo x.1.symm
          · omega)]
        exact il2.raw j (by omega)
      · by_cases e : j = index
        · subst e; exact hl3
        · rw [sb3.st _ _ (fun x => by
            rcases x with x | x
            · exact hob1 _ hobo x.1.symm
            · exact e x.2)]
          exact il2.live j (by omega) h2'
    · exact (re.trans re12.toIds (by omega)).congr sb3.ids sb3.next
    · exact sb3.cells _ _ (self12.cells _ selfc)
    · have e : ∀ j, stAt h3 s.self j = stAt h1 s.self j := fun j => by
        rw [sb3.st _ _ (fun x => by
          rcases x with x | x
          · exact (hof _ hobo).2.1 x.1.symm
          · exact hselfb1 x.1), self12.st]
      rw [e, e]; exact mm
    · intro w hw
      obtain ⟨x1, x2, x3⟩ := hviewf w hw
      have hwba : w ≠ ba := by rcases hbab with e | e; rw [e]; exact x2; omega
      have hwb1 : w ≠ b1 := by rcases hb1b with e | e; rw [e]; exact hwba; omega
      have hwob : w ≠ ob := fun e => (hof _ hobo).2.2.2 (e ▸ hw)
      have sw : SameOn h1 h3 w := (re12.others w (by omega) hwba).trans
        (sb3.sameOn (fun j x => by rcases x with x | x; exact hwob x.1; exact hwb1 x.1))
      exact ⟨sw.cells _ (view w hw).1, by rw [sw.st]; exact (view w hw).2⟩
  unfold fwdConstruct
  cases byMove with
  | false =>
    simp only [Bool.false_eq_true, if_false]
    apply vstep_copyConstruct iato.cells hi hvi il2.cells hidx (il2.raw index (by omega)) hSb1
    intro h3 sb3 hst3
    apply SafeF.pure
    apply fin h3 (sb3.mono (fun _ _ x => Or.inr x)) ⟨vi, hst3⟩
    have os3 := os2.transfer hob (fun x hx => sb3.sameOn (fun j e => hob1 x hx e.1)) (by rw [sb3.next]; exact Nat.le_refl _)
    exact ⟨os3.inv, os3.usable, fun j h1' h2' => os3.live j (by omega) h2'⟩
  | true =>
    simp only [if_true]
    apply vstep_moveConstruct iato.cells hi hvi il2.cells hidx (il2.raw index (by omega)) (hSo _ hobo) hSb1
    intro h3 sb3 hst3 hsm3
    apply SafeF.pure
    apply fin h3 sb3 ⟨vi, hst3⟩
    refine ⟨Inv.of_nonraw os2.inv hob (fun x hx hxo => sb3.sameOn (fun j e => by
        rcases e with e | e
        · exact hxo e.1
        · exact hob1 x hx e.1)) (by rw [sb3.next]; exact Nat.le_refl _) (fun m hc => sb3.cells _ _ hc) (fun j => ?_),
      (fun e => by cases e), fun j h1' h2' => ?_⟩
    · by_cases e : j = i
      · subst e
        right
        exact ⟨by rw [hvi]; simp, by rw [hsm3]; simp⟩
      · left
        exact sb3.st _ _ (fun x => by
          rcases x with x | x
          · exact e x.2
          · exact hob1 _ hobo x.1)
    · rw [sb3.st _ _ (fun x => by
        rcases x with x | x
        · omega
        · exact hob1 _ hobo x.1)]
      exact os2.live j (by omega) h2'


/-- `Inv` does not look at the states of the optionals -/
theorem Inv.transfer' {P : Params} {h h' : Heap} {o : Sketch} (inv : Inv P h o)
    (so : ∀ x, x ∈ owned o → x ≠ o.self → SameOn h h' x) (hc : HasCells h' o.self 2) (hn : h.next ≤ h'.next) :
    Inv P h' o := by
  refine ⟨inv.m_eq, hc, by have := inv.self_lt; omega, ?_, ?_⟩
  · intro v hv
    obtain ⟨a, b, c, d⟩ := inv.view_ok v hv
    have sv := so v (mem_owned.2 (Or.inr (Or.inr hv))) d
    exact ⟨sv.cells _ a, by rw [sv.st]; exact b, by omega, d⟩
  · intro b hb
    obtain ⟨a, c, d, e, f⟩ := inv.items_ok b hb
    exact ⟨a, c.transfer (so b (mem_owned.2 (Or.inr (Or.inl hb))) e), by omega, e, f⟩

/-- what `merge_higher_levels` has to deliver (supplied by the caller of `mergeTail_spec`) -/
def MHLSpec (P : Params) (n0 : Nat) (s o : Sketch) (b : Nat) (byMove : Bool) (hA : Heap) : Prop :=
  ∀ (sa : Sketch) (ca : List Bool) (ba : Nat) (h1 : Heap) (finalN : Nat),
    SSide (foot (owned s ++ owned o) n0) hA h1 s sa b ba → Inv P h1 o → (byMove = false → Usable P h1 o) →
    (∀ ob, o.items = some ob → LiveOn h1 ob (o.levels.getD 1 0) o.itemsSize) →
    W sa = s.n + pop o.levels 0 → finalN = s.n + o.n → PW sa → finalN < 2 ^ 64 →
    SafeF (foot (owned s ++ owned o) n0) h1 (mergeHigherLevels sa o false finalN ca h1)
      (fun r h' => (∃ ba', SSide (foot (owned s ++ owned o) n0) hA h' s r.1 b ba') ∧ Inv P h' o ∧
        (byMove = false → Usable P h' o) ∧ (r.1.numLevels = 1 ∨ 2 ^ (r.1.numLevels - 1) ≤ finalN))

/-- the state after the min/max update of `merge` -/
structure AfterMM (h hA : Heap) (s o : Sketch) (byMove : Bool) : Prop where
  sb : SameBut h hA (fun b' _ => b' = s.self ∨ b' = o.self)
  smm : (∃ w, stAt hA s.self 0 = .live w) ∧ (∃ w, stAt hA s.self 1 = .live w)
  okeep : byMove = false → ∀ j, stAt hA o.self j = stAt h o.self j

theorem mergeTail_spec (P : Params) (hP : P.OK) (n0 : Nat) (ids0 : List Nat) (s o : Sketch) (b : Nat) (h : Heap)
    (ctx : MCtx P n0 ids0 s o b h) (byMove : Bool) (coins : List Bool) (hon : o.n ≠ 0) (hA : Heap)
    (amm : AfterMM h hA s o byMove) (hml : o.numLevels ≥ 2 → MHLSpec P n0 s o b byMove hA)
    (h64 : o.numLevels ≥ 2 → s.n + o.n < 2 ^ 64) :
    SafeF (foot (owned s ++ owned o) n0) hA (mergeTail s o byMove coins hA)
      (fun r h'' => Usable P h'' r.1 ∧ Inv P h'' o ∧ (byMove = false → Usable P h'' o) ∧
        (∀ x, x ∈ owned r.1 → x ∉ owned o) ∧ Owns h'' ids0 (owned s ++ owned o) (owned r.1 ++ owned o) n0) := by
  obtain ⟨hself_lt, hblt, hbself, hbi, hviewf, hof⟩ := ctx.static
  have invs := ctx.us.toInv
  have invo := ctx.uo.toInv
  obtain ⟨ob, hob, _⟩ := ctx.uo.items
  have hobo : ob ∈ owned o := mem_owned.2 (Or.inr (Or.inl hob))
  obtain ⟨loko, _, _, hobself, _⟩ := invo.items_ok ob hob
  have ilo := ctx.uo.itemsLive hob
  have hAid : hA.ids = ids0 := by rw [amm.sb.ids, ctx.hid]
  have hAnx : hA.next = n0 := by rw [amm.sb.next, ctx.hnx]
  have hoself : o.self ∈ owned o := mem_owned.2 (Or.inl rfl)
  have hso : s.self ≠ o.self := fun e => (hof _ hoself).2.1 e.symm
  -- blocks other than the two object storages are unchanged
  have oth : ∀ x, x ≠ s.self → x ≠ o.self → SameOn h hA x := fun x h1 h2 =>
    amm.sb.sameOn (fun j e => by rcases e with e | e; exact h1 e; exact h2 e)
  have sb0 : SameOn h hA b := oth b hbself (fun e => (hof _ hoself).2.2.1 e.symm)
  have ss0 : SSide (foot (owned s ++ owned o) n0) hA hA s s b b := by
    refine ⟨⟨ctx.hb, (invs.items_ok b ctx.hb).1, (ctx.us.itemsLive ctx.hb).transfer sb0⟩, SameMeta.refl s,
      ReallocIds.of_eq rfl rfl (fun x hx => by rw [hAid] at hx; rw [hAnx]; exact ctx.hwf x hx) (by rw [hAid]; exact hbi),
      amm.sb.cells _ _ invs.self_cells, amm.smm, fun w hw => ?_, foot_own (by simp [mem_owned, ctx.hb])⟩
    obtain ⟨x1, x2, x3⟩ := hviewf w hw
    have sw := oth w x3 (fun e => (hof _ hoself).2.2.2 (e ▸ hw))
    exact ⟨sw.cells _ (invs.view_ok w hw).1, by rw [sw.st]; exact (invs.view_ok w hw).2.1⟩
  have os0 : OSide P hA o ob byMove (o.levels.getD 0 0) := by
    have soth : ∀ x, x ∈ owned o → x ≠ o.self → SameOn h hA x := fun x hx hne => oth x (hof x hx).2.1 hne
    refine ⟨invo.transfer' soth (amm.sb.cells _ _ invo.self_cells) (by rw [amm.sb.next]; exact Nat.le_refl _),
      fun e => ctx.uo.transfer (fun x hx => ?_) (by rw [amm.sb.next]; exact Nat.le_refl _), fun j h1 h2 => ?_⟩
    · by_cases hx' : x = o.self
      · subst hx'; exact ⟨amm.okeep e, fun m hc => amm.sb.cells _ _ hc⟩
      · exact soth x hx hx'
    · rw [(soth ob hobo hobself).st]; exact ilo.live j h1 h2
  unfold mergeTail
  have hlen := loko.len
  have hnl := loko.nl
  apply step_lv (by omega)
  apply step_lv (by omega)
  apply step_deref_eq hob
  have h01 : o.levels.getD 0 0 ≤ o.levels.getD 1 0 := loko.mono 0 (by omega)
  have h1t : o.levels.getD 1 0 ≤ o.itemsSize := loko.le_top 1 (by omega)
  have loop := TripleS.foldUp (n0 := 0) (S := foot (owned s ++ owned o) n0)
    (fun i (acc : Sketch × List Bool) h' => ∃ ba, SSide (foot (owned s ++ owned o) n0) hA h' s acc.1 b ba ∧
      OSide P h' o ob byMove i ∧ PW acc.1 ∧ W acc.1 + o.levels.getD 0 0 = W s + i)
    (mergeStep byMove ob) (o.levels.getD 1 0 - o.levels.getD 0 0) (o.levels.getD 0 0) (s, coins) ?_
  · have hpw0 : PW s := by
      unfold PW W; rw [ctx.us.wt]; exact ctx.us.pw
    apply SafeF.bind_triple loop (Nat.zero_le _) ⟨b, ss0, os0, hpw0, rfl⟩
    intro acc h1 ⟨ba, ss1, os1, hpw1, hw1⟩ _
    obtain ⟨sa, ca⟩ := acc
    simp only at ss1 hpw1 hw1 ⊢
    have hfn : s.n + o.n ≠ 0 := by omega
    have hWs : W s = s.n := ctx.us.wt
    have hWo : W o = o.n := ctx.uo.wt
    have hpwf : sumSampleWeights sa.numLevels sa.levels = s.n + o.n → (sa.numLevels = 1 ∨ 2 ^ (sa.numLevels - 1) ≤ s.n + o.n) := by
      intro e
      unfold PW W at hpw1
      rw [e] at hpw1
      exact hpw1
    by_cases hlv : o.numLevels ≥ 2
    · rw [if_pos hlv]
      have e01 : o.levels.getD 0 0 + (o.levels.getD 1 0 - o.levels.getD 0 0) = o.levels.getD 1 0 := by omega
      apply SafeF.bind' (hml hlv sa ca ba h1 (s.n + o.n) ss1 os1.inv os1.usable
        (fun ob' hob' => by rw [hob] at hob'; cases hob'; rw [← e01]; exact os1.live)
        (by simp only [pop, Nat.zero_add]; omega) rfl hpw1 (h64 hlv))
      intro r h2 ⟨⟨ba', ss2⟩, io2, uo2, hpw2⟩ _
      obtain ⟨s2, c2⟩ := r
      exact mergeFinish_spec P n0 ids0 s o b h hA h2 s2 ba' c2 byMove (s.n + o.n) ctx hAid hAnx ss2 io2 uo2 hfn
        (fun _ => hpw2)
    · rw [if_neg hlv, pure_bind_apply]
      exact mergeFinish_spec P n0 ids0 s o b h hA h1 sa ba ca byMove (s.n + o.n) ctx hAid hAnx ss1 os1.inv os1.usable hfn
        hpwf
  · intro i acc hi1 hi2 h1 _ ⟨ba, ss1, os1, hpw1, hw1⟩
    refine (mergeStep_spec P hP n0 ids0 s o b h ctx ob hob byMove hA hAid hAnx i acc ba h1 ss1 os1 (by omega)).mono ?_
    intro r h' ⟨ba', ss', os', hp', hw'⟩
    exact ⟨ba', ss', os', hp' hpw1, by omega⟩

end DS.Life.Kll

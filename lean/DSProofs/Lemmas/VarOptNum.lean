/- Rat instance of the ops-only numeric class: every operation unfolds to the field operation on `Rat`. -/
import DSModel.Num
import Mathlib.Algebra.Order.Field.Rat
import Mathlib.Tactic.Linarith
import Mathlib.Tactic.Ring
import Mathlib.Tactic.FieldSimp
import Mathlib.Tactic.Positivity
namespace DS

@[simp] theorem Num.add_rat (a b : Rat) : Num.add a b = a + b := rfl
@[simp] theorem Num.sub_rat (a b : Rat) : Num.sub a b = a - b := rfl
@[simp] theorem Num.mul_rat (a b : Rat) : Num.mul a b = a * b := rfl
@[simp] theorem Num.div_rat (a b : Rat) : Num.div a b = a / b := rfl
@[simp] theorem Num.neg_rat (a : Rat) : Num.neg a = -a := rfl
@[simp] theorem Num.ofNat_rat (n : Nat) : (Num.ofNat n : Rat) = (n : Rat) := rfl
@[simp] theorem Num.lt_rat (a b : Rat) : Num.lt a b = decide (a < b) := rfl
@[simp] theorem Num.le_rat (a b : Rat) : Num.le a b = decide (a ≤ b) := rfl
@[simp] theorem Num.eq_rat (a b : Rat) : Num.eq a b = decide (a = b) := rfl
@[simp] theorem Num.isFinite_rat (a : Rat) : Num.isFinite a = true := rfl
@[simp] theorem Num.zero_rat : (Num.zero : Rat) = 0 := by simp [Num.zero]
@[simp] theorem Num.one_rat : (Num.one : Rat) = 1 := by simp [Num.one]

end DS

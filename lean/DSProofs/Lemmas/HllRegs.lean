/- Register-level invariants of the L1 HLL model (helper lemmas; property statements live in Props/C03.lean). -/
import DSModel.Hll.Sketch
namespace DS.Hll

variable {ν : Type} [HNum ν]

/-- `m` is the maximum coupon value among the coupons satisfying `M` that fall into `slot` (0 if there is none) -/
def IsMaxAt (p : Params) (lgK : Nat) (M : Nat → Prop) (slot m : Nat) : Prop :=
  (∀ c, M c → cSlot p lgK c = slot → cValue p c ≤ m) ∧
  (m = 0 ∨ ∃ c, M c ∧ cSlot p lgK c = slot ∧ cValue p c = m)

theorem IsMaxAt.unique {p : Params} {lgK : Nat} {M : Nat → Prop} {slot a b : Nat}
    (ha : IsMaxAt p lgK M slot a) (hb : IsMaxAt p lgK M slot b) : a = b := by
  rcases ha with ⟨ha1, ha2⟩
  rcases hb with ⟨hb1, hb2⟩
  rcases ha2 with rfl | ⟨c, hc, hs, rfl⟩ <;> rcases hb2 with rfl | ⟨d, hd, ht, rfl⟩
  · rfl
  · have := ha1 d hd ht; omega
  · have := hb1 c hc hs; omega
  · have h1 := ha1 d hd ht; have h2 := hb1 c hc hs; omega

theorem IsMaxAt.congr {p : Params} {lgK : Nat} {M N : Nat → Prop} {slot m : Nat}
    (h : ∀ c, M c ↔ N c) (hm : IsMaxAt p lgK M slot m) : IsMaxAt p lgK N slot m := by
  refine ⟨fun c hc => hm.1 c ((h c).2 hc), ?_⟩
  rcases hm.2 with h0 | ⟨c, hc, hs, hv⟩
  · exact Or.inl h0
  · exact Or.inr ⟨c, (h c).1 hc, hs, hv⟩

theorem cSlot_lt (p : Params) (lgK c : Nat) : cSlot p lgK c < 2^lgK :=
  Nat.mod_lt _ (Nat.two_pow_pos lgK)

/-! ### array facts -/

theorem getD_setIfInBounds_self {a : Array Nat} {i v d : Nat} (h : i < a.size) :
    (a.setIfInBounds i v).getD i d = v := by
  simp [Array.getD_eq_getD_getElem?, h]

theorem getD_setIfInBounds_ne {a : Array Nat} {i j v d : Nat} (h : i ≠ j) :
    (a.setIfInBounds i v).getD j d = a.getD j d := by
  simp [Array.getD_eq_getD_getElem?, Array.getElem?_setIfInBounds, h]

theorem getD_eq_getElem {a : Array Nat} {i d : Nat} (h : i < a.size) : a.getD i d = a[i] := by
  simp [Array.getD_eq_getD_getElem?, h]

theorem count_setIfInBounds {a : Array Nat} {i v w : Nat} (h : i < a.size) :
    (a.setIfInBounds i v).count w = (a.count w - if a.getD i 0 = w then 1 else 0) + if v = w then 1 else 0 := by
  rw [Array.setIfInBounds, dif_pos h, Array.count_set, getD_eq_getElem h]
  simp

theorem count_pos_of_getD {a : Array Nat} {i w : Nat} (h : i < a.size) (hw : a.getD i 0 = w) : 0 < a.count w := by
  rw [getD_eq_getElem h] at hw
  apply Nat.pos_of_ne_zero
  intro h0
  rw [Array.count_eq_zero] at h0
  exact h0 (hw ▸ Array.getElem_mem h)

theorem exists_getD_of_count_pos {a : Array Nat} {w : Nat} (h : 0 < a.count w) : ∃ i, i < a.size ∧ a.getD i 0 = w := by
  have : w ∈ a := by
    apply Classical.byContradiction
    intro hn
    rw [← Array.count_eq_zero] at hn
    omega
  rcases Array.mem_iff_getElem.1 this with ⟨i, hi, he⟩
  exact ⟨i, hi, by rw [getD_eq_getElem hi]; exact he⟩

/-! ### shiftLoop -/

theorem shiftLoop_spec (regs : Array Nat) : ∀ (fuel cm : Nat),
    (∀ i, i < regs.size → cm + 1 ≤ regs.getD i 0) →
    (∀ i, i < regs.size → (shiftLoop regs fuel cm).1 ≤ regs.getD i 0) ∧
    (shiftLoop regs fuel cm).2 = regs.count (shiftLoop regs fuel cm).1
  | 0, cm, h => by
    refine ⟨fun i hi => Nat.le_of_succ_le (h i hi), ?_⟩
    simp only [shiftLoop]
    symm
    apply Classical.byContradiction
    intro hne
    rcases exists_getD_of_count_pos (Nat.pos_of_ne_zero hne) with ⟨i, hi, he⟩
    have := h i hi
    omega
  | fuel + 1, cm, h => by
    simp only [shiftLoop]
    by_cases hn : regs.count (cm + 1) = 0
    · simp only [hn, if_true]
      apply shiftLoop_spec regs fuel (cm + 1)
      intro i hi
      have h1 := h i hi
      rcases Nat.lt_or_ge (cm + 1) (regs.getD i 0) with h2 | h2
      · exact h2
      · have h3 : regs.getD i 0 = cm + 1 := by omega
        have := count_pos_of_getD hi h3
        omega
    · simp only [hn, if_false]
      exact ⟨h, trivial⟩

/-! ### the HLL-mode invariant -/

/-- invariant of a plain (non-gadget) sketch in HLL mode, `M` = the coupons offered to the register array so far -/
structure HInv (p : Params) (s : St ν) (M : Nat → Prop) : Prop where
  size : s.regs.size = 2^s.lgK
  regs : ∀ slot, slot < 2^s.lgK → IsMaxAt p s.lgK M slot (s.regs.getD slot 0)
  cm_le : s.tt = .h4 → ∀ slot, slot < 2^s.lgK → s.curMin ≤ s.regs.getD slot 0
  cnt4 : s.tt = .h4 → s.numAtCurMin = s.regs.count s.curMin
  cnt68 : s.tt ≠ .h4 → s.curMin = 0 ∧ s.numAtCurMin = s.regs.count 0

theorem HInv.newHll (p : Params) (lgK : Nat) (tt : TType) (sf : Bool) :
    HInv p (newHll lgK tt sf : St ν) (fun _ => False) := by
  refine ⟨by simp [DS.Hll.newHll], ?_, ?_, ?_, ?_⟩
  · intro slot hs
    refine ⟨fun c hc => absurd hc (by simp), Or.inl ?_⟩
    have hs' : slot < 2^lgK := hs
    simp [DS.Hll.newHll, Array.getD_eq_getD_getElem?, hs']
  · intro _ slot hs; simp [DS.Hll.newHll]
  · intro _; simp [DS.Hll.newHll, Array.count_replicate]
  · intro _; simp [DS.Hll.newHll, Array.count_replicate]

@[simp] theorem hipKxq_regs (s : St ν) (a b : Nat) : (hipKxq s a b).regs = s.regs := rfl
@[simp] theorem hipKxq_lgK (s : St ν) (a b : Nat) : (hipKxq s a b).lgK = s.lgK := rfl
@[simp] theorem hipKxq_tt (s : St ν) (a b : Nat) : (hipKxq s a b).tt = s.tt := rfl
@[simp] theorem hipKxq_curMin (s : St ν) (a b : Nat) : (hipKxq s a b).curMin = s.curMin := rfl
@[simp] theorem hipKxq_numAtCurMin (s : St ν) (a b : Nat) : (hipKxq s a b).numAtCurMin = s.numAtCurMin := rfl
@[simp] theorem hipKxq_mode (s : St ν) (a b : Nat) : (hipKxq s a b).mode = s.mode := rfl
@[simp] theorem hipKxq_tbl (s : St ν) (a b : Nat) : (hipKxq s a b).tbl = s.tbl := rfl
@[simp] theorem hipKxq_lgArr (s : St ν) (a b : Nat) : (hipKxq s a b).lgArr = s.lgArr := rfl
@[simp] theorem hipKxq_startFull (s : St ν) (a b : Nat) : (hipKxq s a b).startFull = s.startFull := rfl

@[simp] theorem raiseReg_regs (s : St ν) (slot old nv : Nat) : (raiseReg s slot old nv).regs = s.regs.setIfInBounds slot nv := rfl
@[simp] theorem raiseReg_lgK (s : St ν) (slot old nv : Nat) : (raiseReg s slot old nv).lgK = s.lgK := rfl
@[simp] theorem raiseReg_tt (s : St ν) (slot old nv : Nat) : (raiseReg s slot old nv).tt = s.tt := rfl
@[simp] theorem raiseReg_mode (s : St ν) (slot old nv : Nat) : (raiseReg s slot old nv).mode = s.mode := rfl
@[simp] theorem raiseReg_tbl (s : St ν) (slot old nv : Nat) : (raiseReg s slot old nv).tbl = s.tbl := rfl
@[simp] theorem raiseReg_lgArr (s : St ν) (slot old nv : Nat) : (raiseReg s slot old nv).lgArr = s.lgArr := rfl
@[simp] theorem raiseReg_startFull (s : St ν) (slot old nv : Nat) : (raiseReg s slot old nv).startFull = s.startFull := rfl
theorem raiseReg_curMin (s : St ν) (slot old nv : Nat) : (raiseReg s slot old nv).curMin =
    (bumpPair s.tt (s.regs.setIfInBounds slot nv) s.curMin s.numAtCurMin old).1 := rfl
theorem raiseReg_numAtCurMin (s : St ν) (slot old nv : Nat) : (raiseReg s slot old nv).numAtCurMin =
    (bumpPair s.tt (s.regs.setIfInBounds slot nv) s.curMin s.numAtCurMin old).2 := rfl

theorem hllUpdate_fields (p : Params) (s : St ν) (c : Nat) :
    (hllUpdate p s c).lgK = s.lgK ∧ (hllUpdate p s c).tt = s.tt ∧ (hllUpdate p s c).mode = s.mode ∧
    (hllUpdate p s c).tbl = s.tbl ∧ (hllUpdate p s c).lgArr = s.lgArr ∧ (hllUpdate p s c).startFull = s.startFull := by
  unfold hllUpdate
  by_cases hq : s.tt = .h4 ∧ cValue p c ≤ s.curMin
  · rw [if_pos hq]; simp
  · rw [if_neg hq]
    by_cases hlt : s.regs.getD (cSlot p s.lgK c) 0 < cValue p c
    · rw [if_pos hlt]; simp
    · rw [if_neg hlt]; simp

/-- HLL_4 bookkeeping: curMin stays a lower bound of every register and numAtCurMin its multiplicity -/
theorem bumpPair_h4 {regs : Array Nat} {slot old nv cm n : Nat} (hsz : slot < regs.size)
    (hold : regs.getD slot 0 = old) (hlt : old < nv)
    (hcm : ∀ i, i < regs.size → cm ≤ regs.getD i 0) (hn : n = regs.count cm) :
    (∀ i, i < regs.size → (bumpPair .h4 (regs.setIfInBounds slot nv) cm n old).1 ≤ (regs.setIfInBounds slot nv).getD i 0) ∧
    (bumpPair .h4 (regs.setIfInBounds slot nv) cm n old).2 =
      (regs.setIfInBounds slot nv).count (bumpPair .h4 (regs.setIfInBounds slot nv) cm n old).1 := by
  have hregs' : ∀ i, (regs.setIfInBounds slot nv).getD i 0 = if i = slot then nv else regs.getD i 0 := by
    intro i
    by_cases he : i = slot
    · subst he; simp [getD_setIfInBounds_self hsz]
    · simp [he, getD_setIfInBounds_ne (Ne.symm he)]
  have hge : ∀ i, i < regs.size → cm ≤ (regs.setIfInBounds slot nv).getD i 0 := by
    intro i hi; rw [hregs']
    by_cases he : i = slot
    · rw [if_pos he]; subst he; have := hcm i hi; omega
    · rw [if_neg he]; exact hcm i hi
  have hold_ge : cm ≤ old := by rw [← hold]; exact hcm _ hsz
  have hcs := count_setIfInBounds (a := regs) (i := slot) (v := nv) (w := cm) hsz
  rw [hold, if_neg (show ¬ nv = cm by omega)] at hcs
  unfold bumpPair
  simp only
  split
  · rename_i hoc
    rw [if_pos hoc] at hcs
    split
    · rename_i hz
      have hsl := shiftLoop_spec (regs.setIfInBounds slot nv) 64 cm (by
        intro i hi
        simp only [Array.size_setIfInBounds] at hi
        rcases Nat.lt_or_ge cm ((regs.setIfInBounds slot nv).getD i 0) with h2 | h2
        · exact h2
        · exfalso
          have h3 : (regs.setIfInBounds slot nv).getD i 0 = cm := by have := hge i hi; omega
          have := count_pos_of_getD (a := regs.setIfInBounds slot nv) (i := i) (by simp [hi]) h3
          omega)
      exact ⟨fun i hi => hsl.1 i (by simp [hi]), hsl.2⟩
    · exact ⟨hge, by simp only; omega⟩
  · rename_i hoc
    rw [if_neg hoc] at hcs
    exact ⟨hge, by simp only; omega⟩

/-- HLL_6 / HLL_8 bookkeeping: numAtCurMin counts the zero registers -/
theorem bumpPair_h68 {tt : TType} {regs : Array Nat} {slot old nv n : Nat} (htt : tt ≠ .h4) (hsz : slot < regs.size)
    (hold : regs.getD slot 0 = old) (hlt : old < nv) (hn : n = regs.count 0) :
    bumpPair tt (regs.setIfInBounds slot nv) 0 n old = (0, (regs.setIfInBounds slot nv).count 0) := by
  have hcs := count_setIfInBounds (a := regs) (i := slot) (v := nv) (w := 0) hsz
  rw [hold, if_neg (show ¬ nv = 0 by omega)] at hcs
  unfold bumpPair
  cases tt
  · exact absurd rfl htt
  all_goals
    simp only
    split
    · rename_i ho; rw [if_pos ho] at hcs; simp only [Prod.mk.injEq, true_and]; omega
    · rename_i ho; rw [if_neg ho] at hcs; simp only [Prod.mk.injEq, true_and]; omega

/-- offering one more coupon to the register array keeps the invariant -/
theorem HInv.hllUpdate {p : Params} {s : St ν} {M : Nat → Prop} (h : HInv p s M) (c : Nat) :
    HInv p (hllUpdate p s c) (fun x => M x ∨ x = c) := by
  have hslot := cSlot_lt p s.lgK c
  have hsz : cSlot p s.lgK c < s.regs.size := by rw [h.size]; exact hslot
  -- a coupon whose value does not exceed its register changes nothing
  have keep : cValue p c ≤ s.regs.getD (cSlot p s.lgK c) 0 → HInv p s (fun x => M x ∨ x = c) := by
    intro hle
    refine ⟨h.size, ?_, h.cm_le, h.cnt4, h.cnt68⟩
    intro slot hs
    have hm := h.regs slot hs
    refine ⟨?_, ?_⟩
    · rintro x (hx | rfl) hxs
      · exact hm.1 x hx hxs
      · rw [← hxs]; exact hle
    · rcases hm.2 with h0 | ⟨x, hx, hxs, hxv⟩
      · exact Or.inl h0
      · exact Or.inr ⟨x, Or.inl hx, hxs, hxv⟩
  unfold DS.Hll.hllUpdate
  by_cases hq : s.tt = .h4 ∧ cValue p c ≤ s.curMin
  · rw [if_pos hq]
    exact keep (Nat.le_trans hq.2 (h.cm_le hq.1 _ hslot))
  · rw [if_neg hq]
    by_cases hlt : s.regs.getD (cSlot p s.lgK c) 0 < cValue p c
    · rw [if_pos hlt]
      have hregs' : ∀ slot, (s.regs.setIfInBounds (cSlot p s.lgK c) (cValue p c)).getD slot 0 =
          if slot = cSlot p s.lgK c then cValue p c else s.regs.getD slot 0 := by
        intro slot
        by_cases he : slot = cSlot p s.lgK c
        · subst he; simp [getD_setIfInBounds_self hsz]
        · simp [he, getD_setIfInBounds_ne (Ne.symm he)]
      refine ⟨by simp [h.size], ?_, ?_, ?_, ?_⟩
      · intro slot hs
        simp only [raiseReg_lgK] at hs
        simp only [raiseReg_regs, raiseReg_lgK]
        rw [hregs']
        have hm := h.regs slot hs
        by_cases he : slot = cSlot p s.lgK c
        · rw [if_pos he]
          subst he
          refine ⟨?_, Or.inr ⟨c, Or.inr rfl, rfl, rfl⟩⟩
          rintro x (hx | rfl) hxs
          · have := hm.1 x hx hxs; omega
          · omega
        · rw [if_neg he]
          refine ⟨?_, ?_⟩
          · rintro x (hx | rfl) hxs
            · exact hm.1 x hx hxs
            · exact absurd hxs.symm he
          · rcases hm.2 with h0 | ⟨x, hx, hxs, hxv⟩
            · exact Or.inl h0
            · exact Or.inr ⟨x, Or.inl hx, hxs, hxv⟩
      · intro htt slot hs
        simp only [raiseReg_tt] at htt
        simp only [raiseReg_lgK] at hs
        rw [raiseReg_curMin, raiseReg_regs, htt]
        have hb := bumpPair_h4 (regs := s.regs) (cm := s.curMin) (n := s.numAtCurMin) hsz rfl hlt
          (fun i hi => h.cm_le htt i (by rw [← h.size]; exact hi)) (h.cnt4 htt)
        exact hb.1 slot (by rw [h.size]; exact hs)
      · intro htt
        simp only [raiseReg_tt] at htt
        rw [raiseReg_curMin, raiseReg_numAtCurMin, raiseReg_regs, htt]
        exact (bumpPair_h4 (regs := s.regs) (cm := s.curMin) (n := s.numAtCurMin) hsz rfl hlt
          (fun i hi => h.cm_le htt i (by rw [← h.size]; exact hi)) (h.cnt4 htt)).2
      · intro htt
        simp only [raiseReg_tt] at htt
        have h68 := h.cnt68 htt
        rw [raiseReg_curMin, raiseReg_numAtCurMin, raiseReg_regs, h68.1,
          bumpPair_h68 htt hsz rfl hlt h68.2]
        exact ⟨rfl, rfl⟩
    · rw [if_neg hlt]
      exact keep (Nat.le_of_not_lt hlt)

/-- a whole list of coupons -/
theorem HInv.foldl {p : Params} (l : List Nat) : ∀ {s : St ν} {M : Nat → Prop}, HInv p s M →
    HInv p (l.foldl (DS.Hll.hllUpdate p) s) (fun x => M x ∨ x ∈ l) := by
  induction l with
  | nil => intro s M h; simpa using h
  | cons a t ih =>
    intro s M h
    have := ih (h.hllUpdate a)
    simp only [List.foldl_cons]
    refine ⟨this.size, fun slot hs => IsMaxAt.congr ?_ (this.regs slot hs), this.cm_le, this.cnt4, this.cnt68⟩
    intro c
    simp only [List.mem_cons]
    constructor
    · rintro ((h1 | h1) | h1)
      · exact Or.inl h1
      · exact Or.inr (Or.inl h1)
      · exact Or.inr (Or.inr h1)
    · rintro (h1 | h1 | h1)
      · exact Or.inl (Or.inl h1)
      · exact Or.inl (Or.inr h1)
      · exact Or.inr h1

theorem foldl_hllUpdate_fields (p : Params) (l : List Nat) : ∀ (s : St ν),
    (l.foldl (hllUpdate p) s).lgK = s.lgK ∧ (l.foldl (hllUpdate p) s).tt = s.tt ∧ (l.foldl (hllUpdate p) s).mode = s.mode ∧
    (l.foldl (hllUpdate p) s).tbl = s.tbl ∧ (l.foldl (hllUpdate p) s).lgArr = s.lgArr ∧
    (l.foldl (hllUpdate p) s).startFull = s.startFull := by
  induction l with
  | nil => intro s; simp
  | cons a t ih =>
    intro s
    have h1 := ih (hllUpdate p s a)
    have h2 := hllUpdate_fields p s a
    simp only [List.foldl_cons]
    refine ⟨h1.1.trans h2.1, h1.2.1.trans h2.2.1, h1.2.2.1.trans h2.2.2.1, h1.2.2.2.1.trans h2.2.2.2.1,
      h1.2.2.2.2.1.trans h2.2.2.2.2.1, h1.2.2.2.2.2.trans h2.2.2.2.2.2⟩

end DS.Hll

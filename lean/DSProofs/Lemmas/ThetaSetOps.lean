/- Fold-level and permutation facts used by Props/C02.lean. -/
import DSProofs.Lemmas.ThetaInter
import Batteries.Data.List.Perm
namespace DS.Theta

variable {σ : Type}

theorem iinv_fold (pol : σ → σ → σ) (sh : Nat) (sks : List (Compact σ)) :
    ∀ (P : List (Compact σ)) (i i' : Inter σ), IInv P i → (∀ s, s ∈ P → WFop s) → (∀ s, s ∈ sks → WFop s) →
      interFold pol sh i sks = some i' → IInv (P ++ sks) i' := by
  induction sks with
  | nil =>
    intro P i i' h _ _ hf
    simp only [interFold, Option.some.injEq] at hf
    subst hf; simpa using h
  | cons sk rest ih =>
    intro P i i' h hwP hw hf
    simp only [interFold] at hf
    cases hup : interUpdate pol sh i sk with
    | none => simp [hup] at hf
    | some i1 =>
      simp only [hup] at hf
      have h1 := iinv_update pol sh P i i1 sk h hwP (hw sk (by simp)) hup
      have := ih (P ++ [sk]) i1 i' h1 (by
        intro s hs
        simp only [List.mem_append, List.mem_singleton] at hs
        rcases hs with hs | rfl
        · exact hwP s hs
        · exact hw s (by simp)) (fun s hs => hw s (by simp [hs])) hf
      simpa [List.append_assoc] using this

theorem mem_offered (sks : List (Compact σ)) (x : Nat) :
    x ∈ offered sks ↔ ∃ sk, sk ∈ sks ∧ sk.isEmpty = false ∧ x ∈ keys sk.ents := by
  induction sks with
  | nil => simp [offered]
  | cons a t ih =>
    simp only [offered, List.mem_append, ih, List.mem_cons]
    constructor
    · rintro (h | ⟨sk, h1, h2, h3⟩)
      · by_cases he : a.isEmpty = true
        · simp [he] at h
        · simp only [he, Bool.false_eq_true, if_false] at h
          exact ⟨a, Or.inl rfl, by simpa using he, h⟩
      · exact ⟨sk, Or.inr h1, h2, h3⟩
    · rintro ⟨sk, rfl | h1, h2, h3⟩
      · left; simp [h2, h3]
      · exact Or.inr ⟨sk, h1, h2, h3⟩

/-- `thetaStar` is the minimum of the starting theta and the thetas of the non-empty inputs -/
theorem thetaStar_le_iff (sks : List (Compact σ)) : ∀ (t0 v : Nat),
    thetaStar t0 sks ≤ v ↔ (t0 ≤ v ∨ ∃ sk, sk ∈ sks ∧ sk.isEmpty = false ∧ sk.theta ≤ v) := by
  induction sks with
  | nil => intro t0 v; simp [thetaStar]
  | cons a t ih =>
    intro t0 v
    simp only [thetaStar, ih, List.mem_cons]
    by_cases he : a.isEmpty = true
    · simp only [he, if_true]
      constructor
      · rintro (h | ⟨sk, h1, h2, h3⟩)
        · exact Or.inl h
        · exact Or.inr ⟨sk, Or.inr h1, h2, h3⟩
      · rintro (h | ⟨sk, rfl | h1, h2, h3⟩)
        · exact Or.inl h
        · rw [he] at h2; cases h2
        · exact Or.inr ⟨sk, h1, h2, h3⟩
    · have he' : a.isEmpty = false := by simpa using he
      simp only [he', Bool.false_eq_true, if_false]
      constructor
      · rintro (h | ⟨sk, h1, h2, h3⟩)
        · by_cases h4 : t0 ≤ v
          · exact Or.inl h4
          · exact Or.inr ⟨a, Or.inl rfl, he', by omega⟩
        · exact Or.inr ⟨sk, Or.inr h1, h2, h3⟩
      · rintro (h | ⟨sk, rfl | h1, h2, h3⟩)
        · left; omega
        · left; omega
        · exact Or.inr ⟨sk, h1, h2, h3⟩

theorem thetaStar_perm (t0 : Nat) (l1 l2 : List (Compact σ)) (hp : l1.Perm l2) : thetaStar t0 l1 = thetaStar t0 l2 := by
  apply Nat.le_antisymm
  · rw [thetaStar_le_iff]
    have := (thetaStar_le_iff l2 t0 (thetaStar t0 l2)).1 (Nat.le_refl _)
    rcases this with h | ⟨sk, h1, h2, h3⟩
    · exact Or.inl h
    · exact Or.inr ⟨sk, hp.mem_iff.2 h1, h2, h3⟩
  · rw [thetaStar_le_iff]
    have := (thetaStar_le_iff l1 t0 (thetaStar t0 l1)).1 (Nat.le_refl _)
    rcases this with h | ⟨sk, h1, h2, h3⟩
    · exact Or.inl h
    · exact Or.inr ⟨sk, hp.mem_iff.1 h1, h2, h3⟩

theorem allEmpty_iff (sks : List (Compact σ)) : allEmpty sks = true ↔ ∀ sk, sk ∈ sks → sk.isEmpty = true := by
  induction sks with
  | nil => simp [allEmpty]
  | cons a t ih => simp [allEmpty, ih]

theorem allEmpty_perm (l1 l2 : List (Compact σ)) (hp : l1.Perm l2) : allEmpty l1 = allEmpty l2 := by
  have h1 := allEmpty_iff l1
  have h2 := allEmpty_iff l2
  cases hb1 : allEmpty l1 <;> cases hb2 : allEmpty l2 <;> simp_all
  · obtain ⟨x, hx, hxe⟩ := h1
    exact absurd (h2 x (hp.mem_iff.1 hx)) (by simp [hxe])
  · obtain ⟨x, hx, hxe⟩ := h2
    exact absurd (h1 x (hp.mem_iff.2 hx)) (by simp [hxe])

/-- the union accepts a sequence iff every non-empty input carries the union's seed hash -/
theorem unionFold_isSome (c : Cfg) (pol : σ → σ → σ) (sh : Nat) (sks : List (Compact σ)) : ∀ (u : Union σ),
    (∃ u', unionFold c pol sh u sks = some u') ↔ ∀ sk, sk ∈ sks → sk.isEmpty = true ∨ sk.seedHash = sh := by
  induction sks with
  | nil => intro u; simp [unionFold]
  | cons a t ih =>
    intro u
    simp only [unionFold, List.mem_cons]
    by_cases he : a.isEmpty = true
    · rw [unionUpdate_empty c pol sh u a he]
      simp only [ih]
      constructor
      · rintro h sk (rfl | hs)
        · exact Or.inl he
        · exact h sk hs
      · intro h sk hs; exact h sk (Or.inr hs)
    · have he' : a.isEmpty = false := by simpa using he
      by_cases hs : a.seedHash = sh
      · rw [unionUpdate_nonempty c pol sh u a he' hs]
        simp only [ih]
        constructor
        · rintro h sk (rfl | hs')
          · exact Or.inr hs
          · exact h sk hs'
        · intro h sk hs'; exact h sk (Or.inr hs')
      · rw [unionUpdate_mismatch c pol sh u a he' hs]
        constructor
        · rintro ⟨u', hu'⟩; cases hu'
        · intro h
          rcases h a (Or.inl rfl) with h1 | h1
          · exact absurd h1 he
          · exact absurd h1 hs

/-- uniqueness of the characterisation: the result is a function of the SET of offered keys, θ* and k only -/
theorem resultSpec_unique (S1 S2 : List Nat) (θs k t1 t2 : Nat) (l1 l2 : List Nat)
    (hS : ∀ x, x ∈ S1 ↔ x ∈ S2) (h1 : ResultSpec S1 θs k t1 l1) (h2 : ResultSpec S2 θs k t2 l2) : t1 = t2 ∧ l1 = l2 := by
  have key : ∀ (Sa Sb : List Nat) (ta tb : Nat) (la lb : List Nat), (∀ x, x ∈ Sa ↔ x ∈ Sb) →
      ResultSpec Sa θs k ta la → ResultSpec Sb θs k tb lb → ¬ ta < tb := by
    intro Sa Sb ta tb la lb hSab ha hb hlt
    have hta : ta < θs := Nat.lt_of_lt_of_le hlt hb.th_le
    obtain ⟨hlen, hmemS⟩ := ha.th_lt hta
    -- la ++ [ta] is a duplicate-free list inside lb
    have hnd : (la ++ [ta]).Nodup := by
      rw [List.nodup_append]
      refine ⟨nodup_of_sorted _ ha.sorted, by simp, ?_⟩
      intro a haa b hbb
      simp only [List.mem_singleton] at hbb
      subst hbb
      have := ((ha.mem a).1 haa).2
      omega
    have hsub : (la ++ [ta]) ⊆ lb := by
      intro x hx
      simp only [List.mem_append, List.mem_singleton] at hx
      rcases hx with hx | rfl
      · have := (ha.mem x).1 hx
        exact (hb.mem x).2 ⟨(hSab x).1 this.1, by omega⟩
      · exact (hb.mem _).2 ⟨(hSab _).1 hmemS, hlt⟩
    have := (List.subperm_of_subset hnd hsub).length_le
    simp only [List.length_append, List.length_singleton] at this
    have := hb.len_le
    omega
  have ht : t1 = t2 := by
    have a := key S1 S2 t1 t2 l1 l2 hS h1 h2
    have b := key S2 S1 t2 t1 l2 l1 (fun x => (hS x).symm) h2 h1
    omega
  subst ht
  refine ⟨rfl, sorted_ext l1 l2 h1.sorted h2.sorted ?_⟩
  intro x
  rw [h1.mem, h2.mem, hS]

end DS.Theta

/- Exact-mode Jaccard: the union and intersection `jaccard()` evaluates are the true set union and intersection. -/
import DSProofs.Props.C02
namespace DS.Theta

theorem wfop_union_result (c : Cfg) (S : List Nat) (θs : Nat) (u : Union Unit) (sh : Nat)
    (h : ResultSpec S θs (2^c.lgNom) (unionResult c u false sh).theta (keys (unionResult c u false sh).ents))
    (hne : (unionResult c u false sh).isEmpty = false) (hθ : θs ≤ MAX_THETA) : WFop (unionResult c u false sh) := by
  refine ⟨fun x hx => ((h.mem x).1 hx).2, fun _ => h.sorted, nodup_of_sorted _ h.sorted, ?_, Nat.le_trans h.th_le hθ⟩
  intro he; rw [hne] at he; cases he

/-- for exact-mode, non-empty, well-formed A and B with the union's seed hash and a union large enough to hold both -/
theorem jaccard_exact_sets (c : Cfg) (sh : Nat) (a b : Compact Unit) (ha : WFop a) (hb : WFop b)
    (hae : a.isEmpty = false) (hbe : b.isEmpty = false) (hat : a.theta = MAX_THETA) (hbt : b.theta = MAX_THETA)
    (has : a.seedHash = sh) (hbs : b.seedHash = sh) (hc0 : c.theta0 = MAX_THETA)
    (hk : a.ents.length + b.ents.length ≤ 2^c.lgNom) :
    ∃ u r, jaccardParts c sh a b = some (u, r) ∧
      u.theta = MAX_THETA ∧ (∀ x, x ∈ keys u.ents ↔ (x ∈ keys a.ents ∨ x ∈ keys b.ents)) ∧ (keys u.ents).Nodup ∧
      (∀ x, x ∈ keys r.ents ↔ (x ∈ keys a.ents ∧ x ∈ keys b.ents)) ∧ (keys r.ents).Nodup ∧
      (r.isEmpty = false → r.theta = MAX_THETA) := by
  have hw : ∀ sk, sk ∈ [a, b] → WFop sk := by
    intro sk hs; simp only [List.mem_cons, List.not_mem_nil, or_false] at hs; rcases hs with rfl | rfl <;> assumption
  obtain ⟨u0, hu0⟩ := (unionFold_isSome c (fun _ _ => ()) sh [a, b] (unionInit c)).2 (by
    intro sk hs; simp only [List.mem_cons, List.not_mem_nil, or_false] at hs
    rcases hs with rfl | rfl
    · exact Or.inr has
    · exact Or.inr hbs)
  have hall : allEmpty [a, b] = false := by simp [allEmpty, hae]
  obtain ⟨hspec, hune⟩ := (C02_union_result_spec c (fun _ _ => ()) sh [a, b] hw u0 hu0 false).1 hall
  have hoff : offered [a, b] = keys a.ents ++ keys b.ents := by simp [offered, hae, hbe]
  have hstar : thetaStar c.theta0 [a, b] = MAX_THETA := by
    simp [thetaStar, hae, hbe, hat, hbt, hc0]
  rw [hoff, hstar] at hspec
  -- the union is exact: theta = MAX
  have hth : (unionResult c u0 false sh).theta = MAX_THETA := by
    rcases Nat.lt_or_ge (unionResult c u0 false sh).theta MAX_THETA with hlt | hge
    · exfalso
      obtain ⟨hlen, hmem⟩ := hspec.th_lt hlt
      have hnd : (keys (unionResult c u0 false sh).ents ++ [(unionResult c u0 false sh).theta]).Nodup := by
        rw [List.nodup_append]
        refine ⟨nodup_of_sorted _ hspec.sorted, by simp, ?_⟩
        intro x hx y hy
        simp only [List.mem_singleton] at hy
        subst hy
        have := ((hspec.mem x).1 hx).2; omega
      have hsub : (keys (unionResult c u0 false sh).ents ++ [(unionResult c u0 false sh).theta]) ⊆ keys a.ents ++ keys b.ents := by
        intro x hx
        simp only [List.mem_append, List.mem_singleton] at hx
        rcases hx with hx | rfl
        · exact ((hspec.mem x).1 hx).1
        · exact hmem
      have := (List.subperm_of_subset hnd hsub).length_le
      simp only [List.length_append, keys_length, List.length_singleton] at this
      rw [keys_length] at hlen
      omega
    · exact Nat.le_antisymm hspec.th_le hge
  have humem : ∀ x, x ∈ keys (unionResult c u0 false sh).ents ↔ (x ∈ keys a.ents ∨ x ∈ keys b.ents) := by
    intro x
    rw [hspec.mem, List.mem_append, hth]
    constructor
    · exact fun h => h.1
    · intro h
      refine ⟨h, ?_⟩
      rcases h with h | h
      · have := ha.lt_theta x h; omega
      · have := hb.lt_theta x h; omega
  have huw : WFop (unionResult c u0 false sh) := wfop_union_result c _ _ u0 sh hspec hune (Nat.le_refl _)
  have hw3 : ∀ sk, sk ∈ [a, b, unionResult c u0 false sh] → WFop sk := by
    intro sk hs; simp only [List.mem_cons, List.not_mem_nil, or_false] at hs
    rcases hs with rfl | rfl | rfl <;> assumption
  -- the intersection accepts all three (same seed hash)
  have hseedu : (unionResult c u0 false sh).seedHash = sh := by
    unfold unionResult; split
    · rfl
    · split <;> rfl
  have hi : ∃ i, interFold (fun _ _ => ()) sh interInit [a, b, unionResult c u0 false sh] = some i := by
    -- each update can only fail on a seed mismatch or duplicate keys; neither occurs
    have step : ∀ (i : Inter Unit) (sk : Compact Unit), WFop sk → sk.seedHash = sh → ∃ i', interUpdate (fun _ _ => ()) sh i sk = some i' := by
      intro i sk hwsk hs
      unfold interUpdate
      split
      · exact ⟨_, rfl⟩
      · have : (!sk.isEmpty && decide (sk.seedHash ≠ sh)) = false := by simp [hs]
        simp only [this, Bool.false_eq_true, if_false]
        split
        · exact ⟨_, rfl⟩
        · split
          · exact ⟨_, rfl⟩
          · split
            · have hnd : hasDupKeys (keys sk.ents) = false := by
                have := hwsk.nodup
                generalize keys sk.ents = l at this
                induction l with
                | nil => rfl
                | cons x t ih =>
                  simp only [List.nodup_cons] at this
                  simp only [hasDupKeys, Bool.or_eq_false_iff]
                  exact ⟨by simpa using this.1, ih this.2⟩
              simp only [hnd, Bool.false_eq_true, if_false]
              exact ⟨_, rfl⟩
            · repeat' split
              all_goals exact ⟨_, rfl⟩
    obtain ⟨i1, h1⟩ := step interInit a ha has
    obtain ⟨i2, h2⟩ := step i1 b hb hbs
    obtain ⟨i3, h3⟩ := step i2 _ huw hseedu
    exact ⟨i3, by simp [interFold, h1, h2, h3]⟩
  obtain ⟨i, hi⟩ := hi
  have hispec := C02_inter_result_spec (fun _ _ => ()) sh [a, b, unionResult c u0 false sh] hw3 i hi
  have hvalid : i.valid = true := (hispec.1).2 (by simp)
  have hres : interResult i false sh = some { theta := i.theta, ents := i.ents, isEmpty := i.isEmpty, ordered := false || decide (i.ents.length ≤ 1), seedHash := sh } := by
    simp [interResult, hvalid]
  refine ⟨unionResult c u0 false sh, { theta := i.theta, ents := i.ents, isEmpty := i.isEmpty, ordered := false || decide (i.ents.length ≤ 1), seedHash := sh }, ?_, hth, humem, nodup_of_sorted _ hspec.sorted, ?_, nodup_of_sorted _ hispec.2.1, ?_⟩
  · unfold jaccardParts
    simp only [hu0, hi, hres]
  · intro x
    show x ∈ keys i.ents ↔ _
    cases hie : i.isEmpty with
    | true =>
      obtain ⟨hnil, _, hno⟩ := hispec.2.2.2.1 hie
      rw [hnil]
      simp only [keys_nil, List.not_mem_nil, false_iff, not_and]
      intro hxa hxb
      apply hno x
      intro sk hs
      simp only [List.mem_cons, List.not_mem_nil, or_false] at hs
      rcases hs with rfl | rfl | rfl
      · exact hxa
      · exact hxb
      · exact (humem x).2 (Or.inl hxa)
    | false =>
      obtain ⟨hth2, hm⟩ := hispec.2.2.1 (by simp) hie
      rw [hm]
      have hmt : minTheta [a, b, unionResult c u0 false sh] = MAX_THETA := by
        simp [minTheta, hat, hbt, hth]
      constructor
      · rintro ⟨h1, _⟩
        exact ⟨h1 a (by simp), h1 b (by simp)⟩
      · rintro ⟨hxa, hxb⟩
        refine ⟨?_, ?_⟩
        · intro sk hs
          simp only [List.mem_cons, List.not_mem_nil, or_false] at hs
          rcases hs with rfl | rfl | rfl
          · exact hxa
          · exact hxb
          · exact (humem x).2 (Or.inl hxa)
        · rw [hth2, hmt]; have := ha.lt_theta x hxa; omega
  · intro hne
    show i.theta = MAX_THETA
    have hie : i.isEmpty = false := hne
    obtain ⟨hth2, _⟩ := hispec.2.2.1 (by simp) hie
    rw [hth2]; simp [minTheta, hat, hbt, hth]

end DS.Theta

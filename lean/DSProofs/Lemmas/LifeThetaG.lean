/- C19 helper lemmas, theta table part 7: the contracts consumed by the world-level proof. -/
import DSProofs.Lemmas.LifeThetaF
namespace DS.Life

theorem cell?_congr {h h' : Heap} {b : Nat} (e : h'.find? b = h.find? b) (i : Nat) : h'.cell? b i = h.cell? b i := by
  simp [cell?_def, e]

theorem wordAt_congr {h h' : Heap} {b : Nat} (e : h'.find? b = h.find? b) (i : Nat) : wordAt h' b i = wordAt h b i := by
  simp [wordAt, cell?_congr e]

theorem stAt_congr {h h' : Heap} {b : Nat} (e : h'.find? b = h.find? b) (i : Nat) : stAt h' b i = stAt h b i := by
  simp [stAt, cell?_congr e]

theorem HasCells_congr {h h' : Heap} {b n : Nat} (e : h'.find? b = h.find? b) (hc : HasCells h b n) : HasCells h' b n := by
  simpa [HasCells, Heap.count?, e] using hc

theorem mem_ids_of_find? {h : Heap} {b : Nat} {B : Block} (hf : h.find? b = some B) : b ∈ h.ids := by
  unfold Heap.find? at hf
  have hm := List.mem_of_find?_eq_some hf
  have hp := List.find?_some hf
  simp only [beq_iff_eq] at hp
  unfold Heap.ids
  exact List.mem_map.mpr ⟨B, hm, hp⟩

theorem mem_ids_of_HasCells {h : Heap} {b n : Nat} (hc : HasCells h b n) : b ∈ h.ids := by
  obtain ⟨B, hf, _⟩ := find?_of_count? hc
  exact mem_ids_of_find? hf

end DS.Life

namespace DS.Life.Theta
open DS.Life

def owned (t : Table) : List Nat := t.entries.toList

/-- safe to destroy / to assign to -/
def Inv (P : Params) (h : Heap) (t : Table) : Prop := TableInv P h t

/-- safe to use: owns a table block -/
def Usable (P : Params) (h : Heap) (t : Table) : Prop := ∃ b, t.entries = some b ∧ TableAt P h b t.lgCur t.num

theorem Usable.inv {P : Params} {h : Heap} {t : Table} (u : Usable P h t) : Inv P h t := by
  obtain ⟨b, hb, ht⟩ := u
  simp [Inv, TableInv, hb, ht]

theorem TableAt.local {P : Params} {h h' : Heap} {b lg num : Nat} (e : h'.find? b = h.find? b) (hn : h.next ≤ h'.next)
    (ht : TableAt P h b lg num) : TableAt P h' b lg num :=
  ht.of_views (HasCells_congr e ht.slots.cells) (by have := ht.slots.lt; omega) (wordAt_congr e)
    (fun j _ => Or.inl (stAt_congr e j))

theorem Inv.local {P : Params} {h h' : Heap} {t : Table} (e : ∀ b, b ∈ owned t → h'.find? b = h.find? b)
    (hn : h.next ≤ h'.next) (i : Inv P h t) : Inv P h' t := by
  unfold Inv TableInv at *
  cases hb : t.entries with
  | none => simp
  | some b =>
    simp only [hb] at i ⊢
    exact i.local (e b (by simp [owned, hb])) hn

theorem Usable.local {P : Params} {h h' : Heap} {t : Table} (e : ∀ b, b ∈ owned t → h'.find? b = h.find? b)
    (hn : h.next ≤ h'.next) (u : Usable P h t) : Usable P h' t := by
  obtain ⟨b, hb, ht⟩ := u
  exact ⟨b, hb, ht.local (e b (by simp [owned, hb])) hn⟩

theorem Inv.owned_ids {P : Params} {h : Heap} {t : Table} (i : Inv P h t) : ∀ b, b ∈ owned t → b ∈ h.ids ∧ b < h.next := by
  intro b hb
  unfold Inv TableInv at i
  cases he : t.entries with
  | none => simp [owned, he] at hb
  | some b' =>
    simp only [owned, he, Option.toList_some, List.mem_singleton] at hb
    subst hb
    simp only [he] at i
    exact ⟨mem_ids_of_HasCells i.slots.cells, i.slots.lt⟩

theorem Inv.owned_nodup {P : Params} {h : Heap} {t : Table} (_ : Inv P h t) : (owned t).Nodup := by
  unfold owned
  cases t.entries <;> simp

/-- ownership bookkeeping of a mutator -/
theorem MutPost.owns {P : Params} {n0 b : Nat} {ids : List Nat} {t' : Table} {h' : Heap} (hb : b ∈ ids)
    (m : MutPost P n0 b ids t' h') : Usable P h' t' ∧ Owns h' ids [b] (owned t') n0 := by
  obtain ⟨nb, hnb, ht, hcase⟩ := m
  refine ⟨⟨nb, hnb, ht⟩, ?_⟩
  rcases hcase with ⟨rfl, hid⟩ | ⟨hge, hne, hid⟩
  · refine ⟨fun x => ?_, fun x hx => ?_⟩
    · simp only [owned, hnb, Option.toList_some, List.mem_cons, List.not_mem_nil, or_false, hid]
      constructor
      · intro hx
        by_cases hxb : x = nb
        · exact Or.inr hxb
        · exact Or.inl ⟨hx, hxb⟩
      · rintro (⟨hx, _⟩ | rfl)
        · exact hx
        · exact hb
    · simp only [owned, hnb, Option.toList_some, List.mem_cons, List.not_mem_nil, or_false] at hx
      left; simp [hx]
  · refine ⟨fun x => ?_, fun x hx => ?_⟩
    · simp only [owned, hnb, Option.toList_some, hid, List.mem_filter, List.mem_cons, List.not_mem_nil, or_false,
        bne_iff_ne, ne_eq]
      constructor
      · rintro ⟨rfl | hx, hxb⟩
        · exact Or.inr rfl
        · exact Or.inl ⟨hx, hxb⟩
      · rintro (⟨hx, hxb⟩ | rfl)
        · exact ⟨Or.inr hx, hxb⟩
        · exact ⟨Or.inl rfl, hne⟩
    · simp only [owned, hnb, Option.toList_some, List.mem_cons, List.not_mem_nil, or_false] at hx
      right; omega

/-! ### contracts -/

theorem ctor_contract (P : Params) (n0 lgCur lgNom rf theta0 : Nat) (ids0 : List Nat) (hl : lgCur > 0) :
    TripleS n0 (foot [] n0) (fun h => h.ids = ids0 ∧ h.next = n0) (ctor lgCur lgNom rf theta0)
      (fun t h' => Usable P h' t ∧ Owns h' ids0 [] (owned t) n0) := by
  refine (ctor_spec P n0 lgCur lgNom rf theta0 ids0).conseq (fun _ x => x) ?_
  intro t h' ⟨hinv, e1, _, _, e4, hcase⟩
  rcases hcase with ⟨_, he, hid, _⟩ | ⟨h0, _⟩
  · refine ⟨⟨n0, he, ?_⟩, ⟨fun x => ?_, fun x hx => ?_⟩⟩
    · simpa [TableInv, he, e1, e4] using hinv
    · simp [owned, he, hid, or_comm]
    · simp only [owned, he, Option.toList_some, List.mem_singleton] at hx
      right; omega
  · omega

theorem mutator_contract (P : Params) (n0 : Nat) (t : Table) (ids0 : List Nat) {m : M Table}
    (spec : ∀ b, t.entries = some b → TripleS n0 (foot (owned t) n0) (fun h => TableAt P h b t.lgCur t.num ∧ h.ids = ids0) m
      (fun t' h' => MutPost P n0 b ids0 t' h')) :
    TripleS n0 (foot (owned t) n0) (fun h => Usable P h t ∧ h.ids = ids0) m
      (fun t' h' => Usable P h' t' ∧ Owns h' ids0 (owned t) (owned t') n0) := by
  intro h hn ⟨⟨b, hb, ht⟩, hid⟩
  have := spec b hb h hn ⟨ht, hid⟩
  refine SafeF.mono this ?_
  intro t' h' mp
  have hbi : b ∈ ids0 := by rw [← hid]; exact mem_ids_of_HasCells ht.slots.cells
  have := mp.owns hbi
  simpa [owned, hb] using this

theorem update_contract (P : Params) (hP : P.OK) (n0 : Nat) (t : Table) (hash v : Nat) (comb : Nat → Nat → Nat) (ids0 : List Nat) :
    TripleS n0 (foot (owned t) n0) (fun h => Usable P h t ∧ h.ids = ids0) (update P t hash v comb)
      (fun t' h' => Usable P h' t' ∧ Owns h' ids0 (owned t) (owned t') n0) :=
  mutator_contract P n0 t ids0 (fun b hb =>
    update_spec P hP n0 _ t b hb (foot_own (by simp [owned, hb])) (fun x hx => foot_new hx) ids0 hash v comb)

theorem trim_contract (P : Params) (n0 : Nat) (t : Table) (ids0 : List Nat) :
    TripleS n0 (foot (owned t) n0) (fun h => Usable P h t ∧ h.ids = ids0) (trim P t)
      (fun t' h' => Usable P h' t' ∧ Owns h' ids0 (owned t) (owned t') n0) :=
  mutator_contract P n0 t ids0 (fun b hb =>
    trim_spec P n0 _ t b hb (foot_own (by simp [owned, hb])) (fun x hx => foot_new hx) ids0)

theorem reset_contract (P : Params) (n0 : Nat) (t : Table) (ids0 : List Nat) :
    TripleS n0 (foot (owned t) n0) (fun h => Usable P h t ∧ h.ids = ids0) (reset P t)
      (fun t' h' => Usable P h' t' ∧ Owns h' ids0 (owned t) (owned t') n0) :=
  mutator_contract P n0 t ids0 (fun b hb =>
    reset_spec P n0 _ t b hb (foot_own (by simp [owned, hb])) (fun x hx => foot_new hx) ids0)

theorem dtor_contract (P : Params) (n0 : Nat) (t : Table) (ids0 : List Nat) :
    TripleS n0 (foot (owned t) n0) (fun h => Inv P h t ∧ h.ids = ids0) (dtor t)
      (fun _ h' => Owns h' ids0 (owned t) [] n0) := by
  cases hb : t.entries with
  | none =>
    intro h _ ⟨_, hid⟩
    unfold dtor
    rw [hb]
    apply SafeF.pure
    exact ⟨fun x => by simp [owned, hb, hid], fun x hx => by simp at hx⟩
  | some b =>
    have := dtor_spec n0 (foot (owned t) n0) t b hb (foot_own (by simp [owned, hb])) ids0
    intro h hn ⟨hinv, hid⟩
    have hinv' : TableAt P h b t.lgCur t.num := by simpa [Inv, TableInv, hb] using hinv
    refine SafeF.mono (this h hn ⟨hinv'.slots, hid⟩) ?_
    intro _ h' hid'
    refine ⟨fun x => ?_, fun x hx => by simp at hx⟩
    simp [owned, hb, hid', List.mem_filter]

theorem copyCtor_contract (P : Params) (n0 : Nat) (o : Table) (ids0 : List Nat) :
    TripleS n0 (foot [] n0) (fun h => Usable P h o ∧ h.ids = ids0) (copyCtor o)
      (fun t' h' => Usable P h' t' ∧ Usable P h' o ∧ Owns h' ids0 [] (owned t') n0) := by
  intro h hn ⟨⟨ob, hb, ht⟩, hid⟩
  have := copyCtor_spec P n0 (foot [] n0) o ob hb (fun x hx => foot_new hx) ids0 h h hn ⟨rfl, ht, hid⟩
  refine SafeF.mono this ?_
  intro t' h' ⟨nb, hge, _, et, htn, hto, hid', _, _⟩
  subst et
  refine ⟨⟨nb, rfl, htn⟩, ⟨ob, hb, hto⟩, ⟨fun x => ?_, fun x hx => ?_⟩⟩
  · simp [owned, hid', or_comm]
  · simp only [owned, Option.toList_some, List.mem_singleton] at hx
    right; omega

theorem serialize_contract (P : Params) (n0 : Nat) (t : Table) (ids0 : List Nat) :
    TripleS n0 (foot [] n0) (fun h => Usable P h t ∧ h.ids = ids0 ∧ (∀ x, x ∈ ids0 → x < n0)) (serializeCompact t)
      (fun _ h' => Usable P h' t ∧ (∀ x, x ∈ h'.ids ↔ x ∈ ids0)) := by
  intro h hn ⟨⟨b, hb, ht⟩, hid, hlt⟩
  have := serializeCompact_spec P n0 (foot [] n0) t b hb (fun x hx => foot_new hx) ids0 h hn ⟨ht, hid⟩
  refine SafeF.mono this ?_
  intro _ h' ⟨ht', hcase⟩
  refine ⟨⟨b, hb, ht'⟩, fun x => ?_⟩
  rcases hcase with e | ⟨vb, hge, e⟩
  · rw [e]
  · rw [e]
    simp only [List.mem_filter, List.mem_cons, bne_iff_ne, ne_eq]
    constructor
    · rintro ⟨rfl | hx, hne⟩
      · exact absurd rfl hne
      · exact hx
    · intro hx
      exact ⟨Or.inr hx, fun e' => by have := hlt x hx; omega⟩

theorem moveCtor_spec' (P : Params) (h : Heap) (t : Table) (u : Usable P h t) :
    Usable P h (moveCtor t).1 ∧ Inv P h (moveCtor t).2 ∧ owned (moveCtor t).1 = owned t ∧ owned (moveCtor t).2 = [] := by
  refine ⟨u, by simp [Inv, TableInv, moveCtor], rfl, by simp [owned, moveCtor]⟩


theorem copyAssign_contract (P : Params) (n0 : Nat) (t o : Table) (ids0 : List Nat) :
    TripleS n0 (foot (owned t) n0)
      (fun h => Inv P h t ∧ Usable P h o ∧ h.ids = ids0 ∧ (∀ b, b ∈ owned t → b < n0))
      (copyAssign t o) (fun t' h' => Usable P h' t' ∧ Owns h' ids0 (owned t) (owned t') n0) := by
  intro h hn ⟨hinv, ⟨ob, hob, hto⟩, hid, hlt⟩
  unfold copyAssign
  have cc := copyCtor_spec P n0 (foot (owned t) n0) o ob hob (fun x hx => foot_new hx) ids0 h
  apply SafeF.bind_triple cc hn ⟨rfl, hto, hid⟩
  intro copy h1 ⟨nb, hge, _, ecopy, htn, _, hid1, hkeep, _⟩ hle1
  subst ecopy
  cases hb : t.entries with
  | none =>
    unfold dtor
    rw [hb]
    apply SafeF.pure
    refine ⟨⟨nb, rfl, htn⟩, ⟨fun x => ?_, fun x hx => ?_⟩⟩
    · simp [owned, hb, hid1, or_comm]
    · simp only [owned, Option.toList_some, List.mem_cons, List.not_mem_nil, or_false] at hx
      right; omega
  | some b =>
    have hbl : b < n0 := hlt b (by simp [owned, hb])
    have htb : TableAt P h b t.lgCur t.num := by simpa [Inv, TableInv, hb] using hinv
    have htb1 : TableAt P h1 b t.lgCur t.num := hkeep b _ _ (by omega) htb
    have hSb : foot (owned t) n0 b = true := foot_own (by simp [owned, hb])
    have d := (dtor_spec n0 (foot (owned t) n0) t b hb hSb (nb :: ids0)).with_frame
      (dtor_spec n0 (fun x => x == b) t b hb (by simp) (nb :: ids0)) h1
    apply SafeF.bind_triple d (by omega) ⟨rfl, htb1.slots, hid1⟩
    intro _ h2 ⟨hid2, _, hfr⟩ hle2
    apply SafeF.pure
    have hnb : nb ≠ b := by omega
    have hfind : h2.find? nb = h1.find? nb := find?_of_Out _ h1 h2 hfr.1 nb (by simp [hnb])
    refine ⟨⟨nb, rfl, htn.local hfind hle2⟩, ⟨fun x => ?_, fun x hx => ?_⟩⟩
    · simp only [owned, hb, Option.toList_some, hid2, List.mem_filter, List.mem_cons, List.not_mem_nil, or_false,
        bne_iff_ne, ne_eq]
      constructor
      · rintro ⟨rfl | hx, hxb⟩
        · exact Or.inr rfl
        · exact Or.inl ⟨hx, hxb⟩
      · rintro (⟨hx, hxb⟩ | rfl)
        · exact ⟨Or.inr hx, hxb⟩
        · exact ⟨Or.inl rfl, hnb⟩
    · simp only [owned, Option.toList_some, List.mem_cons, List.not_mem_nil, or_false] at hx
      right; omega

theorem moveAssign_spec' (P : Params) (h : Heap) (t o : Table) (it : Inv P h t) (uo : Usable P h o) :
    Usable P h (moveAssign t o).1 ∧ Inv P h (moveAssign t o).2 ∧
      owned (moveAssign t o).1 = owned o ∧ owned (moveAssign t o).2 = owned t :=
  ⟨uo, it, rfl, rfl⟩

end DS.Life.Theta

/- Row folding (`row & (k-1)`) of coupon codes, invariance of `Inv` under list equivalence, and the counting
   lemma "folding K rows to K' rows keeps at least the fraction K'/K of the coupons" (free to change). -/
import DSProofs.Lemmas.CpcCount
import DSModel.Cpc.Union
import Batteries.Data.List.Perm
namespace DS.Cpc

theorem foldRc_lt (lgK rc : Nat) : foldRc lgK rc < 64 * 2^lgK := by
  unfold foldRc
  have := Nat.mod_lt (rc / 64) (Nat.two_pow_pos lgK)
  omega

theorem foldRc_div (lgK rc : Nat) : foldRc lgK rc / 64 = (rc / 64) % 2^lgK := by unfold foldRc; omega
theorem foldRc_mod (lgK rc : Nat) : foldRc lgK rc % 64 = rc % 64 := by unfold foldRc; omega

theorem foldRc_of_lt (lgK rc : Nat) (h : rc < 64 * 2^lgK) : foldRc lgK rc = rc := by
  unfold foldRc
  have : rc / 64 < 2^lgK := by omega
  rw [Nat.mod_eq_of_lt this]; omega

theorem foldRc_foldRc (a b rc : Nat) (hab : b ≤ a) : foldRc b (foldRc a rc) = foldRc b rc := by
  unfold foldRc
  have h1 : ((rc / 64) % 2^a * 64 + rc % 64) / 64 = (rc / 64) % 2^a := by omega
  have h2 : ((rc / 64) % 2^a * 64 + rc % 64) % 64 = rc % 64 := by omega
  rw [h1, h2, Nat.mod_mod_of_dvd _ (Nat.pow_dvd_pow 2 hab)]

theorem map_foldRc_of_lt (lgK : Nat) (l : List Nat) (h : ∀ x ∈ l, x < 64 * 2^lgK) : l.map (foldRc lgK) = l := by
  induction l with
  | nil => rfl
  | cons a t ih =>
    rw [List.map_cons, foldRc_of_lt lgK a (h a List.mem_cons_self), ih (fun x hx => h x (List.mem_cons_of_mem _ hx))]

/-- `(r, c)` is the fold of a listed code -/
theorem mem_map_foldRc (lgK : Nat) (l : List Nat) (r c : Nat) (hc : c < 64) :
    r * 64 + c ∈ l.map (foldRc lgK) ↔ ∃ x ∈ l, (x / 64) % 2^lgK = r ∧ x % 64 = c := by
  rw [List.mem_map]
  constructor
  · rintro ⟨x, hx, he⟩
    refine ⟨x, hx, ?_⟩
    have h1 := foldRc_div lgK x
    have h2 := foldRc_mod lgK x
    rw [he] at h1 h2
    omega
  · rintro ⟨x, hx, h1, h2⟩
    exact ⟨x, hx, by unfold foldRc; rw [h1, h2]⟩

/-- the number of distinct elements depends on membership only -/
theorem distinct_length_congr (l₁ l₂ : List Nat) (h : ∀ a, a ∈ l₁ ↔ a ∈ l₂) : (distinct l₁).length = (distinct l₂).length :=
  length_eq_of_nodup_mem (nodup_distinct _) (nodup_distinct _) (fun a => by rw [mem_distinct, mem_distinct, h])

theorem distinct_length_mono (l₁ l₂ : List Nat) (h : ∀ a, a ∈ l₁ → a ∈ l₂) : (distinct l₁).length ≤ (distinct l₂).length :=
  (List.subperm_of_subset (nodup_distinct l₁) (fun a ha => (mem_distinct a l₂).2 (h a ((mem_distinct a l₁).1 ha)))).length_le

theorem distinct_eq_nil (l : List Nat) (h : (distinct l).length = 0) : l = [] := by
  cases l with
  | nil => rfl
  | cons a t =>
    have : a ∈ distinct (a :: t) := (mem_distinct _ _).2 List.mem_cons_self
    have := List.length_pos_of_mem this
    omega

/-- `Inv` depends on the stream through its set of coupons only -/
theorem inv_congr (s : Sketch) (xs xs' : List Nat) (h : Inv s xs) (he : ∀ a, a ∈ xs ↔ a ∈ xs') : Inv s xs' :=
  ⟨h.rep, fun r c hr hc => by rw [h.bits r c hr hc, he], by rw [h.count, distinct_length_congr xs xs' he],
   h.ficLe, h.ficFull, h.sparseC, h.winC, h.offHi, h.offLo⟩

/-! ### folding keeps a fraction of the coupons -/

/-- all codes below 64·2^a that fold (to 2^b rows) onto `y` -/
def fiber (a b y : Nat) : List Nat := (List.range (2^(a - b))).map (fun j => ((y / 64) + j * 2^b) * 64 + y % 64)

theorem mem_fiber (a b x : Nat) (hab : b ≤ a) (hx : x < 64 * 2^a) : x ∈ fiber a b (foldRc b x) := by
  unfold fiber
  rw [List.mem_map]
  refine ⟨(x / 64) / 2^b, ?_, ?_⟩
  · rw [List.mem_range]
    have : 2^a = 2^b * 2^(a - b) := by rw [← Nat.pow_add]; congr 1; omega
    rw [Nat.div_lt_iff_lt_mul (Nat.two_pow_pos b)]
    rw [Nat.mul_comm] at this
    omega
  · rw [foldRc_div, foldRc_mod]
    have := Nat.mod_add_div (x / 64) (2^b)
    rw [Nat.mul_comm] at this
    omega

theorem fiber_length (a b y : Nat) : (fiber a b y).length = 2^(a - b) := by simp [fiber]

/-- a duplicate-free list of valid codes has at most `2^(a-b)` elements over each folded code -/
theorem filter_fold_le (a b : Nat) (hab : b ≤ a) (D : List Nat) (hn : D.Nodup) (hv : ∀ x ∈ D, x < 64 * 2^a) (y : Nat) :
    (D.filter (fun x => decide (foldRc b x = y))).length ≤ 2^(a - b) := by
  rw [← fiber_length a b y]
  apply (List.subperm_of_subset (hn.sublist List.filter_sublist) _).length_le
  intro x hx
  rw [List.mem_filter] at hx
  have := mem_fiber a b x hab (hv x hx.1)
  have he : foldRc b x = y := by simpa using hx.2
  rwa [he] at this

/-- partition of a list by the value of `f`, over a duplicate-free list covering the image -/
theorem length_le_sum_fibers (f : Nat → Nat) (m : Nat) (D E : List Nat) (hE : E.Nodup) (hcov : ∀ x ∈ D, f x ∈ E)
    (hb : ∀ y, (D.filter (fun x => decide (f x = y))).length ≤ m) : D.length ≤ m * E.length := by
  induction E generalizing D with
  | nil =>
    cases D with
    | nil => simp
    | cons a t => exact absurd (hcov a List.mem_cons_self) (by simp)
  | cons y E ih =>
    rw [List.nodup_cons] at hE
    -- split D into the fibre over y and the rest
    have hsplit : D.length = (D.filter (fun x => decide (f x = y))).length + (D.filter (fun x => !decide (f x = y))).length := by
      rw [← List.countP_eq_length_filter, ← List.countP_eq_length_filter]
      have := List.length_eq_countP_add_countP (fun x => decide (f x = y)) (l := D)
      simpa using this
    have hrest := ih (D.filter (fun x => !decide (f x = y))) hE.2
      (by
        intro x hx
        rw [List.mem_filter] at hx
        have := hcov x hx.1
        rcases List.mem_cons.1 this with h1 | h1
        · simp [h1] at hx
        · exact h1)
      (by
        intro y'
        refine Nat.le_trans ?_ (hb y')
        exact ((List.filter_sublist (l := D)).filter _).length_le)
    rw [hsplit, List.length_cons, Nat.mul_succ]
    have := hb y
    omega

/-- **fold count**: `2^a · |fold_b(S)| ≥ 2^b · |S|` for a set `S` of codes of a `2^a`-row matrix -/
theorem fold_count (a b : Nat) (hab : b ≤ a) (xs : List Nat) (hv : ∀ x ∈ xs, x < 64 * 2^a) :
    2^b * (distinct xs).length ≤ 2^a * (distinct (xs.map (foldRc b))).length := by
  have h1 := length_le_sum_fibers (foldRc b) (2^(a - b)) (distinct xs) (distinct (xs.map (foldRc b)))
    (nodup_distinct _)
    (by intro x hx; rw [mem_distinct] at hx ⊢; exact List.mem_map_of_mem hx)
    (fun y => filter_fold_le a b hab (distinct xs) (nodup_distinct xs) (fun x hx => hv x ((mem_distinct x xs).1 hx)) y)
  have hp : 2^a = 2^b * 2^(a - b) := by rw [← Nat.pow_add]; congr 1; omega
  calc 2^b * (distinct xs).length ≤ 2^b * (2^(a - b) * (distinct (xs.map (foldRc b))).length) := Nat.mul_le_mul_left _ h1
    _ = 2^a * (distinct (xs.map (foldRc b))).length := by rw [hp, Nat.mul_assoc]

/-- a set that is beyond SPARSE on `2^a` rows is beyond SPARSE on `2^b ≤ 2^a` rows after folding -/
theorem fold_beyond_sparse (a b : Nat) (hab : b ≤ a) (xs : List Nat) (hv : ∀ x ∈ xs, x < 64 * 2^a)
    (h : 3 * 2^a ≤ 32 * (distinct xs).length) : 3 * 2^b ≤ 32 * (distinct (xs.map (foldRc b))).length := by
  have hc := fold_count a b hab xs hv
  have hpos := Nat.two_pow_pos a
  apply Nat.le_of_mul_le_mul_left _ hpos
  calc 2^a * (3 * 2^b) = 2^b * (3 * 2^a) := by rw [Nat.mul_left_comm, Nat.mul_comm (2^a) (2^b), Nat.mul_left_comm]
    _ ≤ 2^b * (32 * (distinct xs).length) := Nat.mul_le_mul_left _ h
    _ = 32 * (2^b * (distinct xs).length) := by rw [Nat.mul_left_comm]
    _ ≤ 32 * (2^a * (distinct (xs.map (foldRc b))).length) := Nat.mul_le_mul_left _ hc
    _ = 2^a * (32 * (distinct (xs.map (foldRc b))).length) := by rw [Nat.mul_left_comm]

end DS.Cpc

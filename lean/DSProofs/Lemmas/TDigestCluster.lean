/-
t-digest (C17), exact arithmetic: the greedy clustering loop of `merge(buffer, weight)`.
 * means stay inside the range of the inputs, the output is sorted when the input is;
 * the first input element is never merged (explicit protection in the code);
 * the LAST input element is never merged because the scale limit vanishes at q = 1 (`ScaleOK`): the
   explicit test `std::distance(buffer.end(), it) != 1` is vacuous, this is where the protection really comes from.
-/
import DSProofs.Lemmas.TDigestSort
namespace DS.TDigest
open Num Conv

/-- the hypothesis on the abstract scale function: its limit vanishes at q = 1. -/
def ScaleOK (sc : Scale Rat) : Prop := ∀ nrm : Rat, sc.max 1 nrm = 0

/-- sorted by mean, non-increasing -/
def SortedD (l : List C) : Prop := l.Pairwise (fun a b => b.mean ≤ a.mean)

theorem cadd_mean {safe : Bool} (a b : C) :
    (cadd safe a b).mean = a.mean + (b.mean - a.mean) * (b.weight : Rat) / ((a.weight + b.weight : Nat) : Rat) := by
  -- over Rat every value is finite: the overflow fallback of the repaired shape is never taken
  simp [cadd, caddMean]

theorem frac_bounds (aw bw : Nat) : (0 : Rat) ≤ (bw : Rat) / ((aw + bw : Nat) : Rat) ∧ (bw : Rat) / ((aw + bw : Nat) : Rat) ≤ 1 := by
  have h0 : (0 : Rat) ≤ (bw : Rat) := Nat.cast_nonneg _
  have h1 : (0 : Rat) ≤ ((aw + bw : Nat) : Rat) := Nat.cast_nonneg _
  have h2 : (bw : Rat) ≤ ((aw + bw : Nat) : Rat) := by exact_mod_cast Nat.le_add_left bw aw
  exact ⟨div_nonneg h0 h1, div_le_one_of_le₀ h2 h1⟩

theorem cadd_between {safe : Bool} (a b : C) (h : a.mean ≤ b.mean) : a.mean ≤ (cadd safe a b).mean ∧ (cadd safe a b).mean ≤ b.mean := by
  obtain ⟨t0, t1⟩ := frac_bounds a.weight b.weight
  rw [cadd_mean, mul_div_assoc]
  constructor <;> nlinarith

theorem cadd_between' {safe : Bool} (a b : C) (h : b.mean ≤ a.mean) : b.mean ≤ (cadd safe a b).mean ∧ (cadd safe a b).mean ≤ a.mean := by
  obtain ⟨t0, t1⟩ := frac_bounds a.weight b.weight
  rw [cadd_mean, mul_div_assoc]
  constructor <;> nlinarith

theorem cadd_lo {safe : Bool} (a b : C) (lo : Rat) (ha : lo ≤ a.mean) (hb : lo ≤ b.mean) : lo ≤ (cadd safe a b).mean := by
  rcases le_total a.mean b.mean with h | h
  · exact le_trans ha (cadd_between a b h).1
  · exact le_trans hb (cadd_between' a b h).1

theorem cadd_hi {safe : Bool} (a b : C) (hi : Rat) (ha : a.mean ≤ hi) (hb : b.mean ≤ hi) : (cadd safe a b).mean ≤ hi := by
  rcases le_total a.mean b.mean with h | h
  · exact le_trans (cadd_between a b h).2 hb
  · exact le_trans (cadd_between' a b h).2 ha

variable (safe : Bool) (sc : Scale Rat) (kc cwD : Rat)

theorem cluster_lo (lo : Rat) (xs : List C) : ∀ (first : Bool) (cur : C) (wsf : Rat),
    lo ≤ cur.mean → (∀ x ∈ xs, lo ≤ x.mean) → ∀ c ∈ cluster safe sc kc cwD first cur wsf xs, lo ≤ c.mean := by
  induction xs with
  | nil => intro first cur wsf hc _ c hmem; simp [cluster] at hmem; subst hmem; exact hc
  | cons x xs ih =>
    intro first cur wsf hc hx c hmem
    simp only [cluster] at hmem
    have hx0 := hx x (List.mem_cons_self ..)
    have hxs : ∀ y ∈ xs, lo ≤ y.mean := fun y hy => hx y (List.mem_cons_of_mem _ hy)
    split at hmem
    · exact ih false (cadd safe cur x) wsf (cadd_lo cur x lo hc hx0) hxs c hmem
    · rcases List.mem_cons.1 hmem with rfl | hmem
      · exact hc
      · exact ih false x _ hx0 hxs c hmem

theorem cluster_hi (hi : Rat) (xs : List C) : ∀ (first : Bool) (cur : C) (wsf : Rat),
    cur.mean ≤ hi → (∀ x ∈ xs, x.mean ≤ hi) → ∀ c ∈ cluster safe sc kc cwD first cur wsf xs, c.mean ≤ hi := by
  induction xs with
  | nil => intro first cur wsf hc _ c hmem; simp [cluster] at hmem; subst hmem; exact hc
  | cons x xs ih =>
    intro first cur wsf hc hx c hmem
    simp only [cluster] at hmem
    have hx0 := hx x (List.mem_cons_self ..)
    have hxs : ∀ y ∈ xs, y.mean ≤ hi := fun y hy => hx y (List.mem_cons_of_mem _ hy)
    split at hmem
    · exact ih false (cadd safe cur x) wsf (cadd_hi cur x hi hc hx0) hxs c hmem
    · rcases List.mem_cons.1 hmem with rfl | hmem
      · exact hc
      · exact ih false x _ hx0 hxs c hmem

theorem cluster_pos (xs : List C) : ∀ (first : Bool) (cur : C) (wsf : Rat),
    1 ≤ cur.weight → (∀ x ∈ xs, 1 ≤ x.weight) → ∀ c ∈ cluster safe sc kc cwD first cur wsf xs, 1 ≤ c.weight := by
  induction xs with
  | nil => intro first cur wsf hc _ c hmem; simp [cluster] at hmem; subst hmem; exact hc
  | cons x xs ih =>
    intro first cur wsf hc hx c hmem
    simp only [cluster] at hmem
    have hx0 := hx x (List.mem_cons_self ..)
    have hxs : ∀ y ∈ xs, 1 ≤ y.weight := fun y hy => hx y (List.mem_cons_of_mem _ hy)
    split at hmem
    · exact ih false (cadd safe cur x) wsf (by simp; omega) hxs c hmem
    · rcases List.mem_cons.1 hmem with rfl | hmem
      · exact hc
      · exact ih false x _ hx0 hxs c hmem

theorem cluster_sorted (xs : List C) : ∀ (first : Bool) (cur : C) (wsf : Rat),
    Sorted (cur :: xs) → Sorted (cluster safe sc kc cwD first cur wsf xs) := by
  induction xs with
  | nil => intro first cur wsf _; simp [cluster, Sorted]
  | cons x xs ih =>
    intro first cur wsf h
    unfold Sorted at h
    rw [List.pairwise_cons, List.pairwise_cons] at h
    obtain ⟨h1, h2, h3⟩ := h
    have hcx := h1 x (List.mem_cons_self ..)
    simp only [cluster]
    split
    · apply ih
      unfold Sorted
      rw [List.pairwise_cons]
      exact ⟨fun y hy => le_trans (cadd_between cur x hcx).2 (h2 y hy), h3⟩
    · unfold Sorted
      rw [List.pairwise_cons]
      refine ⟨?_, ih false x _ (by unfold Sorted; rw [List.pairwise_cons]; exact ⟨h2, h3⟩)⟩
      exact cluster_lo safe sc kc cwD cur.mean xs false x _ hcx (fun y hy => h1 y (List.mem_cons_of_mem _ hy))

theorem cluster_sortedD (xs : List C) : ∀ (first : Bool) (cur : C) (wsf : Rat),
    SortedD (cur :: xs) → SortedD (cluster safe sc kc cwD first cur wsf xs) := by
  induction xs with
  | nil => intro first cur wsf _; simp [cluster, SortedD]
  | cons x xs ih =>
    intro first cur wsf h
    unfold SortedD at h
    rw [List.pairwise_cons, List.pairwise_cons] at h
    obtain ⟨h1, h2, h3⟩ := h
    have hcx := h1 x (List.mem_cons_self ..)
    simp only [cluster]
    split
    · apply ih
      unfold SortedD
      rw [List.pairwise_cons]
      exact ⟨fun y hy => le_trans (h2 y hy) (cadd_between' cur x hcx).1, h3⟩
    · unfold SortedD
      rw [List.pairwise_cons]
      refine ⟨?_, ih false x _ (by unfold SortedD; rw [List.pairwise_cons]; exact ⟨h2, h3⟩)⟩
      exact cluster_hi safe sc kc cwD cur.mean xs false x _ hcx (fun y hy => h1 y (List.mem_cons_of_mem _ hy))

/-- the explicit protection of the first element: the head of the output is the first input element -/
theorem cluster_head (xs : List C) (cur : C) (wsf : Rat) :
    (cluster safe sc kc cwD true cur wsf xs).head? = some cur := by
  cases xs with
  | nil => rfl
  | cons x xs => simp [cluster]

/-- with the whole weight accounted for, the scale test rejects the last element (`q2 = 1`, limit 0). -/
theorem addThis_last (hsc : ScaleOK sc) (cw n : Nat) (cur x : C) (hpos : 1 ≤ cur.weight + x.weight)
    (hcw : cw = n + cur.weight + x.weight) : addThis sc kc (cw : Rat) (n : Rat) cur x = false := by
  unfold addThis
  have hcwpos : (0 : Rat) < (cw : Rat) := by exact_mod_cast (by omega : 0 < cw)
  have hq2 : ((n : Rat) + ((cur.weight + x.weight : Nat) : Rat)) / (cw : Rat) = 1 := by
    rw [div_eq_one_iff_eq (ne_of_gt hcwpos)]
    rw [hcw]; push_cast; ring
  simp only [rat_add, rat_div, rat_ofNat, rat_mul, hq2, hsc (sc.normalizer kc (cw : Rat)), stdMin_eq]
  rw [rat_le_false]
  have hmin : min (sc.max ((n : Rat) / (cw : Rat)) (sc.normalizer kc (cw : Rat))) 0 ≤ 0 := min_le_right _ _
  have hp : (0 : Rat) < ((cur.weight + x.weight : Nat) : Rat) := by exact_mod_cast (by omega : 0 < cur.weight + x.weight)
  have : (cw : Rat) * min (sc.max ((n : Rat) / (cw : Rat)) (sc.normalizer kc (cw : Rat))) 0 ≤ 0 :=
    mul_nonpos_of_nonneg_of_nonpos hcwpos.le hmin
  linarith

/-- the last input element is never merged into its predecessor -/
theorem cluster_getLast (hsc : ScaleOK sc) (cw : Nat) (xs : List C) : ∀ (first : Bool) (cur : C) (n : Nat),
    xs ≠ [] → 1 ≤ cur.weight → (∀ c ∈ xs, 1 ≤ c.weight) → cw = n + cur.weight + sumWeights xs →
    (cluster safe sc kc (cw : Rat) first cur (n : Rat) xs).getLast? = xs.getLast? := by
  induction xs with
  | nil => intro _ _ _ h; exact absurd rfl h
  | cons x xs ih =>
    intro first cur n _ hcur hpos hcw
    have hx0 := hpos x (List.mem_cons_self ..)
    have hxs : ∀ y ∈ xs, 1 ≤ y.weight := fun y hy => hpos y (List.mem_cons_of_mem _ hy)
    have getLast?_cons_ne : ∀ (a : C) (l : List C), l ≠ [] → (a :: l).getLast? = l.getLast? := by
      intro a l hl
      obtain ⟨b, bs, rfl⟩ := List.exists_cons_of_ne_nil hl
      exact List.getLast?_cons_cons
    simp only [cluster]
    by_cases hnil : xs = []
    · subst hnil
      have := addThis_last sc kc hsc cw n cur x (by omega) (by simpa using hcw)
      simp [this, cluster]
    · split
      · rw [ih false (cadd safe cur x) n hnil (by simp; omega) hxs (by simp at hcw ⊢; omega)]
        exact (getLast?_cons_ne x xs hnil).symm
      · rw [getLast?_cons_ne _ _ (cluster_ne_nil safe sc kc (cw : Rat) xs false x _)]
        have hcast : ((n : Rat) +. Num.ofNat cur.weight) = ((n + cur.weight : Nat) : Rat) := by simp
        rw [hcast, ih false x (n + cur.weight) hnil hx0 hxs (by simp at hcw ⊢; omega)]
        exact (getLast?_cons_ne x xs hnil).symm

end DS.TDigest

/- Byte-level plumbing of the serialized image: little-endian fields and word arrays (free to change). -/
import DSProofs.Lemmas.CpcLossless
import DSModel.Cpc.Wire
namespace DS.Cpc

@[simp] theorem length_leBytes (n x : Nat) : (leBytes n x).length = n := by simp [leBytes]

theorem leBytes_succ (n x : Nat) : leBytes (n + 1) x = x % 256 :: leBytes n (x / 256) := by
  unfold leBytes
  rw [List.range_succ_eq_map, List.map_cons, List.map_map]
  congr 1
  · simp
  · apply List.map_congr_left
    intro i _
    simp only [Function.comp, Nat.succ_eq_add_one, Nat.pow_succ]
    rw [Nat.mul_comm, ← Nat.div_div_eq_div_mul]

theorem ofLe_leBytes (n x : Nat) (h : x < 256^n) : ofLe (leBytes n x) = x := by
  induction n generalizing x with
  | zero => simp [leBytes, ofLe] at *; omega
  | succ n ih =>
    rw [leBytes_succ]
    simp only [ofLe, List.foldr_cons]
    have : x / 256 < 256^n := by rw [Nat.pow_succ] at h; omega
    have := ih (x / 256) this
    simp only [ofLe] at this
    rw [this]; omega

theorem takeLe_leBytes (n x : Nat) (rest : List Nat) (h : x < 256^n) : takeLe n (leBytes n x ++ rest) = some (x, rest) := by
  unfold takeLe
  have hl : ¬ (leBytes n x ++ rest).length < n := by simp
  rw [if_neg hl]
  rw [List.take_append_of_le_length (by simp), List.take_of_length_le (by simp), List.drop_append_of_le_length (by simp),
    List.drop_of_length_le (by simp), List.nil_append, ofLe_leBytes n x h]

theorem takeWords_flatMap (ws : List Nat) (rest : List Nat) (h : ∀ w ∈ ws, w < 256^4) :
    takeWords ws.length (ws.flatMap (leBytes 4) ++ rest) = some (ws, rest) := by
  induction ws with
  | nil => simp [takeWords]
  | cons a t ih =>
    simp only [List.length_cons, List.flatMap_cons, List.append_assoc, takeWords]
    rw [takeLe_leBytes 4 a _ (h a List.mem_cons_self)]
    simp only
    rw [ih (fun w hw => h w (List.mem_cons_of_mem _ hw))]

theorem packWords_lt (bs : Bits) : ∀ w ∈ packWords bs, w < 256^4 := by
  induction hn : bs.length using Nat.strongRecOn generalizing bs with
  | _ n ih =>
    intro w hw
    by_cases hb : bs = []
    · subst hb; rw [packWords] at hw; simp at hw
    · rw [packWords, dif_neg hb] at hw
      rcases List.mem_cons.1 hw with rfl | hw
      · have := valOf_lt (bs.take 32)
        have h2 : (bs.take 32).length ≤ 32 := by simp; omega
        calc valOf (bs.take 32) < 2^(bs.take 32).length := this
          _ ≤ 2^32 := Nat.pow_le_pow_right (by decide) h2
          _ = 256^4 := by decide
      · have hlen : (bs.drop 32).length < n := by
          cases bs with
          | nil => exact absurd rfl hb
          | cons a t => simp only [List.length_drop, List.length_cons] at hn ⊢; omega
        exact ih _ hlen (bs.drop 32) rfl w hw

theorem packWords_ne_nil (bs : Bits) (h : bs ≠ []) : packWords bs ≠ [] := by
  rw [packWords, dif_neg h]; simp

theorem length_packWords_le (bs : Bits) : (packWords bs).length ≤ bs.length := by
  induction hn : bs.length using Nat.strongRecOn generalizing bs with
  | _ n ih =>
    by_cases hb : bs = []
    · subst hb; rw [packWords]; simp
    · rw [packWords, dif_neg hb]
      have hlen : (bs.drop 32).length < n := by
        cases bs with
        | nil => exact absurd rfl hb
        | cons a t => simp only [List.length_drop, List.length_cons] at hn ⊢; omega
      have := ih _ hlen (bs.drop 32) rfl
      have hpos : 0 < bs.length := by cases bs with
        | nil => exact absurd rfl hb
        | cons a t => simp
      simp only [List.length_cons, List.length_drop] at this ⊢
      omega

end DS.Cpc

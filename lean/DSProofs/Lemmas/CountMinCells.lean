/-
Cell-level lemmas for the count-min model: what `update` does to every flat cell, and the resulting
closed form of the cells / total / config of `runFrom`.  No algebraic laws are needed here.
-/
import DSProofs.Lemmas.CountMin
namespace DS.CountMin

variable {W : Type} [Weight W] {ι : Type}

/-! ### index arithmetic -/

theorem cellIdx_div (c : Cfg) (h : ι → Nat → Nat) (x : ι) (r : Nat) (hb : 0 < c.numBuckets) :
    cellIdx c h x r / c.numBuckets = r := by
  unfold cellIdx
  rw [Nat.mul_comm, Nat.mul_add_div hb, Nat.div_eq_of_lt (Nat.mod_lt _ hb), Nat.add_zero]

theorem cellIdx_mod (c : Cfg) (h : ι → Nat → Nat) (x : ι) (r : Nat) :
    cellIdx c h x r % c.numBuckets = h x r % c.numBuckets := by
  unfold cellIdx
  rw [Nat.mul_comm, Nat.mul_add_mod, Nat.mod_mod]

theorem cellIdx_lt (c : Cfg) (h : ι → Nat → Nat) (x : ι) {r : Nat} (hr : r < c.numHashes) (hb : 0 < c.numBuckets) :
    cellIdx c h x r < c.numHashes * c.numBuckets := by
  unfold cellIdx
  have h1 : h x r % c.numBuckets < c.numBuckets := Nat.mod_lt _ hb
  have h2 : (r + 1) * c.numBuckets ≤ c.numHashes * c.numBuckets := Nat.mul_le_mul_right _ hr
  rw [Nat.add_mul, Nat.one_mul] at h2
  omega

theorem hits_iff (c : Cfg) (h : ι → Nat → Nat) (x : ι) (i : Nat) (hb : 0 < c.numBuckets) :
    hits c h x i = true ↔ ∃ r, r < c.numHashes ∧ cellIdx c h x r = i := by
  unfold hits
  simp only [Bool.and_eq_true, decide_eq_true_eq, beq_iff_eq]
  constructor
  · rintro ⟨h1, h2⟩
    refine ⟨i / c.numBuckets, h1, ?_⟩
    unfold cellIdx
    rw [h2]; exact Nat.div_add_mod' i c.numBuckets
  · rintro ⟨r, hr, rfl⟩
    rw [cellIdx_div c h x r hb, cellIdx_mod]
    exact ⟨hr, rfl⟩

theorem hits_cellIdx (c : Cfg) (h : ι → Nat → Nat) (x : ι) {r : Nat} (hr : r < c.numHashes) (hb : 0 < c.numBuckets) :
    hits c h x (cellIdx c h x r) = true := (hits_iff c h x _ hb).2 ⟨r, hr, rfl⟩

/-! ### one update -/

theorem addRows_getElem? (c : Cfg) (h : ι → Nat → Nat) (x : ι) (w : W) (hb : 0 < c.numBuckets) :
    ∀ (rs : List Nat) (a : Array W) (i : Nat), rs.Nodup →
      (addRows c h x w rs a)[i]? =
        if ∃ r, r ∈ rs ∧ cellIdx c h x r = i then a[i]?.map (fun v => Weight.add v w) else a[i]?
  | [], a, i, _ => by simp [addRows]
  | r :: rs, a, i, hnd => by
    have hnd' := List.nodup_cons.1 hnd
    rw [addRows, addRows_getElem? c h x w hb rs _ i hnd'.2, Array.getElem?_modify]
    by_cases h1 : cellIdx c h x r = i
    · have hno : ¬ ∃ r', r' ∈ rs ∧ cellIdx c h x r' = i := by
        rintro ⟨r', hr', he⟩
        have : r' = r := by
          have e1 := cellIdx_div c h x r' hb
          have e2 := cellIdx_div c h x r hb
          rw [he] at e1; rw [h1] at e2; omega
        exact hnd'.1 (this ▸ hr')
      have hyes : ∃ r', r' ∈ r :: rs ∧ cellIdx c h x r' = i := ⟨r, List.mem_cons_self, h1⟩
      simp only [hno, hyes, h1, if_true, if_false]
    · by_cases h2 : ∃ r', r' ∈ rs ∧ cellIdx c h x r' = i
      · have hyes : ∃ r', r' ∈ r :: rs ∧ cellIdx c h x r' = i := by
          obtain ⟨r', hr', he⟩ := h2; exact ⟨r', List.mem_cons_of_mem _ hr', he⟩
        simp only [h2, hyes, h1, if_true, if_false]
      · have hno : ¬ ∃ r', r' ∈ r :: rs ∧ cellIdx c h x r' = i := by
          rintro ⟨r', hr', he⟩
          rcases List.mem_cons.1 hr' with rfl | hr'
          · exact h1 he
          · exact h2 ⟨r', hr', he⟩
        simp only [h2, hno, h1, if_false]

theorem update_cells (h : ι → Nat → Nat) (s : St W) (x : ι) (w : W) (hb : 0 < s.cfg.numBuckets) (i : Nat) :
    (update h s x w).cells[i]? =
      if hits s.cfg h x i then s.cells[i]?.map (fun v => Weight.add v w) else s.cells[i]? := by
  unfold update
  simp only
  rw [addRows_getElem? s.cfg h x w hb _ _ i List.nodup_range]
  have : (∃ r, r ∈ List.range s.cfg.numHashes ∧ cellIdx s.cfg h x r = i) ↔ hits s.cfg h x i = true := by
    rw [hits_iff s.cfg h x i hb]; simp only [List.mem_range]
  by_cases hh : hits s.cfg h x i = true
  · simp only [this.2 hh, hh, if_true]
  · have hn : ¬ ∃ r, r ∈ List.range s.cfg.numHashes ∧ cellIdx s.cfg h x r = i := fun e => hh (this.1 e)
    rw [if_neg hn, if_neg hh]

@[simp] theorem update_cfg (h : ι → Nat → Nat) (s : St W) (x : ι) (w : W) : (update h s x w).cfg = s.cfg := rfl
@[simp] theorem update_total (h : ι → Nat → Nat) (s : St W) (x : ι) (w : W) :
    (update h s x w).total = Weight.add s.total (Weight.absw w) := rfl

/-! ### streams -/

@[simp] theorem runFrom_nil (h : ι → Nat → Nat) (s : St W) : runFrom h s [] = s := rfl
@[simp] theorem runFrom_cons (h : ι → Nat → Nat) (s : St W) (o : ι × W) (ops : List (ι × W)) :
    runFrom h s (o :: ops) = runFrom h (update h s o.1 o.2) ops := rfl
theorem runFrom_append (h : ι → Nat → Nat) (s : St W) (a b : List (ι × W)) :
    runFrom h s (a ++ b) = runFrom h (runFrom h s a) b := by
  unfold runFrom; rw [List.foldl_append]

@[simp] theorem runFrom_cfg (h : ι → Nat → Nat) : ∀ (ops : List (ι × W)) (s : St W), (runFrom h s ops).cfg = s.cfg
  | [], _ => rfl
  | o :: ops, s => by rw [runFrom_cons, runFrom_cfg h ops]; rfl

theorem runFrom_total (h : ι → Nat → Nat) : ∀ (ops : List (ι × W)) (s : St W),
    (runFrom h s ops).total = ops.foldl (fun acc o => Weight.add acc (Weight.absw o.2)) s.total
  | [], _ => rfl
  | o :: ops, s => by rw [runFrom_cons, runFrom_total h ops]; rfl

theorem runFrom_cells (h : ι → Nat → Nat) (i : Nat) : ∀ (ops : List (ι × W)) (s : St W), 0 < s.cfg.numBuckets →
    (runFrom h s ops).cells[i]? = s.cells[i]?.map (fun v => cellAcc s.cfg h i v ops)
  | [], s, _ => by simp [cellAcc]
  | o :: ops, s, hb => by
    rw [runFrom_cons, runFrom_cells h i ops _ (by simpa using hb), update_cells h s o.1 o.2 hb i]
    simp only [update_cfg]
    by_cases hh : hits s.cfg h o.1 i = true
    · simp only [hh, if_true, Option.map_map]
      congr 1; funext v; simp [cellAcc, List.foldl_cons, hh]
    · rw [if_neg hh]
      congr 1; funext v; simp [cellAcc, List.foldl_cons, hh]

@[simp] theorem init_cfg (c : Cfg) : (init c : St W).cfg = c := rfl
@[simp] theorem init_total (c : Cfg) : (init c : St W).total = Weight.zero := rfl
theorem init_cells (c : Cfg) (i : Nat) :
    (init c : St W).cells[i]? = if i < c.numHashes * c.numBuckets then some Weight.zero else none := by
  unfold init; simp only; rw [Array.getElem?_replicate]

@[simp] theorem run_cfg (c : Cfg) (h : ι → Nat → Nat) (ops : List (ι × W)) : (run c h ops).cfg = c := by
  unfold run; simp

theorem run_total (c : Cfg) (h : ι → Nat → Nat) (ops : List (ι × W)) : (run c h ops).total = totalAbs ops := by
  unfold run totalAbs; rw [runFrom_total]; rfl

theorem run_cells (c : Cfg) (h : ι → Nat → Nat) (ops : List (ι × W)) (hb : 0 < c.numBuckets) (i : Nat) :
    (run c h ops).cells[i]? = if i < c.numHashes * c.numBuckets then some (cellSum c h i ops) else none := by
  unfold run
  rw [runFrom_cells h i ops _ (by simpa using hb), init_cells]
  by_cases hi : i < c.numHashes * c.numBuckets <;> simp [hi, cellSum]

/-- the value `get_estimate` reads in row `r` is the exact count of that cell -/
theorem run_cellAt (c : Cfg) (h : ι → Nat → Nat) (ops : List (ι × W)) (hb : 0 < c.numBuckets) (x : ι) {r : Nat}
    (hr : r < c.numHashes) : cellAt h (run c h ops) x r = cellSum c h (cellIdx c h x r) ops := by
  unfold cellAt
  rw [Array.getD_eq_getD_getElem?, run_cfg, run_cells c h ops hb]
  simp [cellIdx_lt c h x hr hb]

end DS.CountMin

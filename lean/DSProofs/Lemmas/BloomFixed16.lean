/- Repaired model: initialize_by_size on caller memory preserves the invariant. -/
import DSProofs.Lemmas.BloomFixed15
namespace DS.Bloom

variable {ι : Type} [DecidableEq ι] (P : Params) (hf : ι → Nat → Option (Nat × Nat))

omit [DecidableEq ι] in
/-- a memory view with an empty must-set that is behind the block's version -/
theorem viewOK_stale_empty {X' : Nat} {s' : SInfo ι} {f : Filter} {i : VInfo ι} (hm : isMem f = true)
    (hk : i.promised = true → KOK f) (hlt : i.sync < s'.ver) : ViewOK P hf X' s' f { i with M := [] } := by
  have hin : insync s' f { i with M := [] } = false := insync_mem_false_of_lt hm hlt
  refine ⟨fun _ => rfl, fun _ _ _ => hlt, hk, ?_, Covers.nil _ _ _ _, ?_, ?_, ?_, fun _ => Nat.le_of_lt hlt, fun _ _ => rfl, ?_⟩
  · intro y hy; cases hy
  · intro h; exact absurd rfl h
  · intro _ h; rw [hin] at h; cases h
  · intro _ h; rw [hin] at h; cases h
  · intro h; rw [hm] at h; cases h

theorem good_init (hP : P.Wire) (w : World) (p : PGhost ι) (hg : Good P hf w p) (v m nb nh seed : Nat)
    (hsmall : nb ≤ 2 ^ 32 - 64) (hnh : nh < 2 ^ 16) (hseed : seed < 2 ^ 64) :
    Good P hf (opInit P w v m nb nh seed).1 (pstep hf p w (opInit P w v m nb nh seed).1 (opInit P w v m nb nh seed).2 (.init v m nb nh seed)) := by
  by_cases hb : badSize P nb nh = true
  · simp [opInit, pstep, hb]; exact hg
  have hb' : badSize P nb nh = false := by simpa using hb
  by_cases hl : w.blockLen m < serializedSize P (roundUp64 nb)
  · simp [opInit, pstep, hb', hl]; exact hg
  simp only [opInit, pstep, hb', hl, Bool.false_eq_true, if_false, if_true]
  have hnb : nb ≠ 0 ∧ 1 ≤ nh := by
    simp only [badSize, Bool.or_eq_false_iff, beq_eq_false_iff_ne] at hb'; omega
  have hcap := roundUp64_pos nb hnb.1
  have hcaplt : roundUp64 nb < 2 ^ 32 := by simp only [roundUp64]; omega
  have hlen : 8 * (4 + roundUp64 nb / 64) ≤ w.blockLen m := by
    simp only [serializedSize, hP.preStd] at hl; omega
  -- names
  generalize hxdef : setField (w.blockVal m) 0 (8 * (24 + 8 * (roundUp64 nb / 64 + 1))) (headerVal P P.preStd 0 nh seed (roundUp64 nb / 64)) = x
  generalize hfdef : ({ seed := seed, numHashes := nh, capBits := roundUp64 nb, ref := Ref.mem m, nbs := 0, dirty := false, readOnly := false } : Filter) = fn
  have hfr : fn.ref = .mem m := by rw [← hfdef]
  have hfm : isMem fn = true := by rw [← hfdef]; rfl
  have hparse : parseImage P ⟨w.blockLen m, x⟩ = .full fn.capBits fn.numHashes fn.seed 0 (roundUp64 nb / 64) := by
    rw [← hxdef, ← hfdef]; exact parse_init P hP _ _ _ _ _ hlen hcap.1 hcap.2 hcaplt hnh hseed hnb.2
  have hclear : ∀ j, j < fn.capBits → x.testBit (256 + j) = false := by
    intro j hj; rw [← hxdef]; rw [← hfdef] at hj; exact init_bits_clear P _ _ _ _ j hj hcap.2
  have hfw : FWF fn := by rw [← hfdef]; exact ⟨hcap.1, hcap.2, Nat.lt_trans hcaplt (by decide), hnh, hseed⟩
  have hver : ∀ k, ((((p.setS (Key.mem m) ⟨[], (p.si (Key.mem m)).ver + 1, false⟩).mapViewsOf w (Key.mem m) (fun i => { i with M := [] })).setV v
      ⟨[], true, (p.si (Key.mem m)).ver + 1⟩).si k) = if k = .mem m then ⟨[], (p.si (Key.mem m)).ver + 1, false⟩ else p.si k := by
    intro k
    by_cases hk : k = .mem m
    · subst hk; simp only [setV_si, mapViewsOf_si, setS_si_same, if_true]
    · simp only [setV_si, mapViewsOf_si, setS_si_ne _ _ hk, hk, if_false]
  refine ⟨?_, ?_, ?_, ?_, ?_, ?_, ?_⟩
  · intro u fu h'
    by_cases e : u = v
    · subst e; exact ⟨_, setV_vi_same _ _ _⟩
    · simp only [World.setFilter, World.setBlock, e, if_false] at h'
      obtain ⟨iu, hiu⟩ := hg.tracked u fu h'
      rw [setV_vi_ne _ _ e, mapViewsOf_vi _ _ _ _ u fu iu h' (by simpa using hiu)]
      exact ⟨_, rfl⟩
  · intro u fu h'
    by_cases e : u = v
    · subst e; simp only [setFilter_filters_same, Option.some.injEq] at h'; rw [← h']; exact hfw
    · simp only [World.setFilter, World.setBlock, e, if_false] at h'; exact hg.fwf u fu h'
  · intro u fu iu h' hi'
    by_cases e : u = v
    · subst e
      simp only [setFilter_filters_same, Option.some.injEq] at h'
      simp only [setV_vi_same, Option.some.injEq] at hi'
      subst h' hi'
      have hk : keyOf u fn = .mem m := by simp [keyOf, hfr]
      rw [hk, hver, keyVal_setFilter_mem, keyVal_setBlock_mem]
      simp only [if_true]
      have hoff : fn.off P = 256 := off_mem P hP.layout hfm
      refine ⟨?_, ?_, ?_, ?_, Covers.nil _ _ _ _, ?_, ?_, ?_, ?_, ?_, ?_⟩
      · intro h; cases h
      · intro h; cases h
      · intro _; rw [← hfdef]; exact ⟨hnb.2, hcaplt⟩
      · intro y hy; cases hy
      · intro h; exact absurd rfl h
      · intro _ _ _
        rw [hoff, popCount_zero_of x 256 fn.capBits hclear]
        rw [← hfdef]
      · intro _ _ _ _ hd; rw [← hfdef] at hd; cases hd
      · intro _; exact Nat.le_refl _
      · intro _ h; cases h
      · intro h; rw [hfm] at h; cases h
    · simp only [World.setFilter, World.setBlock, e, if_false] at h'
      obtain ⟨iu0, hiu0⟩ := hg.tracked u fu h'
      have hoku := hg.view u fu iu0 h' hiu0
      rw [setV_vi_ne _ _ e, mapViewsOf_vi _ _ _ _ u fu iu0 h' (by simpa using hiu0)] at hi'
      injection hi' with hi'; subst hi'
      rw [hver]
      by_cases hk : keyOf u fu = .mem m
      · simp only [hk, if_true]
        have hmem := (keyOf_mem_of_eq hk).2
        have hsv := hoku.sv hmem
        rw [hk] at hsv
        exact viewOK_stale_empty P hf hmem hoku.k1 (by simp only; omega)
      · simp only [hk, if_false]
        have : keyVal ((w.setBlock m ⟨w.blockLen m, x⟩).setFilter v fn) (keyOf u fu) = keyVal w (keyOf u fu) := by
          rw [keyVal_setFilter_ne_own _ _ _ _ (keyOf_ne_own_of_ne fu e), keyVal_setBlock_ne_mem _ _ _ _ hk]
        rw [this]; exact hoku
  · intro m' b' hb' ht
    rw [hver] at ht ⊢
    by_cases e : m' = m
    · subst e
      simp only [World.setFilter, World.setBlock, if_true, Option.some.injEq] at hb'
      subst hb'
      simp only [if_true]
      right
      refine ⟨_, _, _, _, _, hparse, ?_, Or.inr ?_, Covers.nil _ _ _ _, ?_⟩
      · rw [← hfdef]; exact ⟨hnb.2, hcaplt⟩
      · simp only; exact (popCount_zero_of x 256 fn.capBits hclear).symm
      · intro y hy; cases hy
    · have hk : Key.mem m' ≠ Key.mem m := by intro h; injection h with h; exact e h
      simp only [hk, if_false] at ht ⊢
      simp only [World.setFilter, World.setBlock, e, if_false] at hb'
      exact hg.blk m' b' hb' ht
  · intro m' ht
    rw [hver] at ht ⊢
    by_cases e : m' = m
    · subst e; simp at ht
    · have hk : Key.mem m' ≠ Key.mem m := by intro h; injection h with h; exact e h
      simp only [hk, if_false] at ht ⊢
      exact hg.taintS m' ht
  · intro u fu m' h' hr'
    by_cases e : u = v
    · subst e
      simp only [setFilter_filters_same, Option.some.injEq] at h'; subst h'
      rw [hfr] at hr'; injection hr' with hr'; subst hr'
      exact ⟨⟨w.blockLen m, x⟩, by simp [World.setFilter, World.setBlock]⟩
    · simp only [World.setFilter, World.setBlock, e, if_false] at h'
      obtain ⟨b0, hb0⟩ := hg.memref u fu m' h' hr'
      by_cases e2 : m' = m
      · exact ⟨⟨w.blockLen m, x⟩, by simp [World.setFilter, World.setBlock, e2]⟩
      · exact ⟨b0, by simp [World.setFilter, World.setBlock, e2, hb0]⟩
  · intro u fu iu m' b' h' hi' hr' hb' hpu hin
    rw [hver] at hin
    by_cases e : u = v
    · subst e
      simp only [setFilter_filters_same, Option.some.injEq] at h'; subst h'
      rw [hfr] at hr'; injection hr' with hr'; subst hr'
      simp only [World.setFilter, World.setBlock, if_true, Option.some.injEq] at hb'
      subst hb'
      exact ⟨_, _, hparse⟩
    · simp only [World.setFilter, World.setBlock, e, if_false] at h'
      obtain ⟨iu0, hiu0⟩ := hg.tracked u fu h'
      rw [setV_vi_ne _ _ e, mapViewsOf_vi _ _ _ _ u fu iu0 h' (by simpa using hiu0)] at hi'
      injection hi' with hi'; subst hi'
      have hku : keyOf u fu = .mem m' := by simp [keyOf, hr']
      have hmem := (keyOf_mem_of_eq hku).2
      by_cases e2 : m' = m
      · subst e2
        simp only [if_true] at hin
        have hsv := (hg.view u fu iu0 h' hiu0).sv hmem
        rw [hku] at hsv
        rw [insync_mem_false_of_lt hmem (by simp only [hku, if_true]; omega)] at hin
        cases hin
      · have hk : Key.mem m' ≠ Key.mem m := by intro h; injection h with h; exact e2 h
        simp only [hk, if_false] at hin
        simp only [World.setFilter, World.setBlock, e2, if_false] at hb'
        simp only [hku, hk, if_false] at hpu hin
        exact hg.memfull u fu iu0 m' b' h' hiu0 hr' hb' hpu hin

end DS.Bloom

/- The invariant of the REPAIRED model (`Fix.fixed`) under the promise ghost: definitions and ghost algebra. -/
import DSProofs.Lemmas.BloomImage
import DSModel.Bloom.Promise
namespace DS.Bloom

variable {ι : Type}

/-! ### ghost algebra -/

@[simp] theorem setV_vi_same (p : PGhost ι) (v : Nat) (i : VInfo ι) : (p.setV v i).vi v = some i := by simp [PGhost.setV]
theorem setV_vi_ne (p : PGhost ι) {v v' : Nat} (i : VInfo ι) (h : v' ≠ v) : (p.setV v i).vi v' = p.vi v' := by simp [PGhost.setV, h]
@[simp] theorem setV_si (p : PGhost ι) (v : Nat) (i : VInfo ι) : (p.setV v i).si = p.si := rfl
@[simp] theorem setS_si_same (p : PGhost ι) (k : Key) (s : SInfo ι) : (p.setS k s).si k = s := by simp [PGhost.setS]
theorem setS_si_ne (p : PGhost ι) {k k' : Key} (s : SInfo ι) (h : k' ≠ k) : (p.setS k s).si k' = p.si k' := by simp [PGhost.setS, h]
@[simp] theorem setS_vi (p : PGhost ι) (k : Key) (s : SInfo ι) : (p.setS k s).vi = p.vi := rfl
@[simp] theorem mapViewsOf_si (p : PGhost ι) (w : World) (k : Key) (fn : VInfo ι → VInfo ι) : (p.mapViewsOf w k fn).si = p.si := rfl

theorem mapViewsOf_vi (p : PGhost ι) (w : World) (k : Key) (fn : VInfo ι → VInfo ι) (v : Nat) (f : Filter) (i : VInfo ι)
    (hf : w.filters v = some f) (hi : p.vi v = some i) :
    (p.mapViewsOf w k fn).vi v = some (if keyOf v f = k then fn i else i) := by
  simp only [PGhost.mapViewsOf, hf, hi]
  by_cases h : keyOf v f = k <;> simp [h]

/-! ### the invariant -/

/-- in-sync, as a function of the state info of the view's own bit state -/
def insync (s : SInfo ι) (f : Filter) (i : VInfo ι) : Bool :=
  match f.ref with
  | .owned _ => true
  | .mem _ => !s.tainted && i.sync == s.ver

theorem inSync_eq (p : PGhost ι) (v : Nat) (f : Filter) (i : VInfo ι) : inSync p v f i = insync (p.si (keyOf v f)) f i := by
  unfold inSync insync keyOf
  cases f.ref <;> rfl

/-- a view that carries promises has at least one hash function and a capacity below 2^32 bits (so that the 32-bit
`num_longs << 6` of the pinned readers does not wrap when its image is read back) -/
def KOK (f : Filter) : Prop := 1 ≤ f.numHashes ∧ f.capBits < 2 ^ 32

def Hashed (hf : ι → Nat → Option (Nat × Nat)) (seed : Nat) (l : List ι) : Prop := ∀ x ∈ l, (hf x seed).isSome = true

/-- per view: `X` = the number holding its bit state, `s` = ghost info of that bit state -/
structure ViewOK (P : Params) (hf : ι → Nat → Option (Nat × Nat)) (X : Nat) (s : SInfo ι) (f : Filter) (i : VInfo ι) : Prop where
  up : i.promised = false → i.M = []
  /-- an unpromised view of a block that carries promises is never in sync -/
  us : i.promised = false → isMem f = true → s.tainted = false → i.sync < s.ver
  k1 : i.promised = true → KOK f
  hs : Hashed hf f.seed i.M
  cov : Covers hf X (f.off P) f.cfg i.M
  ne : i.M ≠ [] → f.isEmpty = false
  ex : i.promised = true → insync s f i = true → f.dirty = false → f.nbs = popCount X (f.off P) f.capBits
  dh : i.promised = true → insync s f i = true → isMem f = true → f.readOnly = false → f.dirty = true → getField X 192 64 = P.dirty
  sv : isMem f = true → i.sync ≤ s.ver
  tm : isMem f = true → s.tainted = true → i.M = []
  /-- an owned bit state belongs to exactly this view -/
  os : isMem f = false → Covers hf X 0 f.cfg s.S ∧ Hashed hf f.seed s.S ∧ (i.promised = false → s.S = [])

/-- per caller block that still carries promises -/
def BlockOK (P : Params) (hf : ι → Nat → Option (Nat × Nat)) (b : Block) (S : List ι) : Prop :=
  (∃ nb nh seed, parseImage P b = .emptyImg nb nh seed ∧ S = [] ∧ nb ≤ 2 ^ 32 - 64) ∨
  (∃ cap nh seed nbs nl, parseImage P b = .full cap nh seed nbs nl ∧ (1 ≤ nh ∧ cap < 2 ^ 32) ∧ (nbs = P.dirty ∨ nbs = popCount b.val 256 cap) ∧
      Covers hf b.val 256 ⟨cap, nh, seed⟩ S ∧ Hashed hf seed S)

structure Good (P : Params) (hf : ι → Nat → Option (Nat × Nat)) (w : World) (p : PGhost ι) : Prop where
  tracked : ∀ v f, w.filters v = some f → ∃ i, p.vi v = some i
  fwf : ∀ v f, w.filters v = some f → FWF f
  view : ∀ v f i, w.filters v = some f → p.vi v = some i → ViewOK P hf (keyVal w (keyOf v f)) (p.si (keyOf v f)) f i
  blk : ∀ m b, w.blocks m = some b → (p.si (.mem m)).tainted = false → BlockOK P hf b (p.si (.mem m)).S
  taintS : ∀ m, (p.si (.mem m)).tainted = true → (p.si (.mem m)).S = []
  memref : ∀ v f m, w.filters v = some f → f.ref = .mem m → ∃ b, w.blocks m = some b
  /-- a promised in-sync view of a block that carries promises sees the header it was created from -/
  memfull : ∀ v f i m b, w.filters v = some f → p.vi v = some i → f.ref = .mem m → w.blocks m = some b →
      i.promised = true → insync (p.si (.mem m)) f i = true →
      ∃ nbs nl, parseImage P b = .full f.capBits f.numHashes f.seed nbs nl

theorem good_empty (P : Params) (hf : ι → Nat → Option (Nat × Nat)) : Good P hf World.empty (PGhost.empty : PGhost ι) := by
  refine ⟨?_, ?_, ?_, ?_, ?_, ?_, ?_⟩ <;> intros <;> simp_all [World.empty, PGhost.empty]

/-- the conclusion of the full no-false-negative statement follows from `ViewOK` -/
theorem query_of_viewOK (P : Params) (hf : ι → Nat → Option (Nat × Nat)) (w : World) (v : Nat) (f : Filter) (hv : w.filters v = some f)
    (s : SInfo ι) (i : VInfo ι) (hok : ViewOK P hf (keyVal w (keyOf v f)) s f i) (x : ι) (hx : x ∈ i.M) :
    query P w f (hf x f.seed) = true := by
  have hs := hok.hs x hx
  cases hh : hf x f.seed with
  | none => rw [hh] at hs; cases hs
  | some h =>
    have hne := hok.ne (List.ne_nil_of_mem hx)
    have hc := hok.cov x hx h hh
    rw [← val_eq_keyVal w v f hv] at hc
    simp only [Filter.cfg] at hc
    simp [query, hne, hc]

end DS.Bloom

/-
Soundness of the symbolic evaluation of pack routines (helper lemmas; see BitPackSound.lean).
-/
import DSProofs.Lemmas.BitPackSound
namespace DS.Wire.BitPack

def srcVals (vals : List Nat) : Nat → Nat → Bool := fun i p => (vals.getD i 0).testBit p

theorem vbit_sound (vals : List Nat) (n vi p : Nat) (hv : vals.getD vi 0 < 2 ^ n) :
    Interp (srcVals vals) (vbit n vi p) ((vals.getD vi 0).testBit p) := by
  unfold vbit
  split
  · simp [Interp, srcVals]
  · rename_i h
    have hle : n ≤ p := Nat.le_of_not_lt h
    have : vals.getD vi 0 < 2 ^ p := Nat.lt_of_lt_of_le hv (Nat.pow_le_pow_right (by decide) hle)
    simp only [Interp]
    exact Nat.testBit_lt_two_pow this

theorem packByte_lt (v : Nat) (sh : Sh) (x : Nat) (h : packByte v sh = some x) : x < 2 ^ 8 := by
  have h256 : (2 : Nat) ^ 8 = 256 := by decide
  rw [h256]
  cases sh with
  | none => simp only [packByte, Option.some.injEq] at h; rw [← h]; exact Nat.mod_lt _ (by decide)
  | shl k =>
    simp only [packByte] at h
    split at h
    · simp only [Option.some.injEq] at h; rw [← h]; exact Nat.mod_lt _ (by decide)
    · simp at h
  | shr k =>
    simp only [packByte] at h
    split at h
    · simp only [Option.some.injEq] at h; rw [← h]; exact Nat.mod_lt _ (by decide)
    · simp at h

theorem packSBit_sound (vals : List Nat) (n vi : Nat) (sh : Sh) (x b : Nat) (hb : b < 8) (hv : vals.getD vi 0 < 2 ^ n)
    (h : packByte (vals.getD vi 0) sh = some x) : Interp (srcVals vals) (packSBit n vi sh b) (x.testBit b) := by
  have h256 : (256 : Nat) = 2 ^ 8 := by decide
  cases sh with
  | none =>
    simp only [packByte, Option.some.injEq] at h
    rw [← h, h256, Nat.testBit_mod_two_pow]
    simp only [hb, decide_true, Bool.true_and, packSBit]
    exact vbit_sound vals n vi b hv
  | shl k =>
    simp only [packByte] at h
    split at h
    · simp only [Option.some.injEq] at h
      rw [← h, h256, Nat.testBit_mod_two_pow, Nat.testBit_mod_two_pow, Nat.testBit_shiftLeft]
      have hb64 : b < 64 := by omega
      simp only [hb, hb64, decide_true, Bool.true_and, packSBit]
      by_cases hk : b < k
      · have : ¬ b ≥ k := by omega
        simp [hk, this, Interp]
      · have : b ≥ k := by omega
        simp only [hk, ↓reduceIte, this, decide_true, Bool.true_and]
        exact vbit_sound vals n vi (b - k) hv
    · simp at h
  | shr k =>
    simp only [packByte] at h
    split at h
    · simp only [Option.some.injEq] at h
      rw [← h, h256, Nat.testBit_mod_two_pow, Nat.testBit_shiftRight]
      simp only [hb, decide_true, Bool.true_and, packSBit]
      rw [Nat.add_comm k b]
      exact vbit_sound vals n vi (b + k) hv
    · simp at h

theorem packByte_some (v : Nat) (sh : Sh) (h : shOk sh = true) : ∃ x, packByte v sh = some x := by
  cases sh with
  | none => exact ⟨_, rfl⟩
  | shl k => simp only [shOk, decide_eq_true_eq] at h; simp [packByte, h]
  | shr k => simp only [shOk, decide_eq_true_eq] at h; simp [packByte, h]

theorem pstep_sound (n : Nat) (vals : List Nat) (hv : ∀ i, vals.getD i 0 < 2 ^ n) (hlen : vals.length = 8)
    (s s' : SPState) (c : PState) (st : PStmt) (hptr : s.ptr = c.ptr) (hrel : MemRel (srcVals vals) 8 s.mem c.mem)
    (h : spstep n s st = some s') :
    ∃ c', pstep vals c st = some c' ∧ s'.ptr = c'.ptr ∧ MemRel (srcVals vals) 8 s'.mem c'.mem := by
  unfold spstep at h
  split at h
  · rename_i hcond
    obtain ⟨hp, hvi, hsh⟩ := hcond
    simp only [Option.some.injEq] at h
    obtain ⟨x, hx⟩ := packByte_some (vals.getD st.vi 0) st.sh hsh
    have hp' : c.ptr < c.mem.length := by rw [← hptr, ← hrel.len]; exact hp
    have hnew : WordRel (srcVals vals) 8 ((List.range 8).map (packSBit n st.vi st.sh)) x :=
      wordRel_ofFn _ 8 _ x (packByte_lt _ _ _ hx) (fun b hb => packSBit_sound vals n st.vi st.sh x b hb (hv st.vi) hx)
    unfold pstep
    have hc : c.ptr < c.mem.length ∧ st.vi < vals.length := ⟨hp', by rw [hlen]; exact hvi⟩
    simp only [hc, and_self, ↓reduceIte, hx]
    refine ⟨_, rfl, ?_, ?_⟩
    · rw [← h]; simp only [hptr]
    · rw [← h]
      simp only
      rw [hptr]
      apply memRel_set _ _ _ _ hrel
      by_cases hor : st.isOr = true
      · simp only [hor, ↓reduceIte]
        have hold := hrel.words c.ptr hp'
        exact wordRel_or _ 8 _ _ _ _ hold hnew
      · simp only [hor, Bool.false_eq_true, ↓reduceIte]
        exact hnew
  · simp at h

theorem prun_sound (n : Nat) (vals : List Nat) (hv : ∀ i, vals.getD i 0 < 2 ^ n) (hlen : vals.length = 8) (stmts : List PStmt) :
    ∀ (s s' : SPState) (c : PState), s.ptr = c.ptr → MemRel (srcVals vals) 8 s.mem c.mem → sprun n stmts s = some s' →
      ∃ c', prun vals stmts c = some c' ∧ MemRel (srcVals vals) 8 s'.mem c'.mem := by
  induction stmts with
  | nil =>
    intro s s' c _ hrel h
    simp only [sprun, Option.some.injEq] at h
    exact ⟨c, rfl, by rw [← h]; exact hrel⟩
  | cons st t ih =>
    intro s s' c hptr hrel h
    simp only [sprun] at h
    cases h1 : spstep n s st with
    | none => simp [h1] at h
    | some s1 =>
      simp only [h1] at h
      obtain ⟨c1, hc1, hp1, hr1⟩ := pstep_sound n vals hv hlen s s1 c st hptr hrel h1
      obtain ⟨c', hc', hr'⟩ := ih s1 s' c1 hp1 hr1 h
      exact ⟨c', by simp [prun, hc1, hc'], hr'⟩

theorem getD_lt_of_mem (vals : List Nat) (n : Nat) (hv : ∀ v ∈ vals, v < 2 ^ n) (i : Nat) : vals.getD i 0 < 2 ^ n := by
  rw [List.getD_eq_getElem?_getD]
  cases h : vals[i]? with
  | none => simp [Nat.two_pow_pos]
  | some v => simp only [Option.getD_some]; exact hv v (List.mem_of_getElem? h)

/-- what the initial (arbitrary or zero-filled) output block satisfies -/
theorem memRel_init (vals : List Nat) (init : SBit) (n : Nat) (mem0 : List Nat) (hm : mem0.length = n) (hb : ∀ x ∈ mem0, x < 256)
    (hinit : init = .bad ∨ (init = .zero ∧ ∀ x ∈ mem0, x = 0)) :
    MemRel (srcVals vals) 8 (List.replicate n (List.replicate 8 init)) mem0 where
  len := by simp [hm]
  words := by
    intro j hj
    have hjn : j < n := by rw [← hm]; exact hj
    have hget : (List.replicate n (List.replicate 8 init)).getD j [] = List.replicate 8 init :=
      getD_replicate n _ _ j hjn
    have hmem : mem0.getD j 0 ∈ mem0 := by
      rw [List.getD_eq_getElem?_getD, List.getElem?_eq_getElem hj]; simp
    rw [hget]
    refine ⟨by simp, ?_, ?_⟩
    · have := hb _ hmem
      have h256 : (2 : Nat) ^ 8 = 256 := by decide
      omega
    · intro b hb8
      rw [getD_replicate 8 init .bad b hb8]
      rcases hinit with h | ⟨h, hz⟩
      · rw [h]; trivial
      · rw [h, hz _ hmem]; simp [Interp]

/-- **pack soundness**: a routine whose symbolic layout (from `init`) is the specification layout writes exactly the
`n` big-endian bytes of the concatenated fields, for all 8 values below `2^n` -/
theorem pack_sound (n : Nat) (stmts : List PStmt) (init : SBit) (h : symPackInit init n stmts = some (specPackLayout n))
    (vals : List Nat) (hlen : vals.length = 8) (hv : ∀ v ∈ vals, v < 2 ^ n)
    (mem0 : List Nat) (hm : mem0.length = n) (hb : ∀ x ∈ mem0, x < 256)
    (hinit : init = .bad ∨ (init = .zero ∧ ∀ x ∈ mem0, x = 0)) :
    evalPack stmts vals mem0 = some (splitFields 8 n (joinFields n vals)) := by
  unfold symPackInit at h
  cases hs : sprun n stmts ⟨0, List.replicate n (List.replicate 8 init)⟩ with
  | none => rw [hs] at h; simp at h
  | some s' =>
    rw [hs] at h
    simp only [Option.map_some, Option.some.injEq] at h
    obtain ⟨c', hc', hrel⟩ := prun_sound n vals (getD_lt_of_mem vals n hv) hlen stmts _ s' ⟨0, mem0⟩ rfl
      (memRel_init vals init n mem0 hm hb hinit) hs
    unfold evalPack
    simp only [hc', Option.map_some, Option.some.injEq]
    rw [h] at hrel
    have hlen' : c'.mem.length = n := by
      rw [← hrel.len]; simp [specPackLayout]
    apply memRel_eq (srcVals vals) 8 (specPackLayout n) c'.mem _ hrel (by rw [length_splitFields, hlen'])
    intro j hj
    have hjn : j < n := by omega
    refine ⟨?_, ?_⟩
    · rw [getD_splitFields 8 n _ j hjn]; exact Nat.mod_lt _ (Nat.two_pow_pos _)
    · intro b hb8
      have hget : ((specPackLayout n).getD j []).getD b .bad = SBit.src (7 - (8 * (n - 1 - j) + b) / n) ((8 * (n - 1 - j) + b) % n) := by
        unfold specPackLayout
        rw [getD_map_range _ n j [] hjn, getD_map_range _ 8 b SBit.bad hb8]
      rw [hget]
      refine ⟨?_, by simp⟩
      simp only [Interp, srcVals]
      rw [testBit_splitFields_get 8 n _ j b hjn]
      simp only [hb8, decide_true, Bool.true_and]
      have hP : 8 * (n - 1 - j) + b < n * vals.length := by rw [hlen]; omega
      rw [testBit_joinFields n vals hv _ hP, hlen]

end DS.Wire.BitPack

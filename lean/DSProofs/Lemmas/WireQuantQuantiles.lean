/-
Classic quantiles image: helper lemmas for the round trip, prefix safety and boundedness theorems
(Props/C09_Quantiles, C10_Quantiles, C11_Quantiles).
-/
import DSModel.Wire.Quantiles
import DSProofs.Lemmas.WireQuant
namespace DS.Wire.Quantiles
open Reader

/-- side conditions on the wire constants (decidable; `docCfg` satisfies them) -/
def CfgOK (c : Cfg) : Prop := c.family < 256 ∧ c.emptySize = 8 ∧ c.dataStart = 16

instance (c : Cfg) : Decidable (CfgOK c) := by unfold CfgOK; infer_instance

theorem length_header (c : Cfg) (s : Image) : (header c s).length = 8 := by simp [header]

theorem levels_all_iff (sd : Serde) (k : Nat) (ls : List (List Item)) :
    ls.all (fun l => l.length == k && allWf sd l) = true ↔ ∀ l ∈ ls, l.length = k ∧ allWf sd l = true := by
  simp [List.all_eq_true]

theorem repeatN_levels (sd : Serde) (hs : sd.Lawful) (k : Nat) (ls : List (List Item)) (r : Bytes)
    (h : ∀ l ∈ ls, l.length = k ∧ allWf sd l = true) :
    repeatN (repeatN sd.dec k) ls.length (encList (encItems sd) ls ++ r) = some (ls, r) := by
  apply repeatN_encList (repeatN sd.dec k) (encItems sd) (fun l => l.length = k ∧ allWf sd l = true) _ ls r h
  intro l r' ⟨hl, hw⟩
  have := repeatN_items sd hs l r' hw
  rw [hl] at this
  exact this

theorem decodeBody_encode (sd : Serde) (hs : sd.Lawful) (c : Cfg) (pre ver flags k unused : Nat) (b : Body) (r : Bytes)
    (hw : bodyWF sd c ver flags k b = true) :
    decodeBody sd c pre ver flags k unused (encodeBody sd c ver b ++ r) =
      some ({ pre := pre, ver := ver, flags := flags, k := k, unused := unused, body := some b }, r) := by
  simp only [bodyWF, Bool.and_eq_true, decide_eq_true_eq, beq_iff_eq, Bool.or_eq_true] at hw
  obtain ⟨⟨⟨⟨⟨⟨⟨⟨⟨⟨⟨h1, hn⟩, hmn⟩, hmx⟩, hpad⟩, hpad0⟩, hbb⟩, hbbw⟩, hex⟩, hexw⟩, hlv⟩, hlvw⟩ := hw
  simp only [decodeBody, encodeBody, List.append_assoc]
  rw [bind_step (u64_w64 b.n hn _), guard_true_step (by simpa using h1),
    bind_step (hs.rt b.min _ hmn), bind_step (hs.rt b.max _ hmx)]
  have hpad' : (if ver == c.ver1 then u64 else Reader.pure 0)
      ((if ver == c.ver1 then w64 b.v1pad else []) ++
        (encItems sd b.bb ++ (encItems sd b.extra ++ (encList (encItems sd) b.levels ++ r)))) =
      some (b.v1pad, encItems sd b.bb ++ (encItems sd b.extra ++ (encList (encItems sd) b.levels ++ r))) := by
    by_cases hv : (ver == c.ver1) = true
    · simp only [hv, if_true]; exact u64_w64 _ hpad _
    · have hv' : ver ≠ c.ver1 := by simpa using hv
      have hz : b.v1pad = 0 := by
        rcases hpad0 with h | h
        · exact absurd h hv'
        · exact h
      simp [hv, hz, Reader.pure]
  rw [bind_step hpad']
  rw [← hbb, bind_step (repeatN_items sd hs b.bb _ hbbw)]
  rw [← hex, bind_step (repeatN_items sd hs b.extra _ hexw)]
  rw [← hlv, bind_step (repeatN_levels sd hs k b.levels r ((levels_all_iff sd k b.levels).1 hlvw))]
  rfl

theorem repeatN_repeatN_bound {α : Type} (rd : Reader α) (hp : ∀ b x r, rd b = some (x, r) → r.length < b.length) (k : Nat) :
    ∀ (m : Nat) (b r : Bytes) (ls : List (List α)), repeatN (repeatN rd k) m b = some (ls, r) →
      (ls.map List.length).sum + r.length ≤ b.length := by
  intro m
  induction m with
  | zero =>
    intro b r ls h
    obtain ⟨h1, h2⟩ := pure_inv h
    subst h1; subst h2; simp
  | succ m ih =>
    intro b r ls h
    simp only [repeatN] at h
    obtain ⟨x, r1, h1, h⟩ := bind_inv h
    obtain ⟨t, r2, h2, h⟩ := bind_inv h
    obtain ⟨h3, h4⟩ := pure_inv h
    subst h3; subst h4
    obtain ⟨hl, hb⟩ := repeatN_bound rd hp k b r1 x h1
    have := ih r1 r t h2
    simp only [List.map_cons, List.sum_cons]
    omega

theorem length_encLevels (sd : Serde) (ls : List (List Item)) :
    (encList (encItems sd) ls).length = (ls.map (fun l => sizeItems sd l)).sum := by
  induction ls with
  | nil => rfl
  | cons x t ih => simp [encList, ih, sizeItems]

end DS.Wire.Quantiles

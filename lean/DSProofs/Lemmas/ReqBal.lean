/- The two-run balance behind REQ's unbiasedness: what entered level h+1 in the two runs together is what left level h.
   (Helper lemmas for C08.) -/
import DSProofs.Lemmas.ReqRel
namespace DS.Req

variable {ρ : Type}

def headL (p : Int → Bool) (h0 : Nat) (c c' : Compactor ρ) : Nat :=
  (if c.lgWeight = h0 + 1 then cntP p c.entered + cntP p c'.entered else 0) + (if c.lgWeight = h0 then cntP p c.items else 0)

def headR (p : Int → Bool) (h0 : Nat) (c : Compactor ρ) : Nat := if c.lgWeight = h0 then cntP p c.entered else 0

/-- left side: items that entered level h0+1 in either run, plus what still sits at level h0 -/
def balL (p : Int → Bool) (h0 : Nat) : List (Compactor ρ) → List (Compactor ρ) → Nat
  | c :: t, c' :: t' => headL p h0 c c' + balL p h0 t t'
  | _, _ => 0

/-- right side: items that ever entered level h0 -/
def balR (p : Int → Bool) (h0 : Nat) : List (Compactor ρ) → Nat
  | [] => 0
  | c :: t => headR p h0 c + balR p h0 t

/-- the balance of a pair of compactor lists -/
def Bal (p : Int → Bool) (h0 : Nat) (cs cs' : List (Compactor ρ)) : Prop := balL p h0 cs cs' = balR p h0 cs

/-- one compaction in the two runs keeps the balance (if the coin used at level h0 was not the constant one) -/
theorem compact_bal (T : Tun) (F : SecFns ρ) (p : Int → Bool) (h0 : Nat) {c c' nxt nxt' : Compactor ρ} (d d' : Bool)
    (r : CRel (some h0) c c') (rn : CRel (some h0) nxt nxt') (hnl : nxt.lgWeight = c.lgWeight + 1)
    (hd1 : c.lgWeight < h0 → ¬ c.state % 2 = 1 → d' = d)
    (hd2 : c.lgWeight = h0 → ¬ c.state % 2 = 1 → d' = !d)
    (hle : (c.compactionRange T).1 ≤ (c.compactionRange T).2)
    (hoc : (c.compact T F nxt d).oddConst = false) :
    balL p h0 [(c.compact T F nxt d).cur, (c.compact T F nxt d).nxt] [(c'.compact T F nxt' d').cur, (c'.compact T F nxt' d').nxt] + balR p h0 [c, nxt]
      = balL p h0 [c, nxt] [c', nxt'] + balR p h0 [(c.compact T F nxt d).cur, (c.compact T F nxt d).nxt] := by
  have hrg := range_CRel T r
  have cc := compact_cnt T F p c nxt d hle
  have cc' := compact_cnt T F p c' nxt' d' (by rw [hrg]; exact hle)
  simp only at cc cc'
  rw [hrg] at cc'
  -- level bookkeeping of the four results
  have l1 : (c.compact T F nxt d).cur.lgWeight = c.lgWeight := by
    simp only [Compactor.compact]; exact (ensureEnough_items T F _).2.1
  have l2 : (c.compact T F nxt d).nxt.lgWeight = nxt.lgWeight := by simp [Compactor.compact]
  have e1 : (c.compact T F nxt d).cur.entered = c.entered := by
    simp only [Compactor.compact]; exact (ensureEnough_items T F _).2.2.2.2.2.2.1
  have e1' : (c'.compact T F nxt' d').cur.entered = c'.entered := by
    simp only [Compactor.compact]; exact (ensureEnough_items T F _).2.2.2.2.2.2.1
  have e2 : cntP p (c.compact T F nxt d).nxt.entered = cntP p (promote ((c.items.take (c.compactionRange T).2).drop (c.compactionRange T).1) (c.compact T F nxt d).cur.coin) + cntP p nxt.entered := by
    simp only [Compactor.compact, cntP_append]
    rw [(ensureEnough_items T F _).2.2.2.2.1]
  have e2' : cntP p (c'.compact T F nxt' d').nxt.entered = cntP p (promote ((c'.items.take (c.compactionRange T).2).drop (c.compactionRange T).1) (c'.compact T F nxt' d').cur.coin) + cntP p nxt'.entered := by
    simp only [Compactor.compact, cntP_append, hrg]
    rw [(ensureEnough_items T F _).2.2.2.2.1]
  have k1 : (c.compact T F nxt d).cur.coin = (if c.state % 2 = 1 then !c.coin else d) := by
    simp only [Compactor.compact]; rw [(ensureEnough_items T F _).2.2.2.2.1]
  have k1' : (c'.compact T F nxt' d').cur.coin = (if c.state % 2 = 1 then !c'.coin else d') := by
    simp only [Compactor.compact, r.state]; rw [(ensureEnough_items T F _).2.2.2.2.1]
  obtain ⟨cc1, cc2⟩ := cc
  simp only [balL, balR, headL, headR, l1, l2, hnl, e1, e1', Nat.add_zero]
  by_cases hl0 : c.lgWeight = h0
  · -- the flipped level: the two promoted halves are complementary
    obtain ⟨si, se⟩ := r.same h0 rfl (by omega)
    have hcomp : (c'.compact T F nxt' d').cur.coin = !(c.compact T F nxt d).cur.coin := by
      rw [k1, k1']
      by_cases hodd : c.state % 2 = 1
      · have hrnd : c.rnd = true := by
          have : (c.compact T F nxt d).oddConst = (decide (c.state % 2 = 1) && !c.rnd) := by simp [Compactor.compact]
          rw [this, hodd] at hoc; simpa using hoc
        simp only [hodd, if_true, r.coinEq h0 rfl hl0, hrnd]
        cases c.coin <;> rfl
      · simp only [hodd, if_false]; exact hd2 hl0 hodd
    have hb := cntP_promote_both p ((c.items.take (c.compactionRange T).2).drop (c.compactionRange T).1) (c.compact T F nxt d).cur.coin
    rw [si, hcomp] at e2'
    have a1 : ¬ (h0 = h0 + 1) := by omega
    have a2 : ¬ (h0 + 1 = h0) := by omega
    simp only [hl0, a1, a2, if_true, if_false]
    omega
  · by_cases hl1 : c.lgWeight + 1 = h0
    · -- promotion into level h0: same items in both runs
      have h3 : ¬ (c.lgWeight = h0 + 1) := by omega
      have h4 : ¬ (c.lgWeight + 1 = h0 + 1) := by omega
      have a1 : ¬ (h0 = h0 + 1) := by omega
      simp only [hl0, hl1, h3, h4, a1, if_true, if_false]
      omega
    · by_cases hl2 : c.lgWeight = h0 + 1
      · have h4 : ¬ (c.lgWeight + 1 = h0 + 1) := by omega
        simp only [hl0, hl1, hl2, h4, if_true, if_false]
        have b1 : ¬ (h0 + 1 = h0) := by omega
        have b2 : ¬ (h0 + 1 + 1 = h0 + 1) := by omega
        have b3 : ¬ (h0 + 1 + 1 = h0) := by omega
        simp only [b1, b2, b3, if_false]
      · have h4 : ¬ (c.lgWeight + 1 = h0 + 1) := by omega
        simp only [hl0, hl1, hl2, h4, if_false]

/-- the same statement on heads -/
theorem compact_bal_heads (T : Tun) (F : SecFns ρ) (p : Int → Bool) (h0 : Nat) {c c' nxt nxt' : Compactor ρ} (d d' : Bool)
    (r : CRel (some h0) c c') (rn : CRel (some h0) nxt nxt') (hnl : nxt.lgWeight = c.lgWeight + 1)
    (hd1 : c.lgWeight < h0 → ¬ c.state % 2 = 1 → d' = d)
    (hd2 : c.lgWeight = h0 → ¬ c.state % 2 = 1 → d' = !d)
    (hle : (c.compactionRange T).1 ≤ (c.compactionRange T).2)
    (hoc : (c.compact T F nxt d).oddConst = false) :
    headL p h0 (c.compact T F nxt d).cur (c'.compact T F nxt' d').cur + headL p h0 (c.compact T F nxt d).nxt (c'.compact T F nxt' d').nxt
        + (headR p h0 c + headR p h0 nxt)
      = headL p h0 c c' + headL p h0 nxt nxt' + (headR p h0 (c.compact T F nxt d).cur + headR p h0 (c.compact T F nxt d).nxt) := by
  have := compact_bal T F p h0 d d' r rn hnl hd1 hd2 hle hoc
  simp only [balL, balR, Nat.add_zero] at this
  omega

theorem heads_sort (p : Int → Bool) (h0 : Nat) (h : Nat) (c c' : Compactor ρ) :
    headL p h0 (sortIf0 h c) (sortIf0 h c') = headL p h0 c c' ∧ headR p h0 (sortIf0 h c) = headR p h0 c := by
  unfold sortIf0; split
  · simp only [headL, headR, (sort_fields c).1, (sort_fields c).2.2.2.2.2.2.1, (sort_fields c').2.2.2.2.2.2.1, sort_cntP, and_self]
  · exact ⟨rfl, rfl⟩

theorem heads_empty (p : Int → Bool) (h0 : Nat) (c c' : Compactor ρ) (hi : c.items = []) (he : c.entered = []) (he' : c'.entered = []) :
    headL p h0 c c' = 0 ∧ headR p h0 c = 0 := by
  unfold headL headR; rw [hi, he, he']
  constructor
  · by_cases h1 : c.lgWeight = h0 + 1 <;> by_cases h2 : c.lgWeight = h0 <;> simp [h1, h2]
  · by_cases h2 : c.lgWeight = h0 <;> simp [h2]

theorem heads_mk' (p : Int → Bool) (h0 : Nat) (T : Tun) (F : SecFns ρ) (hra : Bool) (lg k : Nat) :
    headL p h0 (Compactor.mk' T F hra lg k) (Compactor.mk' T F hra lg k) = 0 ∧ headR p h0 (Compactor.mk' T F hra lg k) = 0 :=
  heads_empty p h0 _ _ rfl rfl rfl

/-- counting through a compactor merge, unconditionally -/
theorem cmerge_cnt (T : Tun) (F : SecFns ρ) (p : Int → Bool) (c o : Compactor ρ) :
    cntP p (c.merge T F o).items = cntP p c.items + cntP p o.items ∧ (c.merge T F o).entered = o.entered ++ c.entered ∧
    (c.merge T F o).lgWeight = c.lgWeight := by
  have e := ensureLoop_items T F ((c.orState o).state + 2) (c.orState o)
  simp only [Compactor.merge]
  generalize Compactor.ensureLoop T F ((c.orState o).state + 2) (c.orState o) = c2 at e
  obtain ⟨e1, e2, _, _, _, _, e7, _⟩ := e
  have e1' : c2.items = c.items := e1
  have e7' : c2.entered = c.entered := e7
  refine ⟨?_, by show o.entered ++ c2.entered = _; rw [e7'], e2⟩
  show cntP p (mergeItems c2.hra c2.sortedItems o.sortedItems) = _
  rw [mergeItems_cnt']
  unfold Compactor.sortedItems
  rw [e1']
  split <;> split <;> simp [cntP_sortInts]

theorem heads_cmerge (T : Tun) (F : SecFns ρ) (p : Int → Bool) (h0 : Nat) (c c' o o' : Compactor ρ) (hl : o.lgWeight = c.lgWeight) :
    headL p h0 (c.merge T F o) (c'.merge T F o') = headL p h0 c c' + headL p h0 o o' ∧
    headR p h0 (c.merge T F o) = headR p h0 c + headR p h0 o := by
  obtain ⟨a1, a2, a3⟩ := cmerge_cnt T F p c o
  obtain ⟨_, b2, _⟩ := cmerge_cnt T F p c' o'
  unfold headL headR
  rw [a1, a2, a3, b2, hl]
  simp only [cntP_append]
  constructor
  · by_cases h1 : c.lgWeight = h0 + 1 <;> by_cases h2 : c.lgWeight = h0 <;> simp [h1, h2] <;> omega
  · by_cases h2 : c.lgWeight = h0 <;> simp [h2]; omega

end DS.Req

/- Repaired model: deserialize / wrap / writable_wrap preserve the invariant. -/
import DSProofs.Lemmas.BloomFixed17
namespace DS.Bloom

variable {ι : Type} [DecidableEq ι] (P : Params) (hf : ι → Nat → Option (Nat × Nat))

omit [DecidableEq ι] in
theorem viewOK_fresh_owned' (nb nh seed : Nat) (pr : Bool) (hnh : pr = true → KOK (mkOwned nb nh seed)) :
    ViewOK P hf 0 (⟨[], 0, false⟩ : SInfo ι) (mkOwned nb nh seed) ⟨[], pr, 0⟩ := by
  refine ⟨fun _ => rfl, ?_, hnh, ?_, Covers.nil _ _ _ _, ?_, ?_, ?_, ?_, fun _ _ => rfl, ?_⟩
  · intro _ h; simp [isMem, mkOwned] at h
  · intro x hx; exact absurd hx (by simp)
  · intro h; exact absurd rfl h
  · intro _ _ _; simp [mkOwned, popCount_zero]
  · intro _ _ h; simp [isMem, mkOwned] at h
  · intro h; simp [isMem, mkOwned] at h
  · intro _; exact ⟨Covers.nil _ _ _ _, (fun x hx => by cases hx), fun _ => rfl⟩

omit [DecidableEq ι] in
/-- what a block that carries promises gives to a reader of a standard image -/
theorem block_for_reader (w : World) (p : PGhost ι) (hg : Good P hf w p) (m : Nat) (b : Block) (hb : w.blocks m = some b)
    (cap nh seed nbs nl : Nat) (hparse : parseImage P b = .full cap nh seed nbs nl) (ht : (p.si (.mem m)).tainted = false) :
    (1 ≤ nh ∧ cap < 2 ^ 32) ∧ (nbs = P.dirty ∨ nbs = popCount b.val 256 cap) ∧ Covers hf b.val 256 ⟨cap, nh, seed⟩ (p.si (.mem m)).S ∧
      Hashed hf seed (p.si (.mem m)).S := by
  rcases hg.blk m b hb ht with ⟨_, _, _, he, _⟩ | ⟨cap', nh', seed', nbs', nl', hfull, hk, hcnt, hcov, hhs⟩
  · rw [hparse] at he; cases he
  · rw [hparse] at hfull
    injection hfull with h1 h2 h3 h4 h5
    subst h1 h2 h3 h4 h5
    exact ⟨hk, hcnt, hcov, hhs⟩

/-- binding a view of the existing caller block `m` to `v` -/
theorem good_bind_mem (w : World) (p : PGhost ι) (hg : Good P hf w p) (v m : Nat) (b : Block) (hm : w.blocks m = some b)
    (f : Filter) (hr : f.ref = .mem m) (i : VInfo ι) (hfw : FWF f)
    (hok : ViewOK P hf b.val (p.si (.mem m)) f i)
    (hfull : ∃ nbs nl, parseImage P b = .full f.capBits f.numHashes f.seed nbs nl) :
    Good P hf (w.setFilter v f) (p.setV v i) := by
  have hbv : w.blockVal m = b.val := by simp [World.blockVal, hm]
  have hk : ∀ u, keyOf u f = .mem m := by intro u; simp [keyOf, hr]
  refine ⟨?_, ?_, ?_, ?_, ?_, ?_, ?_⟩
  · intro u fu h'
    by_cases e : u = v
    · subst e; exact ⟨i, by simp⟩
    · simp only [World.setFilter, e, if_false] at h'
      rw [setV_vi_ne _ _ e]; exact hg.tracked u fu h'
  · intro u fu h'
    by_cases e : u = v
    · subst e; simp only [setFilter_filters_same, Option.some.injEq] at h'; rw [← h']; exact hfw
    · simp only [World.setFilter, e, if_false] at h'; exact hg.fwf u fu h'
  · intro u fu iu h' hi'
    by_cases e : u = v
    · subst e
      simp only [setFilter_filters_same, Option.some.injEq] at h'
      simp only [setV_vi_same, Option.some.injEq] at hi'
      subst h' hi'
      rw [hk u, setV_si, keyVal_setFilter_mem]
      simp only [keyVal, hbv]; exact hok
    · simp only [World.setFilter, e, if_false] at h'
      rw [setV_vi_ne _ _ e] at hi'
      have : keyVal (w.setFilter v f) (keyOf u fu) = keyVal w (keyOf u fu) :=
        keyVal_setFilter_ne_own _ _ _ _ (keyOf_ne_own_of_ne fu e)
      rw [this, setV_si]; exact hg.view u fu iu h' hi'
  · intro m' b' hb' ht; exact hg.blk m' b' hb' ht
  · intro m' ht; exact hg.taintS m' ht
  · intro u fu m' h' hr'
    by_cases e : u = v
    · subst e; simp only [setFilter_filters_same, Option.some.injEq] at h'; subst h'
      rw [hr] at hr'; injection hr' with hr'; subst hr'; exact ⟨b, hm⟩
    · simp only [World.setFilter, e, if_false] at h'; exact hg.memref u fu m' h' hr'
  · intro u fu iu m' b' h' hi' hr' hb' hpu hin
    by_cases e : u = v
    · subst e
      simp only [setFilter_filters_same, Option.some.injEq] at h'
      simp only [setV_vi_same, Option.some.injEq] at hi'
      subst h' hi'
      rw [hr] at hr'; injection hr' with hr'; subst hr'
      have : (w.setFilter u f).blocks m = w.blocks m := rfl
      rw [this, hm] at hb'; injection hb' with hb'; subst hb'
      exact hfull
    · simp only [World.setFilter, e, if_false] at h'
      rw [setV_vi_ne _ _ e] at hi'
      exact hg.memfull u fu iu m' b' h' hi' hr' hb' hpu hin

omit [DecidableEq ι] in
/-- the view created by wrap / writable_wrap of a standard image -/
theorem viewOK_wrap (hP : P.Wire) (w : World) (p : PGhost ι) (hg : Good P hf w p) (m : Nat) (b : Block) (hm : w.blocks m = some b)
    (cap nh seed nbs nl : Nat) (hp : parseImage P b = .full cap nh seed nbs nl) (ro : Bool) :
    ViewOK P hf b.val (p.si (.mem m)) (wrapFilter P m b.val cap nh seed nbs ro)
      ⟨(p.si (.mem m)).S, !(p.si (.mem m)).tainted, (p.si (.mem m)).ver⟩ := by
  obtain ⟨_, _, hcap0, _, _, _, hnbs, _⟩ := parseImage_full hp
  have hcap : 0 < cap := Nat.pos_of_ne_zero hcap0
  have hmem : isMem (wrapFilter P m b.val cap nh seed nbs ro) = true := rfl
  have hoff : (wrapFilter P m b.val cap nh seed nbs ro).off P = 256 := off_mem P hP.layout hmem
  by_cases ht : (p.si (.mem m)).tainted = true
  · have hS := hg.taintS m ht
    have := viewOK_tainted (i := ⟨(p.si (.mem m)).S, !(p.si (.mem m)).tainted, (p.si (.mem m)).ver⟩) P hf
      (X := b.val) hmem ht hS (by intro h; simp [ht] at h) (Nat.le_refl _)
    exact this
  · have ht' : (p.si (.mem m)).tainted = false := by simpa using ht
    obtain ⟨hk1, hcnt, hcov, hhs⟩ := block_for_reader P hf w p hg m b hm cap nh seed nbs nl hp ht'
    rw [ht']
    refine ⟨?_, ?_, fun _ => hk1, hhs, ?_, ?_, ?_, ?_, fun _ => Nat.le_refl _, ?_, ?_⟩
    · intro h; cases h
    · intro h; cases h
    · rw [hoff]; exact hcov
    · intro hM
      have hpos := popCount_pos_of_covers hf b.val 256 ⟨cap, nh, seed⟩ _ hcov hhs hM hk1.1 hcap
      simp only at hpos
      simp only [Filter.isEmpty, wrapFilter]
      rcases hcnt with h | h
      · simp [h]
      · have hne0 : nbs ≠ 0 := by rw [h]; omega
        by_cases hd : (nbs == P.dirty) = true
        · simp [hd]
        · have hd' : (nbs == P.dirty) = false := by simpa using hd
          simp [hd', hne0]
    · intro _ _ hd
      rw [hoff]
      simp only [wrapFilter] at hd ⊢
      have hne : nbs ≠ P.dirty := by simpa using hd
      rcases hcnt with h | h
      · exact absurd h hne
      · simp only [hd, Bool.and_false, Bool.false_eq_true, if_false]; exact h
    · intro _ _ _ _ hd
      simp only [wrapFilter] at hd
      have : nbs = P.dirty := by simpa using hd
      rw [← hnbs, this]
    · intro _ h; rw [ht'] at h; cases h
    · intro h; rw [hmem] at h; cases h

theorem good_wrap (hP : P.Wire) (w : World) (p : PGhost ι) (hg : Good P hf w p) (k : WrapKind) (m v : Nat) :
    Good P hf (opWrap P w k m v).1 (pstep hf p w (opWrap P w k m v).1 (opWrap P w k m v).2 (.wrap k m v)) := by
  cases hm : w.blocks m with
  | none => simp only [opWrap, pstep, hm]; cases w.filters v <;> exact hg
  | some b =>
  have hbv : w.blockVal m = b.val := by simp [World.blockVal, hm]
  cases hp : parseImage P b with
  | refuse => simp only [opWrap, pstep, hm, hp]; cases w.filters v <;> exact hg
  | outside => simp only [opWrap, pstep, hm, hp]; cases w.filters v <;> exact hg
  | emptyImg nb nh seed =>
    by_cases hk : (k == .wwrap) = true
    · simp only [opWrap, pstep, hm, hp, hk, if_true]; cases w.filters v <;> exact hg
    by_cases hb : badSize P nb nh = true
    · simp only [opWrap, pstep, hm, hp, hk, hb, if_true, Bool.false_eq_true, if_false]; cases w.filters v <;> exact hg
    have hb' : badSize P nb nh = false := by simpa using hb
    simp only [opWrap, pstep, hm, hp, hk, hb', Bool.false_eq_true, if_false, setFilter_filters_same, mkOwned]
    -- the recorded list of an empty image is empty
    have hS : (p.si (.mem m)).S = [] := by
      by_cases ht : (p.si (.mem m)).tainted = true
      · exact hg.taintS m ht
      · rcases hg.blk m b hm (by simpa using ht) with ⟨_, _, _, _, hS⟩ | ⟨_, _, _, _, _, hfull, _⟩
        · exact hS.1
        · rw [hp] at hfull; cases hfull
    -- … and if the image carries promises its capacity is below 2^32
    have hnb32 : (p.si (.mem m)).tainted = false → nb ≤ 2 ^ 32 - 64 := by
      intro ht
      rcases hg.blk m b hm ht with ⟨nb', _, _, he, hS⟩ | ⟨_, _, _, _, _, hfull, _⟩
      · rw [hp] at he; injection he with e1; rw [e1]; exact hS.2
      · rw [hp] at hfull; cases hfull
    rw [hS]
    obtain ⟨_, h1, _, h2, h3, _⟩ : True ∧ nb = capOf P (getField b.val 128 32) ∧ True ∧ nh = getField b.val 32 16 ∧ seed = getField b.val 64 64 ∧ True := by
      simp only [parseImage] at hp
      repeat' split at hp
      all_goals cases hp
      exact ⟨trivial, rfl, trivial, rfl, rfl, trivial⟩
    apply good_bind_owned P hf w p hg v (mkOwned nb nh seed) 0 rfl
    · have hnb : nb ≠ 0 := by intro e; simp [badSize, e] at hb'
      have := roundUp64_pos nb hnb
      refine ⟨this.1, this.2, ?_, ?_, ?_⟩
      · have hnl := getField_lt b.val 128 32
        have : nb ≤ 2 ^ 38 - 64 := by rw [h1]; unfold capOf; split <;> omega
        simp only [mkOwned, roundUp64]; omega
      · rw [h2]; exact getField_lt _ _ _
      · rw [h3]; exact getField_lt _ _ _
    · apply viewOK_fresh_owned' P hf nb nh seed
      intro hpr
      have ht : (p.si (.mem m)).tainted = false := by simpa using hpr
      have := hnb32 ht
      exact ⟨nh_pos_of_not_bad P _ _ hb', by simp only [mkOwned, roundUp64]; omega⟩
  | full cap nh seed nbs nl =>
    obtain ⟨hflag, hcapeq, hcap0, hnh, hseed, hnl, hnbs, hlen⟩ := parseImage_full hp
    have hcap : 0 < cap := Nat.pos_of_ne_zero hcap0
    have hfwf : ∀ f : Filter, f.capBits = cap → f.numHashes = nh → f.seed = seed → FWF f := by
      intro f h1 h2 h3
      have hnl32 := getField_lt b.val 128 32
      refine ⟨by rw [h1]; exact hcap, by rw [h1, hcapeq]; exact capOf_mod64 P nl, ?_, ?_, ?_⟩
      · rw [h1, hcapeq, hnl]; unfold capOf; split <;> omega
      · rw [h2, hnh]; exact getField_lt _ _ _
      · rw [h3, hseed]; exact getField_lt _ _ _
    -- facts about the recorded list, tainted or not
    have hrec : (p.si (.mem m)).tainted = false →
        (1 ≤ nh ∧ cap < 2 ^ 32) ∧ (nbs = P.dirty ∨ nbs = popCount b.val 256 cap) ∧ Covers hf b.val 256 ⟨cap, nh, seed⟩ (p.si (.mem m)).S ∧
        Hashed hf seed (p.si (.mem m)).S := block_for_reader P hf w p hg m b hm cap nh seed nbs nl hp
    by_cases hst : (P.strict && decide (b.len - 32 < nbytesOf P nl)) = true
    · simp only [opWrap, pstep, hm, hp, hst, if_true]; cases w.filters v <;> exact hg
    have hst' : (P.strict && decide (b.len - 32 < nbytesOf P nl)) = false := by simpa using hst
    cases k with
    | deser =>
      by_cases hl : b.len - 32 < nbytesOf P nl
      · simp only [opWrap, pstep, hm, hp, hst', Bool.false_eq_true, if_false]; simp only [hl, if_true]; cases w.filters v <;> exact hg
      simp only [opWrap, pstep, hm, hp, hst', Bool.false_eq_true, if_false]; simp only [hl, if_false, setFilter_filters_same, deserFilter]
      have h8 : cap ≤ 8 * nbytesOf P nl := by rw [hcapeq]; exact capOf_le_nbytes P nl
      have hcopy : ∀ j, j < cap → (getField b.val 256 (8 * nbytesOf P nl)).testBit (0 + j) = b.val.testBit (256 + j) := by
        intro j hj
        rw [Nat.zero_add, testBit_getField]
        have : j < 8 * nbytesOf P nl := by omega
        simp [this]
      apply good_bind_owned P hf w p hg v _ _ rfl
      · exact hfwf _ rfl rfl rfl
      · by_cases ht : (p.si (.mem m)).tainted = true
        · -- tainted block: an unpromised owned copy
          have hS := hg.taintS m ht
          rw [hS, ht]
          refine ⟨fun _ => rfl, ?_, ?_, ?_, Covers.nil _ _ _ _, ?_, ?_, ?_, ?_, fun _ _ => rfl, ?_⟩
          · intro _ h; cases h
          · intro h; cases h
          · intro y hy; cases hy
          · intro h; exact absurd rfl h
          · intro h; cases h
          · intro h; cases h
          · intro h; cases h
          · intro _; exact ⟨Covers.nil _ _ _ _, (fun y hy => by cases hy), fun _ => rfl⟩
        · have ht' : (p.si (.mem m)).tainted = false := by simpa using ht
          obtain ⟨hk1, hcnt, hcov, hhs⟩ := hrec ht'
          rw [ht']
          have hcovB : Covers hf (getField b.val 256 (8 * nbytesOf P nl)) 0 ⟨cap, nh, seed⟩ (p.si (.mem m)).S :=
            hcov.mono hcap (fun j hj hb' => by rw [hcopy j hj]; exact hb')
          have hpcB : popCount (getField b.val 256 (8 * nbytesOf P nl)) 0 cap = popCount b.val 256 cap :=
            popCount_congr _ _ _ _ _ hcopy
          refine ⟨?_, ?_, fun _ => hk1, hhs, hcovB, ?_, ?_, ?_, ?_, ?_, ?_⟩
          · intro h; cases h
          · intro _ h; cases h
          · intro hM
            have hpos := popCount_pos_of_covers hf b.val 256 ⟨cap, nh, seed⟩ _ hcov hhs hM hk1.1 hcap
            simp only [Filter.isEmpty]
            rcases hcnt with h | h
            · simp [h]
            · have : nbs ≠ 0 := by rw [h]; simp only at hpos; omega
              simp [this]
          · intro _ _ hd
            simp only [Filter.off] at hd ⊢
            have hne : nbs ≠ P.dirty := by simpa using hd
            rcases hcnt with h | h
            · exact absurd h hne
            · show nbs = popCount (getField b.val 256 (8 * nbytesOf P nl)) 0 cap
              rw [hpcB]; exact h
          · intro _ _ h; cases h
          · intro h; cases h
          · intro h; cases h
          · intro _; exact ⟨hcovB, hhs, fun h => by cases h⟩
    | wrap =>
      by_cases hl : b.len < 32 + cap / 8
      · simp only [opWrap, pstep, hm, hp, hst', Bool.false_eq_true, if_false]; simp only [hl, if_true]; cases w.filters v <;> exact hg
      simp only [opWrap, pstep, hm, hp, hst', Bool.false_eq_true, if_false]; simp only [hl, if_false, setFilter_filters_same, wrapFilter]
      exact good_bind_mem P hf w p hg v m b hm (wrapFilter P m b.val cap nh seed nbs true) rfl _ (hfwf _ rfl rfl rfl)
        (viewOK_wrap P hf hP w p hg m b hm cap nh seed nbs nl hp true) ⟨nbs, nl, hp⟩
    | wwrap =>
      by_cases hl : b.len < 32 + cap / 8
      · simp only [opWrap, pstep, hm, hp, hst', Bool.false_eq_true, if_false]; simp only [hl, if_true]; cases w.filters v <;> exact hg
      simp only [opWrap, pstep, hm, hp, hst', Bool.false_eq_true, if_false]; simp only [hl, if_false, setFilter_filters_same, wrapFilter]
      exact good_bind_mem P hf w p hg v m b hm (wrapFilter P m b.val cap nh seed nbs false) rfl _ (hfwf _ rfl rfl rfl)
        (viewOK_wrap P hf hP w p hg m b hm cap nh seed nbs nl hp false) ⟨nbs, nl, hp⟩

end DS.Bloom

/- The invariant of the CPC sketch model and its preservation by `row_col_update` (free to change). -/
import DSProofs.Lemmas.CpcRep
namespace DS.Cpc

/-- `s` is a correct representation of the coupon stream `xs` -/
structure Inv (s : Sketch) (xs : List Nat) : Prop where
  rep : Rep s
  bits : ∀ r c, r < 2^s.lgK → c < 64 → (s.bit r c = true ↔ r * 64 + c ∈ xs)
  count : s.numCoupons = (distinct xs).length
  ficLe : s.fic ≤ s.offset
  ficFull : ∀ r c, r < 2^s.lgK → c < s.fic → s.bit r c = true
  sparseC : s.window = [] → 32 * s.numCoupons < 3 * 2^s.lgK
  winC : s.window ≠ [] → 3 * 2^s.lgK ≤ 32 * s.numCoupons
  offHi : s.window ≠ [] → (8 * s.numCoupons < (27 + 8 * s.offset) * 2^s.lgK ∨ s.offset = 56)
  offLo : 1 ≤ s.offset → (19 + 8 * s.offset) * 2^s.lgK ≤ 8 * s.numCoupons

@[simp] theorem updateHip_lgK (T s rc) : (updateHip T s rc).lgK = s.lgK := rfl
@[simp] theorem updateHip_numCoupons (T s rc) : (updateHip T s rc).numCoupons = s.numCoupons := rfl
@[simp] theorem updateHip_table (T s rc) : (updateHip T s rc).table = s.table := rfl
@[simp] theorem updateHip_window (T s rc) : (updateHip T s rc).window = s.window := rfl
@[simp] theorem updateHip_offset (T s rc) : (updateHip T s rc).offset = s.offset := rfl
@[simp] theorem updateHip_fic (T s rc) : (updateHip T s rc).fic = s.fic := rfl
@[simp] theorem updateHip_merged (T s rc) : (updateHip T s rc).merged = s.merged := rfl
@[simp] theorem updateHip_bit (T s rc r c) : (updateHip T s rc).bit r c = s.bit r c := rfl

theorem rep_updateHip (T s rc) (h : Rep s) : Rep (updateHip T s rc) := ⟨h.1, h.2, h.3, h.4, h.5, h.6, h.7⟩

/-- fresh sketch -/
theorem inv_fresh (lgK : Nat) : Inv (fresh lgK) [] := by
  refine ⟨⟨?_, ?_, ?_, ?_, ?_, ?_, ?_⟩, ?_, ?_, ?_, ?_, ?_, ?_, ?_, ?_⟩ <;>
    simp [fresh, Sketch.bit, distinct]
  exact Nat.two_pow_pos lgK

/-- the update did nothing and the coupon was already present -/
theorem inv_dup (s : Sketch) (xs : List Nat) (rc : Nat) (h : Inv s xs) (hm : rc ∈ xs) : Inv s (xs ++ [rc]) := by
  refine ⟨h.rep, ?_, ?_, h.ficLe, h.ficFull, h.sparseC, h.winC, h.offHi, h.offLo⟩
  · intro r c hr hc
    rw [h.bits r c hr hc, List.mem_append, List.mem_singleton]
    constructor
    · exact Or.inl
    · rintro (h1 | h1)
      · exact h1
      · rw [h1]; exact hm
  · rw [distinct_append_singleton_mem xs rc hm]; exact h.count

/-- a state `s'` that re-encodes the bits of `s` plus the novel coupon `(r, c)` -/
theorem inv_novel (s s' : Sketch) (xs : List Nat) (r c : Nat) (h : Inv s xs) (hr : r < 2^s.lgK) (hc : c < 64)
    (hnew : s.bit r c = false)
    (hlg : s'.lgK = s.lgK) (hrep : Rep s')
    (hbits : ∀ r' c', r' < 2^s.lgK → c' < 64 → s'.bit r' c' = (s.bit r' c' || (decide (r' = r) && decide (c' = c))))
    (hcount : s'.numCoupons = s.numCoupons + 1)
    (hficLe : s'.fic ≤ s'.offset)
    (hficFull : ∀ r' c', r' < 2^s.lgK → c' < s'.fic → s'.bit r' c' = true)
    (hsp : s'.window = [] → 32 * s'.numCoupons < 3 * 2^s.lgK)
    (hwin : s'.window ≠ [] → 3 * 2^s.lgK ≤ 32 * s'.numCoupons)
    (hhi : s'.window ≠ [] → (8 * s'.numCoupons < (27 + 8 * s'.offset) * 2^s.lgK ∨ s'.offset = 56))
    (hlo : 1 ≤ s'.offset → (19 + 8 * s'.offset) * 2^s.lgK ≤ 8 * s'.numCoupons) :
    Inv s' (xs ++ [r * 64 + c]) := by
  have hnm : r * 64 + c ∉ xs := by
    intro hm
    have := (h.bits r c hr hc).2 hm
    rw [hnew] at this; exact Bool.noConfusion this
  refine ⟨hrep, ?_, ?_, hficLe, ?_, ?_, ?_, ?_, ?_⟩
  · intro r' c' hr' hc'
    rw [hlg] at hr'
    rw [hbits r' c' hr' hc', List.mem_append, List.mem_singleton, Bool.or_eq_true, h.bits r' c' hr' hc']
    simp only [Bool.and_eq_true, decide_eq_true_eq]
    constructor
    · rintro (h1 | ⟨h1, h2⟩)
      · exact Or.inl h1
      · subst h1; subst h2; exact Or.inr rfl
    · rintro (h1 | h1)
      · exact Or.inl h1
      · exact Or.inr (by omega)
  · rw [distinct_append_singleton_not_mem xs _ hnm, hcount, h.count]
  · intro r' c' hr' hc'; rw [hlg] at hr'; exact hficFull r' c' hr' hc'
  · rw [hlg]; exact hsp
  · rw [hlg]; exact hwin
  · rw [hlg]; exact hhi
  · rw [hlg]; exact hlo

/-- a state `s'` that re-encodes exactly the bits of `s` (promotion, window move) -/
theorem inv_reencode (s s' : Sketch) (xs : List Nat) (h : Inv s xs)
    (hlg : s'.lgK = s.lgK) (hrep : Rep s')
    (hbits : ∀ r c, r < 2^s.lgK → c < 64 → s'.bit r c = s.bit r c)
    (hcount : s'.numCoupons = s.numCoupons)
    (hficLe : s'.fic ≤ s'.offset)
    (hficFull : ∀ r c, r < 2^s.lgK → c < s'.fic → s'.bit r c = true)
    (hsp : s'.window = [] → 32 * s'.numCoupons < 3 * 2^s.lgK)
    (hwin : s'.window ≠ [] → 3 * 2^s.lgK ≤ 32 * s'.numCoupons)
    (hhi : s'.window ≠ [] → (8 * s'.numCoupons < (27 + 8 * s'.offset) * 2^s.lgK ∨ s'.offset = 56))
    (hlo : 1 ≤ s'.offset → (19 + 8 * s'.offset) * 2^s.lgK ≤ 8 * s'.numCoupons) :
    Inv s' xs := by
  refine ⟨hrep, ?_, ?_, hficLe, ?_, ?_, ?_, ?_, ?_⟩
  · intro r c hr hc; rw [hlg] at hr; rw [hbits r c hr hc]; exact h.bits r c hr hc
  · rw [hcount]; exact h.count
  · intro r c hr hc; rw [hlg] at hr; exact hficFull r c hr hc
  · rw [hlg]; exact hsp
  · rw [hlg]; exact hwin
  · rw [hlg]; exact hhi
  · rw [hlg]; exact hlo

end DS.Cpc

/- Repaired model: what the source of a set operation contributes; ghost step of a set operation in projection form. -/
import DSProofs.Lemmas.BloomFixed11
namespace DS.Bloom

variable {ι : Type} [DecidableEq ι] (P : Params) (hf : ι → Nat → Option (Nat × Nat))

omit [DecidableEq ι] in
theorem hdrCfg_of_parse {P : Params} {b : Block} {cap nh seed nbs nl : Nat} (h : parseImage P b = .full cap nh seed nbs nl)
    (hlt : cap < 2 ^ 32) : hdrCfg b.val = ⟨cap, nh, seed⟩ := by
  obtain ⟨_, h1, _, h2, h3, h4, _, _⟩ := parseImage_full h
  have hc : (nl * 64) % 2 ^ 32 = cap := by
    rw [h1] at hlt ⊢
    unfold capOf at hlt ⊢
    split at hlt <;> simp_all <;> omega
  simp only [hdrCfg, ← h4, hc, ← h2, ← h3]

omit [DecidableEq ι] in
/-- the items recorded for the source's bit state are covered by the source's bits, under the source's configuration -/
theorem source_covers (hP : P.Wire) (w : World) (p : PGhost ι) (hg : Good P hf w p) (u : Nat) (g' : Filter)
    (hu : w.filters u = some g') (hag : agrees w g' = true) :
    Covers hf (w.val g') (g'.off P) g'.cfg (p.si (keyOf u g')).S ∧ Hashed hf g'.seed (p.si (keyOf u g')).S := by
  cases hr : g'.ref with
  | owned b =>
    obtain ⟨iu, hiu⟩ := hg.tracked u g' hu
    have hok := hg.view u g' iu hu hiu
    have hm : isMem g' = false := by simp [isMem, hr]
    have := hok.os hm
    rw [← val_eq_keyVal w u g' hu] at this
    have hoff : g'.off P = 0 := by simp [Filter.off, hr]
    rw [hoff]; exact ⟨this.1, this.2.1⟩
  | mem m =>
    have hkey : keyOf u g' = .mem m := by simp [keyOf, hr]
    have hm : isMem g' = true := by simp [isMem, hr]
    rw [hkey, off_mem P hP.layout hm]
    have hX : w.val g' = w.blockVal m := by simp [World.val, hr]
    rw [hX]
    by_cases ht : (p.si (.mem m)).tainted = true
    · rw [hg.taintS m ht]; exact ⟨Covers.nil _ _ _ _, fun y hy => by cases hy⟩
    · have ht' : (p.si (.mem m)).tainted = false := by simpa using ht
      obtain ⟨b, hb⟩ := hg.memref u g' m hu hr
      have hbv : w.blockVal m = b.val := by simp [World.blockVal, hb]
      rcases hg.blk m b hb ht' with ⟨_, _, _, _, hS⟩ | ⟨cap, nh, seed, nbs, nl, hfull, _, _, hcov, hhs⟩
      · rw [hS.1]; exact ⟨Covers.nil _ _ _ _, fun y hy => by cases hy⟩
      · have hcfg := hdrCfg_of_parse hfull ‹1 ≤ nh ∧ cap < 2 ^ 32›.2
        have hag' : hdrCfg (w.blockVal m) = g'.cfg := by
          simp only [agrees, hr, decide_eq_true_eq] at hag; exact hag
        rw [hbv, hcfg] at hag'
        rw [hbv, ← hag']
        refine ⟨hcov, ?_⟩
        have : g'.seed = seed := by
          have := congrArg Cfg.seed hag'; simpa [Filter.cfg] using this.symm
        rw [this]; exact hhs

/-- ghost step of a set operation, with the pair returned by `write` in projection form -/
def setGhost (p : PGhost ι) (w : World) (op : SetOp) (v : Nat) (f : Filter) (i : VInfo ι) (u : Nat) (g' : Filter) : PGhost ι :=
  let r := p.write w v f i
  let kv := keyOf v f
  let su := if agrees w g' then (p.si (keyOf u g')).S else []
  match op with
  | .union =>
    if r.2 then
      let p2 := r.1.setS kv { r.1.si kv with S := (r.1.si kv).S ++ su }
      match p2.vi v with
      | some i2 => p2.setV v { i2 with M := (p2.si kv).S }
      | none => p2
    else r.1
  | .inter =>
    let p2 := r.1.destructive w kv ((r.1.si kv).S.filter (fun x => decide (x ∈ su)))
    if r.2 then
      match r.1.vi v with
      | some i1 => p2.setV v { i1 with M := i1.M.filter (fun x => decide (x ∈ su)) }
      | none => p2
    else p2
  | .invert => r.1.destructive w kv []

theorem pstep_setop_eq (p : PGhost ι) (w w' : World) (n : Nat) (op : SetOp) (v u : Nat) (f g' : Filter) (i : VInfo ι)
    (hv : w.filters v = some f) (hu : w.filters u = some g') (hi : p.vi v = some i) :
    pstep hf p w w' (.nat n) (.setop op v u) = setGhost p w op v f i u g' := by
  simp only [pstep, hv, hu, hi, setGhost]
  cases hwr : p.write w v f i with
  | mk p1 keep => cases op <;> rfl

end DS.Bloom

/- Repaired model: assembling `Good` after a DISCIPLINED write through a promised, in-sync, writable memory view. -/
import DSProofs.Lemmas.BloomFixed6
namespace DS.Bloom

variable {ι : Type} (P : Params) (hf : ι → Nat → Option (Nat × Nat))

theorem good_write_mem_ok (hP : P.Layout) (w : World) (p p' : PGhost ι) (hg : Good P hf w p) (v : Nat) (f : Filter) (i : VInfo ι) (m : Nat)
    (hv : w.filters v = some f) (hi : p.vi v = some i) (hr : f.ref = .mem m) (hro : f.readOnly = false)
    (hp : i.promised = true) (hts : (p.si (.mem m)).tainted = false) (hsync : i.sync = (p.si (.mem m)).ver)
    (x nbs' : Nat) (d' : Bool) (hdr : Option Nat) (s' : SInfo ι) (M' : List ι)
    (hxlow : ∀ j, j < 256 → x.testBit j = (w.blockVal m).testBit j)
    (hsi : p'.si (.mem m) = s') (hsi_ne : ∀ k, k ≠ .mem m → p'.si k = p.si k)
    (hver : s'.ver = i.sync + 1) (ht' : s'.tainted = false)
    (hvi : p'.vi v = some { i with sync := i.sync + 1, M := M' })
    (hvi_same : ∀ u fu iu, u ≠ v → w.filters u = some fu → p.vi u = some iu → keyOf u fu = .mem m →
        ∃ Mu, p'.vi u = some { iu with M := Mu } ∧
          (Mu = [] ∨ (Mu = iu.M ∧ ∀ j, j < fu.capBits → (w.blockVal m).testBit (256 + j) = true → x.testBit (256 + j) = true)))
    (hvi_ne : ∀ u fu, w.filters u = some fu → keyOf u fu ≠ .mem m → p'.vi u = p.vi u)
    (hhs : Hashed hf f.seed M') (hcov : Covers hf x 256 f.cfg M')
    (hhsS : Hashed hf f.seed s'.S) (hcovS : Covers hf x 256 f.cfg s'.S)
    (hne : M' ≠ [] → d' = true ∨ nbs' ≠ 0)
    (hex : d' = false → nbs' = popCount x 256 f.capBits)
    (hcnt : getField (commitVal P f x hdr) 192 64 = P.dirty ∨ getField (commitVal P f x hdr) 192 64 = popCount x 256 f.capBits)
    (hdh : d' = true → getField (commitVal P f x hdr) 192 64 = P.dirty) :
    Good P hf (commit P w v f x nbs' d' hdr) p' := by
  have hkey : keyOf v f = .mem m := by simp [keyOf, hr]
  have hm : isMem f = true := by simp [isMem, hr]
  have hoff : f.off P = 256 := off_mem P hP hm
  have hok := hg.view v f i hv hi
  obtain ⟨b, hb⟩ := hg.memref v f m hv hr
  have hbv : w.blockVal m = b.val := by simp [World.blockVal, hb]
  have hbl : w.blockLen m = b.len := by simp [World.blockLen, hb]
  have hin0 : insync (p.si (.mem m)) f i = true := (insync_mem_iff hm).mpr ⟨hts, hsync⟩
  obtain ⟨nbs0, nl, hparse⟩ := hg.memfull v f i m b hv hi hr hb hp hin0
  -- bits of the new content
  have hXhigh : ∀ j, (commitVal P f x hdr).testBit (256 + j) = x.testBit (256 + j) := by
    intro j; have := commitVal_high P hP f x hdr j; rw [hoff] at this; exact this
  have hXlow : ∀ j, j < 192 → (commitVal P f x hdr).testBit j = b.val.testBit j := by
    intro j hj; rw [← hbv]; exact commitVal_low P hP f m hr (w.blockVal m) x hdr hxlow j hj
  have hparse' : parseImage P ⟨b.len, commitVal P f x hdr⟩ = .full f.capBits f.numHashes f.seed (getField (commitVal P f x hdr) 192 64) nl :=
    parseImage_write P b _ hXlow _ _ _ _ _ hparse
  have hpc : popCount (commitVal P f x hdr) 256 f.capBits = popCount x 256 f.capBits :=
    popCount_congr _ _ _ _ _ (fun j _ => hXhigh j)
  have hcovX : ∀ l, Covers hf x 256 f.cfg l → Covers hf (commitVal P f x hdr) 256 f.cfg l := by
    intro l hl
    exact hl.mono (hg.fwf v f hv).capPos (fun j _ hb' => by rw [hXhigh]; exact hb')
  have hold : ∀ u fu', (commit P w v f x nbs' d' hdr).filters u = some fu' →
      ∃ fu, w.filters u = some fu ∧ keyOf u fu' = keyOf u fu ∧ FWF fu' := by
    intro u fu' h'
    by_cases e : u = v
    · subst e
      rw [commit_filter] at h'; injection h' with h'; subst h'
      exact ⟨f, hv, committed_key _ _ _ _ _, fwf_committed (hg.fwf u f hv) _ _ _⟩
    · rw [commit_filters_ne _ _ _ _ _ _ _ _ _ e] at h'
      exact ⟨fu', h', rfl, hg.fwf u fu' h'⟩
  refine ⟨?_, ?_, ?_, ?_, ?_, ?_, ?_⟩
  · intro u fu' h'
    by_cases e : u = v
    · subst e; exact ⟨_, hvi⟩
    · rw [commit_filters_ne _ _ _ _ _ _ _ _ _ e] at h'
      obtain ⟨iu, hiu⟩ := hg.tracked u fu' h'
      by_cases hk : keyOf u fu' = .mem m
      · obtain ⟨Mu, hMu, _⟩ := hvi_same u fu' iu e h' hiu hk; exact ⟨_, hMu⟩
      · rw [hvi_ne u fu' h' hk]; exact ⟨iu, hiu⟩
  · intro u fu' h'
    obtain ⟨_, _, _, hw⟩ := hold u fu' h'; exact hw
  · intro u fu' iu' h' hi'
    by_cases e : u = v
    · subst e
      rw [commit_filter] at h'; injection h' with h'
      rw [hvi] at hi'; injection hi' with hi'
      subst h' hi'
      rw [committed_key, keyVal_commit_same, hkey, hsi]
      apply viewOK_actor_mem P hf hm hp (hok.k1 hp) x nbs' d' M' hver ht' hhs
      · rw [hoff]; exact hcovX _ hcov
      · exact hne
      · intro hd; rw [hoff, hpc]; exact hex hd
      · exact hdh
    · rw [commit_filters_ne _ _ _ _ _ _ _ _ _ e] at h'
      obtain ⟨iu, hiu⟩ := hg.tracked u fu' h'
      have hoku := hg.view u fu' iu h' hiu
      by_cases hk : keyOf u fu' = .mem m
      · obtain ⟨Mu, hMu, hcase⟩ := hvi_same u fu' iu e h' hiu hk
        rw [hMu] at hi'; injection hi' with hi'; subst hi'
        have hmem := (keyOf_mem_of_eq hk).2
        have hoffu : fu'.off P = 256 := off_mem P hP hmem
        rw [hk] at hoku ⊢
        rw [← hkey, keyVal_commit_same, hkey, hsi]
        apply viewOK_stale P hf hoku hmem (by rw [hver, hsync]) ht' hts Mu _ (hg.fwf u fu' h').capPos
        rcases hcase with h0 | ⟨h1, h2⟩
        · exact Or.inl h0
        · right; refine ⟨h1, ?_⟩
          intro j hj hb'
          rw [hoffu] at hb' ⊢
          rw [hXhigh]
          exact h2 j hj hb'
      · rw [hvi_ne u fu' h' hk, hiu] at hi'; injection hi' with hi'; subst hi'
        rw [keyVal_commit_ne P w v f _ _ _ _ hv _ (by rw [hkey]; exact hk), hsi_ne _ hk]
        exact hoku
  · intro m' b' hb' ht
    rw [commit_blocks_mem P w v f m hr] at hb'
    by_cases e : m' = m
    · subst e
      simp only [if_true, Option.some.injEq] at hb'
      subst hb'
      rw [hsi, hbl]
      right
      refine ⟨f.capBits, f.numHashes, f.seed, _, nl, hparse', hok.k1 hp, ?_, hcovX _ hcovS, hhsS⟩
      simp only
      rw [hpc]; exact hcnt
    · simp only [e, if_false] at hb'
      have hk : Key.mem m' ≠ Key.mem m := by intro h; injection h with h; exact e h
      rw [hsi_ne _ hk] at ht ⊢
      exact hg.blk m' b' hb' ht
  · intro m' ht
    by_cases e : m' = m
    · subst e; rw [hsi, ht'] at ht; cases ht
    · have hk : Key.mem m' ≠ Key.mem m := by intro h; injection h with h; exact e h
      rw [hsi_ne _ hk] at ht ⊢
      exact hg.taintS m' ht
  · intro u fu' m' h' hr'
    obtain ⟨fu, hfu, hkk, _⟩ := hold u fu' h'
    have hr0 : fu.ref = .mem m' := by
      have : keyOf u fu' = .mem m' := by simp [keyOf, hr']
      rw [hkk] at this; exact (keyOf_mem_of_eq this).1
    obtain ⟨b0, hb0⟩ := hg.memref u fu m' hfu hr0
    rw [commit_blocks_mem P w v f m hr]
    by_cases e : m' = m
    · simp [e]
    · simp [e, hb0]
  · intro u fu' iu' m' b' h' hi' hr' hb' hpu hin
    have hku' : keyOf u fu' = .mem m' := by simp [keyOf, hr']
    have hmem' : isMem fu' = true := (keyOf_mem_of_eq hku').2
    rw [commit_blocks_mem P w v f m hr] at hb'
    by_cases e : u = v
    · subst e
      rw [commit_filter] at h'; injection h' with h'; subst h'
      have : m' = m := by
        have h1 := committed_ref_mem x nbs' d' hr
        rw [h1] at hr'; injection hr' with hr'; exact hr'.symm
      subst this
      simp only [if_true, Option.some.injEq] at hb'
      subst hb'
      have hf' := committed_fields f x nbs' d'
      rw [hf'.1, hf'.2.1, hf'.2.2.1, hbl]
      exact ⟨_, nl, hparse'⟩
    · rw [commit_filters_ne _ _ _ _ _ _ _ _ _ e] at h'
      obtain ⟨iu, hiu⟩ := hg.tracked u fu' h'
      by_cases e2 : m' = m
      · subst e2
        -- another view of the written block: out of sync now
        obtain ⟨Mu, hMu, _⟩ := hvi_same u fu' iu e h' hiu hku'
        rw [hMu] at hi'; injection hi' with hi'; subst hi'
        rw [hsi] at hin
        have hsvu := (hg.view u fu' iu h' hiu).sv hmem'
        rw [hku'] at hsvu
        have : insync s' fu' { iu with M := Mu } = false := insync_mem_false_of_lt hmem' (by simp only; omega)
        rw [this] at hin; cases hin
      · have hk : Key.mem m' ≠ Key.mem m := by intro h; injection h with h; exact e2 h
        have hku : keyOf u fu' ≠ .mem m := by rw [hku']; exact hk
        rw [hvi_ne u fu' h' hku, hiu] at hi'; injection hi' with hi'; subst hi'
        simp only [e2, if_false] at hb'
        rw [hsi_ne _ hk] at hin
        exact hg.memfull u fu' iu m' b' h' hiu hr' hb' hpu hin

end DS.Bloom

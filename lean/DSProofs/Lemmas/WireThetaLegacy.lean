/-
Legacy compact theta images (serial versions 1 and 2): round trips of the legacy writers through the reader (helper lemmas).
-/
import DSProofs.Lemmas.WireTheta
namespace DS.Wire.Theta
open DS.Wire Reader

theorem decode_encodeV1 {c : Consts} (hc : COk c) (s : Image) (hwf : WFLegacy s) (exp : Nat) (hseed : s.seedHash = exp) (tail : Bytes) :
    decode c exp (encodeV1 c s ++ tail) = some (s, tail) := by
  obtain ⟨⟨hsh, hth, hes, hlen, hemp, _⟩, hord, hne⟩ := hwf
  unfold decode encodeV1
  simp only [List.append_assoc]
  rw [bind_u8 _ _ _ (by decide), bind_u8 _ _ _ (by decide), bind_u8 _ _ _ hc.ty]
  simp only [beq_self_eq_true, bind_guard_true, Ne.symm hc.v41, Ne.symm hc.v31, ↓reduceIte]
  unfold decodeV1
  rw [bind_skip_zeros, bind_u32 _ _ _ hlen, bind_skip_w32, bind_u64 _ _ _ (by unfold maxTheta at hth; omega)]
  obtain ⟨e, o, sh, th, es⟩ := s
  simp only at *
  subst hord; subst hseed
  cases e with
  | true =>
    obtain ⟨h1, h2⟩ := hemp rfl
    subst h1; subst h2
    simp [Reader.pure, wU64s]
  | false =>
    have hn : ¬ (es.length = 0 ∧ th = maxTheta) := by
      intro ⟨a, b⟩
      exact hne rfl ⟨List.eq_nil_of_length_eq_zero a, b⟩
    simp only [hn, ↓reduceIte]
    rw [bind_some (repeatN_u64_wU64s es hes tail)]
    rfl

theorem decode_encodeV2 {c : Consts} (hc : COk c) (s : Image) (hwf : WFLegacy s) (exp : Nat) (hseed : s.seedHash = exp) (tail : Bytes) :
    decode c exp (encodeV2 c s ++ tail) = some (s, tail) := by
  obtain ⟨⟨hsh, hth, hes, hlen, hemp, _⟩, hord, hne⟩ := hwf
  unfold decode encodeV2
  simp only [List.append_assoc]
  have hpre : (if s.isEmpty = true then 1 else if s.theta < maxTheta then 3 else 2) < 256 := by
    split
    · decide
    · split <;> decide
  rw [bind_u8 _ _ _ hpre, bind_u8 _ _ _ (by decide), bind_u8 _ _ _ hc.ty]
  simp only [beq_self_eq_true, bind_guard_true, Ne.symm hc.v42, Ne.symm hc.v32, ↓reduceIte, show (2 : Nat) ≠ 1 by decide]
  unfold decodeV2
  rw [bind_skip_zeros, bind_u16 _ _ _ hsh]
  obtain ⟨e, o, sh, th, es⟩ := s
  simp only at *
  subst hord; subst hseed
  simp only [beq_self_eq_true, bind_guard_true]
  cases e with
  | true =>
    obtain ⟨h1, h2⟩ := hemp rfl
    subst h1; subst h2
    simp [Reader.pure, wU64s]
  | false =>
    simp only [Bool.false_eq_true, ↓reduceIte]
    by_cases hest : th < maxTheta
    · simp only [hest, ↓reduceIte, show (3 : Nat) ≠ 1 by decide, show (3 : Nat) ≠ 2 by decide, show (3 : Nat) > 1 by decide,
        show (3 : Nat) > 2 by decide, List.append_assoc]
      rw [bind_u32 _ _ _ hlen, bind_skip_w32, bind_u64 _ _ _ (by unfold maxTheta at hth; omega)]
      have hn : ¬ (es.length = 0 ∧ th = maxTheta) := by intro ⟨_, b⟩; omega
      simp only [hn, ↓reduceIte]
      rw [bind_some (repeatN_u64_wU64s es hes tail)]
      rfl
    · have hth' : th = maxTheta := by omega
      subst hth'
      simp only [Nat.lt_irrefl, ↓reduceIte, show (2 : Nat) ≠ 1 by decide, show (2 : Nat) > 1 by decide,
        show ¬ ((2 : Nat) > 2) by decide, List.append_assoc, List.nil_append]
      rw [bind_u32 _ _ _ hlen, bind_skip_w32]
      have hn : ¬ (es.length = 0) := by
        intro a
        exact hne rfl ⟨List.eq_nil_of_length_eq_zero a, rfl⟩
      simp only [hn, ↓reduceIte]
      rw [bind_some (repeatN_u64_wU64s es hes tail)]
      rfl

end DS.Wire.Theta

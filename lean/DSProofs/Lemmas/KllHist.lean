/- Structural invariant through merge and through whole histories. -/
import DSProofs.Lemmas.KllMerge
import DSModel.Kll.History
namespace DS.Kll
open DS DS.SortedView

variable {α : Type}

theorem weightSum_zero_cons (l : List α) (t : List (List α)) : weightSum 0 (l :: t) = l.length + weightSum 1 t := by
  simp [weightSum]

theorem levels_eq_cons {P : Params} {lt : α → α → Bool} {s : Sketch α} (h : InvS P lt s) :
    s.levels = s.levels.headD [] :: s.levels.tail := by
  cases hs : s.levels with
  | nil => exact absurd hs h.ne
  | cons a b => rfl

/-- `merge_higher_levels` -/
theorem mergeHigherT_inv {P : Params} (ok : ParamsOk P) {c : Cmp α} (sw : StrictWeak c.lt) {s o : Sketch α}
    (hs : InvS P c.lt s) (ho : InvS P c.lt o) (ho2 : 2 ≤ o.levels.length) :
    CT.All (fun s' => InvS P c.lt { s' with n := s.n + weightSum 1 o.levels.tail } ∧ s'.k = s.k ∧ s'.minK = s.minK ∧
              2 ≤ s'.levels.length) (mergeHigherT P c s o) := by
  unfold mergeHigherT
  have hsl := levels_eq_cons hs
  have hol := levels_eq_cons ho
  generalize hwk : s.levels.headD [] :: zipLevels c.lt s.levels.tail o.levels.tail = work
  have hwlen : work.length = max s.levels.length o.levels.length := by
    rw [← hwk, List.length_cons, zipLevels_length, List.length_tail, List.length_tail]
    have := List.length_pos_iff.mpr hs.ne; omega
  have hwget : ∀ i, work.getD (i + 1) [] = mergeUp c.lt (s.levels.getD (i + 1) []) (o.levels.getD (i + 1) []) := by
    intro i
    rw [← hwk, List.getD_cons_succ, zipLevels_getD]
    conv => rhs; rw [hsl, hol]
    simp only [List.getD_cons_succ]
  have hw0 : work.getD 0 [] = s.levels.getD 0 [] := by
    rw [← hwk]; conv => rhs; rw [hsl]
    simp
  have hwork : [].reverse ++ work.headD [] :: work.tail = work := by rw [← hwk]; rfl
  have hww : weightSum 0 work = s.n + weightSum 1 o.levels.tail := by
    rw [← hwk, weightSum_zero_cons, weightSum_zipLevels, ← hs.weight]
    conv => rhs; rw [hsl, weightSum_zero_cons]
    omega
  refine CT.All_bind (P := GcPost P c.lt s.k s.sorted0 work) ?_ ?_
  · have := gcLoop_inv ok sw s.k s.sorted0 (gcFuel work) [] (work.headD []) work.tail (sizeSum work)
      (computeTotalCapacity P s.k work.length)
      (by rw [hwork]) (by rw [hwork]) ?_ ?_ ?_ ?_ ?_
    · rw [hwork] at this; exact this
    · rw [hwork]; intro i hi
      obtain ⟨j, rfl⟩ : ∃ j, i = j + 1 := ⟨i - 1, by omega⟩
      rw [hwget]
      exact sorted_mergeUp sw _ _ (hs.sorted _ (by omega)) (ho.sorted _ (by omega))
    · rw [hwork, hw0]; exact hs.sorted0
    · rw [hwork]
      obtain ⟨j, hj⟩ : ∃ j, work.length - 1 = j + 1 := ⟨work.length - 2, by omega⟩
      rw [hj, hwget]
      intro hnil
      have hl := congrArg List.length hnil
      rw [mergeUp_length] at hl
      simp only [List.length_nil] at hl
      rcases Nat.lt_or_ge s.levels.length o.levels.length with h1 | h1
      · -- other's top level
        have e : j + 1 = o.levels.length - 1 := by omega
        rcases ho.top with h2 | h2
        · omega
        · rw [← e] at h2
          exact h2 (List.eq_nil_of_length_eq_zero (by omega))
      · have e : j + 1 = s.levels.length - 1 := by omega
        rcases hs.top with h2 | h2
        · omega
        · rw [← e] at h2
          exact h2 (List.eq_nil_of_length_eq_zero (by omega))
    · right
      simp only [sizeSum, Nat.zero_add]
      rw [computeTotalCapacity_eq]
      have : 1 + work.tail.length = work.length := by
        rw [List.length_tail]; omega
      rw [this]; exact Nat.le_refl _
    · have : work = work.headD [] :: work.tail := by rw [← hwk]; rfl
      unfold gcFuel
      conv => rhs; rw [this]
      simp only [List.length_cons, List.length_tail]
      omega
  · intro r hr
    simp only [CT.All_ret]
    have hrne : r.1 ≠ [] := by
      intro h; have := hr.len; rw [h] at this; simp only [List.length_nil] at this; omega
    refine ⟨⟨hrne, ?_, hr.cap, hr.ret_le, hr.sorted, hr.sorted0, Or.inr hr.top⟩, trivial, trivial, ?_⟩
    · show weightSum 0 r.1 = s.n + weightSum 1 o.levels.tail
      rw [hr.weight, hww]
    · have := hr.len; show 2 ≤ r.1.length; omega

theorem mergeMinMax_inv {P : Params} {c : Cmp α} {s : Sketch α} (h : InvS P c.lt s) (o : Sketch α) :
    InvS P c.lt (mergeMinMax c s o) := by
  unfold mergeMinMax
  split <;> exact ⟨h.ne, h.weight, h.cap, h.ret_le, h.sorted, h.sorted0, h.top⟩

theorem mergeMinMax_fields (c : Cmp α) (s o : Sketch α) :
    (mergeMinMax c s o).n = s.n ∧ (mergeMinMax c s o).k = s.k ∧ (mergeMinMax c s o).levels = s.levels ∧
    (mergeMinMax c s o).itemsSize = s.itemsSize ∧ (mergeMinMax c s o).sorted0 = s.sorted0 ∧
    (mergeMinMax c s o).minK = s.minK := by
  unfold mergeMinMax; split <;> simp

/-- `merge` keeps the invariant; n is the sum (so `assert_correct_total_weight` holds) -/
theorem mergeT_inv {P : Params} (ok : ParamsOk P) {c : Cmp α} (sw : StrictWeak c.lt) {s o : Sketch α}
    (hs : InvS P c.lt s) (ho : InvS P c.lt o) :
    CT.All (fun s' => InvS P c.lt s' ∧ s'.n = s.n + o.n ∧ s'.k = s.k) (mergeT P c s o) := by
  unfold mergeT
  split
  · rename_i h0
    have : o.n = 0 := by simpa using h0
    simp only [CT.All_ret, this, Nat.add_zero]; exact ⟨hs, trivial, trivial⟩
  · have hf := mergeMinMax_fields c s o
    have hol := levels_eq_cons ho
    have hon : o.n = (o.levels.headD []).length + weightSum 1 o.levels.tail := by
      rw [← ho.weight]; conv => lhs; rw [hol, weightSum_zero_cons]
    refine CT.All_bind (replayT_inv ok sw (o.levels.headD []) (mergeMinMax_inv hs o)) ?_
    intro s2 ⟨h2, hn2, hk2, _, _⟩
    by_cases ho2 : o.numLevels ≥ 2
    · simp only [ho2, if_true]
      refine CT.All_bind (mergeHigherT_inv ok sw h2 ho (by simpa [Sketch.numLevels] using ho2)) ?_
      intro s3 ⟨h3, hk3, _, _⟩
      simp only [CT.All_ret]
      refine ⟨⟨h3.ne, ?_, h3.cap, h3.ret_le, h3.sorted, h3.sorted0, h3.top⟩, trivial, ?_⟩
      · have := h3.weight
        simp only at this ⊢
        rw [this, hn2, hf.1, hon]; omega
      · show s3.k = s.k; rw [hk3, hk2, hf.2.1]
    · simp only [ho2, if_false, CT.bind_ret, CT.All_ret]
      have h1 : o.levels.length = 1 := by
        have := List.length_pos_iff.mpr ho.ne
        simp only [Sketch.numLevels] at ho2; omega
      have ht : o.levels.tail = [] := List.eq_nil_of_length_eq_zero (by rw [List.length_tail]; omega)
      refine ⟨⟨h2.ne, ?_, h2.cap, h2.ret_le, h2.sorted, h2.sorted0, h2.top⟩, trivial, ?_⟩
      · have := h2.weight
        simp only at this ⊢
        rw [this, hn2, hf.1, hon, ht]; simp [weightSum]
      · show s2.k = s.k; rw [hk2, hf.2.1]

/-! ### histories -/

theorem mem_set_cases {β : Type} {l : List β} {i : Nat} {a b : β} (h : b ∈ l.set i a) : b = a ∨ b ∈ l := by
  rcases List.mem_or_eq_of_mem_set h with h | h
  · exact Or.inr h
  · exact Or.inl h

theorem stepT_inv {P : Params} (ok : ParamsOk P) {c : Cmp α} (sw : StrictWeak c.lt) {st : List (Sketch α)}
    (h : ∀ s ∈ st, InvS P c.lt s) (op : Op α) : CT.All (fun st' => ∀ s ∈ st', InvS P c.lt s) (stepT P c st op) := by
  cases op with
  | new k =>
    simp only [stepT, CT.All_ret]
    split
    · rename_i hk
      intro s hs
      rcases List.mem_append.mp hs with h1 | h1
      · exact h s h1
      · simp only [List.mem_singleton] at h1; subst h1; exact init_inv P ok c.lt k hk
    · exact h
  | upd i x =>
    simp only [stepT]
    split
    · rename_i s hsi
      have hsm : s ∈ st := List.mem_of_getElem? hsi
      refine CT.All_map (updateT_inv ok sw (h s hsm) x) ?_
      intro s' hs' t ht
      rcases mem_set_cases ht with rfl | h1
      · exact hs'
      · exact h t h1
    · exact h
  | merge i j =>
    simp only [stepT]
    split
    · exact h
    · split
      · rename_i a b hai hbj
        have ha : a ∈ st := List.mem_of_getElem? hai
        have hb : b ∈ st := List.mem_of_getElem? hbj
        refine CT.All_map (mergeT_inv ok sw (h a ha) (h b hb)) ?_
        intro s' hs' t ht
        rcases mem_set_cases ht with rfl | h1
        · exact hs'.1
        · exact h t h1
      · exact h
  | copy i =>
    simp only [stepT]
    split
    · rename_i s hsi
      have hsm : s ∈ st := List.mem_of_getElem? hsi
      simp only [CT.All_ret]
      intro t ht
      rcases List.mem_append.mp ht with h1 | h1
      · exact h t h1
      · simp only [List.mem_singleton] at h1; subst h1; exact h _ hsm
    · exact h
  | view i =>
    simp only [stepT]
    split
    · rename_i s hsi
      have hsm : s ∈ st := List.mem_of_getElem? hsi
      simp only [CT.All_ret]
      intro t ht
      rcases mem_set_cases ht with rfl | h1
      · exact sortLevelZero_inv sw (h s hsm)
      · exact h t h1
    · exact h

theorem runT_inv {P : Params} (ok : ParamsOk P) {c : Cmp α} (sw : StrictWeak c.lt) :
    ∀ (ops : List (Op α)) {st : List (Sketch α)}, (∀ s ∈ st, InvS P c.lt s) →
    CT.All (fun st' => ∀ s ∈ st', InvS P c.lt s) (runT P c ops st)
  | [], _, h => h
  | op :: ops, _, h => CT.All_bind (stepT_inv ok sw h op) (fun _ h' => runT_inv ok sw ops h')

end DS.Kll

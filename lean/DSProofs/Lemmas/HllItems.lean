/- Coupon arrays of LIST / SET mode: every placement adds exactly the new coupon (helper lemmas for Props/C03.lean). -/
import DSModel.Hll.Sketch
import Batteries.Data.List.Perm
namespace DS.Hll

theorem mem_itemsOf {tbl : Array Nat} {c : Nat} : c ∈ itemsOf tbl ↔ (c ∈ tbl.toList ∧ c ≠ 0) := by
  simp [itemsOf, List.mem_filter]

theorem contains_iff_mem_itemsOf {tbl : Array Nat} {c : Nat} (hc : c ≠ 0) : tbl.contains c = true ↔ c ∈ itemsOf tbl := by
  rw [mem_itemsOf, Array.contains_iff_mem, Array.mem_toList_iff]
  exact ⟨fun h => ⟨h, hc⟩, fun h => h.1⟩

theorem itemsOf_replicate_zero (n : Nat) : itemsOf (Array.replicate n 0) = [] := by
  simp [itemsOf, List.filter_eq_nil_iff]

theorem zero_not_mem_itemsOf (tbl : Array Nat) : 0 ∉ itemsOf tbl := by
  simp [mem_itemsOf]

/-- writing a nonzero coupon into an EMPTY slot adds exactly that coupon -/
theorem itemsOf_set_zero {tbl : Array Nat} {i c : Nat} (hi : i < tbl.size) (hz : tbl.getD i 1 = 0) (hc : c ≠ 0) :
    (itemsOf (tbl.setIfInBounds i c)).Perm (c :: itemsOf tbl) := by
  have hz' : tbl.toList[i]'(by simpa using hi) = 0 := by
    simpa [Array.getD_eq_getD_getElem?, hi] using hz
  have hl : i < tbl.toList.length := by simpa using hi
  unfold itemsOf
  rw [Array.toList_setIfInBounds, List.set_eq_take_append_cons_drop, if_pos hl]
  have hsplit : tbl.toList = tbl.toList.take i ++ tbl.toList[i] :: tbl.toList.drop (i + 1) := by
    rw [List.getElem_cons_drop, List.take_append_drop]
  conv => rhs; rw [hsplit]
  have e1 : (!decide (c = 0)) = true := by simp [hc]
  simp only [List.filter_append, List.filter_cons, hz', ne_eq, decide_not, decide_true, Bool.not_true,
    Bool.false_eq_true, if_false, e1, if_true]
  exact List.perm_middle

theorem itemsOf_push {tbl : Array Nat} {c : Nat} (hc : c ≠ 0) : itemsOf (tbl.push c) = itemsOf tbl ++ [c] := by
  simp [itemsOf, List.filter_append, hc]

theorem firstZeroFrom_spec (tbl : Array Nat) : ∀ (fuel i : Nat), tbl.size ≤ i + fuel →
    firstZeroFrom tbl fuel i < tbl.size → tbl.getD (firstZeroFrom tbl fuel i) 1 = 0
  | 0, i, h, hl => by simp only [firstZeroFrom] at hl; omega
  | fuel + 1, i, h, hl => by
    simp only [firstZeroFrom] at hl ⊢
    by_cases hz : tbl.getD i 1 = 0
    · rw [if_pos hz]; exact hz
    · rw [if_neg hz] at hl ⊢
      exact firstZeroFrom_spec tbl fuel (i + 1) (by omega) hl

theorem placeFirst_perm {tbl : Array Nat} {c : Nat} (hc : c ≠ 0) : (itemsOf (placeFirst tbl c)).Perm (c :: itemsOf tbl) := by
  unfold placeFirst
  simp only
  by_cases hl : firstZeroFrom tbl tbl.size 0 < tbl.size
  · rw [if_pos hl]
    exact itemsOf_set_zero hl (firstZeroFrom_spec tbl tbl.size 0 (by omega) hl) hc
  · rw [if_neg hl, itemsOf_push hc]
    exact List.perm_append_singleton c (itemsOf tbl)

theorem probeEmpty_spec (tbl : Array Nat) (m stride : Nat) : ∀ (fuel pr i : Nat),
    probeEmpty tbl m stride fuel pr = some i → tbl.getD i 1 = 0
  | 0, pr, i, h => by simp [probeEmpty] at h
  | fuel + 1, pr, i, h => by
    simp only [probeEmpty] at h
    by_cases hz : tbl.getD pr 1 = 0
    · rw [if_pos hz] at h; cases h; exact hz
    · rw [if_neg hz] at h; exact probeEmpty_spec tbl m stride fuel _ i h

theorem setPlace_perm (p : Params) {tbl : Array Nat} {lgArr c : Nat} (hc : c ≠ 0) :
    (itemsOf (setPlace p tbl lgArr c)).Perm (c :: itemsOf tbl) := by
  unfold setPlace
  cases hpe : probeEmpty tbl (2^lgArr) (setStride p lgArr c) (2^lgArr) (c % 2^lgArr) with
  | none => exact placeFirst_perm hc
  | some i =>
    simp only
    by_cases hl : i < tbl.size
    · rw [if_pos hl]; exact itemsOf_set_zero hl (probeEmpty_spec _ _ _ _ _ _ hpe) hc
    · rw [if_neg hl]; exact placeFirst_perm hc

theorem foldl_setPlace_perm (p : Params) (lg : Nat) : ∀ (l : List Nat) (t : Array Nat), (∀ c ∈ l, c ≠ 0) →
    (itemsOf (l.foldl (fun t c => setPlace p t lg c) t)).Perm (l.reverse ++ itemsOf t)
  | [], t, _ => by simp
  | a :: l, t, h => by
    simp only [List.foldl_cons, List.reverse_cons, List.append_assoc, List.singleton_append]
    have h1 := foldl_setPlace_perm p lg l (setPlace p t lg a) (fun c hc => h c (List.mem_cons_of_mem _ hc))
    exact h1.trans (List.Perm.append_left _ (setPlace_perm p (h a (List.mem_cons_self))))

theorem growSet_perm (p : Params) (tbl : Array Nat) (lgArr : Nat) : (itemsOf (growSet p tbl lgArr)).Perm (itemsOf tbl) := by
  unfold growSet
  have h := foldl_setPlace_perm p (lgArr + 1) (itemsOf tbl) (Array.replicate (2^(lgArr + 1)) 0)
    (fun c hc h0 => zero_not_mem_itemsOf tbl (h0 ▸ hc))
  rw [itemsOf_replicate_zero, List.append_nil] at h
  exact h.trans (List.reverse_perm _)

end DS.Hll

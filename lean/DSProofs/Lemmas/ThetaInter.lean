/- Intersection and A-not-B: invariant of the intersection state, list lemmas for sortKV / interLoop. -/
import DSProofs.Lemmas.ThetaUnion2
namespace DS.Theta

variable {σ : Type}

theorem mem_keys_insertKV (e : Nat × σ) (l : List (Nat × σ)) (x : Nat) :
    x ∈ keys (insertKV e l) ↔ x = e.1 ∨ x ∈ keys l := by
  induction l with
  | nil => simp [insertKV]
  | cons a t ih =>
    simp only [insertKV]
    split
    · simp
    · simp only [keys_cons, List.mem_cons, ih]
      constructor
      · rintro (h | h | h) <;> simp [h]
      · rintro (h | h | h) <;> simp [h]

theorem sorted_insertKV (e : Nat × σ) (l : List (Nat × σ)) (hs : (keys l).Pairwise (· < ·)) (hn : e.1 ∉ keys l) :
    (keys (insertKV e l)).Pairwise (· < ·) := by
  induction l with
  | nil => simp [insertKV]
  | cons a t ih =>
    simp only [keys_cons, List.pairwise_cons] at hs
    simp only [keys_cons, List.mem_cons, not_or] at hn
    simp only [insertKV]
    split
    · rename_i hle
      simp only [keys_cons, List.pairwise_cons, List.mem_cons]
      refine ⟨?_, hs.1, hs.2⟩
      rintro y (rfl | hy)
      · omega
      · have := hs.1 y hy; omega
    · rename_i hle
      simp only [keys_cons, List.pairwise_cons]
      refine ⟨?_, ih hs.2 hn.2⟩
      intro y hy
      rw [mem_keys_insertKV] at hy
      rcases hy with rfl | hy
      · omega
      · exact hs.1 y hy

theorem sortKV_spec (l : List (Nat × σ)) (hn : (keys l).Nodup) :
    (keys (sortKV l)).Pairwise (· < ·) ∧ ∀ x, x ∈ keys (sortKV l) ↔ x ∈ keys l := by
  induction l with
  | nil => simp [sortKV]
  | cons a t ih =>
    simp only [keys_cons, List.nodup_cons] at hn
    have ih' := ih hn.2
    have hst : sortKV (a :: t) = insertKV a (sortKV t) := rfl
    rw [hst]
    refine ⟨sorted_insertKV a _ ih'.1 (fun hc => hn.1 ((ih'.2 _).1 hc)), ?_⟩
    intro x
    rw [mem_keys_insertKV, ih'.2]
    simp [keys_cons]

theorem lookup_some_iff (h : Nat) (l : List (Nat × σ)) : (∃ v, lookup h l = some v) ↔ h ∈ keys l := by
  constructor
  · rintro ⟨v, hv⟩
    apply Classical.byContradiction
    intro hc
    rw [(lookup_none_iff h l).2 hc] at hv
    cases hv
  · intro hm
    cases hl : lookup h l with
    | none => exact absurd hm ((lookup_none_iff h l).1 hl)
    | some v => exact ⟨v, rfl⟩

/-- keys produced by the match loop (any input order; for ordered inputs the early stop loses nothing) -/
theorem mem_keys_interLoop (pol : σ → σ → σ) (θ : Nat) (tbl : List (Nat × σ)) (ord : Bool) (l : List (Nat × σ))
    (hs : ord = true → (keys l).Pairwise (· < ·)) (x : Nat) :
    x ∈ keys (interLoop pol θ tbl ord l) ↔ (x ∈ keys l ∧ x < θ ∧ x ∈ keys tbl) := by
  induction l with
  | nil => simp [interLoop]
  | cons e t ih =>
    have hs' : ord = true → (keys t).Pairwise (· < ·) := fun ho => by
      have := hs ho; simp only [keys_cons, List.pairwise_cons] at this; exact this.2
    simp only [interLoop]
    split
    · rename_i hlt
      split
      · rename_i v hv
        have hin : e.1 ∈ keys tbl := (lookup_some_iff e.1 tbl).1 ⟨v, hv⟩
        simp only [keys_cons, List.mem_cons, ih hs']
        constructor
        · rintro (rfl | ⟨h1, h2, h3⟩)
          · exact ⟨Or.inl rfl, hlt, hin⟩
          · exact ⟨Or.inr h1, h2, h3⟩
        · rintro ⟨rfl | h1, h2, h3⟩
          · exact Or.inl rfl
          · exact Or.inr ⟨h1, h2, h3⟩
      · rename_i hv
        have hnin : e.1 ∉ keys tbl := (lookup_none_iff e.1 tbl).1 hv
        simp only [keys_cons, List.mem_cons, ih hs']
        constructor
        · rintro ⟨h1, h2, h3⟩; exact ⟨Or.inr h1, h2, h3⟩
        · rintro ⟨rfl | h1, h2, h3⟩
          · exact absurd h3 hnin
          · exact ⟨h1, h2, h3⟩
    · rename_i hge
      split
      · rename_i ho
        have hsorted := hs ho
        simp only [keys_cons, List.pairwise_cons] at hsorted
        simp only [keys_nil, List.not_mem_nil, keys_cons, List.mem_cons, false_iff, not_and]
        rintro (rfl | hx) hlt
        · omega
        · have := hsorted.1 x hx; omega
      · simp only [keys_cons, List.mem_cons, ih hs']
        constructor
        · rintro ⟨h1, h2, h3⟩; exact ⟨Or.inr h1, h2, h3⟩
        · rintro ⟨rfl | h1, h2, h3⟩
          · omega
          · exact ⟨h1, h2, h3⟩

theorem interLoop_sublist (pol : σ → σ → σ) (θ : Nat) (tbl : List (Nat × σ)) (ord : Bool) (l : List (Nat × σ)) :
    (keys (interLoop pol θ tbl ord l)).Sublist (keys l) := by
  induction l with
  | nil => simp [interLoop]
  | cons e t ih =>
    simp only [interLoop]
    split
    · split
      · simp only [keys_cons]; exact ih.cons_cons _
      · simp only [keys_cons]; exact ih.cons _
    · split
      · simp
      · simp only [keys_cons]; exact ih.cons _

/-- x is retained by every processed input -/
def common (P : List (Compact σ)) (x : Nat) : Prop := ∀ sk, sk ∈ P → x ∈ keys sk.ents

def minTheta : List (Compact σ) → Nat
  | [] => MAX_THETA
  | sk :: r => min sk.theta (minTheta r)

theorem minTheta_append (P : List (Compact σ)) (sk : Compact σ) : minTheta (P ++ [sk]) = min (minTheta P) sk.theta := by
  induction P with
  | nil => simp [minTheta, Nat.min_comm]
  | cons a t ih => simp only [List.cons_append, minTheta, ih]; omega

theorem minTheta_le_max (P : List (Compact σ)) : minTheta P ≤ MAX_THETA := by
  induction P with
  | nil => exact Nat.le_refl _
  | cons a t ih => simp only [minTheta]; omega

theorem common_lt (P : List (Compact σ)) (hw : ∀ sk, sk ∈ P → WFop sk) (hP : P ≠ []) (x : Nat) (hc : common P x) :
    x < minTheta P := by
  induction P with
  | nil => exact absurd rfl hP
  | cons a t ih =>
    simp only [minTheta]
    have ha := (hw a (by simp)).lt_theta x (hc a (by simp))
    by_cases ht : t = []
    · subst ht
      have := (hw a (by simp)).theta_le
      simp only [minTheta]; omega
    · have := ih (fun s hs => hw s (by simp [hs])) ht (fun s hs => hc s (by simp [hs]))
      omega

structure IInv (P : List (Compact σ)) (i : Inter σ) : Prop where
  valid_iff : i.valid = true ↔ P ≠ []
  sorted : (keys i.ents).Pairwise (· < ·)
  start : P = [] → i.isEmpty = false ∧ i.ents = [] ∧ i.theta = MAX_THETA
  ne : P ≠ [] → i.isEmpty = false → i.theta = minTheta P ∧ ∀ x, x ∈ keys i.ents ↔ (common P x ∧ x < i.theta)
  em : i.isEmpty = true → i.ents = [] ∧ i.theta = MAX_THETA ∧ P ≠ [] ∧ ∀ x, ¬ common P x

theorem iinv_init : IInv ([] : List (Compact σ)) (interInit : Inter σ) := by
  refine ⟨by simp [interInit], by simp [interInit], fun _ => by simp [interInit], fun h => absurd rfl h, ?_⟩
  intro h; simp [interInit] at h

theorem common_append (P : List (Compact σ)) (sk : Compact σ) (x : Nat) :
    common (P ++ [sk]) x ↔ (common P x ∧ x ∈ keys sk.ents) := by
  unfold common
  constructor
  · intro h; exact ⟨fun s hs => h s (by simp [hs]), h sk (by simp)⟩
  · rintro ⟨h1, h2⟩ s hs
    simp only [List.mem_append, List.mem_singleton] at hs
    rcases hs with hs | rfl
    · exact h1 s hs
    · exact h2

theorem iinv_update (pol : σ → σ → σ) (sh : Nat) (P : List (Compact σ)) (i i' : Inter σ) (sk : Compact σ)
    (h : IInv P i) (hwP : ∀ s, s ∈ P → WFop s) (hw : WFop sk) (hu : interUpdate pol sh i sk = some i') :
    IInv (P ++ [sk]) i' := by
  have hne' : P ++ [sk] ≠ [] := by simp
  unfold interUpdate at hu
  by_cases hie : i.isEmpty = true
  · -- already exactly empty: input ignored
    simp only [hie, if_true, Option.some.injEq] at hu
    subst hu
    have := h.em hie
    refine ⟨by simp [(h.valid_iff).2 this.2.2.1], h.sorted, fun hc => absurd hc hne', fun _ hc => by simp [hie] at hc, ?_⟩
    intro _
    refine ⟨this.1, this.2.1, hne', ?_⟩
    intro x hc
    exact this.2.2.2 x ((common_append P sk x).1 hc).1
  · have hie' : i.isEmpty = false := by simpa using hie
    simp only [hie', Bool.false_eq_true, if_false] at hu
    split at hu
    · cases hu
    · by_cases hse : sk.isEmpty = true
      · -- an empty input makes the intersection exactly empty
        have hnil := hw.empty_nil hse
        simp only [hse, if_true, hnil, List.isEmpty_nil, Bool.and_true] at hu
        have hres : i'.isEmpty = true ∧ i'.ents = [] ∧ i'.theta = MAX_THETA ∧ i'.valid = true := by
          by_cases hv : i.valid = true
          · simp only [hv, Bool.true_and] at hu
            by_cases hee : i.ents.isEmpty = true
            · simp only [hee, if_true, Option.some.injEq] at hu
              subst hu
              exact ⟨rfl, by simpa using hee, rfl, rfl⟩
            · simp only [hee, Bool.false_eq_true, if_false, if_true, Option.some.injEq] at hu
              subst hu
              exact ⟨rfl, rfl, rfl, rfl⟩
          · have hv' : i.valid = false := by simpa using hv
            simp only [hv', Bool.false_and, Bool.false_eq_true, if_false, if_true, Option.some.injEq] at hu
            subst hu
            exact ⟨rfl, rfl, rfl, rfl⟩
        obtain ⟨h1, h2, h3, h4⟩ := hres
        refine ⟨by simp [h4], by simp [h2], fun hc => absurd hc hne', fun _ hc => by simp [h1] at hc, ?_⟩
        intro _
        refine ⟨h2, h3, hne', ?_⟩
        intro x hc
        have := ((common_append P sk x).1 hc).2
        simp [hnil] at this
      · have hse' : sk.isEmpty = false := by simpa using hse
        simp only [hse', Bool.false_eq_true, if_false] at hu
        -- the new theta
        have hθ : ∀ (P0 : P = [] ∨ P ≠ []), min i.theta sk.theta = minTheta (P ++ [sk]) := by
          intro _
          rw [minTheta_append]
          by_cases hP : P = []
          · subst hP; rw [(h.start rfl).2.2]; simp [minTheta]
          · rw [(h.ne hP hie').1]
        have hθ' := hθ (Classical.em _)
        by_cases hv : i.valid = true
        · have hP : P ≠ [] := (h.valid_iff).1 hv
          have hne := h.ne hP hie'
          simp only [hv, Bool.true_and] at hu
          by_cases hee : i.ents.isEmpty = true
          · simp only [hee, if_true, Option.some.injEq] at hu
            subst hu
            have henil : i.ents = [] := by simpa using hee
            refine ⟨by simp [hv], h.sorted, fun hc => absurd hc hne', ?_, fun hc => by simp at hc⟩
            intro _ _
            refine ⟨hθ', ?_⟩
            intro x
            simp only [henil, keys_nil, List.not_mem_nil, false_iff, not_and]
            intro hc hlt
            have h1 := ((common_append P sk x).1 hc).1
            have := (hne.2 x).2 ⟨h1, by rw [hne.1]; exact common_lt P hwP hP x h1⟩
            simp [henil] at this
          · simp only [hee, Bool.false_eq_true, if_false] at hu
            by_cases hsn : sk.ents.isEmpty = true
            · simp only [hsn, if_true, Option.some.injEq] at hu
              subst hu
              have hsnil : sk.ents = [] := by simpa using hsn
              refine ⟨by simp, by simp, fun hc => absurd hc hne', ?_, fun hc => by simp at hc⟩
              intro _ _
              refine ⟨hθ', ?_⟩
              intro x
              simp only [keys_nil, List.not_mem_nil, false_iff, not_and]
              intro hc
              have := ((common_append P sk x).1 hc).2
              simp [hsnil] at this
            · simp only [hsn, Bool.false_eq_true, if_false, Bool.not_true] at hu
              -- the intersect branch
              have hmem := mem_keys_interLoop pol (min i.theta sk.theta) i.ents sk.ordered sk.ents hw.ord_sorted
              have hnd : (keys (interLoop pol (min i.theta sk.theta) i.ents sk.ordered sk.ents)).Nodup :=
                hw.nodup.sublist (interLoop_sublist _ _ _ _ _)
              by_cases hm : (interLoop pol (min i.theta sk.theta) i.ents sk.ordered sk.ents).isEmpty = true
              · simp only [hm, if_true, Option.some.injEq] at hu
                have hmnil : interLoop pol (min i.theta sk.theta) i.ents sk.ordered sk.ents = [] := by simpa using hm
                -- no common element below the new theta
                have hnone : ∀ x, common (P ++ [sk]) x → False := by
                  intro x hc
                  have hcp := (common_append P sk x).1 hc
                  have hxlt : x < minTheta (P ++ [sk]) := common_lt _ (by
                    intro s hs
                    simp only [List.mem_append, List.mem_singleton] at hs
                    rcases hs with hs | rfl
                    · exact hwP s hs
                    · exact hw) hne' x hc
                  have hxin : x ∈ keys i.ents := (hne.2 x).2 ⟨hcp.1, by rw [hne.1]; exact common_lt P hwP hP x hcp.1⟩
                  have := (hmem x).2 ⟨hcp.2, by rw [hθ']; exact hxlt, hxin⟩
                  simp [hmnil] at this
                subst hu
                refine ⟨by simp [hv], by simp, fun hc => absurd hc hne', ?_, ?_⟩
                · intro _ hemp
                  refine ⟨hθ', ?_⟩
                  intro x
                  simp only [keys_nil, List.not_mem_nil, false_iff, not_and]
                  intro hc; exact absurd (hnone x hc) id
                · intro hemp
                  simp only [hie', Bool.false_or, beq_iff_eq] at hemp
                  exact ⟨rfl, hemp, hne', fun x hc => hnone x hc⟩
              · simp only [hm, Bool.false_eq_true, if_false, Option.some.injEq] at hu
                subst hu
                have hsp := sortKV_spec _ hnd
                refine ⟨by simp [hv], hsp.1, fun hc => absurd hc hne', ?_, fun hc => by simp [hie'] at hc⟩
                intro _ _
                refine ⟨hθ', ?_⟩
                intro x
                rw [hsp.2, hmem, common_append]
                constructor
                · rintro ⟨h1, h2, h3⟩
                  exact ⟨⟨((hne.2 x).1 h3).1, h1⟩, h2⟩
                · rintro ⟨⟨h1, h2⟩, h3⟩
                  exact ⟨h2, h3, (hne.2 x).2 ⟨h1, by rw [hne.1]; exact common_lt P hwP hP x h1⟩⟩
        · -- first update: copy
          have hv' : i.valid = false := by simpa using hv
          have hP : P = [] := by
            apply Classical.byContradiction
            intro hc; exact hv ((h.valid_iff).2 hc)
          simp only [hv', Bool.false_and, Bool.false_eq_true, if_false, Bool.not_false, if_true] at hu
          by_cases hsn : sk.ents.isEmpty = true
          · simp only [hsn, if_true, Option.some.injEq] at hu
            subst hu
            have hsnil : sk.ents = [] := by simpa using hsn
            refine ⟨by simp, by simp, fun hc => absurd hc hne', ?_, fun hc => by simp at hc⟩
            intro _ _
            refine ⟨hθ', ?_⟩
            intro x
            simp only [keys_nil, List.not_mem_nil, false_iff, not_and]
            intro hc
            have := ((common_append P sk x).1 hc).2
            simp [hsnil] at this
          · simp only [hsn, Bool.false_eq_true, if_false] at hu
            split at hu
            · cases hu
            · simp only [Option.some.injEq] at hu
              subst hu
              have hsp := sortKV_spec sk.ents hw.nodup
              refine ⟨by simp, hsp.1, fun hc => absurd hc hne', ?_, fun hc => by simp at hc⟩
              intro _ _
              refine ⟨hθ', ?_⟩
              intro x
              rw [hsp.2, common_append]
              subst hP
              constructor
              · intro hx
                refine ⟨⟨fun s hs => by simp at hs, hx⟩, ?_⟩
                have := hw.lt_theta x hx
                have := (h.start rfl).2.2
                have := hw.theta_le
                simp only; omega
              · rintro ⟨⟨_, h2⟩, _⟩; exact h2

end DS.Theta

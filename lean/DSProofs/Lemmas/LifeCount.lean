/- C19 helper: counting the indices below `n` that satisfy a predicate (used for "num_entries_ = number of
   non-empty slots"). Core Lean only. -/
namespace DS.Life

def cnt (f : Nat → Bool) : Nat → Nat
  | 0 => 0
  | n + 1 => cnt f n + (if f n then 1 else 0)

theorem cnt_le (f : Nat → Bool) (n : Nat) : cnt f n ≤ n := by
  induction n with
  | zero => simp [cnt]
  | succ n ih => simp only [cnt]; split <;> omega

theorem cnt_congr {f g : Nat → Bool} {n : Nat} (h : ∀ i, i < n → f i = g i) : cnt f n = cnt g n := by
  induction n with
  | zero => rfl
  | succ n ih =>
    simp only [cnt]
    rw [ih (fun i hi => h i (by omega)), h n (by omega)]

theorem cnt_mono (f : Nat → Bool) {m n : Nat} (h : m ≤ n) : cnt f m ≤ cnt f n := by
  induction n with
  | zero => have : m = 0 := by omega
            subst this; exact Nat.le_refl _
  | succ n ih =>
    by_cases hm : m = n + 1
    · subst hm; exact Nat.le_refl _
    · have := ih (by omega)
      simp only [cnt]; omega

/-- all true on `[lo, hi)` -/
theorem cnt_all_true {f : Nat → Bool} {lo hi : Nat} (hle : lo ≤ hi) (h : ∀ i, lo ≤ i → i < hi → f i = true) :
    cnt f hi = cnt f lo + (hi - lo) := by
  induction hi with
  | zero => have : lo = 0 := by omega
            subst this; simp
  | succ n ih =>
    by_cases hlo : lo = n + 1
    · subst hlo; simp
    · have := ih (by omega) (fun i h1 h2 => h i h1 (by omega))
      have hn := h n (by omega) (by omega)
      simp only [cnt, hn, if_true]
      omega

/-- all false on `[lo, hi)` -/
theorem cnt_all_false {f : Nat → Bool} {lo hi : Nat} (hle : lo ≤ hi) (h : ∀ i, lo ≤ i → i < hi → f i = false) :
    cnt f hi = cnt f lo := by
  induction hi with
  | zero => have : lo = 0 := by omega
            subst this; rfl
  | succ n ih =>
    by_cases hlo : lo = n + 1
    · subst hlo; rfl
    · have := ih (by omega) (fun i h1 h2 => h i h1 (by omega))
      simp only [cnt, h n (by omega) (by omega)]
      simpa using this

/-- `g` = `f` except at `k < n` where it flips false → true -/
theorem cnt_set_true {f g : Nat → Bool} {n k : Nat} (hk : k < n) (hf : f k = false) (hg : g k = true)
    (h : ∀ i, i ≠ k → g i = f i) : cnt g n = cnt f n + 1 := by
  induction n with
  | zero => omega
  | succ n ih =>
    simp only [cnt]
    by_cases hkn : k = n
    · subst hkn
      rw [cnt_congr (f := g) (g := f) (fun i hi => h i (by omega)), hf, hg]
      simp
    · rw [ih (by omega), h n (fun e => hkn e.symm)]
      omega

/-- `g` = `f` except at `k < n` where it flips true → false -/
theorem cnt_set_false {f g : Nat → Bool} {n k : Nat} (hk : k < n) (hf : f k = true) (hg : g k = false)
    (h : ∀ i, i ≠ k → g i = f i) : cnt g n + 1 = cnt f n := by
  have := cnt_set_true (f := g) (g := f) hk hg hf (fun i hi => (h i hi).symm)
  omega

theorem cnt_zero_of_all_false {f : Nat → Bool} {n : Nat} (h : ∀ i, i < n → f i = false) : cnt f n = 0 := by
  have := cnt_all_false (f := f) (lo := 0) (hi := n) (by omega) (fun i _ hi => h i hi)
  simpa [cnt] using this

/-- if the count over `[0, n)` equals the count over `[0, m)` (m ≤ n) then nothing is true on `[m, n)` -/
theorem cnt_eq_imp_false {f : Nat → Bool} {m n : Nat} (hmn : m ≤ n) (h : cnt f n = cnt f m) :
    ∀ i, m ≤ i → i < n → f i = false := by
  induction n with
  | zero => intro i _ hi; omega
  | succ n ih =>
    intro i hmi hin
    by_cases hm : m = n + 1
    · omega
    · have hle : m ≤ n := by omega
      have h1 := cnt_mono f hle
      simp only [cnt] at h
      by_cases hfn : f n = true
      · simp [hfn] at h; omega
      · have hfn' : f n = false := by simpa using hfn
        simp [hfn'] at h
        by_cases hi : i = n
        · subst hi; exact hfn'
        · exact ih hle h i hmi (by omega)

end DS.Life

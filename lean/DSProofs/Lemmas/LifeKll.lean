/- C19: KLL sketch, value semantics and allocator discipline – the contracts consumed by the world-level proof
   (`ctor_contract`, `dtor_contract`, `copyCtor_contract`, `moveCtor_contract`, `copyAssign_contract`,
   `moveAssign_contract`, `selfMoveAssign_contract`, `update_contract`, `query_contract`, `serialize_contract`,
   `roundTrip_contract`, `merge_contract`, and the definitions `owned`, `Params.OK`, `Inv`, `Usable`).
   Parts: LifeKllAux (generic view-level steps), A (definitions, locality, range loops), W (weights), B (ctor, dtor),
   C (copy/move ctor), D (assignments), E (serialize, query), F (round trip), G (halve / merge in place),
   H–J (compress_while_updating, internal_update), K (update), L–N (merge, level zero and min/max),
   O–R (populate_work_arrays, general_compress), S (merge_higher_levels, merge_contract). -/
import DSProofs.Lemmas.LifeKllT
import DSProofs.Lemmas.LifeKllS
namespace DS.Life.Kll

/-- the side conditions hold for the values of the headers (DEFAULT_M = 8, MIN_K = 8, MAX_K = 65535) -/
theorem Params.OK_default (rs : Bool) : Params.OK ⟨8, 8, 65535, rs⟩ := by unfold Params.OK; simp only; decide

end DS.Life.Kll

/- C19: KLL sketch, value semantics and allocator discipline – the contracts consumed by the world-level proof.
   Parts: LifeKllAux (generic steps), A (definitions, locality), B (ctor, dtor), C (copy/move ctor),
   D (assignments), E (serialize, query), F (round trip), G–J (compaction machinery), K (update), L… (merge). -/
import DSProofs.Lemmas.LifeKllS

/- VarOpt union `get_result`: `decrease_k_by_1` keeps the (counter-free) invariant of a gadget copy and the multiset
   of everything it holds; the three coercers conserve n and total weight and leave no marks.  Rat instance. -/
import DSProofs.Lemmas.VarOptUnion
namespace DS.VarOpt
open DS

theorem isHeap_nil : IsHeap ([] : List E) := by
  intro i _ hil _; simp at hil

theorem countMarks_dropLast_getLast (H : List E) (p : E) (h : H.getLast? = some p) :
    countMarks H = countMarks H.dropLast + (if p.mark then 1 else 0) ∧ H.Perm (p :: H.dropLast) ∧ H.length = H.dropLast.length + 1 := by
  have hne : H ≠ [] := by intro h'; rw [h'] at h; simp at h
  have hs := List.dropLast_append_getLast hne
  have hl : H.getLast hne = p := by
    have := List.getLast?_eq_some_getLast hne
    rw [this] at h; exact Option.some.inj h
  rw [hl] at hs
  refine ⟨?_, ?_, ?_⟩
  · conv_lhs => rw [← hs]
    exact countMarks_append_single _ _
  · conv_lhs => rw [← hs]
    exact List.perm_append_comm
  · conv_lhs => rw [← hs]
    simp

theorem mem_of_getLast? {α : Type} {l : List α} {a : α} (h : l.getLast? = some a) : a ∈ l :=
  List.mem_of_getLast? h

theorem beq_zero_false {n : Nat} (h : 0 < n) : (n == 0) = false := by simp; omega
theorem beq_zero_true {n : Nat} (h : n = 0) : (n == 0) = true := by simp [h]
theorem decide_pos_true {n : Nat} (h : 0 < n) : decide (n > 0) = true := by simp [h]
theorem decide_pos_false {n : Nat} (h : n = 0) : decide (n > 0) = false := by simp [h]

theorem decreaseKBy1_spec (T : Tunables) (s : Sk Rat) (ins L : List E) (hinv : Inv0 s ins L) (hg : s.gadget = true) (hk : 2 ≤ s.k)
    (hn : 1 ≤ s.n) (ds : Draws Rat) :
    ∃ s' ds' ins' L', decreaseKBy1 T s ds = some (s', ds') ∧ Inv0 s' ins' L' ∧ ins'.Perm ins ∧
      s'.k = s.k - 1 ∧ s'.gadget = true ∧ s'.n = s.n := by
  unfold decreaseKBy1
  have hk1 : ¬ s.k ≤ 1 := by omega
  simp only [hk1, if_false]
  by_cases hH : s.H = []
  · by_cases hR : s.R = []
    · -- empty
      have hh0 : s.H.length = 0 := by rw [hH]; rfl
      have hr0 : s.R.length = 0 := by rw [hR]; rfl
      simp only [beq_zero_true hh0, beq_zero_true hr0, Bool.and_self, if_true]
      obtain ⟨hL, _, hW0⟩ := hinv.warm hR
      refine ⟨_, ds, ins, L, rfl, ?_, List.Perm.refl _, rfl, hg, rfl⟩
      exact { kpos := by show 1 ≤ s.k - 1; omega, mnil := hinv.mnil, fresh := hinv.fresh, perm := hinv.perm, pos := hinv.pos,
              marks := hinv.marks, warm := fun _ => ⟨hL, by show s.H.length ≤ s.k - 1; rw [hH]; simp, hW0⟩,
              est := fun h => absurd hR h }
    · -- pure reservoir mode
      have hest := hinv.est hR
      have hrpos : 0 < s.R.length := length_pos_of_ne_nil hR
      have hcnt := hest.cnt
      rw [hH] at hcnt
      simp only [List.length_nil, Nat.zero_add] at hcnt
      have hh0 : s.H.length = 0 := by rw [hH]; rfl
      have hc1 : (s.H.length == 0 && s.R.length == 0) = false := by simp [beq_zero_false hrpos]
      have hc2 : (decide (s.H.length > 0) && s.R.length == 0) = false := by simp [decide_pos_false hh0]
      have hc3 : (decide (s.H.length > 0) && decide (s.R.length > 0)) = false := by simp [decide_pos_false hh0]
      have hc4 : ¬ s.R.length < 2 := by omega
      simp only [hc1, hc2, hc3, hc4, Bool.false_eq_true, if_false]
      obtain ⟨rl, hrl⟩ : ∃ rl, s.R.getLast? = some rl := by
        cases h : s.R.getLast? with
        | none => simp at h; exact absurd h hR
        | some x => exact ⟨x, rfl⟩
      rw [hrl]
      generalize nextInt s.R.length ds = p
      obtain ⟨d, ds1⟩ := p
      have hlen : ((s.R.set d rl).dropLast).length = s.R.length - 1 := by simp
      have hsub : ∀ x ∈ (s.R.set d rl).dropLast, x ∈ s.R := by
        intro x hx
        rcases List.mem_or_eq_of_mem_set (List.mem_of_mem_dropLast hx) with h | h
        · exact h
        · rw [h]; exact mem_of_getLast? hrl
      have hne : (s.R.set d rl).dropLast ≠ [] := by
        intro h; rw [h] at hlen; simp at hlen; omega
      have hcast : (((s.R.length - 1 : Nat)) : Rat) = (s.R.length : Rat) - 1 := by
        rw [Nat.cast_sub (by omega)]; simp
      refine ⟨_, ds1, ins, L, rfl, ?_, List.Perm.refl _, rfl, hg, rfl⟩
      refine { kpos := by show 1 ≤ s.k - 1; omega, mnil := hinv.mnil, fresh := hinv.fresh, perm := hinv.perm, pos := hinv.pos,
               marks := hinv.marks, warm := fun h => absurd h hne, est := fun _ => ?_ }
      refine { cnt := ?_, heap := hest.heap, wtR := hest.wtR, rItems := fun x hx => hest.rItems x (hsub x hx),
               rLen := ?_, lLight := ?_, hHeavy := ?_ }
      · show s.H.length + ((s.R.set d rl).dropLast).length = s.k - 1
        rw [hlen, hH]; simp; omega
      · show ((s.R.set d rl).dropLast).length < L.length
        have := hest.rLen; rw [hlen]; omega
      · intro e he
        show e.wt * ((((s.R.set d rl).dropLast).length : Nat) : Rat) ≤ s.totalWtR
        rw [hlen, hcast]
        have h1 := hest.lLight e he
        have h2 : 0 < e.wt := hinv.pos e (hinv.perm.symm.subset (List.mem_append_right _ he))
        nlinarith
      · intro e he
        rw [hH] at he; simp at he
  · have hhpos : 0 < s.H.length := length_pos_of_ne_nil hH
    by_cases hR : s.R = []
    · -- exact mode with data
      obtain ⟨hL, hhk, hW0⟩ := hinv.warm hR
      subst hL
      have hr0 : s.R.length = 0 := by rw [hR]; rfl
      have hc1 : (s.H.length == 0 && s.R.length == 0) = false := by simp [beq_zero_false hhpos]
      have hc2 : (decide (s.H.length > 0) && s.R.length == 0) = true := by simp [decide_pos_true hhpos, beq_zero_true hr0]
      simp only [hc1, hc2, Bool.false_eq_true, if_false, if_true]
      by_cases htr : s.H.length > s.k - 1
      · simp only [htr, if_true]
        have hpermH : ins.Perm s.H := by simpa using hinv.perm
        obtain ⟨s', ds', L', ht, hinv', _, hk', hg', _, hn'⟩ := transition_spec { s with k := s.k - 1 } ins ds
          (by show 1 ≤ s.k - 1; omega) hinv.mnil hR hinv.fresh (by show s.H.length = s.k - 1 + 1; omega) hpermH hinv.pos hinv.marks
        exact ⟨s', ds', ins, L', by rw [ht], hinv', List.Perm.refl _, hk', by rw [hg']; exact hg, hn'⟩
      · simp only [htr, if_false]
        refine ⟨_, ds, ins, [], rfl, ?_, List.Perm.refl _, rfl, hg, rfl⟩
        exact { kpos := by show 1 ≤ s.k - 1; omega, mnil := hinv.mnil, fresh := hinv.fresh, perm := hinv.perm, pos := hinv.pos,
                marks := hinv.marks, warm := fun _ => ⟨rfl, by show s.H.length ≤ s.k - 1; omega, hW0⟩,
                est := fun h => absurd hR h }
    · -- estimation mode with some exact samples: pull the rightmost H item, reduce k, re-insert it
      have hest := hinv.est hR
      have hrpos : 0 < s.R.length := length_pos_of_ne_nil hR
      have hc1 : (s.H.length == 0 && s.R.length == 0) = false := by simp [beq_zero_false hhpos]
      have hc2 : (decide (s.H.length > 0) && s.R.length == 0) = false := by simp [beq_zero_false hrpos]
      have hc3 : (decide (s.H.length > 0) && decide (s.R.length > 0)) = true := by simp [decide_pos_true hhpos, decide_pos_true hrpos]
      have hc4 : (s.H.length + s.R.length != s.k) = false := by have := hest.cnt; simp; omega
      simp only [hc1, hc2, hc3, hc4, Bool.false_eq_true, if_false, if_true]
      obtain ⟨pulled, hpl⟩ : ∃ p, s.H.getLast? = some p := by
        cases h : s.H.getLast? with
        | none => simp at h; exact absurd h hH
        | some x => exact ⟨x, rfl⟩
      obtain ⟨rl, hrl⟩ : ∃ rl, s.R.getLast? = some rl := by
        cases h : s.R.getLast? with
        | none => simp at h; exact absurd h hR
        | some x => exact ⟨x, rfl⟩
      rw [hpl, hrl]
      simp only []
      obtain ⟨hcm, hpermH, hlenH⟩ := countMarks_dropLast_getLast s.H pulled hpl
      have hRlen : (rl :: s.R.dropLast).length = s.R.length := by simp; omega
      have hRsub : ∀ x ∈ rl :: s.R.dropLast, x ∈ s.R := by
        intro x hx
        rcases List.mem_cons.mp hx with rfl | h
        · exact mem_of_getLast? hrl
        · exact List.mem_of_mem_dropLast h
      have hHsub : ∀ e ∈ s.H.dropLast, e ∈ s.H := fun e he => List.mem_of_mem_dropLast he
      have hpulled_mem : pulled ∈ s.H := mem_of_getLast? hpl
      have hpulled_ins : pulled ∈ ins := hinv.perm.symm.subset (List.mem_append_left _ hpulled_mem)
      -- the state handed to update()
      have hinv1 : Inv0
          { s with H := s.H.dropLast, R := rl :: s.R.dropLast,
                   numMarksInH := if pulled.mark then s.numMarksInH - 1 else s.numMarksInH,
                   k := s.k - 1, n := s.n - 1 } (s.H.dropLast ++ L) L := by
        refine { kpos := by show 1 ≤ s.k - 1; omega, mnil := hinv.mnil, fresh := hinv.fresh, perm := List.Perm.refl _,
                 pos := ?_, marks := ?_, warm := fun h => absurd h (by simp), est := fun _ => ?_ }
        · intro e he
          rcases List.mem_append.mp he with h | h
          · exact hinv.pos e (hinv.perm.symm.subset (List.mem_append_left _ (hHsub e h)))
          · exact hinv.pos e (hinv.perm.symm.subset (List.mem_append_right _ h))
        · constructor
          · show (if pulled.mark then s.numMarksInH - 1 else s.numMarksInH) = countMarks s.H.dropLast
            rw [hinv.marks.1, hcm]
            by_cases hm : pulled.mark <;> simp [hm]
          · intro hgf; rw [hg] at hgf; exact absurd hgf (by simp)
        · refine { cnt := ?_, heap := heapFrom_dropLast hest.heap, wtR := hest.wtR,
                   rItems := fun x hx => hest.rItems x (hRsub x hx), rLen := ?_, lLight := ?_, hHeavy := ?_ }
          · show s.H.dropLast.length + (rl :: s.R.dropLast).length = s.k - 1
            rw [hRlen]; have := hest.cnt; omega
          · show (rl :: s.R.dropLast).length < L.length
            rw [hRlen]; exact hest.rLen
          · intro e he
            show e.wt * (((rl :: s.R.dropLast).length : Nat) : Rat) ≤ s.totalWtR
            rw [hRlen]; exact hest.lLight e he
          · intro e he
            show s.totalWtR ≤ e.wt * (((rl :: s.R.dropLast).length : Nat) : Rat)
            rw [hRlen]; exact hest.hHeavy e (hHsub e he)
      obtain ⟨s', ds', L', hu, hinv', hk', hg', _, hn', _⟩ := update0_spec T _ _ L hinv1 pulled.item pulled.wt pulled.mark ds
        (hinv.pos pulled hpulled_ins) (fun _ => hg)
      have hentry : mkEntry
          { s with H := s.H.dropLast, R := rl :: s.R.dropLast,
                   numMarksInH := if pulled.mark then s.numMarksInH - 1 else s.numMarksInH,
                   k := s.k - 1, n := s.n - 1 } pulled.item pulled.wt pulled.mark = pulled := by
        cases pulled; simp [mkEntry, storedMark, hg]
      rw [hentry] at hinv'
      refine ⟨s', ds', _, L', hu, hinv', ?_, hk', by rw [hg']; exact hg, ?_⟩
      · refine List.Perm.trans ?_ hinv.perm.symm
        rw [← List.cons_append]
        exact List.Perm.append_right _ hpermH.symm
      · rw [hn']; show s.n - 1 + 1 = s.n; omega

-- ------------------------------------------------------------------ the result of get_result

/-- total weight represented by a sketch: `Σ_H w (+ total_wt_r_ in estimation mode)` -/
def skWeight (s : Sk Rat) : Rat := sumW s.H + (if s.R = [] then 0 else s.totalWtR)

theorem Inv0.skWeight_eq {s : Sk Rat} {ins L : List E} (h : Inv0 s ins L) : skWeight s = sumW ins := by
  have hp := sumW_perm h.perm
  rw [sumW_append] at hp
  unfold skWeight
  by_cases hr : s.R = []
  · rw [if_pos hr, (h.warm hr).1] at *
    simp [sumW] at hp ⊢; exact hp.symm
  · rw [if_neg hr, (h.est hr).wtR]; exact hp.symm

theorem Inv0.size_le {s : Sk Rat} {ins L : List E} (h : Inv0 s ins L) : s.H.length + s.R.length ≤ s.k := by
  by_cases hr : s.R = []
  · rw [hr]; simpa using (h.warm hr).2.1
  · exact le_of_eq (h.est hr).cnt

/-- what the property asks of a union result -/
structure ResOK (res : Sk Rat) (n : Nat) (tot : Rat) (maxK : Nat) : Prop where
  n_eq : res.n = n
  weight : skWeight res = tot
  size : res.H.length + res.R.length ≤ res.k
  kLe : res.k ≤ maxK
  notGadget : res.gadget = false
  noMarkCount : res.numMarksInH = 0
  noMarks : ∀ e ∈ res.H, e.mark = false

def clearMarks (H : List E) : List E := H.map (fun e => { e with mark := false })

theorem sumW_clearMarks (H : List E) : sumW (clearMarks H) = sumW H := by
  induction H with
  | nil => rfl
  | cons e t ih => simp [clearMarks, sumW] at ih ⊢; rw [ih]

theorem clearMarks_length (H : List E) : (clearMarks H).length = H.length := by simp [clearMarks]

theorem clearMarks_noMarks (H : List E) : ∀ e ∈ clearMarks H, e.mark = false := by
  intro e he
  obtain ⟨x, _, rfl⟩ := List.mem_map.mp he
  rfl

/-- a valid estimation-mode state: H is a min-heap and no H item is lighter than tau -/
def WellFormed (s : Sk Rat) : Prop :=
  s.R ≠ [] → IsHeap s.H ∧ ∀ e ∈ s.H, s.totalWtR / (s.R.length : Rat) ≤ e.wt

theorem wtAt_clearMarks (H : List E) (i : Nat) : wtAt (clearMarks H) i = wtAt H i := by
  unfold wtAt clearMarks
  rw [List.getElem?_map]
  cases H[i]? <;> rfl

theorem isHeap_clearMarks {H : List E} (h : IsHeap H) : IsHeap (clearMarks H) := by
  intro i hi0 hil hp
  rw [wtAt_clearMarks, wtAt_clearMarks]
  rw [clearMarks_length] at hil
  exact h i hi0 hil hp

theorem Inv0.wellFormed_clear {s : Sk Rat} {ins L : List E} (h : Inv0 s ins L) (res : Sk Rat)
    (hH : res.H = clearMarks s.H) (hR : res.R = s.R) (hW : res.totalWtR = s.totalWtR) : WellFormed res := by
  intro hr
  rw [hR] at hr
  have he := h.est hr
  rw [hH, hR, hW]
  refine ⟨isHeap_clearMarks he.heap, ?_⟩
  intro e hem
  obtain ⟨x, hx, rfl⟩ := List.mem_map.mp hem
  exact he.tau_le hr (e := x) hx

theorem migrateLoop_spec (T : Tunables) (fuel : Nat) : ∀ (s : Sk Rat) (ins L : List E) (ds : Draws Rat) (s' : Sk Rat) (ds' : Draws Rat),
    Inv0 s ins L → s.gadget = true → 1 ≤ s.n → migrateLoop T fuel s ds = some (s', ds') →
    ∃ ins' L', Inv0 s' ins' L' ∧ ins'.Perm ins ∧ s'.numMarksInH = 0 ∧ s'.k ≤ s.k ∧ s'.n = s.n := by
  induction fuel with
  | zero =>
    intro s ins L ds s' ds' hinv _ _ h
    simp only [migrateLoop] at h
    split at h
    · exact absurd h (by simp)
    · rename_i hm
      injection h with h; injection h with h1 h2
      subst h1
      exact ⟨ins, L, hinv, List.Perm.refl _, by omega, le_refl _, rfl⟩
  | succ f ih =>
    intro s ins L ds s' ds' hinv hg hn h
    simp only [migrateLoop] at h
    split at h
    · by_cases hk : 2 ≤ s.k
      · obtain ⟨s1, ds1, ins1, L1, hd, hinv1, hperm1, hk1, hg1, hn1⟩ := decreaseKBy1_spec T s ins L hinv hg hk hn ds
        rw [hd] at h
        simp only [] at h
        obtain ⟨ins2, L2, hinv2, hperm2, hm2, hk2, hn2⟩ := ih s1 ins1 L1 ds1 s' ds' hinv1 hg1 (by omega) h
        exact ⟨ins2, L2, hinv2, hperm2.trans hperm1, hm2, by omega, by rw [hn2, hn1]⟩
      · have : decreaseKBy1 T s ds = none := by
          unfold decreaseKBy1
          simp only [show s.k ≤ 1 by omega, if_true]
        rw [this] at h
        exact absurd h (by simp)
    · rename_i hm
      injection h with h; injection h with h1 h2
      subst h1
      exact ⟨ins, L, hinv, List.Perm.refl _, by omega, le_refl _, rfl⟩

theorem sumW_filter_split (H : List E) : sumW (H.filter (·.mark)) + sumW (H.filter (fun e => !e.mark)) = sumW H := by
  induction H with
  | nil => simp [sumW]
  | cons e t ih =>
    by_cases hm : e.mark <;> simp [List.filter, hm, sumW] <;> linarith

theorem length_filter_split (H : List (Entry Rat)) :
    (H.filter (fun e : Entry Rat => e.mark)).length + (H.filter (fun e : Entry Rat => !e.mark)).length = H.length := by
  induction H with
  | nil => rfl
  | cons e t ih =>
    by_cases hm : e.mark <;> simp [List.filter, hm] <;> omega

theorem foldl_add_eq' (l : List E) (acc : Rat) : l.foldl (fun a e => a + e.wt) acc = acc + sumW l := by
  induction l generalizing acc with
  | nil => simp [sumW]
  | cons e t ih => simp only [List.foldl_cons, sumW]; rw [ih]; ring

theorem foldl_add_eq (l : List E) (acc : Rat) : l.foldl (fun a e => Num.add a e.wt) acc = acc + sumW l := by
  simpa using foldl_add_eq' l acc

theorem migrateFrom_spec (T : Tunables) (g1 : Sk Rat) (insG LG : List E) (tot : Rat) (cnt maxK : Nat)
    (hinv1 : Inv0 g1 insG LG) (hgg1 : g1.gadget = true) (hn1 : g1.n = cnt) (hk1 : g1.k ≤ maxK) (hcnt1 : 1 ≤ cnt)
    (htot : sumW insG = tot) (ds : Draws Rat) (res : Sk Rat) (ds' : Draws Rat)
    (h : migrateFrom T g1 ds = some (res, ds')) : ResOK res cnt tot maxK ∧ WellFormed res := by
  unfold migrateFrom at h
  by_cases hk2 : 2 ≤ g1.k
  · obtain ⟨g2, ds2, ins2, L2, hd, hinv2, hperm2, hk2', hg2, hn2⟩ :=
      decreaseKBy1_spec T g1 insG LG hinv1 hgg1 hk2 (by rw [hn1]; exact hcnt1) ds
    rw [hd] at h
    simp only [] at h
    by_cases hz : tauIsZero g2 = true
    · rw [if_pos hz] at h; exact absurd h (by simp)
    · rw [if_neg hz] at h
      cases hml : migrateLoop T g2.k g2 ds2 with
      | none => rw [hml] at h; exact absurd h (by simp)
      | some p =>
        obtain ⟨g3, ds3⟩ := p
        rw [hml] at h
        simp only [] at h
        injection h with h; injection h with h1 h2
        subst h1
        obtain ⟨ins3, L3, hinv3, hperm3, hm3, hk3, hn3⟩ :=
          migrateLoop_spec T g2.k g2 ins2 L2 ds2 g3 ds3 hinv2 hg2 (by rw [hn2, hn1]; exact hcnt1) hml
        refine ⟨?_, hinv3.wellFormed_clear _ rfl rfl rfl⟩
        refine { n_eq := ?_, weight := ?_, size := ?_, kLe := ?_, notGadget := rfl, noMarkCount := rfl,
                 noMarks := clearMarks_noMarks _ }
        · show g3.n = cnt
          rw [hn3, hn2, hn1]
        · have := hinv3.skWeight_eq
          unfold skWeight at this ⊢
          show sumW (clearMarks g3.H) + (if g3.R = [] then 0 else g3.totalWtR) = tot
          rw [sumW_clearMarks, this, sumW_perm (hperm3.trans hperm2), htot]
        · show (clearMarks g3.H).length + g3.R.length ≤ g3.k
          rw [clearMarks_length]; exact hinv3.size_le
        · show g3.k ≤ maxK
          omega
  · have : decreaseKBy1 T g1 ds = none := by
      unfold decreaseKBy1
      simp only [show g1.k ≤ 1 by omega, if_true]
    rw [this] at h
    exact absurd h (by simp)

/-- the H region of a mark-moving result: the unmarked gadget entries, re-heapified in the repaired shape -/
def unmarkedOf (g : Sk Rat) : List (Entry Rat) := g.H.filter (fun e : Entry Rat => !e.mark)

def mmH (T : Tunables) (g : Sk Rat) : List E :=
  if T.coercerHeapify then convertToHeap (clearMarks (unmarkedOf g)) else clearMarks (unmarkedOf g)

theorem pseudoExact_inv {T : Tunables} {u : Un Rat} {sk r : Sk Rat} (h : pseudoExact T u sk = some (some r)) :
    u.gadget.R = [] ∧ 0 < u.gadget.numMarksInH ∧ u.gadget.numMarksInH = u.outerTauDenom ∧
    existUnmarkedLighter u.gadget (if T.coercerOuterTau then some u.outerTau else u.gadget.tau) = false ∧
    markMovingCoercer T u sk = some r := by
  unfold pseudoExact at h
  simp only [] at h
  by_cases hc : (u.gadget.R.length == 0 && decide (u.gadget.numMarksInH > 0) && u.gadget.numMarksInH == u.outerTauDenom) = true
  · rw [hc] at h
    simp only [Bool.not_true, Bool.false_eq_true, if_false] at h
    by_cases he : existUnmarkedLighter u.gadget (if T.coercerOuterTau then some u.outerTau else u.gadget.tau) = true
    · rw [if_pos he] at h; exact absurd h (by simp)
    · rw [if_neg he] at h
      injection h with h
      simp only [Bool.and_eq_true, beq_iff_eq, decide_eq_true_eq] at hc
      exact ⟨List.eq_nil_of_length_eq_zero hc.1.1, hc.1.2, hc.2, by simpa using he, h⟩
  · have hc' : (u.gadget.R.length == 0 && decide (u.gadget.numMarksInH > 0) && u.gadget.numMarksInH == u.outerTauDenom) = false := by
      simpa using hc
    rw [hc'] at h
    simp at h

theorem markMoving_inv {T : Tunables} {u : Un Rat} {sk r : Sk Rat} (h : markMovingCoercer T u sk = some r) :
    r.k = u.gadget.H.length + u.gadget.R.length ∧ r.n = u.n ∧ r.H = mmH T u.gadget ∧
    r.R = (u.gadget.R ++ (u.gadget.H.filter (fun e => e.mark)).map (fun e => e.item)).reverse ∧
    r.totalWtR = u.gadget.totalWtR + sumW (u.gadget.H.filter (fun e => e.mark)) ∧ r.gadget = false ∧ r.numMarksInH = 0 ∧
    r.M = [] := by
  unfold markMovingCoercer at h
  simp only [] at h
  repeat' split at h
  all_goals first
    | (injection h with h; subst h; simp [mmH, unmarkedOf, clearMarks, foldl_add_eq', *])
    | injection h

theorem markMoving_resOK (T : Tunables) (u : Un Rat) (insG LG : List E) (tot : Rat) (cnt : Nat)
    (hu : UInv u insG LG tot cnt) (hR : u.gadget.R = []) (sk r : Sk Rat)
    (h : markMovingCoercer T u sk = some r) : ResOK r cnt tot u.maxK := by
  have hg0 := hu.ginv.toInv0
  obtain ⟨hk, hn, hH, hRr, hW, hgad, hnm, _⟩ := markMoving_inv h
  obtain ⟨_, hhk, hW0⟩ := hg0.warm hR
  have hmmperm : (mmH T u.gadget).Perm (clearMarks (unmarkedOf u.gadget)) := by
    unfold mmH; split
    · exact convertToHeap_perm _
    · exact List.Perm.refl _
  have hsplit := sumW_filter_split u.gadget.H
  have hlsplit := length_filter_split u.gadget.H
  refine { n_eq := by rw [hn, hu.n_eq], weight := ?_, size := ?_, kLe := ?_, notGadget := hgad, noMarkCount := hnm, noMarks := ?_ }
  · have hw := hg0.skWeight_eq
    unfold skWeight at hw ⊢
    rw [if_pos hR, add_zero] at hw
    rw [hH, sumW_perm hmmperm, sumW_clearMarks, hRr, hW, hW0, hR]
    unfold unmarkedOf
    by_cases hmk : u.gadget.H.filter (fun e : Entry Rat => e.mark) = []
    · rw [hmk] at hsplit ⊢
      simp [sumW] at hsplit ⊢
      rw [hsplit, hw, hu.tot_eq]
    · have : ¬ ([] ++ List.map (fun e : Entry Rat => e.item) (List.filter (fun e : Entry Rat => e.mark) u.gadget.H)).reverse = [] := by
        simpa using hmk
      rw [if_neg this]
      linarith [hu.tot_eq]
  · rw [hH, hmmperm.length_eq, clearMarks_length, hRr, hk, hR]
    unfold unmarkedOf
    simp only [List.nil_append, List.length_reverse, List.length_map, List.length_nil, Nat.add_zero]
    omega
  · rw [hk, hR, ← hu.kEq]; simpa using hhk
  · intro e he
    rw [hH] at he
    exact clearMarks_noMarks _ e (hmmperm.subset he)

theorem getResult_spec (T : Tunables) (u : Un Rat) (insG LG : List E) (tot : Rat) (cnt : Nat)
    (hu : UInv u insG LG tot cnt) (ds : Draws Rat) (res : Sk Rat) (ds' : Draws Rat)
    (h : u.getResult T ds = some (res, ds')) :
    ResOK res cnt tot u.maxK ∧ (pseudoExact T u { u.gadget with n := u.n } = none → WellFormed res) := by
  have hg0 := hu.ginv.toInv0
  unfold Un.getResult at h
  by_cases hm0 : u.gadget.numMarksInH = 0
  · -- simple coercer
    simp only [hm0, beq_self_eq_true, if_true] at h
    injection h with h; injection h with h1 h2
    subst h1
    refine ⟨?_, fun _ => hg0.wellFormed_clear _ rfl rfl rfl⟩
    refine { n_eq := hu.n_eq, weight := ?_, size := ?_, kLe := le_of_eq hu.kEq, notGadget := rfl, noMarkCount := by first | rfl | exact hm0,
             noMarks := clearMarks_noMarks _ }
    · have := hg0.skWeight_eq
      unfold skWeight at this ⊢
      show sumW (clearMarks u.gadget.H) + (if u.gadget.R = [] then 0 else u.gadget.totalWtR) = tot
      rw [sumW_clearMarks, this, hu.tot_eq]
    · show (clearMarks u.gadget.H).length + u.gadget.R.length ≤ u.gadget.k
      rw [clearMarks_length]; exact hg0.size_le
  · have hm0' : (u.gadget.numMarksInH == 0) = false := by simp [hm0]
    simp only [hm0', Bool.false_eq_true, if_false] at h
    have hHne : u.gadget.H ≠ [] := by
      intro hH
      have := hg0.marks.1
      rw [hH] at this
      exact hm0 (by simpa [countMarks] using this)
    have hinsne : insG ≠ [] := by
      intro hi
      have := hg0.perm.length_eq
      rw [hi] at this
      simp at this
      exact hHne (List.eq_nil_of_length_eq_zero (by omega))
    have hcnt1 : 1 ≤ u.n := by rw [hu.n_eq]; exact hu.nz hinsne
    split at h
    · -- pseudo-exact: mark-moving coercer
      rename_i r hpe
      injection h with h; injection h with h1 h2
      subst h1
      refine ⟨?_, fun hnone => by rw [hnone] at hpe; exact absurd hpe (by simp)⟩
      obtain ⟨hR, _, _, _, hmm⟩ := pseudoExact_inv hpe
      exact markMoving_resOK T u insG LG tot cnt hu hR _ r hmm
    · exact absurd h (by simp)
    · -- migrate marked items by decreasing k
      unfold migrateMarked at h
      simp only [] at h
      split at h
      · exact absurd h (by simp)
      · split at h
        · exact absurd h (by simp)
        · have hgc : Inv0 { u.gadget with n := u.n } insG LG := hg0.setN _
          split at h
          · rename_i hc
            simp only [Bool.and_eq_true, beq_iff_eq, decide_eq_true_eq] at hc
            have hR : u.gadget.R = [] := List.eq_nil_of_length_eq_zero hc.1
            obtain ⟨hL, _, hW0⟩ := hg0.warm hR
            refine (fun p => ⟨p.1, fun _ => p.2⟩) (migrateFrom_spec T ({ ({ u.gadget with n := u.n } : Sk Rat) with k := u.gadget.H.length }) insG LG tot cnt u.maxK ?_ hu.isGadget hu.n_eq ?_ (by rw [← hu.n_eq]; exact hcnt1) hu.tot_eq ds res ds' h)
            · exact { kpos := length_pos_of_ne_nil hHne, mnil := hg0.mnil, fresh := hg0.fresh, perm := hg0.perm,
                      pos := hg0.pos, marks := hg0.marks, warm := fun _ => ⟨hL, le_refl _, hW0⟩,
                      est := fun hr => absurd hR hr }
            · show u.gadget.H.length ≤ u.maxK
              rw [← hu.kEq]; exact le_of_lt hc.2
          · exact (fun p => ⟨p.1, fun _ => p.2⟩) (migrateFrom_spec T ({ u.gadget with n := u.n } : Sk Rat) insG LG tot cnt u.maxK hgc hu.isGadget hu.n_eq (le_of_eq hu.kEq)
              (by rw [← hu.n_eq]; exact hcnt1) hu.tot_eq ds res ds' h)

-- ------------------------------------------------------------------ the repaired coercer

theorem existUnmarkedLighter_false {g : Sk Rat} {t : Rat} (h : existUnmarkedLighter g (some t) = false) :
    ∀ e ∈ g.H, e.mark = false → t ≤ e.wt := by
  intro e he hm
  unfold existUnmarkedLighter at h
  simp only [List.any_eq_false] at h
  have := h e he
  simp [hm] at this
  exact this

/-- with the repaired coercer (guard against the outer tau, result re-heapified) EVERY result of `get_result` is a
    valid estimation-mode state -/
theorem getResult_wf_current (T : Tunables) (hT1 : T.coercerOuterTau = true) (hT2 : T.coercerHeapify = true)
    (u : Un Rat) (insG LG : List E) (tot : Rat) (cnt : Nat) (hu : UInv u insG LG tot cnt) (hb : TauBook u insG)
    (ds : Draws Rat) (res : Sk Rat) (ds' : Draws Rat) (h : u.getResult T ds = some (res, ds')) : WellFormed res := by
  have hspec := getResult_spec T u insG LG tot cnt hu ds res ds' h
  cases hpe : pseudoExact T u { u.gadget with n := u.n } with
  | none => exact hspec.2 hpe
  | some o =>
    -- the mark-moving coercer was taken
    have hg0 := hu.ginv.toInv0
    unfold Un.getResult at h
    by_cases hm0 : u.gadget.numMarksInH = 0
    · -- impossible: pseudo-exact needs marks
      exfalso
      cases o with
      | none =>
        unfold pseudoExact at hpe
        simp [hm0] at hpe
      | some r =>
        have := (pseudoExact_inv hpe).2.1
        omega
    · have hm0' : (u.gadget.numMarksInH == 0) = false := by simp [hm0]
      simp only [hm0', Bool.false_eq_true, if_false] at h
      rw [hpe] at h
      cases o with
      | none => exact absurd h (by simp)
      | some r =>
        simp only [] at h
        injection h with h; injection h with h1 h2
        subst h1
        obtain ⟨hR, hmpos, hc3, hguard, hmm⟩ := pseudoExact_inv hpe
        rw [if_pos hT1] at hguard
        obtain ⟨hk, hn, hH, hRr, hW, _, _, _⟩ := markMoving_inv hmm
        obtain ⟨hL, _, hW0⟩ := hg0.warm hR
        -- everything ever fed is still in H
        have hperm : insG.Perm u.gadget.H := by have := hg0.perm; rw [hL] at this; simpa using this
        have hcm : countMarks insG = countMarks u.gadget.H := countMarks_perm hperm
        have hden : u.outerTauDenom = countMarks insG := by rw [← hc3, hg0.marks.1, hcm]
        have hnum : u.outerTauNumer = sumW (u.gadget.H.filter (·.mark)) := by
          rw [hb.2 hden]; exact sumW_perm (hperm.filter _)
        have hdpos : 0 < u.outerTauDenom := by rw [← hc3]; exact hmpos
        have hrlen : r.R.length = u.outerTauDenom := by
          rw [hRr, hR, hden, hcm]; simp [countMarks]
        have htau : r.totalWtR / (r.R.length : Rat) = u.outerTau := by
          rw [hW, hW0, zero_add, hrlen, ← hnum]
          unfold Un.outerTau
          have : (u.outerTauDenom == 0) = false := by simp; omega
          simp [this]
        intro _
        rw [hH, htau]
        unfold mmH
        rw [if_pos hT2]
        refine ⟨convertToHeap_heap _, ?_⟩
        intro e he
        have he' := (convertToHeap_perm _).subset he
        obtain ⟨x, hx, rfl⟩ := List.mem_map.mp he'
        unfold unmarkedOf at hx
        obtain ⟨hxH, hxm⟩ := List.mem_filter.mp hx
        exact existUnmarkedLighter_false hguard x hxH (by simpa using hxm)

end DS.VarOpt

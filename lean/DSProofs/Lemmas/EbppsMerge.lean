/- Sketch merge (C18): replaying the lighter sketch's items with the average weight keeps `c = rho·cumWt`,
`rho = min(1/max(wtMax), min(k)/cumWt)` and the sample structure. -/
import DSProofs.Lemmas.EbppsStream
namespace DS.Ebpps

variable {P : Nat → Prop}

/-- the condition under which no replayed item contributes more than 1 to `c`: either the average weight does not exceed
the new maximum weight (unsaturated source), or the receiving sketch is at least `k` average weights heavy. -/
def ThetaOK (k : Nat) (avg M W : Rat) : Prop := avg ≤ M ∨ (k : Rat) * avg ≤ W

theorem theta_bound {k : Nat} {avg M W incr : Rat} (hk : 1 ≤ k) (hM : 0 < M) (hW : 0 < W)
    (hi0 : 0 < incr) (hi : incr ≤ avg) (h : ThetaOK k avg M W) :
    min (1 / M) ((k : Rat) / (W + incr)) * incr ≤ 1 := by
  have hkq : (1 : Rat) ≤ k := by exact_mod_cast hk
  rcases h with h | h
  · calc min (1 / M) ((k : Rat) / (W + incr)) * incr ≤ 1 / M * incr :=
          mul_le_mul_of_nonneg_right (min_le_left _ _) (le_of_lt hi0)
      _ = incr / M := by ring
      _ ≤ 1 := (div_le_one hM).2 (le_trans hi h)
  · have hpos : 0 < W + incr := by linarith
    calc min (1 / M) ((k : Rat) / (W + incr)) * incr ≤ (k : Rat) / (W + incr) * incr :=
          mul_le_mul_of_nonneg_right (min_le_right _ _) (le_of_lt hi0)
      _ = ((k : Rat) * incr) / (W + incr) := by ring
      _ ≤ 1 := by
        rw [div_le_one hpos]
        have : (k : Rat) * incr ≤ (k : Rat) * avg := mul_le_mul_of_nonneg_left hi (by linarith)
        linarith

theorem absorbAll_core {v : Variant} {avg M' : Rat} (havg : 0 < avg) :
    ∀ (items : List Nat) (s : Sketch Rat) (M : Rat) (K : Nat) (d : Draws Rat),
      Core P s M K → 1 ≤ s.k → s.k ≤ K → M ≤ M' → (∀ x ∈ items, P x) → ThetaOK s.k avg M' s.cumWt →
      UnitOK v.geDraw d →
      ∃ M2 K2, Core P (absorbAll v s avg M' items d).1 M2 K2 ∧ M2 ≤ M' ∧ (absorbAll v s avg M' items d).1.k ≤ K2 ∧
        (items ≠ [] → M2 = M' ∧ K2 = s.k) ∧
        (absorbAll v s avg M' items d).1.cumWt = s.cumWt + items.length * avg ∧
        (absorbAll v s avg M' items d).1.k = s.k ∧ (absorbAll v s avg M' items d).1.n = s.n ∧
        (absorbAll v s avg M' items d).1.wtMax = s.wtMax ∧ UnitOK v.geDraw (absorbAll v s avg M' items d).2 := by
  intro items
  induction items with
  | nil =>
    intro s M K d hc hk1 hkK hM _ _ hd
    exact ⟨M, K, by simpa [absorbAll] using hc, hM, by simpa [absorbAll] using hkK, by simp, by simp [absorbAll],
      rfl, rfl, rfl, by simpa [absorbAll] using hd⟩
  | cons it rest ih =>
    intro s M K d hc hk1 hkK hM hP hth hd
    have hM' : 0 < M' := lt_of_lt_of_le hc.mpos hM
    have hb := theta_bound (incr := avg) hk1 hM' hc.wpos havg (le_refl _) hth
    obtain ⟨a1, a2, a3, a4, a5, a6⟩ := absorb_core (v := v) (thetaOf := fun r => r * avg) hc hk1 hkK hM havg
      (hP it (by simp)) (fun r => rfl) hb hd
    have hth' : ThetaOK (absorb v s it avg (fun r => r * avg) M' d).1.k avg M'
        (absorb v s it avg (fun r => r * avg) M' d).1.cumWt := by
      rw [a3, a2]
      rcases hth with h | h
      · exact Or.inl h
      · exact Or.inr (by linarith)
    obtain ⟨M2, K2, i1, i2, i3, i4, i5, i6, i7, i8, i9⟩ := ih _ M' s.k _ a1 (by rw [a3]; exact hk1) (by rw [a3])
      (le_refl _) (fun x hx => hP x (by simp [hx])) hth' a6
    simp only [absorbAll]
    by_cases hr : rest = []
    · subst hr
      refine ⟨M', s.k, by simpa [absorbAll] using a1, le_refl _, by simp [absorbAll, a3], fun _ => ⟨rfl, rfl⟩, ?_,
        by simp [absorbAll, a3], by simp [absorbAll, a4], by simp [absorbAll, a5], by simpa [absorbAll] using a6⟩
      simp [absorbAll, a2]
    · obtain ⟨e1, e2⟩ := i4 hr
      refine ⟨M2, K2, i1, i2, i3, fun _ => ⟨e1, by rw [e2, a3]⟩, ?_, by rw [i6, a3], by rw [i7, a4], by rw [i8, a5], i9⟩
      rw [i5, a2]; simp only [List.length_cons]; push_cast; ring

theorem core_congr {s t : Sketch Rat} {M : Rat} {K : Nat} (h : Core P s M K) (h1 : t.sample = s.sample)
    (h2 : t.cumWt = s.cumWt) (h3 : t.rho = s.rho) : Core P t M K :=
  ⟨by rw [h1]; exact h.sinv, by rw [h2]; exact h.wpos, h.mpos, h.kpos, by rw [h3, h2]; exact h.rho,
   by rw [h1, h3, h2]; exact h.c⟩

/-- `internal_merge(sk)` for two non-empty well-formed sketches with `sk` the lighter one. -/
theorem internalMerge_spec {v : Variant} {s sk : Sketch Rat} {d : Draws Rat}
    (hs : Core P s s.wtMax s.k) (hs1 : 1 ≤ s.k) (hk : Core P sk sk.wtMax sk.k) (hk1 : 1 ≤ sk.k)
    (hle : sk.cumWt ≤ s.cumWt) (hd : UnitOK v.geDraw d) :
    Core P (internalMerge v s sk d).1 (max s.wtMax sk.wtMax) (min s.k sk.k) ∧
    (internalMerge v s sk d).1.cumWt = s.cumWt + sk.cumWt ∧
    (internalMerge v s sk d).1.n = s.n + sk.n ∧
    (internalMerge v s sk d).1.k = min s.k sk.k ∧
    (internalMerge v s sk d).1.wtMax = (if v.mergeSetsWtMax then max s.wtMax sk.wtMax else s.wtMax) ∧
    UnitOK v.geDraw (internalMerge v s sk d).2 := by
  have hcpos : 0 < sk.sample.c := by rw [hk.c]; exact mul_pos hk.rho_pos hk.wpos
  have hcne : sk.sample.c ≠ 0 := ne_of_gt hcpos
  set avg := sk.cumWt / sk.sample.c with havg_def
  have havg : 0 < avg := div_pos hk.wpos hcpos
  have hcavg : sk.sample.c * avg = sk.cumWt := by rw [havg_def]; field_simp
  set M' := max s.wtMax sk.wtMax with hM'
  set k' := min s.k sk.k with hk'
  have hk'1 : 1 ≤ k' := le_min hs1 hk1
  have hk's : k' ≤ s.k := min_le_left _ _
  have hk'k : (k' : Rat) ≤ sk.k := by exact_mod_cast (min_le_right s.k sk.k)
  -- no replayed item contributes more than 1
  have hth : ThetaOK k' avg M' s.cumWt := by
    have hcl := hk.closed
    rcases le_total (sk.k : Rat) (sk.cumWt / sk.wtMax) with h | h
    · rw [min_eq_left h] at hcl
      right
      have : (sk.k : Rat) * avg = sk.cumWt := by rw [← hcl]; exact hcavg
      have hk2 : (k' : Rat) * avg ≤ (sk.k : Rat) * avg := mul_le_mul_of_nonneg_right hk'k (le_of_lt havg)
      linarith
    · rw [min_eq_right h] at hcl
      left
      have : avg = sk.wtMax := by
        have hw0 := ne_of_gt hk.wpos
        have hm0 := ne_of_gt hk.mpos
        rw [havg_def, hcl]; field_simp
      rw [this]; exact le_max_right _ _
  -- the receiving sketch with k lowered
  have hs0 : Core P { s with k := k' } s.wtMax s.k := core_congr hs rfl rfl rfl
  obtain ⟨M2, K2, l1, l2, l3, l4, l5, l6, l7, l8, l9⟩ :=
    absorbAll_core (v := v) (M' := M') havg sk.sample.data { s with k := k' } s.wtMax s.k d hs0 hk'1 hk's
      (le_max_left _ _) hk.sinv.dataP hth hd
  simp only at l5 l6 l7 l8
  have hlen : ((sk.sample.data.length : Nat) : Rat) = ((sk.sample.c.floor : Int) : Rat) := by
    have := hk.sinv.len
    exact_mod_cast this
  have a1 := fl_le sk.sample.c
  have a2 := lt_fl_add_one sk.sample.c
  unfold internalMerge
  simp only [← havg_def, ← hM', ← hk', rat_cmax]
  cases hpart : sk.sample.part with
  | none =>
    -- no partial item: c is integral and at least 1, so at least one full item was replayed
    have hfr : ¬ ((sk.sample.c.floor : Int) : Rat) < sk.sample.c := by
      intro hlt; have := hk.sinv.part.2 hlt; rw [hpart] at this; simp at this
    have hceq : ((sk.sample.c.floor : Int) : Rat) = sk.sample.c := le_antisymm a1 (not_lt.1 hfr)
    have hne : sk.sample.data ≠ [] := by
      intro h0
      rw [h0] at hlen; simp only [List.length_nil, Nat.cast_zero] at hlen
      rw [← hceq, ← hlen] at hcpos; exact lt_irrefl _ hcpos
    obtain ⟨e1, e2⟩ := l4 hne
    subst e1; subst e2
    simp only
    have hcum : (absorbAll v { s with k := k' } avg M' sk.sample.data d).1.cumWt = s.cumWt + sk.cumWt := by
      rw [l5, hlen, hceq, hcavg]
    refine ⟨core_congr l1 rfl hcum.symm rfl, trivial, trivial, l6, ?_, l9⟩
    rw [l8]
  | some p =>
    have hfr : ((sk.sample.c.floor : Int) : Rat) < sk.sample.c := hk.sinv.part.1 (by rw [hpart]; rfl)
    have hpP : P p := hk.sinv.partP p (by rw [hpart]; simp)
    set s1 := (absorbAll v { s with k := k' } avg M' sk.sample.data d).1 with hs1def
    set d1 := (absorbAll v { s with k := k' } avg M' sk.sample.data d).2 with hd1def
    have hof0 : 0 < sk.sample.c - ((sk.sample.c.floor : Int) : Rat) := by linarith
    have hof1 : sk.sample.c - ((sk.sample.c.floor : Int) : Rat) < 1 := by linarith
    have hincr0 : 0 < (sk.sample.c - ((sk.sample.c.floor : Int) : Rat)) * avg := mul_pos hof0 havg
    have hincr1 : (sk.sample.c - ((sk.sample.c.floor : Int) : Rat)) * avg ≤ avg := by nlinarith
    have hth1 : ThetaOK s1.k avg M' s1.cumWt := by
      rw [l6, l5]
      rcases hth with h | h
      · exact Or.inl h
      · right
        have : (0 : Rat) ≤ (sk.sample.data.length : Rat) * avg := mul_nonneg (by positivity) (le_of_lt havg)
        linarith
    have hM2 : 0 < M' := lt_of_lt_of_le l1.mpos l2
    have hb := theta_bound (incr := (sk.sample.c - ((sk.sample.c.floor : Int) : Rat)) * avg)
      (by rw [l6]; exact hk'1) hM2 l1.wpos hincr0 hincr1 hth1
    obtain ⟨b1, b2, b3, b4, b5, b6⟩ := absorb_core (v := v) (item := p) (newWtMax := M')
      (thetaOf := fun r => r * (sk.sample.c - ((sk.sample.c.floor : Int) : Rat)) * avg) (d := d1)
      l1 (by rw [l6]; exact hk'1) l3 l2 hincr0 hpP (fun r => by ring) hb l9
    simp only [frac, rat_floor]
    have hcum : (absorb v s1 p ((sk.sample.c - ((sk.sample.c.floor : Int) : Rat)) * avg)
        (fun r => r * (sk.sample.c - ((sk.sample.c.floor : Int) : Rat)) * avg) M' d1).1.cumWt = s.cumWt + sk.cumWt := by
      rw [b2, l5, hlen, ← hcavg]; ring
    rw [l6] at b1 b3
    refine ⟨core_congr b1 rfl hcum.symm rfl, trivial, trivial, b3, ?_, b6⟩
    rw [b5, l8]

/-- `a.merge(b)` for two non-empty well-formed sketches, whichever is heavier. -/
theorem mergeSk_live {v : Variant} {a b : Sketch Rat} {d : Draws Rat}
    (ha : Core P a a.wtMax a.k) (ha1 : 1 ≤ a.k) (hb : Core P b b.wtMax b.k) (hb1 : 1 ≤ b.k) (hd : UnitOK v.geDraw d) :
    Core P (mergeSk v a b d).1 (max a.wtMax b.wtMax) (min a.k b.k) ∧
    (mergeSk v a b d).1.cumWt = a.cumWt + b.cumWt ∧
    (mergeSk v a b d).1.n = a.n + b.n ∧
    (mergeSk v a b d).1.k = min a.k b.k ∧
    (v.mergeSetsWtMax = true → (mergeSk v a b d).1.wtMax = max a.wtMax b.wtMax) ∧
    UnitOK v.geDraw (mergeSk v a b d).2 := by
  have hbw := hb.wpos
  have haw := ha.wpos
  unfold mergeSk
  have h0 : Num.eq b.cumWt (zero : Rat) = false := by simp [ne_of_gt hbw]
  have h1 : Num.eq a.cumWt (zero : Rat) = false := by simp [ne_of_gt haw]
  simp only [h0, h1, Bool.and_false, rat_lt, decide_eq_true_eq, Bool.false_eq_true, if_false]
  by_cases hlt : a.cumWt < b.cumWt
  · rw [if_pos hlt]
    obtain ⟨m1, m2, m3, m4, m5, m6⟩ := internalMerge_spec (v := v) hb hb1 ha ha1 (le_of_lt hlt) hd
    rw [max_comm, min_comm]
    refine ⟨m1, by rw [m2]; ring, by rw [m3]; omega, m4, fun hf => ?_, m6⟩
    rw [m5, hf]; simp
  · rw [if_neg hlt]
    obtain ⟨m1, m2, m3, m4, m5, m6⟩ := internalMerge_spec (v := v) ha ha1 hb hb1 (not_lt.1 hlt) hd
    refine ⟨m1, m2, m3, m4, fun hf => ?_, m6⟩
    rw [m5, hf]; simp

/-! ### reading the sample -/

/-- `get_result()` returns the full items and, depending on the draw, the partial item: `⌊c⌋` or `⌊c⌋ + 1` items (the
latter only when `c` is not integral), all of them satisfying `P`. -/
theorem getSample_spec {s : Sample Rat} (hs : SInv P s) (d : Draws Rat) :
    (((getSample s d).1.length : Int) = s.c.floor ∨
      (((s.c.floor : Int) : Rat) < s.c ∧ ((getSample s d).1.length : Int) = s.c.floor + 1)) ∧
    ∀ x ∈ (getSample s d).1, P x := by
  have e : getSample s d = (if Num.lt d.unit.1 (frac s.c) then (s.data ++ s.part.toList, d.unit.2) else (s.data, d.unit.2)) := rfl
  rw [e]
  simp only [rat_lt, frac, rat_floor, decide_eq_true_eq]
  split
  · rename_i hlt
    cases hpart : s.part with
    | none => simp only [Option.toList_none, List.append_nil]; exact ⟨Or.inl hs.len, hs.dataP⟩
    | some p =>
      have hfr := hs.part.1 (by rw [hpart]; rfl)
      refine ⟨Or.inr ⟨hfr, by simp [hs.len]⟩, ?_⟩
      intro x hx
      simp only [Option.toList_some, List.mem_append, List.mem_singleton] at hx
      rcases hx with h | h
      · exact hs.dataP x h
      · exact hs.partP x (by rw [hpart, h]; simp)
  · exact ⟨Or.inl hs.len, hs.dataP⟩

end DS.Ebpps

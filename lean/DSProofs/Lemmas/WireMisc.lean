/-
Helper lemmas shared by the t-digest / Bloom / density wire proofs: one rewriting lemma per combinator
for round trips (`bind_*`), inversion of successful reads (`*_inv`) for the consumption / boundedness
theorems, and `repeatN` round trip / consumption.  Property statements live in Props/C09_*, C10_*, C11_*.
-/
import DSProofs.Lemmas.Wire
namespace DS.Wire
open Reader

variable {α β : Type}

/-! ### round-trip rewriting, one step per field -/

theorem bind_leNat (n x : Nat) (hx : x < 256 ^ n) (f : Nat → Reader β) (r : Bytes) :
    Reader.bind (leNat n) f (wLe n x ++ r) = f x r := by
  simp [Reader.bind, leNat_wLe n x hx r]

theorem bind_u8 (x : Nat) (hx : x < 256) (f : Nat → Reader β) (r : Bytes) :
    Reader.bind u8 f (w8 x ++ r) = f x r := bind_leNat 1 x (by simpa using hx) f r
theorem bind_u16 (x : Nat) (hx : x < 2^16) (f : Nat → Reader β) (r : Bytes) :
    Reader.bind u16 f (w16 x ++ r) = f x r := bind_leNat 2 x (by omega) f r
theorem bind_u32 (x : Nat) (hx : x < 2^32) (f : Nat → Reader β) (r : Bytes) :
    Reader.bind u32 f (w32 x ++ r) = f x r := bind_leNat 4 x (by omega) f r
theorem bind_u64 (x : Nat) (hx : x < 2^64) (f : Nat → Reader β) (r : Bytes) :
    Reader.bind u64 f (w64 x ++ r) = f x r := bind_leNat 8 x (by omega) f r

theorem bind_skip_zeros (n : Nat) (f : Unit → Reader β) (r : Bytes) :
    Reader.bind (skip n) f (wZeros n ++ r) = f () r := by
  simp [Reader.bind, skip_zeros n r]

theorem bind_bytesN (a : Bytes) (n : Nat) (hn : a.length = n) (f : Bytes → Reader β) (r : Bytes) :
    Reader.bind (bytesN n) f (a ++ r) = f a r := by
  subst hn; simp [Reader.bind, bytesN_append a r]

theorem bind_guard_true (c : Bool) (hc : c = true) (f : Unit → Reader β) (r : Bytes) :
    Reader.bind (guard c) f r = f () r := by
  subst hc; simp [Reader.bind, guard, Reader.pure]

/-! ### inversion of successful reads -/

theorem bind_eq_some {m : Reader α} {f : α → Reader β} {b : Bytes} {y : β} {r : Bytes}
    (h : Reader.bind m f b = some (y, r)) : ∃ a r1, m b = some (a, r1) ∧ f a r1 = some (y, r) := by
  simp only [Reader.bind] at h
  cases hm : m b with
  | none => simp [hm] at h
  | some p => obtain ⟨a, r1⟩ := p; simp only [hm] at h; exact ⟨a, r1, rfl, h⟩

theorem pure_eq_some {a y : α} {b r : Bytes} (h : Reader.pure a b = some (y, r)) : y = a ∧ r = b := by
  simp only [Reader.pure, Option.some.injEq, Prod.mk.injEq] at h; exact ⟨h.1.symm, h.2.symm⟩

theorem guard_eq_some {c : Bool} {b r : Bytes} {u : Unit} (h : guard c b = some (u, r)) : c = true ∧ r = b := by
  cases c with
  | false => simp [guard, Reader.fail] at h
  | true => simp only [guard, if_true] at h; exact ⟨rfl, (pure_eq_some h).2⟩

theorem byte_eq_some {b r : Bytes} {x : UInt8} (h : byte b = some (x, r)) : b = x :: r := by
  cases b with
  | nil => simp [byte] at h
  | cons y t => simp only [byte, Option.some.injEq, Prod.mk.injEq] at h; rw [h.1, h.2]

theorem leNat_inv : ∀ (n : Nat) {b r : Bytes} {x : Nat}, leNat n b = some (x, r) →
    b.length = n + r.length ∧ x < 256 ^ n
  | 0, b, r, x, h => by
    obtain ⟨h1, h2⟩ := pure_eq_some (a := 0) h
    subst h1; subst h2; simp
  | n + 1, b, r, x, h => by
    simp only [leNat] at h
    obtain ⟨y, r1, hb, h⟩ := bind_eq_some h
    obtain ⟨hi, r2, hh, h⟩ := bind_eq_some h
    obtain ⟨h1, h2⟩ := pure_eq_some h
    have := byte_eq_some hb
    obtain ⟨ih1, ih2⟩ := leNat_inv n hh
    subst h2; subst this
    refine ⟨by simp [ih1]; omega, ?_⟩
    have hy : y.toNat < 256 := y.toNat_lt
    rw [h1, Nat.pow_succ]; omega

theorem bytesN_inv : ∀ (n : Nat) {b r x : Bytes}, bytesN n b = some (x, r) → b = x ++ r ∧ x.length = n
  | 0, b, r, x, h => by
    obtain ⟨h1, h2⟩ := pure_eq_some (a := ([] : Bytes)) h
    subst h1; subst h2; simp
  | n + 1, b, r, x, h => by
    simp only [bytesN] at h
    obtain ⟨y, r1, hb, h⟩ := bind_eq_some h
    obtain ⟨t, r2, hh, h⟩ := bind_eq_some h
    obtain ⟨h1, h2⟩ := pure_eq_some h
    have := byte_eq_some hb
    obtain ⟨ih1, ih2⟩ := bytesN_inv n hh
    subst h2; subst this; subst h1
    simp [ih1, ih2]

theorem skip_inv {n : Nat} {b r : Bytes} {u : Unit} (h : skip n b = some (u, r)) : b.length = n + r.length := by
  simp only [skip] at h
  obtain ⟨x, r1, hb, h⟩ := bind_eq_some h
  obtain ⟨_, h2⟩ := pure_eq_some h
  obtain ⟨h3, h4⟩ := bytesN_inv n hb
  subst h2; rw [h3]; simp [h4]

/-! ### repeatN -/

/-- round trip of a repeated field: if every element round-trips then so does the list -/
theorem repeatN_flatMap (rd : Reader α) (enc : α → Bytes) (xs : List α)
    (h : ∀ x ∈ xs, ∀ t, rd (enc x ++ t) = some (x, t)) (t : Bytes) :
    repeatN rd xs.length (xs.flatMap enc ++ t) = some (xs, t) := by
  induction xs with
  | nil => rfl
  | cons x rest ih =>
    have hx := h x (by simp) (rest.flatMap enc ++ t)
    have ih' := ih (fun y hy => h y (by simp [hy]))
    simp only [List.length_cons, repeatN, List.flatMap_cons, List.append_assoc, Reader.bind, hx, ih', Reader.pure]

theorem bind_repeatN (rd : Reader α) (enc : α → Bytes) (xs : List α) (n : Nat) (hn : xs.length = n)
    (h : ∀ x ∈ xs, ∀ t, rd (enc x ++ t) = some (x, t)) (f : List α → Reader β) (t : Bytes) :
    Reader.bind (repeatN rd n) f (xs.flatMap enc ++ t) = f xs t := by
  subst hn; simp [Reader.bind, repeatN_flatMap rd enc xs h t]

/-- consumption of a repeated field whose element reader always consumes exactly `m` bytes and yields
values satisfying `P` -/
theorem repeatN_inv (rd : Reader α) (m : Nat) (P : α → Prop)
    (hrd : ∀ b x r, rd b = some (x, r) → b.length = m + r.length ∧ P x) :
    ∀ (n : Nat) {b r : Bytes} {xs : List α}, repeatN rd n b = some (xs, r) →
      xs.length = n ∧ b.length = n * m + r.length ∧ ∀ x ∈ xs, P x
  | 0, b, r, xs, h => by
    obtain ⟨h1, h2⟩ := pure_eq_some (a := ([] : List α)) h
    subst h1; subst h2; simp
  | n + 1, b, r, xs, h => by
    simp only [repeatN] at h
    obtain ⟨y, r1, hb, h⟩ := bind_eq_some h
    obtain ⟨t, r2, hh, h⟩ := bind_eq_some h
    obtain ⟨h1, h2⟩ := pure_eq_some h
    obtain ⟨hy1, hy2⟩ := hrd _ _ _ hb
    obtain ⟨ih1, ih2, ih3⟩ := repeatN_inv rd m P hrd n hh
    subst h2; subst h1
    refine ⟨by simp [ih1], ?_, ?_⟩
    · rw [hy1, ih2, Nat.succ_mul]; omega
    · intro x hx
      simp only [List.mem_cons] at hx
      rcases hx with rfl | hx
      · exact hy2
      · exact ih3 x hx

theorem PS_ite (c : Bool) (r1 r2 : Reader α) (h1 : PS r1) (h2 : PS r2) : PS (if c then r1 else r2) := by
  cases c <;> simpa

theorem length_wZeros (n : Nat) : (wZeros n).length = n := by simp [wZeros]

end DS.Wire

/- C19, KLL sketch part 16: `populate_work_arrays`. -/
import DSProofs.Lemmas.LifeKllO
namespace DS.Life.Kll
open DS.Life

/-! ### more about weighted sums -/

theorem wsum_add (f g : Nat → Nat) (n : Nat) : wsum (fun l => f l + g l) n = wsum f n + wsum g n := by
  induction n with
  | zero => rfl
  | succ n ih => simp only [wsum]; rw [ih, Nat.mul_add]; omega

theorem wsum_ext_zero (f : Nat → Nat) {nl n : Nat} (h : nl ≤ n) :
    wsum (fun l => if l < nl then f l else 0) n = wsum f nl := by
  induction n with
  | zero =>
    have : nl = 0 := by omega
    subst this; rfl
  | succ n ih =>
    by_cases e : nl = n + 1
    · subst e
      apply wsum_congr
      intro l hl
      rw [if_pos hl]
    · simp only [wsum]
      rw [ih (by omega), if_neg (by omega)]
      simp

theorem wsum_drop0 (f : Nat → Nat) {n : Nat} (h : 1 ≤ n) :
    wsum (fun l => if l = 0 then 0 else f l) n + f 0 = wsum f n := by
  induction n with
  | zero => omega
  | succ n ih =>
    simp only [wsum]
    by_cases e : n = 0
    · subst e; simp [wsum]
    · rw [if_neg e]
      have := ih (by omega)
      omega

/-! ### level positions with saturation at the top -/

/-- `levels[min l numLevels]` -/
def psOf (ls : List Nat) (nl l : Nat) : Nat := ls.getD (min l nl) 0

theorem psOf_mono {k m nl : Nat} {ls : List Nat} {sz : Nat} (lok : LevelsOK k m nl ls sz) {i j : Nat} (hij : i ≤ j) :
    psOf ls nl i ≤ psOf ls nl j := by
  unfold psOf
  exact lok.le_of_le _ _ (by omega) (by omega)

theorem psOf_top {k m nl : Nat} {ls : List Nat} {sz : Nat} (lok : LevelsOK k m nl ls sz) {i : Nat} (hi : nl ≤ i) :
    psOf ls nl i = sz := by
  unfold psOf
  rw [Nat.min_eq_right hi]; exact lok.top

theorem psOf_le_top {k m nl : Nat} {ls : List Nat} {sz : Nat} (lok : LevelsOK k m nl ls sz) (i : Nat) :
    psOf ls nl i ≤ sz := by
  unfold psOf
  exact lok.le_top _ (Nat.min_le_right _ _)

theorem psOf_lt {ls : List Nat} {nl i : Nat} (hi : i ≤ nl) : psOf ls nl i = ls.getD i 0 := by
  unfold psOf
  rw [Nat.min_eq_left hi]

theorem safeLevelSize_eq (s : Sketch) (l : Nat) (hlen : s.levels.length = s.numLevels + 1) :
    safeLevelSize s l =
      (Pure.pure (psOf s.levels s.numLevels (l + 1) - psOf s.levels s.numLevels l) : M Nat) := by
  unfold safeLevelSize
  by_cases h : l ≥ s.numLevels
  · rw [if_pos h]
    unfold psOf
    rw [Nat.min_eq_right h, Nat.min_eq_right (by omega)]
    simp
  · rw [if_neg h, lv_ok (by omega), lv_ok (by omega), psOf_lt (by omega), psOf_lt (by omega)]
    rfl

theorem step_safeLevelSize {β} {S} {h : Heap} {s : Sketch} {l : Nat} {f : Nat → M β} {Q : β → Heap → Prop}
    (hlen : s.levels.length = s.numLevels + 1)
    (k : SafeF S h (f (psOf s.levels s.numLevels (l + 1) - psOf s.levels s.numLevels l) h) Q) :
    SafeF S h ((safeLevelSize s l >>= f) h) Q := by
  rw [safeLevelSize_eq s l hlen, pure_bind_apply]; exact k

/-- copy a range of another block to consecutive raw slots -/
theorem vstep_copyFrom {β} {S} {h : Heap} {sb sn db dn a cnt d0 : Nat} {f : Unit → M β} {Q : β → Heap → Prop}
    (hcs : HasCells h sb sn) (hcd : HasCells h db dn) (hne : sb ≠ db) (hls : a + cnt ≤ sn) (hld : d0 + cnt ≤ dn)
    (hsrc : LiveOn h sb a (a + cnt)) (hraw : ∀ j, d0 ≤ j → j < d0 + cnt → stAt h db j = .raw) (hS : S db = true)
    (s : ∀ h', SameBut h h' (fun b' j => b' = db ∧ d0 ≤ j ∧ j < d0 + cnt) → LiveOn h' db d0 (d0 + cnt) →
          SafeF S h' (f () h') Q) :
    SafeF S h ((loopUp (fun i => fwdConstruct false sb i db (d0 + (i - a))) cnt a >>= f) h) Q := by
  have loop := TripleS.loopUp (n0 := 0) (S := S)
    (fun i h' => SameBut h h' (fun b' j => b' = db ∧ d0 ≤ j ∧ j < d0 + (i - a)) ∧ LiveOn h' db d0 (d0 + (i - a)))
    (fun i => fwdConstruct false sb i db (d0 + (i - a))) cnt a ?_
  · apply SafeF.bind_triple loop (Nat.zero_le _) ⟨SameBut.refl _ _, fun j h1 h2 => by omega⟩
    intro _ h1 ⟨sb1, l1⟩ _
    have e : a + cnt - a = cnt := by omega
    rw [e] at sb1 l1
    exact s h1 sb1 l1
  · intro i hi1 hi2 h' _ ⟨sb1, l1⟩
    apply SafeF.last
    obtain ⟨v, hv⟩ := hsrc i hi1 hi2
    unfold fwdConstruct
    simp only [Bool.false_eq_true, if_false]
    apply vstep_copyConstruct (sb1.cells _ _ hcs) (by omega) (by rw [sb1.st _ _ (fun x => hne x.1)]; exact hv)
      (sb1.cells _ _ hcd) (by omega : d0 + (i - a) < dn)
      (by rw [sb1.st _ _ (fun x => by omega)]; exact hraw _ (by omega) (by omega)) hS
    intro h2 sb2 hst
    apply SafeF.pure
    refine ⟨sb1.trans sb2 (fun _ _ x => ⟨x.1, x.2.1, by omega⟩) (fun _ _ x => ⟨x.1, by omega, by omega⟩), ?_⟩
    intro j h1 h2'
    by_cases e : j = d0 + (i - a)
    · subst e; exact ⟨v, hst⟩
    · rw [sb2.st _ _ (fun x => e x.2)]; exact l1 j h1 (by omega)


/-! ### `populate_work_arrays` -/

/-- position of work level `j` in the work buffer -/
def wlf (sa o : Sketch) (j : Nat) : Nat :=
  (psOf sa.levels sa.numLevels j - sa.levels.getD 0 0) + (psOf o.levels o.numLevels (max j 1) - o.levels.getD 1 0)

/-- the fixed facts while the work arrays are populated -/
structure PCtx (h0 : Heap) (sa o : Sketch) (ba ob wb tmp ub : Nat) : Prop where
  hba : sa.items = some ba
  hob : o.items = some ob
  loks : LevelsOK sa.k sa.m sa.numLevels sa.levels sa.itemsSize
  loko : LevelsOK o.k o.m o.numLevels o.levels o.itemsSize
  honl : 2 ≤ o.numLevels
  hco : HasCells h0 ob o.itemsSize
  hlo : LiveOn h0 ob (o.levels.getD 1 0) o.itemsSize
  htmp : tmp = (sa.itemsSize - sa.levels.getD 0 0) + (o.itemsSize - o.levels.getD 1 0)
  ne1 : ba ≠ ob
  ne2 : ba ≠ wb
  ne3 : ob ≠ wb
  hprov : max sa.numLevels o.numLevels ≤ ub

/-- the state after work levels `< lvl` have been filled -/
structure PInv (h0 h' : Heap) (sa o : Sketch) (ba wb tmp ub : Nat) (lvl : Nat) (WL : List Nat) : Prop where
  len : WL.length = ub + 2
  wl : ∀ j, j ≤ lvl → WL.getD j 0 = wlf sa o j
  sb : SameBut h0 h' (fun b' _ => b' = ba ∨ b' = wb)
  ca : HasCells h' ba sa.itemsSize
  cw : HasCells h' wb tmp
  araw : ∀ j, j < psOf sa.levels sa.numLevels lvl → stAt h' ba j = .raw
  alive : LiveOn h' ba (psOf sa.levels sa.numLevels lvl) sa.itemsSize
  wlive : LiveOn h' wb 0 (wlf sa o lvl)
  wraw : ∀ j, wlf sa o lvl ≤ j → j < tmp → stAt h' wb j = .raw

theorem wlf_mono {h0 : Heap} {sa o : Sketch} {ba ob wb tmp ub : Nat} (c : PCtx h0 sa o ba ob wb tmp ub) {i j : Nat}
    (hij : i ≤ j) : wlf sa o i ≤ wlf sa o j := by
  unfold wlf
  have h1 := psOf_mono c.loks hij
  have h2 := psOf_mono c.loko (i := max i 1) (j := max j 1) (by omega)
  omega

theorem wlf_le_tmp {h0 : Heap} {sa o : Sketch} {ba ob wb tmp ub : Nat} (c : PCtx h0 sa o ba ob wb tmp ub) (j : Nat) :
    wlf sa o j ≤ tmp := by
  unfold wlf
  rw [c.htmp]
  have h1 : psOf sa.levels sa.numLevels j ≤ sa.itemsSize := psOf_le_top c.loks _
  have h2 : psOf o.levels o.numLevels (max j 1) ≤ o.itemsSize := psOf_le_top c.loko _
  omega

theorem wlf_succ {h0 : Heap} {sa o : Sketch} {ba ob wb tmp ub : Nat} (c : PCtx h0 sa o ba ob wb tmp ub) {l : Nat}
    (hl : 1 ≤ l) : wlf sa o (l + 1) = wlf sa o l +
      (psOf sa.levels sa.numLevels (l + 1) - psOf sa.levels sa.numLevels l) +
      (psOf o.levels o.numLevels (l + 1) - psOf o.levels o.numLevels l) := by
  unfold wlf
  have e1 : max (l + 1) 1 = l + 1 := by omega
  have e2 : max l 1 = l := by omega
  rw [e1, e2]
  have h1 := psOf_mono c.loks (i := 0) (j := l) (by omega)
  have h2 := psOf_mono c.loks (i := l) (j := l + 1) (by omega)
  have h3 := psOf_mono c.loko (i := 1) (j := l) (by omega)
  have h4 := psOf_mono c.loko (i := l) (j := l + 1) (by omega)
  rw [psOf_lt (Nat.zero_le _)] at h1
  rw [psOf_lt (by have := c.honl; omega)] at h3
  omega

theorem populate_body {S : Nat → Bool} {h0 : Heap} {sa o : Sketch} {ba ob wb tmp ub : Nat}
    (c : PCtx h0 sa o ba ob wb tmp ub) (hSa : S ba = true) (hSw : S wb = true) (lvl : Nat) (WL : List Nat)
    (h1l : 1 ≤ lvl) (hlp : lvl < max sa.numLevels o.numLevels) :
    TripleS 0 S (fun h' => PInv h0 h' sa o ba wb tmp ub lvl WL)
      (do
        let selfPop ← safeLevelSize sa lvl
        let otherPop ← safeLevelSize o lvl
        let base ← lv WL lvl
        let wl ← setLv WL (lvl + 1) (base + selfPop + otherPop)
        if selfPop > 0 ∧ otherPop = 0 then do
            let a ← lv sa.levels lvl
            let __r ← moveConstructRange ba a (a + selfPop) wb base
            pure wl
          else
            if selfPop = 0 ∧ otherPop > 0 then do
              let oi ← deref o.items
              let a ← lv o.levels lvl
              let __r ← loopUp (fun i => fwdConstruct false oi i wb (base + (i - a))) otherPop a
              pure wl
            else
              if selfPop > 0 ∧ otherPop > 0 then do
                let oi ← deref o.items
                let a ← lv sa.levels lvl
                let b ← lv o.levels lvl
                let __r ← mergeInto ba a selfPop oi b otherPop wb base
                pure wl
              else pure wl)
      (fun WL' h' => PInv h0 h' sa o ba wb tmp ub (lvl + 1) WL') := by
  intro h' _ ⟨ilen, iwl, isb, ica, icw, iaraw, ialive, iwlive, iwraw⟩
  have hlens := c.loks.len
  have hleno := c.loko.len
  have hprov := c.hprov
  apply step_safeLevelSize hlens
  apply step_safeLevelSize hleno
  apply step_lv (by rw [ilen]; omega)
  apply step_setLv _ (by rw [ilen]; omega)
  rw [iwl lvl (Nat.le_refl _)]
  generalize hsp : psOf sa.levels sa.numLevels (lvl + 1) - psOf sa.levels sa.numLevels lvl = selfPop
  generalize hop : psOf o.levels o.numLevels (lvl + 1) - psOf o.levels o.numLevels lvl = otherPop
  generalize hWL' : WL.set (lvl + 1) (wlf sa o lvl + selfPop + otherPop) = WL'
  have hsucc : wlf sa o (lvl + 1) = wlf sa o lvl + selfPop + otherPop := by rw [wlf_succ c h1l, hsp, hop]
  have hms := psOf_mono c.loks (i := lvl) (j := lvl + 1) (by omega)
  have hmo := psOf_mono c.loko (i := lvl) (j := lvl + 1) (by omega)
  have hle := wlf_le_tmp c (lvl + 1)
  have hpt : psOf sa.levels sa.numLevels (lvl + 1) ≤ sa.itemsSize := psOf_le_top c.loks _
  have hpo : psOf o.levels o.numLevels (lvl + 1) ≤ o.itemsSize := psOf_le_top c.loko _
  have hlen' : WL'.length = ub + 2 := by rw [← hWL']; simp [ilen]
  have hwl' : ∀ j, j ≤ lvl + 1 → WL'.getD j 0 = wlf sa o j := by
    intro j hj
    rw [← hWL', getD_set]
    by_cases e : j = lvl + 1
    · rw [if_pos ⟨e, by rw [ilen]; omega⟩, e, hsucc]
    · rw [if_neg (fun x => e x.1)]; exact iwl j (by omega)
  have sob : SameOn h0 h' ob := isb.sameOn (fun j x => by rcases x with x | x; exact c.ne1 x.symm; exact c.ne3 x)
  have hco' : HasCells h' ob o.itemsSize := sob.cells _ c.hco
  have hlo' : LiveOn h' ob (o.levels.getD 1 0) o.itemsSize := fun j h1 h2 => by rw [sob.st]; exact c.hlo j h1 h2
  have hpo1 : o.levels.getD 1 0 ≤ psOf o.levels o.numLevels lvl := by
    have := psOf_mono c.loko (i := 1) (j := lvl) (by omega)
    rw [psOf_lt (by have := c.honl; omega)] at this; exact this
  -- closing the iteration once the blocks have been dealt with
  have fin : ∀ h2, SameBut h' h2 (fun b' _ => b' = ba ∨ b' = wb) → HasCells h2 ba sa.itemsSize → HasCells h2 wb tmp →
      (∀ j, j < psOf sa.levels sa.numLevels (lvl + 1) → stAt h2 ba j = .raw) →
      LiveOn h2 ba (psOf sa.levels sa.numLevels (lvl + 1)) sa.itemsSize →
      LiveOn h2 wb 0 (wlf sa o (lvl + 1)) → (∀ j, wlf sa o (lvl + 1) ≤ j → j < tmp → stAt h2 wb j = .raw) →
      PInv h0 h2 sa o ba wb tmp ub (lvl + 1) WL' := fun h2 sb2 a1 a2 a3 a4 a5 a6 =>
    ⟨hlen', hwl', isb.trans sb2 (fun _ _ x => x) (fun _ _ x => x), a1, a2, a3, a4, a5, a6⟩
  by_cases c1 : selfPop > 0 ∧ otherPop = 0
  · rw [if_pos c1]
    have hlt : lvl < sa.numLevels := by
      apply Classical.byContradiction; intro hge
      have : psOf sa.levels sa.numLevels (lvl + 1) = psOf sa.levels sa.numLevels lvl := by
        rw [psOf_top c.loks (by omega), psOf_top c.loks (by omega)]
      omega
    apply step_lv (by omega)
    rw [← psOf_lt (by omega : lvl ≤ sa.numLevels)]
    generalize hps : psOf sa.levels sa.numLevels lvl = a at *
    have e1 : a + selfPop = psOf sa.levels sa.numLevels (lvl + 1) := by omega
    apply vstep_moveConstructRange ica icw c.ne2 (by omega) (by omega) (by omega)
      (fun j h1 h2 => ialive j h1 (by omega)) (fun j h1 h2 => iwraw j h1 (by omega)) hSa hSw
    intro h2 sb2 hr2 hl2
    apply SafeF.pure
    apply fin h2 (sb2.mono (fun _ _ x => by rcases x with x | x; exact Or.inl x.1; exact Or.inr x.1))
      (sb2.cells _ _ ica) (sb2.cells _ _ icw)
    · intro j hj
      by_cases e : j < a
      · rw [sb2.st _ _ (fun x => by rcases x with x | x; omega; exact c.ne2 x.1)]; exact iaraw j e
      · exact hr2 j (by omega) (by omega)
    · intro j h1 h2'
      rw [sb2.st _ _ (fun x => by rcases x with x | x; omega; exact c.ne2 x.1)]; exact ialive j (by omega) h2'
    · intro j h1 h2'
      by_cases e : j < wlf sa o lvl
      · rw [sb2.st _ _ (fun x => by rcases x with x | x; exact c.ne2 x.1.symm; omega)]; exact iwlive j h1 e
      · exact hl2 j (by omega) (by omega)
    · intro j h1 h2'
      rw [sb2.st _ _ (fun x => by rcases x with x | x; exact c.ne2 x.1.symm; omega)]; exact iwraw j (by omega) h2'
  · rw [if_neg c1]
    by_cases c2 : selfPop = 0 ∧ otherPop > 0
    · rw [if_pos c2]
      have hlt : lvl < o.numLevels := by
        apply Classical.byContradiction; intro hge
        have : psOf o.levels o.numLevels (lvl + 1) = psOf o.levels o.numLevels lvl := by
          rw [psOf_top c.loko (by omega), psOf_top c.loko (by omega)]
        omega
      apply step_deref_eq c.hob
      apply step_lv (by omega)
      rw [← psOf_lt (by omega : lvl ≤ o.numLevels)]
      generalize hps : psOf o.levels o.numLevels lvl = a at *
      apply vstep_copyFrom hco' icw c.ne3 (by omega) (by omega) (fun j h1 h2 => hlo' j (by omega) (by omega))
        (fun j h1 h2 => iwraw j h1 (by omega)) hSw
      intro h2 sb2 hl2
      apply SafeF.pure
      have e0 : psOf sa.levels sa.numLevels (lvl + 1) = psOf sa.levels sa.numLevels lvl := by omega
      apply fin h2 (sb2.mono (fun _ _ x => Or.inr x.1)) (sb2.cells _ _ ica) (sb2.cells _ _ icw)
      · intro j hj
        rw [sb2.st _ _ (fun x => c.ne2 x.1)]; exact iaraw j (by omega)
      · intro j h1 h2'
        rw [sb2.st _ _ (fun x => c.ne2 x.1)]; exact ialive j (by omega) h2'
      · intro j h1 h2'
        by_cases e : j < wlf sa o lvl
        · rw [sb2.st _ _ (fun x => by omega)]; exact iwlive j h1 e
        · exact hl2 j (by omega) (by omega)
      · intro j h1 h2'
        rw [sb2.st _ _ (fun x => by omega)]; exact iwraw j (by omega) h2'
    · rw [if_neg c2]
      by_cases c3 : selfPop > 0 ∧ otherPop > 0
      · rw [if_pos c3]
        have hlts : lvl < sa.numLevels := by
          apply Classical.byContradiction; intro hge
          have : psOf sa.levels sa.numLevels (lvl + 1) = psOf sa.levels sa.numLevels lvl := by
            rw [psOf_top c.loks (by omega), psOf_top c.loks (by omega)]
          omega
        have hlto : lvl < o.numLevels := by
          apply Classical.byContradiction; intro hge
          have : psOf o.levels o.numLevels (lvl + 1) = psOf o.levels o.numLevels lvl := by
            rw [psOf_top c.loko (by omega), psOf_top c.loko (by omega)]
          omega
        apply step_deref_eq c.hob
        apply step_lv (by omega)
        apply step_lv (by omega)
        rw [← psOf_lt (by omega : lvl ≤ sa.numLevels), ← psOf_lt (by omega : lvl ≤ o.numLevels)]
        generalize hpa : psOf sa.levels sa.numLevels lvl = a at *
        generalize hpb : psOf o.levels o.numLevels lvl = b at *
        apply vstep_mergeInto ica hco' icw c.ne1 c.ne2 c.ne3 (by omega) (by omega) (by omega)
          (fun j h1 h2 => ialive j h1 (by omega)) (fun j h1 h2 => hlo' j (by omega) (by omega))
          (fun j h1 h2 => iwraw j h1 (by omega)) hSa hSw
        intro h2 sb2 hr2 hl2
        apply SafeF.pure
        apply fin h2 (sb2.mono (fun _ _ x => by rcases x with x | x; exact Or.inl x.1; exact Or.inr x.1))
          (sb2.cells _ _ ica) (sb2.cells _ _ icw)
        · intro j hj
          by_cases e : j < a
          · rw [sb2.st _ _ (fun x => by rcases x with x | x; omega; exact c.ne2 x.1)]; exact iaraw j e
          · exact hr2 j (by omega) (by omega)
        · intro j h1 h2'
          rw [sb2.st _ _ (fun x => by rcases x with x | x; omega; exact c.ne2 x.1)]; exact ialive j (by omega) h2'
        · intro j h1 h2'
          by_cases e : j < wlf sa o lvl
          · rw [sb2.st _ _ (fun x => by rcases x with x | x; exact c.ne2 x.1.symm; omega)]; exact iwlive j h1 e
          · exact hl2 j (by omega) (by omega)
        · intro j h1 h2'
          rw [sb2.st _ _ (fun x => by rcases x with x | x; exact c.ne2 x.1.symm; omega)]
          exact iwraw j (by omega) h2'
      · rw [if_neg c3]
        apply SafeF.pure
        have e0 : psOf sa.levels sa.numLevels (lvl + 1) = psOf sa.levels sa.numLevels lvl := by omega
        have e1 : wlf sa o (lvl + 1) = wlf sa o lvl := by omega
        apply fin h' (SameBut.refl _ _) ica icw
        · rw [e0]; exact iaraw
        · rw [e0]; exact ialive
        · rw [e1]; exact iwlive
        · rw [e1]; exact iwraw


theorem populate_spec {S : Nat → Bool} {h0 : Heap} {sa o : Sketch} {ba ob wb tmp ub : Nat}
    (c : PCtx h0 sa o ba ob wb tmp ub) (hSa : S ba = true) (hSw : S wb = true)
    (ils : ItemsLive h0 ba (sa.levels.getD 0 0) sa.itemsSize) (hcw : HasCells h0 wb tmp)
    (hrw : ∀ j, j < tmp → stAt h0 wb j = .raw) :
    SafeF S h0 (populateWorkArrays sa o false wb (List.replicate (ub + 2) 0) (max sa.numLevels o.numLevels) h0)
      (fun WL h' => WL.length = ub + 2 ∧ (∀ j, j ≤ max sa.numLevels o.numLevels → WL.getD j 0 = wlf sa o j) ∧
        SameBut h0 h' (fun b' _ => b' = ba ∨ b' = wb) ∧ (∀ j, j < sa.itemsSize → stAt h' ba j = .raw) ∧
        LiveOn h' wb 0 tmp) := by
  have hlens := c.loks.len
  have hnls := c.loks.nl
  have honl := c.honl
  unfold populateWorkArrays
  apply step_deref_eq c.hba
  apply step_setLv _ (by simp)
  apply step_lv (by omega)
  apply step_lv (by omega)
  have h01 : sa.levels.getD 0 0 ≤ sa.levels.getD 1 0 := c.loks.mono 0 (by omega)
  have h1t := c.loks.le_top 1 (by omega)
  have hw1 : wlf sa o 1 = sa.levels.getD 1 0 - sa.levels.getD 0 0 := by
    unfold wlf
    rw [psOf_lt (by omega), psOf_lt (by omega : max 1 1 ≤ o.numLevels)]
    simp
  have hw0 : wlf sa o 0 = 0 := by
    unfold wlf
    rw [psOf_lt (by omega), psOf_lt (by omega : max 0 1 ≤ o.numLevels)]
    simp
  have hwt := wlf_le_tmp c 1
  have hld : 0 + (sa.levels.getD 1 0 - sa.levels.getD 0 0) ≤ tmp := by omega
  apply vstep_moveConstructRange ils.cells hcw c.ne2 h01 h1t hld
    (fun j h1 h2 => ils.live j h1 (by omega)) (fun j h1 h2 => hrw j (by omega)) hSa hSw
  intro h1 sb1 hr1 hl1
  apply step_safeLevelSize hlens
  apply step_setLv _ (by simp)
  rw [psOf_lt (by omega), psOf_lt (by omega)]
  generalize hWL1 : ((List.replicate (ub + 2) 0).set 0 0).set (0 + 1) (sa.levels.getD (0 + 1) 0 - sa.levels.getD 0 0) = WL1
  have hlen1 : WL1.length = ub + 2 := by rw [← hWL1]; simp
  have inv1 : PInv h0 h1 sa o ba wb tmp ub 1 WL1 := by
    refine ⟨hlen1, fun j hj => ?_, sb1.mono (fun _ _ x => by rcases x with x | x; exact Or.inl x.1; exact Or.inr x.1),
      sb1.cells _ _ ils.cells, sb1.cells _ _ hcw, fun j hj => ?_, fun j h1' h2' => ?_, fun j h1' h2' => ?_,
      fun j h1' h2' => ?_⟩
    · rw [← hWL1]
      by_cases e : j = 0
      · subst e
        rw [getD_set_ne _ _ _ _ (by omega), getD_set_eq _ _ _ (by simp), hw0]
      · have : j = 1 := by omega
        subst this
        rw [getD_set_eq _ _ _ (by simp), hw1]
    · rw [psOf_lt (by omega)] at hj
      by_cases e : j < sa.levels.getD 0 0
      · rw [sb1.st _ _ (fun x => by rcases x with x | x; omega; exact c.ne2 x.1)]; exact ils.raw j e
      · exact hr1 j (by omega) hj
    · rw [psOf_lt (by omega)] at h1'
      rw [sb1.st _ _ (fun x => by rcases x with x | x; omega; exact c.ne2 x.1)]
      exact ils.live j (by omega) h2'
    · exact hl1 j (by omega) (by omega)
    · rw [sb1.st _ _ (fun x => by rcases x with x | x; exact c.ne2 x.1.symm; omega)]
      exact hrw j h2'
  have loop := TripleS.foldUp (n0 := 0) (S := S)
    (fun lvl (WL : List Nat) h' => PInv h0 h' sa o ba wb tmp ub lvl WL) _ (max sa.numLevels o.numLevels - 1) 1 WL1
    (fun i a h1' h2' => populate_body c hSa hSw i a h1' (by omega))
  apply SafeF.last
  apply SafeF.bind_triple loop (Nat.zero_le _) inv1
  intro WL h2 inv2 _
  apply SafeF.pure
  have e : 1 + (max sa.numLevels o.numLevels - 1) = max sa.numLevels o.numLevels := by omega
  rw [e] at inv2
  have htop : wlf sa o (max sa.numLevels o.numLevels) = tmp := by
    unfold wlf
    rw [psOf_top c.loks (by omega), psOf_top c.loko (by omega), c.htmp]
  have hps : psOf sa.levels sa.numLevels (max sa.numLevels o.numLevels) = sa.itemsSize := psOf_top c.loks (by omega)
  refine ⟨inv2.len, inv2.wl, inv2.sb, fun j hj => inv2.araw j (by rw [hps]; exact hj), ?_⟩
  rw [← htop]; exact inv2.wlive

/-- the total weight of the work levels -/
theorem wlf_weight {h0 : Heap} {sa o : Sketch} {ba ob wb tmp ub : Nat} (c : PCtx h0 sa o ba ob wb tmp ub)
    {WL : List Nat} (hwl : ∀ j, j ≤ max sa.numLevels o.numLevels → WL.getD j 0 = wlf sa o j) :
    wsum (pop WL) (max sa.numLevels o.numLevels) + pop o.levels 0 = W sa + W o := by
  have honl := c.honl
  have key : wsum (pop WL) (max sa.numLevels o.numLevels) =
      wsum (fun l => (if l < sa.numLevels then pop sa.levels l else 0) +
        (if l = 0 then 0 else if l < o.numLevels then pop o.levels l else 0))
        (max sa.numLevels o.numLevels) := by
    apply wsum_congr
    intro l hl
    simp only [pop]
    rw [hwl l (by omega), hwl (l + 1) (by omega)]
    by_cases e0 : l = 0
    · subst e0
      have h1 : wlf sa o 0 = 0 := by
        unfold wlf
        rw [psOf_lt (by omega), psOf_lt (by omega : max 0 1 ≤ o.numLevels)]
        simp
      have h2 : wlf sa o (0 + 1) = sa.levels.getD 1 0 - sa.levels.getD 0 0 := by
        unfold wlf
        rw [psOf_lt (by have := c.loks.nl; omega), psOf_lt (by omega : max (0 + 1) 1 ≤ o.numLevels)]
        simp
      rw [h1, h2, if_pos (by have := c.loks.nl; omega), if_pos rfl]
      simp
    · rw [wlf_succ c (by omega), if_neg e0]
      have hms := psOf_mono c.loks (i := l) (j := l + 1) (by omega)
      have hmo := psOf_mono c.loko (i := l) (j := l + 1) (by omega)
      have e1 : psOf sa.levels sa.numLevels (l + 1) - psOf sa.levels sa.numLevels l =
          (if l < sa.numLevels then sa.levels.getD (l + 1) 0 - sa.levels.getD l 0 else 0) := by
        by_cases hs : l < sa.numLevels
        · rw [if_pos hs, psOf_lt (by omega), psOf_lt (by omega)]
        · rw [if_neg hs, psOf_top c.loks (by omega), psOf_top c.loks (by omega)]; omega
      have e2 : psOf o.levels o.numLevels (l + 1) - psOf o.levels o.numLevels l =
          (if l < o.numLevels then o.levels.getD (l + 1) 0 - o.levels.getD l 0 else 0) := by
        by_cases hs : l < o.numLevels
        · rw [if_pos hs, psOf_lt (by omega), psOf_lt (by omega)]
        · rw [if_neg hs, psOf_top c.loko (by omega), psOf_top c.loko (by omega)]; omega
      rw [← e1, ← e2]
      omega
  have hsplit : wsum (fun l => (if l < sa.numLevels then pop sa.levels l else 0) +
        (if l = 0 then 0 else if l < o.numLevels then pop o.levels l else 0)) (max sa.numLevels o.numLevels) =
      wsum (fun l => if l < sa.numLevels then pop sa.levels l else 0) (max sa.numLevels o.numLevels) +
      wsum (fun l => if l = 0 then 0 else if l < o.numLevels then pop o.levels l else 0)
        (max sa.numLevels o.numLevels) :=
    wsum_add (fun l => if l < sa.numLevels then pop sa.levels l else 0)
      (fun l => if l = 0 then 0 else if l < o.numLevels then pop o.levels l else 0) (max sa.numLevels o.numLevels)
  have h2 := wsum_ext_zero (pop sa.levels) (nl := sa.numLevels) (n := max sa.numLevels o.numLevels) (by omega)
  have h3 : wsum (fun l => if l = 0 then 0 else if l < o.numLevels then pop o.levels l else 0)
        (max sa.numLevels o.numLevels) + (if 0 < o.numLevels then pop o.levels 0 else 0) =
      wsum (fun l => if l < o.numLevels then pop o.levels l else 0) (max sa.numLevels o.numLevels) :=
    wsum_drop0 (fun l => if l < o.numLevels then pop o.levels l else 0) (n := max sa.numLevels o.numLevels) (by omega)
  have h4 := wsum_ext_zero (pop o.levels) (nl := o.numLevels) (n := max sa.numLevels o.numLevels) (by omega)
  rw [h4] at h3
  rw [if_pos (by omega)] at h3
  unfold W
  rw [sumSampleWeights_eq, sumSampleWeights_eq, key, hsplit, h2]
  omega

end DS.Life.Kll

/-
Helper lemmas for the VarOpt images: the mark bit-packing (8 per byte, least significant bit first).
-/
import DSProofs.Lemmas.WireCount
import DSModel.Wire.VarOpt
namespace DS.Wire.VarOpt
open DS.Wire

theorem packByte_lt (l : List Bool) : packByte l < 2 ^ l.length := by
  induction l with
  | nil => simp [packByte]
  | cons b t ih =>
    simp only [packByte, List.length_cons, Nat.pow_succ]
    cases b <;> simp <;> omega

theorem unpackByte_packByte (l : List Bool) : unpackByte l.length (packByte l) = l := by
  induction l with
  | nil => rfl
  | cons b t ih =>
    simp only [List.length_cons, unpackByte, packByte]
    have h1 : ((if b = true then 1 else 0) + 2 * packByte t) / 2 = packByte t := by cases b <;> simp <;> omega
    have h2 : (((if b = true then 1 else 0) + 2 * packByte t) % 2 == 1) = b := by cases b <;> simp <;> omega
    rw [h1, h2, ih]

theorem length_packMarksN (nb : Nat) (l : List Bool) : (packMarksN nb l).length = nb := by
  induction nb generalizing l with
  | zero => rfl
  | succ nb ih => simp [packMarksN, ih]

theorem length_packMarks (l : List Bool) : (packMarks l).length = marksBytes l.length := length_packMarksN _ l

theorem marksRd_pack (nb : Nat) : ∀ (l : List Bool) (r : Bytes), marksBytes l.length = nb →
    marksRd nb l.length (packMarksN nb l ++ r) = some (l, r) := by
  induction nb with
  | zero =>
    intro l r h
    have : l.length = 0 := by simp only [marksBytes] at h; omega
    have hl : l = [] := List.eq_nil_of_length_eq_zero this
    subst hl; rfl
  | succ nb ih =>
    intro l r h
    simp only [marksBytes] at h
    have hlen : (l.take 8).length = min l.length 8 := by simp [Nat.min_comm]
    have hlt : packByte (l.take 8) < 256 := by
      have := packByte_lt (l.take 8)
      have h8 : (l.take 8).length ≤ 8 := by rw [List.length_take]; exact Nat.min_le_left _ _
      calc packByte (l.take 8) < 2 ^ (l.take 8).length := this
        _ ≤ 2 ^ 8 := Nat.pow_le_pow_right (by decide) h8
    have hb : (UInt8.ofNat (packByte (l.take 8))).toNat = packByte (l.take 8) := by
      simp [UInt8.toNat_ofNat', Nat.mod_eq_of_lt hlt]
    have hd : marksBytes (l.drop 8).length = nb := by simp only [marksBytes, List.length_drop]; omega
    have ih' := ih (l.drop 8) r hd
    simp only [List.length_drop] at ih'
    simp only [marksRd, packMarksN, List.cons_append, Reader.bind, byte, ih', Reader.pure, hb]
    rw [← hlen, unpackByte_packByte, List.take_append_drop]

theorem bind_marksRd {β : Type} (l : List Bool) (h nb : Nat) (hh : h = l.length) (hnb : nb = marksBytes l.length)
    (f : List Bool → Reader β) (r : Bytes) :
    Reader.bind (marksRd nb h) f (packMarks l ++ r) = f l r := by
  subst hh; subst hnb
  exact bind_ok _ _ _ _ _ (marksRd_pack _ l r rfl)

theorem PS_marksRd (nb : Nat) : ∀ h, PS (marksRd nb h) := by
  induction nb with
  | zero => intro h; exact PS_pure _
  | succ nb ih => intro h; exact PS_bind _ _ PS_byte (fun _ => PS_bind _ _ (ih _) (fun _ => PS_pure _))

theorem all_posF64 (ws : List Nat) (h : ∀ w ∈ ws, w < 2 ^ 64 ∧ posF64 w = true) : ws.all posF64 = true := by
  simp only [List.all_eq_true]
  intro w hw; exact (h w hw).2

end DS.Wire.VarOpt

/-
`Rat` as a weight type (what `count_min_sketch<double>` computes in exact arithmetic), and the upper bound
`static_cast<W>(estimate + e/numBuckets * total)` in exact arithmetic for integer and rational weights.
-/
import DSProofs.Lemmas.CountMinThms
import Mathlib.Data.Rat.Floor
import Mathlib.Tactic.Linarith
namespace DS.CountMin

instance : Weight Rat where
  zero := 0
  add := (· + ·)
  absw w := if 0 ≤ w then w else -w
  lt a b := decide (a < b)
  isZero a := decide (a = 0)

instance : WeightLaws Rat where
  le a b := a ≤ b
  le_refl a := _root_.le_refl a
  le_trans := _root_.le_trans
  le_antisymm := _root_.le_antisymm
  le_total := _root_.le_total
  lt_iff a b := by simp [Weight.lt]
  add_assoc := _root_.add_assoc
  add_comm := _root_.add_comm
  zero_add := _root_.zero_add
  add_le_add_left c h := by simpa [Weight.add] using h
  absw_of_nonneg := by intro w h; simp only [Weight.absw, Weight.zero] at *; simp [h]
  absw_of_neg := by
    intro w h
    simp only [Weight.absw, Weight.zero, Weight.add] at *
    simp [h]
  isZero_iff a := by simp [Weight.isZero, Weight.zero]

/-- C++ conversion of a real to an integer type: truncation toward zero -/
def truncQ (q : ℚ) : ℤ := if 0 ≤ q then ⌊q⌋ else ⌈q⌉

theorem le_truncQ_add (e : ℤ) (d : ℚ) (hd : 0 ≤ d) : e ≤ truncQ ((e : ℚ) + d) := by
  have h1 : e ≤ ⌊(e : ℚ) + d⌋ := by rw [Int.le_floor]; linarith
  unfold truncQ; split
  · exact h1
  · exact _root_.le_trans h1 (Int.floor_le_ceil _)

/-- `static_cast<int64_t>(est + E/numBuckets * total)` in exact arithmetic, for any non-negative constant `E`
(the code's `exp(1.0)`) -/
def ubExactInt (E : ℚ) (nb : Nat) (est total : Int) : Int := truncQ ((est : ℚ) + E / nb * total)

/-- `est + E/numBuckets * total` for `W = double` in exact arithmetic -/
def ubExactRat (E : ℚ) (nb : Nat) (est total : ℚ) : ℚ := est + E / nb * total

theorem ubExactInt_ge (E : ℚ) (hE : 0 ≤ E) (nb : Nat) (e t : Int) (ht : WeightLaws.le (Weight.zero : Int) t) :
    WeightLaws.le e (ubExactInt E nb e t) := by
  have ht' : (0 : ℤ) ≤ t := ht
  show e ≤ ubExactInt E nb e t
  unfold ubExactInt
  apply le_truncQ_add
  have : (0 : ℚ) ≤ (t : ℚ) := by exact_mod_cast ht'
  positivity

theorem ubExactRat_ge (E : ℚ) (hE : 0 ≤ E) (nb : Nat) (e t : ℚ) (ht : WeightLaws.le (Weight.zero : ℚ) t) :
    WeightLaws.le e (ubExactRat E nb e t) := by
  have ht' : (0 : ℚ) ≤ t := ht
  show e ≤ ubExactRat E nb e t
  unfold ubExactRat
  have : 0 ≤ E / nb * t := by positivity
  linarith

end DS.CountMin

/- C19, KLL sketch part 9: `compactAt`, `find_level_to_compact`, `add_empty_top_level_to_completely_full_sketch`. -/
import DSProofs.Lemmas.LifeKllH
namespace DS.Life.Kll
open DS.Life

/-- the levels after a compaction are again consistent -/
theorem CompLevels.levelsOK {k m nl sz : Nat} {ls ls3 : List Nat} {level rawBeg rawLim half : Nat}
    (c : CompLevels ls ls3 level rawBeg rawLim half) (lok : LevelsOK k m nl ls sz) (hlv : level + 2 ≤ nl)
    (eb : ls.getD level 0 = rawBeg) (el : ls.getD (level + 1) 0 = rawLim) (hh : 2 * half ≤ rawLim - rawBeg) :
    LevelsOK k m nl ls3 sz ∧ ls3.getD 0 0 = ls.getD 0 0 + half := by
  obtain ⟨hlen, hg⟩ := c
  have hmono := lok.mono
  refine ⟨⟨lok.nl, by rw [hlen]; exact lok.len, fun i hi => ?_, ?_, lok.cap⟩, ?_⟩
  · rw [hg i, hg (i + 1)]
    have h1 := hmono i hi
    by_cases c1 : i + 1 < level
    · rw [if_pos (by omega), if_pos c1]; omega
    · by_cases c2 : i + 1 = level
      · rw [if_pos (by omega), if_neg (by omega), if_pos c2]
        rw [← c2] at eb; omega
      · by_cases c3 : i = level
        · rw [if_neg (by omega), if_pos c3, if_neg (by omega), if_neg (by omega), if_pos (by omega)]
          subst c3
          have := hmono i (by omega); omega
        · by_cases c4 : i = level + 1
          · rw [if_neg (by omega), if_neg c3, if_pos c4, if_neg (by omega), if_neg (by omega), if_neg (by omega)]
            subst c4
            have := hmono level (by omega); omega
          · rw [if_neg (by omega), if_neg c3, if_neg c4, if_neg (by omega), if_neg (by omega), if_neg (by omega)]
            exact h1
  · rw [hg nl, if_neg (by omega), if_neg (by omega), if_neg (by omega)]; exact lok.top
  · rw [hg 0]
    by_cases c0 : 0 < level
    · rw [if_pos c0]
    · have : level = 0 := by omega
      subst this
      rw [if_neg c0, if_pos rfl, eb]

/-- a compaction keeps the total weight -/
theorem CompLevels.weight {k m nl sz : Nat} {ls ls3 : List Nat} {level rawBeg rawLim half : Nat}
    (c : CompLevels ls ls3 level rawBeg rawLim half) (lok : LevelsOK k m nl ls sz) (hlv : level + 2 ≤ nl)
    (eb : ls.getD level 0 = rawBeg) (el : ls.getD (level + 1) 0 = rawLim) (hh : 2 * half ≤ rawLim - rawBeg) :
    sumSampleWeights nl ls3 = sumSampleWeights nl ls := by
  obtain ⟨_, hg⟩ := c
  have hmono := lok.mono
  rw [sumSampleWeights_eq, sumSampleWeights_eq]
  have h12 := hmono (level + 1) (by omega)
  have h01 := hmono level (by omega)
  apply wsum_move (i := level) (hh := half) (by omega)
  · simp only [pop]
    rw [hg level, hg (level + 1), if_neg (by omega), if_pos rfl, if_neg (by omega), if_neg (by omega), if_pos rfl]
    omega
  · simp only [pop]
    rw [hg (level + 1), hg (level + 1 + 1), if_neg (by omega), if_neg (by omega), if_pos rfl, if_neg (by omega),
      if_neg (by omega), if_neg (by omega)]
    omega
  · intro l h1 h2
    simp only [pop]
    rw [hg l, hg (l + 1)]
    by_cases c1 : l + 1 < level
    · rw [if_pos c1, if_pos (by omega)]; omega
    · by_cases c2 : l + 1 = level
      · rw [if_neg c1, if_pos c2, if_pos (by omega)]
        rw [← c2] at eb; omega
      · rw [if_neg c1, if_neg c2, if_neg (by omega), if_neg (by omega), if_neg h1, if_neg h2]

theorem compactAt_spec {S : Nat → Bool} (s : Sketch) {b : Nat} (level : Nat) (coins : List Bool) (hS : S b = true)
    (h : Heap) (hb : s.items = some b) (lok : LevelsOK s.k s.m s.numLevels s.levels s.itemsSize)
    (il : ItemsLive h b (s.levels.getD 0 0) s.itemsSize) (hlv : level + 2 ≤ s.numLevels)
    (hp2 : 2 ≤ s.levels.getD (level + 1) 0 - s.levels.getD level 0) :
    SafeF S h (compactAt s level coins h)
      (fun r h' => ∃ ls3, r = ({ s with levels := ls3 }, (nextCoin coins).2) ∧
        LevelsOK s.k s.m s.numLevels ls3 s.itemsSize ∧ 1 ≤ ls3.getD 0 0 ∧
        SameBut h h' (fun b' _ => b' = b) ∧ ItemsLive h' b (ls3.getD 0 0) s.itemsSize ∧
        sumSampleWeights s.numLevels ls3 = sumSampleWeights s.numLevels s.levels) := by
  have hlen := lok.len
  have h0b : s.levels.getD 0 0 ≤ s.levels.getD level 0 := lok.le_of_le level 0 (Nat.zero_le _) (by omega)
  have hbl : s.levels.getD level 0 ≤ s.levels.getD (level + 1) 0 := lok.mono level (by omega)
  have hlt : s.levels.getD (level + 1) 0 ≤ s.levels.getD (level + 2) 0 := lok.mono (level + 1) (by omega)
  have hts : s.levels.getD (level + 2) 0 ≤ s.itemsSize := lok.le_top _ hlv
  unfold compactAt
  apply step_deref_eq hb
  apply step_lv (by omega)
  apply step_lv (by omega)
  apply step_lv (by omega)
  apply step_lv (by omega)
  generalize hrb : s.levels.getD level 0 = rawBeg at *
  generalize hrl : s.levels.getD (level + 1) 0 = rawLim at *
  generalize htp : s.levels.getD (level + 2) 0 = top at *
  generalize hl0 : s.levels.getD 0 0 = l0 at *
  generalize hab : (if (rawLim - rawBeg) % 2 = 1 then rawBeg + 1 else rawBeg) = adjBeg
  generalize hap : (if (rawLim - rawBeg) % 2 = 1 then rawLim - rawBeg - 1 else rawLim - rawBeg) = adjPop
  have hodd : (rawLim - rawBeg) % 2 = 1 → adjBeg = rawBeg + 1 ∧ adjPop + 1 = rawLim - rawBeg := fun ho => by
    rw [if_pos ho] at hab hap; omega
  have hev : ¬ (rawLim - rawBeg) % 2 = 1 → adjBeg = rawBeg ∧ adjPop = rawLim - rawBeg := fun ho => by
    rw [if_neg ho] at hab hap; omega
  have hadj : adjBeg + adjPop = rawLim ∧ 2 ≤ adjPop ∧ rawBeg ≤ adjBeg := by
    by_cases ho : (rawLim - rawBeg) % 2 = 1
    · have := hodd ho; omega
    · have := hev ho; omega
  have fin : ∀ h1, SameBut h h1 (fun b' _ => b' = b) → (∀ i, i < l0 → stAt h1 b i = .raw) → LiveOn h1 b l0 s.itemsSize →
      SafeF S h1 (tail2 s b level rawBeg rawLim (rawLim - rawBeg) adjBeg adjPop (top - rawLim) l0 coins h1)
        (fun r h' => ∃ ls3, r = ({ s with levels := ls3 }, (nextCoin coins).2) ∧
          LevelsOK s.k s.m s.numLevels ls3 s.itemsSize ∧ 1 ≤ ls3.getD 0 0 ∧
          SameBut h h' (fun b' _ => b' = b) ∧ ItemsLive h' b (ls3.getD 0 0) s.itemsSize ∧
          sumSampleWeights s.numLevels ls3 = sumSampleWeights s.numLevels s.levels) := by
    intro h1 sb1 hraw1 hl1
    have r := tail2_spec (S := S) s (sz := s.itemsSize) (top := top) coins hS h1 (sb1.cells _ _ il.cells) (by omega)
      hl0 hrb hrl rfl h0b hbl hlt hts hp2 hodd hev hraw1 hl1
    refine r.mono ?_
    intro r' h' ⟨⟨ls3, er, cl⟩, sb', il'⟩
    obtain ⟨lok3, e3⟩ := cl.levelsOK lok hlv hrb hrl (by omega)
    rw [hl0] at e3
    refine ⟨ls3, er, lok3, by omega, sb1.trans sb' (fun _ _ x => x) (fun _ _ x => x), by rw [e3]; exact il',
      cl.weight lok hlv hrb hrl (by omega)⟩
  by_cases hsort : level = 0 ∧ (!s.lvl0Sorted) = true
  · rw [if_pos hsort]
    apply vstep_sortRange il.cells (by omega) (fun j h1 h2 => il.live j (by omega) (by omega)) hS
    intro h1 sb1 hl1
    apply fin h1 (sb1.mono (fun _ _ x => x.1))
    · intro i hi
      rw [sb1.st b i (fun x => by omega)]; exact il.raw i hi
    · intro j h1' h2'
      by_cases e : adjBeg ≤ j ∧ j < adjBeg + adjPop
      · exact hl1 j e.1 e.2
      · rw [sb1.st b j (fun x => e x.2)]; exact il.live j h1' h2'
  · rw [if_neg hsort]
    exact fin h (SameBut.refl _ _) il.raw il.live


theorem findLevel_spec {S : Nat → Bool} (s : Sketch) (h : Heap) (hlen : s.numLevels + 1 ≤ s.levels.length) :
    ∀ fuel level, SafeF S h (findLevelToCompact s fuel level h)
      (fun r h' => h' = h ∧ r < s.numLevels ∧
        levelCapacity s.k s.numLevels r s.m ≤ s.levels.getD (r + 1) 0 - s.levels.getD r 0) := by
  intro fuel
  induction fuel with
  | zero => intro level; exact SafeF.exc _
  | succ f ih =>
    intro level
    unfold findLevelToCompact
    by_cases hl : level ≥ s.numLevels
    · rw [if_pos hl]; exact SafeF.exc _
    · rw [if_neg hl]
      apply step_lv (by omega)
      apply step_lv (by omega)
      by_cases hc : s.levels.getD (level + 1) 0 - s.levels.getD level 0 ≥ levelCapacity s.k s.numLevels level s.m
      · rw [if_pos hc]
        apply SafeF.pure
        exact ⟨rfl, by omega, hc⟩
      · rw [if_neg hc]
        exact ih (level + 1)

/-- `add_empty_top_level_to_completely_full_sketch` -/
theorem addEmptyTopLevel_spec {S : Nat → Bool} (s : Sketch) {b : Nat} (h : Heap) (hSb : S b = true)
    (hSn : S h.next = true) (hb : s.items = some b) (hblt : b < h.next)
    (lok : LevelsOK s.k s.m s.numLevels s.levels s.itemsSize) (il : ItemsLive h b (s.levels.getD 0 0) s.itemsSize) :
    SafeF S h (addEmptyTopLevel s h)
      (fun s' h' => ∃ L', s' = { s with items := some h.next, itemsSize := s.itemsSize + levelCapacity s.k (s.numLevels + 1) 0 s.m, levels := L', numLevels := s.numLevels + 1 } ∧
        LevelsOK s.k s.m (s.numLevels + 1) L' (s.itemsSize + levelCapacity s.k (s.numLevels + 1) 0 s.m) ∧
        (∀ i, i ≤ s.numLevels → L'.getD i 0 = s.levels.getD i 0 + levelCapacity s.k (s.numLevels + 1) 0 s.m) ∧
        ItemsLive h' h.next (L'.getD 0 0) (s.itemsSize + levelCapacity s.k (s.numLevels + 1) 0 s.m) ∧
        (∀ x, x ≠ b → x ≠ h.next → SameOn h h' x) ∧ h'.ids = (h.next :: h.ids).filter (fun x => x != b) ∧
        h'.next = h.next + 1 ∧ sumSampleWeights (s.numLevels + 1) L' = sumSampleWeights s.numLevels s.levels) := by
  have hlen := lok.len
  unfold addEmptyTopLevel
  apply step_lv (by omega)
  apply step_lv (by omega)
  rw [lok.top]
  by_cases hl0 : s.levels.getD 0 0 ≠ 0
  · rw [if_pos hl0]; exact SafeF.exc _
  rw [if_neg hl0]
  rw [if_neg (by simp)]
  have hz : s.levels.getD 0 0 = 0 := by omega
  generalize hdc : levelCapacity s.k (s.numLevels + 1) 0 s.m = dc
  obtain ⟨hg1, hg2⟩ := growLevels_length s.levels (s.numLevels + 2)
  have hgg := growLevels_getD s.levels (s.numLevels + 2)
  have hg3 := growLevels_length_eq s.levels (s.numLevels + 2) (by omega)
  generalize hG : growLevels s.levels (s.numLevels + 2) = G at hg1 hg2 hgg hg3
  apply vstep_alloc' _ _ hSn
  intro h1 hc1 hr1 so1 hid1 hnx1
  apply step_deref_eq hb
  have hne : b ≠ h.next := by omega
  have sob := so1 b hne
  apply vstep_moveConstructRange (sob.cells _ il.cells) hc1 hne (Nat.zero_le _) (Nat.le_refl _) (by omega)
    (fun j _ h2' => by rw [sob.st]; exact il.live j (by omega) h2') (fun j _ h2' => hr1 j (by omega)) hSb hSn
  intro h2 sb2 hr2 hl2
  apply vstep_dealloc' (sb2.cells _ _ (sob.cells _ il.cells)) (fun i hi => hr2 i (Nat.zero_le _) hi) hSb
  intro h3 so3 hid3 hnx3
  obtain ⟨L1, eL1, hlen1, hgL1⟩ := shiftLevels_ok dc (s.numLevels + 1) 0 G (by omega)
  rw [eL1, pure_bind_apply]
  apply step_lv (by omega)
  have htop : L1.getD s.numLevels 0 = s.itemsSize + dc := by
    rw [hgL1, if_pos ⟨Nat.zero_le _, by omega⟩, hgg _ (by omega), lok.top]
  rw [htop, if_neg (by simp)]
  apply step_setLv _ (by omega)
  apply SafeF.pure
  generalize hL : L1.set (s.numLevels + 1) (s.itemsSize + dc) = L
  have hlenL : L.length = G.length := by rw [← hL]; simp [hlen1]
  have hgL : ∀ i, i ≤ s.numLevels → L.getD i 0 = s.levels.getD i 0 + dc := by
    intro i hi
    rw [← hL, getD_set_ne _ _ _ _ (by omega), hgL1, if_pos ⟨Nat.zero_le _, by omega⟩, hgg _ (by omega)]
  have hgT : L.getD (s.numLevels + 1) 0 = s.itemsSize + dc := by
    rw [← hL, getD_set_eq _ _ _ (by omega)]
  refine ⟨L, rfl, ⟨by omega, by omega, fun i hi => ?_, hgT, ?_⟩, hgL, ?_, ?_, ?_, ?_, ?_⟩
  · by_cases e : i = s.numLevels
    · subst e; rw [hgL _ (Nat.le_refl _), hgT, lok.top]; exact Nat.le_refl _
    · rw [hgL i (by omega), hgL (i + 1) (by omega)]
      have := lok.mono i (by omega); omega
  · rw [computeTotalCapacity_succ, ← lok.cap, hdc]
  · rw [hgL 0 (Nat.zero_le _), hz]
    refine ⟨(so3 _ (fun e => hne e.symm)).cells _ (sb2.cells _ _ hc1), fun i hi => ?_, fun i h1' h2' => ?_⟩
    · rw [(so3 _ (fun e => hne e.symm)).st, sb2.st _ _ (fun x => by
        rcases x with x | x
        · exact hne x.1.symm
        · omega)]
      exact hr1 i (by omega)
    · rw [(so3 _ (fun e => hne e.symm)).st]
      exact hl2 i (by omega) (by omega)
  · intro x hx1 hx2
    exact ((so1 x hx2).trans (sb2.sameOn (fun j y => by rcases y with y | y; exact hx1 y.1; exact hx2 y.1))).trans
      (so3 x hx1)
  · rw [hid3, sb2.ids, hid1]
  · rw [hnx3, sb2.next, hnx1]
  · rw [sumSampleWeights_eq, sumSampleWeights_eq]
    simp only [wsum]
    have e1 : pop L s.numLevels = 0 := by
      simp only [pop]; rw [hgT, hgL _ (Nat.le_refl _), lok.top]; omega
    rw [e1, Nat.mul_zero, Nat.add_zero]
    apply wsum_congr
    intro l hl
    simp only [pop]
    rw [hgL l (by omega), hgL (l + 1) (by omega)]
    have := lok.mono l hl
    omega

end DS.Life.Kll

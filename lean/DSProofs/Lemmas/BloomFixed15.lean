/- Repaired model: what `parseImage` reads back from a freshly initialised block and from a serialized image. -/
import DSProofs.Lemmas.BloomFixed14
namespace DS.Bloom

/-- evaluating `parseImage` from the values of the fields it reads (standard image; either reader shape) -/
theorem parseImage_eval_full (P : Params) (hP : P.Wire) (b : Block) (cap nh seed nbs : Nat)
    (hlen : 32 ≤ b.len)
    (e0 : getField b.val 0 8 = 4) (e1 : getField b.val 8 8 = P.serVer) (e2 : getField b.val 16 8 = P.family)
    (e3 : getField b.val 24 8 = 0) (e4 : getField b.val 32 16 = nh) (e5 : getField b.val 64 64 = seed)
    (e6 : getField b.val 128 32 = cap / 64) (e7 : getField b.val 192 64 = nbs)
    (hcap : 0 < cap) (h64 : cap % 64 = 0) (hlt : cap < 2 ^ 32) (hk : 1 ≤ nh) :
    parseImage P b = .full cap nh seed nbs (cap / 64) := by
  have hc : capOf P (cap / 64) = cap := by unfold capOf; split <;> omega
  have hnl : cap / 64 ≠ 0 := by omega
  have hnh : nh ≠ 0 := by omega
  simp only [parseImage, e0, e1, e2, e3, e4, e5, e6, e7, hP.preEmpty, hP.preStd, hP.emptyMask, hc]
  repeat' split
  all_goals first
    | rfl
    | (exfalso; omega)
    | (exfalso; simp_all; done)
    | (exfalso; rename_i h; simp [hnh, hnl] at h; done)
    | (exfalso; rename_i h; simp [hnh, hnl] at h; omega)

/-- evaluating `parseImage` for an image with the EMPTY flag -/
theorem parseImage_eval_empty (P : Params) (hP : P.Wire) (b : Block) (nh seed nl : Nat)
    (hlen : 24 ≤ b.len)
    (e0 : getField b.val 0 8 = 3) (e1 : getField b.val 8 8 = P.serVer) (e2 : getField b.val 16 8 = P.family)
    (e3 : getField b.val 24 8 = 4) (e4 : getField b.val 32 16 = nh) (e5 : getField b.val 64 64 = seed)
    (e6 : getField b.val 128 32 = nl) (hk : 1 ≤ nh) (hnl : nl ≠ 0) :
    parseImage P b = .emptyImg (capOf P nl) nh seed := by
  have hnh : nh ≠ 0 := by omega
  simp only [parseImage, e0, e1, e2, e3, e4, e5, e6, hP.preEmpty, hP.preStd, hP.emptyMask]
  repeat' split
  all_goals first
    | rfl
    | (exfalso; omega)
    | (exfalso; simp_all; done)
    | (exfalso; rename_i h; simp [hnh, hnl] at h; done)

theorem parse_init (P : Params) (hP : P.Wire) (len X0 cap nh seed : Nat) (hlen : 8 * (4 + cap / 64) ≤ len)
    (hcap : 0 < cap) (h64 : cap % 64 = 0) (hlt : cap < 2 ^ 32) (hnh : nh < 2 ^ 16) (hseed : seed < 2 ^ 64) (hk : 1 ≤ nh) :
    parseImage P ⟨len, setField X0 0 (8 * (24 + 8 * (cap / 64 + 1))) (headerVal P P.preStd 0 nh seed (cap / 64))⟩
      = .full cap nh seed 0 (cap / 64) := by
  have hf := headerVal_fields P P.preStd 0 nh seed (cap / 64)
  have hW : ∀ off w, off + w ≤ 256 → off + w ≤ 8 * (24 + 8 * (cap / 64 + 1)) := by intro off w h; omega
  apply parseImage_eval_full P hP _ cap nh seed 0 (by simp only; omega)
  · simp only; rw [getField_setField_inside _ _ _ _ _ (hW _ _ (by omega)), hf.1, hP.preStd]
  · simp only; rw [getField_setField_inside _ _ _ _ _ (hW _ _ (by omega)), hf.2.1]; exact Nat.mod_eq_of_lt hP.serVer
  · simp only; rw [getField_setField_inside _ _ _ _ _ (hW _ _ (by omega)), hf.2.2.1]; exact Nat.mod_eq_of_lt hP.family
  · simp only; rw [getField_setField_inside _ _ _ _ _ (hW _ _ (by omega)), hf.2.2.2.1]
  · simp only; rw [getField_setField_inside _ _ _ _ _ (hW _ _ (by omega)), hf.2.2.2.2.1]; exact Nat.mod_eq_of_lt hnh
  · simp only; rw [getField_setField_inside _ _ _ _ _ (hW _ _ (by omega)), hf.2.2.2.2.2.1]; exact Nat.mod_eq_of_lt hseed
  · simp only; rw [getField_setField_inside _ _ _ _ _ (hW _ _ (by omega)), hf.2.2.2.2.2.2]; exact Nat.mod_eq_of_lt (by omega)
  · simp only; rw [getField_setField_inside _ _ _ _ _ (hW _ _ (by omega))]
    apply Nat.eq_of_testBit_eq; intro i
    rw [testBit_getField, headerVal_high _ _ _ _ _ _ _ (by omega)]; simp
  · exact hcap
  · exact h64
  · exact hlt
  · exact hk

/-- the bit array of a freshly initialised block is clear -/
theorem init_bits_clear (P : Params) (X0 cap nh seed j : Nat) (hj : j < cap) (h64 : cap % 64 = 0) :
    (setField X0 0 (8 * (24 + 8 * (cap / 64 + 1))) (headerVal P P.preStd 0 nh seed (cap / 64))).testBit (256 + j) = false := by
  have := testBit_setField_in X0 0 (8 * (24 + 8 * (cap / 64 + 1))) (headerVal P P.preStd 0 nh seed (cap / 64)) (256 + j) (by omega)
  simp only [Nat.zero_add] at this
  rw [this]; exact headerVal_high _ _ _ _ _ _ _ (by omega)

theorem parse_image_full (P : Params) (hP : P.Wire) (w : World) (f : Filter) (hw : FWF f) (hk : KOK f) (hne : f.isEmpty = false) :
    parseImage P (image P w f) = .full f.capBits f.numHashes f.seed ((if f.dirty then P.dirty else f.nbs) % 2 ^ 64) (f.capBits / 64) := by
  have hf := headerVal_fields P P.preStd 0 f.numHashes f.seed (f.capBits / 64)
  have hcl := hk.2
  have h64 := hw.cap64
  simp only [image, hne, Bool.false_eq_true, if_false]
  apply parseImage_eval_full P hP _ f.capBits f.numHashes f.seed _ (by simp only; rw [hP.preStd]; omega)
  · simp only; rw [getField_setField_disj _ _ _ _ _ _ (by omega), getField_setField_disj _ _ _ _ _ _ (by omega), hf.1, hP.preStd]
  · simp only; rw [getField_setField_disj _ _ _ _ _ _ (by omega), getField_setField_disj _ _ _ _ _ _ (by omega), hf.2.1]; exact Nat.mod_eq_of_lt hP.serVer
  · simp only; rw [getField_setField_disj _ _ _ _ _ _ (by omega), getField_setField_disj _ _ _ _ _ _ (by omega), hf.2.2.1]; exact Nat.mod_eq_of_lt hP.family
  · simp only; rw [getField_setField_disj _ _ _ _ _ _ (by omega), getField_setField_disj _ _ _ _ _ _ (by omega), hf.2.2.2.1]
  · simp only; rw [getField_setField_disj _ _ _ _ _ _ (by omega), getField_setField_disj _ _ _ _ _ _ (by omega), hf.2.2.2.2.1]; exact Nat.mod_eq_of_lt hw.nh
  · simp only; rw [getField_setField_disj _ _ _ _ _ _ (by omega), getField_setField_disj _ _ _ _ _ _ (by omega), hf.2.2.2.2.2.1]; exact Nat.mod_eq_of_lt hw.seed
  · simp only; rw [getField_setField_disj _ _ _ _ _ _ (by omega), getField_setField_disj _ _ _ _ _ _ (by omega), hf.2.2.2.2.2.2]; exact Nat.mod_eq_of_lt (by omega)
  · simp only; rw [getField_setField_disj _ _ _ _ _ _ (by omega), getField_setField_same]
  · exact hw.capPos
  · exact h64
  · exact hcl
  · exact hk.1

theorem parse_image_empty (P : Params) (hP : P.Wire) (w : World) (f : Filter) (hw : FWF f) (hk : KOK f) (he : f.isEmpty = true) :
    parseImage P (image P w f) = .emptyImg f.capBits f.numHashes f.seed := by
  have hf := headerVal_fields P P.preEmpty P.emptyMask f.numHashes f.seed (f.capBits / 64)
  have hcl := hk.2
  have h64 := hw.cap64
  have hpos := hw.capPos
  have hnl : f.capBits / 64 % 2 ^ 32 = f.capBits / 64 := Nat.mod_eq_of_lt (by omega)
  have hc : capOf P (f.capBits / 64) = f.capBits := by unfold capOf; split <;> omega
  simp only [image, he, if_true]
  have := parseImage_eval_empty P hP ⟨8 * P.preEmpty, headerVal P P.preEmpty P.emptyMask f.numHashes f.seed (f.capBits / 64)⟩
    f.numHashes f.seed (f.capBits / 64) (by simp only; rw [hP.preEmpty]; omega) ?_ ?_ ?_ ?_ ?_ ?_ ?_ hk.1 (by omega)
  · rw [hc] at this; exact this
  · simp only; rw [hf.1, hP.preEmpty]
  · simp only; rw [hf.2.1]; exact Nat.mod_eq_of_lt hP.serVer
  · simp only; rw [hf.2.2.1]; exact Nat.mod_eq_of_lt hP.family
  · simp only; rw [hf.2.2.2.1, hP.emptyMask]
  · simp only; rw [hf.2.2.2.2.1]; exact Nat.mod_eq_of_lt hw.nh
  · simp only; rw [hf.2.2.2.2.2.1]; exact Nat.mod_eq_of_lt hw.seed
  · simp only; rw [hf.2.2.2.2.2.2, hnl]

end DS.Bloom

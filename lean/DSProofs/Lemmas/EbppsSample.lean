/- Sample-level lemmas for C18 (Rat instance): the structure invariant `SInv` (|data| = floor c, partial item iff
frac c > 0, every stored item satisfies a given predicate) is preserved by `downsample` and `mergeSample`. -/
import DSProofs.Lemmas.EbppsNum
namespace DS.Ebpps

/-! ### draws -/

/-- admissible unit draws: `[0,1)` when the code compares with `>=` (`ge = true`), `(0,1)` as pinned. -/
def UnitOK (ge : Bool) (d : Draws Rat) : Prop := ∀ u ∈ d.us, (if ge then 0 ≤ u else 0 < u) ∧ u < 1

theorem unit_spec {ge : Bool} {d : Draws Rat} (h : UnitOK ge d) :
    (if ge then 0 ≤ d.unit.1 else 0 < d.unit.1) ∧ d.unit.1 < 1 ∧ UnitOK ge d.unit.2 ∧ d.unit.2.is = d.is := by
  unfold Draws.unit
  cases hus : d.us with
  | nil =>
    simp only [rat_one, rat_ofNat]
    refine ⟨?_, by norm_num, h, ?_⟩
    · split <;> norm_num
    · trivial
  | cons u t =>
    have hu := h u (by simp [hus])
    refine ⟨hu.1, hu.2, ?_, rfl⟩
    intro x hx
    exact h x (by simp [hus, hx])

theorem unit_nonneg {ge : Bool} {d : Draws Rat} (h : UnitOK ge d) : 0 ≤ d.unit.1 := by
  have := (unit_spec h).1
  cases ge <;> simp at this <;> linarith

theorem below_us (d : Draws Rat) (n : Nat) : (d.below n).2.us = d.us := by
  unfold Draws.below; cases d.is <;> rfl

theorem below_lt (d : Draws Rat) {n : Nat} (hn : 0 < n) : (d.below n).1 < n := by
  unfold Draws.below; cases d.is with
  | nil => exact hn
  | cons i t => exact Nat.mod_lt _ hn

theorem below_ok {ge : Bool} {d : Draws Rat} (h : UnitOK ge d) (n : Nat) : UnitOK ge (d.below n).2 := by
  unfold UnitOK; rw [below_us]; exact h

/-! ### floor on `Rat` -/

theorem floor_eq_iff' {x : Rat} {n : Int} : x.floor = n ↔ (n : Rat) ≤ x ∧ x < (n : Rat) + 1 := by
  constructor
  · rintro rfl; exact ⟨fl_le x, lt_fl_add_one x⟩
  · rintro ⟨h1, h2⟩
    have a : n ≤ x.floor := Rat.le_floor_iff.2 h1
    have b : x.floor < n + 1 := Rat.floor_lt_iff.2 (by push_cast; exact h2)
    omega

theorem floor_nonneg' {x : Rat} (h : 0 ≤ x) : 0 ≤ x.floor := Rat.le_floor_iff.2 (by simpa using h)

theorem floor_mono' {x y : Rat} (h : x ≤ y) : x.floor ≤ y.floor := Rat.floor_monotone h

/-! ### list helpers: subsample, move_one_to_partial, swap_with_partial -/

variable {P : Nat → Prop}

theorem getD_mem {l : List Nat} {j : Nat} (h : j < l.length) : l.getD j 0 ∈ l := by
  rw [List.getD_eq_getElem?_getD, List.getElem?_eq_getElem h]; simp

theorem pickSwap_spec (l : List Nat) (j : Nat) (hj : j < l.length) (hP : ∀ x ∈ l, P x) :
    P (pickSwap l j).1 ∧ (pickSwap l j).2.length = l.length - 1 ∧ ∀ x ∈ (pickSwap l j).2, P x := by
  unfold pickSwap
  refine ⟨hP _ (getD_mem hj), by simp, ?_⟩
  intro x hx
  have hx' : x ∈ l.set j (l.headD 0) := List.mem_of_mem_tail hx
  rcases List.mem_or_eq_of_mem_set hx' with h | h
  · exact hP x h
  · subst h
    cases l with
    | nil => simp at hj
    | cons a t => exact hP _ (by simp)

theorem subsampleGo_spec (m : Nat) : ∀ (l : List Nat) (d : Draws Rat), m ≤ l.length → (∀ x ∈ l, P x) →
    (subsampleGo m l d).1.length = m ∧ (∀ x ∈ (subsampleGo m l d).1, P x) ∧ (subsampleGo m l d).2.us = d.us := by
  induction m with
  | zero => intro l d _ _; simp [subsampleGo]
  | succ m ih =>
    intro l d hl hP
    have hpos : 0 < l.length := by omega
    have hj := below_lt d hpos
    obtain ⟨h1, h2, h3⟩ := pickSwap_spec l (d.below l.length).1 hj hP
    obtain ⟨i1, i2, i3⟩ := ih (pickSwap l (d.below l.length).1).2 (d.below l.length).2 (by omega) h3
    simp only [subsampleGo]
    refine ⟨by simp [i1], ?_, by rw [i3, below_us]⟩
    intro x hx
    rcases List.mem_cons.1 hx with h | h
    · subst h; exact h1
    · exact i2 x h

theorem subsample_spec (num : Nat) (l : List Nat) (d : Draws Rat) (h : num ≤ l.length) (hP : ∀ x ∈ l, P x) :
    (subsample num l d).1.length = num ∧ (∀ x ∈ (subsample num l d).1, P x) ∧ (subsample num l d).2.us = d.us := by
  unfold subsample
  split
  · rename_i he
    exact ⟨(by simpa using he : num = l.length).symm, hP, rfl⟩
  · exact subsampleGo_spec num l d h hP

theorem moveOne_spec (data : List Nat) (d : Draws Rat) (hne : 0 < data.length) (hP : ∀ x ∈ data, P x) :
    (moveOneToPartial data d).1.length = data.length - 1 ∧ (∀ x ∈ (moveOneToPartial data d).1, P x) ∧
    (∃ p, (moveOneToPartial data d).2.1 = some p ∧ P p) ∧ (moveOneToPartial data d).2.2.us = d.us := by
  unfold moveOneToPartial
  have hj := below_lt d hne
  refine ⟨by simp, ?_, ⟨_, rfl, hP _ (getD_mem hj)⟩, below_us d _⟩
  intro x hx
  have hx' := List.mem_of_mem_dropLast hx
  rcases List.mem_or_eq_of_mem_set hx' with h | h
  · exact hP x h
  · subst h; exact hP _ (getD_mem (by omega))

theorem swapWith_spec (data : List Nat) (part : Option Nat) (d : Draws Rat) (hne : 0 < data.length)
    (hP : ∀ x ∈ data, P x) (hp : ∀ x ∈ part, P x) :
    (swapWithPartial data part d).1.length = (if part.isSome then data.length else data.length - 1) ∧
    (∀ x ∈ (swapWithPartial data part d).1, P x) ∧
    (∃ p, (swapWithPartial data part d).2.1 = some p ∧ P p) ∧ (swapWithPartial data part d).2.2.us = d.us := by
  cases part with
  | none => simpa [swapWithPartial] using moveOne_spec data d hne hP
  | some p =>
    have hj := below_lt d hne
    simp only [swapWithPartial, Option.isSome_some, if_true]
    refine ⟨by simp, ?_, ⟨_, rfl, hP _ (getD_mem hj)⟩, below_us d _⟩
    intro x hx
    rcases List.mem_or_eq_of_mem_set hx with h | h
    · exact hP x h
    · subst h; exact hp _ (by simp)

/-! ### the structure invariant -/

/-- `|data| = ⌊c⌋`, the partial item is present iff `frac c > 0`, every stored item satisfies `P`. -/
structure SInv (P : Nat → Prop) (s : Sample Rat) : Prop where
  cnn : 0 ≤ s.c
  len : (s.data.length : Int) = s.c.floor
  part : s.part.isSome ↔ ((s.c.floor : Int) : Rat) < s.c
  dataP : ∀ x ∈ s.data, P x
  partP : ∀ x ∈ s.part, P x

theorem SInv.mono {Q : Nat → Prop} {s : Sample Rat} (hPQ : ∀ x, P x → Q x) (h : SInv P s) : SInv Q s :=
  ⟨h.cnn, h.len, h.part, fun x hx => hPQ x (h.dataP x hx), fun x hx => hPQ x (h.partP x hx)⟩

theorem sinv_empty : SInv P (Sample.empty : Sample Rat) := by
  refine ⟨by simp [Sample.empty], ?_, ?_, by simp [Sample.empty], by simp [Sample.empty]⟩
  · simp only [Sample.empty, rat_zero, List.length_nil]
    exact (floor_eq_iff'.2 ⟨by norm_num, by norm_num⟩).symm
  · simp only [Sample.empty, rat_zero]
    have : (0 : Rat).floor = 0 := floor_eq_iff'.2 ⟨by norm_num, by norm_num⟩
    simp [this]

/-- projection form of `mergeSample` (the `let (u, d) := d.unit` patterns are irrefutable). -/
theorem mergeSample_eq (ge : Bool) (s o : Sample Rat) (d : Draws Rat) :
    mergeSample ge s o d =
      (let cFrac := s.c - Num.floor s.c
       let oFrac := o.c - Num.floor o.c
       let c := s.c + o.c
       let data := s.data ++ o.data
       if Num.eq cFrac zero && Num.eq oFrac zero then (⟨c, data, none⟩, d)
       else if Num.eq (cFrac + oFrac) one || Num.eq c (Num.floor c) then
         (⟨c, if Num.le d.unit.1 cFrac then pushOpt data s.part else pushOpt data o.part, none⟩, d.unit.2)
       else if Num.lt (cFrac + oFrac) one then
         (⟨c, data, if drawAbove ge d.unit.1 (cFrac / (cFrac + oFrac)) then o.part else s.part⟩, d.unit.2)
       else if Num.le d.unit.1 ((one - cFrac) / ((one - cFrac) + (one - oFrac))) then
         (⟨c, pushOpt data o.part, s.part⟩, d.unit.2)
       else (⟨c, pushOpt data s.part, o.part⟩, d.unit.2)) := by
  rfl

theorem pushOpt_len_some (l : List Nat) {p : Option Nat} (h : p.isSome) : (pushOpt l p).length = l.length + 1 := by
  cases p with
  | none => simp at h
  | some x => simp [pushOpt]

theorem pushOpt_P {l : List Nat} {p : Option Nat} (hl : ∀ x ∈ l, P x) (hp : ∀ x ∈ p, P x) : ∀ x ∈ pushOpt l p, P x := by
  intro x hx
  unfold pushOpt at hx
  rcases List.mem_append.1 hx with h | h
  · exact hl x h
  · exact hp x (by simpa using h)

theorem mergeSample_spec {ge : Bool} {s o : Sample Rat} {d : Draws Rat}
    (hs : SInv P s) (ho : SInv P o) (hd : UnitOK ge d) :
    SInv P (mergeSample ge s o d).1 ∧ (mergeSample ge s o d).1.c = s.c + o.c ∧ UnitOK ge (mergeSample ge s o d).2 := by
  obtain ⟨hc, hl, hp, hdP, hpP⟩ := hs
  obtain ⟨oc, ol, op, odP, opP⟩ := ho
  have a1 := fl_le s.c
  have a2 := lt_fl_add_one s.c
  have b1 := fl_le o.c
  have b2 := lt_fl_add_one o.c
  obtain ⟨hu1, hu2, hu3, -⟩ := unit_spec hd
  have hu0 := unit_nonneg hd
  have hdataP : ∀ x ∈ s.data ++ o.data, P x := by
    intro x hx; rcases List.mem_append.1 hx with h | h
    · exact hdP x h
    · exact odP x h
  rw [mergeSample_eq]
  simp only [rat_eq, rat_lt, rat_le, rat_zero, rat_one, rat_floor, Bool.and_eq_true, Bool.or_eq_true, decide_eq_true_eq]
  by_cases h1 : s.c - ↑s.c.floor = 0 ∧ o.c - ↑o.c.floor = 0
  · -- both integral
    rw [if_pos h1]
    have hfl : (s.c + o.c).floor = s.c.floor + o.c.floor :=
      floor_eq_iff'.2 ⟨by push_cast; linarith [h1.1, h1.2], by push_cast; linarith [h1.1, h1.2]⟩
    refine ⟨⟨by simp only; linarith, ?_, ?_, hdataP, by simp⟩, rfl, hd⟩
    · simp only [List.length_append]; rw [hfl]; push_cast; omega
    · simp only [Option.isSome_none, Bool.false_eq_true, false_iff, not_lt]
      rw [hfl]; push_cast; linarith [h1.1, h1.2]
  · rw [if_neg h1]
    have hnz : 0 < (s.c - ↑s.c.floor) + (o.c - ↑o.c.floor) := by
      rcases lt_or_eq_of_le (by linarith : 0 ≤ s.c - ↑s.c.floor) with h | h
      · linarith
      · rcases lt_or_eq_of_le (by linarith : 0 ≤ o.c - ↑o.c.floor) with h' | h'
        · linarith
        · exact absurd ⟨h.symm, h'.symm⟩ h1
    by_cases h2 : s.c - ↑s.c.floor + (o.c - ↑o.c.floor) = 1 ∨ s.c + o.c = ↑(s.c + o.c).floor
    · -- fractions add up to one
      rw [if_pos h2]
      have hsum : s.c - ↑s.c.floor + (o.c - ↑o.c.floor) = 1 := by
        rcases h2 with h | h
        · exact h
        · -- an integral sum with 0 < cf + of < 2 forces cf + of = 1
          have e1 : ((s.c + o.c).floor : Rat) - s.c.floor - o.c.floor = (s.c - ↑s.c.floor) + (o.c - ↑o.c.floor) := by
            rw [← h]; ring
          have e2 : (((s.c + o.c).floor - s.c.floor - o.c.floor : Int) : Rat) = (s.c - ↑s.c.floor) + (o.c - ↑o.c.floor) := by
            push_cast; exact e1
          have lo : (0 : Rat) < (((s.c + o.c).floor - s.c.floor - o.c.floor : Int) : Rat) := by rw [e2]; exact hnz
          have hi : (((s.c + o.c).floor - s.c.floor - o.c.floor : Int) : Rat) < 2 := by rw [e2]; linarith
          have lo' : (0 : Int) < (s.c + o.c).floor - s.c.floor - o.c.floor := by exact_mod_cast lo
          have hi' : (s.c + o.c).floor - s.c.floor - o.c.floor < (2 : Int) := by exact_mod_cast hi
          have : (s.c + o.c).floor - s.c.floor - o.c.floor = 1 := by omega
          rw [← e2, this]; norm_num
      have hfl : (s.c + o.c).floor = s.c.floor + o.c.floor + 1 :=
        floor_eq_iff'.2 ⟨by push_cast; linarith, by push_cast; linarith⟩
      have hsp : s.part.isSome := hp.2 (by linarith)
      have hop : o.part.isSome := op.2 (by linarith)
      refine ⟨⟨by simp only; linarith, ?_, ?_, ?_, by simp⟩, rfl, hu3⟩
      · simp only
        split
        · rw [pushOpt_len_some _ hsp, List.length_append, hfl]; push_cast; omega
        · rw [pushOpt_len_some _ hop, List.length_append, hfl]; push_cast; omega
      · simp only [Option.isSome_none, Bool.false_eq_true, false_iff, not_lt]
        rw [hfl]; push_cast; linarith
      · simp only
        split
        · exact pushOpt_P hdataP hpP
        · exact pushOpt_P hdataP opP
    · rw [if_neg h2]
      rw [not_or] at h2
      by_cases h3 : s.c - ↑s.c.floor + (o.c - ↑o.c.floor) < 1
      · -- fractions stay below one: one of the two partial items survives
        rw [if_pos h3]
        have hfl : (s.c + o.c).floor = s.c.floor + o.c.floor :=
          floor_eq_iff'.2 ⟨by push_cast; linarith, by push_cast; linarith⟩
        refine ⟨⟨by simp only; linarith, ?_, ?_, hdataP, ?_⟩, rfl, hu3⟩
        · simp only [List.length_append]; rw [hfl]; push_cast; omega
        · simp only
          rw [hfl]
          have hlt : ((s.c.floor + o.c.floor : Int) : Rat) < s.c + o.c := by push_cast; linarith
          simp only [hlt, iff_true]
          split
          · -- the new partial item is o's: it exists because o's fraction is positive
            rename_i hab
            apply op.2
            by_contra hcon
            have hof : o.c - ↑o.c.floor = 0 := by linarith
            have hcf : 0 < s.c - ↑s.c.floor := by linarith
            have : (s.c - ↑s.c.floor) / (s.c - ↑s.c.floor + (o.c - ↑o.c.floor)) = 1 := by
              rw [hof, add_zero]; exact div_self (ne_of_gt hcf)
            unfold drawAbove at hab
            rw [this] at hab
            cases ge <;> simp at hab <;> linarith
          · rename_i hab
            apply hp.2
            by_contra hcon
            have hcf : s.c - ↑s.c.floor = 0 := by linarith
            unfold drawAbove at hab
            rw [hcf, zero_div] at hab
            cases ge
            · simp at hab hu1; linarith
            · simp at hab hu1; linarith
        · simp only
          split
          · exact opP
          · exact hpP
      · -- fractions exceed one: one partial item becomes a full item, the other stays partial
        rw [if_neg h3]
        have hgt : 1 < s.c - ↑s.c.floor + (o.c - ↑o.c.floor) := by
          rcases lt_or_eq_of_le (not_lt.1 h3) with h | h
          · exact h
          · exact absurd h.symm h2.1
        have hfl : (s.c + o.c).floor = s.c.floor + o.c.floor + 1 :=
          floor_eq_iff'.2 ⟨by push_cast; linarith, by push_cast; linarith⟩
        have hsp : s.part.isSome := hp.2 (by linarith)
        have hop : o.part.isSome := op.2 (by linarith)
        have hlt : ((s.c.floor + o.c.floor + 1 : Int) : Rat) < s.c + o.c := by push_cast; linarith
        split
        · refine ⟨⟨by simp only; linarith, ?_, ?_, pushOpt_P hdataP opP, hpP⟩, rfl, hu3⟩
          · simp only; rw [pushOpt_len_some _ hop, List.length_append, hfl]; push_cast; omega
          · simp only; rw [hfl]; simp only [hlt, iff_true]; exact hsp
        · refine ⟨⟨by simp only; linarith, ?_, ?_, pushOpt_P hdataP hpP, opP⟩, rfl, hu3⟩
          · simp only; rw [pushOpt_len_some _ hsp, List.length_append, hfl]; push_cast; omega
          · simp only; rw [hfl]; simp only [hlt, iff_true]; exact hop

/-- In exact arithmetic the proposed rounding guard never fires on its own: an integral `c` with fractions adding up to
less than 1/2 means both fractions are zero, which is the first case of `mergeSample` anyway. -/
theorem mergeSampleV_eq_rat (vf ge : Bool) (s o : Sample Rat) (d : Draws Rat) :
    mergeSampleV vf ge s o d = mergeSample ge s o d := by
  unfold mergeSampleV
  simp only [rat_eq, rat_lt, rat_one, rat_ofNat, rat_floor, Bool.and_eq_true, decide_eq_true_eq]
  split
  · rename_i h
    obtain ⟨⟨-, hint⟩, hlt⟩ := h
    have a1 := fl_le s.c
    have a2 := lt_fl_add_one s.c
    have b1 := fl_le o.c
    have b2 := lt_fl_add_one o.c
    -- cf + of is an integer in [0, 1/2), hence 0
    have e1 : (((s.c + o.c).floor - s.c.floor - o.c.floor : Int) : Rat) = (s.c - ↑s.c.floor) + (o.c - ↑o.c.floor) := by
      push_cast; rw [← hint]; ring
    have lo : (-1 : Rat) < (((s.c + o.c).floor - s.c.floor - o.c.floor : Int) : Rat) := by rw [e1]; linarith
    have hi : (((s.c + o.c).floor - s.c.floor - o.c.floor : Int) : Rat) < 1 := by rw [e1]; norm_num at hlt; linarith
    have lo' : (-1 : Int) < (s.c + o.c).floor - s.c.floor - o.c.floor := by exact_mod_cast lo
    have hi' : (s.c + o.c).floor - s.c.floor - o.c.floor < (1 : Int) := by exact_mod_cast hi
    have hz : (s.c + o.c).floor - s.c.floor - o.c.floor = 0 := by omega
    rw [hz] at e1
    have hcf : s.c - ↑s.c.floor = 0 := by
      have : (0 : Rat) = (s.c - ↑s.c.floor) + (o.c - ↑o.c.floor) := by simpa using e1
      linarith
    have hof : o.c - ↑o.c.floor = 0 := by
      have : (0 : Rat) = (s.c - ↑s.c.floor) + (o.c - ↑o.c.floor) := by simpa using e1
      linarith
    rw [mergeSample_eq]
    simp only [rat_eq, rat_zero, rat_floor, Bool.and_eq_true, decide_eq_true_eq, hcf, hof, and_self, if_true]
  · rfl

/-! ### downsample -/

theorem unitOK_of_us {ge : Bool} {d d' : Draws Rat} (h : d'.us = d.us) (hd : UnitOK ge d) : UnitOK ge d' := by
  unfold UnitOK; rw [h]; exact hd

theorem downsampleCases_eq (ge : Bool) (s : Sample Rat) (theta newC newCInt cInt cFrac : Rat) (d : Draws Rat) :
    downsampleCases ge s theta newC newCInt cInt cFrac d =
      (if Num.eq newCInt zero then
        (let r := if drawAbove ge d.unit.1 (cFrac / s.c) then swapWithPartial s.data s.part d.unit.2 else (s.data, s.part, d.unit.2)
         ([], r.2.1, r.2.2))
      else if Num.eq newCInt cInt then
        (if Num.lt ((one - theta * cFrac) / (one - (newC - newCInt))) d.unit.1 then swapWithPartial s.data s.part d.unit.2
         else (s.data, s.part, d.unit.2))
      else if Num.lt d.unit.1 (theta * cFrac) then
        swapWithPartial (subsample (Num.toNat newCInt) s.data d.unit.2).1 s.part (subsample (Num.toNat newCInt) s.data d.unit.2).2
      else
        moveOneToPartial (subsample (Num.toNat newCInt + 1) s.data d.unit.2).1 (subsample (Num.toNat newCInt + 1) s.data d.unit.2).2) := by
  rfl

theorem downsample_eq (ge : Bool) (s : Sample Rat) (theta : Rat) (d : Draws Rat) :
    downsample ge s theta d =
      (if Num.le one theta then (s, d) else
        (let r := downsampleCases ge s theta (theta * s.c) (Num.floor (theta * s.c)) (Num.floor s.c) (s.c - Num.floor s.c) d
         (⟨theta * s.c, r.1, if Num.eq (theta * s.c) (Num.floor (theta * s.c)) then none else r.2.1⟩, r.2.2))) := by
  rfl

theorem floor_intCast' (n : Int) : ((n : Rat)).floor = n := Rat.floor_intCast n

/-- the three cases: the new `data_` has `⌊theta·c⌋` items and a partial item is always left behind. -/
theorem downsampleCases_spec {ge : Bool} {s : Sample Rat} {theta : Rat} {d : Draws Rat}
    (hs : SInv P s) (hc : 0 < s.c) (ht0 : 0 < theta) (ht1 : theta < 1) (hd : UnitOK ge d) :
    ((downsampleCases ge s theta (theta * s.c) ↑(theta * s.c).floor ↑s.c.floor (s.c - ↑s.c.floor) d).1.length : Int)
        = (theta * s.c).floor ∧
    (∀ x ∈ (downsampleCases ge s theta (theta * s.c) ↑(theta * s.c).floor ↑s.c.floor (s.c - ↑s.c.floor) d).1, P x) ∧
    (∃ p, (downsampleCases ge s theta (theta * s.c) ↑(theta * s.c).floor ↑s.c.floor (s.c - ↑s.c.floor) d).2.1 = some p ∧ P p) ∧
    (downsampleCases ge s theta (theta * s.c) ↑(theta * s.c).floor ↑s.c.floor (s.c - ↑s.c.floor) d).2.2.us = d.unit.2.us := by
  obtain ⟨_, hl, hp, hdP, hpP⟩ := hs
  have a1 := fl_le s.c
  have a2 := lt_fl_add_one s.c
  have n1 := fl_le (theta * s.c)
  have n2 := lt_fl_add_one (theta * s.c)
  obtain ⟨hu1, hu2, hu3, -⟩ := unit_spec hd
  have hu0 := unit_nonneg hd
  have hnc : 0 < theta * s.c := mul_pos ht0 hc
  have hlt : theta * s.c < s.c := by nlinarith
  have hn0 : 0 ≤ (theta * s.c).floor := floor_nonneg' (le_of_lt hnc)
  have hna : (theta * s.c).floor ≤ s.c.floor := floor_mono' (le_of_lt hlt)
  rw [downsampleCases_eq]
  simp only [rat_eq, rat_lt, rat_zero, rat_one, rat_toNat, floor_intCast', decide_eq_true_eq, Int.cast_eq_zero, Int.cast_inj]
  have partSome : ∀ {q : Option Nat}, q = s.part → ((s.c.floor : Int) : Rat) < s.c → ∃ p, q = some p ∧ P p := by
    intro q hq hfr
    have := hp.2 hfr
    cases hsp : s.part with
    | none => rw [hsp] at this; simp at this
    | some p => exact ⟨p, by rw [hq, hsp], hpP p (by simp [hsp])⟩
  by_cases c1 : (theta * s.c).floor = 0
  · -- no full item survives
    rw [if_pos c1]
    refine ⟨by simp [c1], by simp, ?_, ?_⟩
    · by_cases hab : drawAbove ge d.unit.1 ((s.c - ↑s.c.floor) / s.c) = true
      · rw [if_pos hab]
        -- a swap is only requested when there is a full item to swap
        have hpos : 0 < s.data.length := by
          by_contra hcon
          have hz : s.c.floor = 0 := by omega
          have : (s.c - ↑s.c.floor) / s.c = 1 := by rw [hz]; simp [ne_of_gt hc]
          unfold drawAbove at hab
          rw [this] at hab
          cases ge <;> simp at hab <;> linarith
        exact (swapWith_spec s.data s.part d.unit.2 hpos hdP hpP).2.2.1
      · rw [if_neg hab]
        apply partSome rfl
        by_contra hcon
        have hz : s.c - ↑s.c.floor = 0 := by linarith
        unfold drawAbove at hab
        rw [hz, zero_div] at hab
        cases ge
        · simp at hab hu1; linarith
        · simp at hab hu1; linarith
    · by_cases hab : drawAbove ge d.unit.1 ((s.c - ↑s.c.floor) / s.c) = true
      · rw [if_pos hab]
        have hpos : 0 < s.data.length := by
          by_contra hcon
          have hz : s.c.floor = 0 := by omega
          have : (s.c - ↑s.c.floor) / s.c = 1 := by rw [hz]; simp [ne_of_gt hc]
          unfold drawAbove at hab
          rw [this] at hab
          cases ge <;> simp at hab <;> linarith
        exact (swapWith_spec s.data s.part d.unit.2 hpos hdP hpP).2.2.2
      · rw [if_neg hab]
  · rw [if_neg c1]
    have hpos : 0 < s.data.length := by omega
    by_cases c2 : (theta * s.c).floor = s.c.floor
    · -- no item deleted: the fraction must have been positive
      rw [if_pos c2]
      have hfr : ((s.c.floor : Int) : Rat) < s.c := by
        rw [← c2]; linarith
      have hsome : s.part.isSome := hp.2 hfr
      split
      · obtain ⟨w1, w2, w3, w4⟩ := swapWith_spec s.data s.part d.unit.2 hpos hdP hpP
        rw [hsome] at w1
        exact ⟨by rw [w1]; simp [hl, c2], w2, w3, w4⟩
      · exact ⟨by simp [hl, c2], hdP, partSome rfl hfr, rfl⟩
    · rw [if_neg c2]
      have hlt' : (theta * s.c).floor < s.c.floor := by omega
      split
      · -- subsample to ⌊new c⌋ items, then swap one of them with the partial item (which exists)
        rename_i hlt2
        have hfr : ((s.c.floor : Int) : Rat) < s.c := by
          by_contra hcon
          have hz : s.c - ↑s.c.floor = 0 := by linarith
          rw [hz, mul_zero] at hlt2
          linarith
        have hsome : s.part.isSome := hp.2 hfr
        obtain ⟨q1, q2, q3⟩ := subsample_spec (P := P) (theta * s.c).floor.toNat s.data d.unit.2 (by omega) hdP
        obtain ⟨w1, w2, w3, w4⟩ := swapWith_spec _ s.part (subsample (theta * s.c).floor.toNat s.data d.unit.2).2
          (by rw [q1]; omega) q2 hpP
        rw [hsome] at w1
        exact ⟨by rw [w1]; simp only [if_true]; rw [q1]; omega, w2, w3, by rw [w4, q3]⟩
      · -- subsample to ⌊new c⌋ + 1 items, then move one of them to the partial slot
        obtain ⟨q1, q2, q3⟩ := subsample_spec (P := P) ((theta * s.c).floor.toNat + 1) s.data d.unit.2 (by omega) hdP
        obtain ⟨w1, w2, w3, w4⟩ := moveOne_spec _ (subsample ((theta * s.c).floor.toNat + 1) s.data d.unit.2).2
          (by rw [q1]; omega) q2
        exact ⟨by rw [w1, q1]; omega, w2, w3, by rw [w4, q3]⟩

theorem downsample_spec {ge : Bool} {s : Sample Rat} {theta : Rat} {d : Draws Rat}
    (hs : SInv P s) (hc : 0 < s.c) (ht0 : 0 < theta) (hd : UnitOK ge d) :
    SInv P (downsample ge s theta d).1 ∧ (downsample ge s theta d).1.c = min theta 1 * s.c ∧
    UnitOK ge (downsample ge s theta d).2 := by
  rw [downsample_eq]
  simp only [rat_le, rat_one, rat_eq, rat_floor, decide_eq_true_eq]
  by_cases h1 : 1 ≤ theta
  · rw [if_pos h1, min_eq_right h1, one_mul]; exact ⟨hs, rfl, hd⟩
  · rw [if_neg h1]
    have ht1 : theta < 1 := not_le.1 h1
    obtain ⟨r1, r2, ⟨p, r3, r4⟩, r5⟩ := downsampleCases_spec hs hc ht0 ht1 hd
    have hnc : 0 < theta * s.c := mul_pos ht0 hc
    have n1 := fl_le (theta * s.c)
    refine ⟨⟨le_of_lt hnc, r1, ?_, r2, ?_⟩, by rw [min_eq_left (le_of_lt ht1)], unitOK_of_us r5 (unit_spec hd).2.2.1⟩
    · simp only
      split
      · rename_i he; simp only [Option.isSome_none, Bool.false_eq_true, false_iff, not_lt]; rw [← he]
      · rename_i he
        rw [r3]
        simp only [Option.isSome_some, true_iff]
        exact lt_of_le_of_ne n1 (fun h => he h.symm)
    · simp only
      split
      · simp
      · rw [r3]; intro x hx; simp at hx; subst hx; exact r4

end DS.Ebpps

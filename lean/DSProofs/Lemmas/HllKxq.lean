/- kxq0 + kxq1 in exact arithmetic: the incremental updates keep it equal to Σ_slots 2^(-register) (helper lemmas for Props/C03.lean). -/
import DSProofs.Lemmas.HllRegs
namespace DS.Hll

/-- exact instance of the update arithmetic: numbers scaled by 2^63 (so `2^-v`, v ≤ 63, is the integer `2^(63-v)`); `div` and the
coupon estimator are irrelevant for kxq and set to 0 -/
@[reducible] def exactNum : HNum Int :=
  { ofNat := fun n => (n : Int) * 2^63, add := (· + ·), sub := (· - ·), div := fun _ _ => 0,
    invPow2 := fun v => 2^(63 - v), couponEst := fun _ => 0 }

/-- Σ over the registers of 2^(63 - register) -/
def sumPow (l : List Nat) : Int := (l.map (fun v => (2 : Int)^(63 - v))).sum

theorem sumPow_set : ∀ (l : List Nat) (i x : Nat), i < l.length →
    sumPow (l.set i x) = sumPow l - (2 : Int)^(63 - l.getD i 0) + (2 : Int)^(63 - x)
  | [], i, x, h => by simp at h
  | a :: t, 0, x, _ => by
    simp only [List.set_cons_zero, sumPow, List.map_cons, List.sum_cons, List.getD_cons_zero]
    omega
  | a :: t, i + 1, x, h => by
    have ih := sumPow_set t i x (by simpa using h)
    simp only [List.set_cons_succ, sumPow, List.map_cons, List.sum_cons, List.getD_cons_succ] at ih ⊢
    rw [ih]; omega

theorem sumPow_replicate_zero (n : Nat) : sumPow (List.replicate n 0) = (n : Int) * 2^63 := by
  induction n with
  | zero => simp [sumPow]
  | succ k ih =>
    simp only [sumPow, List.replicate_succ, List.map_cons, List.sum_cons] at ih ⊢
    rw [ih]; push_cast; omega

section
attribute [local instance] exactNum

/-- the kxq invariant: kxq0 + kxq1 = Σ 2^(63 - register) -/
def KxqOk (s : St Int) : Prop := s.kxq0 + s.kxq1 = sumPow s.regs.toList

theorem KxqOk.newHll (lgK : Nat) (tt : TType) (sf : Bool) : KxqOk (newHll lgK tt sf : St Int) := by
  unfold KxqOk DS.Hll.newHll
  simp only [Array.toList_replicate]
  rw [sumPow_replicate_zero]
  show ((2^lgK : Nat) : Int) * 2^63 + (0 : Int) * 2^63 = _
  omega

theorem hipKxq_sum (s : St Int) (old new : Nat) :
    (hipKxq s old new).kxq0 + (hipKxq s old new).kxq1 = s.kxq0 + s.kxq1 - (2 : Int)^(63 - old) + (2 : Int)^(63 - new) := by
  unfold hipKxq
  simp only
  show (if new < 32 then (if old < 32 then s.kxq0 - (2:Int)^(63 - old) else s.kxq0) + (2:Int)^(63 - new)
          else (if old < 32 then s.kxq0 - (2:Int)^(63 - old) else s.kxq0)) +
       (if new < 32 then (if old < 32 then s.kxq1 else s.kxq1 - (2:Int)^(63 - old))
          else (if old < 32 then s.kxq1 else s.kxq1 - (2:Int)^(63 - old)) + (2:Int)^(63 - new)) = _
  by_cases h1 : old < 32 <;> by_cases h2 : new < 32 <;> simp only [h1, h2, if_true, if_false] <;> omega

theorem KxqOk.hllUpdate {p : Params} {s : St Int} (h : KxqOk s) (hsz : s.regs.size = 2^s.lgK) (c : Nat) :
    KxqOk (hllUpdate p s c) ∧ (hllUpdate p s c).regs.size = 2^(hllUpdate p s c).lgK := by
  have hf := hllUpdate_fields p s c
  unfold DS.Hll.hllUpdate
  by_cases hq : s.tt = .h4 ∧ cValue p c ≤ s.curMin
  · rw [if_pos hq]; exact ⟨h, hsz⟩
  · rw [if_neg hq]
    by_cases hlt : s.regs.getD (cSlot p s.lgK c) 0 < cValue p c
    · rw [if_pos hlt]
      have hs : cSlot p s.lgK c < s.regs.size := by rw [hsz]; exact cSlot_lt p s.lgK c
      refine ⟨?_, by simp [hsz]⟩
      unfold KxqOk
      have e0 : (raiseReg s (cSlot p s.lgK c) (s.regs.getD (cSlot p s.lgK c) 0) (cValue p c)).kxq0 =
          (hipKxq s (s.regs.getD (cSlot p s.lgK c) 0) (cValue p c)).kxq0 := rfl
      have e1 : (raiseReg s (cSlot p s.lgK c) (s.regs.getD (cSlot p s.lgK c) 0) (cValue p c)).kxq1 =
          (hipKxq s (s.regs.getD (cSlot p s.lgK c) 0) (cValue p c)).kxq1 := rfl
      rw [e0, e1, hipKxq_sum, raiseReg_regs, Array.toList_setIfInBounds, sumPow_set _ _ _ (by simpa using hs), h]
      have : s.regs.toList.getD (cSlot p s.lgK c) 0 = s.regs.getD (cSlot p s.lgK c) 0 := by
        simp [Array.getD_eq_getD_getElem?, List.getD_eq_getElem?_getD]
      rw [this]
    · rw [if_neg hlt]; exact ⟨h, hsz⟩

/-- after any stream of coupons offered to an HLL array (any target type, any order, any duplicates) the estimator registers
satisfy kxq0 + kxq1 = Σ_slots 2^(-register) exactly (scaled by 2^63) -/
theorem kxq_exact_foldl (p : Params) : ∀ (cs : List Nat) (s : St Int), KxqOk s → s.regs.size = 2^s.lgK →
    KxqOk (cs.foldl (hllUpdate p) s)
  | [], _, h, _ => h
  | c :: cs, s, h, hsz => by
    have st := h.hllUpdate (p := p) hsz c
    exact kxq_exact_foldl p cs _ st.1 st.2

end

end DS.Hll

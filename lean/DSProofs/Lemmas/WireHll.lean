/-
Helper lemmas for the HLL wire model: running readers on encoder output (forward), inverting successful reads
(converse), prefix safety of every decoder.  Property statements live in Props/C09_Hll, C10_Hll, C11_Hll.
-/
import DSModel.Wire.Hll
import DSProofs.Lemmas.Wire

namespace DS.Wire
open Reader

variable {α β : Type}

/-! ### generic run / inversion lemmas -/

theorem bind_some {m : Reader α} {f : α → Reader β} {b : Bytes} {a : α} {r : Bytes}
    (h : m b = some (a, r)) : Reader.bind m f b = f a r := by
  simp [Reader.bind, h]

theorem bind_assoc {γ : Type} (m : Reader α) (g : α → Reader β) (f : β → Reader γ) :
    Reader.bind (Reader.bind m g) f = Reader.bind m (fun a => Reader.bind (g a) f) := by
  funext b
  simp only [Reader.bind]
  cases m b <;> rfl

theorem pure_bind (a : α) (f : α → Reader β) : Reader.bind (Reader.pure a) f = f a := rfl

theorem bind_inv {m : Reader α} {f : α → Reader β} {b : Bytes} {y : β} {r : Bytes}
    (h : Reader.bind m f b = some (y, r)) : ∃ a r1, m b = some (a, r1) ∧ f a r1 = some (y, r) := by
  simp only [Reader.bind] at h
  cases hm : m b with
  | none => simp [hm] at h
  | some p =>
    obtain ⟨a, r1⟩ := p
    simp only [hm] at h
    exact ⟨a, r1, rfl, h⟩

theorem guard_inv {c : Bool} {b : Bytes} {u : Unit} {r : Bytes} (h : guard c b = some (u, r)) : c = true ∧ r = b := by
  cases c with
  | false => simp [guard, Reader.fail] at h
  | true =>
    simp only [guard, Reader.pure, if_true, Option.some.injEq, Prod.mk.injEq] at h
    exact ⟨rfl, h.2.symm⟩

theorem guard_run {c : Bool} (hc : c = true) (b : Bytes) : guard c b = some ((), b) := by
  subst hc; rfl

theorem pure_inv {a x : α} {b r : Bytes} (h : Reader.pure a b = some (x, r)) : x = a ∧ r = b := by
  simp only [Reader.pure, Option.some.injEq, Prod.mk.injEq] at h
  exact ⟨h.1.symm, h.2.symm⟩

theorem leNat_inv : ∀ (n : Nat) (b : Bytes) (x : Nat) (r : Bytes), leNat n b = some (x, r) → b = wLe n x ++ r ∧ x < 256 ^ n
  | 0, b, x, r, h => by
    obtain ⟨hx, hr⟩ := pure_inv h
    subst hx; subst hr; simp [wLe]
  | n + 1, b, x, r, h => by
    cases b with
    | nil => simp [leNat, Reader.bind, byte] at h
    | cons y t =>
      have h1 : Reader.bind (leNat n) (fun hi => Reader.pure (y.toNat + 256 * hi)) t = some (x, r) := by
        simpa [leNat, Reader.bind, byte] using h
      obtain ⟨hi, r1, hle, hp⟩ := bind_inv h1
      obtain ⟨hx, hr⟩ := pure_inv hp
      obtain ⟨ht, hhi⟩ := leNat_inv n t hi r1 hle
      subst hr
      have hy : y.toNat < 256 := y.toNat_lt
      have hmod : x % 256 = y.toNat := by omega
      have hdiv : x / 256 = hi := by omega
      refine ⟨?_, ?_⟩
      · simp only [wLe, hmod, hdiv, List.cons_append, UInt8.ofNat_toNat]
        rw [← ht]
      · rw [Nat.pow_succ]; omega

theorem bytesN_inv : ∀ (n : Nat) (b a r : Bytes), bytesN n b = some (a, r) → b = a ++ r ∧ a.length = n
  | 0, b, a, r, h => by
    obtain ⟨ha, hr⟩ := pure_inv h
    subst ha; subst hr; simp
  | n + 1, b, a, r, h => by
    cases b with
    | nil => simp [bytesN, Reader.bind, byte] at h
    | cons y t =>
      have h1 : Reader.bind (bytesN n) (fun rr => Reader.pure (y :: rr)) t = some (a, r) := by
        simpa [bytesN, Reader.bind, byte] using h
      obtain ⟨a1, r1, hb, hp⟩ := bind_inv h1
      obtain ⟨ha, hr⟩ := pure_inv hp
      obtain ⟨ht, hl⟩ := bytesN_inv n t a1 r1 hb
      subst ha; subst hr
      simp [ht, hl]

theorem bytesN_run (a r : Bytes) (n : Nat) (h : a.length = n) : bytesN n (a ++ r) = some (a, r) := by
  subst h; exact bytesN_append a r

namespace Hll

/-! ### u32 arrays -/

theorem length_wU32s : ∀ l : List Nat, (wU32s l).length = 4 * l.length
  | [] => rfl
  | x :: t => by simp [wU32s, w32, length_wLe, length_wU32s t]; omega

theorem repeatN_u32_run : ∀ (l : List Nat) (n : Nat) (r : Bytes), l.length = n → (∀ x ∈ l, x < 2 ^ 32) →
    repeatN u32 n (wU32s l ++ r) = some (l, r)
  | [], n, r, hn, _ => by subst hn; rfl
  | x :: t, n, r, hn, hx => by
    subst hn
    have h1 : x < 2 ^ 32 := hx x (by simp)
    have h2 : ∀ y ∈ t, y < 2 ^ 32 := fun y hy => hx y (by simp [hy])
    simp only [wU32s, List.length_cons, repeatN, List.append_assoc]
    rw [bind_some (u32_w32 x h1 _), bind_some (repeatN_u32_run t t.length r rfl h2)]
    rfl

theorem repeatN_u32_inv : ∀ (n : Nat) (b : Bytes) (l : List Nat) (r : Bytes), repeatN u32 n b = some (l, r) →
    b = wU32s l ++ r ∧ l.length = n ∧ (∀ x ∈ l, x < 2 ^ 32)
  | 0, b, l, r, h => by
    obtain ⟨hl, hr⟩ := pure_inv h
    subst hl; subst hr; simp [wU32s]
  | n + 1, b, l, r, h => by
    obtain ⟨x, r1, hu, h2⟩ := bind_inv h
    obtain ⟨t, r2, ht, hp⟩ := bind_inv h2
    obtain ⟨hl, hr⟩ := pure_inv hp
    obtain ⟨hb, hx⟩ := leNat_inv 4 b x r1 hu
    obtain ⟨hb2, hlen, hall⟩ := repeatN_u32_inv n r1 t r2 ht
    subst hl; subst hr
    refine ⟨?_, by simp [hlen], ?_⟩
    · simp only [wU32s, w32, List.append_assoc]; rw [← hb2]; exact hb
    · intro y hy
      rcases List.mem_cons.mp hy with h | h
      · subst h; simpa using hx
      · exact hall y h

theorem filter_ne_zero_nil_replicate : ∀ l : List Nat, (l.filter (· != 0)).length = 0 → l = List.replicate l.length 0
  | [], _ => rfl
  | x :: t, h => by
    by_cases hx : x = 0
    · subst hx
      have : (t.filter (· != 0)).length = 0 := by simpa using h
      rw [List.length_cons, List.replicate_succ, ← filter_ne_zero_nil_replicate t this]
    · have hb : (x != 0) = true := by simp [hx]
      simp [List.filter, hb] at h

/-! ### header -/

theorem hdr_run (c : Consts) (hc : c.ok = true) (pre : Nat) (hpre : pre < 256) (h : Hdr) (hr : h.inRange)
    (f : Nat → Hdr → Reader β) (tail : Bytes) :
    (Reader.bind u8 fun p => Reader.bind (decodeHdrRest c) (f p)) (encodeHdr c pre h ++ tail) = f pre h tail := by
  obtain ⟨h1, h2, h3, h4, h5⟩ := hr
  simp only [Consts.ok, Bool.and_eq_true, decide_eq_true_eq] at hc
  obtain ⟨⟨⟨⟨⟨⟨⟨c1, c2⟩, _⟩, _⟩, _⟩, _⟩, _⟩, _⟩ := hc
  simp only [encodeHdr, List.append_assoc, decodeHdrRest, bind_assoc]
  rw [bind_some (u8_w8 pre (by omega) _)]
  rw [bind_some (u8_w8 c.serVer (by omega) _), bind_some (guard_run (by simp) _)]
  rw [bind_some (u8_w8 c.familyId (by omega) _), bind_some (guard_run (by simp) _)]
  rw [bind_some (u8_w8 h.lgK (by omega) _), bind_some (u8_w8 h.lgArr (by omega) _), bind_some (u8_w8 h.flags (by omega) _),
      bind_some (u8_w8 h.b6 (by omega) _), bind_some (u8_w8 h.mode (by omega) _), pure_bind]

theorem length_encodeHdr (c : Consts) (pre : Nat) (h : Hdr) : (encodeHdr c pre h).length = 8 := by
  simp [encodeHdr, w8, length_wLe]

theorem hdr_inv (c : Consts) (b : Bytes) (h : Hdr) (r : Bytes) (hd : decodeHdrRest c b = some (h, r)) :
    b = w8 c.serVer ++ (w8 c.familyId ++ (w8 h.lgK ++ (w8 h.lgArr ++ (w8 h.flags ++ (w8 h.b6 ++ w8 h.mode))))) ++ r
      ∧ h.inRange := by
  obtain ⟨sv, r1, e1, hd⟩ := bind_inv hd
  obtain ⟨_, r2, g1, hd⟩ := bind_inv hd
  obtain ⟨fam, r3, e2, hd⟩ := bind_inv hd
  obtain ⟨_, r4, g2, hd⟩ := bind_inv hd
  obtain ⟨lgK, r5, e3, hd⟩ := bind_inv hd
  obtain ⟨lgArr, r6, e4, hd⟩ := bind_inv hd
  obtain ⟨flags, r7, e5, hd⟩ := bind_inv hd
  obtain ⟨b6, r8, e6, hd⟩ := bind_inv hd
  obtain ⟨mode, r9, e7, hd⟩ := bind_inv hd
  obtain ⟨hh, hr⟩ := pure_inv hd
  obtain ⟨g1a, g1b⟩ := guard_inv g1
  obtain ⟨g2a, g2b⟩ := guard_inv g2
  obtain ⟨b1, x1⟩ := leNat_inv 1 _ _ _ e1
  obtain ⟨b3, x3⟩ := leNat_inv 1 _ _ _ e2
  obtain ⟨b5, x5⟩ := leNat_inv 1 _ _ _ e3
  obtain ⟨b6', x6⟩ := leNat_inv 1 _ _ _ e4
  obtain ⟨b7, x7⟩ := leNat_inv 1 _ _ _ e5
  obtain ⟨b8, x8⟩ := leNat_inv 1 _ _ _ e6
  obtain ⟨b9, x9⟩ := leNat_inv 1 _ _ _ e7
  have hsv : sv = c.serVer := by simpa using g1a
  have hfam : fam = c.familyId := by simpa using g2a
  subst hh; subst hr; subst g1b; subst g2b; subst hsv; subst hfam
  refine ⟨?_, ?_⟩
  · simp only [w8, List.append_assoc]
    rw [b1, b3, b5, b6', b7, b8, b9]
  · simp only [Hdr.inRange]; omega

end Hll
end DS.Wire

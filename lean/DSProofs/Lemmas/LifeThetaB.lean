/- C19 helper lemmas, theta table part 2: pure facts about the table invariant under single-cell changes,
   `resize`. -/
import DSProofs.Lemmas.LifeTheta
namespace DS.Life.Theta
open DS.Life

theorem SlotOK.of_views {h h' : Heap} {b i : Nat} (hw : wordAt h' b i = wordAt h b i) (hs : stAt h' b i = stAt h b i)
    (ok : SlotOK h b i) : SlotOK h' b i := by
  unfold SlotOK at *
  rw [hw, hs]; exact ok

/-- the table is untouched by changes elsewhere -/
theorem TableAt.other {P : Params} {h h' : Heap} {b lg num : Nat} {X : Nat → Nat → Prop}
    (ht : TableAt P h b lg num) (sb : SameBut h h' X) (hx : ∀ j, ¬ X b j) : TableAt P h' b lg num := by
  have hw : ∀ j, wordAt h' b j = wordAt h b j := fun j => sb.word b j (hx j)
  have hs : ∀ j, stAt h' b j = stAt h b j := fun j => sb.st b j (hx j)
  refine ⟨⟨sb.cells _ _ ht.slots.cells, by rw [sb.next]; exact ht.slots.lt,
    fun i hi => (ht.slots.ok i hi).of_views (hw i) (hs i)⟩, ?_, ?_⟩
  · intro p hp hne
    rw [hw p] at hne ⊢
    obtain ⟨j, ej, hj⟩ := ht.path p hp hne
    exact ⟨j, ej, fun j' hj' => by rw [hw]; exact hj j' hj'⟩
  · rw [ht.count]
    apply cnt_congr
    intro i _
    simp [nz, hw i]

/-- same, for a heap that differs by an allocation or a release of another block -/
theorem TableAt.other' {P : Params} {h h' : Heap} {b lg num : Nat}
    (ht : TableAt P h b lg num)
    (hv : ∀ j, wordAt h' b j = wordAt h b j ∧ stAt h' b j = stAt h b j)
    (hc : HasCells h b (2 ^ lg) → HasCells h' b (2 ^ lg)) (hn : h.next ≤ h'.next) : TableAt P h' b lg num := by
  have hw : ∀ j, wordAt h' b j = wordAt h b j := fun j => (hv j).1
  have hs : ∀ j, stAt h' b j = stAt h b j := fun j => (hv j).2
  refine ⟨⟨hc ht.slots.cells, by have := ht.slots.lt; omega,
    fun i hi => (ht.slots.ok i hi).of_views (hw i) (hs i)⟩, ?_, ?_⟩
  · intro p hp hne
    rw [hw p] at hne ⊢
    obtain ⟨j, ej, hj⟩ := ht.path p hp hne
    exact ⟨j, ej, fun j' hj' => by rw [hw]; exact hj j' hj'⟩
  · rw [ht.count]
    apply cnt_congr
    intro i _
    simp [nz, hw i]

/-- placing a new key into the empty slot `find` returned keeps the invariant, with one more entry -/
theorem TableAt.insert {P : Params} {h h' : Heap} {b lg num idx key v : Nat}
    {X : Nat → Nat → Prop} (ht : TableAt P h b lg num) (sb : SameBut h h' X) (hX : ∀ j, X b j → j = idx) (hi : idx < 2 ^ lg)
    (h0 : wordAt h b idx = 0) (hk : key ≠ 0) (hpath : PathTo P h b lg key idx)
    (hw : wordAt h' b idx = key) (hst : stAt h' b idx = .live v) : TableAt P h' b lg (num + 1) := by
  have hwo : ∀ j, j ≠ idx → wordAt h' b j = wordAt h b j := fun j hj => sb.word b j (fun x => hj (hX j x))
  have hso : ∀ j, j ≠ idx → stAt h' b j = stAt h b j := fun j hj => sb.st b j (fun x => hj (hX j x))
  refine ⟨⟨sb.cells _ _ ht.slots.cells, by rw [sb.next]; exact ht.slots.lt, ?_⟩, ?_, ?_⟩
  · intro i hi'
    by_cases hii : i = idx
    · subst hii
      exact Or.inr ⟨by rw [hw]; exact hk, v, hst⟩
    · exact (ht.slots.ok i hi').of_views (hwo i hii) (hso i hii)
  · intro p hp hne
    by_cases hpi : p = idx
    · subst hpi
      rw [hw]
      obtain ⟨j, ej, hj⟩ := hpath
      refine ⟨j, ej, fun j' hj' => ?_⟩
      have hq : probe P lg key j' ≠ p := by
        intro e
        have := (hj j' hj').1
        rw [e] at this
        exact this h0
      rw [hwo _ hq]
      exact hj j' hj'
    · rw [hwo p hpi] at hne ⊢
      obtain ⟨j, ej, hj⟩ := ht.path p hp hne
      refine ⟨j, ej, fun j' hj' => ?_⟩
      have hq : probe P lg (wordAt h b p) j' ≠ idx := by
        intro e
        have := (hj j' hj').1
        rw [e] at this
        exact this h0
      rw [hwo _ hq]
      exact hj j' hj'
  · rw [ht.count]
    symm
    apply cnt_set_true (k := idx) hi
    · simp [nz, h0]
    · simp [nz, hw, hk]
    · intro i hii
      simp [nz, hwo i hii]

/-- capacity side condition on the tunables: the rebuild threshold is at least one half -/
def Params.OK (P : Params) : Prop := 0 < P.rbdDen ∧ P.rbdDen ≤ 2 * P.rbdNum ∧ 1 ≤ P.minLgK

theorem capacity_ge_nominal {P : Params} (hP : P.OK) {lgCur lgNom : Nat} (hl : lgNom < lgCur) :
    2 ^ lgNom ≤ capacity P lgCur lgNom := by
  unfold capacity
  rw [if_neg (by omega)]
  obtain ⟨hd, hn, _⟩ := hP
  rw [Nat.le_div_iff_mul_le hd]
  have h2 : 2 * 2 ^ lgNom ≤ 2 ^ lgCur := by
    have : 2 ^ (lgNom + 1) ≤ 2 ^ lgCur := Nat.pow_le_pow_right (by omega) (by omega)
    rw [Nat.pow_succ] at this
    omega
  calc 2 ^ lgNom * P.rbdDen ≤ 2 ^ lgNom * (2 * P.rbdNum) := Nat.mul_le_mul_left _ hn
    _ = P.rbdNum * (2 * 2 ^ lgNom) := by
        generalize 2 ^ lgNom = x
        rw [Nat.mul_left_comm x 2, Nat.mul_comm x, Nat.mul_left_comm 2]
    _ ≤ P.rbdNum * 2 ^ lgCur := Nat.mul_le_mul_left _ h2


/-- `find` the slot of a key that is not yet in the new table `nb`, move-construct the entry of old slot `(b, i)`
    there and destroy the source -/
theorem vstep_moveEntry {β} (P : Params) {n0 : Nat} {S : Nat → Bool} {h : Heap} {b n i nb lgNew m v : Nat}
    {f : Unit → M β} {Q : β → Heap → Prop}
    (ht : TableAt P h nb lgNew m) (hc : HasCells h b n) (hi : i < n) (hne : nb ≠ b)
    (hl : stAt h b i = .live v) (hk : wordAt h b i ≠ 0) (hnk : ∀ p, p < 2 ^ lgNew → wordAt h nb p ≠ wordAt h b i)
    (hSb : S b = true) (hSn : S nb = true)
    (s : ∀ h', SameBut h h' (fun b' j => (b' = b ∧ j = i) ∨ b' = nb) → TableAt P h' nb lgNew (m + 1) →
          wordAt h' b i = wordAt h b i → stAt h' b i = .raw →
          (∀ p, wordAt h' nb p = wordAt h nb p ∨ wordAt h' nb p = wordAt h b i) → SafeF S h' (f () h') Q) :
    SafeF S h ((find P nb lgNew (wordAt h b i) >>= fun r =>
                 (moveConstructEntry b i nb r.1 >>= fun _ => (destroy b i >>= f))) h) Q := by
  have hf := find_spec P n0 S nb lgNew (wordAt h b i) hk h ht.slots.cells ht.path
  -- run `find`
  rw [bind_eq]
  cases hfr : find P nb lgNew (wordAt h b i) h with
  | error e =>
    rw [hfr] at hf
    cases e <;> simp_all [SafeX, SafeF]
  | ok res =>
    obtain ⟨r, h1⟩ := res
    rw [hfr] at hf
    obtain ⟨⟨rfl, hlt, hcase⟩, _⟩ := hf
    simp only
    rcases hcase with ⟨_, hfound⟩ | ⟨_, h0, _, hpath⟩
    · exact absurd hfound (hnk r.1 hlt)
    · have hraw : stAt h1 nb r.1 = .raw := by
        rcases ht.slots.ok r.1 hlt with ⟨_, hr⟩ | ⟨hnz, _⟩
        · exact hr
        · exact absurd h0 hnz
      apply vstep_moveConstructEntry hc hi hl ht.slots.cells hlt hraw (fun x => hne x.1) hSb hSn
      intro h2 sb2 hwd hsd hws hss
      apply vstep_destroy (sb2.cells _ _ hc) hi (by rw [hss]; simp) hSb
      intro h3 sb3 hw3 hs3
      have sb23 : SameBut h1 h3 (fun b' j => (b' = b ∧ j = i) ∨ (b' = nb ∧ j = r.1)) :=
        sb2.trans sb3 (fun _ _ x => x) (fun _ _ x => Or.inl x)
      have hXi : ∀ j, ((nb = b ∧ j = i) ∨ (nb = nb ∧ j = r.1)) → j = r.1 := by
        intro j hj
        rcases hj with ⟨e, _⟩ | ⟨_, e⟩
        · exact absurd e hne
        · exact e
      have hwn : wordAt h3 nb r.1 = wordAt h1 b i := by
        rw [sb3.word nb r.1 (fun x => hne x.1), hwd]
      have hsn : stAt h3 nb r.1 = .live v := by
        rw [sb3.st nb r.1 (fun x => hne x.1), hsd]
      apply s h3 (sb23.mono (fun p q x => by
          rcases x with x | x
          · exact Or.inl x
          · exact Or.inr x.1))
        (TableAt.insert ht sb23 hXi hlt h0 hk hpath hwn hsn)
        (by rw [hw3, hws]) hs3
      intro p
      by_cases hp : p = r.1
      · subst hp; exact Or.inr hwn
      · left
        exact sb23.word nb p (fun x => by
          rcases x with ⟨e, _⟩ | ⟨_, e⟩
          · exact hne e
          · exact hp e)


/-- loop invariant of `resize`: the first `k` old slots have been emptied -/
structure ResizeInv (P : Params) (h : Heap) (b oldSize nb lgNew total k : Nat) (ids : List Nat) : Prop where
  oc : HasCells h b oldSize
  ne : nb ≠ b
  done : ∀ j, j < k → wordAt h b j = 0 ∧ stAt h b j = .raw
  rest : ∀ j, k ≤ j → j < oldSize → SlotOK h b j
  dist : Distinct h b oldSize
  tbl : ∃ m, TableAt P h nb lgNew m ∧ m + cnt (nz h b) oldSize = total
  cross : ∀ p q, p < 2 ^ lgNew → q < oldSize → wordAt h nb p ≠ 0 → wordAt h b q ≠ wordAt h nb p
  ids : h.ids = ids

theorem resize_body_spec (P : Params) (n0 : Nat) (S : Nat → Bool) (b oldSize nb lgNew total i : Nat) (ids : List Nat)
    (hSb : S b = true) (hSn : S nb = true) (hi : i < oldSize) :
    TripleS n0 S (fun h => ResizeInv P h b oldSize nb lgNew total i ids)
      (do
        let key ← readWord b i
        if key ≠ 0 then
          let r ← find P nb lgNew key
          moveConstructEntry b i nb r.1
          destroy b i
          writeWord b i 0)
      (fun _ h => ResizeInv P h b oldSize nb lgNew total (i + 1) ids) := by
  intro h hn inv
  apply vstep_readWord inv.oc hi
  have hso := inv.rest i (Nat.le_refl _) hi
  by_cases hk : wordAt h b i ≠ 0
  · rw [if_pos hk]
    obtain ⟨m, ht, hm⟩ := inv.tbl
    rcases hso with ⟨hz, _⟩ | ⟨_, v, hv⟩
    · exact absurd hz hk
    · have hnk : ∀ p, p < 2 ^ lgNew → wordAt h nb p ≠ wordAt h b i := by
        intro p hp e
        exact inv.cross p i hp hi (by rw [e]; exact hk) e.symm
      apply vstep_moveEntry P (n0 := n0) ht inv.oc hi inv.ne hv hk hnk hSb hSn
      intro h1 sb1 ht1 hw1 hs1 hwn
      apply SafeF.last
      apply vstep_writeWord 0 (sb1.cells _ _ inv.oc) hi hSb
      intro h2 sb2 hw2 hs2
      apply SafeF.pure
      have sb12 : SameBut h h2 (fun b' j => (b' = b ∧ j = i) ∨ b' = nb) :=
        sb1.trans sb2 (fun _ _ x => x) (fun _ _ x => Or.inl x)
      have hwo : ∀ j, j ≠ i → wordAt h2 b j = wordAt h b j := fun j hj =>
        sb12.word b j (fun x => by rcases x with x | x; exact hj x.2; exact inv.ne x.symm)
      have hso' : ∀ j, j ≠ i → stAt h2 b j = stAt h b j := fun j hj =>
        sb12.st b j (fun x => by rcases x with x | x; exact hj x.2; exact inv.ne x.symm)
      have hwn2 : ∀ p, wordAt h2 nb p = wordAt h1 nb p := fun p => sb2.word nb p (fun x => inv.ne x.1)
      refine ⟨sb12.cells _ _ inv.oc, inv.ne, ?_, ?_, ?_, ?_, ?_, by rw [sb12.ids]; exact inv.ids⟩
      · intro j hj
        by_cases hji : j = i
        · subst hji; exact ⟨hw2, by rw [hs2, hs1]⟩
        · rw [hwo j hji, hso' j hji]; exact inv.done j (by omega)
      · intro j hj1 hj2
        have hji : j ≠ i := by omega
        exact (inv.rest j (by omega) hj2).of_views (hwo j hji) (hso' j hji)
      · intro p q hp hq heq hne
        have hpi : p ≠ i := by intro e; subst e; exact hne hw2
        have hqi : q ≠ i := by intro e; subst e; rw [hw2] at heq; exact hne heq
        rw [hwo p hpi] at heq hne
        rw [hwo q hqi] at heq
        exact inv.dist p q hp hq heq hne
      · refine ⟨m + 1, ht1.other sb2 (fun j x => inv.ne x.1), ?_⟩
        have : cnt (nz h2 b) oldSize + 1 = cnt (nz h b) oldSize := by
          apply cnt_set_false (k := i) hi
          · simp [nz, hk]
          · simp [nz, hw2]
          · intro j hj; simp [nz, hwo j hj]
        omega
      · intro p q hp hq hne
        rw [hwn2 p] at hne ⊢
        by_cases hqi : q = i
        · subst hqi; rw [hw2]; exact fun e => hne e.symm
        · rw [hwo q hqi]
          rcases hwn p with e | e
          · rw [e] at hne ⊢; exact inv.cross p q hp hq hne
          · rw [e]
            intro e'
            exact hqi (inv.dist q i hq hi e' (by rw [e']; exact hk))
  · rw [if_neg hk]
    apply SafeF.pure
    have hk0 : wordAt h b i = 0 := by omega
    refine ⟨inv.oc, inv.ne, ?_, fun j hj1 hj2 => inv.rest j (by omega) hj2, inv.dist, inv.tbl, inv.cross, inv.ids⟩
    intro j hj
    by_cases hji : j = i
    · subst hji
      rcases hso with ⟨_, hr⟩ | ⟨hnz, _⟩
      · exact ⟨hk0, hr⟩
      · exact absurd hk0 hnz
    · exact inv.done j (by omega)


/-- `zeroKeys` as a view-level step: only block `b` changes; its cells stay raw and get key 0 -/
theorem vstep_zeroKeys {β} {n0 : Nat} {S : Nat → Bool} {h : Heap} {b size : Nat} {f : Unit → M β} {Q : β → Heap → Prop}
    (hn : n0 ≤ h.next) (hc : HasCells h b size) (hr : ∀ i, i < size → stAt h b i = .raw) (hS : S b = true)
    (s : ∀ h', SameBut h h' (fun b' _ => b' = b) → (∀ i, i < size → stAt h' b i = .raw ∧ wordAt h' b i = 0) →
          SafeF S h' (f () h') Q) :
    SafeF S h ((zeroKeys b size >>= f) h) Q := by
  unfold zeroKeys
  have loop := TripleS.loopUp (n0 := n0) (S := S)
    (fun k h' => SameBut h h' (fun b' _ => b' = b) ∧ (∀ i, i < size → stAt h' b i = .raw) ∧ (∀ i, i < k → wordAt h' b i = 0))
    (fun i => writeWord b i 0) size 0 ?_
  · apply SafeF.bind_triple loop hn ⟨SameBut.refl _ _, hr, fun i hi => by omega⟩
    intro _ h1 ⟨sb, hr1, hz1⟩ _
    exact s h1 sb (fun i hi => ⟨hr1 i hi, hz1 i (by omega)⟩)
  · intro i _ hi h' _ ⟨sb, hr', hz'⟩
    have hi' : i < size := by omega
    apply SafeF.last
    apply vstep_writeWord 0 (sb.cells _ _ hc) hi' hS
    intro h2 sb2 hw2 hs2
    apply SafeF.pure
    refine ⟨sb.trans sb2 (fun _ _ x => x) (fun _ _ x => x.1), ?_, ?_⟩
    · intro j hj
      by_cases hji : j = i
      · subst hji; rw [hs2]; exact hr' j hj
      · rw [sb2.st b j (fun x => hji x.2)]; exact hr' j hj
    · intro j hj
      by_cases hji : j = i
      · subst hji; exact hw2
      · rw [sb2.word b j (fun x => hji x.2)]; exact hz' j (by omega)

/-- `resize()` -/
theorem resize_spec (P : Params) (n0 : Nat) (S : Nat → Bool) (t : Table) (b : Nat) (hb : t.entries = some b)
    (hSb : S b = true) (hSn : ∀ x, n0 ≤ x → S x = true) (ids : List Nat) :
    TripleS n0 S (fun h => TableAt P h b t.lgCur t.num ∧ h.ids = ids)
      (resize P t)
      (fun t' h' => ∃ nb, n0 ≤ nb ∧ nb ≠ b ∧ t' = { t with entries := some nb, lgCur := min (t.lgCur + t.rf) (t.lgNom + 1) } ∧
        TableAt P h' nb t'.lgCur t.num ∧ h'.ids = (nb :: ids).filter (fun x => x != b)) := by
  intro h hn ⟨ht, hid⟩
  unfold resize
  rw [hb]
  apply step_deref
  have hSnb : S h.next = true := hSn _ hn
  apply vstep_alloc _ _ hSnb
  intro h1 hc1 hr1 hv1 hcells1 hid1 hnx1
  have hbne : b ≠ h.next := by have := ht.slots.lt; omega
  apply vstep_zeroKeys (n0 := n0) (by omega) hc1 hr1 hSnb
  intro h2 sb2 hz2
  have hwb : ∀ j, wordAt h2 b j = wordAt h b j := fun j => by
    rw [sb2.word b j (fun x => hbne x), (hv1 b j hbne).1]
  have hsb : ∀ j, stAt h2 b j = stAt h b j := fun j => by
    rw [sb2.st b j (fun x => hbne x), (hv1 b j hbne).2]
  have hc2b : HasCells h2 b (2 ^ t.lgCur) := sb2.cells _ _ (hcells1 b _ hbne ht.slots.cells)
  have hnx2 : h2.next = h.next + 1 := by rw [sb2.next, hnx1]
  -- the loop
  have loop := TripleS.loopUp (n0 := n0) (S := S)
    (fun k h' => ResizeInv P h' b (2 ^ t.lgCur) h.next (min (t.lgCur + t.rf) (t.lgNom + 1)) t.num k (h.next :: ids))
    _ (2 ^ t.lgCur) 0
    (fun i _ hi => resize_body_spec P n0 S b (2 ^ t.lgCur) h.next _ t.num i (h.next :: ids) hSb hSnb (by omega))
  have inv0 : ResizeInv P h2 b (2 ^ t.lgCur) h.next (min (t.lgCur + t.rf) (t.lgNom + 1)) t.num 0 (h.next :: ids) := by
    refine ⟨hc2b, fun e => hbne e.symm, fun j hj => by omega, ?_, ?_, ?_, ?_, by rw [sb2.ids, hid1, hid]⟩
    · intro j _ hj
      exact (ht.slots.ok j hj).of_views (hwb j) (hsb j)
    · intro p q hp hq heq hne
      rw [hwb p] at heq hne; rw [hwb q] at heq
      exact ht.path.distinct p q hp hq heq hne
    · refine ⟨0, TableAt.empty P (sb2.cells _ _ hc1) (by omega) hz2, ?_⟩
      rw [ht.count]
      simp only [Nat.zero_add]
      apply cnt_congr
      intro j _
      simp [nz, hwb j]
    · intro p q hp _ hne
      exact absurd (hz2 p hp).2 hne
  apply SafeF.bind_triple loop (by omega) inv0
  intro _ h3 inv3 hle3
  simp only [Nat.zero_add] at inv3
  obtain ⟨m, ht3, hm3⟩ := inv3.tbl
  apply vstep_dealloc inv3.oc (fun i hi => (inv3.done i hi).2) hSb
  intro h4 hv4 hcells4 hid4 hnx4
  apply SafeF.pure
  refine ⟨h.next, hn, fun e => hbne e.symm, rfl, ?_, by rw [hid4, inv3.ids]⟩
  have hcnt0 : cnt (nz h3 b) (2 ^ t.lgCur) = 0 := by
    apply cnt_zero_of_all_false
    intro i hi
    simp [nz, (inv3.done i hi).1]
  have hm : m = t.num := by omega
  subst hm
  exact ht3.other' (fun j => hv4 _ j inv3.ne) (hcells4 _ _ inv3.ne) (by omega)

end DS.Life.Theta

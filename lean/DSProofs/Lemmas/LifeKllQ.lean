/- C19, KLL sketch part 17: `general_compress` – the loop body cut into tails. -/
import DSProofs.Lemmas.LifeKllP
namespace DS.Life.Kll
open DS.Life

/-- the end of one iteration of the `while (!done_yet)` loop -/
def gcNext (k m items : Nat) (srt : Bool) (f cl : Nat) (g : GcState) : M GcState :=
  if cl = g.curNumLevels - 1 then pure g else generalCompressLoop k m items srt f (cl + 1) g

/-- compaction branch, after the halving: in-levels, counters, possibly a new level -/
def gcB3 (k m items : Nat) (srt : Bool) (f cl : Nat) (g : GcState) (inL outL : List Nat) (half : Nat)
    (coins : List Bool) : M GcState := do
  let x ← lv inL (cl + 1)
  let inL ← setLv inL (cl + 1) (x - half)
  let g : GcState := { g with inLevels := inL, outLevels := outL, curItemCount := g.curItemCount - half, coins }
  if cl = g.curNumLevels - 1 then
    gcNext k m items srt f cl
      { g with curNumLevels := g.curNumLevels + 1, target := g.target + levelCapacity k (g.curNumLevels + 1) 0 m }
  else gcNext k m items srt f cl g

/-- compaction branch, coin flip, halving, merge with the level above -/
def gcB2 (k m items : Nat) (srt : Bool) (f cl : Nat) (g : GcState) (inL outL : List Nat)
    (rawLim adjBeg adjPop popAbove : Nat) : M GcState := do
  let (coin, coins) := nextCoin g.coins
  if popAbove = 0 then
    halveUp items adjBeg adjPop coin
  else
    halveDown items adjBeg adjPop coin
    mergeInPlace items adjBeg (adjPop / 2) rawLim popAbove (adjBeg + adjPop / 2)
  gcB3 k m items srt f cl g inL outL (adjPop / 2) coins

/-- compaction branch, from the sort of level zero on -/
def gcB1 (k m items : Nat) (srt : Bool) (f cl : Nat) (g : GcState) (inL outL : List Nat)
    (rawLim adjBeg adjPop popAbove : Nat) : M GcState := do
  if cl = 0 ∧ !srt then sortRange items adjBeg adjPop
  gcB2 k m items srt f cl g inL outL rawLim adjBeg adjPop popAbove

/-- one iteration, once the in-levels have an entry above the current top level -/
def gcBody (k m items : Nat) (srt : Bool) (f cl : Nat) (g : GcState) (inL : List Nat) : M GcState := do
  let rawBeg ← lv inL cl
  let rawLim ← lv inL (cl + 1)
  let rawPop := rawLim - rawBeg
  let outCl ← lv g.outLevels cl
  if g.curItemCount < g.target ∨ rawPop < levelCapacity k g.curNumLevels cl m then do
    if rawBeg < outCl then throwExc "wrong move" else
    if rawBeg ≠ outCl then loopUp (fun i => moveAssignSlot items i items (outCl + (i - rawBeg))) rawPop rawBeg
    let outL ← setLv g.outLevels (cl + 1) (outCl + rawPop)
    gcNext k m items srt f cl { g with inLevels := inL, outLevels := outL }
  else do
    let top ← lv inL (cl + 2)
    let popAbove := top - rawLim
    let oddPop := rawPop % 2 = 1
    let adjBeg := if oddPop then rawBeg + 1 else rawBeg
    let adjPop := if oddPop then rawPop - 1 else rawPop
    if oddPop then do
      if outCl ≠ rawBeg then moveAssignSlot items rawBeg items outCl
      let outL ← setLv g.outLevels (cl + 1) (outCl + 1)
      gcB1 k m items srt f cl g inL outL rawLim adjBeg adjPop popAbove
    else do
      let outL ← setLv g.outLevels (cl + 1) outCl
      gcB1 k m items srt f cl g inL outL rawLim adjBeg adjPop popAbove

theorem gcLoop_eq (k m items : Nat) (srt : Bool) (f cl : Nat) (g : GcState) :
    generalCompressLoop k m items srt (f + 1) cl g =
      (if cl = g.curNumLevels - 1 then do
        let x ← lv g.inLevels (cl + 1)
        let inL ← setLv g.inLevels (cl + 2) x
        gcBody k m items srt f cl g inL
      else gcBody k m items srt f cl g g.inLevels) := rfl


/-! ### the loop invariant -/

/-- population of level `l`: from the out-levels below `cl`, from the in-levels from `cl` on -/
def mixPop (OL IL : List Nat) (cl l : Nat) : Nat := if l < cl then pop OL l else pop IL l

structure GCInv (k m wb tmp ub finalN : Nat) (h : Heap) (cl : Nat) (g : GcState) : Prop where
  lenI : g.inLevels.length = ub + 2
  lenO : g.outLevels.length = ub + 2
  hN : g.curNumLevels ≤ ub
  hcl : cl < g.curNumLevels
  out0 : g.outLevels.getD 0 0 = 0
  outMono : ∀ l, l < cl → g.outLevels.getD l 0 ≤ g.outLevels.getD (l + 1) 0
  inMono : ∀ l, cl ≤ l → l < g.curNumLevels → g.inLevels.getD l 0 ≤ g.inLevels.getD (l + 1) 0
  inTop : g.inLevels.getD g.curNumLevels 0 = tmp
  oi : g.outLevels.getD cl 0 ≤ g.inLevels.getD cl 0
  cells : HasCells h wb tmp
  live1 : LiveOn h wb 0 (g.outLevels.getD cl 0)
  gap : NonRawOn h wb (g.outLevels.getD cl 0) (g.inLevels.getD cl 0)
  live2 : LiveOn h wb (g.inLevels.getD cl 0) tmp
  tgt : g.target = computeTotalCapacity k m g.curNumLevels
  cap : g.curItemCount < g.target ∨
    g.outLevels.getD cl 0 + cl + computeTotalCapacity k m (g.curNumLevels - cl) ≤
      computeTotalCapacity k m g.curNumLevels
  wt : wsum (mixPop g.outLevels g.inLevels cl) g.curNumLevels = finalN

/-- what the loop delivers -/
structure GCPost (k m wb tmp ub : Nat) (h' : Heap) (g' : GcState) : Prop where
  lenO : g'.outLevels.length = ub + 2
  hN : g'.curNumLevels ≤ ub
  hN1 : 1 ≤ g'.curNumLevels
  out0 : g'.outLevels.getD 0 0 = 0
  mono : ∀ l, l < g'.curNumLevels → g'.outLevels.getD l 0 ≤ g'.outLevels.getD (l + 1) 0
  cells : HasCells h' wb tmp
  live : LiveOn h' wb 0 (g'.outLevels.getD g'.curNumLevels 0)
  nonraw : NonRawOn h' wb (g'.outLevels.getD g'.curNumLevels 0) tmp
  le : g'.outLevels.getD g'.curNumLevels 0 ≤ tmp
  tgt : g'.target = computeTotalCapacity k m g'.curNumLevels
  cap : g'.curItemCount < g'.target ∨ g'.outLevels.getD g'.curNumLevels 0 ≤ g'.target

/-- postcondition of the loop started in `h` with state `g` -/
def GCQ (k m wb tmp ub : Nat) (g : GcState) (h : Heap) : GcState → Heap → Prop :=
  fun g' h' => GCPost k m wb tmp ub h' g' ∧ g.curNumLevels ≤ g'.curNumLevels ∧ SameBut h h' (fun b' _ => b' = wb)

theorem mono_chain {f : Nat → Nat} {a b : Nat} (hm : ∀ l, a ≤ l → l < b → f l ≤ f (l + 1)) :
    ∀ j i, a ≤ i → i ≤ j → j ≤ b → f i ≤ f j := by
  intro j
  induction j with
  | zero => intro i _ hi _; have : i = 0 := by omega
            subst this; exact Nat.le_refl _
  | succ j ih =>
    intro i ha hi hj
    by_cases e : i = j + 1
    · subst e; exact Nat.le_refl _
    · exact Nat.le_trans (ih i ha (by omega) (by omega)) (hm j (by omega) (by omega))

theorem tc_step (k m n : Nat) (hn : 1 ≤ n) :
    computeTotalCapacity k m n = computeTotalCapacity k m (n - 1) + levelCapacity k n 0 m := by
  have e : n = (n - 1) + 1 := by omega
  conv => lhs; rw [e]
  rw [computeTotalCapacity_succ, ← e]

theorem levelCapacity_depth (k N cl m : Nat) (h : cl < N) :
    levelCapacity k N cl m = levelCapacity k (N - cl) 0 m := by
  unfold levelCapacity
  have : N - cl - 0 - 1 = N - cl - 1 := by omega
  rw [this]

theorem gcNext_spec {S : Nat → Bool} {k m wb tmp ub finalN : Nat} {srt : Bool} {f : Nat}
    (ih : ∀ cl g h, GCInv k m wb tmp ub finalN h cl g →
      SafeF S h (generalCompressLoop k m wb srt f cl g h) (GCQ k m wb tmp ub g h))
    {cl : Nat} {g : GcState} {h : Heap} (hfin : cl = g.curNumLevels - 1 → GCPost k m wb tmp ub h g)
    (hnext : cl ≠ g.curNumLevels - 1 → GCInv k m wb tmp ub finalN h (cl + 1) g) :
    SafeF S h (gcNext k m wb srt f cl g h) (GCQ k m wb tmp ub g h) := by
  unfold gcNext
  by_cases e : cl = g.curNumLevels - 1
  · rw [if_pos e]
    apply SafeF.pure
    exact ⟨hfin e, Nat.le_refl _, SameBut.refl _ _⟩
  · rw [if_neg e]
    exact ih (cl + 1) g h (hnext e)


/-- the in-levels after the preamble of an iteration -/
structure ILExt (tmp : Nat) (cl : Nat) (g : GcState) (IL' : List Nat) : Prop where
  len : IL'.length = g.inLevels.length
  same : ∀ l, l ≤ g.curNumLevels → IL'.getD l 0 = g.inLevels.getD l 0
  top : cl = g.curNumLevels - 1 → IL'.getD (g.curNumLevels + 1) 0 = tmp

theorem gcB3_spec {S : Nat → Bool} {k m wb tmp ub finalN : Nat} {srt : Bool} {f : Nat} (hm2 : 2 ≤ m)
    (h64 : finalN < 2 ^ 64) (hub : ub = ubOnNumLevels finalN)
    (ih : ∀ cl g h, GCInv k m wb tmp ub finalN h cl g →
      SafeF S h (generalCompressLoop k m wb srt f cl g h) (GCQ k m wb tmp ub g h))
    {cl : Nat} {g : GcState} {h h2 : Heap} (inv : GCInv k m wb tmp ub finalN h cl g) {IL' OL' : List Nat}
    (ext : ILExt tmp cl g IL') (hlenO : OL'.length = ub + 2) {odd half : Nat} (coins' : List Bool)
    (hOsame : ∀ l, l ≠ cl + 1 → OL'.getD l 0 = g.outLevels.getD l 0)
    (hOnew : OL'.getD (cl + 1) 0 = g.outLevels.getD cl 0 + odd)
    (hpop : g.inLevels.getD (cl + 1) 0 = g.inLevels.getD cl 0 + odd + 2 * half) (hh : 1 ≤ half) (ho : odd ≤ 1)
    (hfull : ¬ g.curItemCount < g.target)
    (hc2 : HasCells h2 wb tmp)
    (l1 : LiveOn h2 wb 0 (g.outLevels.getD cl 0 + odd))
    (nr : NonRawOn h2 wb (g.outLevels.getD cl 0 + odd) (g.inLevels.getD cl 0 + odd + half))
    (l2 : LiveOn h2 wb (g.inLevels.getD cl 0 + odd + half) tmp) :
    SafeF S h2 (gcB3 k m wb srt f cl g IL' OL' half coins' h2)
      (fun g' h' => GCPost k m wb tmp ub h' g' ∧ g.curNumLevels ≤ g'.curNumLevels ∧
        SameBut h2 h' (fun b' _ => b' = wb)) := by
  have hN := inv.hN
  have hcl := inv.hcl
  have hlenI : IL'.length = ub + 2 := by rw [ext.len, inv.lenI]
  unfold gcB3
  apply step_lv (by omega)
  apply step_setLv _ (by omega)
  rw [ext.same (cl + 1) (by omega)]
  generalize hIL2 : IL'.set (cl + 1) (g.inLevels.getD (cl + 1) 0 - half) = IL2
  have hlen2 : IL2.length = ub + 2 := by rw [← hIL2]; simp [hlenI]
  have hI2new : IL2.getD (cl + 1) 0 = g.inLevels.getD cl 0 + odd + half := by
    rw [← hIL2, getD_set_eq _ _ _ (by omega)]; omega
  have hI2same : ∀ l, l ≠ cl + 1 → IL2.getD l 0 = IL'.getD l 0 := fun l hl => by
    rw [← hIL2, getD_set_ne _ _ _ _ hl]
  -- the entry above level `cl + 1`
  have htop : g.inLevels.getD (cl + 1) 0 ≤ IL'.getD (cl + 2) 0 ∧ IL'.getD (cl + 2) 0 ≤ tmp := by
    by_cases e : cl = g.curNumLevels - 1
    · have e1 : cl + 2 = g.curNumLevels + 1 := by omega
      have e2 : cl + 1 = g.curNumLevels := by omega
      rw [e1, ext.top e, e2, inv.inTop]; omega
    · rw [ext.same (cl + 2) (by omega)]
      refine ⟨inv.inMono (cl + 1) (by omega) (by omega), ?_⟩
      have := mono_chain inv.inMono g.curNumLevels (cl + 2) (by omega) (by omega) (Nat.le_refl _)
      rw [inv.inTop] at this; exact this
  have htop' : g.inLevels.getD (cl + 1) 0 ≤ IL'.getD (cl + 1 + 1) 0 := htop.1
  have hcapR := inv.cap.resolve_left hfull
  have hlcge : ∀ n, 2 ≤ levelCapacity k n 0 m := fun n => by have := levelCapacity_ge k n 0 m; omega
  -- weight of the old levels, seen through `IL'`
  have hwold : ∀ N', (N' = g.curNumLevels ∨ (N' = g.curNumLevels + 1 ∧ cl = g.curNumLevels - 1)) →
      wsum (mixPop g.outLevels IL' cl) N' = finalN := by
    intro N' hN'
    have hbase : wsum (mixPop g.outLevels IL' cl) g.curNumLevels = finalN := by
      rw [← inv.wt]
      apply wsum_congr
      intro l hl
      simp only [mixPop, pop]
      rw [ext.same l (by omega), ext.same (l + 1) (by omega)]
    rcases hN' with e | ⟨e, etop⟩
    · rw [e]; exact hbase
    · rw [e]
      simp only [wsum]
      rw [hbase]
      have : mixPop g.outLevels IL' cl g.curNumLevels = 0 := by
        simp only [mixPop, pop]
        rw [if_neg (by omega), ext.top etop, ext.same _ (Nat.le_refl _), inv.inTop]; omega
      rw [this]; omega
  have hwnew : ∀ N', cl + 1 < N' → wsum (mixPop g.outLevels IL' cl) N' = finalN →
      wsum (mixPop OL' IL2 (cl + 1)) N' = finalN := by
    intro N' hlt hw
    rw [← hw]
    apply wsum_move (i := cl) (hh := half) hlt
    · simp only [mixPop, pop]
      rw [if_pos (by omega), if_neg (by omega), hOnew, hOsame cl (by omega), ext.same cl (by omega),
        ext.same (cl + 1) (by omega)]
      omega
    · simp only [mixPop, pop]
      rw [if_neg (by omega), if_neg (by omega), hI2new, hI2same (cl + 1 + 1) (by omega),
        ext.same (cl + 1) (by omega)]
      omega
    · intro l h1 h2
      simp only [mixPop, pop]
      by_cases e : l < cl
      · rw [if_pos (by omega), if_pos e, hOsame l (by omega), hOsame (l + 1) (by omega)]
      · rw [if_neg (by omega), if_neg e, hI2same l (by omega), hI2same (l + 1) (by omega)]
  -- the invariant for the next level, for the new number of levels `N'`
  have mk : ∀ (g' : GcState), g'.inLevels = IL2 → g'.outLevels = OL' →
      (g'.curNumLevels = g.curNumLevels ∧ cl ≠ g.curNumLevels - 1 ∧ g'.target = g.target ∨
       g'.curNumLevels = g.curNumLevels + 1 ∧ cl = g.curNumLevels - 1 ∧
         g'.target = g.target + levelCapacity k (g.curNumLevels + 1) 0 m) →
      GCInv k m wb tmp ub finalN h2 (cl + 1) g' := by
    intro g' e1 e2 hcase
    have hN' : cl + 1 < g'.curNumLevels := by rcases hcase with ⟨a, b, _⟩ | ⟨a, b, _⟩ <;> omega
    have hwt : wsum (mixPop OL' IL2 (cl + 1)) g'.curNumLevels = finalN := by
      apply hwnew _ hN'
      apply hwold
      rcases hcase with ⟨a, _, _⟩ | ⟨a, b, _⟩
      · exact Or.inl a
      · exact Or.inr ⟨a, b⟩
    have hub : g'.curNumLevels ≤ ub := by
      rcases hcase with ⟨a, _, _⟩ | ⟨a, b, _⟩
      · omega
      · -- the new top level is not empty, so `2 ^ N ≤ finalN`
        rw [a]
        have h1 := wsum_top_le (mixPop OL' IL2 (cl + 1)) g.curNumLevels
        rw [a] at hwt
        rw [hwt] at h1
        have h2 : 1 ≤ mixPop OL' IL2 (cl + 1) g.curNumLevels := by
          simp only [mixPop, pop]
          have e3 : g.curNumLevels = cl + 1 := by omega
          rw [if_neg (by omega), e3, hI2new, hI2same (cl + 1 + 1) (by omega)]
          have e4 : cl + 1 + 1 = g.curNumLevels + 1 := by omega
          rw [e4, ext.top b]
          have := inv.inTop
          rw [e3] at this
          omega
        have h3 : 2 ^ g.curNumLevels * 1 ≤ 2 ^ g.curNumLevels * mixPop OL' IL2 (cl + 1) g.curNumLevels :=
          Nat.mul_le_mul_left _ h2
        rw [hub]
        exact ub_ge h64 (by simp only [Nat.add_sub_cancel]; omega)
    refine ⟨by rw [e1]; exact hlen2, by rw [e2]; exact hlenO, hub, hN', ?_, ?_, ?_, ?_, ?_, hc2, ?_, ?_, ?_, ?_, ?_, ?_⟩
    · rw [e2, hOsame 0 (by omega)]; exact inv.out0
    · intro l hl
      rw [e2]
      by_cases e : l = cl
      · subst e; rw [hOnew, hOsame l (by omega)]; omega
      · rw [hOsame l (by omega), hOsame (l + 1) (by omega)]; exact inv.outMono l (by omega)
    · intro l h1 h2
      rw [e1]
      by_cases e : l = cl + 1
      · subst e
        rw [hI2new, hI2same (cl + 1 + 1) (by omega)]
        omega
      · rw [hI2same l e, hI2same (l + 1) (by omega)]
        rcases hcase with ⟨a, b, _⟩ | ⟨a, b, _⟩
        · rw [ext.same l (by omega), ext.same (l + 1) (by omega)]
          exact inv.inMono l (by omega) (by omega)
        · omega
    · rw [e1]
      rcases hcase with ⟨a, b, _⟩ | ⟨a, b, _⟩
      · rw [a, hI2same _ (by omega), ext.same _ (Nat.le_refl _)]; exact inv.inTop
      · rw [a, hI2same _ (by omega)]; exact ext.top b
    · rw [e1, e2, hOnew, hI2new]
      have := inv.oi; omega
    · rw [e2, hOnew]; exact l1
    · rw [e1, e2, hOnew, hI2new]; exact nr
    · rw [e1, hI2new]; exact l2
    · rcases hcase with ⟨a, _, c⟩ | ⟨a, _, c⟩
      · rw [a, c]; exact inv.tgt
      · rw [a, c, computeTotalCapacity_succ, inv.tgt]
    · right
      rw [e2, hOnew]
      rcases hcase with ⟨a, b, _⟩ | ⟨a, b, _⟩
      · rw [a]
        have h1 := tc_step k m (g.curNumLevels - cl) (by omega)
        have h2 := hlcge (g.curNumLevels - cl)
        have e5 : g.curNumLevels - (cl + 1) = g.curNumLevels - cl - 1 := by omega
        rw [e5]; omega
      · rw [a, computeTotalCapacity_succ]
        have h2 := hlcge (g.curNumLevels + 1)
        have e5 : g.curNumLevels + 1 - (cl + 1) = g.curNumLevels - cl := by omega
        rw [e5]; omega
    · rw [e1, e2]; exact hwt
  simp only
  by_cases etop : cl = g.curNumLevels - 1
  · rw [if_pos etop]
    have inv' := mk (⟨IL2, OL', g.curNumLevels + 1, g.curItemCount - half,
        g.target + levelCapacity k (g.curNumLevels + 1) 0 m, coins'⟩ : GcState) rfl rfl (Or.inr ⟨rfl, etop, rfl⟩)
    have r := gcNext_spec (S := S) ih (cl := cl) (h := h2) (fun e => by simp only at e; omega) (fun _ => inv')
    refine r.mono ?_
    intro g'' h'' ⟨p, hle, sb⟩
    exact ⟨p, by simp only at hle; omega, sb⟩
  · rw [if_neg etop]
    have inv' := mk (⟨IL2, OL', g.curNumLevels, g.curItemCount - half, g.target, coins'⟩ : GcState) rfl rfl
      (Or.inl ⟨rfl, etop, rfl⟩)
    have r := gcNext_spec (S := S) ih (cl := cl) (h := h2) (fun e => by simp only at e; omega) (fun _ => inv')
    refine r.mono ?_
    intro g'' h'' ⟨p, hle, sb⟩
    exact ⟨p, hle, sb⟩


theorem gcB2_spec {S : Nat → Bool} {k m wb tmp ub finalN : Nat} {srt : Bool} {f : Nat} (hm2 : 2 ≤ m)
    (h64 : finalN < 2 ^ 64) (hub : ub = ubOnNumLevels finalN) (hS : S wb = true)
    (ih : ∀ cl g h, GCInv k m wb tmp ub finalN h cl g →
      SafeF S h (generalCompressLoop k m wb srt f cl g h) (GCQ k m wb tmp ub g h))
    {cl : Nat} {g : GcState} {h h1 : Heap} (inv : GCInv k m wb tmp ub finalN h cl g) {IL' OL' : List Nat}
    (ext : ILExt tmp cl g IL') (hlenO : OL'.length = ub + 2) {odd adjPop : Nat}
    (hOsame : ∀ l, l ≠ cl + 1 → OL'.getD l 0 = g.outLevels.getD l 0)
    (hOnew : OL'.getD (cl + 1) 0 = g.outLevels.getD cl 0 + odd) (ho : odd ≤ 1)
    (hadj : g.inLevels.getD cl 0 + odd + adjPop = g.inLevels.getD (cl + 1) 0) (hev : adjPop % 2 = 0)
    (hp2 : 2 ≤ adjPop) (hfull : ¬ g.curItemCount < g.target)
    (hc1 : HasCells h1 wb tmp)
    (l1 : LiveOn h1 wb 0 (g.outLevels.getD cl 0 + odd))
    (nr : NonRawOn h1 wb (g.outLevels.getD cl 0 + odd) (g.inLevels.getD cl 0 + odd))
    (l2 : LiveOn h1 wb (g.inLevels.getD cl 0 + odd) tmp) :
    SafeF S h1 (gcB2 k m wb srt f cl g IL' OL' (g.inLevels.getD (cl + 1) 0) (g.inLevels.getD cl 0 + odd) adjPop
        (IL'.getD (cl + 2) 0 - g.inLevels.getD (cl + 1) 0) h1)
      (fun g' h' => GCPost k m wb tmp ub h' g' ∧ g.curNumLevels ≤ g'.curNumLevels ∧
        SameBut h1 h' (fun b' _ => b' = wb)) := by
  have hcl := inv.hcl
  have hoi := inv.oi
  -- the entry above level `cl + 1`
  have htop : g.inLevels.getD (cl + 1) 0 ≤ IL'.getD (cl + 2) 0 ∧ IL'.getD (cl + 2) 0 ≤ tmp := by
    by_cases e : cl = g.curNumLevels - 1
    · have e1 : cl + 2 = g.curNumLevels + 1 := by omega
      have e2 : cl + 1 = g.curNumLevels := by omega
      rw [e1, ext.top e, e2, inv.inTop]; omega
    · rw [ext.same (cl + 2) (by omega)]
      refine ⟨inv.inMono (cl + 1) (by omega) (by omega), ?_⟩
      have := mono_chain inv.inMono g.curNumLevels (cl + 2) (by omega) (by omega) (Nat.le_refl _)
      rw [inv.inTop] at this; exact this
  unfold gcB2
  have hcoin := nextCoin_le g.coins
  cases hnc : nextCoin g.coins with
  | mk coin coins' =>
  rw [hnc] at hcoin
  simp only at hcoin ⊢
  generalize hab : g.inLevels.getD cl 0 + odd = adjBeg at *
  generalize hrl : g.inLevels.getD (cl + 1) 0 = rawLim at *
  generalize htp : IL'.getD (cl + 2) 0 = top at *
  have fin : ∀ h2, SameBut h1 h2 (fun b' j => b' = wb ∧ adjBeg ≤ j ∧ j < top) →
      NonRawOn h2 wb adjBeg (adjBeg + adjPop / 2) → LiveOn h2 wb (adjBeg + adjPop / 2) top →
      SafeF S h2 (gcB3 k m wb srt f cl g IL' OL' (adjPop / 2) coins' h2)
        (fun g' h' => GCPost k m wb tmp ub h' g' ∧ g.curNumLevels ≤ g'.curNumLevels ∧
          SameBut h1 h' (fun b' _ => b' = wb)) := by
    intro h2 sb2 nr2 lv2
    have r := gcB3_spec (S := S) hm2 h64 hub ih inv ext hlenO (odd := odd) (half := adjPop / 2) coins' hOsame hOnew
      (by rw [hrl]; omega) (by omega) ho hfull (sb2.cells _ _ hc1)
      (fun j h1' h2' => by rw [sb2.st _ _ (fun x => by omega)]; exact l1 j h1' h2')
      (fun j h1' h2' => by
        rw [hab] at h2'
        by_cases e : j < adjBeg
        · rw [sb2.st _ _ (fun x => by omega)]; exact nr j h1' e
        · exact nr2 j (by omega) h2')
      (fun j h1' h2' => by
        rw [hab] at h1'
        by_cases e : j < top
        · exact lv2 j h1' e
        · rw [sb2.st _ _ (fun x => by omega)]; exact l2 j (by omega) h2')
    refine r.mono ?_
    intro g' h' ⟨p, hle, sb'⟩
    exact ⟨p, hle, (sb2.mono (fun _ _ x => x.1)).trans sb' (fun _ _ x => x) (fun _ _ x => x)⟩
  have hlseg : LiveOn h1 wb adjBeg (adjBeg + adjPop) := fun j h1' h2' => l2 j h1' (by omega)
  by_cases hpa : top - rawLim = 0
  · rw [if_pos hpa]
    have et : top = rawLim := by omega
    subst et
    apply vstep_halveUp hc1 (by omega) hlseg hcoin hS
    intro h2 sb2 lv2 n2
    exact fin h2 (sb2.mono (fun _ _ x => ⟨x.1, x.2.1, by omega⟩)) n2 (by rw [← hadj]; exact lv2)
  · rw [if_neg hpa]
    apply vstep_halveDown hc1 (by omega) hlseg hcoin hS
    intro h2 sb2 lv2 n2
    have e1 : rawLim = adjBeg + 2 * (adjPop / 2) := by omega
    have e2 : adjBeg + adjPop = adjBeg + 2 * (adjPop / 2) := by omega
    rw [e2] at n2
    have key : mergeInPlace wb adjBeg (adjPop / 2) rawLim (top - rawLim) (adjBeg + adjPop / 2) =
        mergeInPlace wb adjBeg (adjPop / 2) (adjBeg + 2 * (adjPop / 2)) (top - rawLim) (adjBeg + adjPop / 2) := by
      rw [← e1]
    rw [key]
    apply vstep_mergeInPlace (lenB := top - rawLim) (sb2.cells _ _ hc1) (by omega) lv2
      (fun j h1' h2' => by rw [sb2.st _ _ (fun x => by omega)]; exact l2 j (by omega) (by omega)) n2 hS
    intro h3 sb3 lv3 n3
    have e3 : adjBeg + 2 * (adjPop / 2) + (top - rawLim) = top := by omega
    rw [e3] at sb3 lv3
    exact fin h3 ((sb2.mono (fun _ _ x => ⟨x.1, x.2.1, by omega⟩)).trans sb3 (fun _ _ x => x) (fun _ _ x => x)) n3 lv3

theorem gcB1_spec {S : Nat → Bool} {k m wb tmp ub finalN : Nat} {srt : Bool} {f : Nat} (hm2 : 2 ≤ m)
    (h64 : finalN < 2 ^ 64) (hub : ub = ubOnNumLevels finalN) (hS : S wb = true)
    (ih : ∀ cl g h, GCInv k m wb tmp ub finalN h cl g →
      SafeF S h (generalCompressLoop k m wb srt f cl g h) (GCQ k m wb tmp ub g h))
    {cl : Nat} {g : GcState} {h h1 : Heap} (inv : GCInv k m wb tmp ub finalN h cl g) {IL' OL' : List Nat}
    (ext : ILExt tmp cl g IL') (hlenO : OL'.length = ub + 2) {odd adjPop : Nat}
    (hOsame : ∀ l, l ≠ cl + 1 → OL'.getD l 0 = g.outLevels.getD l 0)
    (hOnew : OL'.getD (cl + 1) 0 = g.outLevels.getD cl 0 + odd) (ho : odd ≤ 1)
    (hadj : g.inLevels.getD cl 0 + odd + adjPop = g.inLevels.getD (cl + 1) 0) (hev : adjPop % 2 = 0)
    (hp2 : 2 ≤ adjPop) (hfull : ¬ g.curItemCount < g.target)
    (hc1 : HasCells h1 wb tmp)
    (l1 : LiveOn h1 wb 0 (g.outLevels.getD cl 0 + odd))
    (nr : NonRawOn h1 wb (g.outLevels.getD cl 0 + odd) (g.inLevels.getD cl 0 + odd))
    (l2 : LiveOn h1 wb (g.inLevels.getD cl 0 + odd) tmp) :
    SafeF S h1 (gcB1 k m wb srt f cl g IL' OL' (g.inLevels.getD (cl + 1) 0) (g.inLevels.getD cl 0 + odd) adjPop
        (IL'.getD (cl + 2) 0 - g.inLevels.getD (cl + 1) 0) h1)
      (fun g' h' => GCPost k m wb tmp ub h' g' ∧ g.curNumLevels ≤ g'.curNumLevels ∧
        SameBut h1 h' (fun b' _ => b' = wb)) := by
  have hcl := inv.hcl
  have hlim : g.inLevels.getD (cl + 1) 0 ≤ tmp := by
    have := mono_chain inv.inMono g.curNumLevels (cl + 1) (by omega) (by omega) (Nat.le_refl _)
    rw [inv.inTop] at this; exact this
  unfold gcB1
  by_cases hsort : cl = 0 ∧ (!srt) = true
  · rw [if_pos hsort]
    apply vstep_sortRange hc1 (by omega : g.inLevels.getD cl 0 + odd + adjPop ≤ tmp)
      (fun j h1' h2' => l2 j h1' (by omega)) hS
    intro h2 sb2 hl2
    have r := gcB2_spec (S := S) hm2 h64 hub hS ih inv ext hlenO hOsame hOnew ho hadj hev hp2 hfull (sb2.cells _ _ hc1)
      (fun j h1' h2' => by rw [sb2.st _ _ (fun x => by have := inv.oi; omega)]; exact l1 j h1' h2')
      (fun j h1' h2' => by rw [sb2.st _ _ (fun x => by omega)]; exact nr j h1' h2')
      (fun j h1' h2' => by
        by_cases e : j < g.inLevels.getD cl 0 + odd + adjPop
        · exact hl2 j h1' e
        · rw [sb2.st _ _ (fun x => e x.2.2)]; exact l2 j h1' h2')
    refine r.mono ?_
    intro g' h' ⟨p, hle, sb'⟩
    exact ⟨p, hle, (sb2.mono (fun _ _ x => x.1)).trans sb' (fun _ _ x => x) (fun _ _ x => x)⟩
  · rw [if_neg hsort]
    exact gcB2_spec (S := S) hm2 h64 hub hS ih inv ext hlenO hOsame hOnew ho hadj hev hp2 hfull hc1 l1 nr l2

end DS.Life.Kll

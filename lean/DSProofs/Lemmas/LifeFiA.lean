/- C19 / FI part A: the invariant of `reverse_purge_hash_map`, its locality, and how it evolves under cell updates. -/
import DSModel.Life.Fi
import DSProofs.Lemmas.LifeFiAux
namespace DS.Life.Fi
open DS.Life

/-- the blocks a map owns -/
def owned (m : Map) : List Nat := m.keys.toList ++ m.values.toList ++ m.states.toList

/-- side conditions on the tunables: load factor ≤ 3/4 and tables of at least 8 slots (so that a table that
    just exceeded its capacity still has an empty slot) -/
def Params.OK (P : Params) : Prop := 0 < P.loadDen ∧ 4 * P.loadNum ≤ 3 * P.loadDen ∧ 3 ≤ P.lgMinMap

instance (P : Params) : Decidable P.OK := by unfold Params.OK; exact inferInstance

/-- slot `i` is active -/
def act (h : Heap) (s : Nat) : Nat → Bool := fun i => decide (0 < wordAt h s i)

/-- slot `i`: inactive and raw, or active and holding an object (a live one when `u`) -/
def SlotOK (u : Bool) (h : Heap) (k s i : Nat) : Prop :=
  (wordAt h s i = 0 ∧ stAt h k i = .raw) ∨
  (0 < wordAt h s i ∧ stAt h k i ≠ .raw ∧ (u = true → ∃ x, stAt h k i = .live x))

/-- the three arrays of a table of `n` slots; the slots listed in `E` are exempt from `SlotOK` (in the middle of an
    insertion / deletion) -/
structure Tbl (u : Bool) (E : List Nat) (h : Heap) (k v s n : Nat) : Prop where
  ck : HasCells h k n
  cv : HasCells h v n
  cs : HasCells h s n
  kv : k ≠ v
  ks : k ≠ s
  vs : v ≠ s
  ltk : k < h.next
  ltv : v < h.next
  lts : s < h.next
  rawv : ∀ i, stAt h v i = .raw
  raws : ∀ i, stAt h s i = .raw
  slot : ∀ i, i < n → i ∉ E → SlotOK u h k s i

/-- the invariant, generic in `u` (`true`: usable object; `false`: enough to destroy or assign to) -/
def InvG (u : Bool) (P : Params) (h : Heap) (m : Map) : Prop :=
  P.lgMinMap ≤ m.lgCur ∧ m.numActive ≤ getCapacity P m.lgCur + 1 ∧
  match m.keys, m.values, m.states with
  | some k, some v, some s => Tbl u [] h k v s (2 ^ m.lgCur) ∧ m.numActive = cnt (act h s) (2 ^ m.lgCur)
  | none, none, none => u = false ∧ m.numActive = 0
  | _, _, _ => False

def Inv (P : Params) (h : Heap) (m : Map) : Prop := InvG false P h m
def Usable (P : Params) (h : Heap) (m : Map) : Prop := InvG true P h m

/-! ### capacity arithmetic -/

theorem cap_room {P : Params} (hP : P.OK) {lg : Nat} (hlg : P.lgMinMap ≤ lg) : getCapacity P lg + 2 ≤ 2 ^ lg := by
  obtain ⟨hd, hl, h3⟩ := hP
  unfold getCapacity
  have e : 2 ^ lg = 8 * 2 ^ (lg - 3) := by
    have : lg = 3 + (lg - 3) := by omega
    conv => lhs; rw [this, Nat.pow_add]
  have hr : 0 < 2 ^ (lg - 3) := Nat.pow_pos (by omega)
  generalize 2 ^ (lg - 3) = r at *
  rw [e]
  have h1 : 8 * r * P.loadNum / P.loadDen ≤ 6 * r := by
    apply Nat.div_le_of_le_mul
    have : r * (4 * P.loadNum) ≤ r * (3 * P.loadDen) := Nat.mul_le_mul_left r hl
    calc 8 * r * P.loadNum = 2 * (r * (4 * P.loadNum)) := by
          simp only [Nat.mul_comm, Nat.mul_left_comm]
      _ ≤ 2 * (r * (3 * P.loadDen)) := Nat.mul_le_mul_left 2 this
      _ = P.loadDen * (6 * r) := by
          simp only [← Nat.mul_assoc]
          rw [Nat.mul_comm P.loadDen 6, Nat.mul_assoc 6, Nat.mul_comm P.loadDen r, ← Nat.mul_assoc]
          simp only [Nat.mul_comm, Nat.mul_left_comm, Nat.mul_assoc]
  omega

/-! ### slots and tables: locality and updates -/

theorem SlotOK_congr {u : Bool} {h h' : Heap} {k s i : Nat} (hw : wordAt h' s i = wordAt h s i)
    (hs : stAt h' k i = stAt h k i) : SlotOK u h' k s i ↔ SlotOK u h k s i := by
  unfold SlotOK; rw [hw, hs]

theorem SlotOK.weak {u : Bool} {h : Heap} {k s i : Nat} (hs : SlotOK u h k s i) : SlotOK false h k s i := by
  rcases hs with h0 | ⟨h1, h2, _⟩
  · exact Or.inl h0
  · exact Or.inr ⟨h1, h2, fun x => by cases x⟩

theorem SlotOK.inactive {u : Bool} {h : Heap} {k s i : Nat} (hw : wordAt h s i = 0) (hs : stAt h k i = .raw) :
    SlotOK u h k s i := Or.inl ⟨hw, hs⟩

theorem SlotOK.active {u : Bool} {h : Heap} {k s i x : Nat} (hw : 0 < wordAt h s i) (hs : stAt h k i = .live x) :
    SlotOK u h k s i := Or.inr ⟨hw, by rw [hs]; simp, fun _ => ⟨x, hs⟩⟩

theorem SlotOK.raw_of_zero {u : Bool} {h : Heap} {k s i : Nat} (hs : SlotOK u h k s i) (hw : wordAt h s i = 0) :
    stAt h k i = .raw := by
  rcases hs with h0 | ⟨h1, _, _⟩
  · exact h0.2
  · omega

theorem SlotOK.nonraw_of_pos {u : Bool} {h : Heap} {k s i : Nat} (hs : SlotOK u h k s i) (hw : 0 < wordAt h s i) :
    stAt h k i ≠ .raw := by
  rcases hs with h0 | ⟨_, h2, _⟩
  · omega
  · exact h2

theorem SlotOK.live_of_pos {h : Heap} {k s i : Nat} (hs : SlotOK true h k s i) (hw : 0 < wordAt h s i) :
    ∃ x, stAt h k i = .live x := by
  rcases hs with h0 | ⟨_, _, h3⟩
  · omega
  · exact h3 rfl

theorem SlotOK.zero_of_raw {u : Bool} {h : Heap} {k s i : Nat} (hs : SlotOK u h k s i) (hr : stAt h k i = .raw) :
    wordAt h s i = 0 := by
  rcases hs with h0 | ⟨_, h2, _⟩
  · exact h0.1
  · exact absurd hr h2

theorem Tbl.local {u : Bool} {E : List Nat} {h h' : Heap} {k v s n : Nat}
    (hk : h'.find? k = h.find? k) (hv : h'.find? v = h.find? v) (hs : h'.find? s = h.find? s)
    (hn : h.next ≤ h'.next) (T : Tbl u E h k v s n) : Tbl u E h' k v s n where
  ck := HasCells_congr hk T.ck
  cv := HasCells_congr hv T.cv
  cs := HasCells_congr hs T.cs
  kv := T.kv
  ks := T.ks
  vs := T.vs
  ltk := Nat.lt_of_lt_of_le T.ltk hn
  ltv := Nat.lt_of_lt_of_le T.ltv hn
  lts := Nat.lt_of_lt_of_le T.lts hn
  rawv := fun i => by rw [stAt_congr hv]; exact T.rawv i
  raws := fun i => by rw [stAt_congr hs]; exact T.raws i
  slot := fun i hi hE => (SlotOK_congr (wordAt_congr hs i) (stAt_congr hk i)).2 (T.slot i hi hE)

theorem Tbl.withSlot {u u' : Bool} {E E' : List Nat} {h : Heap} {k v s n : Nat} (T : Tbl u E h k v s n)
    (hs : ∀ i, i < n → i ∉ E' → SlotOK u' h k s i) : Tbl u' E' h k v s n :=
  ⟨T.ck, T.cv, T.cs, T.kv, T.ks, T.vs, T.ltk, T.ltv, T.lts, T.rawv, T.raws, hs⟩

theorem Tbl.weak {u : Bool} {E : List Nat} {h : Heap} {k v s n : Nat} (T : Tbl u E h k v s n) : Tbl false E h k v s n :=
  T.withSlot (fun i hi hE => (T.slot i hi hE).weak)

theorem Tbl.exempt {u : Bool} {E E' : List Nat} {h : Heap} {k v s n : Nat} (T : Tbl u E h k v s n)
    (hE : ∀ j, j ∈ E → j ∈ E') : Tbl u E' h k v s n :=
  T.withSlot (fun i hi hx => T.slot i hi (fun hm => hx (hE i hm)))

theorem Tbl.close {u : Bool} {E : List Nat} {h : Heap} {k v s n : Nat} (T : Tbl u E h k v s n)
    (hE : ∀ j, j ∈ E → j < n → SlotOK u h k s j) : Tbl u [] h k v s n := by
  refine T.withSlot (fun i hi _ => ?_)
  by_cases hm : i ∈ E
  · exact hE i hm hi
  · exact T.slot i hi hm

theorem Tbl.addLog {u : Bool} {E : List Nat} {h : Heap} {k v s n : Nat} (e : Ev) (T : Tbl u E h k v s n) :
    Tbl u E (h.addLog e) k v s n := Tbl.local (h := h) (h' := h.addLog e) rfl rfl rfl (Nat.le_refl _) T

/-- any cell update: the updated slot becomes exempt when it is in the keys or the states array; cells of the
    values / states arrays must stay raw -/
theorem Tbl.setCell {u : Bool} {E E' : List Nat} {h : Heap} {k v s n b i : Nat} (c' : Cell)
    (T : Tbl u E h k v s n) (hv : b = v → c'.st = .raw) (hs : b = s → c'.st = .raw)
    (hE : ∀ j, j ∈ E → j ∈ E') (hi : b = k ∨ b = s → i ∈ E') : Tbl u E' (h.setCell b i c') k v s n where
  ck := HasCells_setCell _ _ _ T.ck
  cv := HasCells_setCell _ _ _ T.cv
  cs := HasCells_setCell _ _ _ T.cs
  kv := T.kv
  ks := T.ks
  vs := T.vs
  ltk := T.ltk
  ltv := T.ltv
  lts := T.lts
  rawv := fun j => by
    rw [stAt_setCell]
    split
    · rename_i hx; exact hv hx.1.symm
    · exact T.rawv j
  raws := fun j => by
    rw [stAt_setCell]
    split
    · rename_i hx; exact hs hx.1.symm
    · exact T.raws j
  slot := fun j hj hx => by
    have hjE : j ∉ E := fun hm => hx (hE j hm)
    have h1 : ¬ (s = b ∧ j = i) := fun hh => hx (hh.2 ▸ hi (Or.inr hh.1.symm))
    have h2 : ¬ (k = b ∧ j = i) := fun hh => hx (hh.2 ▸ hi (Or.inl hh.1.symm))
    exact (SlotOK_congr (wordAt_setCell_ne _ _ _ _ h1) (stAt_setCell_ne _ _ _ _ h2)).2 (T.slot j hj hjE)

/-- a word of the values array may be changed freely -/
theorem Tbl.setValue {u : Bool} {E : List Nat} {h : Heap} {k v s n i : Nat} {c : Cell} (w : Nat)
    (T : Tbl u E h k v s n) (hc : h.cell? v i = some c) : Tbl u E (h.setCell v i { c with word := w }) k v s n := by
  refine T.setCell _ (fun _ => ?_) (fun e => (T.vs e).elim) (fun _ hj => hj) (fun e => ?_)
  · have := T.rawv i; rw [stAt_of hc] at this; exact this
  · rcases e with e | e
    · exact (T.kv e.symm).elim
    · exact (T.vs e).elim

/-! ### the activity predicate under updates -/

theorem act_congr {h h' : Heap} {s : Nat} (e : h'.find? s = h.find? s) : act h' s = act h s := by
  funext i; simp only [act, wordAt_congr e]

theorem act_setCell_ne (h : Heap) {b s : Nat} (i : Nat) (c : Cell) (hb : s ≠ b) : act (h.setCell b i c) s = act h s :=
  act_congr (find?_setCell_ne h i c hb)

theorem act_setCell_st {h : Heap} {b i : Nat} {c : Cell} (st : Slot) (hc : h.cell? b i = some c) (s : Nat) :
    act (h.setCell b i { c with st := st }) s = act h s := by
  funext j; simp only [act, wordAt_setCell_st st hc]

theorem act_addLog (h : Heap) (e : Ev) (s : Nat) : act (h.addLog e) s = act h s := rfl

theorem act_setCell_s {h : Heap} {s i : Nat} {c : Cell} (c' : Cell) (hc : h.cell? s i = some c) (j : Nat) :
    act (h.setCell s i c') s j = if j = i then decide (0 < c'.word) else act h s j := by
  unfold act
  by_cases hj : j = i
  · subst hj; rw [wordAt_setCell_eq c' hc]; simp
  · rw [wordAt_setCell_ne _ _ _ _ (fun hh => hj hh.2)]; simp [hj]

theorem cnt_act_same {h : Heap} {s i : Nat} {c : Cell} (c' : Cell) (hc : h.cell? s i = some c)
    (hw : (0 < c'.word) ↔ (0 < c.word)) (n : Nat) : cnt (act (h.setCell s i c') s) n = cnt (act h s) n := by
  apply cnt_congr_except (k := i)
  · rw [act_setCell_s c' hc, if_pos rfl]
    simp only [act, wordAt_of hc]
    exact (decide_eq_decide.mpr hw).symm
  · intro j hj; rw [act_setCell_s c' hc, if_neg hj]

theorem cnt_act_on {h : Heap} {s i n : Nat} {c : Cell} (c' : Cell) (hc : h.cell? s i = some c) (hi : i < n)
    (h0 : c.word = 0) (h1 : 0 < c'.word) : cnt (act (h.setCell s i c') s) n = cnt (act h s) n + 1 := by
  apply cnt_set_true hi
  · simp [act, wordAt_of hc, h0]
  · rw [act_setCell_s c' hc, if_pos rfl]; simpa using h1
  · intro j hj; rw [act_setCell_s c' hc, if_neg hj]

theorem cnt_act_off {h : Heap} {s i n : Nat} {c : Cell} (c' : Cell) (hc : h.cell? s i = some c) (hi : i < n)
    (h0 : 0 < c.word) (h1 : c'.word = 0) : cnt (act (h.setCell s i c') s) n + 1 = cnt (act h s) n := by
  apply cnt_set_false hi
  · simpa [act, wordAt_of hc] using h0
  · rw [act_setCell_s c' hc, if_pos rfl]; simp [h1]
  · intro j hj; rw [act_setCell_s c' hc, if_neg hj]

/-! ### same allocation state, same contents outside a set of blocks -/

structure SameBut (T : List Nat) (h h' : Heap) : Prop where
  next : h'.next = h.next
  ids : h'.ids = h.ids
  out : ∀ b, b ∉ T → h'.find? b = h.find? b

theorem SameBut.refl (T : List Nat) (h : Heap) : SameBut T h h := ⟨rfl, rfl, fun _ _ => rfl⟩

theorem SameBut.trans {T : List Nat} {h1 h2 h3 : Heap} (a : SameBut T h1 h2) (b : SameBut T h2 h3) : SameBut T h1 h3 :=
  ⟨b.next.trans a.next, b.ids.trans a.ids, fun x hx => (b.out x hx).trans (a.out x hx)⟩

theorem SameBut.mono {T T' : List Nat} {h h' : Heap} (a : SameBut T h h') (hsub : ∀ b, b ∈ T → b ∈ T') : SameBut T' h h' :=
  ⟨a.next, a.ids, fun x hx => a.out x (fun hm => hx (hsub x hm))⟩

theorem SameBut.setCell {T : List Nat} {h h' : Heap} (a : SameBut T h h') {b : Nat} (i : Nat) (c : Cell) (hb : b ∈ T) :
    SameBut T h (h'.setCell b i c) :=
  ⟨by simp [a.next], by simp [a.ids], fun x hx => by
    have hne : x ≠ b := fun e => hx (by rw [e]; exact hb)
    rw [find?_setCell_ne _ _ _ hne]; exact a.out x hx⟩

theorem SameBut.addLog {T : List Nat} {h h' : Heap} (a : SameBut T h h') (e : Ev) : SameBut T h (h'.addLog e) :=
  ⟨a.next, a.ids, a.out⟩

theorem SameBut.idsLt {T : List Nat} {h h' : Heap} (a : SameBut T h h') (w : IdsLt h) : IdsLt h' := by
  intro b hb; rw [a.next]; exact w b (a.ids ▸ hb)

/-! ### the invariant: projections -/

theorem owned_some (lgCur lgMax na k v s : Nat) :
    owned { lgCur, lgMax, numActive := na, keys := some k, values := some v, states := some s } = [k, v, s] := rfl

theorem InvG.ptrs {u : Bool} {P : Params} {h : Heap} {m : Map} (hi : InvG u P h m) :
    (∃ k v s, m.keys = some k ∧ m.values = some v ∧ m.states = some s ∧ owned m = [k, v, s] ∧
      Tbl u [] h k v s (2 ^ m.lgCur) ∧ m.numActive = cnt (act h s) (2 ^ m.lgCur)) ∨
    (m.keys = none ∧ m.values = none ∧ m.states = none ∧ owned m = [] ∧ u = false ∧ m.numActive = 0) := by
  obtain ⟨lgCur, lgMax, na, keys, values, states⟩ := m
  obtain ⟨_, _, hm⟩ := hi
  cases keys <;> cases values <;> cases states <;> simp only at hm <;> try exact hm.elim
  · exact Or.inr ⟨rfl, rfl, rfl, rfl, hm.1, hm.2⟩
  · exact Or.inl ⟨_, _, _, rfl, rfl, rfl, rfl, hm.1, hm.2⟩

theorem Usable.ptrs {P : Params} {h : Heap} {m : Map} (hi : Usable P h m) :
    ∃ k v s, m.keys = some k ∧ m.values = some v ∧ m.states = some s ∧ owned m = [k, v, s] ∧
      Tbl true [] h k v s (2 ^ m.lgCur) ∧ m.numActive = cnt (act h s) (2 ^ m.lgCur) := by
  rcases InvG.ptrs hi with hh | ⟨_, _, _, _, hu, _⟩
  · exact hh
  · cases hu

theorem InvG.lg {u : Bool} {P : Params} {h : Heap} {m : Map} (hi : InvG u P h m) : P.lgMinMap ≤ m.lgCur := hi.1
theorem InvG.cap {u : Bool} {P : Params} {h : Heap} {m : Map} (hi : InvG u P h m) :
    m.numActive ≤ getCapacity P m.lgCur + 1 := hi.2.1

theorem InvG.mk_some {u : Bool} {P : Params} {h : Heap} {m : Map} {k v s : Nat} (hk : m.keys = some k)
    (hv : m.values = some v) (hs : m.states = some s) (hlg : P.lgMinMap ≤ m.lgCur)
    (hcap : m.numActive ≤ getCapacity P m.lgCur + 1) (T : Tbl u [] h k v s (2 ^ m.lgCur))
    (hn : m.numActive = cnt (act h s) (2 ^ m.lgCur)) : InvG u P h m := by
  obtain ⟨lgCur, lgMax, na, keys, values, states⟩ := m
  simp only at hk hv hs
  subst hk hv hs
  exact ⟨hlg, hcap, T, hn⟩

theorem InvG.weak {u : Bool} {P : Params} {h : Heap} {m : Map} (hi : InvG u P h m) : InvG false P h m := by
  rcases InvG.ptrs hi with ⟨k, v, s, hk, hv, hs, _, T, hn⟩ | ⟨hk, hv, hs, _, _, hn⟩
  · exact InvG.mk_some hk hv hs hi.lg hi.cap T.weak hn
  · obtain ⟨lgCur, lgMax, na, keys, values, states⟩ := m
    simp only at hk hv hs hn
    subst hk hv hs
    exact ⟨hi.1, hi.2.1, rfl, hn⟩

theorem Usable.inv {P : Params} {h : Heap} {m : Map} (hu : Usable P h m) : Inv P h m := InvG.weak hu

theorem InvG.local {u : Bool} {P : Params} {h h' : Heap} {m : Map}
    (hf : ∀ b, b ∈ owned m → h'.find? b = h.find? b) (hn : h.next ≤ h'.next) (hi : InvG u P h m) : InvG u P h' m := by
  rcases InvG.ptrs hi with ⟨k, v, s, hk, hv, hs, ho, T, hc⟩ | ⟨hk, hv, hs, _, hu, hc⟩
  · rw [ho] at hf
    have ek := hf k (by simp)
    have ev := hf v (by simp)
    have es := hf s (by simp)
    refine InvG.mk_some hk hv hs hi.lg hi.cap (T.local ek ev es hn) ?_
    rw [act_congr es]; exact hc
  · obtain ⟨lgCur, lgMax, na, keys, values, states⟩ := m
    simp only at hk hv hs hc
    subst hk hv hs
    exact ⟨hi.1, hi.2.1, hu, hc⟩

theorem Inv.local {P : Params} {h h' : Heap} {m : Map}
    (hf : ∀ b, b ∈ owned m → h'.find? b = h.find? b) (hn : h.next ≤ h'.next) (hi : Inv P h m) : Inv P h' m :=
  InvG.local hf hn hi

theorem Usable.local {P : Params} {h h' : Heap} {m : Map}
    (hf : ∀ b, b ∈ owned m → h'.find? b = h.find? b) (hn : h.next ≤ h'.next) (hi : Usable P h m) : Usable P h' m :=
  InvG.local hf hn hi

theorem InvG.owned_ids {u : Bool} {P : Params} {h : Heap} {m : Map} (hi : InvG u P h m) :
    ∀ b, b ∈ owned m → b ∈ h.ids ∧ b < h.next := by
  intro b hb
  rcases InvG.ptrs hi with ⟨k, v, s, _, _, _, ho, T, _⟩ | ⟨_, _, _, ho, _, _⟩
  · rw [ho] at hb
    simp only [List.mem_cons, List.not_mem_nil, or_false] at hb
    rcases hb with rfl | rfl | rfl
    · exact ⟨HasCells.mem_ids T.ck, T.ltk⟩
    · exact ⟨HasCells.mem_ids T.cv, T.ltv⟩
    · exact ⟨HasCells.mem_ids T.cs, T.lts⟩
  · rw [ho] at hb; cases hb

theorem Inv.owned_ids {P : Params} {h : Heap} {m : Map} (hi : Inv P h m) :
    ∀ b, b ∈ owned m → b ∈ h.ids ∧ b < h.next := InvG.owned_ids hi

theorem InvG.owned_nodup {u : Bool} {P : Params} {h : Heap} {m : Map} (hi : InvG u P h m) : (owned m).Nodup := by
  rcases InvG.ptrs hi with ⟨k, v, s, _, _, _, ho, T, _⟩ | ⟨_, _, _, ho, _, _⟩
  · rw [ho]
    have := T.kv; have := T.ks; have := T.vs
    simp [*]
  · rw [ho]; exact List.nodup_nil

theorem Inv.owned_nodup {P : Params} {h : Heap} {m : Map} (hi : Inv P h m) : (owned m).Nodup := InvG.owned_nodup hi

/-- move constructor -/
theorem moveCtor_spec {P : Params} {h : Heap} {m : Map} (hu : Usable P h m) :
    Usable P h (moveCtor m).1 ∧ Inv P h (moveCtor m).2 ∧ owned (moveCtor m).1 = owned m ∧ owned (moveCtor m).2 = [] := by
  refine ⟨hu, ?_, rfl, rfl⟩
  exact ⟨hu.1, Nat.zero_le _, rfl, rfl⟩

end DS.Life.Fi

/-
Array-of-doubles compact sketch images: round trip, size, prefix safety, boundedness (helper lemmas).
-/
import DSProofs.Lemmas.WireTheta
import DSModel.Wire.Aod
namespace DS.Wire.Aod
open DS.Wire Reader

structure COk (c : Consts) : Prop where
  sv : c.serVer < 256
  fam : c.family < 256
  ty : c.sketchType < 256
  em : c.fEmpty < 8
  he : c.fHasEntries < 8
  od : c.fOrdered < 8
  em_he : c.fEmpty ≠ c.fHasEntries
  em_od : c.fEmpty ≠ c.fOrdered
  he_od : c.fHasEntries ≠ c.fOrdered

theorem COk.of_ok {c : Consts} (h : c.ok = true) : COk c := by
  simp only [Consts.ok, Bool.and_eq_true, decide_eq_true_eq, bne_iff_ne, ne_eq] at h
  obtain ⟨⟨⟨⟨⟨⟨⟨⟨h1, h2⟩, h3⟩, h4⟩, h5⟩, h6⟩, h7⟩, h8⟩, h9⟩ := h
  exact ⟨h1, h2, h3, h4, h5, h6, h7, h8, h9⟩

theorem flagsByte_lt {c : Consts} (hc : COk c) (s : Image) : flagsByte c s < 256 := by
  unfold flagsByte
  exact Theta.or_lt_256 _ _ (Theta.or_lt_256 _ _ (Theta.flagBit_lt _ _ hc.em) (Theta.flagBit_lt _ _ hc.he)) (Theta.flagBit_lt _ _ hc.od)

theorem flagsByte_empty {c : Consts} (hc : COk c) (s : Image) : (flagsByte c s).testBit c.fEmpty = s.isEmpty := by
  have h1 := hc.em_he; have h2 := hc.em_od
  simp [flagsByte, Nat.testBit_or, Theta.testBit_flagBit, Ne.symm h1, Ne.symm h2]

theorem flagsByte_has {c : Consts} (hc : COk c) (s : Image) : (flagsByte c s).testBit c.fHasEntries = (s.entries.length != 0) := by
  have h1 := hc.em_he; have h2 := hc.he_od
  simp [flagsByte, Nat.testBit_or, Theta.testBit_flagBit, h1, Ne.symm h2]

theorem flagsByte_ordered {c : Consts} (hc : COk c) (s : Image) : (flagsByte c s).testBit c.fOrdered = s.isOrdered := by
  have h1 := hc.em_od; have h2 := hc.he_od
  simp [flagsByte, Nat.testBit_or, Theta.testBit_flagBit, h1, h2]

theorem wValues_eq_foldr (l : List (Nat × List Nat)) (r : Bytes) :
    wValues l ++ r = (l.map (·.2)).foldr (fun vs acc => Theta.wU64s vs ++ acc) r := by
  induction l with
  | nil => rfl
  | cons e t ih =>
    obtain ⟨k, v⟩ := e
    simp [wValues, List.append_assoc, ih]

theorem repeatN_values (nv : Nat) (l : List (Nat × List Nat)) (h : ∀ e ∈ l, e.2.length = nv ∧ ∀ v ∈ e.2, v < 2 ^ 64) (r : Bytes) :
    repeatN (repeatN u64 nv) l.length (wValues l ++ r) = some (l.map (·.2), r) := by
  rw [wValues_eq_foldr]
  have := repeatN_roundtrip (repeatN u64 nv) Theta.wU64s (fun vs => vs.length = nv ∧ ∀ v ∈ vs, v < 2 ^ 64)
    (fun vs hvs r => by
      have := repeatN_u64_wU64s vs hvs.2 r
      rw [hvs.1] at this
      exact this)
    (l.map (·.2))
    (fun vs hvs => by
      simp only [List.mem_map] at hvs
      obtain ⟨e, he, rfl⟩ := hvs
      exact h e he)
    r
  simpa using this

theorem zip_fst_snd {α β : Type} (l : List (α × β)) : (l.map (·.1)).zip (l.map (·.2)) = l := by
  induction l with
  | nil => rfl
  | cons e t ih => simp [ih]

theorem length_wValues (nv : Nat) (l : List (Nat × List Nat)) (h : ∀ e ∈ l, e.2.length = nv) : (wValues l).length = 8 * nv * l.length := by
  induction l with
  | nil => rfl
  | cons e t ih =>
    obtain ⟨k, v⟩ := e
    have hv : v.length = nv := h (k, v) (by simp)
    simp only [wValues, List.length_append, length_wU64s, List.length_cons, ih (fun e he => h e (by simp [he])), hv]
    rw [Nat.mul_succ]; omega

theorem decode_encode' {c : Consts} (hc : COk c) (s : Image) (hwf : WF s) (exp : Nat)
    (hseed : s.entries = [] ∨ s.seedHash = exp) (tail : Bytes) :
    decode c exp (encode c s ++ tail) = some (s, tail) := by
  obtain ⟨hsh, hth, hnv, hlen, hes, hord⟩ := hwf
  unfold decode encode
  simp only [List.append_assoc]
  rw [bind_skip_w8, bind_u8 _ _ _ hc.sv, bind_u8 _ _ _ hc.fam, bind_u8 _ _ _ hc.ty, bind_u8 _ _ _ (flagsByte_lt hc s),
    bind_u8 _ _ _ hnv, bind_u16 _ _ _ hsh]
  simp only [beq_self_eq_true, Bool.and_self, bind_guard_true, flagsByte_has hc, flagsByte_empty hc, flagsByte_ordered hc]
  by_cases hn : s.entries.length = 0
  · have he : s.entries = [] := List.eq_nil_of_length_eq_zero hn
    simp only [hn, bne_self_eq_false, Bool.not_false, Bool.true_or, bind_guard_true, Bool.false_eq_true, ↓reduceIte, List.nil_append]
    rw [bind_u64 _ _ _ hth]
    obtain ⟨e, o, sh, th, nv, es⟩ := s
    simp only at *
    subst he
    have ho : o = true := hord (by simp)
    subst ho
    rfl
  · have hne : (s.entries.length != 0) = true := by simp [hn]
    have hs : s.seedHash = exp := by
      rcases hseed with h | h
      · rw [h] at hn; simp at hn
      · exact h
    simp only [hne, hs, Bool.not_true, beq_self_eq_true, Bool.or_true, bind_guard_true, ↓reduceIte, List.append_assoc]
    rw [bind_u64 _ _ _ hth, bind_u32 _ _ _ hlen, bind_skip_w32]
    have hk := repeatN_u64_wU64s (s.entries.map (·.1)) (by
      intro x hx
      simp only [List.mem_map] at hx
      obtain ⟨e, he, rfl⟩ := hx
      exact (hes e he).1) (wValues s.entries ++ tail)
    rw [List.length_map] at hk
    rw [bind_some hk]
    rw [bind_some (repeatN_values s.numValues s.entries (fun e he => (hes e he).2) tail)]
    simp only [Reader.pure, zip_fst_snd, Option.some.injEq, Prod.mk.injEq, and_true]
    obtain ⟨e, o, sh, th, nv, es⟩ := s
    simp only [Image.mk.injEq, true_and, and_true]
    simp only at hord hs
    by_cases h1 : es.length ≤ 1
    · simp [h1, hord h1, hs]
    · simp [h1, hs]

theorem length_encode (c : Consts) (s : Image) (hv : ∀ e ∈ s.entries, e.2.length = s.numValues) : (encode c s).length = serializedSize s := by
  unfold encode serializedSize
  simp only [List.length_append, w8, w16, w32, w64, length_wLe]
  by_cases hn : s.entries.length = 0
  · simp [hn]
  · have hne : (s.entries.length != 0) = true := by simp [hn]
    simp only [hne, ↓reduceIte, List.length_append, length_wLe, length_wU64s, List.length_map, length_wValues s.numValues s.entries hv]
    rw [Nat.add_mul]; omega

theorem PS_decode (c : Consts) (exp : Nat) : PS (decode c exp) :=
  PS_bind _ _ (PS_skip 1) fun _ =>
  PS_bind _ _ (PS_leNat 1) fun _ =>
  PS_bind _ _ (PS_leNat 1) fun _ =>
  PS_bind _ _ (PS_leNat 1) fun _ =>
  PS_bind _ _ (PS_leNat 1) fun _ =>
  PS_bind _ _ (PS_leNat 1) fun nv =>
  PS_bind _ _ (PS_leNat 2) fun _ =>
  PS_bind _ _ (PS_guard _) fun _ =>
  PS_bind _ _ (PS_guard _) fun _ =>
  PS_bind _ _ (PS_leNat 8) fun _ =>
  PS_ite _ _ _
    (PS_bind _ _ (PS_leNat 4) fun n =>
     PS_bind _ _ (PS_skip 4) fun _ =>
     PS_bind _ _ (PS_repeatN _ (PS_leNat 8) n) fun _ =>
     PS_bind _ _ (PS_repeatN _ (PS_repeatN _ (PS_leNat 8) nv) n) fun _ => PS_pure _)
    (PS_pure _)

def nEntries (s : Image) : Nat := s.entries.length

theorem bounded_decode (c : Consts) (exp : Nat) : BoundedBy nEntries 8 (decode c exp) :=
  boundedBy_bind _ _ (c0_skip 1) fun _ =>
  boundedBy_bind _ _ c0_u8 fun _ =>
  boundedBy_bind _ _ c0_u8 fun _ =>
  boundedBy_bind _ _ c0_u8 fun _ =>
  boundedBy_bind _ _ c0_u8 fun _ =>
  boundedBy_bind _ _ c0_u8 fun nv =>
  boundedBy_bind _ _ c0_u16 fun _ =>
  boundedBy_bind _ _ (consumes_guard _) fun _ =>
  boundedBy_bind _ _ (consumes_guard _) fun _ =>
  boundedBy_bind _ _ c0_u64 fun _ =>
  boundedBy_ite _ _ _
    (boundedBy_bind _ _ c0_u32 fun n =>
     boundedBy_bind _ _ (c0_skip 4) fun _ => by
      intro b x r h
      simp only [Reader.bind] at h
      cases h1 : repeatN u64 n b with
      | none => simp [h1] at h
      | some p =>
        obtain ⟨keys, r1⟩ := p
        simp only [h1] at h
        cases h2 : repeatN (repeatN u64 nv) n r1 with
        | none => simp [h2] at h
        | some q =>
          obtain ⟨vals, r2⟩ := q
          simp only [h2, Reader.pure, Option.some.injEq, Prod.mk.injEq] at h
          obtain ⟨hl, hr⟩ := repeatN_length u64 8 c8_u64 n b keys r1 h1
          obtain ⟨hl2, hr2⟩ := repeatN_length (repeatN u64 nv) 0 (fun b x r hh => by
            have := (repeatN_length u64 0 c0_u64 nv b x r hh).2; omega) n r1 vals r2 h2
          rw [← h.1, ← h.2]
          simp only [nEntries, List.length_zip, hl, hl2, Nat.min_self]
          omega)
    (boundedBy_pure _ rfl)

end DS.Wire.Aod

/- C19 / FI part G: the sketch constructor for any footprint, `deserialize(serialize(s))`, `merge(const&)`. -/
import DSProofs.Lemmas.LifeFiF
namespace DS.Life.Fi
open DS.Life

theorem sketchCtor_spec (P : Params) (n0 : Nat) (S : Nat → Bool) (hS : ∀ b, n0 ≤ b → S b = true) (lgMax lgStart : Nat)
    (h0 : Heap) :
    TripleS n0 S (fun h => h = h0) (Sketch.ctor P lgMax lgStart)
      (fun d h' => Usable P h' d.map ∧ owned d.map = [h0.next, h0.next + 1, h0.next + 2] ∧
        h'.ids = (h0.next + 2) :: (h0.next + 1) :: h0.next :: h0.ids ∧ h'.next = h0.next + 3 ∧
        ∀ b, b < h0.next → h'.find? b = h0.find? b) := by
  intro h hn he
  subst he
  unfold Sketch.ctor
  apply SafeF.bind_triple (ctor_spec P n0 S hS _ _ (Nat.le_max_right _ _) h) hn rfl
  intro m h1 ⟨hu, hm, hids, hnx, hold⟩ _
  by_cases hl : lgStart > lgMax
  · rw [if_pos hl]
    have hSm : ∀ b, b ∈ owned m → S b = true := by
      intro b hb
      rw [hm] at hb
      simp only [owned_some, List.mem_cons, List.not_mem_nil, or_false] at hb
      exact hS b (by omega)
    apply SafeF.bind_triple (dtor_spec P n0 S m hSm h1) (by omega) ⟨rfl, hu.inv⟩
    intro _ _ _ _
    exact SafeF.exc _
  · rw [if_neg hl]
    apply SafeF.pure
    exact ⟨hu, by rw [hm]; rfl, hids, hnx, hold⟩

/-- `sd.deserialize(..., items, num)`: placement-new of every item -/
theorem constructAll_spec (n0 : Nat) (S : Nat → Bool) (b n : Nat) (g : Nat → Nat) (hS : S b = true) (h0 : Heap)
    (hc : HasCells h0 b n) (hr : ∀ i, stAt h0 b i = .raw) :
    TripleS n0 S (fun h => h = h0) (loopUp (fun i => construct b i (g i)) n 0)
      (fun _ h => SameBut [b] h0 h ∧ HasCells h b n ∧ ∀ i, i < n → ∃ x, stAt h b i = .live x) := by
  have := TripleS.loopUp (n0 := n0) (S := S)
    (fun k h => SameBut [b] h0 h ∧ HasCells h b n ∧ (∀ i, i < k → ∃ x, stAt h b i = .live x) ∧
      ∀ i, k ≤ i → stAt h b i = .raw)
    (fun i => construct b i (g i)) n 0 ?_
  · refine this.conseq ?_ ?_
    · intro h e; subst e
      exact ⟨SameBut.refl _ _, hc, fun i hi => by omega, fun i _ => hr i⟩
    · intro _ h ⟨a, c, l, _⟩
      exact ⟨a, c, fun i hi => l i (by omega)⟩
  · intro i _ hi h _ ⟨sb, hc', hl, hraw⟩
    obtain ⟨c, ec, _, est⟩ := hc'.cell_st (by omega : i < n)
    apply SafeF.last
    apply stepR_construct (g i) ec (by rw [est]; exact hraw i (Nat.le_refl _)) hS
    intro h' up
    apply SafeF.pure
    refine ⟨sb.trans (up.sameBut (by simp)), up.hasCells hc', ?_, ?_⟩
    · intro j hj
      by_cases hji : j = i
      · subst hji; exact ⟨g j, by rw [up.stAt_eq]⟩
      · rw [up.stAt_ne (fun hh => hji hh.2)]; exact hl j (by omega)
    · intro j hj
      rw [up.stAt_ne (fun hh => by omega)]; exact hraw j (by omega)

/-! ### `deserialize(serialize(s))` -/

/-- invariant of the re-insertion loop of `deserialize` -/
def RT (P : Params) (h3 : Heap) (own0 : List Nat) (it na : Nat) (i : Nat) (acc : Sketch) (h : Heap) : Prop :=
  Usable P h acc.map ∧ Grown h3 h own0 (owned acc.map) [it] ∧ HasCells h it na ∧
  (∀ j, j < i → stAt h it j ≠ .raw) ∧ (∀ j, i ≤ j → stAt h it j = stAt h3 it j)

theorem roundTrip_spec (P : Params) (hP : P.OK) (n0 : Nat) (S : Nat → Bool) (hS : ∀ b, n0 ≤ b → S b = true) (s : Sketch)
    (h0 : Heap) :
    TripleS n0 S (fun h => h = h0 ∧ Usable P h s.map ∧ IdsLt h) (Sketch.roundTrip P s)
      (fun d h' => Usable P h' d.map ∧ (∀ b, b ∈ h'.ids ↔ b ∈ h0.ids ∨ b ∈ owned d.map) ∧
        (∀ b, b ∈ owned d.map → h0.next ≤ b) ∧ ∀ b, b < h0.next → h'.find? b = h0.find? b) := by
  intro h hn ⟨he, hu, hlt⟩
  subst he
  unfold Sketch.roundTrip
  apply SafeF.bind_triple (sketchCtor_spec P n0 S hS _ _ h) hn rfl
  intro d h1 ⟨hud, hownd, hids1, hnext1, hold1⟩ _
  by_cases hz : s.map.numActive = 0
  · rw [if_pos hz]
    apply SafeF.pure
    refine ⟨hud, ?_, ?_, hold1⟩
    · intro b
      rw [hids1, hownd]
      simp only [List.mem_cons, List.not_mem_nil, or_false]
      constructor
      · rintro (e | e | e | e)
        · exact Or.inr (Or.inr (Or.inr e))
        · exact Or.inr (Or.inr (Or.inl e))
        · exact Or.inr (Or.inl e)
        · exact Or.inl e
      · rintro (e | e | e | e)
        · exact Or.inr (Or.inr (Or.inr e))
        · exact Or.inr (Or.inr (Or.inl e))
        · exact Or.inr (Or.inl e)
        · exact Or.inl e
    · intro b hb
      rw [hownd] at hb
      simp only [List.mem_cons, List.not_mem_nil, or_false] at hb
      omega
  · rw [if_neg hz]
    obtain ⟨k, v, st, hk, hv, hst, _, T, hc⟩ := Usable.ptrs hu
    rw [hk, hv]
    apply step_deref
    apply step_deref
    have ltk := T.ltk; have ltv := T.ltv; have lts := T.lts
    have T1 : Tbl true [] h1 k v st (2 ^ s.map.lgCur) :=
      T.local (hold1 k ltk) (hold1 v ltv) (hold1 st lts) (by omega)
    have hact1 : act h1 st = act h st := act_congr (hold1 st lts)
    -- the image is read off the source
    apply SafeF.bind_safe (forEachActive_safe (S := S) P s.map st hst _ (fun _ _ hh => hh = h1)
      (fun _ _ hh e => by rw [e]; exact T1.cs) ?_ [] h1 rfl (by rw [hact1]; exact hc))
    · intro img h1' e1 _
      subst e1
      have hlt1 : IdsLt h1' := by
        intro b hb
        rw [hids1] at hb
        simp only [List.mem_cons] at hb
        rw [hnext1]
        rcases hb with e | e | e | e
        · omega
        · omega
        · omega
        · have := hlt b e; omega
      apply step_alloc _ _ (hS _ (by omega))
      apply step_alloc _ _ (hS _ (by simp; omega))
      have F := alloc2_fresh h1' .u64 .item s.map.numActive
      generalize (h1'.afterAlloc .u64 s.map.numActive).afterAlloc .item s.map.numActive = h2 at F
      have hlt2 : IdsLt h2 := by
        intro b hb
        rw [F.ids] at hb
        simp only [List.mem_cons] at hb
        rw [F.next]
        rcases hb with e | e | e
        · omega
        · omega
        · have := hlt1 b e; omega
      apply SafeF.bind_triple (constructAll_spec n0 S (h1'.next + 1) s.map.numActive _ (hS _ (by omega)) h2 F.c1 F.r1)
        (by rw [F.next]; omega) rfl
      intro _ h3 ⟨sb3, ci3, hl3⟩ _
      have hlt3 : IdsLt h3 := sb3.idsLt hlt2
      have hnext3 : h3.next = h1'.next + 2 := by rw [sb3.next, F.next]
      have hdids : ∀ b, b ∈ owned d.map → b ∈ h3.ids := by
        intro b hb
        rw [sb3.ids, F.ids, hids1]
        rw [hownd] at hb
        simp only [List.mem_cons, List.not_mem_nil, or_false] at hb
        simp only [List.mem_cons]
        rcases hb with e | e | e
        · exact Or.inr (Or.inr (Or.inr (Or.inr (Or.inl e))))
        · exact Or.inr (Or.inr (Or.inr (Or.inl e)))
        · exact Or.inr (Or.inr (Or.inl e))
      -- re-insertion
      have loop := TripleS.foldUp (n0 := n0) (S := S)
        (RT P h3 (owned d.map) (h1'.next + 1) s.map.numActive)
        (fun i acc => Sketch.update P acc (.moveOf (h1'.next + 1) i) ((img.getD i (0, 0)).2)) s.map.numActive 0 d ?_
      · apply SafeF.bind_triple loop (by rw [hnext3]; omega)
          ⟨Usable.local (fun b hb => by
              rw [hownd] at hb
              simp only [List.mem_cons, List.not_mem_nil, or_false] at hb
              rw [sb3.out b (by simp; omega), F.old b (by omega)]) (by rw [hnext3]; omega) hud,
            Grown.of_sameBut (SameBut.refl _ _) hlt3 hdids, ci3, fun j hj => by omega, fun _ _ => rfl⟩
        intro d' h4 ⟨hud4, g4, ci4, hnr4, _⟩ _
        have hitd' : ∀ b, b ∈ owned d'.map → b ≠ h1'.next + 1 ∧ b ≠ h1'.next := by
          intro b hb
          rcases g4.fresh b hb with e | e
          · rw [hownd] at e
            simp only [List.mem_cons, List.not_mem_nil, or_false] at e
            omega
          · omega
        apply SafeF.bind_triple (destroyAll_spec n0 S (h1'.next + 1) s.map.numActive (hS _ (by omega)) h4 ci4
          (fun i hi => hnr4 i (by omega))) (by have := g4.next; omega) rfl
        intro _ h5 ⟨sb5, ci5, hr5⟩ _
        apply step_dealloc ci5 (fun i hi => by
          obtain ⟨c, ec, _, est⟩ := ci5.cell_st hi
          exact ⟨c, ec, by rw [est]; exact hr5 i hi⟩) (hS _ (by omega))
        intro kd
        -- the weights vector
        have ewt : h5.find? h1'.next = h2.find? h1'.next := by
          rw [sb5.out _ (by simp), g4.out _ (by rw [hownd]; simp; omega) (by simp) (by omega), sb3.out _ (by simp)]
        have cw5 : HasCells (h5.afterFree (h1'.next + 1) kd s.map.numActive) h1'.next s.map.numActive :=
          HasCells_afterFree_ne (by omega) (HasCells_congr ewt F.c0)
        apply step_dealloc cw5 (fun i hi => by
          obtain ⟨c, ec, _, est⟩ := cw5.cell_st hi
          refine ⟨c, ec, ?_⟩
          rw [est, stAt_afterFree_ne (by omega), stAt_congr ewt]; exact F.r0 i) (hS _ (by omega))
        intro kd'
        apply SafeF.pure
        show Usable P _ d'.map ∧ (∀ b, b ∈ _ ↔ b ∈ h.ids ∨ b ∈ owned d'.map) ∧ (∀ b, b ∈ owned d'.map → h.next ≤ b) ∧ _
        refine ⟨?_, ?_, ?_, ?_⟩
        · refine Usable.local (fun b hb => ?_) (by simp [sb5.next]) hud4
          obtain ⟨hne1, hne2⟩ := hitd' b hb
          rw [find?_afterFree_ne _ _ _ _ hne2, find?_afterFree_ne _ _ _ _ hne1, sb5.out b (by simp; exact hne1)]
        · intro b
          rw [ids_afterFree, ids_afterFree, List.mem_filter, List.mem_filter, sb5.ids, g4.ids b, sb3.ids, F.ids, hids1]
          simp only [List.mem_cons, bne_iff_ne, ne_eq]
          constructor
          · rintro ⟨⟨hb, hne1⟩, hne2⟩
            rcases hb with ⟨e, hnd⟩ | e
            · rcases e with e | e | e | e | e | e
              · exact absurd e hne1
              · exact absurd e hne2
              · exact absurd (by rw [hownd, e]; simp) hnd
              · exact absurd (by rw [hownd, e]; simp) hnd
              · exact absurd (by rw [hownd, e]; simp) hnd
              · exact Or.inl e
            · exact Or.inr e
          · rintro (e | e)
            · have hb := hlt b e
              refine ⟨⟨Or.inl ⟨Or.inr (Or.inr (Or.inr (Or.inr (Or.inr e)))), ?_⟩, by omega⟩, by omega⟩
              rw [hownd]; simp; omega
            · exact ⟨⟨Or.inr e, (hitd' b e).1⟩, (hitd' b e).2⟩
        · intro b hb
          rcases g4.fresh b hb with e | e
          · rw [hownd] at e
            simp only [List.mem_cons, List.not_mem_nil, or_false] at e
            omega
          · omega
        · intro b hb
          rw [find?_afterFree_ne _ _ _ _ (by omega), find?_afterFree_ne _ _ _ _ (by omega), sb5.out b (by simp; omega),
            g4.out b (by rw [hownd]; simp; omega) (by simp; omega) (by omega), sb3.out b (by simp; omega),
            F.old b (by omega), hold1 b hb]
      · -- one re-insertion
        intro i acc _ hi hh hnh ⟨hua, ga, cia, hnra, hsamea⟩
        have hi' : i < s.map.numActive := by omega
        have hnotown : h1'.next + 1 ∉ owned acc.map := by
          intro hm
          rcases ga.fresh _ hm with e | e
          · rw [hownd] at e
            simp only [List.mem_cons, List.not_mem_nil, or_false] at e
            omega
          · omega
        have hsrc : SrcOK hh (owned acc.map) (.moveOf (h1'.next + 1) i) := by
          refine ⟨hnotown, ?_⟩
          obtain ⟨x, hx⟩ := hl3 i hi'
          exact ⟨x, by rw [hsamea i (Nat.le_refl _)]; exact hx⟩
        have hSo : ∀ b, b ∈ owned acc.map ++ srcBlk (.moveOf (h1'.next + 1) i) → S b = true := by
          intro b hb
          simp only [srcBlk, List.mem_append, List.mem_cons, List.not_mem_nil, or_false] at hb
          rcases hb with hb | hb
          · rcases ga.fresh b hb with e | e
            · rw [hownd] at e
              simp only [List.mem_cons, List.not_mem_nil, or_false] at e
              exact hS b (by omega)
            · exact hS b (by omega)
          · exact hS b (by omega)
        refine SafeF.mono (update_spec P hP n0 S acc (.moveOf (h1'.next + 1) i) _ hS hSo hh hh hnh
          ⟨rfl, hua, hsrc, ga.lt, fun b hb => by
            simp only [srcBlk, List.mem_cons, List.not_mem_nil, or_false] at hb
            have := ga.next; omega⟩) ?_
        intro acc' hh' ⟨hua', g', hmv⟩
        have hmv' : MovedAt hh hh' (h1'.next + 1) i := hmv
        refine ⟨hua', ga.trans g' hlt3, ?_, ?_, ?_⟩
        · simpa only [HasCells, hmv'.1] using cia
        · intro j hj
          by_cases hji : j = i
          · subst hji
            rcases hmv'.2.2.2 with e | e
            · rw [e, hsamea j (Nat.le_refl _)]
              obtain ⟨x, hx⟩ := hl3 j hi'
              rw [hx]; simp
            · rw [e]; simp
          · rw [hmv'.2.2.1 j hji]; exact hnra j (by omega)
        · intro j hj
          rw [hmv'.2.2.1 j (by omega)]; exact hsamea j (by omega)
    · -- reading one (item, weight) pair
      intro c acc hh idx _ e hidx hact
      subst e
      have hwpos : 0 < wordAt hh st idx := by simpa [act] using hact
      obtain ⟨x, hx⟩ := (T1.slot idx hidx (by simp)).live_of_pos hwpos
      obtain ⟨ck, eck, estk, _⟩ := cell_of_stAt_ne_raw (h := hh) (b := k) (i := idx) (by rw [hx]; simp)
      apply step_read eck (by rw [estk, hx])
      obtain ⟨cv, ecv⟩ := T1.cv.cell hidx
      apply step_readWord ecv
      exact SafeF.pure rfl

/-! ### `merge(const frequent_items_sketch&)` -/

theorem merge_copy_spec (P : Params) (hP : P.OK) (n0 : Nat) (S : Nat → Bool) (hS : ∀ b, n0 ≤ b → S b = true) (s o : Sketch)
    (hSo : ∀ b, b ∈ owned s.map → S b = true) (h0 : Heap) :
    TripleS n0 S
      (fun h => h = h0 ∧ Usable P h s.map ∧ Usable P h o.map ∧ (∀ b, b ∈ owned s.map → b ∉ owned o.map) ∧ IdsLt h)
      (Sketch.merge P s o false)
      (fun s' h' => Usable P h' s'.map ∧ Usable P h' o.map ∧ Grown h0 h' (owned s.map) (owned s'.map) []) := by
  intro h hn ⟨he, hus, huo, hdis, hlt⟩
  subst he
  unfold Sketch.merge
  have g0 : Grown h h (owned s.map) (owned s.map) [] :=
    Grown.of_sameBut (SameBut.refl _ _) hlt (fun b hb => (hus.inv.owned_ids b hb).1)
  by_cases hz : o.map.numActive = 0
  · rw [if_pos hz]
    exact SafeF.pure ⟨hus, huo, g0⟩
  · rw [if_neg hz]
    obtain ⟨ok, ov, os, hok, hov, hos, hoo, T, hc⟩ := Usable.ptrs huo
    rw [hok, hov]
    apply step_deref
    apply step_deref
    have hoids := huo.inv.owned_ids
    -- what the loop keeps
    let I : Nat → Sketch → Heap → Prop := fun _ acc hh =>
      Usable P hh acc.map ∧ Grown h hh (owned s.map) (owned acc.map) []
    have huo' : ∀ acc hh, I 0 acc hh → Usable P hh o.map := by
      intro acc hh ⟨_, g⟩
      exact Usable.local (fun b hb => g.out b (fun hm => hdis b hm hb) (by simp) (hoids b hb).2) g.next huo
    have hI : ∀ c acc hh, I c acc hh → HasCells hh os (2 ^ o.map.lgCur) := by
      intro c acc hh hi
      obtain ⟨_, _, os', _, _, hos', _, T', _⟩ := Usable.ptrs (huo' acc hh hi)
      rw [hos] at hos'
      cases hos'
      exact T'.cs
    apply SafeF.bind_safe (forEachActive_safe (S := S) P o.map os hos _ I hI ?_ s h ⟨hus, g0⟩ hc)
    · intro s' h' hi' _
      apply SafeF.pure
      exact ⟨hi'.1, huo' s' h' hi', hi'.2⟩
    · intro c acc hh idx _ hi hidx hact
      have huo1 := huo' acc hh hi
      obtain ⟨hua, ga⟩ := hi
      obtain ⟨ok', ov', os', hok', hov', hos', _, T', _⟩ := Usable.ptrs huo1
      rw [hok] at hok'; rw [hov] at hov'; rw [hos] at hos'
      cases hok'; cases hov'; cases hos'
      obtain ⟨cv, ecv⟩ := T'.cv.cell hidx
      apply step_readWord ecv
      simp only [Bool.false_eq_true, if_false]
      have hwpos : 0 < wordAt hh os idx := by simpa [act] using hact
      have hoknot : ok ∉ owned acc.map := by
        intro hm
        have hoko : ok ∈ owned o.map := by rw [hoo]; simp
        rcases ga.fresh _ hm with e | e
        · exact hdis ok e hoko
        · have := (hoids ok hoko).2; omega
      have hsrc : SrcOK hh (owned acc.map) (.copyOf ok idx) :=
        ⟨hoknot, (T'.slot idx hidx (by simp)).live_of_pos hwpos⟩
      have hSa : ∀ b, b ∈ owned acc.map ++ srcBlk (.copyOf ok idx) → S b = true := by
        intro b hb
        simp only [srcBlk, List.append_nil] at hb
        rcases ga.fresh b hb with e | e
        · exact hSo b e
        · exact hS b (by omega)
      refine SafeF.mono (update_spec P hP n0 S acc (.copyOf ok idx) cv.word hS hSa hh hh (by have := ga.next; omega)
        ⟨rfl, hua, hsrc, ga.lt, fun b hb => by cases hb⟩) ?_
      intro acc' hh' ⟨hua', g', _⟩
      exact ⟨hua', ga.trans g' hlt⟩

end DS.Life.Fi

/- Helper lemmas for the theta update model (free to change; property statements live in Props/). -/
import DSModel.Theta.Update
namespace DS.Theta

variable {σ : Type}

@[simp] theorem keys_nil : keys ([] : List (Nat × σ)) = [] := rfl
@[simp] theorem keys_cons (a : Nat × σ) (l) : keys (a :: l) = a.1 :: keys l := rfl
@[simp] theorem keys_length (l : List (Nat × σ)) : (keys l).length = l.length := by simp [keys]
theorem keys_take (l : List (Nat × σ)) (k) : keys (l.take k) = (keys l).take k := by
  simp [keys, List.map_take]

theorem lookup_none_iff (h : Nat) (l : List (Nat × σ)) : lookup h l = none ↔ h ∉ keys l := by
  induction l with
  | nil => simp [lookup]
  | cons a t ih =>
    obtain ⟨k, v⟩ := a
    simp only [lookup, keys_cons, List.mem_cons]
    by_cases hk : k = h
    · simp [hk]
    · simp only [hk, if_false, ih]
      constructor
      · intro hn hh; rcases hh with hh | hh
        · exact hk hh.symm
        · exact hn hh
      · intro hn hh; exact hn (Or.inr hh)

theorem mem_keys_upsert (h : Nat) (f : Option σ → σ) (l : List (Nat × σ)) (x : Nat) :
    x ∈ keys (upsert h f l) ↔ x = h ∨ x ∈ keys l := by
  induction l with
  | nil => simp [upsert]
  | cons a t ih =>
    obtain ⟨k, v⟩ := a
    simp only [upsert]
    split
    · simp
    · split
      · rename_i _ hk; subst hk; simp
      · simp only [keys_cons, List.mem_cons, ih]
        constructor
        · rintro (h1 | h1 | h1) <;> simp [h1]
        · rintro (h1 | h1 | h1) <;> simp [h1]

theorem sorted_upsert (h : Nat) (f : Option σ → σ) (l : List (Nat × σ))
    (hs : (keys l).Pairwise (· < ·)) : (keys (upsert h f l)).Pairwise (· < ·) := by
  induction l with
  | nil => simp [upsert]
  | cons a t ih =>
    obtain ⟨k, v⟩ := a
    simp only [keys_cons, List.pairwise_cons] at hs
    simp only [upsert]
    split
    · rename_i hlt
      simp only [keys_cons, List.pairwise_cons, List.mem_cons]
      refine ⟨?_, hs.1, hs.2⟩
      rintro y (rfl | hy)
      · exact hlt
      · exact Nat.lt_trans hlt (hs.1 y hy)
    · split
      · simp only [keys_cons, List.pairwise_cons]; exact hs
      · rename_i h1 h2
        simp only [keys_cons, List.pairwise_cons]
        refine ⟨?_, ih hs.2⟩
        intro y hy
        rw [mem_keys_upsert] at hy
        rcases hy with rfl | hy
        · omega
        · exact hs.1 y hy

theorem length_upsert_new (h : Nat) (f : Option σ → σ) (l : List (Nat × σ))
    (hn : h ∉ keys l) : (upsert h f l).length = l.length + 1 := by
  induction l with
  | nil => simp [upsert]
  | cons a t ih =>
    obtain ⟨k, v⟩ := a
    simp only [keys_cons, List.mem_cons, not_or] at hn
    simp only [upsert]
    split
    · simp
    · split
      · rename_i _ hk; exact absurd hk hn.1
      · simp [ih hn.2]

theorem length_upsert_old (h : Nat) (f : Option σ → σ) (l : List (Nat × σ))
    (hn : h ∈ keys l) (hs : (keys l).Pairwise (· < ·)) : (upsert h f l).length = l.length := by
  induction l with
  | nil => simp at hn
  | cons a t ih =>
    obtain ⟨k, v⟩ := a
    simp only [keys_cons, List.pairwise_cons] at hs
    simp only [keys_cons, List.mem_cons] at hn
    simp only [upsert]
    split
    · rename_i hlt
      rcases hn with rfl | hn
      · omega
      · have := hs.1 h hn; omega
    · split
      · simp
      · rename_i h1 h2
        rcases hn with rfl | hn
        · omega
        · simp [ih hn hs.2]

/-- the rebuild lemma: in a strictly sorted list, the first `k` elements are exactly those below the element of rank `k` -/
theorem mem_take_sorted (l : List Nat) (hs : l.Pairwise (· < ·)) (k : Nat) (t : Nat)
    (hk : l[k]? = some t) (x : Nat) : x ∈ l.take k ↔ x ∈ l ∧ x < t := by
  induction l generalizing k with
  | nil => simp at hk
  | cons a r ih =>
    simp only [List.pairwise_cons] at hs
    cases k with
    | zero =>
      simp only [List.getElem?_cons_zero, Option.some.injEq] at hk
      subst hk
      simp only [List.take_zero, List.not_mem_nil, List.mem_cons, false_iff, not_and, Nat.not_lt]
      rintro (rfl | hx)
      · exact Nat.le_refl _
      · exact Nat.le_of_lt (hs.1 x hx)
    | succ k =>
      simp only [List.getElem?_cons_succ] at hk
      simp only [List.take_succ_cons, List.mem_cons]
      have hmem : t ∈ r := List.mem_of_getElem? hk
      constructor
      · rintro (rfl | hx)
        · exact ⟨Or.inl rfl, hs.1 t hmem⟩
        · have := (ih hs.2 k hk).1 hx
          exact ⟨Or.inr this.1, this.2⟩
      · rintro ⟨rfl | hx, hlt⟩
        · exact Or.inl rfl
        · exact Or.inr ((ih hs.2 k hk).2 ⟨hx, hlt⟩)

theorem pairwise_take {α} {R : α → α → Prop} (l : List α) (k : Nat) (h : l.Pairwise R) : (l.take k).Pairwise R :=
  h.sublist (List.take_sublist k l)

end DS.Theta

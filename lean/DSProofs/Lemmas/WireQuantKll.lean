/-
KLL image: helper lemmas for the round trip, prefix safety and boundedness theorems (Props/C09_Kll, C11_Kll).
-/
import DSModel.Wire.Kll
import DSProofs.Lemmas.WireQuant
namespace DS.Wire.Kll
open Reader

/-- side conditions on the wire constants under which the theorems hold (decidable; `docCfg` satisfies them) -/
def CfgOK (c : Cfg) : Prop :=
  c.bitEmpty = 0 ∧ c.bitLz = 1 ∧ c.bitSingle = 2 ∧
  c.family < 256 ∧ c.preShort < 256 ∧ c.preFull < 256 ∧ c.ver1 < 256 ∧ c.ver2 < 256 ∧ c.m < 256 ∧
  c.emptySize = 8 ∧ c.dataStartSingle = 8 ∧ c.dataStart = 20

instance (c : Cfg) : Decidable (CfgOK c) := by unfold CfgOK; infer_instance

theorem flags_rt (c : Cfg) (hc : CfgOK c) (e lz sg : Bool) :
    bit (mkFlags c e lz sg) c.bitEmpty = e ∧ bit (mkFlags c e lz sg) c.bitLz = lz ∧
    bit (mkFlags c e lz sg) c.bitSingle = sg ∧ mkFlags c e lz sg < 256 := by
  obtain ⟨h0, h1, h2, _⟩ := hc
  simp only [mkFlags, bit, h0, h1, h2]
  cases e <;> cases lz <;> cases sg <;> decide

theorem length_header (c : Cfg) (pre ver flags k : Nat) : (header c pre ver flags k).length = 8 := by
  simp [header]

theorem decode_header (sd : Serde) (c : Cfg) (hc : CfgOK c) (pre ver k : Nat) (e lz sg : Bool)
    (hpre : pre < 256) (hver : ver < 256) (hk : k < 2 ^ 16) (r : Bytes) :
    decode sd c (header c pre ver (mkFlags c e lz sg) k ++ r) = decodeBody sd c pre ver (mkFlags c e lz sg) k r := by
  obtain ⟨fe, fl, fs, ff⟩ := flags_rt c hc e lz sg
  obtain ⟨_, _, _, hfam, _, _, _, _, hm, _⟩ := hc
  simp only [decode, header, List.append_assoc]
  rw [bind_step (u8_w8 pre (by omega) _), bind_step (u8_w8 ver (by omega) _), bind_step (u8_w8 c.family (by omega) _),
    bind_step (u8_w8 _ (by omega) _), bind_step (u16_w16 k hk _), bind_step (u8_w8 c.m (by omega) _),
    bind_step (u8_w8 0 (by omega) _)]
  rw [guard_true_step]
  simp [fe, fl, fs]

theorem levels_all_iff (levels : List Nat) :
    levels.all (fun x => decide (x < 2 ^ 32)) = true ↔ ∀ x ∈ levels, x < 2 ^ 32 := by
  simp [List.all_eq_true]

theorem decodeFull_encode (sd : Serde) (hs : sd.Lawful) (c : Cfg) (k : Nat) (lz : Bool) (n minK : Nat)
    (levels : List Nat) (mn mx : Item) (items : List Item) (r : Bytes)
    (hn : n < 2 ^ 64) (hmk : minK < 2 ^ 16) (hl1 : 1 ≤ levels.length) (hl2 : levels.length ≤ 61)
    (hlv : ∀ x ∈ levels, x < 2 ^ 32) (hok : levelsOk levels (totalCapacity k c.m levels.length) = true)
    (hmn : sd.wf mn = true) (hmx : sd.wf mx = true) (hit : allWf sd items = true)
    (hcnt : items.length = totalCapacity k c.m levels.length - levels.headD 0) :
    decodeFull sd c k lz
      (w64 n ++ (w16 minK ++ (w8 levels.length ++ (w8 0 ++
        (encList w32 levels ++ (sd.enc mn ++ (sd.enc mx ++ (encItems sd items ++ r)))))))) =
      some (Image.full k lz n minK levels mn mx items, r) := by
  simp only [decodeFull]
  rw [bind_step (u64_w64 n hn _), bind_step (u16_w16 minK hmk _), bind_step (u8_w8 levels.length (by omega) _),
    bind_step (u8_w8 0 (by omega) _)]
  rw [guard_true_step (by simp [hl1, hl2])]
  rw [bind_step (repeatN_u32s levels _ hlv)]
  rw [guard_true_step hok]
  rw [bind_step (hs.rt mn _ hmn), bind_step (hs.rt mx _ hmx)]
  rw [← hcnt, bind_step (repeatN_items sd hs items r hit)]
  rfl

theorem totalCapacity_mono (k m : Nat) : ∀ a b, a ≤ b → totalCapacity k m a ≤ totalCapacity k m b := by
  intro a b h
  induction b with
  | zero => have : a = 0 := by omega
            subst this; exact Nat.le_refl _
  | succ b ih =>
    rcases Nat.lt_or_ge a (b + 1) with h1 | h1
    · have := ih (by omega)
      simp only [totalCapacity]; omega
    · have : a = b + 1 := by omega
      subst this; exact Nat.le_refl _

theorem length_encItems_fixed (w : Nat) (l : List Item) (h : allWf (Serde.fixed w) l = true) :
    (encItems (Serde.fixed w) l).length = l.length * w := by
  induction l with
  | nil => simp [encItems, encList]
  | cons x t ih =>
    have hx : x.length = w := by
      have := (allWf_iff _ _).1 h x (by simp)
      simpa [Serde.fixed] using this
    have ht : allWf (Serde.fixed w) t = true := by
      rw [allWf_iff] at h ⊢
      exact fun y hy => h y (by simp [hy])
    have := ih ht
    simp only [encItems] at this
    simp only [encItems, encList, List.length_append, this, List.length_cons]
    have hx' : ((Serde.fixed w).enc x).length = w := by simpa [Serde.fixed] using hx
    rw [hx', Nat.succ_mul]; omega

end DS.Wire.Kll

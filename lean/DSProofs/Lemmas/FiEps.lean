/- The epsilon invariant of the L1 frequent-items model: every purge whose amount is at most the median removes
   `amount` from at least half of the counters (free to change; property statements live in Props/C12.lean). -/
import DSProofs.Lemmas.FiReach
import Mathlib.Tactic.Ring
import Mathlib.Tactic.Linarith
namespace DS.Fi
set_option linter.unusedSectionVars false

variable {ι : Type} [DecidableEq ι]

/-- number of counters that are `≥` the median when a purge happens at `lgMax`: `⌈(capacity + 1)/2⌉` -/
def Khalf (T : Tun) (lg : Nat) : Nat := upperHalf (capacity T lg + 1)

theorem Khalf_mono (T : Tun) {a b : Nat} (h : a ≤ b) : Khalf T a ≤ Khalf T b :=
  upperHalf_mono (Nat.succ_le_succ (capacity_mono T h))

/-- `offset · K + (sum of the counters) ≤ total weight` -/
def EpsInv (T : Tun) (s : St ι) : Prop :=
  (keys s.map).Nodup ∧ s.offset * Khalf T s.lgMax + sumVals s.map ≤ s.total

/-- the purge amount `a` is acceptable for `update x w` in state `s`: if that update purges, at least
    `⌈n/2⌉` of the `n` counters are `≥ a` (true of every `a ≤` the median, see `amtOK_of_le_median`) -/
def AmtOK (T : Tun) (s : St ι) (x : ι) (w a : Nat) : Prop :=
  purges T s x w = true → upperHalf (adjust s.map x w).length ≤ countGE (vals (adjust s.map x w)) a

theorem amtOK_of_le_median (T : Tun) (s : St ι) (x : ι) (w a : Nat)
    (h : a ≤ purgeAmountAll (adjust s.map x w)) : AmtOK T s x w a := by
  intro _
  have h1 := upperHalf_le_countGE_median (vals (adjust s.map x w))
  rw [vals_length] at h1
  exact Nat.le_trans h1 (countGE_anti _ h)

/-- every purge amount of a replay satisfies `P` (in the state in which it is used) -/
def ReplayP (T : Tun) (P : St ι → ι → Nat → Nat → Prop) : St ι → List (Ent ι) → Prop
  | _, [] => True
  | s, (x, w, a) :: t => P s x w a ∧ ReplayP T P (update T s x w a) t

abbrev ReplayOK (T : Tun) : St ι → List (Ent ι) → Prop := ReplayP T (AmtOK T)

theorem epsInv_init (T : Tun) (lgMax lgStart : Nat) : EpsInv T (init T lgMax lgStart : St ι) := by
  simp [EpsInv, init]

theorem epsInv_update (T : Tun) (s : St ι) (h : EpsInv T s) (x : ι) (w a : Nat) (hok : AmtOK T s x w a) :
    EpsInv T (update T s x w a) := by
  obtain ⟨hn, hb⟩ := h
  have hlg := lgMax_update T s x w a
  unfold EpsInv
  rw [hlg]
  unfold update
  by_cases hw : w = 0
  · simp only [hw, if_true]; exact ⟨hn, hb⟩
  · simp only [hw, if_false]
    have hnadj := nodup_adjust s.map hn x w
    have hsum := sumVals_adjust s.map hn x w
    by_cases hk : hasKey s.map x = true
    · simp only [hk, if_true]
      exact ⟨hnadj, by omega⟩
    · have hk' : hasKey s.map x = false := by simpa using hk
      simp only [hk', Bool.false_eq_true, if_false]
      by_cases hc : (adjust s.map x w).length > capacity T s.lgCur
      · simp only [hc, if_true]
        by_cases hl : s.lgCur < s.lgMax
        · simp only [hl, if_true]
          exact ⟨hnadj, by omega⟩
        · simp only [hl, if_false]
          have hp : purges T s x w = true := by
            simp only [purges, Bool.and_eq_true, bne_iff_ne, ne_eq, Bool.not_eq_true', decide_eq_true_eq,
              decide_eq_false_iff_not]
            exact ⟨⟨⟨hw, hk'⟩, hc⟩, hl⟩
          have hcnt := hok hp
          have hcap : capacity T s.lgMax ≤ capacity T s.lgCur := capacity_mono T (Nat.le_of_not_lt hl)
          have hK : Khalf T s.lgMax ≤ countGE (vals (adjust s.map x w)) a := by
            refine Nat.le_trans (upperHalf_mono ?_) hcnt
            omega
          have hpur := sumVals_purgeMap (adjust s.map x w) a
          have hmul := Nat.mul_le_mul_left a hK
          refine ⟨nodup_purgeMap _ hnadj a, ?_⟩
          rw [Nat.add_mul]
          omega
      · simp only [hc, if_false]
        exact ⟨hnadj, by omega⟩

theorem epsInv_replay (T : Tun) (ents : List (Ent ι)) (s : St ι) (h : EpsInv T s) (hok : ReplayOK T s ents) :
    EpsInv T (replay T s ents) := by
  induction ents generalizing s with
  | nil => exact h
  | cons e t ih =>
    obtain ⟨x, w, a⟩ := e
    exact ih _ (epsInv_update T s h x w a hok.1) hok.2

theorem epsInv_merge (T : Tun) (s o : St ι) (hs : EpsInv T s) (ho : EpsInv T o) (ents : List (Ent ι))
    (hp : (entPairs ents).Perm o.map) (hlg : s.lgMax ≤ o.lgMax) (hok : ReplayOK T s ents) :
    EpsInv T (merge T s o ents) := by
  unfold merge
  by_cases he : o.map.isEmpty = true
  · simp only [he, if_true]; exact hs
  · have he' : o.map.isEmpty = false := by simpa using he
    simp only [he', Bool.false_eq_true, if_false]
    have hr := epsInv_replay T ents s hs hok
    have ht := total_replay T ents s
    have hl := lgMax_replay T ents s
    rw [sumVals_perm hp] at ht
    obtain ⟨hrn, hrb⟩ := hr
    refine ⟨hrn, ?_⟩
    rw [hl] at hrb
    show ((replay T s ents).offset + o.offset) * Khalf T (replay T s ents).lgMax + sumVals (replay T s ents).map
      ≤ s.total + o.total
    rw [hl]
    have hK := Nat.mul_le_mul_left o.offset (Khalf_mono T hlg)
    have hob := ho.2
    rw [Nat.add_mul]
    omega

theorem epsInv_roundtrip (T : Tun) (s : St ι) (h : EpsInv T s) : EpsInv T (roundtrip T s) := by
  unfold roundtrip
  split
  · simp [EpsInv]
  · exact h

/-- `EPSILON_FACTOR / 2^lg` is at least `1 / K` as soon as `EPSILON_FACTOR · LOAD_FACTOR ≥ 2` -/
theorem eps_side (T : Tun) (lg : Nat) (hden : 0 < T.lfDen) (hside : 2 * T.lfDen * T.epsDen ≤ T.epsNum * T.lfNum) :
    T.epsDen * 2 ^ lg ≤ T.epsNum * Khalf T lg := by
  have h1 : 2 ^ lg * T.lfNum < T.lfDen * (2 ^ lg * T.lfNum / T.lfDen + 1) := Nat.lt_mul_div_succ _ hden
  have h2 := two_mul_upperHalf (capacity T lg + 1)
  unfold Khalf
  unfold capacity at h2 ⊢
  generalize 2 ^ lg * T.lfNum / T.lfDen = c at *
  generalize upperHalf (c + 1) = K at *
  generalize 2 ^ lg = P at *
  refine Nat.le_of_mul_le_mul_left (c := 2 * T.lfDen) ?_ (by omega)
  have e1 : 2 * T.lfDen * (T.epsDen * P) = (2 * T.lfDen * T.epsDen) * P := by ring
  have e2 : T.epsNum * T.lfNum * P = T.epsNum * (P * T.lfNum) := by ring
  have e3 : 2 * T.lfDen * (T.epsNum * K) = T.epsNum * (T.lfDen * (2 * K)) := by ring
  have s1 : (2 * T.lfDen * T.epsDen) * P ≤ T.epsNum * T.lfNum * P := Nat.mul_le_mul_right P hside
  have s2 : T.epsNum * (P * T.lfNum) ≤ T.epsNum * (T.lfDen * (c + 1)) := Nat.mul_le_mul_left _ (Nat.le_of_lt h1)
  have s3 : T.epsNum * (T.lfDen * (c + 1)) ≤ T.epsNum * (T.lfDen * (2 * K)) :=
    Nat.mul_le_mul_left _ (Nat.mul_le_mul_left _ h2)
  rw [e1, e3]
  rw [e2] at s1
  exact Nat.le_trans s1 (Nat.le_trans s2 s3)

theorem eps_bound (T : Tun) (s : St ι) (h : EpsInv T s) (hden : 0 < T.lfDen)
    (hside : 2 * T.lfDen * T.epsDen ≤ T.epsNum * T.lfNum) :
    s.offset * (T.epsDen * 2 ^ s.lgMax) ≤ T.epsNum * s.total := by
  have h1 := eps_side T s.lgMax hden hside
  have h2 : s.offset * Khalf T s.lgMax ≤ s.total := by have := h.2; omega
  have h3 : s.offset * (T.epsDen * 2 ^ s.lgMax) ≤ s.offset * (T.epsNum * Khalf T s.lgMax) := Nat.mul_le_mul_left _ h1
  have h4 : s.offset * (T.epsNum * Khalf T s.lgMax) = T.epsNum * (s.offset * Khalf T s.lgMax) := by ring
  rw [h4] at h3
  exact Nat.le_trans h3 (Nat.mul_le_mul_left _ h2)

/-! ### reachability with constrained purge amounts -/

/-- like `Reach`, but every purge amount must satisfy `P s x w a` (in the state `s` in which `update x w` uses it) and,
    when `sameLg` is set, a merged operand must not have a smaller `lgMax` than the target.
    No restriction on fully purged operands is needed for the statements proved about it. -/
inductive ReachP (T : Tun) (sameLg : Bool) (P : St ι → ι → Nat → Nat → Prop) : St ι → Prop
  | new (lgMax lgStart : Nat) (h : lgStart ≤ lgMax) : ReachP T sameLg P (init T lgMax lgStart)
  | upd {s} (x : ι) (w a : Nat) (h : ReachP T sameLg P s) (hok : P s x w a) : ReachP T sameLg P (update T s x w a)
  | merge {s o} (ents : List (Ent ι)) (hs : ReachP T sameLg P s) (ho : ReachP T sameLg P o)
      (hp : (entPairs ents).Perm o.map) (hlg : sameLg = true → s.lgMax ≤ o.lgMax) (hok : ReplayP T P s ents) :
      ReachP T sameLg P (merge T s o ents)
  | roundtrip {s} (h : ReachP T sameLg P s) : ReachP T sameLg P (roundtrip T s)

/-- purge amounts at most the median, operands of merges at least as large as the target -/
abbrev ReachMed (T : Tun) : St ι → Prop := ReachP T true (AmtOK T)

theorem replayP_mono (T : Tun) {P Q : St ι → ι → Nat → Nat → Prop} (hpq : ∀ s x w a, P s x w a → Q s x w a)
    (ents : List (Ent ι)) (s : St ι) (h : ReplayP T P s ents) : ReplayP T Q s ents := by
  induction ents generalizing s with
  | nil => trivial
  | cons e t ih => obtain ⟨x, w, a⟩ := e; exact ⟨hpq _ _ _ _ h.1, ih _ h.2⟩

theorem reachP_mono (T : Tun) {b : Bool} {P Q : St ι → ι → Nat → Nat → Prop} (hpq : ∀ s x w a, P s x w a → Q s x w a)
    {s : St ι} (h : ReachP T b P s) : ReachP T b Q s := by
  induction h with
  | new lgMax lgStart hl => exact ReachP.new lgMax lgStart hl
  | upd x w a _ hok ih => exact ReachP.upd x w a ih (hpq _ _ _ _ hok)
  | merge ents _ _ hp hlg hok ih1 ih2 => exact ReachP.merge ents ih1 ih2 hp hlg (replayP_mono T hpq ents _ hok)
  | roundtrip _ ih => exact ReachP.roundtrip ih

theorem reachMed_inv (T : Tun) {s : St ι} (h : ReachMed T s) : EpsInv T s := by
  induction h with
  | new lgMax lgStart _ => exact epsInv_init T lgMax lgStart
  | upd x w a _ hok ih => exact epsInv_update T _ ih x w a hok
  | merge ents _ _ hp hlg hok ih1 ih2 => exact epsInv_merge T _ _ ih1 ih2 ents hp (hlg rfl) hok
  | roundtrip _ ih => exact epsInv_roundtrip T _ ih

end DS.Fi

/- `promote_sparse_to_windowed`, `move_window`, `update_sparse`, `update_windowed`, `row_col_update`
   preserve the invariant (free to change). -/
import DSProofs.Lemmas.CpcInv
namespace DS.Cpc

theorem window_ne_nil_of_map (k : Nat) (f : Nat → Nat) (hk : 0 < k) : (List.range k).map f ≠ [] := by
  intro h
  have := congrArg List.length h
  simp at this; omega

theorem isEmpty_false_of_ne {l : List Nat} (h : l ≠ []) : l.isEmpty = false := by
  cases l <;> simp_all

theorem foldl_or_lt (l : List Nat) (r : Nat) (hl : ∀ rc ∈ l, rc % 64 < 8) (b : Nat) (hb : b < 2^8) :
    l.foldl (fun b rc => if rc / 64 = r then b ||| 2^(rc % 64) else b) b < 2^8 := by
  induction l generalizing b with
  | nil => simpa using hb
  | cons x t ih =>
    simp only [List.foldl_cons]
    apply ih (fun rc h => hl rc (List.mem_cons_of_mem _ h))
    split
    · exact Nat.or_lt_two_pow hb (Nat.pow_lt_pow_right (by decide) (hl x List.mem_cons_self))
    · exact hb

/-! ### promote -/

theorem promote_lgK (s : Sketch) : (promote s).lgK = s.lgK := rfl
theorem promote_numCoupons (s : Sketch) : (promote s).numCoupons = s.numCoupons := rfl
theorem promote_offset (s : Sketch) : (promote s).offset = s.offset := rfl
theorem promote_fic (s : Sketch) : (promote s).fic = s.fic := rfl

theorem promote_window_ne (s : Sketch) : (promote s).window ≠ [] :=
  window_ne_nil_of_map _ _ (Nat.two_pow_pos _)

theorem rep_promote (s : Sketch) (h : Rep s) (ho : s.offset = 0) : Rep (promote s) := by
  refine ⟨?_, ?_, ?_, ?_, ?_, ?_, ?_⟩
  · exact List.Pairwise.filter _ h.sorted
  · intro rc hrc; exact h.tbl_lt rc (List.mem_filter.1 hrc).1
  · show s.offset ≤ 56; omega
  · intro hw; exact absurd hw (promote_window_ne s)
  · intro _; simp [promote]
  · intro b hb
    simp only [promote, List.mem_map, List.mem_range] at hb
    obtain ⟨i, _, rfl⟩ := hb
    exact foldl_or_lt _ i (fun rc hrc => by simpa using (List.mem_filter.1 hrc).2) 0 (by decide)
  · intro _ rc hrc
    have := (List.mem_filter.1 hrc).2
    right; show s.offset + 8 ≤ rc % 64
    simp at this; omega

theorem promote_bit (s : Sketch) (hw : s.window = []) (ho : s.offset = 0) (r c : Nat) (hr : r < 2^s.lgK) (hc : c < 64) :
    (promote s).bit r c = s.bit r c := by
  have hne := isEmpty_false_of_ne (promote_window_ne s)
  simp only [Sketch.bit, hne, promote_offset, ho, hw, List.isEmpty_nil, if_true, Bool.false_eq_true, if_false,
    Nat.not_lt_zero, Nat.zero_add, Nat.sub_zero]
  by_cases h8 : c < 8
  · simp only [h8, if_true]
    show ((List.map (byteOfPairs _) (List.range (2^s.lgK))).getD r 0).testBit c = _
    rw [getD_map_range _ _ _ _ hr]
    unfold byteOfPairs
    rw [testBit_foldl_or _ r c hc]
    simp [List.mem_filter, rc_mod r c hc, h8]
  · simp only [h8, if_false]
    show decide (r * 64 + c ∈ s.table.filter _) = _
    have : 8 ≤ c := by omega
    simp [List.mem_filter, rc_mod r c hc, this]

/-! ### move_window -/

theorem moveWindow_of_gt (T : HipTables) (s : Sketch) (h : s.offset + 1 > 56) : moveWindow T s = s := by
  simp [moveWindow, h]

theorem moveWindow_lgK (T : HipTables) (s : Sketch) : (moveWindow T s).lgK = s.lgK := by
  simp only [moveWindow]; split <;> rfl
theorem moveWindow_numCoupons (T : HipTables) (s : Sketch) : (moveWindow T s).numCoupons = s.numCoupons := by
  simp only [moveWindow]; split <;> rfl

theorem matrix_getD (s : Sketch) (h : Rep s) (r c : Nat) (hr : r < 2^s.lgK) (hc : c < 64) :
    ((buildBitMatrix s).toArray.getD r 0).testBit c = s.bit r c := by
  rw [getD_toArray, buildBitMatrix_getD s r hr, testBit_rowPattern s h r c hc]

section
variable (T : HipTables) (s : Sketch) (hle : s.offset + 1 ≤ 56)
include hle

theorem moveWindow_offset : (moveWindow T s).offset = s.offset + 1 := by
  have : ¬ (s.offset + 1 > 56) := by omega
  simp [moveWindow, this]
theorem moveWindow_window : (moveWindow T s).window = windowOfMatrix (2^s.lgK) (s.offset + 1) (buildBitMatrix s).toArray := by
  have : ¬ (s.offset + 1 > 56) := by omega
  simp [moveWindow, this]
theorem moveWindow_table : (moveWindow T s).table = tableOfMatrix (2^s.lgK) (s.offset + 1) (buildBitMatrix s).toArray := by
  have : ¬ (s.offset + 1 > 56) := by omega
  simp [moveWindow, this]
theorem moveWindow_fic : (moveWindow T s).fic = ficOfMatrix (2^s.lgK) (s.offset + 1) (buildBitMatrix s).toArray := by
  have : ¬ (s.offset + 1 > 56) := by omega
  simp [moveWindow, this]

theorem moveWindow_window_ne : (moveWindow T s).window ≠ [] := by
  rw [moveWindow_window T s hle]; exact window_ne_nil_of_map _ _ (Nat.two_pow_pos _)

theorem rep_moveWindow (_h : Rep s) : Rep (moveWindow T s) := by
  refine ⟨?_, ?_, ?_, ?_, ?_, ?_, ?_⟩
  · rw [moveWindow_table T s hle]; exact sorted_tableOfMatrix _ _ _
  · intro rc hrc
    rw [moveWindow_table T s hle, mem_tableOfMatrix] at hrc
    rw [moveWindow_lgK]; exact hrc.1
  · rw [moveWindow_offset T s hle]; exact hle
  · intro hw; exact absurd hw (moveWindow_window_ne T s hle)
  · intro _; rw [moveWindow_window T s hle, moveWindow_lgK]; simp [windowOfMatrix]
  · rw [moveWindow_window T s hle]; exact windowOfMatrix_byte _ _ _
  · intro _ rc hrc
    rw [moveWindow_table T s hle] at hrc
    rw [moveWindow_offset T s hle]
    exact zone_tableOfMatrix _ _ _ rc hrc

theorem moveWindow_bit (h : Rep s) (r c : Nat) (hr : r < 2^s.lgK) (hc : c < 64) :
    (moveWindow T s).bit r c = s.bit r c := by
  rw [bit_of_matrix (moveWindow T s) (2^s.lgK) (s.offset + 1) (buildBitMatrix s).toArray (Nat.two_pow_pos _)
    (moveWindow_window T s hle) (moveWindow_table T s hle) (moveWindow_offset T s hle) r c hr hc]
  exact matrix_getD s h r c hr hc

theorem moveWindow_ficFull (h : Rep s) (r c : Nat) (hr : r < 2^s.lgK) (hc : c < (moveWindow T s).fic) :
    (moveWindow T s).bit r c = true := by
  rw [moveWindow_fic T s hle] at hc
  have hc64 : c < 64 := by
    have := ficOfMatrix_le (2^s.lgK) (s.offset + 1) (buildBitMatrix s).toArray
    omega
  rw [moveWindow_bit T s hle h r c hr hc64, ← matrix_getD s h r c hr hc64]
  exact ficOfMatrix_full _ _ _ r c hr hc

end

end DS.Cpc

/- Repaired model: invariant preservation, part 1 (new, blk, get_bits_used, copy). -/
import DSProofs.Lemmas.BloomGood
namespace DS.Bloom

variable {ι : Type} [DecidableEq ι] (P : Params) (hf : ι → Nat → Option (Nat × Nat))

omit [DecidableEq ι] in
theorem view_transfer {P : Params} {hf : ι → Nat → Option (Nat × Nat)} {w w' : World} {p p' : PGhost ι} (hg : Good P hf w p)
    (v' : Nat) (f' : Filter) (i' : VInfo ι) (hf' : w.filters v' = some f') (hi' : p.vi v' = some i')
    (hX : keyVal w' (keyOf v' f') = keyVal w (keyOf v' f')) (hs : p'.si (keyOf v' f') = p.si (keyOf v' f')) :
    ViewOK P hf (keyVal w' (keyOf v' f')) (p'.si (keyOf v' f')) f' i' := by
  rw [hX, hs]; exact hg.view v' f' i' hf' hi'

theorem keyOf_ne_own_of_ne {v v' : Nat} (f' : Filter) (h : v' ≠ v) : keyOf v' f' ≠ .own v := by
  unfold keyOf
  cases f'.ref with
  | owned b => intro e; injection e with e; exact h e
  | mem m => intro e; cases e

theorem popCount_zero (off n : Nat) : popCount 0 off n = 0 := popCount_zero_of 0 off n (fun _ _ => by simp)

omit [DecidableEq ι] in
theorem viewOK_fresh_owned (nb nh seed : Nat) (hnh : KOK (mkOwned nb nh seed)) :
    ViewOK P hf 0 (⟨[], 0, false⟩ : SInfo ι) (mkOwned nb nh seed) ⟨[], true, 0⟩ := by
  refine ⟨fun _ => rfl, ?_, fun _ => hnh, ?_, Covers.nil _ _ _ _, ?_, ?_, ?_, ?_, fun _ _ => rfl, ?_⟩
  · intro h; cases h
  · intro x hx; exact absurd hx (by simp)
  · intro h; exact absurd rfl h
  · intro _ _ _; simp [mkOwned, popCount_zero]
  · intro _ _ h; simp [isMem, mkOwned] at h
  · intro h; simp [isMem, mkOwned] at h
  · intro _; exact ⟨Covers.nil _ _ _ _, (fun x hx => by cases hx), fun _ => rfl⟩

omit [DecidableEq ι] in
theorem fwf_mkOwned (nb nh seed : Nat) (hb : badSize P nb nh = false) (hsmall : nb ≤ 2 ^ 32 - 64) (hnh : nh < 2 ^ 16) (hseed : seed < 2 ^ 64) :
    FWF (mkOwned nb nh seed) := by
  simp only [badSize, Bool.or_eq_false_iff, beq_eq_false_iff_ne, decide_eq_false_iff_not] at hb
  refine ⟨?_, ?_, ?_, hnh, hseed⟩ <;> simp only [mkOwned, roundUp64] <;> omega

theorem nh_pos_of_not_bad (nb nh : Nat) (hb : badSize P nb nh = false) : 1 ≤ nh := by
  simp only [badSize, Bool.or_eq_false_iff, beq_eq_false_iff_ne] at hb
  omega

/-- binding a fresh owned filter to `v` -/
theorem good_bind_owned (w : World) (p : PGhost ι) (hg : Good P hf w p) (v : Nat) (f : Filter) (b : Nat) (hr : f.ref = .owned b)
    (s : SInfo ι) (i : VInfo ι) (hfw : FWF f) (hok : ViewOK P hf b s f i) :
    Good P hf (w.setFilter v f) ((p.setS (.own v) s).setV v i) := by
  have hkey : keyOf v f = .own v := by simp [keyOf, hr]
  refine ⟨?_, ?_, ?_, ?_, ?_, ?_, ?_⟩
  · intro v' f' h'
    by_cases e : v' = v
    · subst e; exact ⟨i, by simp⟩
    · simp only [World.setFilter, e, if_false] at h'
      rw [setV_vi_ne _ _ e]; exact hg.tracked v' f' h'
  · intro v' f' h'
    by_cases e : v' = v
    · subst e; simp only [setFilter_filters_same, Option.some.injEq] at h'; rw [← h']; exact hfw
    · simp only [World.setFilter, e, if_false] at h'; exact hg.fwf v' f' h'
  · intro v' f' i' h' hi'
    by_cases e : v' = v
    · subst e
      simp only [setFilter_filters_same, Option.some.injEq] at h'
      simp only [setV_vi_same, Option.some.injEq] at hi'
      subst h' hi'
      rw [hkey, keyVal_setFilter_own, hr]
      simpa using hok
    · simp only [World.setFilter, e, if_false] at h'
      rw [setV_vi_ne _ _ e] at hi'
      have hk := keyOf_ne_own_of_ne f' e
      apply view_transfer hg v' f' i' h' hi'
      · exact keyVal_setFilter_ne_own _ _ _ _ hk
      · simp [setS_si_ne _ _ hk]
  · intro m b' hb' ht
    simp only [setV_si, setS_si_ne _ _ (show Key.mem m ≠ Key.own v by intro e; cases e)] at ht ⊢
    exact hg.blk m b' hb' ht
  · intro m ht
    simp only [setV_si, setS_si_ne _ _ (show Key.mem m ≠ Key.own v by intro e; cases e)] at ht ⊢
    exact hg.taintS m ht
  · intro v' f' m h' hr'
    by_cases e : v' = v
    · subst e; simp only [setFilter_filters_same, Option.some.injEq] at h'; subst h'; rw [hr] at hr'; cases hr'
    · simp only [World.setFilter, e, if_false] at h'; exact hg.memref v' f' m h' hr'
  · intro v' f' i' m b' h' hi' hr' hb' hp hin
    by_cases e : v' = v
    · subst e; simp only [setFilter_filters_same, Option.some.injEq] at h'; subst h'; rw [hr] at hr'; cases hr'
    · simp only [World.setFilter, e, if_false] at h'
      rw [setV_vi_ne _ _ e] at hi'
      simp only [setV_si, setS_si_ne _ _ (show Key.mem m ≠ Key.own v by intro e; cases e)] at hin
      exact hg.memfull v' f' i' m b' h' hi' hr' hb' hp hin

theorem good_new (w : World) (p : PGhost ι) (hg : Good P hf w p) (v nb nh seed : Nat) (hsmall : nb % 2 ^ 64 ≤ 2 ^ 32 - 64) :
    Good P hf (step P Fix.fixed hf w (.new v nb nh seed)).1
      (pstep hf p w (step P Fix.fixed hf w (.new v nb nh seed)).1 (step P Fix.fixed hf w (.new v nb nh seed)).2 (.new v nb nh seed)) := by
  simp only [step, opNew, pstep]
  by_cases hb : badSize P (nb % 2 ^ 64) (nh % 2 ^ 16) = true
  · simp [hb]; exact hg
  · have hb' : badSize P (nb % 2 ^ 64) (nh % 2 ^ 16) = false := by simpa using hb
    simp only [hb', Bool.false_eq_true, if_false, if_true]
    exact good_bind_owned P hf w p hg v _ 0 rfl _ _
      (fwf_mkOwned P _ _ _ hb' hsmall (Nat.mod_lt _ (by decide)) (Nat.mod_lt _ (by decide)))
      (viewOK_fresh_owned P hf _ _ _ ⟨nh_pos_of_not_bad P _ _ hb', by simp only [mkOwned, roundUp64]; omega⟩)

omit [DecidableEq ι] in
/-- for an owned filter only the recorded list of its state matters -/
theorem viewOK_owned_si {X : Nat} {s s' : SInfo ι} {f : Filter} {i : VInfo ι} (hm : isMem f = false) (hS : s'.S = s.S)
    (h : ViewOK P hf X s f i) : ViewOK P hf X s' f i := by
  have hin : ∀ t : SInfo ι, insync t f i = true := by
    intro t; unfold insync; unfold isMem at hm; cases hr : f.ref <;> simp_all
  refine ⟨h.up, ?_, h.k1, h.hs, h.cov, h.ne, ?_, ?_, ?_, ?_, ?_⟩
  · intro _ hm'; rw [hm] at hm'; cases hm'
  · intro hp _ hd; exact h.ex hp (hin s) hd
  · intro _ _ hm'; rw [hm] at hm'; cases hm'
  · intro hm'; rw [hm] at hm'; cases hm'
  · intro hm'; rw [hm] at hm'; cases hm'
  · intro _; rw [hS]; exact h.os hm

theorem good_blk (w : World) (p : PGhost ι) (hg : Good P hf w p) (m len val : Nat) :
    Good P hf (opBlk w m len val).1 (pstep hf p w (opBlk w m len val).1 (opBlk w m len val).2 (.blk m len val)) := by
  cases hb : w.blocks m with
  | some b => simp [opBlk, pstep, hb]; exact hg
  | none =>
    simp only [opBlk, pstep, hb, if_true]
    have hnv : ∀ v' f', w.filters v' = some f' → keyOf v' f' ≠ .mem m := by
      intro v' f' h' e
      unfold keyOf at e
      cases hr : f'.ref with
      | owned b => rw [hr] at e; cases e
      | mem m' =>
        rw [hr] at e; injection e with e; subst e
        obtain ⟨b, hb'⟩ := hg.memref v' f' m' h' hr
        rw [hb] at hb'; cases hb'
    refine ⟨hg.tracked, hg.fwf, ?_, ?_, ?_, ?_, ?_⟩
    · intro v' f' i' h' hi'
      have hk := hnv v' f' h'
      exact view_transfer hg v' f' i' h' hi' (keyVal_setBlock_ne_mem _ _ _ _ hk) (setS_si_ne _ _ hk)
    · intro m' b' hb' ht
      by_cases e : m' = m
      · subst e; simp at ht
      · have hk : Key.mem m' ≠ Key.mem m := by intro h; injection h with h; exact e h
        simp only [World.setBlock, e, if_false] at hb'
        rw [setS_si_ne _ _ hk] at ht ⊢
        exact hg.blk m' b' hb' ht
    · intro m' ht
      by_cases e : m' = m
      · subst e; simp
      · have hk : Key.mem m' ≠ Key.mem m := by intro h; injection h with h; exact e h
        rw [setS_si_ne _ _ hk] at ht ⊢
        exact hg.taintS m' ht
    · intro v' f' m' h' hr'
      obtain ⟨b, hb'⟩ := hg.memref v' f' m' h' hr'
      by_cases e : m' = m
      · subst e; rw [hb] at hb'; cases hb'
      · exact ⟨b, by simp [World.setBlock, e, hb']⟩
    · intro v' f' i' m' b' h' hi' hr' hb' hp hin
      have hk : Key.mem m' ≠ Key.mem m := by
        have := hnv v' f' h'; simpa [keyOf, hr'] using this
      have e : m' ≠ m := fun e => hk (by rw [e])
      simp only [World.setBlock, e, if_false] at hb'
      rw [setS_si_ne _ _ hk] at hin
      exact hg.memfull v' f' i' m' b' h' hi' hr' hb' hp hin

end DS.Bloom

/- C19, KLL sketch part 11: `update`. -/
import DSProofs.Lemmas.LifeKllJ
namespace DS.Life.Kll
open DS.Life

/-- `update` after `update_min_max` -/
def updTail (s : Sketch) (v : Nat) (coins : List Bool) : M (Sketch × List Bool) := do
  let (s, index, coins) ← internalUpdate s coins
  let items ← deref s.items
  construct items index v
  let s ← resetSortedView s
  pure (s, coins)

theorem updTail_spec (P : Params) (hP : P.OK) (n0 : Nat) (s : Sketch) (v : Nat) (coins : List Bool) (ids0 : List Nat)
    (h h1 : Heap) (u : Usable P h s) (hid : h.ids = ids0) (hnx : h.next = n0) (hwf : ∀ x, x ∈ ids0 → x < n0)
    (sb : SameBut h h1 (fun b' _ => b' = s.self))
    (hmm : (∃ w, stAt h1 s.self 0 = .live w) ∧ (∃ w, stAt h1 s.self 1 = .live w)) :
    SafeF (foot (owned s) n0) h1 (updTail s v coins h1)
      (fun r h' => Usable P h' r.1 ∧ Owns h' ids0 (owned s) (owned r.1) n0) := by
  have inv := u.toInv
  obtain ⟨b, hb, _⟩ := u.items
  obtain ⟨lok, _, hblt, hbself, hbview⟩ := inv.items_ok b hb
  have il := u.itemsLive hb
  have hS : ∀ x, x ∈ owned s → foot (owned s) n0 x = true := fun x hx => foot_own hx
  have hSn : ∀ x, n0 ≤ x → foot (owned s) n0 x = true := fun x hx => foot_new hx
  have hbo : b ∈ owned s := mem_owned.2 (Or.inr (Or.inl hb))
  have hnx1 : h1.next = n0 := by rw [sb.next, hnx]
  have sob : SameOn h h1 b := sb.sameOn (fun j e => hbself e)
  have hm2 : 2 ≤ s.m := by rw [inv.m_eq]; exact hP.1
  unfold updTail
  apply SafeF.bind' (internalUpdate_spec (S := foot (owned s) n0) s coins h1 (hS _ hbo)
    (fun x hx => hSn x (by omega)) ⟨hb, lok, il.transfer sob⟩ hm2 (by omega)
    (fun x hx => by rw [sb.ids, hid] at hx; rw [hnx1]; exact hwf x hx))
  intro r h2 ⟨b1, hb1, lok1, e0, il2, hidx, re, sm, hn1, hSb1, hw1, hg1⟩ _
  obtain ⟨s1, index, c1⟩ := r
  simp only at hb1 lok1 e0 il2 hidx sm hn1 hw1 hg1 ⊢
  apply step_deref_eq hb1
  apply vstep_construct v il2.cells hidx (il2.raw index (by omega)) hSb1
  intro h3 sb3 _ hst3
  have hb1b : b1 = b ∨ n0 ≤ b1 := by
    rcases re.fresh with e | e
    · exact Or.inl e
    · right; omega
  have hself_lt : s.self < n0 := by rw [← hnx]; exact inv.self_lt
  have hselfb1 : s.self ≠ b1 := by
    rcases hb1b with e | e
    · rw [e]; exact fun x => hbself x.symm
    · omega
  have hviewf : ∀ w, s.view = some w → w < n0 ∧ w ≠ b ∧ w ≠ b1 ∧ w ≠ s.self := fun w hw => by
    obtain ⟨_, _, c, d⟩ := inv.view_ok w hw
    have hwb : w ≠ b := fun e => hbview (e ▸ hw)
    refine ⟨by omega, hwb, ?_, d⟩
    rcases hb1b with e | e
    · rw [e]; exact hwb
    · omega
  -- blocks other than the items blocks, from `h` to `h3`
  have oth3 : ∀ x, x < n0 → x ≠ b → x ≠ b1 → x ≠ s.self → SameOn h h3 x := fun x h1' h2' h3' h4' =>
    ((sb.sameOn (fun j e => h4' e)).trans (re.others x (by omega) h2')).trans (sb3.sameOn (fun j e => h3' e.1))
  have self3 : SameOn h1 h3 s.self :=
    (re.others _ (by omega) (fun e => hbself e.symm)).trans (sb3.sameOn (fun j e => hselfb1 e.1))
  apply vstep_resetSortedView (s := s1)
  · intro w hw
    rw [sm.view] at hw
    obtain ⟨x1, x2, x3, x4⟩ := hviewf w hw
    have sw := oth3 w x1 x2 x3 x4
    exact ⟨sw.cells _ (inv.view_ok w hw).1, by rw [sw.st]; exact (inv.view_ok w hw).2.1,
      hS _ (mem_owned.2 (Or.inr (Or.inr hw)))⟩
  intro h4 so4 hid4 hnx4
  apply SafeF.pure
  simp only
  have hv1 : ∀ x, s1.view ≠ some x ↔ s.view ≠ some x := fun x => by rw [sm.view]
  have self4 : SameOn h1 h4 s.self := self3.trans (so4 _ (fun e => by rw [sm.view] at e; exact (hviewf _ e).2.2.2 rfl))
  have b14 : SameOn h3 h4 b1 := so4 _ (fun e => by rw [sm.view] at e; exact (hviewf _ e).2.2.1 rfl)
  have hnx4' : n0 ≤ h4.next := by rw [hnx4, sb3.next]; have := re.next; omega
  have hb1lt : b1 < h4.next := by
    rw [hnx4, sb3.next]
    rcases re.fresh with e | e
    · have := re.next; omega
    · exact e.2
  refine ⟨?_, ?_⟩
  · apply Usable.build (s := { s1 with view := none }) (b := b1)
    · simp only; rw [sm.m]; exact inv.m_eq
    · simp only; rw [sm.self]; exact self4.cells _ (sb.cells _ _ inv.self_cells)
    · simp only; rw [sm.self]; omega
    · intro w hw; cases hw
    · exact hb1
    · exact lok1
    · simp only
      rw [e0]
      refine ⟨b14.cells _ (sb3.cells _ _ il2.cells), fun i hi => ?_, fun i h1' h2' => ?_⟩
      · rw [b14.st, sb3.st _ _ (fun e => by omega)]; exact il2.raw i (by omega)
      · rw [b14.st]
        by_cases e : i = index
        · subst e; exact ⟨v, hst3⟩
        · rw [sb3.st _ _ (fun x => e x.2)]; exact il2.live i (by omega) h2'
    · exact hb1lt
    · simp only; rw [sm.self]; exact fun e => hselfb1 e.symm
    · simp
    · intro e; simp only at e; omega
    · intro _
      simp only; rw [sm.self, self4.st, self4.st]; exact hmm
    · intro _
      simp only; rw [e0]; exact hidx
    · have := u.wt
      unfold W at hw1
      simp only; omega
    · have hwt := u.wt
      have hpw := u.pw
      unfold LevelGrowth W at hg1
      simp only
      rcases hg1 with e | ⟨e, hge⟩
      · rw [e]
        rcases hpw with e' | e'
        · exact Or.inl e'
        · right; omega
      · right
        rw [e, Nat.add_sub_cancel]
        omega
  · refine Owns.of_delta (fun x => (x = b ∧ b1 ≠ b) ∨ s.view = some x) (fun x => x = b1 ∧ b1 ≠ b) (fun x => ?_)
      (fun x hx => hid ▸ (inv.owned_ids x hx).1) (fun x d => ?_) (fun x a => ?_) (fun x => ?_)
    · rw [hid4, sb3.ids]
      simp only [List.mem_filter, bne_iff_ne, ne_eq]
      rw [sm.view]
      have hbi : b ∈ ids0 := hid ▸ (inv.owned_ids b hbo).1
      by_cases hxb : x = b
      · subst hxb
        rw [re.self]
        constructor
        · rintro ⟨e, hv⟩; exact Or.inl ⟨hbi, fun d => by rcases d with d | d; exact d.2 e; exact hv d⟩
        · rintro (⟨_, d⟩ | ⟨e, d⟩)
          · exact ⟨Classical.byContradiction (fun e => d (Or.inl ⟨rfl, e⟩)), fun e => d (Or.inr e)⟩
          · exact absurd e.symm d
      · by_cases hxn : x < n0
        · rw [re.old x (by omega) hxb, sb.ids, hid]
          constructor
          · rintro ⟨e, hv⟩; exact Or.inl ⟨e, fun d => by rcases d with d | d; exact hxb d.1; exact hv d⟩
          · rintro (⟨e, d⟩ | ⟨e, d⟩)
            · exact ⟨e, fun e' => d (Or.inr e')⟩
            · rcases hb1b with e' | e'
              · exact absurd e' d
              · omega
        · rw [re.new x (by omega)]
          constructor
          · rintro ⟨e, _⟩
            refine Or.inr ⟨e, fun e' => ?_⟩
            omega
          · rintro (⟨e, _⟩ | ⟨e, _⟩)
            · have := hwf x e; omega
            · exact ⟨e, fun e' => by have := (hviewf x e').1; omega⟩
    · rcases d with d | d
      · rw [d.1]; exact hbo
      · exact mem_owned.2 (Or.inr (Or.inr d))
    · rcases hb1b with e | e
      · exact absurd e a.2
      · rw [a.1]; exact e
    · simp only [mem_owned, reduceCtorEq, or_false]
      rw [sm.self, hb1]
      simp only [Option.some.injEq]
      constructor
      · rintro (e | e)
        · refine Or.inl ⟨Or.inl e, fun d => ?_⟩
          rcases d with d | d
          · rw [e] at d; exact hbself d.1.symm
          · rw [e] at d; exact (hviewf _ d).2.2.2 rfl
        · by_cases hbb : b1 = b
          · refine Or.inl ⟨Or.inr (Or.inl (by rw [← e, hbb]; exact hb)), fun d => ?_⟩
            rcases d with d | d
            · exact d.2 hbb
            · rw [← e] at d; exact (hviewf _ d).2.2.1 rfl
          · exact Or.inr ⟨e.symm, hbb⟩
      · rintro (⟨e | e | e, d⟩ | ⟨e, _⟩)
        · exact Or.inl e
        · rw [hb] at e
          simp only [Option.some.injEq] at e
          subst e
          right
          exact Classical.byContradiction (fun hne => d (Or.inl ⟨rfl, fun e' => hne e'⟩))
        · exact absurd e (fun e' => d (Or.inr e'))
        · exact Or.inr e.symm


theorem update_contract (P : Params) (hP : P.OK) (n0 : Nat) (s : Sketch) (v : Nat) (coins : List Bool) (ids0 : List Nat) :
    TripleS n0 (foot (owned s) n0)
      (fun h => Usable P h s ∧ h.ids = ids0 ∧ h.next = n0 ∧ (∀ x, x ∈ ids0 → x < n0)) (update s v coins)
      (fun r h' => Usable P h' r.1 ∧ Owns h' ids0 (owned s) (owned r.1) n0) := by
  intro h hn ⟨u, hid, hnx, hwf⟩
  have inv := u.toInv
  have hSs : foot (owned s) n0 s.self = true := foot_own (mem_owned.2 (Or.inl rfl))
  have tail := fun h1 sb hmm => updTail_spec P hP n0 s v coins ids0 h h1 u hid hnx hwf sb hmm
  unfold update
  by_cases hn0 : s.n = 0
  · rw [if_pos hn0]
    obtain ⟨r0, r1⟩ := u.mm0 hn0
    apply vstep_construct v inv.self_cells (by omega : 0 < 2) r0 hSs
    intro h1 sb1 _ hs1
    apply vstep_construct v (sb1.cells _ _ inv.self_cells) (by omega : 1 < 2)
      (by rw [sb1.st _ _ (fun x => by omega)]; exact r1) hSs
    intro h2 sb2 _ hs2
    exact tail h2 (sb1.trans sb2 (fun _ _ x => x.1) (fun _ _ x => x.1))
      ⟨⟨v, by rw [sb2.st _ _ (fun x => by omega)]; exact hs1⟩, ⟨v, hs2⟩⟩
  · rw [if_neg hn0]
    obtain ⟨⟨v0, hv0⟩, ⟨v1, hv1⟩⟩ := u.mm1 hn0
    apply vstep_read inv.self_cells (by omega : 0 < 2) hv0
    -- after the minimum was updated
    have jp : ∀ h1, SameBut h h1 (fun b' j => b' = s.self ∧ j = 0) → (∃ w, stAt h1 s.self 0 = .live w) →
        SafeF (foot (owned s) n0) h1 ((do
          let mx ← read s.self 1
          if mx < v then do
            let __r ← assign s.self 1 v
            updTail s v coins
          else updTail s v coins) h1)
          (fun r h' => Usable P h' r.1 ∧ Owns h' ids0 (owned s) (owned r.1) n0) := by
      intro h1 sb1 hl0
      have hv1' : stAt h1 s.self 1 = .live v1 := by rw [sb1.st _ _ (fun x => by omega)]; exact hv1
      apply vstep_read (sb1.cells _ _ inv.self_cells) (by omega : 1 < 2) hv1'
      by_cases hc : v1 < v
      · rw [if_pos hc]
        apply vstep_assign v (sb1.cells _ _ inv.self_cells) (by omega : 1 < 2) (by rw [hv1']; simp) hSs
        intro h2 sb2 _ hs2
        obtain ⟨w, hw⟩ := hl0
        exact tail h2 (sb1.trans sb2 (fun _ _ x => x.1) (fun _ _ x => x.1))
          ⟨⟨w, by rw [sb2.st _ _ (fun x => by omega)]; exact hw⟩, ⟨v, hs2⟩⟩
      · rw [if_neg hc]
        exact tail h1 (sb1.mono (fun _ _ x => x.1)) ⟨hl0, ⟨v1, hv1'⟩⟩
    by_cases hc : v < v0
    · rw [if_pos hc]
      apply vstep_assign v inv.self_cells (by omega : 0 < 2) (by rw [hv0]; simp) hSs
      intro h1 sb1 _ hs1
      exact jp h1 sb1 ⟨v, hs1⟩
    · rw [if_neg hc]
      exact jp h (SameBut.refl _ _) ⟨v0, hv0⟩

end DS.Life.Kll

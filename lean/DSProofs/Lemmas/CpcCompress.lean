/- compress / uncompress round trips of the window, the pair array and the four flavors (free to change). -/
import DSProofs.Lemmas.CpcCode
import DSProofs.Lemmas.CpcSort
namespace DS.Cpc

/-- what the compression tables must satisfy (checked on the generated tables by `decide +kernel`, Lemmas/CpcTablesOK.lean) -/
structure TablesOK (C : CompTables) : Prop where
  enc : ∀ p, p < 22 → CodeOK (C.encTab p) 256
  unary : CodeOK C.unary65 65
  perm_lt : ∀ p c, p < 16 → c < 56 → C.perm p c < 56
  perm_inv : ∀ p c, p < 16 → c < 56 → invPerm (C.perm p) (C.perm p c) = c

theorem pseudoPhase_lt (lgK c : Nat) : pseudoPhase lgK c < 22 := by
  unfold pseudoPhase
  simp only
  split
  · repeat' split
    all_goals omega
  · have := Nat.mod_lt (c / 2^(lgK - 4)) (show 0 < 16 by decide); omega

theorem pseudoPhase_sliding (lgK c : Nat) (h : ¬ 8 * c < 27 * 2^lgK) : pseudoPhase lgK c < 16 := by
  unfold pseudoPhase
  simp only
  have hk := Nat.two_pow_pos lgK
  have : ¬ 1000 * c < 2375 * 2^lgK := by omega
  rw [if_neg this]
  exact Nat.mod_lt _ (by decide)

theorem window_roundtrip (C : CompTables) (h : TablesOK C) (lgK c : Nat) (w : List Nat) (hl : w.length = 2^lgK)
    (hb : ∀ b ∈ w, b < 256) : uncompressWindow C lgK c (compressWindow C lgK c w) = w := by
  unfold uncompressWindow compressWindow
  simp only
  obtain ⟨z, hz⟩ := unpackWords_packWords (encBytes (C.encTab (pseudoPhase lgK c)) w ++ List.replicate 11 false)
  rw [hz, List.append_assoc, ← hl]
  exact decBytes_encBytes _ _ (h.enc _ (pseudoPhase_lt lgK c)) (fun x hx => decTable_getD _ _ x hx) w hb _

theorem pairs_roundtrip (C : CompTables) (h : TablesOK C) (lgK : Nat) (pairs : List Nat) (hp : PairsOK 0 0 pairs) :
    uncompressPairs C lgK pairs.length (compressPairs C lgK pairs) = pairs := by
  unfold uncompressPairs compressPairs
  simp only
  obtain ⟨z, hz⟩ := unpackWords_packWords
    (encPairs C.unary65 (golombBaseBits (2^lgK) pairs.length) 0 0 pairs ++ List.replicate (10 - golombBaseBits (2^lgK) pairs.length) false)
  rw [hz, List.append_assoc]
  exact decPairs_encPairs _ _ _ h.unary (fun x hx => decTable_getD _ _ x hx) pairs 0 0 hp _

theorem pairsOK_sorted (l : List Nat) (hs : l.Pairwise (· < ·)) : PairsOK 0 0 l :=
  pairsOK_of_sorted l hs 0 0 (fun _ _ => by omega)

/-! ### HYBRID: pairs of the window -/

theorem mem_pairsOfWindow (w : List Nat) (rc : Nat) :
    rc ∈ pairsOfWindow w ↔ rc < 64 * w.length ∧ rc % 64 < 8 ∧ (w.getD (rc / 64) 0).testBit (rc % 64) = true := by
  unfold pairsOfWindow
  simp only [List.mem_filter, List.mem_range, Bool.and_eq_true, decide_eq_true_eq, getD_toArray]

theorem sorted_pairsOfWindow (w : List Nat) : (pairsOfWindow w).Pairwise (· < ·) :=
  List.Pairwise.filter _ List.pairwise_lt_range

theorem byteOfPairs_lt (l : List Nat) (r : Nat) (hl : ∀ rc ∈ l, rc % 64 < 8) : byteOfPairs l r < 2^8 :=
  foldl_or_lt l r hl 0 (by decide)

/-- rebuilding the window bytes from the pairs with column < 8 -/
theorem window_of_pairs (K : Nat) (w : List Nat) (hl : w.length = K) (hb : ∀ b ∈ w, b < 256) (low : List Nat)
    (hlow : ∀ rc, rc ∈ low ↔ rc ∈ pairsOfWindow w) : (List.range K).map (byteOfPairs low) = w := by
  apply List.ext_getElem
  · simp [hl]
  · intro r h1 h2
    simp only [List.getElem_map, List.getElem_range]
    have hr : r < K := by simpa using h1
    have hcol : ∀ rc ∈ low, rc % 64 < 8 := fun rc hrc => ((mem_pairsOfWindow w rc).1 ((hlow rc).1 hrc)).2.1
    have hwr : w.getD r 0 = w[r] := by simp [List.getD_eq_getElem?_getD, List.getElem?_eq_getElem h2]
    have hwlt : w[r] < 2^8 := hb _ (List.getElem_mem h2)
    apply Nat.eq_of_testBit_eq
    intro c
    by_cases hc : c < 8
    · unfold byteOfPairs
      rw [testBit_foldl_or _ r c (by omega)]
      simp only [Nat.zero_testBit, Bool.false_or]
      rw [Bool.eq_iff_iff, decide_eq_true_eq, hlow, mem_pairsOfWindow, rc_div r c (by omega), rc_mod r c (by omega), hwr]
      constructor
      · exact fun h => h.2.2
      · intro h; exact ⟨by rw [hl]; omega, hc, h⟩
    · rw [Nat.testBit_lt_two_pow (Nat.lt_of_lt_of_le (byteOfPairs_lt low r hcol) (Nat.pow_le_pow_right (by decide) (by omega))),
        Nat.testBit_lt_two_pow (Nat.lt_of_lt_of_le hwlt (Nat.pow_le_pow_right (by decide) (by omega)))]

end DS.Cpc

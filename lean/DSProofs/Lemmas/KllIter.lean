/- The const_iterator of the KLL model, exactly as coded: right when level 0 is non-empty, weight 1 throughout otherwise. -/
import DSProofs.Lemmas.KllBasic
namespace DS.Kll
open DS

variable {α : Type}

/-- what a correct iteration yields: level by level, weight doubling -/
def weightedW : Nat → List (List α) → List (α × Nat)
  | _, [] => []
  | w, l :: t => l.map (fun x => (x, w)) ++ weightedW (2 * w) t

theorem weightSum_succ : ∀ (h : Nat) (L : List (List α)), weightSum (h + 1) L = 2 * weightSum h L
  | _, [] => rfl
  | h, l :: t => by
    simp only [weightSum, weightSum_succ (h + 1) t, Nat.pow_succ, Nat.mul_add]
    rw [Nat.mul_comm (2 ^ h) 2, Nat.mul_assoc]

theorem weightedW_sum : ∀ (w : Nat) (L : List (List α)), ((weightedW w L).map Prod.snd).sum = w * weightSum 0 L
  | _, [] => by simp [weightedW, weightSum]
  | w, l :: t => by
    simp only [weightedW, List.map_append, List.map_map, List.sum_append, weightedW_sum (2 * w) t, weightSum,
      Nat.pow_zero, Nat.one_mul, weightSum_succ 0 t, Nat.mul_add]
    have : (List.map (Prod.snd ∘ fun x => (x, w)) l).sum = w * l.length := by
      induction l with
      | nil => simp
      | cons a b ih => simp only [List.map_cons, Function.comp, List.sum_cons, List.length_cons, Nat.mul_add, Nat.mul_one] at ih ⊢; omega
    rw [this]; congr 1; rw [Nat.mul_comm 2 w, Nat.mul_assoc]

theorem weightedW_length : ∀ (w : Nat) (L : List (List α)), (weightedW w L).length = sizeSum L
  | _, [] => rfl
  | w, l :: t => by simp only [weightedW, List.length_append, List.length_map, weightedW_length (2 * w) t, sizeSum]

/-- once `index` has passed `levels[level + 1]` the level is never advanced again (the defect D2) -/
theorem iterGo_stuck : ∀ (rem : List α) (index e : Nat) (hs : List Nat) (w : Nat), e ≤ index →
    iterGo rem index e hs w = rem.map (fun x => (x, w))
  | [], _, _, _, _, _ => rfl
  | x :: rem, index, e, hs, w, h => by
    have hne : (index + 1 == e) = false := by simp; omega
    simp only [iterGo, hne, Bool.false_eq_true, if_false, List.map_cons, iterGo_stuck rem (index + 1) e hs w (by omega)]

theorem iterGo_correct : ∀ (rest : List (List α)),
    (∀ (cur : List α) (index w : Nat), cur ≠ [] →
      iterGo (cur ++ rest.flatten) index (index + cur.length) (rest.map List.length) w
        = cur.map (fun x => (x, w)) ++ weightedW (2 * w) rest) ∧
    (∀ (e w : Nat),
      iterGo rest.flatten e (iterAdvance (rest.map List.length) w e).2.2 (iterAdvance (rest.map List.length) w e).1
        (iterAdvance (rest.map List.length) w e).2.1 = weightedW (2 * w) rest)
  | [] => by
    have hadv : ∀ e w : Nat, iterGo ([] : List (List α)).flatten e (iterAdvance (([] : List (List α)).map List.length) w e).2.2
        (iterAdvance (([] : List (List α)).map List.length) w e).1 (iterAdvance (([] : List (List α)).map List.length) w e).2.1
        = weightedW (2 * w) ([] : List (List α)) := by
      intro e w; simp [iterGo, weightedW]
    refine ⟨?_, hadv⟩
    intro cur
    induction cur with
    | nil => intro _ _ h; exact absurd rfl h
    | cons x cur' ih =>
      intro index w _
      simp only [List.flatten_nil, List.append_nil, List.map_nil, List.length_cons, iterGo, List.map_cons, weightedW]
      by_cases hc : cur' = []
      · subst hc
        simp [iterGo]
      · have hne : (index + 1 == index + (cur'.length + 1)) = false := by
          have := List.length_pos_iff.mpr hc; simp; omega
        simp only [hne, Bool.false_eq_true, if_false]
        have := ih (index + 1) w hc
        simp only [List.flatten_nil, List.append_nil, List.map_nil, weightedW] at this
        rw [show index + (cur'.length + 1) = index + 1 + cur'.length by omega, this]
  | r :: rs => by
    obtain ⟨ihm, iha⟩ := iterGo_correct rs
    have hadv : ∀ e w : Nat, iterGo (r :: rs).flatten e (iterAdvance ((r :: rs).map List.length) w e).2.2
        (iterAdvance ((r :: rs).map List.length) w e).1 (iterAdvance ((r :: rs).map List.length) w e).2.1
        = weightedW (2 * w) (r :: rs) := by
      intro e w
      by_cases hr : r = []
      · subst hr
        simp only [List.map_cons, List.length_nil, iterAdvance, BEq.rfl, if_true, List.flatten_cons, List.nil_append,
          weightedW, List.map_nil]
        exact iha e (2 * w)
      · have hlen : (r.length == 0) = false := by
          have := List.length_pos_iff.mpr hr; simp; omega
        simp only [List.map_cons, iterAdvance, hlen, Bool.false_eq_true, if_false, List.flatten_cons, weightedW]
        exact ihm r e (2 * w) hr
    refine ⟨?_, hadv⟩
    intro cur
    induction cur with
    | nil => intro _ _ h; exact absurd rfl h
    | cons x cur' ih =>
      intro index w _
      simp only [List.cons_append, List.length_cons, iterGo]
      by_cases hc : cur' = []
      · subst hc
        simp only [List.length_nil, Nat.zero_add, BEq.rfl, if_true, List.nil_append, List.map_nil, List.map_cons]
        have := hadv (index + 1) w
        simp only [List.map_cons] at this
        rw [this]; rfl
      · have hne : (index + 1 == index + (cur'.length + 1)) = false := by
          have := List.length_pos_iff.mpr hc; simp; omega
        simp only [hne, Bool.false_eq_true, if_false]
        have := ih (index + 1) w hc
        rw [show index + (cur'.length + 1) = index + 1 + cur'.length by omega, this]
        simp only [List.map_cons, List.cons_append]

/-- the iterator as coded is right whenever level 0 is non-empty -/
theorem iter_of_level0_ne (s : Sketch α) (h : s.levels.headD [] ≠ []) : s.iter = weightedW 1 s.levels := by
  cases hs : s.levels with
  | nil => rw [hs] at h; exact absurd rfl h
  | cons l0 t =>
    rw [hs] at h
    simp only [List.headD_cons] at h
    have := (iterGo_correct t).1 l0 0 1 h
    simp only [Sketch.iter, hs, List.flatten_cons, List.headD_cons, List.tail_cons, Nat.zero_add, weightedW] at this ⊢
    exact this

/-- with an empty level 0 every retained item is reported with weight 1 -/
theorem iter_of_level0_empty (s : Sketch α) (h : s.levels.headD [] = []) : s.iter = s.levels.flatten.map (fun x => (x, 1)) := by
  simp only [Sketch.iter, h, List.length_nil]
  exact iterGo_stuck _ 0 0 _ 1 (Nat.le_refl _)

theorem flatten_length_eq_sizeSum : ∀ L : List (List α), L.flatten.length = sizeSum L
  | [] => rfl
  | l :: t => by simp only [List.flatten_cons, List.length_append, flatten_length_eq_sizeSum t, sizeSum]

/-- the iterator always yields exactly `num_retained` pairs -/
theorem iter_length (s : Sketch α) : s.iter.length = s.retained := by
  by_cases h : s.levels.headD [] = []
  · rw [iter_of_level0_empty s h, List.length_map, flatten_length_eq_sizeSum]; rfl
  · rw [iter_of_level0_ne s h, weightedW_length]; rfl

/-! ### the repaired constructor (skips empty levels) -/

theorem iterF_pinned (fl : Flags) (h : fl.iterSkipsEmpty = false) (s : Sketch α) : s.iterF fl = s.iter := by
  simp [Sketch.iterF, h]

theorem iterGo_skip : ∀ (L : List (List α)) (idx w : Nat),
    iterGo L.flatten idx (idx + (iterSkip (L.map List.length) w).1.headD 0) (iterSkip (L.map List.length) w).1.tail
      (iterSkip (L.map List.length) w).2 = weightedW w L
  | [], idx, w => by simp [iterSkip, iterGo, weightedW]
  | l :: t, idx, w => by
    by_cases hl : l = []
    · subst hl
      simp only [List.map_cons, List.length_nil, iterSkip, BEq.rfl, if_true, List.flatten_cons, List.nil_append, weightedW,
        List.map_nil]
      exact iterGo_skip t idx (2 * w)
    · have hlen : (l.length == 0) = false := by
        have := List.length_pos_iff.mpr hl; simp; omega
      simp only [List.map_cons, iterSkip, hlen, Bool.false_eq_true, if_false, List.headD_cons, List.tail_cons, List.flatten_cons,
        weightedW]
      exact (iterGo_correct t).1 l idx w hl

/-- the repaired iterator is right for EVERY sketch: level by level, weight doubling -/
theorem iterF_repaired (fl : Flags) (h : fl.iterSkipsEmpty = true) (s : Sketch α) : s.iterF fl = weightedW 1 s.levels := by
  have := iterGo_skip s.levels 0 1
  simp only [Nat.zero_add] at this
  simp only [Sketch.iterF, h, if_true]
  exact this

end DS.Kll

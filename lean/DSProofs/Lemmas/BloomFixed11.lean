/- Repaired model: reset preserves the invariant; lookups of the `destructive` ghost step. -/
import DSProofs.Lemmas.BloomFixed10
namespace DS.Bloom

variable {ι : Type} [DecidableEq ι] (P : Params) (hf : ι → Nat → Option (Nat × Nat))

omit [DecidableEq ι] in
theorem destructive_si_same (p : PGhost ι) (w : World) (k : Key) (l : List ι) : (p.destructive w k l).si k = { p.si k with S := l } := by
  simp [PGhost.destructive]

omit [DecidableEq ι] in
theorem destructive_si_ne (p : PGhost ι) (w : World) {k k' : Key} (l : List ι) (h : k' ≠ k) : (p.destructive w k l).si k' = p.si k' := by
  simp [PGhost.destructive, setS_si_ne _ _ h]

omit [DecidableEq ι] in
theorem destructive_vi_same (p : PGhost ι) (w : World) (k : Key) (l : List ι) (u : Nat) (fu : Filter) (iu : VInfo ι)
    (hfu : w.filters u = some fu) (hiu : p.vi u = some iu) (hk : keyOf u fu = k) :
    (p.destructive w k l).vi u = some { iu with M := [] } := by
  unfold PGhost.destructive
  rw [mapViewsOf_vi _ _ _ _ u fu iu hfu (by simpa using hiu)]
  simp [hk]

omit [DecidableEq ι] in
theorem destructive_vi_ne (p : PGhost ι) (w : World) (k : Key) (l : List ι) (u : Nat) (fu : Filter)
    (hfu : w.filters u = some fu) (hk : keyOf u fu ≠ k) : (p.destructive w k l).vi u = p.vi u := by
  unfold PGhost.destructive
  cases hiu : p.vi u with
  | none => simp [PGhost.mapViewsOf, hiu]
  | some iu =>
    rw [mapViewsOf_vi _ _ _ _ u fu iu hfu (by simpa using hiu)]
    simp [hk]

omit [DecidableEq ι] in
/-- for an owned key the only view of the state is its owner -/
theorem destructive_vi_own_ne (p : PGhost ι) (w : World) (v : Nat) (l : List ι) (u : Nat) (hu : u ≠ v) :
    (p.destructive w (.own v) l).vi u = p.vi u := by
  unfold PGhost.destructive
  simp only [PGhost.mapViewsOf, setS_vi]
  cases hiu : p.vi u with
  | none => rfl
  | some iu =>
    cases hfu : w.filters u with
    | none => rfl
    | some fu =>
      have : keyOf u fu ≠ .own v := keyOf_ne_own_of_ne fu hu
      simp [this]

omit [DecidableEq ι] in
theorem popCount_cleared (X off cap : Nat) : popCount (setField X off cap 0) off cap = 0 :=
  popCount_zero_of _ _ _ (fun j hj => by rw [testBit_setField_in _ _ _ _ _ hj]; simp)

theorem good_reset (hP : P.Wire) (w : World) (p : PGhost ι) (hg : Good P hf w p) (v : Nat) :
    Good P hf (opReset P w v).1 (pstep hf p w (opReset P w v).1 (opReset P w v).2 (.reset v)) := by
  cases hv : w.filters v with
  | none => simp only [opReset, pstep, hv]; exact hg
  | some f =>
    obtain ⟨i, hi⟩ := hg.tracked v f hv
    have hok := hg.view v f i hv hi
    by_cases hro : f.readOnly = true
    · simp [opReset, pstep, hv, hi, hro]; exact hg
    · have hro' : f.readOnly = false := by simpa using hro
      simp only [opReset, pstep, hv, hi, hro', Bool.false_eq_true, if_false, if_true]
      cases hr : f.ref with
      | owned b =>
        have hm : isMem f = false := by simp [isMem, hr]
        have hkey : keyOf v f = .own v := by simp [keyOf, hr]
        have hoff : f.off P = 0 := by simp [Filter.off, hr]
        rw [write_own p w v f i b hr, hkey, hoff]
        apply good_write_own P hf w p _ hg v f i b hv hi hr _ 0 false (some 0) { p.si (.own v) with S := [] } []
        · exact destructive_si_same p w _ _
        · intro k hk; exact destructive_si_ne p w _ hk
        · exact destructive_vi_same p w _ _ v f i hv hi hkey
        · intro u hu; exact destructive_vi_own_ne p w v _ u hu
        · intro _; exact ⟨rfl, rfl⟩
        · intro y hy; cases hy
        · exact Covers.nil _ _ _ _
        · intro y hy; cases hy
        · exact Covers.nil _ _ _ _
        · intro h; exact absurd rfl h
        · intro _ _; exact (popCount_cleared _ 0 _).symm
      | mem m =>
        have hm : isMem f = true := by simp [isMem, hr]
        have hkey : keyOf v f = .mem m := by simp [keyOf, hr]
        have hoff : f.off P = 256 := off_mem P hP.layout hm
        have hX : w.val f = w.blockVal m := by simp [World.val, hr]
        have hXk : keyVal w (keyOf v f) = w.blockVal m := by rw [← val_eq_keyVal w v f hv, hX]
        rw [hXk, hkey] at hok
        rw [hkey, hoff, hX]
        by_cases ht : (p.si (.mem m)).tainted = true
        · rw [write_tainted p w v f i m hr ht]
          apply good_write_mem_taint P hf w p _ hg v f m hv hr _ 0 false (some 0) { p.si (.mem m) with S := [] }
            (destructive_si_same p w _ _) (fun k hk => destructive_si_ne p w _ hk) ht rfl (Nat.le_refl _)
          · intro u fu iu hfu hiu hk
            exact ⟨_, destructive_vi_same p w _ _ u fu iu hfu hiu hk, rfl, rfl, rfl⟩
          · intro u fu hfu hk; exact destructive_vi_ne p w _ _ u fu hfu hk
        · have ht' : (p.si (.mem m)).tainted = false := by simpa using ht
          by_cases hs : (i.sync != (p.si (.mem m)).ver || f.readOnly) = true
          · rw [write_stale p w v f i m hr ht' hs]
            apply good_write_mem_taint P hf w p _ hg v f m hv hr _ 0 false (some 0) ⟨[], (p.si (.mem m)).ver, true⟩
            · rw [destructive_si_same, taint_si_same]
            · intro k hk; rw [destructive_si_ne _ _ _ hk, taint_si_ne _ _ hk]
            · rfl
            · rfl
            · exact Nat.le_refl _
            · intro u fu iu hfu hiu hk
              exact ⟨_, destructive_vi_same _ w _ _ u fu _ hfu (taint_vi_same p w _ u fu iu hfu hiu hk) hk, rfl, rfl, rfl⟩
            · intro u fu hfu hk
              rw [destructive_vi_ne _ w _ _ u fu hfu hk, taint_vi_ne p w _ u fu hfu hk]
          · have hs' : (i.sync != (p.si (.mem m)).ver || f.readOnly) = false := by simpa using hs
            have hsync : i.sync = (p.si (.mem m)).ver := by
              simp only [Bool.or_eq_false_iff, bne_eq_false_iff_eq] at hs'; exact hs'.1
            have hp : i.promised = true := by
              cases hpp : i.promised with
              | true => rfl
              | false => have := hok.us hpp hm ht'; omega
            rw [write_ok p w v f i m hr ht' hs']
            apply good_write_mem_ok P hf hP.layout w p _ hg v f i m hv hi hr hro' hp ht' hsync _ 0 false (some 0)
              ⟨[], (p.si (.mem m)).ver + 1, false⟩ []
            · intro j hj; exact testBit_setField_out _ _ _ _ _ (Or.inl hj)
            · rw [destructive_si_same]; simp [ht']
            · intro k hk; rw [destructive_si_ne _ _ _ hk]; simp [setS_si_ne _ _ hk]
            · simp [hsync]
            · rfl
            · rw [destructive_vi_same _ w _ _ v f { i with sync := (p.si (.mem m)).ver + 1 } hv (by simp) hkey]
              simp [hsync]
            · intro u fu iu hu hfu hiu hk
              refine ⟨[], ?_, Or.inl rfl⟩
              exact destructive_vi_same _ w _ _ u fu iu hfu (by simp [setV_vi_ne _ _ hu, hiu]) hk
            · intro u fu hfu hk
              have hu : u ≠ v := by intro e; subst e; rw [hv] at hfu; injection hfu with hfu; subst hfu; exact hk hkey
              rw [destructive_vi_ne _ w _ _ u fu hfu hk]; simp [setV_vi_ne _ _ hu]
            · intro y hy; cases hy
            · exact Covers.nil _ _ _ _
            · intro y hy; cases hy
            · exact Covers.nil _ _ _ _
            · intro h; exact absurd rfl h
            · intro _; exact (popCount_cleared _ 256 _).symm
            · right
              rw [commitVal_count P hP.layout f m hr hro', popCount_cleared]
            · intro h; cases h

end DS.Bloom

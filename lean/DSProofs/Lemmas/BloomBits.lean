/- Bit-field lemmas for the Bloom model: `getField`, `setField`, `setBits`, `allSet`, `qauLoop`, `popCount`. -/
import DSModel.Bloom.Model
namespace DS.Bloom

theorem testBit_getField (x off w i : Nat) :
    (getField x off w).testBit i = (decide (i < w) && x.testBit (off + i)) := by
  simp [getField, Nat.testBit_mod_two_pow, Nat.testBit_shiftRight]

theorem testBit_setField (x off w v i : Nat) :
    (setField x off w v).testBit i = if off ≤ i ∧ i < off + w then v.testBit (i - off) else x.testBit i := by
  unfold setField
  rw [Nat.testBit_xor, Nat.testBit_shiftLeft, Nat.testBit_xor, testBit_getField, Nat.testBit_mod_two_pow]
  by_cases h1 : off ≤ i
  · by_cases h2 : i < off + w
    · have h3 : i - off < w := by omega
      have h4 : off + (i - off) = i := by omega
      simp [h1, h2, h3, h4]
    · have h3 : ¬ (i - off < w) := by omega
      simp [h1, h2, h3]
  · have h5 : ¬ (i ≥ off) := by omega
    simp [h5]

theorem testBit_setField_in (x off w v i : Nat) (h : i < w) :
    (setField x off w v).testBit (off + i) = v.testBit i := by
  rw [testBit_setField]
  have : off + i - off = i := by omega
  simp [this, h]

theorem testBit_setField_out (x off w v i : Nat) (h : i < off ∨ off + w ≤ i) :
    (setField x off w v).testBit i = x.testBit i := by
  rw [testBit_setField]
  have : ¬ (off ≤ i ∧ i < off + w) := by omega
  simp [this]

theorem getField_setField_same (x off w v : Nat) : getField (setField x off w v) off w = v % 2 ^ w := by
  apply Nat.eq_of_testBit_eq
  intro i
  rw [testBit_getField, Nat.testBit_mod_two_pow]
  by_cases h : i < w
  · simp [h, testBit_setField_in]
  · simp [h]

theorem getField_setField_disj (x off w v off' w' : Nat) (h : off' + w' ≤ off ∨ off + w ≤ off') :
    getField (setField x off w v) off' w' = getField x off' w' := by
  apply Nat.eq_of_testBit_eq
  intro i
  rw [testBit_getField, testBit_getField]
  by_cases hi : i < w'
  · rw [testBit_setField_out]; omega
  · simp [hi]

theorem getField_lt (x off w : Nat) : getField x off w < 2 ^ w := Nat.mod_lt _ (Nat.two_pow_pos w)

/-! ### setBits / allSet -/

theorem testBit_setBits (is : List Nat) (x off j : Nat) :
    (setBits x off is).testBit j = (x.testBit j || is.any (fun i => off + i == j)) := by
  unfold setBits
  induction is generalizing x with
  | nil => simp
  | cons a t ih =>
    simp only [List.foldl_cons, List.any_cons]
    rw [ih, Nat.testBit_or, Nat.testBit_two_pow]
    by_cases h : off + a = j
    · simp [h]
    · have hb : (off + a == j) = false := by simp [h]
      simp [h, hb]

theorem testBit_setBits_mono (is : List Nat) (x off j : Nat) (h : x.testBit j = true) :
    (setBits x off is).testBit j = true := by
  rw [testBit_setBits, h]; rfl

theorem allSet_iff (x off : Nat) (is : List Nat) : allSet x off is = true ↔ ∀ i ∈ is, x.testBit (off + i) = true := by
  simp [allSet, List.all_eq_true]

theorem allSet_setBits (x off : Nat) (is : List Nat) : allSet (setBits x off is) off is = true := by
  rw [allSet_iff]
  intro i hi
  rw [testBit_setBits]
  have : is.any (fun k => off + k == off + i) = true := List.any_eq_true.mpr ⟨i, hi, by simp⟩
  simp [this]

/-- `allSet` only looks at the bits it names -/
theorem allSet_congr (x y off off' : Nat) (is : List Nat)
    (h : ∀ i ∈ is, x.testBit (off + i) = y.testBit (off' + i)) : allSet x off is = allSet y off' is := by
  rw [Bool.eq_iff_iff, allSet_iff, allSet_iff]
  constructor
  · intro hx i hi; rw [← h i hi]; exact hx i hi
  · intro hy i hi; rw [h i hi]; exact hy i hi

theorem allSet_mono (x y off off' : Nat) (is : List Nat)
    (h : ∀ i ∈ is, x.testBit (off + i) = true → y.testBit (off' + i) = true) (hx : allSet x off is = true) :
    allSet y off' is = true := by
  rw [allSet_iff] at *
  intro i hi
  exact h i hi (hx i hi)

/-! ### the query_and_update loop -/

theorem qauLoop_content (off : Nat) (is : List Nat) (x n : Nat) (a : Bool) :
    (qauLoop off is (x, n, a)).1 = setBits x off is := by
  induction is generalizing x n a with
  | nil => simp [qauLoop, setBits]
  | cons i t ih => simp only [qauLoop]; rw [ih]; simp [setBits]

theorem qauLoop_answer (off : Nat) (is : List Nat) (x n : Nat) (a : Bool) :
    (qauLoop off is (x, n, a)).2.2 = (a && allSet x off is) := by
  induction is generalizing x n a with
  | nil => simp [qauLoop, allSet]
  | cons i t ih =>
    simp only [qauLoop]
    rw [ih]
    by_cases hb : x.testBit (off + i) = true
    · have : allSet (x ||| 2 ^ (off + i)) off t = allSet x off t := by
        apply allSet_congr
        intro j _
        rw [Nat.testBit_or, Nat.testBit_two_pow]
        by_cases hj : i = j
        · subst hj; simp [hb]
        · have : ¬ (off + i = off + j) := by omega
          simp [hj]
      simp [allSet, hb] at this ⊢
      simp [this]
    · simp [allSet, hb]

/-! ### popCount -/

theorem popCount_congr (x y off off' n : Nat) (h : ∀ i, i < n → x.testBit (off + i) = y.testBit (off' + i)) :
    popCount x off n = popCount y off' n := by
  induction n with
  | zero => rfl
  | succ n ih =>
    simp only [popCount]
    rw [ih (fun i hi => h i (by omega)), h n (by omega)]

theorem popCount_le (x off n : Nat) : popCount x off n ≤ n := by
  induction n with
  | zero => simp [popCount]
  | succ n ih => simp only [popCount]; split <;> omega

theorem popCount_pos (x off n i : Nat) (hi : i < n) (hb : x.testBit (off + i) = true) : 0 < popCount x off n := by
  induction n with
  | zero => omega
  | succ n ih =>
    simp only [popCount]
    by_cases h : i = n
    · subst h; simp [hb]
    · have := ih (by omega); omega

theorem popCount_eq_zero (x off n : Nat) (h : popCount x off n = 0) (i : Nat) (hi : i < n) : x.testBit (off + i) = false := by
  cases hb : x.testBit (off + i) with
  | false => rfl
  | true => have := popCount_pos x off n i hi hb; omega

theorem popCount_zero_of (x off n : Nat) (h : ∀ i, i < n → x.testBit (off + i) = false) : popCount x off n = 0 := by
  induction n with
  | zero => rfl
  | succ n ih => simp only [popCount]; rw [ih (fun i hi => h i (by omega)), h n (by omega)]; simp

/-- setting one bit inside the window raises the count by one exactly when it was clear -/
theorem popCount_setBit (x off n i : Nat) (hi : i < n) :
    popCount (x ||| 2 ^ (off + i)) off n = popCount x off n + (if x.testBit (off + i) then 0 else 1) := by
  induction n with
  | zero => omega
  | succ n ih =>
    simp only [popCount]
    by_cases h : i = n
    · subst h
      have hc : popCount (x ||| 2 ^ (off + i)) off i = popCount x off i := by
        apply popCount_congr
        intro j hj
        rw [Nat.testBit_or, Nat.testBit_two_pow]
        have : ¬ (i = j) := by omega
        simp [this]
      rw [hc, Nat.testBit_or, Nat.testBit_two_pow]
      cases x.testBit (off + i) <;> simp
    · rw [ih (by omega), Nat.testBit_or, Nat.testBit_two_pow]
      simp [h]
      omega

/-- setting a bit outside the window does not change the count -/
theorem popCount_setBit_out (x off n k : Nat) (hk : k < off ∨ off + n ≤ k) :
    popCount (x ||| 2 ^ k) off n = popCount x off n := by
  apply popCount_congr
  intro j hj
  rw [Nat.testBit_or, Nat.testBit_two_pow]
  have : ¬ (k = off + j) := by omega
  simp [this]

end DS.Bloom

/- Two runs of the REQ model side by side: compress loop, update, merge, queries, histories. (Helper lemmas for C08.) -/
import DSProofs.Lemmas.ReqBal
import DSProofs.Lemmas.ReqStore
namespace DS.Req

variable {ρ : Type}

def CsRel (hh : Option Nat) : List (Compactor ρ) → List (Compactor ρ) → Prop
  | [], [] => True
  | c :: t, c' :: t' => CRel hh c c' ∧ CsRel hh t t'
  | _, _ => False

structure SRel (hh : Option Nat) (s s' : Sketch ρ) : Prop where
  k : s'.k = s.k
  hra : s'.hra = s.hra
  maxNom : s'.maxNomSize = s.maxNomSize
  ret : s'.numRetained = s.numRetained
  n : s'.n = s.n
  mn : s'.minItem = s.minItem
  mx : s'.maxItem = s.maxItem
  cs : CsRel hh s.compactors s'.compactors

/-- the two coin supplies: `L` is the (anticipated) level trace of all draws; run 2 sees the coins of run 1 with those drawn at
level `h` complemented -/
structure AccRel (L : List Nat) (hh : Option Nat) (a a' : Acc) : Prop where
  used : a'.used = a.used
  lv : a'.lv = a.lv
  oddConst : a'.oddConst = a.oddConst
  throws : a'.throws = a.throws
  lvlen : a.lv.length = a.used
  coins : ∀ h, hh = some h → ∀ i, a'.coins i = (a.coins i != (L[i]? == some h))

theorem CsRel_length {hh : Option Nat} : ∀ (a b : List (Compactor ρ)), CsRel hh a b → b.length = a.length := by
  intro a
  induction a with
  | nil => intro b h; cases b with
    | nil => rfl
    | cons _ _ => exact absurd h (by simp [CsRel])
  | cons x t ih => intro b h; cases b with
    | nil => exact absurd h (by simp [CsRel])
    | cons y t' => simp [ih t' h.2]

theorem CsRel_sums {hh : Option Nat} (T : Tun) : ∀ (a b : List (Compactor ρ)), CsRel hh a b →
    sumItems b = sumItems a ∧ sumCap T b = sumCap T a := by
  intro a
  induction a with
  | nil => intro b h; cases b with
    | nil => exact ⟨rfl, rfl⟩
    | cons _ _ => exact absurd h (by simp [CsRel])
  | cons x t ih => intro b h; cases b with
    | nil => exact absurd h (by simp [CsRel])
    | cons y t' =>
      obtain ⟨a1, a2⟩ := ih t' h.2
      simp only [sumItems_cons, sumCap_cons, h.1.len, h.1.nomCap T, a1, a2, and_self]

theorem prefix_get (lv : List Nat) (x : Nat) (L : List Nat) (h : lv ++ [x] <+: L) : L[lv.length]? = some x := by
  obtain ⟨t, rfl⟩ := h
  simp

/-- the coin cursor only moves forward: the trace grows by appending, the supply itself is never modified -/
theorem afterCompact_acc (a : Acc) (lvl : Nat) (f o k : Bool) :
    a.lv <+: (a.afterCompact lvl f o k).lv ∧ (a.afterCompact lvl f o k).coins = a.coins ∧
    (a.lv.length = a.used → (a.afterCompact lvl f o k).lv.length = (a.afterCompact lvl f o k).used) ∧
    ((a.afterCompact lvl f o k).oddConst = false → a.oddConst = false ∧ o = false) := by
  cases f <;> simp [Acc.afterCompact, Acc.draw]

theorem drawIf_acc (a : Acc) (b : Bool) (lvl : Nat) :
    a.lv <+: (a.drawIf b lvl).lv ∧ (a.drawIf b lvl).coins = a.coins ∧
    (a.lv.length = a.used → (a.drawIf b lvl).lv.length = (a.drawIf b lvl).used) ∧
    (a.drawIf b lvl).oddConst = a.oddConst ∧ (b = true → (a.drawIf b lvl).lv = a.lv ++ [lvl]) ∧ (b = false → a.drawIf b lvl = a) := by
  cases b <;> simp [Acc.drawIf, Acc.draw]

theorem growDraw_acc (T : Tun) (a : Acc) (top : Bool) (lvl : Nat) :
    a.lv <+: (a.growDraw T top lvl).lv ∧ (a.growDraw T top lvl).coins = a.coins ∧
    (a.lv.length = a.used → (a.growDraw T top lvl).lv.length = (a.growDraw T top lvl).used) ∧
    (a.growDraw T top lvl).oddConst = a.oddConst ∧
    (top = true → T.initCoinRandom = true → (a.growDraw T top lvl).lv = a.lv ++ [lvl]) := by
  unfold Acc.growDraw
  cases top
  · simp
  · have := drawIf_acc a T.initCoinRandom lvl
    simp only [if_true]
    exact ⟨this.1, this.2.1, this.2.2.1, this.2.2.2.1, fun _ h => this.2.2.2.2.1 h⟩

theorem compressLoop_acc (T : Tun) (F : SecFns ρ) (hra : Bool) (k : Nat) :
    ∀ (fuel h : Nat) (todo : List (Compactor ρ)) (ctr : Ctr) (acc : Acc),
      acc.lv <+: (compressLoop T F hra k fuel h todo ctr acc).2.2.lv ∧
      (compressLoop T F hra k fuel h todo ctr acc).2.2.coins = acc.coins ∧
      (acc.lv.length = acc.used → (compressLoop T F hra k fuel h todo ctr acc).2.2.lv.length = (compressLoop T F hra k fuel h todo ctr acc).2.2.used) ∧
      ((compressLoop T F hra k fuel h todo ctr acc).2.2.oddConst = false → acc.oddConst = false) := by
  intro fuel
  induction fuel with
  | zero => intro h todo ctr acc; simp [compressLoop]
  | succ fuel ih =>
    intro h todo ctr acc
    cases todo with
    | nil => simp [compressLoop]
    | cons c rest =>
      simp only [compressLoop]
      split
      · generalize (sortIf0 h c).compact T F (nextOf T F hra k h rest acc.peek) (acc.growDraw T rest.isEmpty (h + 1)).peek = r
        have g := growDraw_acc T acc rest.isEmpty (h + 1)
        have a := afterCompact_acc (acc.growDraw T rest.isEmpty (h + 1)) (sortIf0 h c).lgWeight r.fresh r.oddConst r.rangeOk
        split
        · exact ⟨g.1.trans a.1, a.2.1.trans g.2.1, fun hl => a.2.2.1 (g.2.2.1 hl), fun h => by rw [← g.2.2.2.1]; exact (a.2.2.2 h).1⟩
        · have b := ih (h + 1) (r.nxt :: rest.tail) (ctrAfter (ctrGrow T ctr rest.isEmpty (nextOf T F hra k h rest acc.peek)) r)
            ((acc.growDraw T rest.isEmpty (h + 1)).afterCompact (sortIf0 h c).lgWeight r.fresh r.oddConst r.rangeOk)
          exact ⟨g.1.trans (a.1.trans b.1), b.2.1.trans (a.2.1.trans g.2.1), fun hl => b.2.2.1 (a.2.2.1 (g.2.2.1 hl)),
            fun h => by rw [← g.2.2.2.1]; exact (a.2.2.2 (b.2.2.2 h)).1⟩
      · exact ih (h + 1) rest ctr acc

/-! ### the compress loop in two runs -/

theorem sortIf0_CRel {hh : Option Nat} (h : Nat) {c c' : Compactor ρ} (r : CRel hh c c') : CRel hh (sortIf0 h c) (sortIf0 h c') := by
  unfold sortIf0; split
  · exact sort_CRel r
  · exact r

theorem nextOf_CRel {hh : Option Nat} (T : Tun) (F : SecFns ρ) (hra : Bool) (k h : Nat) {rest rest' : List (Compactor ρ)} (d d' : Bool)
    (r : CsRel hh rest rest')
    (h1 : ∀ h0, hh = some h0 → h + 1 < h0 → rest = [] → T.initCoinRandom = true → d' = d)
    (h2 : ∀ h0, hh = some h0 → h + 1 = h0 → rest = [] → T.initCoinRandom = true → d' = !d) :
    CRel hh (nextOf T F hra k h rest d) (nextOf T F hra k h rest' d') ∧ CsRel hh rest.tail rest'.tail ∧
      rest'.isEmpty = rest.isEmpty := by
  cases rest with
  | nil => cases rest' with
    | nil => exact ⟨mk'_CRel T F hh hra (h + 1) k d d' (fun h0 e hl hf => h1 h0 e hl rfl hf) (fun h0 e hl hf => h2 h0 e hl rfl hf), trivial, rfl⟩
    | cons _ _ => exact absurd r (by simp [CsRel])
  | cons x t => cases rest' with
    | nil => exact absurd r (by simp [CsRel])
    | cons y t' => exact ⟨r.1, r.2, rfl⟩

theorem drawIf_AccRel {L : List Nat} {hh : Option Nat} {a a' : Acc} (b : Bool) (lvl : Nat) (r : AccRel L hh a a') :
    AccRel L hh (a.drawIf b lvl) (a'.drawIf b lvl) := by
  cases b
  · exact r
  · exact ⟨by simp [Acc.drawIf, Acc.draw, r.used], by simp [Acc.drawIf, Acc.draw, r.lv], by simp [Acc.drawIf, Acc.draw, r.oddConst],
      by simp [Acc.drawIf, Acc.draw, r.throws], by simp [Acc.drawIf, Acc.draw, r.lvlen], r.coins⟩

theorem growDraw_AccRel {L : List Nat} {hh : Option Nat} {a a' : Acc} (T : Tun) (top : Bool) (lvl : Nat) (r : AccRel L hh a a') :
    AccRel L hh (a.growDraw T top lvl) (a'.growDraw T top lvl) := by
  unfold Acc.growDraw; cases top
  · exact r
  · exact drawIf_AccRel _ _ r

theorem afterCompact_AccRel {L : List Nat} {hh : Option Nat} {a a' : Acc} (lvl : Nat) (f o k : Bool) (r : AccRel L hh a a') :
    AccRel L hh (a.afterCompact lvl f o k) (a'.afterCompact lvl f o k) := by
  cases f
  · exact ⟨r.used, r.lv, by simp [Acc.afterCompact, r.oddConst], by simp [Acc.afterCompact, r.throws], r.lvlen, r.coins⟩
  · exact ⟨by simp [Acc.afterCompact, Acc.draw, r.used], by simp [Acc.afterCompact, Acc.draw, r.lv],
      by simp [Acc.afterCompact, Acc.draw, r.oddConst], by simp [Acc.afterCompact, Acc.draw, r.throws],
      by simp [Acc.afterCompact, Acc.draw, r.lvlen], r.coins⟩

theorem nextOf_lg {T : Tun} (F : SecFns ρ) {hra : Bool} (k h : Nat) (rest : List (Compactor ρ)) (d : Bool) (hinv : CsInv T hra (h + 1) rest) :
    (nextOf T F hra k h rest d).lgWeight = h + 1 := by
  cases rest with
  | nil => exact (mkC_fields T F hra (h + 1) k d).2.2.1
  | cons x t => exact hinv.1.lg

theorem bal_nextOf {hh : Option Nat} (T : Tun) (F : SecFns ρ) (hra : Bool) (k h : Nat) {rest rest' : List (Compactor ρ)} (d d' : Bool)
    (r : CsRel hh rest rest') (p : Int → Bool) (h0 : Nat) :
    balL p h0 rest rest' = headL p h0 (nextOf T F hra k h rest d) (nextOf T F hra k h rest' d') + balL p h0 rest.tail rest'.tail ∧
    balR p h0 rest = headR p h0 (nextOf T F hra k h rest d) + balR p h0 rest.tail := by
  cases rest with
  | nil => cases rest' with
    | nil =>
      have := heads_empty p h0 (Compactor.mkC T F hra (h + 1) k d) (Compactor.mkC T F hra (h + 1) k d')
        (mkC_fields T F hra (h + 1) k d).1 (mkC_fields T F hra (h + 1) k d).2.1 (mkC_fields T F hra (h + 1) k d').2.1
      simp only [nextOf, balL, balR, List.tail_nil, this.1, this.2, and_self]
    | cons _ _ => exact absurd r (by simp [CsRel])
  | cons x t => cases rest' with
    | nil => exact absurd r (by simp [CsRel])
    | cons y t' => simp only [nextOf, balL, balR, List.tail_cons, and_self]

theorem compressLoop_rel {T : Tun} (hT : TunOK T) (F : SecFns ρ) (hra : Bool) (k : Nat) (hk : 2 ≤ k) (L : List Nat) (hh : Option Nat) :
    ∀ (fuel h : Nat) (todo todo' : List (Compactor ρ)) (ctr : Ctr) (acc acc' : Acc),
      CsInv T hra h todo → CsRel hh todo todo' → AccRel L hh acc acc' →
      (compressLoop T F hra k fuel h todo ctr acc).2.2.lv <+: L →
      CsRel hh (compressLoop T F hra k fuel h todo ctr acc).1 (compressLoop T F hra k fuel h todo' ctr acc').1 ∧
      (compressLoop T F hra k fuel h todo' ctr acc').2.1 = (compressLoop T F hra k fuel h todo ctr acc).2.1 ∧
      AccRel L hh (compressLoop T F hra k fuel h todo ctr acc).2.2 (compressLoop T F hra k fuel h todo' ctr acc').2.2 ∧
      (∀ p h0, hh = some h0 → (compressLoop T F hra k fuel h todo ctr acc).2.2.oddConst = false →
        balL p h0 (compressLoop T F hra k fuel h todo ctr acc).1 (compressLoop T F hra k fuel h todo' ctr acc').1 + balR p h0 todo
          = balL p h0 todo todo' + balR p h0 (compressLoop T F hra k fuel h todo ctr acc).1) := by
  intro fuel
  induction fuel with
  | zero => intro h todo todo' ctr acc acc' _ hr ha _; exact ⟨hr, rfl, ha, fun _ _ _ _ => by simp only [compressLoop]⟩
  | succ fuel ih =>
    intro h todo todo' ctr acc acc' hinv hr ha hL
    cases todo with
    | nil => cases todo' with
      | nil => exact ⟨trivial, rfl, ha, fun _ _ _ _ => by simp only [compressLoop]⟩
      | cons _ _ => exact absurd hr (by simp [CsRel])
    | cons c rest => cases todo' with
      | nil => exact absurd hr (by simp [CsRel])
      | cons c' rest' =>
        obtain ⟨rc, rrest⟩ := hr
        obtain ⟨hc, hrest⟩ := hinv
        have hfull : (c'.numItems ≥ c'.nomCap T) ↔ (c.numItems ≥ c.nomCap T) := by
          simp only [Compactor.numItems, rc.len, rc.nomCap T]
        simp only [compressLoop] at hL ⊢
        by_cases hf : c.numItems ≥ c.nomCap T
        · rw [if_pos hf] at hL
          rw [if_pos hf, if_pos (hfull.2 hf)]
          simp only [Compactor.numItems, ge_iff_le] at hf
          have r1 := sortIf0_CRel h rc
          have hemp : rest'.isEmpty = rest.isEmpty := by
            cases rest <;> cases rest' <;> simp_all [CsRel]
          simp only [hemp]
          have hc1 : CInv T hra h (sortIf0 h c) := by unfold sortIf0; split; exact sort_CInv hc; exact hc
          have hl1 : (sortIf0 h c).items.length = c.items.length := by unfold sortIf0; split; exact sort_length c; rfl
          have hcap1 : (sortIf0 h c).nomCap T = c.nomCap T := by unfold sortIf0; split; exact sort_nomCap T c; rfl
          have rf := range_facts hT (sortIf0 h c) hc1.ns hc1.ss (by rw [hcap1, hl1]; exact hf)
          simp only at rf
          obtain ⟨rf1, rf2, rf3, _, _, _⟩ := rf
          have hlg1 : (sortIf0 h c).lgWeight = h := hc1.lg
          have hnl : (nextOf T F hra k h rest acc.peek).lgWeight = (sortIf0 h c).lgWeight + 1 := by rw [hlg1]; exact nextOf_lg F k h rest acc.peek hrest
          have hs1 : Sorted (sortIf0 h c).items := by
            unfold sortIf0; split
            · exact sort_sorted hc
            · rename_i h0; exact hc.srt (Or.inl h0)
          have hnxI : CInv T hra (h + 1) (nextOf T F hra k h rest acc.peek) ∧ CsInv T hra (h + 1 + 1) rest.tail := by
            cases rest with
            | nil => exact ⟨mkC_CInv hT F hra (h + 1) k hk acc.peek, trivial⟩
            | cons x t => exact ⟨hrest.1, hrest.2⟩
          -- the coin cursor of run 1 through grow() and compact()
          have g := growDraw_acc T acc rest.isEmpty (h + 1)
          have rA1 : AccRel L hh (acc.growDraw T rest.isEmpty (h + 1)) (acc'.growDraw T rest.isEmpty (h + 1)) := growDraw_AccRel T _ _ ha
          generalize hA1 : acc.growDraw T rest.isEmpty (h + 1) = A1 at g rA1 hL ⊢
          generalize acc'.growDraw T rest.isEmpty (h + 1) = A1' at rA1 ⊢
          have sp := compact_spec hT F A1.peek hc1 hs1 hnxI.1 (by rw [hcap1, hl1]; exact hf)
          have hpre2 : (A1.afterCompact (sortIf0 h c).lgWeight ((sortIf0 h c).compact T F (nextOf T F hra k h rest acc.peek) A1.peek).fresh
              ((sortIf0 h c).compact T F (nextOf T F hra k h rest acc.peek) A1.peek).oddConst
              ((sortIf0 h c).compact T F (nextOf T F hra k h rest acc.peek) A1.peek).rangeOk).lv <+: L := by
            split at hL
            · exact hL
            · have m := compressLoop_acc T F hra k fuel (h + 1)
                (((sortIf0 h c).compact T F (nextOf T F hra k h rest acc.peek) A1.peek).nxt :: rest.tail)
                (ctrAfter (ctrGrow T ctr rest.isEmpty (nextOf T F hra k h rest acc.peek)) ((sortIf0 h c).compact T F (nextOf T F hra k h rest acc.peek) A1.peek))
                (A1.afterCompact (sortIf0 h c).lgWeight ((sortIf0 h c).compact T F (nextOf T F hra k h rest acc.peek) A1.peek).fresh
                  ((sortIf0 h c).compact T F (nextOf T F hra k h rest acc.peek) A1.peek).oddConst ((sortIf0 h c).compact T F (nextOf T F hra k h rest acc.peek) A1.peek).rangeOk)
              exact m.1.trans hL
          have a := afterCompact_acc A1 (sortIf0 h c).lgWeight ((sortIf0 h c).compact T F (nextOf T F hra k h rest acc.peek) A1.peek).fresh
              ((sortIf0 h c).compact T F (nextOf T F hra k h rest acc.peek) A1.peek).oddConst
              ((sortIf0 h c).compact T F (nextOf T F hra k h rest acc.peek) A1.peek).rangeOk
          have hA1pre : A1.lv <+: L := a.1.trans hpre2
          have hA1len : A1.lv.length = A1.used := g.2.2.1 ha.lvlen
          have hdg : rest = [] → T.initCoinRandom = true → L[acc.used]? = some (h + 1) := by
            intro hr hfl
            have : A1.lv = acc.lv ++ [h + 1] := g.2.2.2.2 (by rw [hr]; rfl) hfl
            rw [← ha.lvlen]; exact prefix_get acc.lv (h + 1) L (by rw [← this]; exact hA1pre)
          have hd : ¬ (sortIf0 h c).state % 2 = 1 → L[A1.used]? = some h := by
            intro hodd
            have hfresh : ((sortIf0 h c).compact T F (nextOf T F hra k h rest acc.peek) A1.peek).fresh = true := by
              simp [Compactor.compact, hodd]
            have : (A1.afterCompact (sortIf0 h c).lgWeight ((sortIf0 h c).compact T F (nextOf T F hra k h rest acc.peek) A1.peek).fresh
              ((sortIf0 h c).compact T F (nextOf T F hra k h rest acc.peek) A1.peek).oddConst
              ((sortIf0 h c).compact T F (nextOf T F hra k h rest acc.peek) A1.peek).rangeOk).lv = A1.lv ++ [h] := by
              simp [Acc.afterCompact, hfresh, Acc.draw, hlg1]
            rw [← hA1len]; exact prefix_get A1.lv h L (by rw [← this]; exact hpre2)
          -- the coins the two runs draw
          have hpeek' : acc'.peek = acc'.coins acc.used := by simp [Acc.peek, ha.used]
          have hpeekA' : A1'.peek = A1'.coins A1.used := by simp [Acc.peek, rA1.used]
          have hn1 : ∀ h0, hh = some h0 → h + 1 < h0 → rest = [] → T.initCoinRandom = true → acc'.peek = acc.peek := by
            intro h0 e hl hr hfl
            rw [hpeek', ha.coins h0 e, hdg hr hfl]
            have : (some (h + 1) == some h0) = false := by simp; omega
            simp [this, Acc.peek]
          have hn2 : ∀ h0, hh = some h0 → h + 1 = h0 → rest = [] → T.initCoinRandom = true → acc'.peek = !acc.peek := by
            intro h0 e hl hr hfl
            rw [hpeek', ha.coins h0 e, hdg hr hfl]
            have : (some (h + 1) == some h0) = true := by simp; omega
            simp [this, Acc.peek]
          obtain ⟨rnx, rtail, _⟩ := nextOf_CRel T F hra k h acc.peek acc'.peek rrest hn1 hn2
          have hd1 : ∀ h0, hh = some h0 → (sortIf0 h c).lgWeight < h0 → ¬ (sortIf0 h c).state % 2 = 1 → A1'.peek = A1.peek := by
            intro h0 e hl hodd
            rw [hpeekA', rA1.coins h0 e, hd hodd]
            have : (some h == some h0) = false := by simp; omega
            simp [this, Acc.peek]
          have hd2 : ∀ h0, hh = some h0 → (sortIf0 h c).lgWeight = h0 → ¬ (sortIf0 h c).state % 2 = 1 → A1'.peek = !A1.peek := by
            intro h0 e hl hodd
            rw [hpeekA', rA1.coins h0 e, hd hodd]
            have : (some h == some h0) = true := by simp; omega
            simp [this, Acc.peek]
          have cr : CompactRel hh ((sortIf0 h c).compact T F (nextOf T F hra k h rest acc.peek) A1.peek)
              ((sortIf0 h c').compact T F (nextOf T F hra k h rest' acc'.peek) A1'.peek) :=
            compact_CRel T F A1.peek A1'.peek r1 rnx hnl hd1 hd2 rf3 (by omega) rf2
          have hbal : ∀ p h0, hh = some h0 → ((sortIf0 h c).compact T F (nextOf T F hra k h rest acc.peek) A1.peek).oddConst = false →
              headL p h0 ((sortIf0 h c).compact T F (nextOf T F hra k h rest acc.peek) A1.peek).cur ((sortIf0 h c').compact T F (nextOf T F hra k h rest' acc'.peek) A1'.peek).cur
                + headL p h0 ((sortIf0 h c).compact T F (nextOf T F hra k h rest acc.peek) A1.peek).nxt ((sortIf0 h c').compact T F (nextOf T F hra k h rest' acc'.peek) A1'.peek).nxt
                + (headR p h0 (sortIf0 h c) + headR p h0 (nextOf T F hra k h rest acc.peek))
              = headL p h0 (sortIf0 h c) (sortIf0 h c') + headL p h0 (nextOf T F hra k h rest acc.peek) (nextOf T F hra k h rest' acc'.peek)
                + (headR p h0 ((sortIf0 h c).compact T F (nextOf T F hra k h rest acc.peek) A1.peek).cur + headR p h0 ((sortIf0 h c).compact T F (nextOf T F hra k h rest acc.peek) A1.peek).nxt) := by
            intro p h0 e hoc
            subst e
            exact compact_bal_heads T F p h0 A1.peek A1'.peek r1 rnx hnl (hd1 h0 rfl) (hd2 h0 rfl) (by omega) hoc
          have hnb := bal_nextOf (hh := hh) T F hra k h acc.peek acc'.peek rrest
          have hsb := fun p h0 => heads_sort p h0 h c c'
          generalize (sortIf0 h c).compact T F (nextOf T F hra k h rest acc.peek) A1.peek = res at cr hL sp hbal
          generalize (sortIf0 h c').compact T F (nextOf T F hra k h rest' acc'.peek) A1'.peek = res' at cr hbal
          have hctr : ctrAfter (ctrGrow T ctr rest.isEmpty (nextOf T F hra k h rest' acc'.peek)) res' = ctrAfter (ctrGrow T ctr rest.isEmpty (nextOf T F hra k h rest acc.peek)) res := by
            simp only [ctrAfter, ctrGrow, rnx.nomCap T, cr.num, cr.capNew, cr.capOld]
          have hacc : AccRel L hh (A1.afterCompact (sortIf0 h c).lgWeight res.fresh res.oddConst res.rangeOk)
              (A1'.afterCompact (sortIf0 h c').lgWeight res'.fresh res'.oddConst res'.rangeOk) := by
            rw [r1.lg, cr.fresh, cr.oddConst, cr.rangeOk]; exact afterCompact_AccRel _ _ _ _ rA1
          rw [hctr]
          split
          · refine ⟨⟨cr.cur, cr.nxt, rtail⟩, rfl, hacc, ?_⟩
            intro p h0 e hodd
            have ho := ((afterCompact_acc A1 (sortIf0 h c).lgWeight res.fresh res.oddConst res.rangeOk).2.2.2 hodd).2
            have hb := hbal p h0 e ho
            obtain ⟨n1, n2⟩ := hnb p h0
            obtain ⟨s1, s2⟩ := hsb p h0
            simp only [balL, balR]
            omega
          · rename_i hnl2
            rw [if_neg hnl2] at hL
            have hinv2 : CsInv T hra (h + 1) (res.nxt :: rest.tail) := ⟨sp.nx, hnxI.2⟩
            have IH := ih (h + 1) (res.nxt :: rest.tail) (res'.nxt :: rest'.tail) _ _ _ hinv2 ⟨cr.nxt, rtail⟩ hacc hL
            refine ⟨⟨cr.cur, IH.1⟩, IH.2.1, IH.2.2.1, ?_⟩
            intro p h0 e hodd
            have hodd2 := (compressLoop_acc T F hra k fuel (h + 1) (res.nxt :: rest.tail)
              (ctrAfter (ctrGrow T ctr rest.isEmpty (nextOf T F hra k h rest acc.peek)) res)
              (A1.afterCompact (sortIf0 h c).lgWeight res.fresh res.oddConst res.rangeOk)).2.2.2 hodd
            have ho := ((afterCompact_acc A1 (sortIf0 h c).lgWeight res.fresh res.oddConst res.rangeOk).2.2.2 hodd2).2
            have hb := hbal p h0 e ho
            have hi := IH.2.2.2 p h0 e hodd
            obtain ⟨n1, n2⟩ := hnb p h0
            obtain ⟨s1, s2⟩ := hsb p h0
            simp only [balL, balR] at hi ⊢
            omega
        · rw [if_neg hf] at hL
          rw [if_neg hf, if_neg (fun x => hf (hfull.1 x))]
          have IH := ih (h + 1) rest rest' ctr acc acc' hrest rrest ha hL
          refine ⟨⟨rc, IH.1⟩, IH.2.1, IH.2.2.1, ?_⟩
          intro p h0 e hodd
          have hi := IH.2.2.2 p h0 e hodd
          simp only [balL, balR]
          omega

end DS.Req

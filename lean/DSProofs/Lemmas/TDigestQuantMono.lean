/-
t-digest (C17), exact arithmetic: with the interpolation weights in the reference order
(`Tun.quantW1W2 = false`, i.e. `weighted_average(mean[i], w2, mean[i+1], w1)` — the proposed fix)
`get_quantile` IS non-decreasing in the rank on every state satisfying the invariant.
-/
import DSProofs.Lemmas.TDigestCdf
namespace DS.TDigest
open Num Conv

/-- the body of get_quantile's loop once the segment (a, b) is found; `wsf` = centre of `a` in weight units -/
def segVal (tun : Tun) (weight wsf : Rat) (a b : C) : Option Rat :=
  if a.weight = 1 ∧ weight - wsf < 1 / 2 then some a.mean
  else if b.weight = 1 ∧ wsf + ((a.weight + b.weight : Nat) : Rat) / 2 - weight ≤ 1 / 2 then some b.mean
  else if tun.quantW1W2 = true then
    some (wavg a.mean (weight - wsf - if a.weight = 1 then 1 / 2 else 0) b.mean
      (wsf + ((a.weight + b.weight : Nat) : Rat) / 2 - weight - if b.weight = 1 then 1 / 2 else 0))
  else
    some (wavg a.mean (wsf + ((a.weight + b.weight : Nat) : Rat) / 2 - weight - if b.weight = 1 then 1 / 2 else 0) b.mean
      (weight - wsf - if a.weight = 1 then 1 / 2 else 0))

theorem quantLoop_cons2 (tun : Tun) (cwD mx weight wsf : Rat) (a b : C) (rest : List C) :
    quantLoop tun cwD mx weight wsf (a :: b :: rest) =
      if weight < wsf + ((a.weight + b.weight : Nat) : Rat) / 2 then segVal tun weight wsf a b
      else quantLoop tun cwD mx weight (wsf + ((a.weight + b.weight : Nat) : Rat) / 2) (b :: rest) := by
  rw [quantLoop]
  unfold segVal
  simp +zetaHave only [rat_add, rat_div, rat_ofNat, rat_sub, rat_lt, rat_le, rat_half, rat_up, rat_down,
    Nat.cast_ofNat, Nat.cast_zero]

/-- the two interpolation weights -/
theorem seg_weights {weight wsf : Rat} {a b : C} (hlow : wsf ≤ weight)
    (hfound : weight < wsf + ((a.weight + b.weight : Nat) : Rat) / 2)
    (hA : ¬ (a.weight = 1 ∧ weight - wsf < 1 / 2))
    (hB : ¬ (b.weight = 1 ∧ wsf + ((a.weight + b.weight : Nat) : Rat) / 2 - weight ≤ 1 / 2)) :
    0 ≤ weight - wsf - (if a.weight = 1 then (1 : Rat) / 2 else 0) ∧
    0 < wsf + ((a.weight + b.weight : Nat) : Rat) / 2 - weight - (if b.weight = 1 then (1 : Rat) / 2 else 0) := by
  constructor
  · by_cases h1 : a.weight = 1
    · have : ¬ weight - wsf < 1 / 2 := fun h => hA ⟨h1, h⟩
      simp only [h1, if_true] at this ⊢; linarith
    · simp only [h1, if_false]; linarith
  · by_cases h1 : b.weight = 1
    · have : ¬ wsf + ((a.weight + b.weight : Nat) : Rat) / 2 - weight ≤ 1 / 2 := fun h => hB ⟨h1, h⟩
      simp only [h1, if_true] at this ⊢; linarith
    · simp only [h1, if_false]; linarith

theorem segVal_within (tun : Tun) {weight wsf : Rat} {a b : C} (hab : a.mean ≤ b.mean) (hlow : wsf ≤ weight)
    (hfound : weight < wsf + ((a.weight + b.weight : Nat) : Rat) / 2) {q : Rat} (h : segVal tun weight wsf a b = some q) :
    a.mean ≤ q ∧ q ≤ b.mean := by
  unfold segVal at h
  by_cases hA : a.weight = 1 ∧ weight - wsf < 1 / 2
  · rw [if_pos hA] at h; simp at h; subst h; exact ⟨le_refl _, hab⟩
  · rw [if_neg hA] at h
    by_cases hB : b.weight = 1 ∧ wsf + ((a.weight + b.weight : Nat) : Rat) / 2 - weight ≤ 1 / 2
    · rw [if_pos hB] at h; simp at h; subst h; exact ⟨hab, le_refl _⟩
    · rw [if_neg hB] at h
      obtain ⟨hw1, hw2⟩ := seg_weights hlow hfound hA hB
      cases hq : tun.quantW1W2
      · rw [hq] at h; simp only [Bool.false_eq_true, if_false] at h
        have h' := Option.some.inj h; subst h'
        exact wavg_within' _ _ _ _ a.mean b.mean hw2 hw1 (le_refl _) hab hab (le_refl _)
      · rw [hq] at h; simp only [if_true] at h
        have h' := Option.some.inj h; subst h'
        exact wavg_within _ _ _ _ a.mean b.mean hw1 hw2 (le_refl _) hab hab (le_refl _)

/-- inside one segment the reference-order interpolation is non-decreasing in the target weight -/
theorem segVal_mono (tun : Tun) (hq : tun.quantW1W2 = false) {t1 t2 wsf : Rat} {a b : C} (hab : a.mean ≤ b.mean)
    (hlow : wsf ≤ t1) (h12 : t1 ≤ t2) (hfound : t2 < wsf + ((a.weight + b.weight : Nat) : Rat) / 2)
    {q1 q2 : Rat} (h1 : segVal tun t1 wsf a b = some q1) (h2 : segVal tun t2 wsf a b = some q2) : q1 ≤ q2 := by
  have hf1 : t1 < wsf + ((a.weight + b.weight : Nat) : Rat) / 2 := lt_of_le_of_lt h12 hfound
  have w1 := segVal_within tun hab hlow hf1 h1
  have w2 := segVal_within tun hab (le_trans hlow h12) hfound h2
  unfold segVal at h1 h2
  by_cases hA1 : a.weight = 1 ∧ t1 - wsf < 1 / 2
  · rw [if_pos hA1] at h1; simp at h1; subst h1; exact w2.1
  · rw [if_neg hA1] at h1
    have hA2 : ¬ (a.weight = 1 ∧ t2 - wsf < 1 / 2) := by
      intro h; exact hA1 ⟨h.1, by linarith [h.2]⟩
    rw [if_neg hA2] at h2
    by_cases hB2 : b.weight = 1 ∧ wsf + ((a.weight + b.weight : Nat) : Rat) / 2 - t2 ≤ 1 / 2
    · rw [if_pos hB2] at h2; simp at h2; subst h2; exact w1.2
    · rw [if_neg hB2] at h2
      have hB1 : ¬ (b.weight = 1 ∧ wsf + ((a.weight + b.weight : Nat) : Rat) / 2 - t1 ≤ 1 / 2) := by
        intro h; exact hB2 ⟨h.1, by linarith [h.2]⟩
      rw [if_neg hB1] at h1
      obtain ⟨u1, v1⟩ := seg_weights hlow hf1 hA1 hB1
      obtain ⟨u2, v2⟩ := seg_weights (le_trans hlow h12) hfound hA2 hB2
      rw [hq] at h1 h2
      simp only [Bool.false_eq_true, if_false] at h1 h2
      have h1' := Option.some.inj h1
      have h2' := Option.some.inj h2
      subst h1' h2'
      unfold wavg
      simp only [rat_add, rat_mul, rat_div]
      -- both denominators equal D = dw - left - right > 0
      set L : Rat := if a.weight = 1 then 1 / 2 else 0 with hL
      set R : Rat := if b.weight = 1 then 1 / 2 else 0 with hR
      set P' : Rat := wsf + ((a.weight + b.weight : Nat) : Rat) / 2 with hP
      have hD1 : P' - t1 - R + (t1 - wsf - L) = P' - wsf - L - R := by ring
      have hD2 : P' - t2 - R + (t2 - wsf - L) = P' - wsf - L - R := by ring
      have hD : 0 < P' - wsf - L - R := by linarith
      rw [hD1, hD2, div_le_div_iff_of_pos_right hD]
      nlinarith

theorem exists_upper (l : List C) : ∃ hi : Rat, ∀ c ∈ l, c.mean ≤ hi := by
  induction l with
  | nil => exact ⟨0, by simp⟩
  | cons a t ih =>
    obtain ⟨hi, h⟩ := ih
    refine ⟨max a.mean hi, ?_⟩
    intro c hc
    rcases List.mem_cons.1 hc with rfl | hc
    · exact le_max_left _ _
    · exact le_trans (h c hc) (le_max_right _ _)

/-- the interpolation loop is non-decreasing in the target weight (reference order) -/
theorem quantLoop_mono (tun : Tun) (hq : tun.quantW1W2 = false) (cw : Nat) (mx t1 t2 : Rat) (h12 : t1 ≤ t2) (l : List C) :
    ∀ (a : C) (n : Nat), l ≠ [] → Sorted (a :: l) →
      cw = n + sumWeights (a :: l) →
      (∀ e, (a :: l).getLast? = some e → e.weight = 1) →
      (n : Rat) + (a.weight : Rat) / 2 ≤ t1 → t2 ≤ (cw : Rat) - 1 →
      ∀ q1 q2, quantLoop tun (cw : Rat) mx t1 ((n : Rat) + (a.weight : Rat) / 2) (a :: l) = some q1 →
        quantLoop tun (cw : Rat) mx t2 ((n : Rat) + (a.weight : Rat) / 2) (a :: l) = some q2 → q1 ≤ q2 := by
  induction l with
  | nil => intro a n h; exact absurd rfl h
  | cons b rest ih =>
    intro a n _ hs hcw hlast hlow hupp q1 q2 h1 h2
    have hs' := hs
    unfold Sorted at hs'
    rw [List.pairwise_cons] at hs'
    have hab : a.mean ≤ b.mean := hs'.1 b (List.mem_cons_self ..)
    have hsb : Sorted (b :: rest) := hs'.2
    rw [quantLoop_cons2] at h1 h2
    have hwsf : (n : Rat) + (a.weight : Rat) / 2 + ((a.weight + b.weight : Nat) : Rat) / 2
        = ((n + a.weight : Nat) : Rat) + (b.weight : Rat) / 2 := by push_cast; ring
    -- the last centroid has weight 1, so falling through the last segment is impossible
    have hlastseg : rest = [] → ∀ t, t ≤ (cw : Rat) - 1 →
        t < (n : Rat) + (a.weight : Rat) / 2 + ((a.weight + b.weight : Nat) : Rat) / 2 := by
      intro hr t ht
      subst hr
      have hb1 : b.weight = 1 := hlast b (by simp)
      have : (cw : Rat) = (n : Rat) + (a.weight : Rat) + 1 := by
        rw [hcw]; simp [hb1]; ring
      rw [hb1]; push_cast; linarith
    by_cases f2 : t2 < (n : Rat) + (a.weight : Rat) / 2 + ((a.weight + b.weight : Nat) : Rat) / 2
    · have f1 : t1 < (n : Rat) + (a.weight : Rat) / 2 + ((a.weight + b.weight : Nat) : Rat) / 2 := lt_of_le_of_lt h12 f2
      rw [if_pos f1] at h1; rw [if_pos f2] at h2
      exact segVal_mono tun hq hab hlow h12 f2 h1 h2
    · rw [if_neg f2] at h2
      have hrest : rest ≠ [] := fun hr => f2 (hlastseg hr t2 hupp)
      have hcw' : cw = (n + a.weight) + sumWeights (b :: rest) := by rw [hcw]; simp; omega
      have hlast' : ∀ e, (b :: rest).getLast? = some e → e.weight = 1 := by
        intro e he; apply hlast e; rw [List.getLast?_cons_cons]; exact he
      by_cases f1 : t1 < (n : Rat) + (a.weight : Rat) / 2 + ((a.weight + b.weight : Nat) : Rat) / 2
      · -- t1 falls into (a, b), t2 further right: q1 ≤ b.mean ≤ q2
        rw [if_pos f1] at h1
        have w1 := segVal_within tun hab hlow f1 h1
        obtain ⟨hi, hhi⟩ := exists_upper (b :: rest)
        rw [hwsf] at h2 f2
        obtain ⟨q, hq2, hq2lo, _⟩ := quantLoop_within tun cw mx t2 b.mean hi rest b (n + a.weight) hrest hcw' hlast'
          (not_lt.1 f2) hupp (fun c hc => ⟨head_le_of_sorted hsb c hc, hhi c hc⟩)
        rw [hq2] at h2; simp at h2; subst h2
        linarith [w1.2]
      · rw [if_neg f1] at h1
        rw [hwsf] at h1 h2 f1
        exact ih b (n + a.weight) hrest hsb hcw' hlast' (not_lt.1 f1) hupp q1 q2 h1 h2

/-- which branch `quantC` takes on a compressed state with at least two centroids -/
theorem quantC_cases (tun : Tun) {s : St Rat} (h : Compressed s) {a c2 : C} {rest : List C} (hcs : s.cs = a :: c2 :: rest) (r : Rat) :
    a.weight = 1 ∧ s.cw = 0 + sumWeights (a :: c2 :: rest) ∧ (2 : Rat) ≤ (s.cw : Rat) ∧
    ((r * (s.cw : Rat) < 1 ∧ quantC tun s r = some s.min) ∨
     (1 ≤ r * (s.cw : Rat) ∧ (s.cw : Rat) - 1 < r * (s.cw : Rat) ∧ quantC tun s r = some s.max) ∨
     (1 ≤ r * (s.cw : Rat) ∧ r * (s.cw : Rat) ≤ (s.cw : Rat) - 1 ∧
        quantC tun s r = quantLoop tun (s.cw : Rat) s.max (r * (s.cw : Rat)) (((0 : Nat) : Rat) + (a.weight : Rat) / 2) (a :: c2 :: rest))) := by
  obtain ⟨f, hf, hfm, hfw⟩ := h.head
  obtain ⟨l, hl, hlm, hlw⟩ := h.last
  rw [hcs] at hf hl
  simp at hf
  subst hf
  have hcw : s.cw = 0 + sumWeights (a :: c2 :: rest) := by rw [h.inv.cw, hcs]; simp
  have hc2 : 1 ≤ c2.weight := h.inv.pos c2 (by rw [hcs]; simp)
  have hcw2 : (2 : Rat) ≤ (s.cw : Rat) := by
    have : 2 ≤ s.cw := by rw [hcw]; simp; omega
    exact_mod_cast this
  refine ⟨hfw, hcw, hcw2, ?_⟩
  unfold quantC
  rw [hcs]
  simp +zetaHave only [rat_mul, rat_ofNat, rat_lt, rat_sub, rat_div, rat_le, Nat.cast_ofNat, Nat.cast_zero, Nat.cast_one,
    Bool.and_eq_true]
  by_cases hw1 : r * (s.cw : Rat) < 1
  · rw [if_pos hw1]; left; exact ⟨hw1, rfl⟩
  · rw [if_neg hw1]
    right
    by_cases hw2 : (s.cw : Rat) - 1 < r * (s.cw : Rat)
    · rw [if_pos hw2]; left; exact ⟨not_lt.1 hw1, hw2, rfl⟩
    · rw [if_neg hw2]
      right
      have hnf : ¬ ((1 : Rat) < (a.weight : Rat) ∧ r * (s.cw : Rat) < (a.weight : Rat) / 2) := by
        rw [hfw]; push_cast; intro h; linarith [h.1]
      rw [if_neg hnf]
      have hlastq : (c2 :: rest).getLast? = some l := by
        rw [List.getLast?_cons_cons] at hl; exact hl
      rw [hlastq]
      simp only []
      have hnl : ¬ ((1 : Rat) < (l.weight : Rat) ∧ (s.cw : Rat) - r * (s.cw : Rat) ≤ (l.weight : Rat) / 2) := by
        rw [hlw]; push_cast; intro h; linarith [h.1]
      rw [if_neg hnl]
      refine ⟨not_lt.1 hw1, not_lt.1 hw2, ?_⟩
      congr 1
      ring

/-- `get_quantile` after the compress is non-decreasing in the rank (reference order) -/
theorem quantC_mono (tun : Tun) (hq : tun.quantW1W2 = false) {s : St Rat} (h : Compressed s) (r1 r2 : Rat)
    (h0 : 0 ≤ r1) (h12 : r1 ≤ r2) (h1 : r2 ≤ 1) (q1 q2 : Rat)
    (e1 : quantC tun s r1 = some q1) (e2 : quantC tun s r2 = some q2) : q1 ≤ q2 := by
  obtain ⟨q1', e1', a1, b1, _, _⟩ := quantC_within tun h r1 h0 (le_trans h12 h1)
  obtain ⟨q2', e2', a2, b2, _, _⟩ := quantC_within tun h r2 (le_trans h0 h12) h1
  rw [e1] at e1'; rw [e2] at e2'
  simp at e1' e2'
  subst e1' e2'
  cases hcs : s.cs with
  | nil => exact absurd hcs h.ne
  | cons a t =>
    cases t with
    | nil =>
      unfold quantC at e1 e2
      rw [hcs] at e1 e2
      simp at e1 e2
      rw [← e1, ← e2]
    | cons c2 rest =>
      obtain ⟨haw, hcw, hcw2, c1⟩ := quantC_cases tun h hcs r1
      obtain ⟨_, _, _, c2'⟩ := quantC_cases tun h hcs r2
      have hWpos : (0 : Rat) < (s.cw : Rat) := by linarith
      have ht : r1 * (s.cw : Rat) ≤ r2 * (s.cw : Rat) := mul_le_mul_of_nonneg_right h12 hWpos.le
      rcases c1 with ⟨_, x1⟩ | ⟨_, _, x1⟩ | ⟨l1, u1, x1⟩
      · rw [x1] at e1; simp at e1; rw [← e1]; exact a2
      · rcases c2' with ⟨_, x2⟩ | ⟨_, _, x2⟩ | ⟨_, u2, _⟩
        · linarith
        · rw [x1] at e1; rw [x2] at e2; simp at e1 e2; rw [← e1, ← e2]
        · linarith
      · rcases c2' with ⟨_, x2⟩ | ⟨_, _, x2⟩ | ⟨l2, u2, x2⟩
        · linarith
        · rw [x2] at e2; simp at e2; rw [← e2]; exact b1
        · rw [x1] at e1; rw [x2] at e2
          obtain ⟨l, hl, _, hlw⟩ := h.last
          rw [hcs] at hl
          exact quantLoop_mono tun hq s.cw s.max _ _ ht (c2 :: rest) a 0 (by simp)
            (by rw [← hcs]; exact h.inv.sorted) hcw
            (by intro e he; rw [hl] at he; simp at he; subst he; exact hlw)
            (by rw [haw]; push_cast; linarith) u2 q1 q2 e1 e2

/-- `get_quantile` is non-decreasing in the rank on every invariant state (reference order) -/
theorem getQuantile_mono (sc : Scale Rat) (hsc : ScaleOK sc) (tun : Tun) (hq : tun.quantW1W2 = false) (s : St Rat)
    (hs : Inv s) (hne : s.isEmpty = false) (r1 r2 : Rat) (h0 : 0 ≤ r1) (h12 : r1 ≤ r2) (h1 : r2 ≤ 1) (q1 q2 : Rat)
    (e1 : (getQuantile sc tun s r1).1 = some q1) (e2 : (getQuantile sc tun s r2).1 = some q2) : q1 ≤ q2 := by
  rw [getQuantile_eq sc tun s hne r1 h0 (le_trans h12 h1)] at e1
  rw [getQuantile_eq sc tun s hne r2 (le_trans h0 h12) h1] at e2
  exact quantC_mono tun hq (compress_compressed sc hsc tun s hs hne) r1 r2 h0 h12 h1 q1 q2 e1 e2

end DS.TDigest

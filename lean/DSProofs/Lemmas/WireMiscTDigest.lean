/- t-digest image and the two big-endian reference formats: round trip, size, prefix safety, consumption
   (helper lemmas for Props/C09_TDigest, C10_TDigest, C11_TDigest). -/
import DSProofs.Lemmas.WireMisc
import DSModel.Wire.TDigest
namespace DS.Wire.TDigest
open DS.Wire

/-! ### flags byte -/

theorem flags_ok (c : Consts) (h : allBool3 (flagsRoundTrip c) = true) (e s r : Bool) :
    flagsOf c e s r < 256 ∧ bitAt c.emptyBit (flagsOf c e s r) = e ∧
    bitAt c.singleBit (flagsOf c e s r) = s ∧ bitAt c.reverseBit (flagsOf c e s r) = r := by
  simp only [allBool3, flagsRoundTrip, Bool.and_eq_true, decide_eq_true_eq, beq_iff_eq] at h
  cases e <;> cases s <;> cases r <;> simp_all

/-! ### generic length of a flatMap with constant-length pieces -/

theorem length_flatMap_const {α : Type} (f : α → Bytes) (m : Nat) (l : List α) (h : ∀ x ∈ l, (f x).length = m) :
    (l.flatMap f).length = l.length * m := by
  induction l with
  | nil => simp
  | cons x t ih =>
    have hx := h x (by simp)
    have iht := ih (fun y hy => h y (by simp [hy]))
    simp only [List.flatMap_cons, List.length_append, hx, iht, List.length_cons, Nat.succ_mul]
    omega

/-! ### main format -/

theorem cent_roundtrip (tsz wsz : Nat) (p : Nat × Nat) (h1 : p.1 < 256 ^ tsz) (h2 : p.2 < 256 ^ wsz) (t : Bytes) :
    cent tsz wsz (encodeCent tsz wsz p ++ t) = some (p, t) := by
  simp only [cent, encodeCent, List.append_assoc]
  rw [bind_leNat _ _ h1, bind_leNat _ _ h2]
  rfl

theorem decode_encode_lem (c : Consts) (hc : c.Valid) (tsz wsz : Nat) (s : Img) (hs : WF tsz wsz s) (tail : Bytes) :
    decode c tsz wsz (encode c tsz wsz s ++ tail) = some (s, tail) := by
  obtain ⟨h1, h2, h3, h4, h5, _, _, _⟩ := hc
  obtain ⟨g1, g2⟩ := hs
  obtain ⟨k, rev, body⟩ := s
  cases body with
  | empty =>
    obtain ⟨f1, f2, f3, f4⟩ := flags_ok c h5 true false rev
    simp only [encode, decode, Body.isEmpty, Body.isSingle, Bool.true_or, if_true, List.append_assoc, encodeBody,
      List.nil_append]
    rw [bind_u8 _ h1, bind_u8 _ h3, bind_u8 _ h4, bind_guard_true _ (by simp), bind_guard_true _ (by simp),
      bind_u16 _ g1, bind_u8 _ f1, bind_guard_true _ (by simp [f2]), bind_skip_zeros]
    simp [decodeBody, f2, f4, Reader.pure]
  | single v =>
    obtain ⟨f1, f2, f3, f4⟩ := flags_ok c h5 false true rev
    simp only [WFBody] at g2
    simp only [encode, decode, Body.isEmpty, Body.isSingle, Bool.or_true, if_true, List.append_assoc, encodeBody]
    rw [bind_u8 _ h1, bind_u8 _ h3, bind_u8 _ h4, bind_guard_true _ (by simp), bind_guard_true _ (by simp),
      bind_u16 _ g1, bind_u8 _ f1, bind_guard_true _ (by simp [f3]), bind_skip_zeros]
    simp only [decodeBody, f2, f3, f4, Bool.false_eq_true, if_false, if_true]
    rw [bind_leNat _ _ g2]
    rfl
  | multi mn mx cents buf =>
    obtain ⟨f1, f2, f3, f4⟩ := flags_ok c h5 false false rev
    obtain ⟨b1, b2, b3, b4, b5, b6⟩ := g2
    simp only [encode, decode, Body.isEmpty, Body.isSingle, Bool.or_self, Bool.false_eq_true, if_false,
      List.append_assoc, encodeBody]
    rw [bind_u8 _ h2, bind_u8 _ h3, bind_u8 _ h4, bind_guard_true _ (by simp), bind_guard_true _ (by simp),
      bind_u16 _ g1, bind_u8 _ f1, bind_guard_true _ (by simp [f2, f3]), bind_skip_zeros]
    simp only [decodeBody, f2, f3, f4, Bool.false_eq_true, if_false]
    rw [bind_u32 _ b3, bind_u32 _ b4, bind_leNat _ _ b1, bind_leNat _ _ b2,
      bind_repeatN (cent tsz wsz) (encodeCent tsz wsz) cents _ rfl
        (fun p hp t => cent_roundtrip tsz wsz p (b5 p hp).1 (b5 p hp).2 t),
      bind_repeatN (leNat tsz) (wLe tsz) buf _ rfl (fun v hv t => leNat_wLe tsz v (b6 v hv) t)]
    rfl

theorem size_eq_lem (c : Consts) (tsz wsz : Nat) (s : Img) :
    (encode c tsz wsz s).length = serializedSize tsz wsz s := by
  obtain ⟨k, rev, body⟩ := s
  cases body with
  | empty => simp [encode, serializedSize, encodeBody, w8, w16, length_wLe, length_wZeros]
  | single v =>
    simp only [encode, serializedSize, encodeBody, w8, w16, length_wLe, length_wZeros, List.length_append]
    omega
  | multi mn mx cents buf =>
    have h1 := length_flatMap_const (encodeCent tsz wsz) (tsz + wsz) cents
      (fun p _ => by simp [encodeCent, length_wLe])
    have h2 := length_flatMap_const (wLe tsz) tsz buf (fun p _ => length_wLe tsz p)
    simp only [encode, serializedSize, encodeBody, w8, w16, w32, length_wLe, length_wZeros, List.length_append, h1, h2]
    omega

theorem cent_PS (tsz wsz : Nat) : PS (cent tsz wsz) :=
  PS_bind _ _ (PS_leNat _) fun _ => PS_bind _ _ (PS_leNat _) fun _ => PS_pure _

theorem decodeBody_PS (tsz wsz k : Nat) (e s r : Bool) : PS (decodeBody tsz wsz k e s r) := by
  unfold decodeBody
  exact PS_ite _ _ _ (PS_pure _) (PS_ite _ _ _
    (PS_bind _ _ (PS_leNat _) fun _ => PS_pure _)
    (PS_bind _ _ (PS_leNat 4) fun _ => PS_bind _ _ (PS_leNat 4) fun _ => PS_bind _ _ (PS_leNat _) fun _ =>
     PS_bind _ _ (PS_leNat _) fun _ => PS_bind _ _ (PS_repeatN _ (cent_PS tsz wsz) _) fun _ =>
     PS_bind _ _ (PS_repeatN _ (PS_leNat _) _) fun _ => PS_pure _))

theorem decode_PS_lem (c : Consts) (tsz wsz : Nat) : PS (decode c tsz wsz) :=
  PS_bind _ _ (PS_leNat 1) fun _ => PS_bind _ _ (PS_leNat 1) fun _ => PS_bind _ _ (PS_leNat 1) fun _ =>
  PS_bind _ _ (PS_guard _) fun _ => PS_bind _ _ (PS_guard _) fun _ => PS_bind _ _ (PS_leNat 2) fun _ =>
  PS_bind _ _ (PS_leNat 1) fun _ => PS_bind _ _ (PS_guard _) fun _ => PS_bind _ _ (PS_skip 2) fun _ =>
  decodeBody_PS _ _ _ _ _ _

theorem cent_inv (tsz wsz : Nat) (b r : Bytes) (p : Nat × Nat) (h : cent tsz wsz b = some (p, r)) :
    b.length = (tsz + wsz) + r.length ∧ (p.1 < 256 ^ tsz ∧ p.2 < 256 ^ wsz) := by
  simp only [cent] at h
  obtain ⟨m, r1, e1, k1⟩ := bind_eq_some h
  obtain ⟨w, r2, e2, k2⟩ := bind_eq_some k1
  obtain ⟨hp, hr⟩ := pure_eq_some k2
  have ⟨l1, b1⟩ := leNat_inv tsz e1
  have ⟨l2, b2⟩ := leNat_inv wsz e2
  subst hp; subst hr
  exact ⟨by omega, b1, b2⟩

theorem decode_consumes_lem (c : Consts) (tsz wsz : Nat) (b r : Bytes) (s : Img)
    (h : decode c tsz wsz b = some (s, r)) : b.length = serializedSize tsz wsz s + r.length ∧ WF tsz wsz s := by
  simp only [decode] at h
  obtain ⟨pre, r1, e1, k1⟩ := bind_eq_some h
  obtain ⟨ver, r2, e2, k2⟩ := bind_eq_some k1
  obtain ⟨typ, r3, e3, k3⟩ := bind_eq_some k2
  obtain ⟨_, r4, e4, k4⟩ := bind_eq_some k3
  obtain ⟨_, r5, e5, k5⟩ := bind_eq_some k4
  obtain ⟨k, r6, e6, k6⟩ := bind_eq_some k5
  obtain ⟨flags, r7, e7, k7⟩ := bind_eq_some k6
  obtain ⟨_, r8, e8, k8⟩ := bind_eq_some k7
  obtain ⟨_, r9, e9, k9⟩ := bind_eq_some k8
  have l1 := (leNat_inv 1 e1).1
  have l2 := (leNat_inv 1 e2).1
  have l3 := (leNat_inv 1 e3).1
  have l4 := (guard_eq_some e4).2
  have l5 := (guard_eq_some e5).2
  have ⟨l6, b6⟩ := leNat_inv 2 e6
  have l7 := (leNat_inv 1 e7).1
  have l8 := (guard_eq_some e8).2
  have l9 := skip_inv e9
  rw [l4] at l5; rw [l5] at l6; rw [l8] at l9
  unfold decodeBody at k9
  split at k9
  · obtain ⟨hs, hr⟩ := pure_eq_some k9
    subst hs; subst hr
    exact ⟨by simp only [serializedSize]; omega, by omega, trivial⟩
  · split at k9
    · obtain ⟨v, r10, e10, k10⟩ := bind_eq_some k9
      obtain ⟨hs, hr⟩ := pure_eq_some k10
      have ⟨l10, b10⟩ := leNat_inv tsz e10
      subst hs; subst hr
      exact ⟨by simp only [serializedSize]; omega, by omega, b10⟩
    · obtain ⟨nc, r10, e10, k10⟩ := bind_eq_some k9
      obtain ⟨nb, r11, e11, k11⟩ := bind_eq_some k10
      obtain ⟨mn, r12, e12, k12⟩ := bind_eq_some k11
      obtain ⟨mx, r13, e13, k13⟩ := bind_eq_some k12
      obtain ⟨cents, r14, e14, k14⟩ := bind_eq_some k13
      obtain ⟨buf, r15, e15, k15⟩ := bind_eq_some k14
      obtain ⟨hs, hr⟩ := pure_eq_some k15
      have ⟨l10, b10⟩ := leNat_inv 4 e10
      have ⟨l11, b11⟩ := leNat_inv 4 e11
      have ⟨l12, b12⟩ := leNat_inv tsz e12
      have ⟨l13, b13⟩ := leNat_inv tsz e13
      obtain ⟨c1, c2, c3⟩ := repeatN_inv (cent tsz wsz) (tsz + wsz) (fun p => p.1 < 256 ^ tsz ∧ p.2 < 256 ^ wsz)
        (fun b x r hh => cent_inv tsz wsz b r x hh) nc e14
      obtain ⟨d1, d2, d3⟩ := repeatN_inv (leNat tsz) tsz (fun v => v < 256 ^ tsz)
        (fun b x r hh => leNat_inv tsz hh) nb e15
      subst hs; subst hr
      refine ⟨by simp only [serializedSize, c1, d1]; omega, by omega, ?_⟩
      exact ⟨b12, b13, by omega, by omega, c3, d3⟩

/-! ### big-endian fields -/

theorem beVal_fold_lt : ∀ (bs : Bytes) (a : Nat),
    bs.foldl (fun a x => a * 256 + x.toNat) a < (a + 1) * 256 ^ bs.length
  | [], a => by simp
  | x :: t, a => by
    have ih := beVal_fold_lt t (a * 256 + x.toNat)
    have hx : x.toNat < 256 := x.toNat_lt
    simp only [List.foldl_cons, List.length_cons, Nat.pow_succ]
    have : (a * 256 + x.toNat + 1) * 256 ^ t.length ≤ (a + 1) * 256 * 256 ^ t.length :=
      Nat.mul_le_mul_right _ (by omega)
    calc _ < (a * 256 + x.toNat + 1) * 256 ^ t.length := ih
      _ ≤ (a + 1) * 256 * 256 ^ t.length := this
      _ = (a + 1) * (256 ^ t.length * 256) := by rw [Nat.mul_assoc, Nat.mul_comm 256]

theorem beVal_lt (bs : Bytes) : beVal bs < 256 ^ bs.length := by
  have := beVal_fold_lt bs 0
  simpa [beVal] using this

theorem leVal_wLe : ∀ (n x : Nat), x < 256 ^ n →
    (wLe n x).foldr (fun b acc => acc * 256 + b.toNat) 0 = x
  | 0, x, h => by
    have : x = 0 := by simpa using h
    subst this; rfl
  | n + 1, x, h => by
    have hdiv : x / 256 < 256 ^ n := by
      rw [Nat.div_lt_iff_lt_mul (by decide)]
      rw [Nat.pow_succ] at h; exact h
    have ih := leVal_wLe n (x / 256) hdiv
    have h256 : (UInt8.ofNat (x % 256)).toNat = x % 256 := by
      simp [UInt8.toNat_ofNat', Nat.mod_mod_of_dvd]
    simp only [wLe, List.foldr_cons, ih, h256]
    omega

theorem beVal_wBe (n x : Nat) (h : x < 256 ^ n) : beVal (wBe n x) = x := by
  simp only [beVal, wBe, List.foldl_reverse]
  exact leVal_wLe n x h

theorem length_wBe (n x : Nat) : (wBe n x).length = n := by simp [wBe, length_wLe]

theorem bind_beNat {β : Type} (n x : Nat) (hx : x < 256 ^ n) (f : Nat → Reader β) (r : Bytes) :
    Reader.bind (beNat n) f (wBe n x ++ r) = f x r := by
  simp only [beNat]
  have := bytesN_append (wBe n x) r
  rw [length_wBe] at this
  simp [Reader.bind, this, Reader.pure, beVal_wBe n x hx]

theorem beNat_inv (n : Nat) {b r : Bytes} {x : Nat} (h : beNat n b = some (x, r)) :
    b.length = n + r.length ∧ x < 256 ^ n := by
  simp only [beNat] at h
  obtain ⟨bs, r1, e1, k1⟩ := bind_eq_some h
  obtain ⟨hx, hr⟩ := pure_eq_some k1
  obtain ⟨h1, h2⟩ := bytesN_inv n e1
  subst hx; subst hr
  refine ⟨by rw [h1]; simp [h2], ?_⟩
  have := beVal_lt bs
  rwa [h2] at this

theorem PS_beNat (n : Nat) : PS (beNat n) := PS_bind _ _ (PS_bytesN n) fun _ => PS_pure _

theorem pairBe_PS (n : Nat) : PS (pairBe n) :=
  PS_bind _ _ (PS_beNat _) fun _ => PS_bind _ _ (PS_beNat _) fun _ => PS_pure _

theorem pairBe_roundtrip (n : Nat) (p : Nat × Nat) (h1 : p.1 < 256 ^ n) (h2 : p.2 < 256 ^ n) (t : Bytes) :
    pairBe n (encodePairBe n p ++ t) = some (p, t) := by
  simp only [pairBe, encodePairBe, List.append_assoc]
  rw [bind_beNat _ _ h1, bind_beNat _ _ h2]
  rfl

theorem pairBe_inv (n : Nat) (b r : Bytes) (p : Nat × Nat) (h : pairBe n b = some (p, r)) :
    b.length = (n + n) + r.length ∧ (p.1 < 256 ^ n ∧ p.2 < 256 ^ n) := by
  simp only [pairBe] at h
  obtain ⟨m, r1, e1, k1⟩ := bind_eq_some h
  obtain ⟨w, r2, e2, k2⟩ := bind_eq_some k1
  obtain ⟨hp, hr⟩ := pure_eq_some k2
  have ⟨l1, b1⟩ := beNat_inv n e1
  have ⟨l2, b2⟩ := beNat_inv n e2
  subst hp; subst hr
  exact ⟨by omega, b1, b2⟩

/-! ### legacy formats -/

theorem legacy_decode_encode_lem (c : Consts) (hc : c.Valid) (s : Legacy) (hs : WFLegacy s) (tail : Bytes) :
    decodeLegacy c (encodeLegacy c s ++ tail) = some (s, tail) := by
  obtain ⟨_, _, _, _, _, h6, h7, h8⟩ := hc
  have z3 : wZeros 3 = w8 0 ++ (w8 0 ++ w8 0) := by decide
  cases s with
  | big mn mx comp cents =>
    obtain ⟨b1, b2, b3, b4, b5⟩ := hs
    simp only [encodeLegacy, decodeLegacy, z3, List.append_assoc]
    rw [bind_u8 _ (by decide), bind_u8 _ (by decide), bind_u8 _ (by decide), bind_guard_true _ (by decide), bind_u8 _ h6]
    simp only [decodeLegacyBody, beq_self_eq_true, if_true]
    rw [bind_beNat _ _ b1, bind_beNat _ _ b2, bind_beNat _ _ b3, bind_beNat _ _ b4,
      bind_repeatN (pairBe 8) (encodePairBe 8) cents _ rfl
        (fun p hp t => pairBe_roundtrip 8 p (b5 p hp).1 (b5 p hp).2 t)]
    rfl
  | small mn mx comp c1 c2 cents =>
    obtain ⟨b1, b2, b3, b4, b5, b6, b7⟩ := hs
    have hne : (c.compatFloat == c.compatDouble) = false := by
      simp only [beq_eq_false_iff_ne, ne_eq]; exact fun h => h8 h.symm
    simp only [encodeLegacy, decodeLegacy, z3, List.append_assoc]
    rw [bind_u8 _ (by decide), bind_u8 _ (by decide), bind_u8 _ (by decide), bind_guard_true _ (by decide), bind_u8 _ h7]
    simp only [decodeLegacyBody, hne, Bool.false_eq_true, if_false, beq_self_eq_true, if_true]
    rw [bind_beNat _ _ b1, bind_beNat _ _ b2, bind_beNat _ _ b3, bind_beNat _ _ b4, bind_beNat _ _ b5,
      bind_beNat _ _ b6,
      bind_repeatN (pairBe 4) (encodePairBe 4) cents _ rfl
        (fun p hp t => pairBe_roundtrip 4 p (b7 p hp).1 (b7 p hp).2 t)]
    rfl

theorem decodeLegacyBody_PS (c : Consts) (ty : Nat) : PS (decodeLegacyBody c ty) := by
  unfold decodeLegacyBody
  exact PS_ite _ _ _
    (PS_bind _ _ (PS_beNat _) fun _ => PS_bind _ _ (PS_beNat _) fun _ => PS_bind _ _ (PS_beNat _) fun _ =>
     PS_bind _ _ (PS_beNat _) fun _ => PS_bind _ _ (PS_repeatN _ (pairBe_PS 8) _) fun _ => PS_pure _)
    (PS_ite _ _ _
      (PS_bind _ _ (PS_beNat _) fun _ => PS_bind _ _ (PS_beNat _) fun _ => PS_bind _ _ (PS_beNat _) fun _ =>
       PS_bind _ _ (PS_beNat _) fun _ => PS_bind _ _ (PS_beNat _) fun _ => PS_bind _ _ (PS_beNat _) fun _ =>
       PS_bind _ _ (PS_repeatN _ (pairBe_PS 4) _) fun _ => PS_pure _)
      PS_fail)

theorem decodeLegacy_PS_lem (c : Consts) : PS (decodeLegacy c) :=
  PS_bind _ _ (PS_leNat 1) fun _ => PS_bind _ _ (PS_leNat 1) fun _ => PS_bind _ _ (PS_leNat 1) fun _ =>
  PS_bind _ _ (PS_guard _) fun _ => PS_bind _ _ (PS_leNat 1) fun _ => decodeLegacyBody_PS c _

theorem legacy_size_eq_lem (c : Consts) (s : Legacy) : (encodeLegacy c s).length = legacySize s := by
  cases s with
  | big mn mx comp cents =>
    have h1 := length_flatMap_const (encodePairBe 8) 16 cents (fun p _ => by simp [encodePairBe, length_wBe])
    simp only [encodeLegacy, legacySize, w8, length_wLe, length_wZeros, length_wBe, List.length_append, h1]
    omega
  | small mn mx comp c1 c2 cents =>
    have h1 := length_flatMap_const (encodePairBe 4) 8 cents (fun p _ => by simp [encodePairBe, length_wBe])
    simp only [encodeLegacy, legacySize, w8, length_wLe, length_wZeros, length_wBe, List.length_append, h1]
    omega

theorem decodeLegacy_consumes_lem (c : Consts) (b r : Bytes) (s : Legacy) (h : decodeLegacy c b = some (s, r)) :
    b.length = legacySize s + r.length ∧ WFLegacy s := by
  simp only [decodeLegacy] at h
  obtain ⟨z0, r1, e1, k1⟩ := bind_eq_some h
  obtain ⟨z1, r2, e2, k2⟩ := bind_eq_some k1
  obtain ⟨z2, r3, e3, k3⟩ := bind_eq_some k2
  obtain ⟨_, r4, e4, k4⟩ := bind_eq_some k3
  obtain ⟨ty, r5, e5, k5⟩ := bind_eq_some k4
  have l1 := (leNat_inv 1 e1).1
  have l2 := (leNat_inv 1 e2).1
  have l3 := (leNat_inv 1 e3).1
  have l4 := (guard_eq_some e4).2
  have l5 := (leNat_inv 1 e5).1
  rw [l4] at l5
  unfold decodeLegacyBody at k5
  split at k5
  · obtain ⟨mn, r6, e6, k6⟩ := bind_eq_some k5
    obtain ⟨mx, r7, e7, k7⟩ := bind_eq_some k6
    obtain ⟨comp, r8, e8, k8⟩ := bind_eq_some k7
    obtain ⟨nc, r9, e9, k9⟩ := bind_eq_some k8
    obtain ⟨cents, r10, e10, k10⟩ := bind_eq_some k9
    obtain ⟨hs, hr⟩ := pure_eq_some k10
    have ⟨l6, b6⟩ := beNat_inv 8 e6
    have ⟨l7, b7⟩ := beNat_inv 8 e7
    have ⟨l8, b8⟩ := beNat_inv 8 e8
    have ⟨l9, b9⟩ := beNat_inv 4 e9
    obtain ⟨c1, c2, c3⟩ := repeatN_inv (pairBe 8) (8 + 8) (fun p => p.1 < 256 ^ 8 ∧ p.2 < 256 ^ 8)
      (fun b x r hh => pairBe_inv 8 b r x hh) nc e10
    subst hs; subst hr
    exact ⟨by simp only [legacySize, c1]; omega, b6, b7, b8, by omega, c3⟩
  · split at k5
    · obtain ⟨mn, r6, e6, k6⟩ := bind_eq_some k5
      obtain ⟨mx, r7, e7, k7⟩ := bind_eq_some k6
      obtain ⟨comp, r8, e8, k8⟩ := bind_eq_some k7
      obtain ⟨p1, r9, e9, k9⟩ := bind_eq_some k8
      obtain ⟨p2, r10, e10, k10⟩ := bind_eq_some k9
      obtain ⟨nc, r11, e11, k11⟩ := bind_eq_some k10
      obtain ⟨cents, r12, e12, k12⟩ := bind_eq_some k11
      obtain ⟨hs, hr⟩ := pure_eq_some k12
      have ⟨l6, b6⟩ := beNat_inv 8 e6
      have ⟨l7, b7⟩ := beNat_inv 8 e7
      have ⟨l8, b8⟩ := beNat_inv 4 e8
      have ⟨l9, b9⟩ := beNat_inv 2 e9
      have ⟨l10, b10⟩ := beNat_inv 2 e10
      have ⟨l11, b11⟩ := beNat_inv 2 e11
      obtain ⟨c1, c2, c3⟩ := repeatN_inv (pairBe 4) (4 + 4) (fun p => p.1 < 256 ^ 4 ∧ p.2 < 256 ^ 4)
        (fun b x r hh => pairBe_inv 4 b r x hh) nc e12
      subst hs; subst hr
      exact ⟨by simp only [legacySize, c1]; omega, b6, b7, b8, b9, b10, by omega, c3⟩
    · simp [Reader.fail] at k5

end DS.Wire.TDigest

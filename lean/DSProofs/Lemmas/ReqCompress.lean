/- `compressLoop` keeps the structural invariants, the bookkeeping and the total weight. (Helper lemmas.) -/
import DSProofs.Lemmas.ReqCompact
namespace DS.Req

variable {ρ : Type}

def CsInv (T : Tun) (hra : Bool) : Nat → List (Compactor ρ) → Prop
  | _, [] => True
  | h, c :: t => CInv T hra h c ∧ CsInv T hra (h + 1) t

def AllNE (cs : List (Compactor ρ)) : Prop := ∀ c ∈ cs, c.items ≠ []

/-- Σ (number of items) · 2^lgWeight -/
def totalW (cs : List (Compactor ρ)) : Nat := weightP (fun _ => true) cs

@[simp] theorem sumItems_nil : sumItems ([] : List (Compactor ρ)) = 0 := rfl
@[simp] theorem sumItems_cons (c : Compactor ρ) (t) : sumItems (c :: t) = c.items.length + sumItems t := by
  simp [sumItems, Compactor.numItems]
@[simp] theorem sumCap_nil (T : Tun) : sumCap T ([] : List (Compactor ρ)) = 0 := rfl
@[simp] theorem sumCap_cons (T : Tun) (c : Compactor ρ) (t) : sumCap T (c :: t) = c.nomCap T + sumCap T t := by
  simp [sumCap]
theorem sumCap_append (T : Tun) (a b : List (Compactor ρ)) : sumCap T (a ++ b) = sumCap T a + sumCap T b := by
  simp [sumCap, List.sum_append]
theorem sumItems_append (a b : List (Compactor ρ)) : sumItems (a ++ b) = sumItems a + sumItems b := by
  simp [sumItems, List.sum_append]
@[simp] theorem weightP_nil (p : Int → Bool) : weightP p ([] : List (Compactor ρ)) = 0 := rfl
@[simp] theorem weightP_cons (p : Int → Bool) (c : Compactor ρ) (t) :
    weightP p (c :: t) = cntP p c.items * 2 ^ c.lgWeight + weightP p t := by
  simp [weightP]
theorem weightP_append (p : Int → Bool) (a b : List (Compactor ρ)) : weightP p (a ++ b) = weightP p a + weightP p b := by
  simp [weightP, List.sum_append]
@[simp] theorem totalW_nil : totalW ([] : List (Compactor ρ)) = 0 := rfl
@[simp] theorem totalW_cons (c : Compactor ρ) (t) : totalW (c :: t) = c.items.length * 2 ^ c.lgWeight + totalW t := by
  simp [totalW, cntP_true]

theorem AllNE_cons {c : Compactor ρ} {t} : AllNE (c :: t) ↔ c.items ≠ [] ∧ AllNE t := by
  simp [AllNE]
theorem AllNE_nil : AllNE ([] : List (Compactor ρ)) := by simp [AllNE]

/-! ### `sort` and `mk'` -/

theorem sort_length (c : Compactor ρ) : c.sort.items.length = c.items.length := by
  unfold Compactor.sort; split <;> simp [length_sortInts]

theorem sort_cntP (p : Int → Bool) (c : Compactor ρ) : cntP p c.sort.items = cntP p c.items := by
  unfold Compactor.sort; split <;> simp [cntP_sortInts]

theorem sort_fields (c : Compactor ρ) : c.sort.lgWeight = c.lgWeight ∧ c.sort.hra = c.hra ∧ c.sort.numSections = c.numSections ∧
    c.sort.sectionSize = c.sectionSize ∧ c.sort.state = c.state ∧ c.sort.coin = c.coin ∧ c.sort.entered = c.entered ∧
    c.sort.rnd = c.rnd ∧ c.sort.ssRaw = c.ssRaw := by
  unfold Compactor.sort; split <;> simp

theorem sort_nomCap (T : Tun) (c : Compactor ρ) : c.sort.nomCap T = c.nomCap T := by
  simp [Compactor.nomCap, sort_fields]

theorem sort_sorted {T : Tun} {hra : Bool} {h : Nat} {c : Compactor ρ} (hc : CInv T hra h c) : Sorted c.sort.items := by
  unfold Compactor.sort; split
  · rename_i hs; exact hc.srt (Or.inr hs)
  · exact sorted_sortInts _

theorem sort_CInv {T : Tun} {hra : Bool} {h : Nat} {c : Compactor ρ} (hc : CInv T hra h c) : CInv T hra h c.sort :=
  ⟨by rw [(sort_fields c).1]; exact hc.lg, by rw [(sort_fields c).2.1]; exact hc.hraEq,
   by rw [(sort_fields c).2.2.1]; exact hc.ns, by rw [(sort_fields c).2.2.2.1]; exact hc.ss, fun _ => sort_sorted hc⟩

theorem sort_ne {c : Compactor ρ} (h : c.items ≠ []) : c.sort.items ≠ [] := by
  intro h2; have := sort_length c; rw [h2] at this; cases hc : c.items with
  | nil => exact h hc
  | cons x t => rw [hc] at this; simp at this

theorem mk'_CInv {T : Tun} (hT : TunOK T) (F : SecFns ρ) (hra : Bool) (h k : Nat) (hk : 2 ≤ k) :
    CInv T hra h (Compactor.mk' T F hra h k) :=
  ⟨rfl, rfl, hT.sec1, hk, fun _ => by simp [Compactor.mk', Sorted]⟩

theorem mkC_fields (T : Tun) (F : SecFns ρ) (hra : Bool) (lg k : Nat) (d : Bool) :
    (Compactor.mkC T F hra lg k d).items = [] ∧ (Compactor.mkC T F hra lg k d).entered = [] ∧
    (Compactor.mkC T F hra lg k d).lgWeight = lg ∧ (Compactor.mkC T F hra lg k d).hra = hra ∧
    (Compactor.mkC T F hra lg k d).numSections = T.initSections ∧ (Compactor.mkC T F hra lg k d).sectionSize = k ∧
    (Compactor.mkC T F hra lg k d).state = 0 ∧ (Compactor.mkC T F hra lg k d).sorted = true ∧
    (Compactor.mkC T F hra lg k d).ssRaw = F.ofNat k ∧ (T.initCoinRandom = true → (Compactor.mkC T F hra lg k d).rnd = true ∧ (Compactor.mkC T F hra lg k d).coin = d) ∧
    (T.initCoinRandom = false → Compactor.mkC T F hra lg k d = Compactor.mk' T F hra lg k) := by
  unfold Compactor.mkC; split <;> simp_all [Compactor.mk']

theorem mkC_nomCap (T : Tun) (F : SecFns ρ) (hra : Bool) (lg k : Nat) (d : Bool) :
    (Compactor.mkC T F hra lg k d).nomCap T = T.multiplier * T.initSections * k := by
  have := mkC_fields T F hra lg k d
  simp [Compactor.nomCap, this.2.2.2.2.1, this.2.2.2.2.2.1]

theorem mkC_CInv {T : Tun} (hT : TunOK T) (F : SecFns ρ) (hra : Bool) (h k : Nat) (hk : 2 ≤ k) (d : Bool) :
    CInv T hra h (Compactor.mkC T F hra h k d) := by
  obtain ⟨a1, _, a3, a4, a5, a6, _⟩ := mkC_fields T F hra h k d
  exact ⟨a3, a4, by rw [a5]; exact hT.sec1, by rw [a6]; exact hk, fun _ => by rw [a1]; simp [Sorted]⟩

theorem drawIf_throws (a : Acc) (b : Bool) (lvl : Nat) : (a.drawIf b lvl).throws = a.throws := by
  cases b <;> simp [Acc.drawIf, Acc.draw]

/-! ### the loop -/

theorem afterCompact_throws (acc : Acc) (lvl : Nat) (fresh oc ok : Bool) (h : ok = true) :
    (acc.afterCompact lvl fresh oc ok).throws = acc.throws := by
  subst h; cases fresh <;> simp [Acc.afterCompact, Acc.draw]

/-- what `compressLoop` guarantees (for any fuel, any coins, lazy or not) -/
structure LoopSpec (T : Tun) (hra : Bool) (h : Nat) (todo : List (Compactor ρ)) (ctr : Ctr) (acc : Acc) (R0 M0 : Nat)
    (out : List (Compactor ρ) × Ctr × Acc) : Prop where
  inv : CsInv T hra h out.1
  ne : AllNE out.1
  ret : out.2.1.retained = R0 + sumItems out.1
  cap : out.2.1.maxNom = M0 + sumCap T out.1
  tw : totalW out.1 = totalW todo
  nonnil : todo ≠ [] → out.1 ≠ []
  throws : out.2.2.throws = acc.throws
  ent0 : out.1.head?.map (·.entered) = todo.head?.map (·.entered)
  len : todo.length ≤ out.1.length
  one : out.1.length = 1 → out.1 = todo

theorem compact_nxt_nomCap (T : Tun) (F : SecFns ρ) (c nxt : Compactor ρ) (d : Bool) :
    (c.compact T F nxt d).nxt.nomCap T = nxt.nomCap T := by
  simp [Compactor.compact, Compactor.nomCap]

theorem compact_nxt_lg (T : Tun) (F : SecFns ρ) (c nxt : Compactor ρ) (d : Bool) :
    (c.compact T F nxt d).nxt.lgWeight = nxt.lgWeight := by
  simp [Compactor.compact]

theorem pow_step (a b n x P : Nat) (h1 : a + 2 * n = b) :
    a * P + (x + n) * (P * 2) = b * P + x * (P * 2) := by
  subst h1
  rw [Nat.add_mul, Nat.add_mul, Nat.mul_assoc 2 n P, Nat.mul_comm P 2, ← Nat.mul_assoc n 2 P, Nat.mul_comm n 2, Nat.mul_assoc 2 n P]
  omega

theorem compressLoop_spec {T : Tun} (hT : TunOK T) (F : SecFns ρ) (hra : Bool) (k : Nat) (hk : 2 ≤ k) :
    ∀ (fuel h : Nat) (todo : List (Compactor ρ)) (ctr : Ctr) (acc : Acc) (R0 M0 : Nat),
      CsInv T hra h todo → AllNE todo →
      ctr.retained = R0 + sumItems todo → ctr.maxNom = M0 + sumCap T todo →
      LoopSpec T hra h todo ctr acc R0 M0 (compressLoop T F hra k fuel h todo ctr acc) := by
  intro fuel
  induction fuel with
  | zero =>
    intro h todo ctr acc R0 M0 hinv hne hr hm
    simp only [compressLoop]
    exact ⟨hinv, hne, hr, hm, rfl, fun x => x, rfl, rfl, Nat.le_refl _, fun _ => rfl⟩
  | succ fuel ih =>
    intro h todo ctr acc R0 M0 hinv hne hr hm
    cases todo with
    | nil =>
      simp only [compressLoop]
      exact ⟨hinv, hne, hr, hm, rfl, fun x => x, rfl, rfl, Nat.le_refl _, fun _ => rfl⟩
    | cons c rest =>
      obtain ⟨hc, hrest⟩ := hinv
      obtain ⟨hcne, hrne⟩ := AllNE_cons.1 hne
      simp only [sumItems_cons, sumCap_cons] at hr hm
      simp only [compressLoop, sortIf0, nextOf, ctrGrow, ctrAfter, Acc.growDraw]
      split
      · rename_i hfull
        simp only [Compactor.numItems, ge_iff_le] at hfull
        -- the compactor that is compacted (sorted first at level 0)
        have hc1 : CInv T hra h (if h = 0 then c.sort else c) := by split; exact sort_CInv hc; exact hc
        have hs1 : Sorted (if h = 0 then c.sort else c).items := by
          split
          · exact sort_sorted hc
          · rename_i h0; exact hc.srt (Or.inl h0)
        have hl1 : (if h = 0 then c.sort else c).items.length = c.items.length := by split; exact sort_length c; rfl
        have hcap1 : (if h = 0 then c.sort else c).nomCap T = c.nomCap T := by split; exact sort_nomCap T c; rfl
        have hlg1 : (if h = 0 then c.sort else c).lgWeight = h := hc1.lg
        have hent1 : (if h = 0 then c.sort else c).entered = c.entered := by split; exact (sort_fields c).2.2.2.2.2.2.1; rfl
        have hfull1 : (if h = 0 then c.sort else c).nomCap T ≤ (if h = 0 then c.sort else c).items.length := by
          rw [hcap1, hl1]; exact hfull
        cases rest with
        | nil =>
          -- top level: grow
          simp only [List.isEmpty_nil, if_true, List.tail_nil]
          have hnx := mkC_CInv hT F hra (h + 1) k hk acc.peek
          have hthr1 := drawIf_throws acc T.initCoinRandom (h + 1)
          generalize acc.drawIf T.initCoinRandom (h + 1) = acc1 at hthr1 ⊢
          have sp := compact_spec hT F acc1.peek hc1 hs1 hnx hfull1
          have hnxcap := compact_nxt_nomCap T F (if h = 0 then c.sort else c) (Compactor.mkC T F hra (h + 1) k acc.peek) acc1.peek
          have hnxlg := compact_nxt_lg T F (if h = 0 then c.sort else c) (Compactor.mkC T F hra (h + 1) k acc.peek) acc1.peek
          generalize hr' : (if h = 0 then c.sort else c).compact T F (Compactor.mkC T F hra (h + 1) k acc.peek) acc1.peek = r at sp hnxcap hnxlg
          have hnx0 : (Compactor.mkC T F hra (h + 1) k acc.peek).items.length = 0 := by rw [(mkC_fields T F hra (h + 1) k acc.peek).1]; rfl
          have hlenN := sp.lenNxt; rw [hnx0] at hlenN
          have hnxtne : r.nxt.items ≠ [] := by
            intro e; rw [e] at hlenN; have := sp.num1; simp at hlenN; omega
          have hR : ctr.retained - r.num = (R0 + r.cur.items.length) + sumItems (r.nxt :: ([] : List (Compactor ρ))) := by
            have := sp.lenCur; simp only [sumItems_cons, sumItems_nil] at *; omega
          have hM : ctr.maxNom + (Compactor.mkC T F hra (h + 1) k acc.peek).nomCap T + r.capNew - r.capOld
              = (M0 + r.cur.nomCap T) + sumCap T (r.nxt :: ([] : List (Compactor ρ))) := by
            rw [sp.capOld, sp.capNew, hcap1]; simp only [sumCap_cons, sumCap_nil] at *; omega
          have htw : totalW (r.cur :: r.nxt :: ([] : List (Compactor ρ))) = totalW (c :: ([] : List (Compactor ρ))) := by
            simp only [totalW_cons, totalW_nil, sp.cur.lg, hnxlg, hc.lg]
            have : (Compactor.mkC T F hra (h + 1) k acc.peek).lgWeight = h + 1 := (mkC_fields T F hra (h + 1) k acc.peek).2.2.1
            rw [this, Nat.pow_succ]
            have e := pow_step r.cur.items.length c.items.length r.num 0 (2 ^ h) (by have := sp.lenCur; omega)
            rw [hlenN]; simp only [Nat.zero_add, Nat.zero_mul, Nat.add_zero] at e ⊢; exact e
          split
          · -- lazy break
            refine ⟨⟨sp.cur, sp.nx, trivial⟩, ?_, ?_, ?_, htw, by simp, ?_, ?_, by simp, by simp⟩
            · exact AllNE_cons.2 ⟨sp.curNe, AllNE_cons.2 ⟨hnxtne, AllNE_nil⟩⟩
            · simp only [sumItems_cons, sumItems_nil] at *; omega
            · simp only [sumCap_cons, sumCap_nil] at *; omega
            · rw [← hthr1]; exact afterCompact_throws acc1 _ _ _ _ sp.ok
            · simp [sp.curEntered, hent1]
          · have IH := ih (h + 1) (r.nxt :: []) ⟨ctr.retained - r.num, ctr.maxNom + (Compactor.mkC T F hra (h + 1) k acc.peek).nomCap T + r.capNew - r.capOld⟩
              (acc1.afterCompact (if h = 0 then c.sort else c).lgWeight r.fresh r.oddConst r.rangeOk)
              (R0 + r.cur.items.length) (M0 + r.cur.nomCap T) ⟨sp.nx, trivial⟩ (AllNE_cons.2 ⟨hnxtne, AllNE_nil⟩) hR hM
            refine ⟨⟨sp.cur, IH.inv⟩, AllNE_cons.2 ⟨sp.curNe, IH.ne⟩, ?_, ?_, ?_, by simp, ?_, ?_, ?_, ?_⟩
            · have := IH.ret; simp only [sumItems_cons] at *; omega
            · have := IH.cap; simp only [sumCap_cons] at *; omega
            · have := IH.tw; simp only [totalW_cons] at this htw ⊢; omega
            · rw [IH.throws]; rw [← hthr1]; exact afterCompact_throws acc1 _ _ _ _ sp.ok
            · simp [sp.curEntered, hent1]
            · have := IH.len; simp at this ⊢ <;> omega
            · intro h1; exfalso
              have hnn := IH.nonnil (by simp)
              simp only [List.length_cons] at h1
              exact hnn (List.length_eq_zero_iff.1 (by omega))
        | cons nx rest' =>
          simp only [List.isEmpty_cons, Bool.false_eq_true, if_false, List.tail_cons]
          obtain ⟨hnx, hrest'⟩ := hrest
          obtain ⟨hnxne, hrne'⟩ := AllNE_cons.1 hrne
          have sp := compact_spec hT F acc.peek hc1 hs1 hnx hfull1
          have hnxcap := compact_nxt_nomCap T F (if h = 0 then c.sort else c) nx acc.peek
          have hnxlg := compact_nxt_lg T F (if h = 0 then c.sort else c) nx acc.peek
          generalize hr' : (if h = 0 then c.sort else c).compact T F nx acc.peek = r at sp hnxcap hnxlg
          have hnxtne : r.nxt.items ≠ [] := by
            intro e; have := sp.lenNxt; rw [e] at this; have := sp.num1; simp at *; omega
          simp only [sumItems_cons, sumCap_cons] at hr hm
          have hR : ctr.retained - r.num = (R0 + r.cur.items.length) + sumItems (r.nxt :: rest') := by
            have := sp.lenCur; have := sp.lenNxt; simp only [sumItems_cons] at *; omega
          have hM : ctr.maxNom + r.capNew - r.capOld = (M0 + r.cur.nomCap T) + sumCap T (r.nxt :: rest') := by
            rw [sp.capOld, sp.capNew, hcap1]; simp only [sumCap_cons] at *; omega
          have htw : totalW (r.cur :: r.nxt :: rest') = totalW (c :: nx :: rest') := by
            simp only [totalW_cons, sp.cur.lg, hnxlg, hc.lg, hnx.lg]
            rw [Nat.pow_succ, sp.lenNxt]
            have e := pow_step r.cur.items.length c.items.length r.num nx.items.length (2 ^ h) (by have := sp.lenCur; omega)
            omega
          split
          · refine ⟨⟨sp.cur, sp.nx, hrest'⟩, ?_, ?_, ?_, htw, by simp, ?_, ?_, by simp, by simp⟩
            · exact AllNE_cons.2 ⟨sp.curNe, AllNE_cons.2 ⟨hnxtne, hrne'⟩⟩
            · simp only [sumItems_cons] at *; omega
            · simp only [sumCap_cons] at *; omega
            · exact afterCompact_throws acc _ _ _ _ sp.ok
            · simp [sp.curEntered, hent1]
          · have IH := ih (h + 1) (r.nxt :: rest') ⟨ctr.retained - r.num, ctr.maxNom + r.capNew - r.capOld⟩
              (acc.afterCompact (if h = 0 then c.sort else c).lgWeight r.fresh r.oddConst r.rangeOk)
              (R0 + r.cur.items.length) (M0 + r.cur.nomCap T) ⟨sp.nx, hrest'⟩ (AllNE_cons.2 ⟨hnxtne, hrne'⟩) hR hM
            refine ⟨⟨sp.cur, IH.inv⟩, AllNE_cons.2 ⟨sp.curNe, IH.ne⟩, ?_, ?_, ?_, by simp, ?_, ?_, ?_, ?_⟩
            · have := IH.ret; simp only [sumItems_cons] at *; omega
            · have := IH.cap; simp only [sumCap_cons] at *; omega
            · have := IH.tw; simp only [totalW_cons] at this htw ⊢; omega
            · rw [IH.throws]; exact afterCompact_throws acc _ _ _ _ sp.ok
            · simp [sp.curEntered, hent1]
            · have := IH.len; simp at this ⊢ <;> omega
            · intro h1; exfalso
              have hnn := IH.nonnil (by simp)
              simp only [List.length_cons] at h1
              exact hnn (List.length_eq_zero_iff.1 (by omega))
      · -- not full: next level
        have IH := ih (h + 1) rest ctr acc (R0 + c.items.length) (M0 + c.nomCap T) hrest hrne (by omega) (by omega)
        refine ⟨⟨hc, IH.inv⟩, AllNE_cons.2 ⟨hcne, IH.ne⟩, ?_, ?_, ?_, by simp, IH.throws, by simp, ?_, ?_⟩
        · have := IH.ret; simp only [sumItems_cons]; omega
        · have := IH.cap; simp only [sumCap_cons]; omega
        · have := IH.tw; simp only [totalW_cons]; omega
        · have := IH.len; simp; omega
        · intro h1
          simp only [List.length_cons] at h1
          have h0 : (compressLoop T F hra k fuel (h + 1) rest ctr acc).1.length = 0 := by omega
          have hl := IH.len; rw [h0] at hl
          have hr0 : rest = [] := List.length_eq_zero_iff.1 (by omega)
          rw [List.length_eq_zero_iff.1 h0, hr0]

end DS.Req

/- Assembly of REQ's unbiasedness: shapes are coin independent; complementing the coins of one level is an involution on coin
   vectors that cancels that level's error; the errors telescope to (weight below) − (true count).  (Helper lemmas for C08.) -/
import DSProofs.Lemmas.ReqRel4
namespace DS.Req

variable {ρ : Type}

/-! ### coin vectors -/

theorem length_of_mem_allVecs : ∀ (n : Nat) (v : List Bool), v ∈ allVecs n → v.length = n := by
  intro n
  induction n with
  | zero => intro v h; simp [allVecs] at h; subst h; rfl
  | succ n ih =>
    intro v h
    simp only [allVecs, List.mem_append, List.mem_map] at h
    rcases h with ⟨w, hw, rfl⟩ | ⟨w, hw, rfl⟩ <;> simp [ih w hw]

theorem length_allVecs (n : Nat) : (allVecs n).length = 2 ^ n := by
  induction n with
  | zero => rfl
  | succ n ih => simp [allVecs, ih, Nat.pow_succ]; omega

/-- complement the entries of `v` selected by the mask `m` -/
def xorV : List Bool → List Bool → List Bool
  | x :: v, b :: m => (x != b) :: xorV v m
  | v, _ => v

theorem sum_map_add (l : List (List Bool)) (f g : List Bool → Int) :
    (l.map (fun v => f v + g v)).sum = (l.map f).sum + (l.map g).sum := by
  induction l with
  | nil => rfl
  | cons a t ih => simp only [List.map_cons, List.sum_cons, ih]; omega

/-- summing over all coin vectors is invariant under complementing a fixed set of positions -/
theorem sum_xorV : ∀ (n : Nat) (m : List Bool) (f : List Bool → Int), m.length = n →
    ((allVecs n).map (fun v => f (xorV v m))).sum = ((allVecs n).map f).sum := by
  intro n
  induction n with
  | zero => intro m f hm; cases m with
    | nil => rfl
    | cons _ _ => simp at hm
  | succ n ih =>
    intro m f hm
    cases m with
    | nil => simp at hm
    | cons b m' =>
      have hm' : m'.length = n := by simpa using hm
      simp only [allVecs, List.map_append, List.map_map, List.sum_append, Function.comp_def, xorV]
      have i0 := ih m' (fun v => f (false :: v)) hm'
      have i1 := ih m' (fun v => f (true :: v)) hm'
      cases b
      · simp only [Bool.bne_false] at *; rw [i0, i1]
      · simp only [Bool.bne_true, Bool.not_false, Bool.not_true] at *; rw [i0, i1]; omega

def maskOf (L : List Nat) (h : Nat) : List Bool := L.map (fun l => l == h)

theorem xorV_getD (v m : List Bool) (hl : v.length = m.length) (i : Nat) :
    (xorV v m).getD i false = (v.getD i false != m.getD i false) := by
  induction v generalizing m i with
  | nil => cases m with
    | nil => simp [xorV]
    | cons _ _ => simp at hl
  | cons x v ih => cases m with
    | nil => simp at hl
    | cons b m =>
      cases i with
      | zero => simp [xorV]
      | succ j =>
        have := ih m (by simpa using hl) j
        simpa [xorV] using this

theorem maskOf_getD (L : List Nat) (h i : Nat) : (maskOf L h).getD i false = (L[i]? == some h) := by
  unfold maskOf
  by_cases hi : i < L.length
  · simp [List.getD, List.getElem?_map, List.getElem?_eq_getElem hi]
  · have : L[i]? = none := List.getElem?_eq_none (by omega)
    simp [List.getD, List.getElem?_map, this]

theorem init_AccRel (L : List Nat) (h : Nat) (v : List Bool) (hl : v.length = L.length) :
    AccRel L (some h) (Acc.init v) (Acc.init (xorV v (maskOf L h))) := by
  refine ⟨rfl, rfl, rfl, rfl, rfl, ?_⟩
  intro h0 e i
  have : h0 = h := by simpa using e.symm
  subst this
  show (xorV v (maskOf L h0)).getD i false = (v.getD i false != (L[i]? == some h0))
  rw [xorV_getD _ _ (by simp [maskOf, hl]), maskOf_getD]

theorem init_AccRel_none (L : List Nat) (v v' : List Bool) : AccRel L none (Acc.init v) (Acc.init v') :=
  ⟨rfl, rfl, rfl, rfl, rfl, fun _ e => by simp at e⟩

/-! ### shapes do not depend on coins -/

theorem run_shape {T : Tun} (hT : TunOK T) (F : SecFns ρ) (ops : List Op) (v v' : List Bool) :
    StoreRel2 none (run T F ops v).1 (run T F ops v').1 ∧ AccRel (run T F ops v).2.lv none (run T F ops v).2 (run T F ops v').2 := by
  have := runOps_rel2 hT F (run T F ops v).2.lv none ops ([] : Store ρ) [] [] (Acc.init v) (Acc.init v') trivial trivial
    (init_AccRel_none _ v v') (List.prefix_refl _) (fun _ e => by simp at e)
  exact this

theorem run_lvlen (T : Tun) (F : SecFns ρ) (ops : List Op) (v : List Bool) : (run T F ops v).2.lv.length = (run T F ops v).2.used :=
  (runOps_mono T F ops ([] : Store ρ) (Acc.init v)).lvlen rfl

/-! ### level-wise quantities -/

/-- items `p` at level `h` -/
def itAt (p : Int → Bool) (h : Nat) : List (Compactor ρ) → Nat
  | [] => 0
  | c :: t => (if c.lgWeight = h then cntP p c.items else 0) + itAt p h t

theorem balL_split {hh : Option Nat} (p : Int → Bool) (h : Nat) : ∀ (cs cs' : List (Compactor ρ)), CsRel hh cs cs' →
    balL p h cs cs' = balR p (h + 1) cs + balR p (h + 1) cs' + itAt p h cs := by
  intro cs
  induction cs with
  | nil => intro cs' r; cases cs' with
    | nil => rfl
    | cons _ _ => exact absurd r (by simp [CsRel])
  | cons c t ih => intro cs' r; cases cs' with
    | nil => exact absurd r (by simp [CsRel])
    | cons c' t' =>
      simp only [balL, balR, itAt, headL, headR, ih t' r.2, r.1.lg]
      by_cases h1 : c.lgWeight = h + 1 <;> simp [h1] <;> omega

theorem same_levels (p : Int → Bool) (h : Nat) : ∀ (cs cs' : List (Compactor ρ)), CsRel (some h) cs cs' →
    itAt p h cs' = itAt p h cs ∧ balR p h cs' = balR p h cs := by
  intro cs
  induction cs with
  | nil => intro cs' r; cases cs' with
    | nil => exact ⟨rfl, rfl⟩
    | cons _ _ => exact absurd r (by simp [CsRel])
  | cons c t ih => intro cs' r; cases cs' with
    | nil => exact absurd r (by simp [CsRel])
    | cons c' t' =>
      obtain ⟨a, b⟩ := ih t' r.2
      simp only [itAt, balR, headR, a, b, r.1.lg]
      by_cases h1 : c.lgWeight = h
      · obtain ⟨si, se⟩ := r.1.same h rfl (by omega)
        simp [h1, si, se]
      · simp [h1]

/-- the error contributed by level `h`: 2^(h+1)·(entered h+1) + 2^h·(present at h) − 2^h·(entered h) -/
def lvlErr (p : Int → Bool) (h : Nat) (cs : List (Compactor ρ)) : Int :=
  (2 ^ (h + 1) * balR p (h + 1) cs : Nat) + (2 ^ h * itAt p h cs : Nat) - (2 ^ h * balR p h cs : Nat)

/-- for a pair of runs related by complementing the coins of level `h`, the errors of level `h` cancel -/
theorem lvlErr_cancel (p : Int → Bool) (h : Nat) (cs cs' : List (Compactor ρ)) (r : CsRel (some h) cs cs') (hb : Bal p h cs cs') :
    lvlErr p h cs + lvlErr p h cs' = 0 := by
  obtain ⟨a, b⟩ := same_levels p h cs cs' r
  have s := balL_split p h cs cs' r
  unfold Bal at hb
  unfold lvlErr
  rw [a, b]
  have e : balR p (h + 1) cs + balR p (h + 1) cs' + itAt p h cs = balR p h cs := by omega
  have p1 : 2 ^ (h + 1) * balR p (h + 1) cs = 2 * (2 ^ h * balR p (h + 1) cs) := by
    rw [Nat.pow_succ, Nat.mul_comm (2 ^ h) 2, Nat.mul_assoc]
  have p2 : 2 ^ (h + 1) * balR p (h + 1) cs' = 2 * (2 ^ h * balR p (h + 1) cs') := by
    rw [Nat.pow_succ, Nat.mul_comm (2 ^ h) 2, Nat.mul_assoc]
  have p3 : 2 ^ h * balR p h cs = 2 ^ h * balR p (h + 1) cs + 2 ^ h * balR p (h + 1) cs' + 2 ^ h * itAt p h cs := by
    rw [← e, Nat.mul_add, Nat.mul_add]
  omega

theorem sum_map_zero {α : Type} (l : List α) (f : α → Nat) (h : ∀ a ∈ l, f a = 0) : (l.map f).sum = 0 := by
  induction l with
  | nil => rfl
  | cons a t ih => simp [h a (by simp), ih (fun b hb => h b (List.mem_cons_of_mem _ hb))]

/-! ### telescoping -/

theorem sum_range_ite (N lg x : Nat) (hl : lg < N) :
    ((List.range N).map (fun h => if lg = h then x * 2 ^ h else 0)).sum = x * 2 ^ lg := by
  induction N with
  | zero => omega
  | succ n ih =>
    rw [List.range_succ, List.map_append, List.sum_append]
    by_cases h1 : lg < n
    · rw [ih h1]; have : ¬ lg = n := by omega
      simp [this]
    · have h2 : lg = n := by omega
      subst h2
      have : ((List.range lg).map (fun h => if lg = h then x * 2 ^ h else 0)).sum = 0 := by
        apply sum_map_zero
        intro a ha
        have : ¬ lg = a := by have := List.mem_range.1 ha; omega
        simp [this]
      simp [this]

theorem sum_range_add (N : Nat) (f g : Nat → Nat) :
    ((List.range N).map (fun h => f h + g h)).sum = ((List.range N).map f).sum + ((List.range N).map g).sum := by
  induction (List.range N) with
  | nil => rfl
  | cons a t ih => simp only [List.map_cons, List.sum_cons, ih]; omega

/-- Σ_h 2^h · (items at level h) is the weight -/
theorem weight_by_level (p : Int → Bool) (N : Nat) : ∀ (cs : List (Compactor ρ)), (∀ c ∈ cs, c.lgWeight < N) →
    ((List.range N).map (fun h => 2 ^ h * itAt p h cs)).sum = weightP p cs := by
  intro cs
  induction cs with
  | nil => intro _; simp only [itAt, Nat.mul_zero, weightP_nil]; exact sum_map_zero _ _ (fun _ _ => rfl)
  | cons c t ih =>
    intro hl
    have h1 := ih (fun c' hc' => hl c' (List.mem_cons_of_mem _ hc'))
    have h2 := sum_range_ite N c.lgWeight (cntP p c.items) (hl c (by simp))
    rw [weightP_cons, ← h1, ← h2, ← sum_range_add]
    congr 1
    apply List.map_congr_left
    intro h _
    simp only [itAt, Nat.mul_add]
    by_cases e : c.lgWeight = h <;> simp [e, Nat.mul_comm]

theorem balR_zero_of_lt (p : Int → Bool) (N : Nat) : ∀ (cs : List (Compactor ρ)), (∀ c ∈ cs, c.lgWeight < N) → balR p N cs = 0 := by
  intro cs
  induction cs with
  | nil => intro _; rfl
  | cons c t ih =>
    intro hl
    have : ¬ c.lgWeight = N := by have := hl c (by simp); omega
    simp [balR, headR, this, ih (fun c' hc' => hl c' (List.mem_cons_of_mem _ hc'))]

/-- the level errors telescope: Σ_{h<N} lvlErr h = weight − (entered level 0) -/
theorem lvlErr_telescope (p : Int → Bool) (N : Nat) (cs : List (Compactor ρ)) (hl : ∀ c ∈ cs, c.lgWeight < N) :
    ((List.range N).map (fun h => lvlErr p h cs)).sum = (weightP p cs : Int) - (balR p 0 cs : Int) := by
  have key : ∀ n, ((List.range n).map (fun h => lvlErr p h cs)).sum
      = ((2 ^ n * balR p n cs : Nat) : Int) - (balR p 0 cs : Int) + (((List.range n).map (fun h => 2 ^ h * itAt p h cs)).sum : Nat) := by
    intro n
    induction n with
    | zero => simp
    | succ n ih =>
      rw [List.range_succ, List.map_append, List.sum_append, ih, List.map_append, List.sum_append]
      simp only [List.map_cons, List.map_nil, List.sum_cons, List.sum_nil, lvlErr]
      push_cast
      omega
  rw [key N, weight_by_level p N cs hl, balR_zero_of_lt p N cs hl]
  simp; omega

/-! ### the main argument -/

theorem sum_congr_mem (l : List (List Bool)) (f g : List Bool → Int) (h : ∀ v ∈ l, f v = g v) : (l.map f).sum = (l.map g).sum := by
  induction l with
  | nil => rfl
  | cons a t ih => simp only [List.map_cons, List.sum_cons, h a (by simp), ih (fun v hv => h v (List.mem_cons_of_mem _ hv))]

theorem sum_const (l : List (List Bool)) (c : Int) : (l.map (fun _ => c)).sum = l.length * c := by
  induction l with
  | nil => simp
  | cons a t ih => simp only [List.map_cons, List.sum_cons, ih, List.length_cons]; push_cast; rw [Int.add_mul]; omega

/-- compactors of object `id` at the end of the history run with the coin vector `v` -/
def csOf (T : Tun) (F : SecFns ρ) (ops : List Op) (id : Nat) (v : List Bool) : List (Compactor ρ) :=
  match (run T F ops v).1.get id with
  | some s => s.compactors
  | none => []

theorem lg_lt_length {T : Tun} {hra : Bool} : ∀ (h : Nat) (cs : List (Compactor ρ)), CsInv T hra h cs → ∀ c ∈ cs, c.lgWeight < h + cs.length := by
  intro h cs
  induction cs generalizing h with
  | nil => intro _ c hc; simp at hc
  | cons x t ih =>
    intro hinv c hc
    rcases List.mem_cons.1 hc with rfl | hc
    · have := hinv.1.lg; simp; omega
    · have := ih (h + 1) hinv.2 c hc; simp; omega

theorem balR0_eq {T : Tun} {hra : Bool} (p : Int → Bool) (cs : List (Compactor ρ)) (hinv : CsInv T hra 0 cs) :
    balR p 0 cs = cntP p (entered0L cs) := by
  cases cs with
  | nil => rfl
  | cons c t =>
    have h0 : c.lgWeight = 0 := hinv.1.lg
    have : balR p 0 t = 0 := by
      have : ∀ (h : Nat) (l : List (Compactor ρ)), 1 ≤ h → CsInv T hra h l → balR p 0 l = 0 := by
        intro h l
        induction l generalizing h with
        | nil => intro _ _; rfl
        | cons x t' ih =>
          intro h1 hi
          have : ¬ x.lgWeight = 0 := by have := hi.1.lg; omega
          simp [balR, headR, this, ih (h + 1) (by omega) hi.2]
      exact this 1 t (by omega) hinv.2
    simp [balR, headR, h0, this, entered0L]

/-- REQ is unbiased over the coin flips for every history in which no odd-state compaction uses a coin deriving from no draw -/
theorem unbiased_main {T : Tun} (hT : TunOK T) (F : SecFns ρ) (ops : List Op) (id : Nat) (items : List Int)
    (hin : inputOf ops id = some items) (hodd : (run T F ops []).2.oddConst = false) (p : Int → Bool) :
    ((allVecs (run T F ops []).2.used).map (fun v => (weightP p (csOf T F ops id v) : Int))).sum
      = 2 ^ (run T F ops []).2.used * (cntP p items : Int) := by
  -- shapes: every run has the trace and the flags of the reference run
  have hsh : ∀ v, (run T F ops v).2.lv = (run T F ops []).2.lv ∧ (run T F ops v).2.oddConst = false := by
    intro v
    have := (run_shape hT F ops [] v).2
    exact ⟨this.lv, by rw [this.oddConst]; exact hodd⟩
  have hLlen : (run T F ops []).2.lv.length = (run T F ops []).2.used := run_lvlen T F ops []
  -- the object exists in every run, satisfies the invariant and holds `items`
  have hobj : ∀ v, ∃ s, (run T F ops v).1.get id = some s ∧ SInv T s ∧ entered0 s = items := by
    intro v
    have r := (runOps_rel hT F ops ([] : Store ρ) [] (Acc.init v) trivial).1
    rcases ALRel_get r id with ⟨_, h2⟩ | ⟨s, sp, h1, h2, hs⟩
    · simp [inputOf, h2] at hin
    · refine ⟨s, h1, hs.1, ?_⟩
      have : sp.items = items := by simpa [inputOf, h2] using hin
      rw [hs.2.2, this]
  have hcs : ∀ v, ∃ s, csOf T F ops id v = s.compactors ∧ SInv T s ∧ entered0 s = items := by
    intro v; obtain ⟨s, h1, h2, h3⟩ := hobj v
    exact ⟨s, by simp [csOf, h1], h2, h3⟩
  -- number of levels (coin independent)
  have hlen : ∀ v, (csOf T F ops id v).length = (csOf T F ops id []).length := by
    intro v
    have r := (run_shape hT F ops [] v).1
    obtain ⟨s, h1, _, _⟩ := hobj []
    obtain ⟨s', h1', _, _⟩ := hobj v
    rcases ALRel_get r id with ⟨g1, _⟩ | ⟨a, b, g1, g2, hr⟩
    · simp only [Store.get] at h1; rw [g1] at h1; exact absurd h1 (by simp)
    · simp only [Store.get] at h1 h1'
      rw [g1] at h1; rw [g2] at h1'
      have e1 : a = s := by simpa using h1
      have e2 : b = s' := by simpa using h1'
      subst e1; subst e2
      simp only [csOf, Store.get, g1, g2]
      exact CsRel_length _ _ hr.1.cs
  -- telescoping in every run
  have htel : ∀ v, ((List.range (csOf T F ops id []).length).map (fun h => lvlErr p h (csOf T F ops id v))).sum
      = (weightP p (csOf T F ops id v) : Int) - (cntP p items : Int) := by
    intro v
    obtain ⟨s, e, hs, hi⟩ := hcs v
    have hl := lg_lt_length 0 s.compactors hs.cs
    rw [← hlen v, e, lvlErr_telescope p _ _ (by simpa using hl), balR0_eq p _ hs.cs]
    have : entered0L s.compactors = items := hi
    rw [this]
  -- the level-h errors cancel over the coin vectors
  have hcancel : ∀ h, ((allVecs (run T F ops []).2.used).map (fun v => lvlErr p h (csOf T F ops id v))).sum = 0 := by
    intro h
    have hpair : ∀ v ∈ allVecs (run T F ops []).2.used,
        lvlErr p h (csOf T F ops id v) + lvlErr p h (csOf T F ops id (xorV v (maskOf (run T F ops []).2.lv h))) = 0 := by
      intro v hv
      have hvl : v.length = (run T F ops []).2.lv.length := by rw [hLlen]; exact length_of_mem_allVecs _ v hv
      have rr := runOps_rel2 hT F (run T F ops []).2.lv (some h) ops ([] : Store ρ) [] [] (Acc.init v)
        (Acc.init (xorV v (maskOf (run T F ops []).2.lv h))) trivial trivial (init_AccRel _ h v hvl)
        (by show (run T F ops v).2.lv <+: _; rw [(hsh v).1]; exact List.prefix_refl _) (fun _ _ => (hsh v).2)
      rcases ALRel_get rr.1 id with ⟨g1, g2⟩ | ⟨a, b, g1, g2, hr⟩
      · have e1 : csOf T F ops id v = [] := by simp only [csOf, run, Store.get, g1]
        have e2 : csOf T F ops id (xorV v (maskOf (run T F ops []).2.lv h)) = [] := by
          unfold csOf; rw [show (run T F ops (xorV v (maskOf (run T F ops []).2.lv h))).1.get id = none from g2]
        rw [e1, e2]; simp [lvlErr, balR, itAt]
      · have e1 : csOf T F ops id v = a.compactors := by simp only [csOf, run, Store.get, g1]
        have e2 : csOf T F ops id (xorV v (maskOf (run T F ops []).2.lv h)) = b.compactors := by
          unfold csOf; rw [show (run T F ops (xorV v (maskOf (run T F ops []).2.lv h))).1.get id = some b from g2]
        rw [e1, e2]
        exact lvlErr_cancel p h _ _ hr.1.cs (hr.2 p h rfl)
    have h1 := sum_xorV (run T F ops []).2.used (maskOf (run T F ops []).2.lv h) (fun v => lvlErr p h (csOf T F ops id v))
      (by simp [maskOf, hLlen])
    have h2 := sum_map_add (allVecs (run T F ops []).2.used) (fun v => lvlErr p h (csOf T F ops id v))
      (fun v => lvlErr p h (csOf T F ops id (xorV v (maskOf (run T F ops []).2.lv h))))
    have h3 : ((allVecs (run T F ops []).2.used).map (fun v => lvlErr p h (csOf T F ops id v)
        + lvlErr p h (csOf T F ops id (xorV v (maskOf (run T F ops []).2.lv h))))).sum = 0 := by
      rw [sum_congr_mem _ _ (fun _ => 0) hpair, sum_const]; simp
    omega
  -- exchange the two sums
  have hex : ∀ n, ((allVecs (run T F ops []).2.used).map (fun v => ((List.range n).map (fun h => lvlErr p h (csOf T F ops id v))).sum)).sum = 0 := by
    intro n
    induction n with
    | zero => simp [sum_const]
    | succ n ih =>
      have : ∀ v, ((List.range (n + 1)).map (fun h => lvlErr p h (csOf T F ops id v))).sum
          = ((List.range n).map (fun h => lvlErr p h (csOf T F ops id v))).sum + lvlErr p n (csOf T F ops id v) := by
        intro v; rw [List.range_succ, List.map_append, List.sum_append]; simp
      rw [sum_congr_mem _ _ _ (fun v _ => this v), sum_map_add, ih, hcancel n]; rfl
  have hfin := hex (csOf T F ops id []).length
  rw [sum_congr_mem _ _ _ (fun v _ => htel v)] at hfin
  have hsplit := sum_map_add (allVecs (run T F ops []).2.used) (fun v => (weightP p (csOf T F ops id v) : Int)) (fun _ => - (cntP p items : Int))
  have hc := sum_const (allVecs (run T F ops []).2.used) (- (cntP p items : Int))
  rw [length_allVecs] at hc
  have e : (fun v => (weightP p (csOf T F ops id v) : Int) - (cntP p items : Int)) = (fun v => (weightP p (csOf T F ops id v) : Int) + - (cntP p items : Int)) := by
    funext v; omega
  rw [e, hsplit, hc] at hfin
  push_cast at hfin ⊢
  have : (2 : Int) ^ (run T F ops []).2.used * -(cntP p items : Int) = - ((2 : Int) ^ (run T F ops []).2.used * (cntP p items : Int)) := Int.mul_neg _ _
  omega

end DS.Req

/- Summaries inside the union: the summary of a retained key is the policy folded over the summaries of the
   inputs holding the key, in presentation order. -/
import DSProofs.Lemmas.ThetaSetOps
import DSProofs.Lemmas.Tuple
namespace DS.Theta

variable {σ : Type}

/-- fold of the union policy over a non-empty list of summaries (first summary is copied, the rest are merged in) -/
def foldSums (pol : σ → σ → σ) : List σ → Option σ
  | [] => none
  | s :: r => some (r.foldl pol s)

theorem foldSums_snoc (pol : σ → σ → σ) (l : List σ) (x : σ) :
    foldSums pol (l ++ [x]) = some (match foldSums pol l with | none => x | some v => pol v x) := by
  cases l with
  | nil => rfl
  | cons a t => simp [foldSums, List.foldl_append]

/-- summaries carried by the entries with key `k` in a list of entries -/
def sumsIn (k : Nat) (l : List (Nat × σ)) : List σ := (l.filter (fun e => e.1 == k)).map (·.2)

/-- summaries offered with key `k` by the non-empty inputs, in presentation order -/
def sumsOffered (k : Nat) : List (Compact σ) → List σ
  | [] => []
  | sk :: r => (if sk.isEmpty then [] else sumsIn k sk.ents) ++ sumsOffered k r

theorem lookup_afterInsert (c : Cfg) (s : St σ) (k : Nat) (v : σ) (h : lookup k (afterInsert c s).ents = some v) :
    lookup k s.ents = some v := by
  obtain ⟨n, hn⟩ := afterInsert_ents_prefix c s
  rw [hn] at h
  exact lookup_take k n _ v h

/-- union-table invariant for summaries: below the screen `U`, every stored summary is the fold of what was offered -/
def SInv (pol : σ → σ → σ) (sums : Nat → List σ) (u : Union σ) : Prop :=
  ∀ k v, k < u.unionTheta → lookup k u.tbl.ents = some v → foldSums pol (sums k) = some v

theorem sinv_entry (c : Cfg) (pol : σ → σ → σ) (S : List Nat) (sums : Nat → List σ) (u : Union σ) (e : Nat × σ)
    (hI : UInv c S u) (hz : ∀ k, k ∉ S → sums k = []) (hS : SInv pol sums u)
    (hq : e.1 < u.unionTheta ∧ e.1 < u.tbl.theta) :
    SInv pol (fun k => if k = e.1 then sums k ++ [e.2] else sums k) (unionEntry c pol u e) := by
  intro k v hk hv
  rw [unionEntry_unionTheta] at hk
  unfold unionEntry at hv
  simp only at hv
  cases hlk : lookup e.1 u.tbl.ents with
  | some old =>
    simp only [hlk] at hv
    rw [lookup_upsert e.1 _ u.tbl.ents hI.sorted k] at hv
    by_cases hke : k = e.1
    · subst hke
      simp only [if_true, hlk, Option.some.injEq] at hv
      simp only [if_true, foldSums_snoc, hS _ old hk hlk]
      exact congrArg some hv
    · simp only [hke, if_false] at hv ⊢
      exact hS k v hk hv
  | none =>
    simp only [hlk] at hv
    have hnin : e.1 ∉ keys u.tbl.ents := (lookup_none_iff e.1 u.tbl.ents).1 hlk
    have hns : e.1 ∉ S := fun hm => hnin (hI.low e.1 hm hq.1 hq.2)
    have hv' := lookup_afterInsert c _ k v hv
    simp only at hv'
    rw [lookup_upsert e.1 _ u.tbl.ents hI.sorted k] at hv'
    by_cases hke : k = e.1
    · subst hke
      simp only [if_true, hlk, Option.some.injEq] at hv'
      simp only [if_true, hz _ hns, List.nil_append, foldSums]
      exact congrArg some (by simpa using hv')
    · simp only [hke, if_false] at hv' ⊢
      exact hS k v hk hv'

theorem sinv_skip (pol : σ → σ → σ) (sums : Nat → List σ) (u : Union σ) (ks : List (Nat × σ))
    (hS : SInv pol sums u) (hall : ∀ k v, k < u.unionTheta → lookup k u.tbl.ents = some v → sumsIn k ks = []) :
    SInv pol (fun k => sums k ++ sumsIn k ks) u := by
  intro k v hk hv
  simp only [hall k v hk hv, List.append_nil]
  exact hS k v hk hv

theorem sumsIn_cons (k : Nat) (e : Nat × σ) (t : List (Nat × σ)) :
    sumsIn k (e :: t) = (if k = e.1 then [e.2] else []) ++ sumsIn k t := by
  unfold sumsIn
  by_cases h : k = e.1
  · subst h; simp
  · have : (e.1 == k) = false := by simp; exact fun hh => h hh.symm
    simp [List.filter_cons, this, h]

theorem sumsIn_nil_of_not_mem (k : Nat) (l : List (Nat × σ)) (h : k ∉ keys l) : sumsIn k l = [] := by
  induction l with
  | nil => rfl
  | cons e t ih =>
    simp only [keys_cons, List.mem_cons, not_or] at h
    rw [sumsIn_cons, ih h.2]
    simp [h.1]

/-- the loop keeps the summary invariant, with `sums` extended by ALL entries of the input (skipped ones can never
be retained below the screen) -/
theorem sinv_loop (c : Cfg) (pol : σ → σ → σ) (ord : Bool) (l : List (Nat × σ)) :
    ∀ (S : List Nat) (sums : Nat → List σ) (u : Union σ), UInv c S u → (∀ k, k ∉ S → sums k = []) → SInv pol sums u →
      (ord = true → (keys l).Pairwise (· < ·)) →
      SInv pol (fun k => sums k ++ sumsIn k l) (unionLoop c pol ord l u) ∧
      (∀ k, k ∉ S ++ keys l → (fun k => sums k ++ sumsIn k l) k = []) := by
  induction l with
  | nil =>
    intro S sums u _ hz hS _
    refine ⟨?_, ?_⟩
    · simpa [unionLoop, sumsIn] using hS
    · intro k hk; simp only [keys_nil, List.append_nil] at hk; simp [sumsIn, hz k hk]
  | cons e t ih =>
    intro S sums u hI hz hS hs
    have hs' : ord = true → (keys t).Pairwise (· < ·) := fun ho => by
      have := hs ho; simp only [keys_cons, List.pairwise_cons] at this; exact this.2
    have hzfin : ∀ k, k ∉ S ++ keys (e :: t) → sums k ++ sumsIn k (e :: t) = [] := by
      intro k hk
      simp only [keys_cons, List.mem_append, List.mem_cons, not_or] at hk
      rw [hz k hk.1, sumsIn_cons, sumsIn_nil_of_not_mem k t hk.2.2]
      simp [hk.2.1]
    refine ⟨?_, hzfin⟩
    simp only [unionLoop]
    split
    · rename_i hq
      have h1 := uinv_entry c pol S u e hI hq.2
      have h2 := sinv_entry c pol S sums u e hI hz hS hq
      have hz2 : ∀ k, k ∉ S ++ [e.1] → (fun k => if k = e.1 then sums k ++ [e.2] else sums k) k = [] := by
        intro k hk
        simp only [List.mem_append, List.mem_singleton, not_or] at hk
        simp [hk.2, hz k hk.1]
      have := (ih (S ++ [e.1]) _ (unionEntry c pol u e) h1 hz2 h2 hs').1
      intro k v hk hv
      have := this k v hk hv
      simp only at this
      show foldSums pol (sums k ++ sumsIn k (e :: t)) = some v
      rw [sumsIn_cons]
      by_cases hke : k = e.1
      · simp only [hke, if_true] at this ⊢
        simpa [List.append_assoc] using this
      · simp only [hke, if_false] at this ⊢
        simpa using this
    · rename_i hq
      have hge : u.unionTheta ≤ e.1 ∨ u.tbl.theta ≤ e.1 := by omega
      split
      · rename_i ho
        -- early stop: none of the remaining keys can be a table key below the screen
        have hsorted := hs ho
        simp only [keys_cons, List.pairwise_cons] at hsorted
        apply sinv_skip pol sums u (e :: t) hS
        intro k v hk hv
        have hkin : k ∈ keys u.tbl.ents := (lookup_some_iff' k u.tbl.ents).1 ⟨v, hv⟩
        have hkT := (hI.sub k hkin).2
        apply sumsIn_nil_of_not_mem
        simp only [keys_cons, List.mem_cons, not_or]
        refine ⟨by omega, fun hm => ?_⟩
        have := hsorted.1 k hm
        omega
      · have h1 : UInv c (S ++ [e.1]) u := by
          apply tinv_add_ge c S [e.1] u.unionTheta u.tbl hI
          intro x hx; simp only [List.mem_singleton] at hx; subst hx; exact hge
        have h2 : SInv pol (fun k => if k = e.1 then sums k ++ [e.2] else sums k) u := by
          intro k v hk hv
          have hkin : k ∈ keys u.tbl.ents := (lookup_some_iff' k u.tbl.ents).1 ⟨v, hv⟩
          have hkT := (hI.sub k hkin).2
          have : k ≠ e.1 := by omega
          simp only [this, if_false]
          exact hS k v hk hv
        have hz2 : ∀ k, k ∉ S ++ [e.1] → (fun k => if k = e.1 then sums k ++ [e.2] else sums k) k = [] := by
          intro k hk
          simp only [List.mem_append, List.mem_singleton, not_or] at hk
          simp [hk.2, hz k hk.1]
        have := (ih (S ++ [e.1]) _ u h1 hz2 h2 hs').1
        intro k v hk hv
        have := this k v hk hv
        simp only at this
        show foldSums pol (sums k ++ sumsIn k (e :: t)) = some v
        rw [sumsIn_cons]
        by_cases hke : k = e.1
        · simp only [hke, if_true] at this ⊢
          simpa [List.append_assoc] using this
        · simp only [hke, if_false] at this ⊢
          simpa using this

/-- between updates -/
structure SState (c : Cfg) (pol : σ → σ → σ) (S : List Nat) (θs : Nat) (sums : Nat → List σ) (u : Union σ) : Prop where
  us : UState c S θs u
  zero : ∀ k, k ∉ S → sums k = []
  sinv : SInv pol sums u

theorem sstate_update (c : Cfg) (pol : σ → σ → σ) (sh : Nat) (S : List Nat) (θs : Nat) (sums : Nat → List σ) (u u' : Union σ)
    (sk : Compact σ) (h : SState c pol S θs sums u) (hw : WFop sk) (hu : unionUpdate c pol sh u sk = some u') :
    SState c pol (S ++ (if sk.isEmpty then [] else keys sk.ents)) (if sk.isEmpty then θs else min θs sk.theta)
      (fun k => sums k ++ (if sk.isEmpty then [] else sumsIn k sk.ents)) u' := by
  have hus := (ustate_update c pol sh S θs u u' sk h.us hw hu).1
  by_cases he : sk.isEmpty = true
  · rw [unionUpdate_empty c pol sh u sk he, Option.some.injEq] at hu
    subst hu
    refine ⟨hus, ?_, ?_⟩
    · intro k hk; simp only [he, if_true, List.append_nil] at hk ⊢; exact h.zero k hk
    · simpa [he] using h.sinv
  · have he' : sk.isEmpty = false := by simpa using he
    by_cases hs : sk.seedHash = sh
    · rw [unionUpdate_nonempty c pol sh u sk he' hs, Option.some.injEq] at hu
      have h1 : UInv c S (uStart u sk) := by
        have := tinv_mono_U c S u.unionTheta (min u.unionTheta sk.theta) u.tbl (Nat.min_le_left _ _) h.us.inv
        exact ⟨this.sorted, this.sub, this.low, this.t_le, this.t_mem, this.klen⟩
      have hS1 : SInv pol sums (uStart u sk) := by
        intro k v hk hv
        have hk' : k < u.unionTheta := by
          have : (uStart u sk).unionTheta = min u.unionTheta sk.theta := rfl
          rw [this] at hk; omega
        exact h.sinv k v hk' hv
      obtain ⟨hl1, hl2⟩ := sinv_loop c pol sk.ordered sk.ents S sums (uStart u sk) h1 h.zero hS1 hw.ord_sorted
      obtain ⟨_, hU2, _, _⟩ := uinv_loop c pol sk.ordered sk.ents S (uStart u sk) h1 hw.ord_sorted
      refine ⟨hus, ?_, ?_⟩
      · simpa [he'] using hl2
      · subst hu
        intro k v hk hv
        simp only [he', Bool.false_eq_true, if_false]
        apply hl1 k v ?_ hv
        have : (uFinish (unionLoop c pol sk.ordered sk.ents (uStart u sk))).unionTheta =
            min (unionLoop c pol sk.ordered sk.ents (uStart u sk)).unionTheta (unionLoop c pol sk.ordered sk.ents (uStart u sk)).tbl.theta := rfl
        rw [this] at hk
        omega
    · rw [unionUpdate_mismatch c pol sh u sk he' hs] at hu
      cases hu

theorem sstate_fold (c : Cfg) (pol : σ → σ → σ) (sh : Nat) (sks : List (Compact σ)) :
    ∀ (S : List Nat) (θs : Nat) (sums : Nat → List σ) (u u' : Union σ), SState c pol S θs sums u → (∀ sk, sk ∈ sks → WFop sk) →
      unionFold c pol sh u sks = some u' →
      SState c pol (S ++ offered sks) (thetaStar θs sks) (fun k => sums k ++ sumsOffered k sks) u' := by
  induction sks with
  | nil =>
    intro S θs sums u u' h _ hf
    simp only [unionFold, Option.some.injEq] at hf
    subst hf
    simpa [offered, thetaStar, sumsOffered] using h
  | cons sk rest ih =>
    intro S θs sums u u' h hw hf
    simp only [unionFold] at hf
    cases hup : unionUpdate c pol sh u sk with
    | none => simp [hup] at hf
    | some u1 =>
      simp only [hup] at hf
      have h1 := sstate_update c pol sh S θs sums u u1 sk h (hw sk (by simp)) hup
      have h2 := ih _ _ _ u1 u' h1 (fun s hs => hw s (by simp [hs])) hf
      simpa [offered, thetaStar, sumsOffered, List.append_assoc] using h2

end DS.Theta

namespace DS.Theta
variable {σ : Type}

theorem lookup_of_mem (l : List (Nat × σ)) (hs : (keys l).Pairwise (· < ·)) (k : Nat) (v : σ) (h : (k, v) ∈ l) :
    lookup k l = some v := by
  induction l with
  | nil => simp at h
  | cons a t ih =>
    obtain ⟨k0, v0⟩ := a
    simp only [keys_cons, List.pairwise_cons] at hs
    simp only [List.mem_cons, Prod.mk.injEq] at h
    simp only [lookup]
    rcases h with ⟨rfl, rfl⟩ | h
    · simp
    · have hk : k ∈ keys t := by
        unfold keys; exact List.mem_map.2 ⟨(k, v), h, rfl⟩
      have := hs.1 k hk
      have hne : ¬ k0 = k := by omega
      simp only [hne, if_false]
      exact ih hs.2 h

theorem union_result_mem_table (c : Cfg) (u : Union σ) (ord : Bool) (sh : Nat) (hs : (keys u.tbl.ents).Pairwise (· < ·))
    (hsub : ∀ x, x ∈ keys u.tbl.ents → x < u.tbl.theta)
    (e : Nat × σ) (h : e ∈ (unionResult c u ord sh).ents) : e ∈ u.tbl.ents ∧ e.1 < u.unionTheta := by
  have hents : ∀ e, e ∈ unionEnts u → e ∈ u.tbl.ents ∧ e.1 < u.unionTheta := by
    intro e he
    unfold unionEnts at he
    split at he
    · rename_i hle
      refine ⟨he, ?_⟩
      have : e.1 ∈ keys u.tbl.ents := by unfold keys; exact List.mem_map.2 ⟨e, he, rfl⟩
      have := hsub e.1 this
      omega
    · have := List.mem_filter.1 he
      refine ⟨this.1, ?_⟩
      have h2 := this.2
      simp only [decide_eq_true_eq] at h2
      omega
  unfold unionResult at h
  split at h
  · simp at h
  · split at h
    · exact hents e (List.mem_of_mem_take h)
    · exact hents e h

end DS.Theta

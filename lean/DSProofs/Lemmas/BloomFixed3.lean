/- Repaired model: what `commit` does to the world, and the per-view building blocks for writes. -/
import DSProofs.Lemmas.BloomFixed2
namespace DS.Bloom

variable {ι : Type}

/-- content of the acting filter's bit state after `commit` -/
def commitVal (P : Params) (f : Filter) (x : Nat) (hdr : Option Nat) : Nat :=
  match f.ref with
  | .owned _ => x
  | .mem _ => match hdr with
    | some h => if f.readOnly then x else setField x (8 * P.nbsOff) 64 h
    | none => x

theorem keyVal_commit_same (P : Params) (w : World) (v : Nat) (f : Filter) (x nbs : Nat) (d : Bool) (hdr : Option Nat) :
    keyVal (commit P w v f x nbs d hdr) (keyOf v f) = commitVal P f x hdr := by
  unfold commit commitVal
  cases hr : f.ref with
  | owned b => simp [keyOf, hr, keyVal_setFilter_own]
  | mem m => simp only [keyOf, hr, keyVal_setFilter_mem, keyVal_setBlock_mem]; rfl

theorem commit_filters_ne (P : Params) (w : World) (v u : Nat) (f : Filter) (x nbs : Nat) (d : Bool) (hdr : Option Nat) (h : u ≠ v) :
    (commit P w v f x nbs d hdr).filters u = w.filters u := by
  unfold commit
  cases f.ref <;> simp [World.setFilter, World.setBlock, h]

theorem commit_blocks_owned (P : Params) (w : World) (v : Nat) (f : Filter) (b : Nat) (hr : f.ref = .owned b) (x nbs : Nat) (d : Bool)
    (hdr : Option Nat) : (commit P w v f x nbs d hdr).blocks = w.blocks := by
  unfold commit; simp [hr, World.setFilter]

theorem commit_blocks_mem (P : Params) (w : World) (v : Nat) (f : Filter) (m : Nat) (hr : f.ref = .mem m) (x nbs : Nat) (d : Bool)
    (hdr : Option Nat) (m' : Nat) :
    (commit P w v f x nbs d hdr).blocks m' = if m' = m then some ⟨w.blockLen m, commitVal P f x hdr⟩ else w.blocks m' := by
  unfold commit commitVal; simp only [hr, World.setFilter, World.setBlock]; rfl

/-- low bits (the 24 header bytes) are untouched by a write that only changes the count field and the bit array -/
theorem commitVal_low (P : Params) (hP : P.Layout) (f : Filter) (m : Nat) (hr : f.ref = .mem m) (X x : Nat) (hdr : Option Nat)
    (hx : ∀ j, j < 256 → x.testBit j = X.testBit j) (j : Nat) (hj : j < 192) : (commitVal P f x hdr).testBit j = X.testBit j := by
  unfold commitVal
  simp only [hr]
  cases hdr with
  | none => exact hx j (by omega)
  | some h =>
    by_cases hro : f.readOnly = true
    · simp only [hro, if_true]; exact hx j (by omega)
    · have : f.readOnly = false := by simpa using hro
      simp only [this, Bool.false_eq_true, if_false]
      rw [testBit_setField_out _ _ _ _ _ (by rw [hP.1]; omega)]
      exact hx j (by omega)

theorem commitVal_high (P : Params) (hP : P.Layout) (f : Filter) (x : Nat) (hdr : Option Nat) (j : Nat) :
    (commitVal P f x hdr).testBit (f.off P + j) = x.testBit (f.off P + j) := by
  unfold commitVal Filter.off
  cases hr : f.ref with
  | owned b => rfl
  | mem m =>
    simp only
    cases hdr with
    | none => rfl
    | some h =>
      by_cases hro : f.readOnly = true
      · simp [hro]
      · have : f.readOnly = false := by simpa using hro
        simp only [this, Bool.false_eq_true, if_false]
        rw [testBit_setField_out _ _ _ _ _ (by rw [hP.1, hP.2]; omega)]

theorem commitVal_count (P : Params) (hP : P.Layout) (f : Filter) (m : Nat) (hr : f.ref = .mem m) (hro : f.readOnly = false) (x h : Nat) :
    getField (commitVal P f x (some h)) 192 64 = h % 2 ^ 64 := by
  unfold commitVal
  simp only [hr, hro, Bool.false_eq_true, if_false]
  have : 8 * P.nbsOff = 192 := by rw [hP.1]
  rw [this]; exact getField_setField_same _ _ _ _

theorem commitVal_count_none (P : Params) (f : Filter) (m : Nat) (hr : f.ref = .mem m) (X x : Nat)
    (hx : ∀ j, j < 256 → x.testBit j = X.testBit j) : getField (commitVal P f x none) 192 64 = getField X 192 64 := by
  unfold commitVal
  simp only [hr]
  apply getField_congr
  intro i hi
  exact hx _ (by omega)

/-- the header as `parseImage` sees it after a write -/
theorem parseImage_write (P : Params) (b : Block) (X' : Nat) (hlow : ∀ j, j < 192 → X'.testBit j = b.val.testBit j)
    (cap nh seed nbs nl : Nat) (h : parseImage P b = .full cap nh seed nbs nl) :
    parseImage P ⟨b.len, X'⟩ = .full cap nh seed (getField X' 192 64) nl := by
  have e0 : getField X' 0 8 = getField b.val 0 8 := getField_congr _ _ _ _ (fun i hi => hlow _ (by omega))
  have e1 : getField X' 8 8 = getField b.val 8 8 := getField_congr _ _ _ _ (fun i hi => hlow _ (by omega))
  have e2 : getField X' 16 8 = getField b.val 16 8 := getField_congr _ _ _ _ (fun i hi => hlow _ (by omega))
  have e3 : getField X' 24 8 = getField b.val 24 8 := getField_congr _ _ _ _ (fun i hi => hlow _ (by omega))
  have e4 : getField X' 32 16 = getField b.val 32 16 := getField_congr _ _ _ _ (fun i hi => hlow _ (by omega))
  have e5 : getField X' 64 64 = getField b.val 64 64 := getField_congr _ _ _ _ (fun i hi => hlow _ (by omega))
  have e6 : getField X' 128 32 = getField b.val 128 32 := getField_congr _ _ _ _ (fun i hi => hlow _ (by omega))
  simp only [parseImage, e0, e1, e2, e3, e4, e5, e6] at h ⊢
  repeat' split at h
  all_goals cases h
  simp_all
  repeat' split
  all_goals first
    | rfl
    | (exfalso; omega)
    | (exfalso; simp_all; done)
    | (exfalso; rename_i hc; rcases hc with ⟨hs, h0 | h0⟩ <;> simp_all)

end DS.Bloom

/- Sorting and merging of pair arrays (free to change). -/
import DSProofs.Lemmas.CpcUnionPerm
import DSModel.Cpc.Compress
namespace DS.Cpc

theorem leNat_of_lt {a b : Nat} (h : a < b) : leNat a b = true := decide_eq_true (Nat.le_of_lt h)

theorem le_of_leNat {a b : Nat} (h : leNat a b = true) : a ≤ b := of_decide_eq_true h

theorem sortPairs_perm (l : List Nat) : (sortPairs l).Perm l := List.mergeSort_perm l leNat

theorem sortPairs_le (l : List Nat) : (sortPairs l).Pairwise (fun a b => leNat a b = true) :=
  List.pairwise_mergeSort (le := leNat)
    (by intro a b c h1 h2; have := le_of_leNat h1; have := le_of_leNat h2; exact decide_eq_true (by omega))
    (by intro a b; unfold leNat; rcases Nat.le_total a b with h | h <;> simp [h]) l

theorem sortPairs_of_sorted (l : List Nat) (hs : l.Pairwise (· < ·)) : sortPairs l = l :=
  List.mergeSort_of_pairwise (hs.imp leNat_of_lt)

/-- sorting any permutation of a strictly increasing list gives that list -/
theorem sortPairs_eq_of_perm (l t : List Nat) (hp : l.Perm t) (ht : t.Pairwise (· < ·)) : sortPairs l = t := by
  have ht' : t.Pairwise (fun a b => leNat a b = true) := ht.imp leNat_of_lt
  exact List.Perm.eq_of_pairwise (le := fun a b => leNat a b = true)
    (by intro a b _ _ hab hba; have := le_of_leNat hab; have := le_of_leNat hba; omega) (sortPairs_le l) ht' ((sortPairs_perm l).trans hp)

/-- sorting a duplicate-free list gives a strictly increasing one -/
theorem sortPairs_sorted_of_nodup (l : List Nat) (hn : l.Nodup) : (sortPairs l).Pairwise (· < ·) := by
  have h1 := sortPairs_le l
  have h2 : (sortPairs l).Nodup := (sortPairs_perm l).nodup_iff.2 hn
  rw [List.nodup_iff_pairwise_ne] at h2
  exact List.Pairwise.imp₂ (fun a b hab hne => by have := le_of_leNat hab; omega) h1 h2

theorem mem_sortPairs (l : List Nat) (a : Nat) : a ∈ sortPairs l ↔ a ∈ l := (sortPairs_perm l).mem_iff

@[simp] theorem length_sortPairs (l : List Nat) : (sortPairs l).length = l.length := (sortPairs_perm l).length_eq

/-! ### merge -/

theorem mem_mergeS (xs ys : List Nat) (a : Nat) : a ∈ mergeS xs ys ↔ a ∈ xs ∨ a ∈ ys := by
  fun_induction mergeS xs ys with
  | case1 ys => simp
  | case2 xs h => simp
  | case3 x xs y ys hlt ih =>
    simp only [List.mem_cons, ih]
    constructor
    · rintro (h | h | h | h) <;> simp [h]
    · rintro ((h | h) | (h | h)) <;> simp [h]
  | case4 x xs y ys hge ih =>
    simp only [List.mem_cons, ih]
    constructor
    · rintro (h | (h | h) | h) <;> simp [h]
    · rintro ((h | h) | (h | h)) <;> simp [h]

theorem sorted_mergeS (xs ys : List Nat) (hx : xs.Pairwise (· < ·)) (hy : ys.Pairwise (· < ·))
    (hd : ∀ a, a ∈ xs → a ∈ ys → False) : (mergeS xs ys).Pairwise (· < ·) := by
  fun_induction mergeS xs ys with
  | case1 ys => exact hy
  | case2 xs h => exact hx
  | case3 x xs y ys hlt ih =>
    rw [List.pairwise_cons] at hx
    refine List.pairwise_cons.2 ⟨?_, ih hx.2 hy (fun a ha hb => hd a (List.mem_cons_of_mem _ ha) hb)⟩
    intro a ha
    rcases (mem_mergeS _ _ a).1 ha with h | h
    · exact hx.1 a h
    · rw [List.pairwise_cons] at hy
      rcases List.mem_cons.1 h with rfl | h
      · exact hlt
      · exact Nat.lt_trans hlt (hy.1 a h)
  | case4 x xs y ys hge ih =>
    rw [List.pairwise_cons] at hy
    have hne : x ≠ y := fun e => hd x List.mem_cons_self (by rw [e]; exact List.mem_cons_self)
    refine List.pairwise_cons.2 ⟨?_, ih hx hy.2 (fun a ha hb => hd a ha (List.mem_cons_of_mem _ hb))⟩
    intro a ha
    rcases (mem_mergeS _ _ a).1 ha with h | h
    · rw [List.pairwise_cons] at hx
      rcases List.mem_cons.1 h with rfl | h
      · omega
      · have := hx.1 a h; omega
    · exact hy.1 a h

end DS.Cpc

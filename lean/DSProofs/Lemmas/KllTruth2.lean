/- Ground-truth invariant through update, merge and whole histories. -/
import DSProofs.Lemmas.KllTruth
namespace DS.Kll
open DS DS.SortedView

variable {α : Type}

theorem updateT_invT {P : Params} (ok : ParamsOk P) {c : Cmp α} (sw : StrictWeak c.lt) {s : Sketch α} {inp : List α}
    (h : InvS P c.lt s) (ht : InvT c s inp) (x : α) (hx : c.isNaN x = false) :
    CT.All (fun s' => InvT c s' (x :: inp)) (updateT P c s x) := by
  unfold updateT
  simp only [hx, Bool.false_eq_true, if_false]
  have h1 := updateMinMax_inv h x
  have hlv : (updateMinMax c s x).levels = s.levels := by unfold updateMinMax; split <;> rfl
  have hn : (updateMinMax c s x).n = s.n := by unfold updateMinMax; split <;> rfl
  refine CT.All.imp ?_ (CT.All.and (internalUpdateT_inv ok sw h1 x) (internalUpdateT_prov ok sw h1 x))
  intro s' ⟨⟨_, hn', _, _⟩, hmem, hlen, hhead, hmin, hmax⟩
  rw [hlv] at hmem hlen hhead
  refine ⟨?_, ?_, ?_, ?_, ?_⟩
  · rw [hn', hn, ht.n_eq]; simp
  · intro y hy
    rcases hmem y hy with rfl | h2
    · simp
    · exact List.mem_cons_of_mem _ (ht.mem y h2)
  · rw [hmin]; unfold updateMinMax
    split
    · rename_i h0
      have : inp = [] := List.eq_nil_of_length_eq_zero (by rw [← ht.n_eq]; simpa using h0)
      subst this; simp [IsMin, sw.irrefl]
    · simp only; rw [updMin_cmp]; exact updMin_isMin sw x ht.min_ok
  · rw [hmax]; unfold updateMinMax
    split
    · rename_i h0
      have : inp = [] := List.eq_nil_of_length_eq_zero (by rw [← ht.n_eq]; simpa using h0)
      subst this; simp [IsMax, sw.irrefl]
    · simp only; rw [updMax_cmp]; exact updMax_isMax sw x ht.max_ok
  · intro hl
    rw [hhead hl]
    have : s.levels.length = 1 := by have := List.length_pos_iff.mpr h.ne; omega
    exact List.Perm.cons x (ht.exact this)

/-! ### provenance through merge -/

theorem replayT_prov {P : Params} (ok : ParamsOk P) {c : Cmp α} (sw : StrictWeak c.lt) :
    ∀ (xs : List α) {s : Sketch α}, InvS P c.lt s →
    CT.All (fun s' => (∀ y ∈ s'.levels.flatten, y ∈ xs ∨ y ∈ s.levels.flatten) ∧ s.levels.length ≤ s'.levels.length ∧
              (s'.levels.length = 1 → s'.levels.headD [] = xs.reverse ++ s.levels.headD []) ∧
              s'.minItem = s.minItem ∧ s'.maxItem = s.maxItem) (replayT P c s xs)
  | [], s, h => by
    simp only [replayT, CT.All_ret]
    exact ⟨fun y hy => Or.inr hy, Nat.le_refl _, fun _ => by simp, trivial, trivial⟩
  | x :: t, s, h => by
    simp only [replayT]
    refine CT.All_bind (CT.All.and (internalUpdateT_inv ok sw h x) (internalUpdateT_prov ok sw h x)) ?_
    intro s1 ⟨⟨h1, _, _, _⟩, hmem1, hlen1, hhead1, hmin1, hmax1⟩
    refine CT.All.imp ?_ (replayT_prov ok sw t h1)
    intro s2 ⟨hmem2, hlen2, hhead2, hmin2, hmax2⟩
    refine ⟨?_, by omega, ?_, by rw [hmin2, hmin1], by rw [hmax2, hmax1]⟩
    · intro y hy
      rcases hmem2 y hy with h3 | h3
      · exact Or.inl (List.mem_cons_of_mem _ h3)
      · rcases hmem1 y h3 with rfl | h4
        · exact Or.inl (by simp)
        · exact Or.inr h4
    · intro hl
      have hl1 : s1.levels.length = 1 := by have := List.length_pos_iff.mpr h1.ne; omega
      rw [hhead2 hl, hhead1 hl1]; simp

theorem mem_zipLevels {lt : α → α → Bool} {a b : List (List α)} {y : α} (h : y ∈ (zipLevels lt a b).flatten) :
    y ∈ a.flatten ∨ y ∈ b.flatten := by
  obtain ⟨i, hi⟩ := mem_flatten_iff_getD.mp h
  rw [zipLevels_getD] at hi
  rcases mem_mergeUp.mp hi with h1 | h1
  · exact Or.inl (mem_flatten_iff_getD.mpr ⟨i, h1⟩)
  · exact Or.inr (mem_flatten_iff_getD.mpr ⟨i, h1⟩)

theorem gcLoop_prov (P : Params) (lt : α → α → Bool) (k : Nat) (sorted0 : Bool) :
    ∀ (fuel : Nat) (below : List (List α)) (cur : List α) (rest : List (List α)) (cnt tgt : Nat),
    CT.All (fun r => ∀ y ∈ r.1.flatten, y ∈ (below.reverse ++ cur :: rest).flatten)
      (gcLoop P lt k sorted0 fuel below cur rest cnt tgt)
  | 0, below, cur, rest, cnt, tgt => by simp only [gcLoop, CT.All_ret]; exact fun y hy => hy
  | fuel + 1, below, cur, rest, cnt, tgt => by
    simp only [gcLoop]
    split
    · cases rest with
      | nil => simp only [CT.All_ret]; exact fun y hy => hy
      | cons r rs =>
        have := gcLoop_prov P lt k sorted0 fuel (cur :: below) r rs cnt tgt
        simpa only [List.reverse_cons, List.append_assoc, List.singleton_append] using this
    · simp only [CT.All_flip]
      intro coin
      cases rest with
      | nil =>
        refine CT.All.imp ?_ (gcLoop_prov P lt k sorted0 fuel (leftoverOf cur :: below) _ [] _ _)
        intro r hr y hy
        have h1 := hr y hy
        have hL' : (leftoverOf cur :: below).reverse ++ [newAbove lt (below.length == 0 && !sorted0) coin cur []]
            = compactAt lt (below.length == 0 && !sorted0) coin below.reverse.length ((below.reverse ++ [cur]) ++ [[]]) := by
          rw [List.append_assoc]
          simp only [List.singleton_append]
          rw [compactAt_append]
          simp only [List.reverse_cons, List.append_assoc, List.singleton_append]
        rw [hL'] at h1
        have := mem_compactAt (by simp only [List.length_append, List.length_reverse, List.length_singleton]; omega) h1
        simpa using this
      | cons r rs =>
        refine CT.All.imp ?_ (gcLoop_prov P lt k sorted0 fuel (leftoverOf cur :: below) _ rs _ _)
        intro r' hr y hy
        have h1 := hr y hy
        have hL' : (leftoverOf cur :: below).reverse ++ newAbove lt (below.length == 0 && !sorted0) coin cur r :: rs
            = compactAt lt (below.length == 0 && !sorted0) coin below.reverse.length (below.reverse ++ cur :: r :: rs) := by
          rw [compactAt_append]
          simp only [List.reverse_cons, List.append_assoc, List.singleton_append]
        rw [hL'] at h1
        exact mem_compactAt (by simp only [List.length_append, List.length_reverse, List.length_cons]; omega) h1

theorem mergeHigherT_prov (P : Params) (c : Cmp α) (s o : Sketch α) (hne : s.levels ≠ []) :
    CT.All (fun s' => (∀ y ∈ s'.levels.flatten, y ∈ s.levels.flatten ∨ y ∈ o.levels.flatten) ∧
              s'.minItem = s.minItem ∧ s'.maxItem = s.maxItem) (mergeHigherT P c s o) := by
  unfold mergeHigherT
  refine CT.All_bind (gcLoop_prov P c.lt s.k s.sorted0 _ [] _ _ _ _) ?_
  intro r hr
  simp only [CT.All_ret]
  refine ⟨?_, trivial, trivial⟩
  intro y hy
  have := hr y hy
  simp only [List.reverse_nil, List.nil_append, List.headD_cons, List.tail_cons, List.flatten_cons, List.mem_append] at this
  cases hs : s.levels with
  | nil => exact absurd hs hne
  | cons a b =>
    rw [hs] at this
    simp only [List.headD_cons, List.tail_cons] at this
    rcases this with h1 | h1
    · left; simp [h1]
    · rcases mem_zipLevels h1 with h2 | h2
      · left; simp [h2]
      · right
        cases ho : o.levels with
        | nil => rw [ho] at h2; simp at h2
        | cons a' b' => rw [ho] at h2; simp only [List.tail_cons] at h2; simp [h2]

theorem mergeT_invT {P : Params} (ok : ParamsOk P) {c : Cmp α} (sw : StrictWeak c.lt) {s o : Sketch α} {is io : List α}
    (hs : InvS P c.lt s) (ho : InvS P c.lt o) (hts : InvT c s is) (hto : InvT c o io) :
    CT.All (fun s' => InvT c s' (io ++ is)) (mergeT P c s o) := by
  unfold mergeT
  split
  · rename_i h0
    have : io = [] := List.eq_nil_of_length_eq_zero (by rw [← hto.n_eq]; simpa using h0)
    subst this; simpa using hts
  · rename_i h0
    have hio : io ≠ [] := by
      intro h; subst h
      have := hto.n_eq; simp only [List.length_nil] at this
      exact h0 (by simp [this])
    have hf := mergeMinMax_fields c s o
    have hmm := mergeMinMax_inv hs o
    have hol := levels_eq_cons ho
    -- extremes after mergeMinMax
    have hmin : IsMin c.lt (mergeMinMax c s o).minItem (io ++ is) := by
      unfold mergeMinMax
      split
      · rename_i hs0
        have : is = [] := List.eq_nil_of_length_eq_zero (by rw [← hts.n_eq]; simpa using hs0)
        subst this; simpa using hto.min_ok
      · cases hom : o.minItem with
        | none => have := hto.min_ok; rw [hom] at this; exact absurd this hio
        | some a =>
          simp only
          rw [updMin_cmp]
          have := hto.min_ok; rw [hom] at this
          exact isMin_append sw this hts.min_ok
    have hmax : IsMax c.lt (mergeMinMax c s o).maxItem (io ++ is) := by
      unfold mergeMinMax
      split
      · rename_i hs0
        have : is = [] := List.eq_nil_of_length_eq_zero (by rw [← hts.n_eq]; simpa using hs0)
        subst this; simpa using hto.max_ok
      · cases hom : o.maxItem with
        | none => have := hto.max_ok; rw [hom] at this; exact absurd this hio
        | some a =>
          simp only
          rw [updMax_cmp]
          have := hto.max_ok; rw [hom] at this
          exact isMax_append sw this hts.max_ok
    have hl0mem : ∀ y ∈ o.levels.headD [], y ∈ io := by
      intro y hy; apply hto.mem; rw [hol]; simp only [List.flatten_cons, List.mem_append]; exact Or.inl hy
    refine CT.All_bind (CT.All.and (replayT_inv ok sw (o.levels.headD []) hmm) (replayT_prov ok sw (o.levels.headD []) hmm)) ?_
    intro s2 ⟨⟨h2, _, _, _, _⟩, hmem2, hlen2, hhead2, hmin2, hmax2⟩
    rw [hf.2.2.1] at hmem2 hlen2 hhead2
    by_cases ho2 : o.numLevels ≥ 2
    · simp only [ho2, if_true]
      refine CT.All_bind (CT.All.and (mergeHigherT_inv ok sw h2 ho (by simpa [Sketch.numLevels] using ho2))
        (mergeHigherT_prov P c s2 o h2.ne)) ?_
      intro s3 ⟨⟨_, _, _, hl3⟩, hmem3, hmin3, hmax3⟩
      simp only [CT.All_ret]
      refine ⟨?_, ?_, ?_, ?_, ?_⟩
      · show s.n + o.n = (io ++ is).length
        rw [hts.n_eq, hto.n_eq]; simp; omega
      · intro y hy
        rcases hmem3 y hy with h4 | h4
        · rcases hmem2 y h4 with h5 | h5
          · exact List.mem_append_left _ (hl0mem y h5)
          · exact List.mem_append_right _ (hts.mem y h5)
        · exact List.mem_append_left _ (hto.mem y h4)
      · show IsMin c.lt s3.minItem _; rw [hmin3, hmin2]; exact hmin
      · show IsMax c.lt s3.maxItem _; rw [hmax3, hmax2]; exact hmax
      · intro hl; exfalso
        have : s3.levels.length = 1 := hl
        omega
    · simp only [ho2, if_false, CT.bind_ret, CT.All_ret]
      have h1 : o.levels.length = 1 := by
        have := List.length_pos_iff.mpr ho.ne
        simp only [Sketch.numLevels] at ho2; omega
      refine ⟨?_, ?_, ?_, ?_, ?_⟩
      · show s.n + o.n = (io ++ is).length
        rw [hts.n_eq, hto.n_eq]; simp; omega
      · intro y hy
        rcases hmem2 y hy with h5 | h5
        · exact List.mem_append_left _ (hl0mem y h5)
        · exact List.mem_append_right _ (hts.mem y h5)
      · show IsMin c.lt s2.minItem _; rw [hmin2]; exact hmin
      · show IsMax c.lt s2.maxItem _; rw [hmax2]; exact hmax
      · intro hl
        have hl2 : s2.levels.length = 1 := hl
        have hsl : s.levels.length = 1 := by have := List.length_pos_iff.mpr hs.ne; omega
        show (s2.levels.headD []).Perm (io ++ is)
        rw [hhead2 hl2]
        exact List.Perm.append ((List.reverse_perm _).trans (hto.exact h1)) (hts.exact hsl)

/-! ### histories -/

/-- the state list and the ground truth correspond sketch by sketch -/
def Coupled (c : Cmp α) (st : List (Sketch α)) (tr : List (List α)) : Prop :=
  st.length = tr.length ∧ ∀ (i : Nat) (s : Sketch α) (inp : List α), st[i]? = some s → tr[i]? = some inp → InvT c s inp

theorem Coupled.set {c : Cmp α} {st : List (Sketch α)} {tr : List (List α)} (h : Coupled c st tr) (i : Nat)
    {s' : Sketch α} {inp' : List α} (h' : InvT c s' inp') : Coupled c (st.set i s') (tr.set i inp') := by
  refine ⟨by simp [h.1], ?_⟩
  intro j s inp hs hi
  by_cases hij : i = j
  · subst hij
    by_cases hlt : i < st.length
    · rw [List.getElem?_set_self hlt] at hs
      rw [List.getElem?_set_self (by rw [← h.1]; exact hlt)] at hi
      simp only [Option.some.injEq] at hs hi; subst hs; subst hi; exact h'
    · rw [List.getElem?_eq_none (by simp only [List.length_set]; omega)] at hs
      exact absurd hs (by simp)
  · rw [List.getElem?_set_ne hij] at hs hi
    exact h.2 j s inp hs hi

theorem Coupled.append {c : Cmp α} {st : List (Sketch α)} {tr : List (List α)} (h : Coupled c st tr)
    {s' : Sketch α} {inp' : List α} (h' : InvT c s' inp') : Coupled c (st ++ [s']) (tr ++ [inp']) := by
  refine ⟨by simp [h.1], ?_⟩
  intro j s inp hs hi
  by_cases hj : j < st.length
  · rw [List.getElem?_append_left hj] at hs
    rw [List.getElem?_append_left (by rw [← h.1]; exact hj)] at hi
    exact h.2 j s inp hs hi
  · rw [List.getElem?_append_right (by omega)] at hs
    rw [List.getElem?_append_right (by rw [← h.1]; omega)] at hi
    rw [← h.1] at hi
    cases hk : j - st.length with
    | zero => rw [hk] at hs hi; simp only [List.getElem?_cons_zero, Option.some.injEq] at hs hi; subst hs; subst hi; exact h'
    | succ k => rw [hk] at hs; simp at hs

theorem sortLevelZero_invT {P : Params} {c : Cmp α} {s : Sketch α} {inp : List α} (hs : InvS P c.lt s) (h : InvT c s inp) :
    InvT c (sortLevelZero c s) inp := by
  unfold sortLevelZero
  split
  · exact h
  · obtain ⟨l0, t, hL⟩ : ∃ l0 t, s.levels = l0 :: t := ⟨_, _, levels_eq_cons hs⟩
    have hm := h.mem; have he := h.exact
    simp only [hL, sortHead, List.headD_cons] at hm he ⊢
    refine ⟨h.n_eq, ?_, h.min_ok, h.max_ok, ?_⟩
    · intro y hy
      simp only [List.flatten_cons, List.mem_append] at hy hm
      rcases hy with h1 | h1
      · exact hm y (by simp [mem_sortBy.mp h1])
      · exact hm y (by simp [h1])
    · intro hl
      simp only [List.headD_cons]
      exact (sortBy_perm c.lt l0).trans (he (by simpa using hl))

theorem stepT_coupled {P : Params} (ok : ParamsOk P) {c : Cmp α} (sw : StrictWeak c.lt) {st : List (Sketch α)}
    {tr : List (List α)} (hi : ∀ s ∈ st, InvS P c.lt s) (h : Coupled c st tr) (op : Op α) :
    CT.All (fun st' => Coupled c st' (truthStep P c tr op)) (stepT P c st op) := by
  cases op with
  | new k =>
    simp only [stepT, truthStep, CT.All_ret]
    split
    · exact h.append (init_invT c k)
    · exact h
  | upd i x =>
    simp only [stepT, truthStep]
    cases hs : st[i]? with
    | none =>
      have : tr[i]? = none := by
        rw [List.getElem?_eq_none_iff] at hs ⊢; rw [← h.1]; exact hs
      simp only [this, CT.All_ret]; exact h
    | some s =>
      have hlt : i < tr.length := by
        rw [← h.1]; exact (List.getElem?_eq_some_iff.mp hs).1
      have hti : tr[i]? = some tr[i] := List.getElem?_eq_getElem hlt
      simp only [hti]
      have hsm : s ∈ st := List.mem_of_getElem? hs
      by_cases hx : c.isNaN x = true
      · simp only [hx, if_true]
        refine CT.All_map (P := fun s' => s' = s) ?_ ?_
        · unfold updateT; simp [hx]
        · intro s' hs'; subst hs'
          have : st.set i s' = st := by
            obtain ⟨hl, rfl⟩ := List.getElem?_eq_some_iff.mp hs
            simp
          rw [this]; exact h
      · have hx' : c.isNaN x = false := by simpa using hx
        simp only [hx', Bool.false_eq_true, if_false]
        refine CT.All_map (updateT_invT ok sw (hi s hsm) (h.2 i s _ hs hti) x hx') ?_
        intro s' hs'
        exact h.set i hs'
  | merge i j =>
    simp only [stepT, truthStep]
    split
    · exact h
    · cases hsi : st[i]? with
      | none =>
        have : tr[i]? = none := by
          rw [List.getElem?_eq_none_iff] at hsi ⊢; rw [← h.1]; exact hsi
        simp only [this, CT.All_ret]; exact h
      | some a =>
        have hlti : i < tr.length := by rw [← h.1]; exact (List.getElem?_eq_some_iff.mp hsi).1
        have hti : tr[i]? = some tr[i] := List.getElem?_eq_getElem hlti
        cases hsj : st[j]? with
        | none =>
          have : tr[j]? = none := by
            rw [List.getElem?_eq_none_iff] at hsj ⊢; rw [← h.1]; exact hsj
          simp only [hti, this, CT.All_ret]; exact h
        | some b =>
          have hltj : j < tr.length := by rw [← h.1]; exact (List.getElem?_eq_some_iff.mp hsj).1
          have htj : tr[j]? = some tr[j] := List.getElem?_eq_getElem hltj
          simp only [hti, htj]
          refine CT.All_map (mergeT_invT ok sw (hi a (List.mem_of_getElem? hsi)) (hi b (List.mem_of_getElem? hsj))
            (h.2 i a _ hsi hti) (h.2 j b _ hsj htj)) ?_
          intro s' hs'
          exact h.set i hs'
  | copy i =>
    simp only [stepT, truthStep]
    cases hs : st[i]? with
    | none =>
      have : tr[i]? = none := by
        rw [List.getElem?_eq_none_iff] at hs ⊢; rw [← h.1]; exact hs
      simp only [this, CT.All_ret]; exact h
    | some s =>
      have hlt : i < tr.length := by rw [← h.1]; exact (List.getElem?_eq_some_iff.mp hs).1
      have hti : tr[i]? = some tr[i] := List.getElem?_eq_getElem hlt
      simp only [hti, CT.All_ret]
      exact h.append (h.2 i s _ hs hti)
  | view i =>
    simp only [stepT, truthStep]
    cases hs : st[i]? with
    | none => simp only [CT.All_ret]; exact h
    | some s =>
      have hlt : i < tr.length := by rw [← h.1]; exact (List.getElem?_eq_some_iff.mp hs).1
      have hti : tr[i]? = some tr[i] := List.getElem?_eq_getElem hlt
      simp only [CT.All_ret]
      have := h.set i (sortLevelZero_invT (hi s (List.mem_of_getElem? hs)) (h.2 i s _ hs hti))
      have e : tr.set i tr[i] = tr := by simp
      rw [e] at this; exact this

theorem runT_coupled {P : Params} (ok : ParamsOk P) {c : Cmp α} (sw : StrictWeak c.lt) :
    ∀ (ops : List (Op α)) {st : List (Sketch α)} {tr : List (List α)}, (∀ s ∈ st, InvS P c.lt s) → Coupled c st tr →
    CT.All (fun st' => (∀ s ∈ st', InvS P c.lt s) ∧ Coupled c st' (truth P c ops tr)) (runT P c ops st)
  | [], _, _, hi, h => ⟨hi, h⟩
  | op :: ops, _, _, hi, h => by
    simp only [runT, truth]
    refine CT.All_bind (CT.All.and (stepT_inv ok sw hi op) (stepT_coupled ok sw hi h op)) ?_
    intro st' ⟨hi', h'⟩
    exact runT_coupled ok sw ops hi' h'

end DS.Kll

/- The validated ("strict") readers: nothing is outside the modelled domain any more, zero counts are refused. -/
import DSProofs.Lemmas.BloomInv4
namespace DS.Bloom

theorem parseImage_strict_outside (P : Params) (hs : P.strict = true) (hstd : P.preStd = 4) (b : Block) :
    parseImage P b ≠ .outside := by
  intro h
  simp only [parseImage, hs, capOf, Bool.true_and, if_true] at h
  repeat' split at h
  all_goals cases h
  all_goals
    simp only [Bool.or_eq_true, beq_iff_eq, bne_iff_ne, ne_eq, decide_eq_true_eq, not_or, Decidable.not_not, Nat.not_lt] at *
    omega

theorem parseImage_strict_full (P : Params) (hs : P.strict = true) (hstd : P.preStd = 4) (b : Block)
    (cap nh seed nbs nl : Nat) (h : parseImage P b = .full cap nh seed nbs nl) : nh ≠ 0 ∧ nl ≠ 0 ∧ cap = nl * 64 ∧ 32 ≤ b.len := by
  simp only [parseImage, hs, capOf, Bool.true_and, if_true] at h
  repeat' split at h
  all_goals cases h
  simp only [Bool.or_eq_true, beq_iff_eq, bne_iff_ne, ne_eq, decide_eq_true_eq, not_or, Decidable.not_not, Nat.not_lt] at *
  refine ⟨by omega, by omega, by trivial, by omega⟩

theorem parseImage_strict_empty (P : Params) (hs : P.strict = true) (b : Block)
    (nb nh seed : Nat) (h : parseImage P b = .emptyImg nb nh seed) : nh ≠ 0 ∧ nb ≠ 0 := by
  simp only [parseImage, hs, capOf, Bool.true_and, if_true] at h
  repeat' split at h
  all_goals cases h
  simp only [Bool.or_eq_true, beq_iff_eq, bne_iff_ne, ne_eq, decide_eq_true_eq, not_or, Decidable.not_not, Nat.not_lt] at *
  refine ⟨by omega, by omega⟩

/-- strict readers never produce `.outside`, and a standard image has non-zero counts and its 32 header bytes -/
theorem parseImage_strict (P : Params) (hs : P.strict = true) (hstd : P.preStd = 4) (b : Block) :
    parseImage P b ≠ .outside ∧
    (∀ cap nh seed nbs nl, parseImage P b = .full cap nh seed nbs nl → nh ≠ 0 ∧ nl ≠ 0 ∧ cap = nl * 64 ∧ 32 ≤ b.len) ∧
    (∀ nb nh seed, parseImage P b = .emptyImg nb nh seed → nh ≠ 0 ∧ nb ≠ 0) :=
  ⟨parseImage_strict_outside P hs hstd b, parseImage_strict_full P hs hstd b, parseImage_strict_empty P hs b⟩

/-- with the strict readers deserialize / wrap / writable_wrap of ANY existing block either throws or succeeds:
never "outside the modelled domain" (no read past the buffer, no zero capacity), and a filter it returns has at least
one hash function and a positive capacity that fits the block -/
theorem opWrap_strict (P : Params) (hs : P.strict = true) (hstd : P.preStd = 4) (w : World) (k : WrapKind) (m v : Nat) (b : Block)
    (hm : w.blocks m = some b) :
    (opWrap P w k m v).2 ≠ .oob ∧
    (∀ f, (opWrap P w k m v).2 = .ok → (opWrap P w k m v).1.filters v = some f →
        1 ≤ f.numHashes ∧ 0 < f.capBits ∧ (isMem f = true → 32 + f.capBits / 8 ≤ b.len)) := by
  obtain ⟨hno, hfull, hempty⟩ := parseImage_strict P hs hstd b
  cases hp : parseImage P b with
  | refuse => simp [opWrap, hm, hp]
  | outside => exact absurd hp hno
  | emptyImg nb nh seed =>
    obtain ⟨hnh, hnb⟩ := hempty nb nh seed hp
    by_cases hk : (k == .wwrap) = true
    · simp [opWrap, hm, hp, hk]
    · by_cases hb : badSize P nb nh = true
      · simp [opWrap, hm, hp, hk, hb]
      · simp only [opWrap, hm, hp, hk, hb, Bool.false_eq_true, if_false]
        refine ⟨by simp, ?_⟩
        intro f _ hf
        simp only [setFilter_filters_same, Option.some.injEq] at hf
        subst hf
        have := roundUp64_pos nb hnb
        exact ⟨by simp only [mkOwned]; omega, this.1, fun h => by simp [isMem, mkOwned] at h⟩
  | full cap nh seed nbs nl =>
    obtain ⟨hnh, hnl, hcap, hlen⟩ := hfull cap nh seed nbs nl hp
    have hnb : nbytesOf P nl = nl * 8 := by simp [nbytesOf, hs]
    by_cases hst : b.len - 32 < nl * 8
    · simp [opWrap, hm, hp, hs, hnb, hst]
    · have hfit : 32 + cap / 8 ≤ b.len := by omega
      cases k with
      | deser =>
        simp only [opWrap, hm, hp, hs, hnb, hst, decide_false, Bool.and_false, Bool.false_eq_true, if_false]
        refine ⟨by simp, ?_⟩
        intro f _ hf
        simp only [setFilter_filters_same, Option.some.injEq] at hf
        subst hf
        exact ⟨by simp only [deserFilter]; omega, by simp only [deserFilter]; omega, fun h => by simp [isMem, deserFilter] at h⟩
      | wrap =>
        have : ¬ b.len < 32 + cap / 8 := by omega
        simp only [opWrap, hm, hp, hs, hnb, hst, this, decide_false, Bool.and_false, Bool.false_eq_true, if_false]
        refine ⟨by simp, ?_⟩
        intro f _ hf
        simp only [setFilter_filters_same, Option.some.injEq] at hf
        subst hf
        exact ⟨by simp only [wrapFilter]; omega, by simp only [wrapFilter]; omega, fun _ => by simp only [wrapFilter]; exact hfit⟩
      | wwrap =>
        have : ¬ b.len < 32 + cap / 8 := by omega
        simp only [opWrap, hm, hp, hs, hnb, hst, this, decide_false, Bool.and_false, Bool.false_eq_true, if_false]
        refine ⟨by simp, ?_⟩
        intro f _ hf
        simp only [setFilter_filters_same, Option.some.injEq] at hf
        subst hf
        exact ⟨by simp only [wrapFilter]; omega, by simp only [wrapFilter]; omega, fun _ => by simp only [wrapFilter]; exact hfit⟩

end DS.Bloom

/- Update streams (C18): bookkeeping of `runUpdates`, and the exact content when all weights are equal and n ≤ k. -/
import DSProofs.Lemmas.EbppsSketch
namespace DS.Ebpps

variable {P : Nat → Prop}

/-- sum of the weights of a stream -/
def wsum (ops : List (Upd Rat)) : Rat := (ops.map (·.w)).sum
/-- running maximum of the weights, starting from `m` -/
def wmaxFrom (m : Rat) (ops : List (Upd Rat)) : Rat := ops.foldl (fun m u => max m u.w) m

/-- admissible stream: positive weights, items satisfying `P`, admissible draws -/
def StreamOK (v : Variant) (P : Nat → Prop) (ops : List (Upd Rat)) : Prop :=
  ∀ u ∈ ops, 0 < u.w ∧ P u.item ∧ UnitOK v.geDraw u.d

theorem updateOr_wf {v : Variant} {s : Sketch Rat} {u : Upd Rat}
    (h : WF P s) (hw : 0 < u.w) (hP : P u.item) (hd : UnitOK v.geDraw u.d) :
    WF P (updateOr v s u) ∧ Core P (updateOr v s u) (updateOr v s u).wtMax (updateOr v s u).k ∧
    (updateOr v s u).n = s.n + 1 ∧ (updateOr v s u).cumWt = s.cumWt + u.w ∧
    (updateOr v s u).wtMax = max s.wtMax u.w ∧ (updateOr v s u).k = s.k := by
  obtain ⟨s', d', e, h1, h2, h3, h4, h5, h6, -⟩ := update_wf (v := v) h hw hP hd
  unfold updateOr
  rw [e]
  exact ⟨h1, h2, h3, h4, h5, h6⟩

theorem runUpdates_wf (v : Variant) (ops : List (Upd Rat)) : ∀ s : Sketch Rat, WF P s → StreamOK v P ops →
    WF P (runUpdates v s ops) ∧ (runUpdates v s ops).n = s.n + ops.length ∧
    (runUpdates v s ops).cumWt = s.cumWt + wsum ops ∧ (runUpdates v s ops).wtMax = wmaxFrom s.wtMax ops ∧
    (runUpdates v s ops).k = s.k := by
  induction ops with
  | nil => intro s h _; simp [runUpdates, wsum, wmaxFrom, h]
  | cons u rest ih =>
    intro s h hok
    obtain ⟨hw, hP, hd⟩ := hok u (by simp)
    obtain ⟨h1, -, h3, h4, h5, h6⟩ := updateOr_wf (v := v) h hw hP hd
    obtain ⟨i1, i2, i3, i4, i5⟩ := ih (updateOr v s u) h1 (fun x hx => hok x (by simp [hx]))
    simp only [runUpdates]
    refine ⟨i1, ?_, ?_, ?_, by rw [i5, h6]⟩
    · rw [i2, h3]; simp; omega
    · rw [i3, h4]; simp [wsum]; ring
    · rw [i4, h5]; simp [wmaxFrom]

/-- after at least one update the state is `live`: `Core` holds for the fields `wtMax`, `k`. -/
theorem runUpdates_core (v : Variant) (ops : List (Upd Rat)) (hne : ops ≠ []) (s : Sketch Rat) (h : WF P s)
    (hok : StreamOK v P ops) :
    Core P (runUpdates v s ops) (runUpdates v s ops).wtMax (runUpdates v s ops).k := by
  have hwf := (runUpdates_wf v ops s h hok).1
  have hn := (runUpdates_wf v ops s h hok).2.1
  cases hwf with
  | fresh _ _ hn0 _ _ _ =>
    exfalso
    have : 0 < ops.length := List.length_pos_iff.2 hne
    omega
  | live _ hc _ _ => exact hc

/-! ### equal weights, n ≤ k: nothing is ever down-sampled -/

theorem downsample_one (ge : Bool) (s : Sample Rat) (d : Draws Rat) : downsample ge s 1 d = (s, d) := by
  rw [downsample_eq]; simp

theorem floor_natCast' (m : Nat) : ((m : Rat)).floor = (m : Int) := by
  have : ((m : Rat)) = (((m : Int)) : Rat) := by push_cast; rfl
  rw [this]; exact Rat.floor_intCast _

theorem mergeSample_whole (ge : Bool) (m : Nat) (l : List Nat) (item : Nat) (d : Draws Rat) :
    mergeSample ge ⟨(m : Rat), l, none⟩ ⟨1, [item], none⟩ d = (⟨((m + 1 : Nat) : Rat), l ++ [item], none⟩, d) := by
  rw [mergeSample_eq]
  have h1 : ((1 : Rat)).floor = 1 := by simpa using floor_natCast' 1
  simp [floor_natCast', h1]

theorem update_equal {v : Variant} {s : Sketch Rat} {m : Nat} {l : List Nat} {w : Rat} (hw : 0 < w)
    (hsample : s.sample = ⟨(m : Rat), l, none⟩) (hcum : s.cumWt = m * w)
    (hmax : s.wtMax = if m = 0 then 0 else w) (hrho : 0 < m → s.rho = 1 / w) (hmk : m + 1 ≤ s.k)
    (item : Nat) (d : Draws Rat) :
    (updateOr v s ⟨item, w, d⟩).sample = ⟨((m + 1 : Nat) : Rat), l ++ [item], none⟩ ∧
    (updateOr v s ⟨item, w, d⟩).cumWt = ((m + 1 : Nat) : Rat) * w ∧
    (updateOr v s ⟨item, w, d⟩).wtMax = w ∧ (updateOr v s ⟨item, w, d⟩).rho = 1 / w ∧
    (updateOr v s ⟨item, w, d⟩).k = s.k ∧ (updateOr v s ⟨item, w, d⟩).n = s.n + 1 := by
  have hmaxw : max s.wtMax w = w := by
    rw [hmax]; split
    · exact max_eq_right (le_of_lt hw)
    · exact max_self w
  have hwne : w ≠ 0 := ne_of_gt hw
  have hnotbad : (Num.lt w (zero : Rat) || !Num.finite w) = false := by simp [le_of_lt hw]
  have hnz : Num.eq w (zero : Rat) = false := by simp [hwne]
  have hm1 : (0 : Rat) < (m : Rat) + 1 := by positivity
  -- the new rho is 1/w because n + 1 ≤ k
  have hnr : min (1 / w) ((s.k : Rat) / (s.cumWt + w)) = 1 / w := by
    apply min_eq_left
    rw [hcum, show (m : Rat) * w + w = ((m : Rat) + 1) * w by ring, div_le_div_iff₀ hw (mul_pos hm1 hw)]
    have : ((m : Rat) + 1) ≤ s.k := by exact_mod_cast hmk
    nlinarith
  have hds : (if Num.lt (zero : Rat) s.cumWt then downsample v.geDraw s.sample (1 / w / s.rho) d else (s.sample, d)) = (s.sample, d) := by
    split
    · rename_i hpos
      have hmpos : 0 < m := by
        rcases Nat.eq_zero_or_pos m with h0 | h0
        · rw [hcum, h0] at hpos; simp at hpos
        · exact h0
      rw [hrho hmpos, div_self (by positivity), downsample_one]
    · rfl
  have e : update v s item w d =
      some ({ s with cumWt := s.cumWt + w, rho := 1 / w, sample := ⟨((m + 1 : Nat) : Rat), l ++ [item], none⟩,
                     wtMax := w, n := s.n + 1 }, d) := by
    unfold update
    simp only [hnotbad, hnz, rat_cmax, hmaxw]
    unfold absorb
    simp only [rat_newRho, hnr, hds]
    have hth : 1 / w * w = 1 := by field_simp
    rw [hth]
    have hrc : replaceContent item (1 : Rat) = ⟨1, [item], none⟩ := by simp [replaceContent]
    rw [mergeSampleV_eq_rat, replaceContentV_eq_rat _ _ (le_refl 1), hrc, hsample, mergeSample_whole]
    rfl
  unfold updateOr
  rw [e]
  refine ⟨rfl, ?_, rfl, rfl, rfl, rfl⟩
  show s.cumWt + w = ((m + 1 : Nat) : Rat) * w
  rw [hcum]; push_cast; ring

/-- state after `m` equal-weight updates while `m ≤ k` -/
structure EqState (s : Sketch Rat) (m : Nat) (l : List Nat) (w : Rat) : Prop where
  sample : s.sample = ⟨(m : Rat), l, none⟩
  cum : s.cumWt = m * w
  mx : s.wtMax = if m = 0 then 0 else w
  rho : 0 < m → s.rho = 1 / w

theorem runUpdates_equal (v : Variant) (w : Rat) (hw : 0 < w) (ops : List (Upd Rat)) :
    ∀ (s : Sketch Rat) (m : Nat) (l : List Nat), EqState s m l w → (∀ u ∈ ops, u.w = w) → m + ops.length ≤ s.k →
    EqState (runUpdates v s ops) (m + ops.length) (l ++ ops.map (·.item)) w ∧ (runUpdates v s ops).k = s.k := by
  induction ops with
  | nil => intro s m l h _ _; simpa [runUpdates] using h
  | cons u rest ih =>
    intro s m l h hall hk
    have huw : u.w = w := hall u (by simp)
    have hu : u = ⟨u.item, w, u.d⟩ := by cases u; simp_all
    simp only [List.length_cons] at hk
    obtain ⟨e1, e2, e3, e4, e5, -⟩ := update_equal (v := v) hw h.sample h.cum h.mx h.rho (by omega) u.item u.d
    rw [← hu] at e1 e2 e3 e4 e5
    have hst : EqState (updateOr v s u) (m + 1) (l ++ [u.item]) w :=
      ⟨e1, e2, by rw [e3]; simp, fun _ => e4⟩
    obtain ⟨i1, i2⟩ := ih (updateOr v s u) (m + 1) (l ++ [u.item]) hst (fun x hx => hall x (by simp [hx])) (by rw [e5]; omega)
    simp only [runUpdates, List.length_cons, List.map_cons]
    refine ⟨?_, by rw [i2, e5]⟩
    have : m + 1 + rest.length = m + (rest.length + 1) := by omega
    rw [this] at i1
    simpa using i1

end DS.Ebpps

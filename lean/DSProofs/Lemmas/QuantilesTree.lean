/- Generic lemmas on choice trees (DSModel/Quantiles/Tree.lean): sums over all leaves, `All`, `Uniform`, `run`. -/
import DSModel.Quantiles.Tree
namespace DS.Quantiles.Tree

variable {β γ : Type}

/-! ### sumRange -/

theorem sumRange_congr {n : Nat} {f g : Nat → Nat} (h : ∀ c, c < n → f c = g c) : sumRange n f = sumRange n g := by
  induction n with
  | zero => rfl
  | succ n ih =>
    simp only [sumRange]
    rw [ih (fun c hc => h c (by omega)), h n (by omega)]

theorem sumRange_add (n : Nat) (f g : Nat → Nat) : sumRange n (fun c => f c + g c) = sumRange n f + sumRange n g := by
  induction n with
  | zero => rfl
  | succ n ih => simp only [sumRange, ih]; omega

theorem sumRange_mul (n a : Nat) (f : Nat → Nat) : sumRange n (fun c => a * f c) = a * sumRange n f := by
  induction n with
  | zero => simp [sumRange]
  | succ n ih => simp only [sumRange, ih, Nat.mul_add]

theorem sumRange_const (n a : Nat) : sumRange n (fun _ => a) = n * a := by
  induction n with
  | zero => simp [sumRange]
  | succ n ih => simp only [sumRange, ih, Nat.add_mul, Nat.one_mul]

/-! ### sum -/

theorem sum_bind (W : γ → Nat) (t : Tree β) (f : β → Tree γ) : (t.bind f).sum W = t.sum (fun b => (f b).sum W) := by
  induction t with
  | done b => rfl
  | choose ar k ih => simp only [bind, sum]; exact sumRange_congr (fun c _ => ih c)

theorem sum_map (W : γ → Nat) (t : Tree β) (f : β → γ) : (t.map f).sum W = t.sum (fun b => W (f b)) := by
  unfold map; rw [sum_bind]; rfl

theorem sum_add (t : Tree β) (f g : β → Nat) : t.sum (fun b => f b + g b) = t.sum f + t.sum g := by
  induction t with
  | done b => rfl
  | choose ar k ih =>
    simp only [sum]
    rw [← sumRange_add]; exact sumRange_congr (fun c _ => ih c)

theorem sum_mul (t : Tree β) (a : Nat) (f : β → Nat) : t.sum (fun b => a * f b) = a * t.sum f := by
  induction t with
  | done b => rfl
  | choose ar k ih =>
    simp only [sum]
    rw [← sumRange_mul]; exact sumRange_congr (fun c _ => ih c)

theorem sum_const (t : Tree β) (a : Nat) : t.sum (fun _ => a) = t.leafCount * a := by
  have := sum_mul t a (fun _ => 1)
  simp only [Nat.mul_one] at this
  rw [this, leafCount, Nat.mul_comm]

theorem sum_congr_all {P : β → Prop} {t : Tree β} {f g : β → Nat} (hP : t.All P) (h : ∀ b, P b → f b = g b) :
    t.sum f = t.sum g := by
  induction t with
  | done b => exact h b hP
  | choose ar k ih => simp only [sum]; exact sumRange_congr (fun c hc => ih c (hP.2 c hc))

/-! ### All -/

theorem All.mono {P Q : β → Prop} {t : Tree β} (h : t.All P) (hpq : ∀ b, P b → Q b) : t.All Q := by
  induction t with
  | done b => exact hpq b h
  | choose ar k ih => exact ⟨h.1, fun c hc => ih c (h.2 c hc)⟩

theorem All.and {P Q : β → Prop} {t : Tree β} (h1 : t.All P) (h2 : t.All Q) : t.All (fun b => P b ∧ Q b) := by
  induction t with
  | done b => exact ⟨h1, h2⟩
  | choose ar k ih => exact ⟨h1.1, fun c hc => ih c (h1.2 c hc) (h2.2 c hc)⟩

theorem All.bind {P : β → Prop} {Q : γ → Prop} {t : Tree β} {f : β → Tree γ} (h : t.All P)
    (hf : ∀ b, P b → (f b).All Q) : (t.bind f).All Q := by
  induction t with
  | done b => exact hf b h
  | choose ar k ih => exact ⟨h.1, fun c hc => ih c (h.2 c hc)⟩

theorem All.map {P : β → Prop} {Q : γ → Prop} {t : Tree β} {f : β → γ} (h : t.All P)
    (hf : ∀ b, P b → Q (f b)) : (t.map f).All Q :=
  All.bind h (fun b hb => hf b hb)

theorem all_done {P : β → Prop} {b : β} (h : P b) : (Tree.done b).All P := h

/-! ### Uniform -/

theorem Uniform.bind {P : β → Prop} {a1 a2 : List Nat} {t : Tree β} {f : β → Tree γ}
    (hu : t.Uniform a1) (hP : t.All P) (hf : ∀ b, P b → (f b).Uniform a2) : (t.bind f).Uniform (a1 ++ a2) := by
  induction t generalizing a1 with
  | done b =>
    cases a1 with
    | nil => exact hf b hP
    | cons a as => exact absurd hu (by simp [Uniform])
  | choose ar k ih =>
    cases a1 with
    | nil => exact absurd hu (by simp [Uniform])
    | cons a as =>
      simp only [Uniform] at hu
      exact ⟨hu.1, hu.2.1, fun c hc => ih c (hu.2.2 c hc) (hP.2 c (hu.1 ▸ hc))⟩

theorem Uniform.map {a : List Nat} {t : Tree β} (f : β → γ) (hu : t.Uniform a) : (t.map f).Uniform a := by
  induction t generalizing a with
  | done b =>
    cases a with
    | nil => trivial
    | cons a as => exact absurd hu (by simp [Uniform])
  | choose ar k ih =>
    cases a with
    | nil => exact absurd hu (by simp [Uniform])
    | cons a as =>
      simp only [Uniform] at hu
      exact ⟨hu.1, hu.2.1, fun c hc => ih c (hu.2.2 c hc)⟩

theorem uniform_done (b : β) : (Tree.done b).Uniform [] := trivial

theorem uniform_choose {a : Nat} {ar : List Nat} {k : Nat → Tree β} (ha : 0 < a) (h : ∀ c, c < a → (k c).Uniform ar) :
    (Tree.choose a k).Uniform (a :: ar) := ⟨rfl, ha, h⟩

theorem all_choose {P : β → Prop} {a : Nat} {k : Nat → Tree β} (ha : 0 < a) (h : ∀ c, c < a → (k c).All P) :
    (Tree.choose a k).All P := ⟨ha, h⟩

/-- a uniform tree has `∏ arities` leaves -/
theorem Uniform.leafCount {a : List Nat} {t : Tree β} (hu : t.Uniform a) : t.leafCount = a.foldr (· * ·) 1 := by
  induction t generalizing a with
  | done b =>
    cases a with
    | nil => rfl
    | cons a as => exact absurd hu (by simp [Uniform])
  | choose ar k ih =>
    cases a with
    | nil => exact absurd hu (by simp [Uniform])
    | cons a as =>
      simp only [Uniform] at hu
      simp only [Tree.leafCount, sum, List.foldr_cons]
      have : sumRange ar (fun c => (k c).sum (fun _ => 1)) = sumRange ar (fun _ => as.foldr (· * ·) 1) :=
        sumRange_congr (fun c hc => ih c (hu.2.2 c (hu.1 ▸ hc)))
      rw [this, sumRange_const, hu.1]

/-! ### run: one path through the tree -/

theorem All.run {P : β → Prop} {t : Tree β} (h : t.All P) (s : Src) : P (t.run s).1 := by
  induction t generalizing s with
  | done b => exact h
  | choose ar k ih =>
    simp only [Tree.run]
    apply ih
    apply h.2
    unfold Src.next
    split
    · exact h.1
    · exact Nat.mod_lt _ h.1

theorem Uniform.run_log {a : List Nat} {t : Tree β} (hu : t.Uniform a) (s : Src) :
    (t.run s).2.log = a.reverse ++ s.log ∧ (t.run s).2.q = s.q.drop a.length := by
  induction t generalizing a s with
  | done b =>
    cases a with
    | nil => simp [Tree.run]
    | cons a as => exact absurd hu (by simp [Uniform])
  | choose ar k ih =>
    cases a with
    | nil => exact absurd hu (by simp [Uniform])
    | cons a as =>
      simp only [Uniform] at hu
      simp only [Tree.run]
      obtain ⟨rfl, hpos, hk⟩ := hu
      have hlt : (s.next a).1 < a := by
        unfold Src.next
        split
        · exact hpos
        · exact Nat.mod_lt _ hpos
      have := ih _ (hk _ hlt) (s.next a).2
      rw [this.1, this.2]
      unfold Src.next
      split <;> rename_i hq <;> simp [hq]

/-! ### leaves -/

/-- `b` is one of the possible results -/
def IsLeaf (b : β) : Tree β → Prop
  | .done b' => b = b'
  | .choose ar k => ∃ c, c < ar ∧ IsLeaf b (k c)

theorem All.of_leaf {P : β → Prop} {t : Tree β} {b : β} (h : t.All P) (hl : IsLeaf b t) : P b := by
  induction t with
  | done b' => simp only [IsLeaf] at hl; subst hl; exact h
  | choose ar k ih =>
    obtain ⟨c, hc, hl'⟩ := hl
    exact ih c (h.2 c hc) hl'

/-- the result of running along any recorded stream of choices is a leaf -/
theorem run_isLeaf {P : β → Prop} {t : Tree β} (h : t.All P) (s : Src) : IsLeaf (t.run s).1 t := by
  induction t generalizing s with
  | done b => rfl
  | choose ar k ih =>
    simp only [Tree.run, IsLeaf]
    have hlt : (s.next ar).1 < ar := by
      unfold Src.next
      split
      · exact h.1
      · exact Nat.mod_lt _ h.1
    exact ⟨_, hlt, ih _ (h.2 _ hlt) _⟩

/-! ### the sum over all leaves is the sum over all choice vectors fed through `run` -/

/-- `sumOver [a₁,…,aₘ] F = Σ_{v₁<a₁} … Σ_{vₘ<aₘ} F [v₁,…,vₘ]` -/
def sumOver : List Nat → (List Nat → Nat) → Nat
  | [], F => F []
  | a :: ar, F => sumRange a (fun c => sumOver ar (fun v => F (c :: v)))

theorem Uniform.sum_eq_sumOver {a : List Nat} {t : Tree β} (hu : t.Uniform a) (W : β → Nat) (lg : List Nat) :
    t.sum W = sumOver a (fun v => W (t.run { q := v, log := lg }).1) := by
  induction t generalizing a lg with
  | done b =>
    cases a with
    | nil => rfl
    | cons a as => exact absurd hu (by simp [Uniform])
  | choose ar k ih =>
    cases a with
    | nil => exact absurd hu (by simp [Uniform])
    | cons a as =>
      obtain ⟨rfl, hpos, hk⟩ := hu
      simp only [sum, sumOver]
      apply sumRange_congr
      intro c hc
      rw [ih c (hk c hc) (a :: lg)]
      simp [Tree.run, Src.next, Nat.mod_eq_of_lt hc]

end DS.Quantiles.Tree

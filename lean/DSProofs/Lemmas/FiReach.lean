/- Invariants of the L1 frequent-items model and the reachability relation the C12 theorems quantify over
   (free to change; property statements live in Props/C12.lean). -/
import DSProofs.Lemmas.FiMap
namespace DS.Fi
set_option linter.unusedSectionVars false

variable {ι : Type} [DecidableEq ι]

/-! ### the bracketing invariant -/

/-- keys distinct, and every item's true weight `f x` lies between its counter and counter + offset -/
def Brk (s : St ι) (f : ι → Nat) : Prop :=
  (keys s.map).Nodup ∧ ∀ y, cnt s.map y ≤ f y ∧ f y ≤ cnt s.map y + s.offset

theorem brk_init (T : Tun) (lgMax lgStart : Nat) : Brk (init T lgMax lgStart : St ι) (fun _ => 0) := by
  refine ⟨by simp [init], ?_⟩
  intro y; simp [init]

theorem total_update (T : Tun) (s : St ι) (x : ι) (w a : Nat) : (update T s x w a).total = s.total + w := by
  unfold update
  by_cases hw : w = 0
  · simp [hw]
  · simp only [hw, if_false]
    split
    · rfl
    · split
      · split <;> rfl
      · rfl

theorem lgMax_update (T : Tun) (s : St ι) (x : ι) (w a : Nat) : (update T s x w a).lgMax = s.lgMax := by
  unfold update
  by_cases hw : w = 0
  · simp [hw]
  · simp only [hw, if_false]
    split
    · rfl
    · split
      · split <;> rfl
      · rfl

theorem brk_update (T : Tun) (s : St ι) (f : ι → Nat) (h : Brk s f) (x : ι) (w a : Nat) :
    Brk (update T s x w a) (fun y => f y + (if x = y then w else 0)) := by
  obtain ⟨hn, hb⟩ := h
  unfold update
  by_cases hw : w = 0
  · subst hw
    refine ⟨by simpa using hn, ?_⟩
    intro y; simpa using hb y
  · simp only [hw, if_false]
    have hadj := cnt_adjust s.map hn x w
    have hnadj := nodup_adjust s.map hn x w
    split
    · refine ⟨hnadj, ?_⟩
      intro y; have := hb y; simp only [hadj y]; omega
    · split
      · split
        · refine ⟨hnadj, ?_⟩
          intro y; have := hb y; simp only [hadj y]; omega
        · refine ⟨nodup_purgeMap _ hnadj a, ?_⟩
          intro y; have := hb y
          simp only [cnt_purgeMap _ hnadj a y, hadj y]; omega
      · refine ⟨hnadj, ?_⟩
        intro y; have := hb y; simp only [hadj y]; omega

@[simp] theorem entPairs_nil : entPairs ([] : List (Ent ι)) = [] := rfl
@[simp] theorem entPairs_cons (e : Ent ι) (t : List (Ent ι)) : entPairs (e :: t) = (e.1, e.2.1) :: entPairs t := rfl

theorem brk_replay (T : Tun) (ents : List (Ent ι)) (s : St ι) (f : ι → Nat) (h : Brk s f) :
    Brk (replay T s ents) (fun y => f y + cnt (entPairs ents) y) := by
  induction ents generalizing s f with
  | nil => simpa [replay] using h
  | cons e t ih =>
    obtain ⟨x, w, a⟩ := e
    have h1 := ih _ _ (brk_update T s f h x w a)
    refine ⟨h1.1, ?_⟩
    intro y
    have := h1.2 y
    simp only [replay, entPairs_cons, cnt_cons] at this ⊢
    omega

theorem total_replay (T : Tun) (ents : List (Ent ι)) (s : St ι) :
    (replay T s ents).total = s.total + sumVals (entPairs ents) := by
  induction ents generalizing s with
  | nil => simp [replay]
  | cons e t ih =>
    obtain ⟨x, w, a⟩ := e
    simp only [replay, entPairs_cons, sumVals_cons, ih, total_update]
    omega

theorem lgMax_replay (T : Tun) (ents : List (Ent ι)) (s : St ι) : (replay T s ents).lgMax = s.lgMax := by
  induction ents generalizing s with
  | nil => rfl
  | cons e t ih => obtain ⟨x, w, a⟩ := e; simp only [replay, ih, lgMax_update]

/-- a sketch without active items that nevertheless carries weight or error (every counter was purged) -/
def FullyPurged (s : St ι) : Prop := s.map = [] ∧ (s.total ≠ 0 ∨ s.offset ≠ 0)

theorem brk_merge (T : Tun) (s o : St ι) (f g : ι → Nat) (hs : Brk s f) (ho : Brk o g)
    (ents : List (Ent ι)) (hp : (entPairs ents).Perm o.map) (hnd : ¬ FullyPurged o) :
    Brk (merge T s o ents) (fun y => f y + g y) := by
  unfold merge
  by_cases he : o.map = []
  · simp only [he, List.isEmpty_nil, if_true]
    have hoff : o.offset = 0 := by
      apply Classical.byContradiction; intro h; exact hnd ⟨he, Or.inr h⟩
    refine ⟨hs.1, ?_⟩
    intro y
    have h1 := hs.2 y
    have h2 := ho.2 y
    rw [he, hoff] at h2
    simp at h2
    dsimp only
    omega
  · have he' : o.map.isEmpty = false := by
      cases hm : o.map with
      | nil => exact absurd hm he
      | cons _ _ => rfl
    simp only [he', Bool.false_eq_true, if_false]
    have h1 := brk_replay T ents s f hs
    refine ⟨h1.1, ?_⟩
    intro y
    have h2 := h1.2 y
    have h3 := ho.2 y
    dsimp only at h2 ⊢
    rw [cnt_perm hp y] at h2
    omega

theorem total_merge (T : Tun) (s o : St ι) (ents : List (Ent ι)) (hnd : ¬ FullyPurged o) :
    (merge T s o ents).total = s.total + o.total := by
  unfold merge
  by_cases he : o.map = []
  · have : o.total = 0 := by
      apply Classical.byContradiction; intro h; exact hnd ⟨he, Or.inl h⟩
    simp [he, this]
  · have he' : o.map.isEmpty = false := by
      cases hm : o.map with
      | nil => exact absurd hm he
      | cons _ _ => rfl
    simp [he']

theorem roundtrip_eq (T : Tun) (s : St ι) (hnd : ¬ FullyPurged s) :
    (roundtrip T s).map = s.map ∧ (roundtrip T s).offset = s.offset ∧ (roundtrip T s).total = s.total := by
  unfold roundtrip
  by_cases he : s.map = []
  · have h1 : s.total = 0 := by
      apply Classical.byContradiction; intro h; exact hnd ⟨he, Or.inl h⟩
    have h2 : s.offset = 0 := by
      apply Classical.byContradiction; intro h; exact hnd ⟨he, Or.inr h⟩
    simp [he, h1, h2]
  · have he' : s.map.isEmpty = false := by
      cases hm : s.map with
      | nil => exact absurd hm he
      | cons _ _ => rfl
    simp [he']

/-! ### reachability: every weighted stream, every merge tree, every round trip, every choice of purge amounts

`Reach T strict s f N`: `s` is the state of a sketch whose history (updates, merges of other reachable sketches with
any replay order and any purge amounts, serialisation round trips) has true per-item weights `f` and total weight
`N`.  With `strict = true` the two operations that the CURRENT code gets wrong on a fully purged sketch (merge of such
an operand, round trip of such a sketch) are excluded; `strict = false` is the property's full quantifier. -/
inductive Reach (T : Tun) (strict : Bool) : St ι → (ι → Nat) → Nat → Prop
  | new (lgMax lgStart : Nat) (h : lgStart ≤ lgMax) : Reach T strict (init T lgMax lgStart) (fun _ => 0) 0
  | upd {s f N} (x : ι) (w a : Nat) (h : Reach T strict s f N) :
      Reach T strict (update T s x w a) (fun y => f y + (if x = y then w else 0)) (N + w)
  | merge {s f N o g M} (ents : List (Ent ι)) (hs : Reach T strict s f N) (ho : Reach T strict o g M)
      (hp : (entPairs ents).Perm o.map) (hnd : strict = true → ¬ FullyPurged o) :
      Reach T strict (merge T s o ents) (fun y => f y + g y) (N + M)
  | roundtrip {s f N} (h : Reach T strict s f N) (hnd : strict = true → ¬ FullyPurged s) :
      Reach T strict (roundtrip T s) f N
  | congr {s f g N} (h : Reach T strict s f N) (hfg : ∀ y, f y = g y) : Reach T strict s g N

theorem reach_inv (T : Tun) {s : St ι} {f : ι → Nat} {N : Nat} (h : Reach T true s f N) : Brk s f ∧ s.total = N := by
  induction h with
  | new lgMax lgStart _ => exact ⟨brk_init T lgMax lgStart, rfl⟩
  | upd x w a _ ih => exact ⟨brk_update T _ _ ih.1 x w a, by rw [total_update, ih.2]⟩
  | merge ents _ _ hp hnd ih1 ih2 =>
    exact ⟨brk_merge T _ _ _ _ ih1.1 ih2.1 ents hp (hnd rfl), by rw [total_merge T _ _ ents (hnd rfl), ih1.2, ih2.2]⟩
  | roundtrip _ hnd ih =>
    obtain ⟨hm, ho, ht⟩ := roundtrip_eq T _ (hnd rfl)
    refine ⟨⟨by rw [hm]; exact ih.1.1, ?_⟩, by rw [ht, ih.2]⟩
    intro y; rw [hm, ho]; exact ih.1.2 y
  | congr _ hfg ih =>
    refine ⟨⟨ih.1.1, ?_⟩, ih.2⟩
    intro y; rw [← hfg y]; exact ih.1.2 y

/-- a plain stream is reachable -/
theorem reach_replay (T : Tun) (b : Bool) (ents : List (Ent ι)) {s : St ι} {f : ι → Nat} {N : Nat}
    (h : Reach T b s f N) :
    Reach T b (replay T s ents) (fun y => f y + cnt (entPairs ents) y) (N + sumVals (entPairs ents)) := by
  induction ents generalizing s f N with
  | nil => exact Reach.congr (by simpa [replay] using h) (by intro y; simp)
  | cons e t ih =>
    obtain ⟨x, w, a⟩ := e
    have h1 := ih (Reach.upd x w a h)
    simp only [replay, entPairs_cons, sumVals_cons, cnt_cons]
    have : N + w + sumVals (entPairs t) = N + (w + sumVals (entPairs t)) := by omega
    rw [← this]
    exact Reach.congr h1 (by intro y; omega)

/-! ### counters stay positive -/

def Pos (m : Map ι) : Prop := ∀ p ∈ m, 0 < p.2

theorem pos_bump (m : Map ι) (h : Pos m) (x : ι) (w : Nat) : Pos (bump m x w) := by
  induction m with
  | nil => intro p hp; simp [bump] at hp
  | cons q t ih =>
    obtain ⟨k, v⟩ := q
    have hv : 0 < v := h (k, v) (List.mem_cons_self ..)
    have ht : Pos t := fun p hp => h p (List.mem_cons_of_mem _ hp)
    intro p hp
    simp only [bump] at hp
    rcases List.mem_cons.mp hp with hp | hp
    · subst hp; split <;> (simp only; omega)
    · exact ih ht p hp

theorem pos_adjust (m : Map ι) (h : Pos m) (x : ι) (w : Nat) (hw : w ≠ 0) : Pos (adjust m x w) := by
  unfold adjust
  split
  · exact pos_bump m h x w
  · intro p hp
    rcases List.mem_append.mp hp with hp | hp
    · exact h p hp
    · simp only [List.mem_singleton] at hp; subst hp; simp only; omega

theorem pos_purgeMap (m : Map ι) (a : Nat) : Pos (purgeMap m a) := by
  induction m with
  | nil => intro p hp; simp [purgeMap] at hp
  | cons q t ih =>
    obtain ⟨k, v⟩ := q
    intro p hp
    simp only [purgeMap] at hp
    split at hp
    · rcases List.mem_cons.mp hp with hp | hp
      · subst hp; simp only; omega
      · exact ih p hp
    · exact ih p hp

theorem pos_update (T : Tun) (s : St ι) (h : Pos s.map) (x : ι) (w a : Nat) : Pos (update T s x w a).map := by
  unfold update
  by_cases hw : w = 0
  · simp only [hw, if_true]; exact h
  · simp only [hw, if_false]
    have hadj := pos_adjust s.map h x w hw
    split
    · exact hadj
    · split
      · split
        · exact hadj
        · exact pos_purgeMap _ a
      · exact hadj

theorem pos_replay (T : Tun) (ents : List (Ent ι)) (s : St ι) (h : Pos s.map) : Pos (replay T s ents).map := by
  induction ents generalizing s with
  | nil => exact h
  | cons e t ih => obtain ⟨x, w, a⟩ := e; exact ih _ (pos_update T s h x w a)

theorem pos_merge (T : Tun) (s o : St ι) (h : Pos s.map) (ents : List (Ent ι)) : Pos (merge T s o ents).map := by
  unfold merge
  split
  · exact h
  · exact pos_replay T ents s h

theorem pos_roundtrip (T : Tun) (s : St ι) (h : Pos s.map) : Pos (roundtrip T s).map := by
  unfold roundtrip
  split
  · intro p hp; simp at hp
  · exact h

theorem reach_pos (T : Tun) {b : Bool} {s : St ι} {f : ι → Nat} {N : Nat} (h : Reach T b s f N) : Pos s.map := by
  induction h with
  | new lgMax lgStart _ => intro p hp; simp [init] at hp
  | upd x w a _ ih => exact pos_update T _ ih x w a
  | merge ents _ _ _ _ ih1 _ => exact pos_merge T _ _ ih1 ents
  | roundtrip _ _ ih => exact pos_roundtrip T _ ih
  | congr _ _ ih => exact ih

/-! ### frequent items -/

theorem mem_insertRow (r x : Row ι) (l : List (Row ι)) : x ∈ insertRow r l ↔ x = r ∨ x ∈ l := by
  induction l with
  | nil => simp [insertRow]
  | cons h t ih =>
    simp only [insertRow]
    split
    · simp
    · simp only [List.mem_cons, ih]
      constructor
      · rintro (h1 | h1 | h1) <;> simp [h1]
      · rintro (h1 | h1 | h1) <;> simp [h1]

theorem mem_sortRows (x : Row ι) (l : List (Row ι)) : x ∈ sortRows l ↔ x ∈ l := by
  induction l with
  | nil => simp [sortRows]
  | cons h t ih =>
    have : sortRows (h :: t) = insertRow h (sortRows t) := rfl
    rw [this, mem_insertRow, ih]; simp

theorem sorted_insertRow (r : Row ι) (l : List (Row ι)) (h : l.Pairwise (fun a b => b.est ≤ a.est)) :
    (insertRow r l).Pairwise (fun a b => b.est ≤ a.est) := by
  induction l with
  | nil => simp [insertRow]
  | cons y t ih =>
    simp only [insertRow]
    rw [List.pairwise_cons] at h
    split
    · rename_i hlt
      rw [List.pairwise_cons]
      refine ⟨?_, List.pairwise_cons.mpr h⟩
      intro z hz
      rcases List.mem_cons.mp hz with hz | hz
      · subst hz; exact Nat.le_of_lt hlt
      · exact Nat.le_trans (h.1 z hz) (Nat.le_of_lt hlt)
    · rename_i hlt
      rw [List.pairwise_cons]
      refine ⟨?_, ih h.2⟩
      intro z hz
      rcases (mem_insertRow r z t).mp hz with hz | hz
      · subst hz; omega
      · exact h.1 z hz

theorem sorted_sortRows (l : List (Row ι)) : (sortRows l).Pairwise (fun a b => b.est ≤ a.est) := by
  induction l with
  | nil => simp [sortRows]
  | cons h t ih =>
    have : sortRows (h :: t) = insertRow h (sortRows t) := rfl
    rw [this]; exact sorted_insertRow h _ ih

theorem mem_frequentItems (s : St ι) (et : ErrType) (thr : Nat) (r : Row ι) :
    r ∈ frequentItems s et thr ↔ ∃ p ∈ s.map, selects s et thr p = true ∧ r = rowOf s p := by
  unfold frequentItems
  rw [mem_sortRows, List.mem_map]
  constructor
  · rintro ⟨p, hp, rfl⟩
    rw [List.mem_filter] at hp
    exact ⟨p, hp.1, hp.2, rfl⟩
  · rintro ⟨p, hp, hsel, rfl⟩
    exact ⟨p, List.mem_filter.mpr ⟨hp, hsel⟩, rfl⟩

end DS.Fi

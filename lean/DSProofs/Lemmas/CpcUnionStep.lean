/- The union invariant and its preservation by `internal_update` (cases A–D, `reduce_k`) (free to change). -/
import DSProofs.Lemmas.CpcUnionRes
namespace DS.Cpc

/-- the union holds exactly the coupons `ys` (codes on `2^u.lgK` rows) -/
structure UInv (u : Union) (ys : List Nat) : Prop where
  valid : ∀ y ∈ ys, y < 64 * 2^u.lgK
  accCase : ∀ a, u.acc = some a → a.lgK = u.lgK ∧ Inv a ys ∧ a.window = []
  matCase : u.acc = none → MInv u.lgK u.matrix ys

theorem uinv_new (lgK : Nat) : UInv (unionNew lgK) [] := by
  refine ⟨by simp, ?_, ?_⟩
  · intro a ha
    simp only [unionNew, Option.some.injEq] at ha
    subst ha
    exact ⟨rfl, inv_fresh lgK, rfl⟩
  · intro h; simp [unionNew] at h

theorem flavor_cases (lgK c : Nat) :
    (c = 0 ∧ determineFlavor lgK c = .empty) ∨
    (c ≠ 0 ∧ 32 * c < 3 * 2^lgK ∧ determineFlavor lgK c = .sparse) ∨
    (c ≠ 0 ∧ ¬ 32 * c < 3 * 2^lgK ∧ 2 * c < 2^lgK ∧ determineFlavor lgK c = .hybrid) ∨
    (c ≠ 0 ∧ ¬ 32 * c < 3 * 2^lgK ∧ ¬ 2 * c < 2^lgK ∧ 8 * c < 27 * 2^lgK ∧ determineFlavor lgK c = .pinned) ∨
    (c ≠ 0 ∧ ¬ 32 * c < 3 * 2^lgK ∧ ¬ 2 * c < 2^lgK ∧ ¬ 8 * c < 27 * 2^lgK ∧ determineFlavor lgK c = .sliding) := by
  unfold determineFlavor
  by_cases h0 : c = 0
  · simp [h0]
  · by_cases h1 : 32 * c < 3 * 2^lgK
    · simp [h0, h1]
    · by_cases h2 : 2 * c < 2^lgK
      · simp [h0, h1, h2]
      · by_cases h3 : 8 * c < 27 * 2^lgK <;> simp [h0, h1, h2, h3]

theorem beyondSparse_iff (lgK c : Nat) : beyondSparse lgK c = true ↔ 3 * 2^lgK ≤ 32 * c := by
  have hk := Nat.two_pow_pos lgK
  unfold beyondSparse
  rcases flavor_cases lgK c with ⟨h0, hf⟩ | ⟨h0, h1, hf⟩ | ⟨h0, h1, h2, hf⟩ | ⟨h0, h1, h2, h3, hf⟩ | ⟨h0, h1, h2, h3, hf⟩ <;>
    rw [hf] <;> simp <;> omega

theorem flavor_sparse_iff (lgK c : Nat) : determineFlavor lgK c = .sparse ↔ (c ≠ 0 ∧ 32 * c < 3 * 2^lgK) := by
  rcases flavor_cases lgK c with ⟨h0, hf⟩ | ⟨h0, h1, hf⟩ | ⟨h0, h1, h2, hf⟩ | ⟨h0, h1, h2, h3, hf⟩ | ⟨h0, h1, h2, h3, hf⟩ <;>
    rw [hf] <;> simp <;> omega

theorem flavor_empty_iff (lgK c : Nat) : determineFlavor lgK c = .empty ↔ c = 0 := by
  rcases flavor_cases lgK c with ⟨h0, hf⟩ | ⟨h0, h1, hf⟩ | ⟨h0, h1, h2, hf⟩ | ⟨h0, h1, h2, h3, hf⟩ | ⟨h0, h1, h2, h3, hf⟩ <;>
    rw [hf] <;> simp <;> omega

theorem flavor_hp_offset (lgK c : Nat) (h : determineFlavor lgK c = .hybrid ∨ determineFlavor lgK c = .pinned) :
    8 * c < 27 * 2^lgK := by
  rcases flavor_cases lgK c with ⟨h0, hf⟩ | ⟨h0, h1, hf⟩ | ⟨h0, h1, h2, hf⟩ | ⟨h0, h1, h2, h3, hf⟩ | ⟨h0, h1, h2, h3, hf⟩ <;>
    rw [hf] at h <;> simp at h <;> omega

/-! ### walking a source table into the accumulator -/

theorem walkTable_lgK (T : HipTables) (acc : Sketch) (table : List Nat) : (walkTable T acc table).lgK = acc.lgK :=
  foldl_lgK T _ acc

theorem inv_walkTable (T : HipTables) (acc : Sketch) (ys : List Nat) (table : List Nat) (h : Inv acc ys) :
    Inv (walkTable T acc table) (ys ++ table.map (foldRc acc.lgK)) :=
  inv_foldl T _ acc ys h (by
    intro rc hrc
    obtain ⟨x, _, rfl⟩ := List.mem_map.1 hrc
    exact foldRc_lt _ _)

/-- a sparse sketch's table is its coupon set -/
theorem sparse_table_mem (s : Sketch) (xs : List Nat) (h : Inv s xs) (hv : ∀ x ∈ xs, x < 64 * 2^s.lgK)
    (hw : s.window = []) (a : Nat) : a ∈ s.table ↔ a ∈ xs := by
  have hbit : ∀ r c, s.bit r c = decide (r * 64 + c ∈ s.table) := by intro r c; simp [Sketch.bit, hw]
  constructor
  · intro ha
    have hlt := h.rep.tbl_lt a ha
    have := (h.bits (a / 64) (a % 64) (by omega) (Nat.mod_lt _ (by decide))).1
      (by rw [hbit]; simp; rw [show a / 64 * 64 + a % 64 = a by omega]; exact ha)
    rwa [show a / 64 * 64 + a % 64 = a by omega] at this
  · intro ha
    have hlt := hv a ha
    have := (h.bits (a / 64) (a % 64) (by omega) (Nat.mod_lt _ (by decide))).2
      (by rw [show a / 64 * 64 + a % 64 = a by omega]; exact ha)
    rw [hbit] at this
    simp at this
    rwa [show a / 64 * 64 + a % 64 = a by omega] at this

theorem mem_map_congr (f : Nat → Nat) (l₁ l₂ : List Nat) (h : ∀ a, a ∈ l₁ ↔ a ∈ l₂) (b : Nat) : b ∈ l₁.map f ↔ b ∈ l₂.map f := by
  simp only [List.mem_map]
  constructor
  · rintro ⟨x, hx, he⟩; exact ⟨x, (h x).1 hx, he⟩
  · rintro ⟨x, hx, he⟩; exact ⟨x, (h x).2 hx, he⟩

/-! ### settle: keep the accumulator or switch to the bit matrix -/

theorem settle_lgK (L : Nat) (acc : Sketch) : (settle L acc).lgK = L := by
  unfold settle; split <;> rfl

theorem uinv_settle (L : Nat) (acc : Sketch) (ys : List Nat) (h : Inv acc ys) (hl : acc.lgK = L)
    (hv : ∀ y ∈ ys, y < 64 * 2^L) : UInv (settle L acc) ys := by
  unfold settle
  split
  · rename_i hb
    rw [beyondSparse_iff] at hb
    refine ⟨hv, by intro a ha; simp at ha, ?_⟩
    intro _
    have hm := mbits_buildBitMatrix acc ys h
    rw [hl] at hm
    exact ⟨hm.len, hm.bits, hm.high, by rw [← h.count, ← hl]; exact hb⟩
  · rename_i hb
    have hnb : ¬ 3 * 2^acc.lgK ≤ 32 * acc.numCoupons := fun e => hb ((beyondSparse_iff _ _).2 e)
    refine ⟨hv, ?_, by intro e; simp at e⟩
    intro a ha
    simp only [Option.some.injEq] at ha
    subst ha
    refine ⟨hl, h, ?_⟩
    apply Classical.byContradiction
    intro hw
    exact hnb (h.winC hw)

/-! ### adding a source sketch to a matrix (cases B, C, D) -/

theorem mbits_addDense (L : Nat) (m : List Nat) (ys : List Nat) (s : Sketch) (xs : List Nat)
    (hm : MBits (2^L) m ys) (h : Inv s xs) (hv : ∀ x ∈ xs, x < 64 * 2^s.lgK)
    (hns : 3 * 2^s.lgK ≤ 32 * s.numCoupons) :
    MBits (2^L) (addDense (2^L) m s) (ys ++ xs.map (foldRc L)) := by
  have hkpos := Nat.two_pow_pos s.lgK
  have hw : s.window ≠ [] := by
    intro e; have := h.sparseC e; omega
  have hne := isEmpty_false_of_ne hw
  unfold addDense
  split
  · rename_i hf
    -- hybrid / pinned: offset 0, window = columns 0..7, table = columns ≥ 8
    have hoff : s.offset = 0 := by
      have h27 := flavor_hp_offset _ _ hf
      apply Classical.byContradiction
      intro hne0
      have := h.offLo (by omega)
      have e : (19 + 8 * s.offset) * 2^s.lgK = 19 * 2^s.lgK + 8 * s.offset * 2^s.lgK := Nat.add_mul _ _ _
      have : 8 * 2^s.lgK ≤ 8 * s.offset * 2^s.lgK := Nat.mul_le_mul_right _ (by omega)
      omega
    have hbit : ∀ r c, s.bit r c = if c < 8 then (s.window.getD r 0).testBit c else decide (r * 64 + c ∈ s.table) := by
      intro r c; simp [Sketch.bit, hne, hoff]
    have h1 := mbits_orRows L m ys (xs.filter (fun x => x % 64 < 8)) (fun i => s.window.toArray.getD i 0 <<< s.offset) (2^s.lgK) hm
      (by intro x hx; exact hv x (List.mem_filter.1 hx).1)
      (by
        intro i c hi hc
        rw [hoff, Nat.shiftLeft_zero, getD_toArray, List.mem_filter, rc_mod i c hc]
        by_cases h8 : c < 8
        · have := h.bits i c hi hc
          rw [hbit, if_pos h8, List.getD_eq_getElem?_getD] at this
          simp [h8, this]
        · have hb : (s.window.getD i 0).testBit c = false :=
            Nat.testBit_lt_two_pow (Nat.lt_of_lt_of_le (getD_window_lt s h.rep i)
              (by calc 256 = 2^8 := by decide
                   _ ≤ 2^c := Nat.pow_le_pow_right (by decide) (by omega)))
          rw [List.getD_eq_getElem?_getD] at hb
          simp [h8, hb])
      (by
        intro i c _ hc
        rw [hoff, Nat.shiftLeft_zero, getD_toArray]
        exact Nat.testBit_lt_two_pow (Nat.lt_of_lt_of_le (getD_window_lt s h.rep i)
          (by calc 256 = 2^8 := by decide
               _ ≤ 2^c := Nat.pow_le_pow_right (by decide) (by omega))))
    have h2 := mbits_orTable L _ _ s.table h1
    apply mbits_congr _ _ _ _ h2
    intro a
    have htab : ∀ x, x ∈ s.table ↔ x ∈ xs.filter (fun x => 8 ≤ x % 64) := by
      intro x
      rw [List.mem_filter]
      constructor
      · intro hx
        have hlt := h.rep.tbl_lt x hx
        have hz := h.rep.zone hw x hx
        have h8 : 8 ≤ x % 64 := by omega
        refine ⟨?_, by simpa using h8⟩
        have := (h.bits (x / 64) (x % 64) (by omega) (Nat.mod_lt _ (by decide))).1
          (by rw [hbit, if_neg (by omega)]; simp; rw [show x / 64 * 64 + x % 64 = x by omega]; exact hx)
        rwa [show x / 64 * 64 + x % 64 = x by omega] at this
      · rintro ⟨hx, h8⟩
        have h8' : 8 ≤ x % 64 := by simpa using h8
        have hlt := hv x hx
        have := (h.bits (x / 64) (x % 64) (by omega) (Nat.mod_lt _ (by decide))).2
          (by rw [show x / 64 * 64 + x % 64 = x by omega]; exact hx)
        rw [hbit, if_neg (by omega)] at this
        simp at this
        rwa [show x / 64 * 64 + x % 64 = x by omega] at this
    simp only [List.mem_append, mem_map_congr (foldRc L) _ _ htab a, List.mem_map, List.mem_filter]
    constructor
    · rintro ((h1 | ⟨x, ⟨hx, _⟩, he⟩) | ⟨x, ⟨hx, _⟩, he⟩)
      · exact Or.inl h1
      · exact Or.inr ⟨x, hx, he⟩
      · exact Or.inr ⟨x, hx, he⟩
    · rintro (h1 | ⟨x, hx, he⟩)
      · exact Or.inl (Or.inl h1)
      · by_cases h8 : x % 64 < 8
        · exact Or.inl (Or.inr ⟨x, ⟨hx, by simpa using h8⟩, he⟩)
        · exact Or.inr ⟨x, ⟨hx, by simp; omega⟩, he⟩
  · -- sliding: OR the source's bit matrix
    exact mbits_orRows L m ys xs (fun i => (buildBitMatrix s).toArray.getD i 0) (2^s.lgK) hm hv
      (by intro i c hi hc; rw [matrix_getD s h.rep i c hi hc]; exact h.bits i c hi hc)
      (by intro i c hi hc; rw [getD_toArray, buildBitMatrix_getD s i hi]; exact rowPattern_high s h.rep i c hc)

/-- folded coupons of a dense source keep the union matrix dense -/
theorem dense_append (L : Nat) (ys : List Nat) (s : Sketch) (xs : List Nat) (h : Inv s xs)
    (hv : ∀ x ∈ xs, x < 64 * 2^s.lgK) (hL : L ≤ s.lgK) (hns : 3 * 2^s.lgK ≤ 32 * s.numCoupons) :
    3 * 2^L ≤ 32 * (distinct (ys ++ xs.map (foldRc L))).length := by
  have h1 := fold_beyond_sparse s.lgK L hL xs hv (by rw [← h.count]; exact hns)
  have h2 := distinct_length_mono (xs.map (foldRc L)) (ys ++ xs.map (foldRc L)) (fun a ha => List.mem_append_right _ ha)
  omega

end DS.Cpc

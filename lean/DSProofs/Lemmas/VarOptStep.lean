/- One down-sampling step: which values of the uniform draw `u` delete which candidate (exact intervals). -/
import DSProofs.Lemmas.VarOptQuery
namespace DS.VarOpt
open DS

/-- left end of the `u`-interval in which M-candidate `j` is deleted: Σ_{i<j} (1 − w_i/τ) -/
def thr (τ : Rat) (M : List E) (j : Nat) : Rat := (j : Rat) - sumW (M.take j) / τ

theorem cmp_iff {τ X Y : Rat} {n : Nat} (hτ : 0 < τ) (hn : 0 < n) :
    ((n : Rat) * X < τ * (n : Rat) * Y) ↔ X / τ < Y := by
  have hn0 : (0 : Rat) < (n : Rat) := by exact_mod_cast hn
  rw [div_lt_iff₀ hτ]
  constructor
  · intro h
    have : (n : Rat) * X < (n : Rat) * (Y * τ) := by nlinarith
    exact lt_of_mul_lt_mul_left this (le_of_lt hn0)
  · intro h
    have : (n : Rat) * X < (n : Rat) * (Y * τ) := mul_lt_mul_of_pos_left h hn0
    nlinarith

theorem weightedLoop_bounds (W : Rat) (n : Nat) : ∀ (M : List E) (l r : Rat) (i : Nat),
    i ≤ weightedLoop W n M l r i ∧ weightedLoop W n M l r i ≤ i + M.length := by
  intro M
  induction M with
  | nil => intro l r i; simp [weightedLoop]
  | cons e t ih =>
    intro l r i
    simp only [weightedLoop]
    split
    · simp
    · have := ih (Num.add l (Num.mul (Num.ofNat n) e.wt)) (Num.add r W) (i + 1)
      simp only [List.length_cons]; omega

theorem sumW_take_succ_cons (e : E) (t : List E) (j : Nat) : sumW ((e :: t).take (j + 1)) = e.wt + sumW (t.take j) := by
  simp [sumW]

theorem sumW_take_le {τ : Rat} (hτ : 0 < τ) : ∀ (t : List E) (j : Nat), (∀ x ∈ t, x.wt < τ) → sumW (t.take j) ≤ (j : Rat) * τ := by
  intro t
  induction t with
  | nil => intro j _; simp [sumW]; positivity
  | cons x t' ih =>
    intro j h
    cases j with
    | zero => simp [sumW]
    | succ j =>
      rw [sumW_take_succ_cons]
      have := ih j (fun y hy => h y (by simp [hy]))
      have hx := h x (by simp)
      push_cast; linarith

/-- the loop of `choose_weighted_delete_slot` returns `i + j` exactly for `u` in the j-th interval -/
theorem weightedLoop_char (τ : Rat) (n : Nat) (hτ : 0 < τ) (hn : 0 < n) (u : Rat) :
    ∀ (M : List E) (S : Rat) (i : Nat), (∀ e ∈ M, e.wt < τ) → ((i : Rat) - S / τ ≤ u) →
    (∀ j, j < M.length →
      (weightedLoop (τ * n) n M ((n : Rat) * S) (τ * n * ((i : Rat) - u)) i = i + j ↔
        ((i + j : Nat) : Rat) - (S + sumW (M.take j)) / τ ≤ u ∧ u < ((i + j + 1 : Nat) : Rat) - (S + sumW (M.take (j + 1))) / τ)) ∧
    (weightedLoop (τ * n) n M ((n : Rat) * S) (τ * n * ((i : Rat) - u)) i = i + M.length ↔
        ((i + M.length : Nat) : Rat) - (S + sumW M) / τ ≤ u) := by
  intro M
  induction M with
  | nil =>
    intro S i _ h0
    refine ⟨fun j hj => absurd hj (by simp), ?_⟩
    simp [weightedLoop, sumW, h0]
  | cons e t ih =>
    intro S i hlt h0
    have het : e.wt < τ := hlt e (by simp)
    have hlt' : ∀ x ∈ t, x.wt < τ := fun x hx => hlt x (by simp [hx])
    -- one loop iteration
    have hstep : weightedLoop (τ * n) n (e :: t) ((n : Rat) * S) (τ * n * ((i : Rat) - u)) i =
        if (n : Rat) * (S + e.wt) < τ * n * (((i + 1 : Nat) : Rat) - u) then i
        else weightedLoop (τ * n) n t ((n : Rat) * (S + e.wt)) (τ * n * (((i + 1 : Nat) : Rat) - u)) (i + 1) := by
      simp only [weightedLoop, Num.add_rat, Num.mul_rat, Num.ofNat_rat, Num.lt_rat, decide_eq_true_eq]
      have e1 : (n : Rat) * S + (n : Rat) * e.wt = (n : Rat) * (S + e.wt) := by ring
      have e2 : τ * n * ((i : Rat) - u) + τ * n = τ * n * (((i + 1 : Nat) : Rat) - u) := by push_cast; ring
      rw [e1, e2]
    have hcmp : ((n : Rat) * (S + e.wt) < τ * n * (((i + 1 : Nat) : Rat) - u)) ↔ u < ((i + 1 : Nat) : Rat) - (S + e.wt) / τ := by
      rw [cmp_iff hτ hn]; constructor <;> intro h <;> linarith
    -- monotonicity of the interval ends
    have hmono : ∀ j, ((i + 1 : Nat) : Rat) - (S + e.wt) / τ ≤ ((i + (j + 1) : Nat) : Rat) - (S + sumW ((e :: t).take (j + 1))) / τ := by
      intro j
      rw [sumW_take_succ_cons]
      have hsub : sumW (t.take j) ≤ (j : Rat) * τ := sumW_take_le hτ t j hlt'
      have : (S + (e.wt + sumW (t.take j))) / τ = (S + e.wt) / τ + sumW (t.take j) / τ := by ring
      rw [this]
      have : sumW (t.take j) / τ ≤ (j : Rat) := by rw [div_le_iff₀ hτ]; exact hsub
      push_cast; linarith
    rw [hstep]
    by_cases hc : u < ((i + 1 : Nat) : Rat) - (S + e.wt) / τ
    · -- deleted here
      rw [if_pos (hcmp.mpr hc)]
      constructor
      · intro j hj
        cases j with
        | zero =>
          simp only [Nat.add_zero, List.take_zero, sumW, add_zero]
          constructor
          · intro _
            refine ⟨h0, ?_⟩
            simpa [sumW] using hc
          · intro _; trivial
        | succ j =>
          constructor
          · intro h; omega
          · intro ⟨h1, _⟩
            have := hmono j
            linarith
      · constructor
        · intro h; simp at h
        · intro h
          have := hmono t.length
          simp only [List.take_succ_cons, List.take_length] at this
          simp only [List.length_cons] at h
          linarith
    · rw [if_neg (fun h => hc (hcmp.mp h))]
      have h0' : ((i + 1 : Nat) : Rat) - (S + e.wt) / τ ≤ u := not_lt.mp hc
      obtain ⟨ih1, ih2⟩ := ih (S + e.wt) (i + 1) hlt' h0'
      have hb := weightedLoop_bounds (τ * n) n t ((n : Rat) * (S + e.wt)) (τ * n * (((i + 1 : Nat) : Rat) - u)) (i + 1)
      constructor
      · intro j hj
        cases j with
        | zero =>
          constructor
          · intro h; omega
          · intro ⟨_, h2⟩
            simp only [Nat.add_zero, zero_add, List.take_succ_cons, List.take_zero, sumW, add_zero] at h2
            exact absurd h2 hc
        | succ j =>
          have hj' : j < t.length := by simp at hj; omega
          have := ih1 j hj'
          rw [show i + (j + 1) = i + 1 + j by omega]
          rw [this]
          simp only [sumW_take_succ_cons]
          have e1 : S + e.wt + sumW (t.take j) = S + (e.wt + sumW (t.take j)) := by ring
          have e2 : S + e.wt + sumW (t.take (j + 1)) = S + (e.wt + sumW (t.take (j + 1))) := by ring
          rw [e1, e2]
      · simp only [List.length_cons, sumW]
        rw [show i + (t.length + 1) = i + 1 + t.length by omega, ih2]
        have e1 : S + e.wt + sumW t = S + (e.wt + sumW t) := by ring
        rw [e1]

end DS.VarOpt

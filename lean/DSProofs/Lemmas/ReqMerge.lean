/- `req_sketch::merge` keeps the sketch invariant. (Helper lemmas.) -/
import DSProofs.Lemmas.ReqSketch
namespace DS.Req

variable {ρ : Type}

/-! ### compactor merge -/

structure CMergeSpec (T : Tun) (hra : Bool) (h : Nat) (c o m : Compactor ρ) : Prop where
  inv : CInv T hra h m
  len : m.items.length = c.items.length + o.items.length
  ent : m.entered = o.entered ++ c.entered
  cnt : ∀ p, cntP p m.items = cntP p c.items + cntP p o.items

theorem sortedItems_sorted {T : Tun} {hra : Bool} {h : Nat} {c : Compactor ρ} (hc : CInv T hra h c) : Sorted c.sortedItems := by
  unfold Compactor.sortedItems; split
  · rename_i hs; exact hc.srt (Or.inr hs)
  · exact sorted_sortInts _

theorem sortedItems_cnt (p : Int → Bool) (c : Compactor ρ) : cntP p c.sortedItems = cntP p c.items := by
  unfold Compactor.sortedItems; split <;> simp [cntP_sortInts]

theorem mergeItems_cnt (p : Int → Bool) (hra : Bool) (mine theirs : List Int) :
    cntP p (mergeItems hra mine theirs) = cntP p mine + cntP p theirs := by
  unfold mergeItems; split
  · rename_i hemp; rw [List.isEmpty_iff] at hemp; rw [hemp]; simp
  · split <;> rw [cntP_mergeRuns] <;> omega

theorem mergeItems_sorted (hra : Bool) (mine theirs : List Int) (hm : Sorted mine) (ht : Sorted theirs) :
    Sorted (mergeItems hra mine theirs) := by
  unfold mergeItems; split
  · exact ht
  · split
    · exact sorted_mergeRuns _ _ ht hm
    · exact sorted_mergeRuns _ _ hm ht

theorem cmerge_spec {T : Tun} (hT : TunOK T) (F : SecFns ρ) {hra : Bool} {h : Nat} {c o : Compactor ρ}
    (hc : CInv T hra h c) (ho : CInv T hra h o) : CMergeSpec T hra h c o (c.merge T F o) := by
  have hc1 : CInv T hra h (c.orState o) := ⟨hc.lg, hc.hraEq, hc.ns, hc.ss, hc.srt⟩
  have hc2 := ensureLoop_CInv hT F ((c.orState o).state + 2) hc1
  have e := ensureLoop_items T F ((c.orState o).state + 2) (c.orState o)
  simp only [Compactor.merge]
  generalize Compactor.ensureLoop T F ((c.orState o).state + 2) (c.orState o) = c2 at hc2 e
  obtain ⟨e1, e2, e3, e4, e5, e6, e7, e8⟩ := e
  have e1' : c2.items = c.items := e1
  have e7' : c2.entered = c.entered := e7
  have hcnt : ∀ p, cntP p (mergeItems c2.hra c2.sortedItems o.sortedItems) = cntP p c.items + cntP p o.items := by
    intro p; rw [mergeItems_cnt, sortedItems_cnt, sortedItems_cnt, e1']
  refine ⟨⟨hc2.lg, hc2.hraEq, hc2.ns, hc2.ss, fun _ => ?_⟩, ?_, ?_, hcnt⟩
  · exact mergeItems_sorted _ _ _ (sortedItems_sorted hc2) (sortedItems_sorted ho)
  · have := hcnt (fun _ => true); simpa [cntP_true] using this
  · show o.entered ++ c2.entered = o.entered ++ c.entered
    rw [e7']

/-! ### level-wise merge -/

structure MLSpec (T : Tun) (hra : Bool) (h : Nat) (cs os out : List (Compactor ρ)) : Prop where
  inv : CsInv T hra h out
  len : out.length = cs.length
  items : sumItems out = sumItems cs + sumItems os
  tw : totalW out = totalW cs + totalW os
  ne : AllNE os → AllNE (cs.drop os.length) → AllNE out
  ent : os ≠ [] → out.head?.map (·.entered) = (os.head?.bind fun o => cs.head?.map fun c => o.entered ++ c.entered)
  wp : ∀ p, weightP p out = weightP p cs + weightP p os

theorem mergeLevels_spec {T : Tun} (hT : TunOK T) (F : SecFns ρ) {hra : Bool} :
    ∀ (h : Nat) (cs os : List (Compactor ρ)), CsInv T hra h cs → CsInv T hra h os → os.length ≤ cs.length →
      MLSpec T hra h cs os (mergeLevels T F cs os) := by
  intro h cs
  induction cs generalizing h with
  | nil =>
    intro os _ _ hl
    have : os = [] := by cases os <;> simp_all
    subst this
    exact ⟨trivial, rfl, rfl, rfl, fun _ _ => AllNE_nil, fun x => absurd rfl x, fun _ => rfl⟩
  | cons c t ih =>
    intro os hcs hos hl
    cases os with
    | nil =>
      simp only [mergeLevels]
      exact ⟨hcs, rfl, by simp, by simp, fun _ x => by simpa using x, fun x => absurd rfl x, fun _ => by simp⟩
    | cons o os' =>
      simp only [mergeLevels]
      have sp := cmerge_spec hT F hcs.1 hos.1
      have IH := ih (h + 1) os' hcs.2 hos.2 (by simp at hl; omega)
      refine ⟨⟨sp.inv, IH.inv⟩, by simp [IH.len], ?_, ?_, ?_, fun _ => by simp [sp.ent], ?_⟩
      · simp only [sumItems_cons, sp.len, IH.items]; omega
      · simp only [totalW_cons, sp.len, IH.tw, sp.inv.lg, hcs.1.lg, hos.1.lg, Nat.add_mul]; omega
      · intro hne hd
        obtain ⟨ho, hos'⟩ := AllNE_cons.1 hne
        refine AllNE_cons.2 ⟨?_, IH.ne hos' (by simpa using hd)⟩
        intro e; have := sp.len; rw [e] at this
        cases hoi : o.items with
        | nil => exact ho hoi
        | cons a b => rw [hoi] at this; simp at this
      · intro p
        simp only [weightP_cons, sp.cnt p, IH.wp p, sp.inv.lg, hcs.1.lg, hos.1.lg, Nat.add_mul]; omega

/-! ### growTo -/

structure GrowSpec (T : Tun) (target : Nat) (s s' : Sketch ρ) : Prop where
  k : s'.k = s.k
  hra : s'.hra = s.hra
  n : s'.n = s.n
  mn : s'.minItem = s.minItem
  mx : s'.maxItem = s.maxItem
  inv : CsInv T s.hra 0 s'.compactors
  ge : target ≤ s'.compactors.length
  shape : ∃ extra, s'.compactors = s.compactors ++ extra ∧ (∀ c ∈ extra, c.items = []) ∧
            (extra ≠ [] → s'.compactors.length = target)

theorem growTo_spec {T : Tun} (hT : TunOK T) (F : SecFns ρ) (target : Nat) :
    ∀ (fuel : Nat) (s : Sketch ρ) (acc : Acc), target ≤ s.compactors.length + fuel → CsInv T s.hra 0 s.compactors → 2 ≤ s.k →
      GrowSpec T target s (growTo T F fuel target s acc).1 ∧ (growTo T F fuel target s acc).2.throws = acc.throws := by
  intro fuel
  induction fuel with
  | zero =>
    intro s acc hf hinv _
    simp only [growTo]
    exact ⟨⟨rfl, rfl, rfl, rfl, rfl, hinv, by show target ≤ s.compactors.length; omega, [], by simp, by simp, fun x => absurd rfl x⟩, by first | rfl | trivial⟩
  | succ fuel ih =>
    intro s acc hf hinv hk
    simp only [growTo]
    split
    · rename_i hlt
      have hg : CsInv T (s.grow T F acc.peek).hra 0 (s.grow T F acc.peek).compactors := by
        show CsInv T s.hra 0 (s.compactors ++ [Compactor.mkC T F s.hra s.compactors.length s.k acc.peek])
        rw [CsInv_append]; exact ⟨hinv, by simpa using mkC_CInv hT F s.hra s.compactors.length s.k hk acc.peek⟩
      have IH := ih (s.grow T F acc.peek) (acc.drawIf T.initCoinRandom s.compactors.length) (by simp [Sketch.grow]; omega) hg hk
      obtain ⟨extra, he1, he2, he3⟩ := IH.1.shape
      refine ⟨⟨IH.1.k, IH.1.hra, IH.1.n, IH.1.mn, IH.1.mx, IH.1.inv, IH.1.ge, ?_⟩, by rw [IH.2, drawIf_throws]⟩
      refine ⟨Compactor.mkC T F s.hra s.compactors.length s.k acc.peek :: extra, ?_, ?_, ?_⟩
      · rw [he1]; simp [Sketch.grow]
      · intro c hc; rcases List.mem_cons.1 hc with rfl | hc
        · exact (mkC_fields T F _ _ _ _).1
        · exact he2 c hc
      · intro _
        by_cases hex : extra = []
        · rw [he1, hex]; simp [Sketch.grow]
          have := IH.1.ge; rw [he1, hex] at this; simp [Sketch.grow] at this; omega
        · exact he3 hex
    · rename_i hge
      exact ⟨⟨rfl, rfl, rfl, rfl, rfl, hinv, by show target ≤ s.compactors.length; omega, [], by simp, by simp, fun x => absurd rfl x⟩, by first | rfl | trivial⟩

/-! ### sketch merge -/

theorem totalW_eq_zero_of_items_nil (cs : List (Compactor ρ)) (h : ∀ c ∈ cs, c.items = []) : totalW cs = 0 := by
  induction cs with
  | nil => rfl
  | cons c t ih =>
    rw [totalW_cons, h c (by simp), ih (fun c hc => h c (List.mem_cons_of_mem _ hc))]; simp

theorem weightP_eq_zero_of_items_nil (p : Int → Bool) (cs : List (Compactor ρ)) (h : ∀ c ∈ cs, c.items = []) : weightP p cs = 0 := by
  induction cs with
  | nil => rfl
  | cons c t ih =>
    rw [weightP_cons, h c (by simp), ih (fun c hc => h c (List.mem_cons_of_mem _ hc))]; simp

theorem sumItems_eq_zero_of_items_nil (cs : List (Compactor ρ)) (h : ∀ c ∈ cs, c.items = []) : sumItems cs = 0 := by
  induction cs with
  | nil => rfl
  | cons c t ih =>
    rw [sumItems_cons, h c (by simp), ih (fun c hc => h c (List.mem_cons_of_mem _ hc))]; simp

theorem totalW_append (a b : List (Compactor ρ)) : totalW (a ++ b) = totalW a + totalW b := weightP_append _ a b

theorem mergePre_SInv {T : Tun} (hT : TunOK T) (F : SecFns ρ) (s o : Sketch ρ) (acc : Acc) (hs : SInv T s) (ho : SInv T o)
    (hhra' : s.hra = o.hra) (hn0 : ¬ o.n = 0) :
    SInv T (s.mergePre T F o acc).1 ∧ entered0 (s.mergePre T F o acc).1 = entered0 o ++ entered0 s ∧
    (s.mergePre T F o acc).1.hra = s.hra ∧ (s.mergePre T F o acc).1.k = s.k ∧ (s.mergePre T F o acc).1.n = s.n + o.n ∧
    (s.mergePre T F o acc).2.throws = acc.throws := by
  simp only [Sketch.mergePre]
  have g0 := growTo_spec hT F o.compactors.length o.compactors.length s acc (by omega) hs.cs hs.k2
  have g := g0.1
  have gthr := g0.2
  generalize (growTo T F o.compactors.length o.compactors.length s acc).1 = s1 at g ⊢
  obtain ⟨extra, he1, he2, he3⟩ := g.shape
  have hocs : CsInv T s.hra 0 o.compactors := by rw [hhra']; exact ho.cs
  have ml := mergeLevels_spec hT F 0 s1.compactors o.compactors g.inv hocs g.ge
  generalize hcs : mergeLevels T F s1.compactors o.compactors = cs at ml ⊢
  -- the state before the final compress
  have hone : o.compactors ≠ [] := ho.nonnil
  have hs1tw : totalW s1.compactors = s.n := by
    rw [he1, totalW_append, totalW_eq_zero_of_items_nil extra he2, hs.tw]; omega
  have hdrop : AllNE (s1.compactors.drop o.compactors.length) := by
    by_cases hex : extra = []
    · rw [he1, hex, List.append_nil]
      by_cases hsn : s.n = 0
      · have h1 := hs.one hsn
        have : 1 ≤ o.compactors.length := by cases hoc : o.compactors with
          | nil => exact absurd hoc hone
          | cons a b => simp
        rw [List.drop_eq_nil_of_le (by omega)]; exact AllNE_nil
      · intro c hc; exact hs.ne hsn c (List.mem_of_mem_drop hc)
    · have := he3 hex
      rw [List.drop_eq_nil_of_le (by omega)]; exact AllNE_nil
  have hcne : AllNE cs := ml.ne (ho.ne hn0) hdrop
  have hent : entered0L cs = entered0 o ++ entered0 s := by
    have := ml.ent hone
    have hs1h : s1.compactors.head?.map (·.entered) = s.compactors.head?.map (·.entered) := by
      rw [he1]; cases hsc : s.compactors with
      | nil => exact absurd hsc hs.nonnil
      | cons a b => simp
    cases hoc : o.compactors with
    | nil => exact absurd hoc hone
    | cons oc ot =>
      cases hsc : s.compactors with
      | nil => exact absurd hsc hs.nonnil
      | cons sc st =>
        rw [he1, hoc, hsc] at this
        cases cs with
        | nil => simp at this
        | cons c0 ct =>
          simp at this
          simp [entered0, entered0L, hoc, hsc, this]
  let s2 : Sketch ρ := { s1 with minItem := optMinO s.minItem o.minItem, maxItem := optMaxO s.maxItem o.maxItem, compactors := cs, n := s.n + o.n, maxNomSize := sumCap T cs, numRetained := sumItems cs }
  have hcsnn : cs ≠ [] := by
    intro e; have := ml.len; rw [e] at this
    have := g.ge; cases hoc : o.compactors with
    | nil => exact absurd hoc hone
    | cons a b => rw [hoc] at this; simp at *; omega
  have hI2 : SInv T s2 := by
    refine ⟨by show 2 ≤ s1.k; rw [g.k]; exact hs.k2, by show CsInv T s1.hra 0 cs; rw [g.hra]; exact ml.inv, hcsnn, rfl, rfl, ?_,
      fun _ => hcne, ?_, ?_, ?_, ?_, ?_⟩
    · show s.n + o.n = totalW cs; rw [ml.tw, hs1tw, ho.tw]
    · intro h0; exfalso; simp [s2] at h0; exact hn0 h0.2
    · show s.n + o.n = (entered0L cs).length
      rw [hent, List.length_append, ← hs.ent, ← ho.ent]; omega
    · show IsMin (optMinO s.minItem o.minItem) (entered0L cs)
      rw [hent]; exact IsMin_append hs.mn ho.mn
    · show IsMax (optMaxO s.maxItem o.maxItem) (entered0L cs)
      rw [hent]; exact IsMax_append hs.mx ho.mx
    · intro m hm p
      show cntP p m.items = cntP p m.entered
      have hm : cs = [m] := hm
      have hl := ml.len; rw [hm] at hl
      have hs1l : s1.compactors.length = 1 := by simpa using hl.symm
      have hol : o.compactors.length = 1 := by
        have h1 := g.ge
        have h2 : 1 ≤ o.compactors.length := by cases hoc : o.compactors with
          | nil => exact absurd hoc hone
          | cons a b => simp
        omega
      obtain ⟨o0, ho0⟩ := List.length_eq_one_iff.1 hol
      have hex : extra = [] := by
        have : s.compactors.length + extra.length = 1 := by rw [← List.length_append, ← he1]; exact hs1l
        have : 1 ≤ s.compactors.length := by cases hsc : s.compactors with
          | nil => exact absurd hsc hs.nonnil
          | cons a b => simp
        exact List.length_eq_zero_iff.1 (by omega)
      rw [hex, List.append_nil] at he1
      obtain ⟨c0, hc0⟩ := List.length_eq_one_iff.1 (by rw [← he1]; exact hs1l : s.compactors.length = 1)
      have hcs' := hcs
      rw [he1, hc0, ho0] at hcs'
      simp only [mergeLevels] at hcs'
      rw [hm] at hcs'
      simp only [List.cons.injEq, and_true] at hcs'
      have hinv0 := hs.cs; rw [hc0] at hinv0
      have hinvo := hocs; rw [ho0] at hinvo
      have sp := cmerge_spec hT F hinv0.1 hinvo.1
      rw [hcs'] at sp
      rw [sp.cnt p, sp.ent, cntP_append, hs.ex c0 hc0 p, ho.ex o0 ho0 p]; omega
  exact ⟨hI2, hent, g.hra, g.k, trivial, gthr⟩

theorem merge_SInv {T : Tun} (hT : TunOK T) (F : SecFns ρ) (s o : Sketch ρ) (acc : Acc) (hs : SInv T s) (ho : SInv T o)
    (r : Sketch ρ × Acc) (hr : s.merge T F o acc = some r) :
    SInv T r.1 ∧ r.2.throws = acc.throws ∧ entered0 r.1 = entered0 o ++ entered0 s ∧ r.1.hra = s.hra ∧ r.1.k = s.k ∧ s.hra = o.hra := by
  simp only [Sketch.merge] at hr
  split at hr
  · exact absurd hr (by simp)
  rename_i hhra
  have hhra' : s.hra = o.hra := by simpa using hhra
  split at hr
  · rename_i hn0
    have : r = (s, acc) := by simpa using hr.symm
    subst this
    have : entered0 o = [] := by
      have := ho.ent; rw [hn0] at this
      exact List.length_eq_zero_iff.1 this.symm
    exact ⟨hs, rfl, by simp [this], rfl, rfl, hhra'⟩
  rename_i hn0
  obtain ⟨hI2, hent2, hh2, hk2, hn2, hthr2⟩ := mergePre_SInv hT F s o acc hs ho hhra' hn0
  split at hr
  · have := compress_SInv hT F (s.mergePre T F o acc).1 (s.mergePre T F o acc).2 hI2 (by rw [hn2]; omega)
    obtain ⟨a, b, c', d, e, f, g', i⟩ := this
    have : r = (s.mergePre T F o acc).1.compress T F (s.mergePre T F o acc).2 := by simpa using hr.symm
    subst this
    exact ⟨a, by rw [b, hthr2], by rw [c', hent2], by rw [g', hh2], by rw [i, hk2], hhra'⟩
  · have : r = s.mergePre T F o acc := by simpa using hr.symm
    subst this
    exact ⟨hI2, hthr2, hent2, hh2, hk2, hhra'⟩

end DS.Req

/-
Compact theta images, serial version 3: round trip, size, prefix safety, bounds (helper lemmas).
-/
import DSProofs.Lemmas.WireThetaBase
namespace DS.Wire.Theta
open DS.Wire Reader

/-- unpacked side conditions of `Consts.ok` -/
structure COk (c : Consts) : Prop where
  v3 : c.serVer3 < 256
  v4 : c.serVer4 < 256
  ty : c.sketchType < 256
  v34 : c.serVer3 ≠ c.serVer4
  v31 : c.serVer3 ≠ 1
  v32 : c.serVer3 ≠ 2
  v41 : c.serVer4 ≠ 1
  v42 : c.serVer4 ≠ 2
  ro : c.fReadOnly < 8
  em : c.fEmpty < 8
  co : c.fCompact < 8
  od : c.fOrdered < 8
  ro_em : c.fReadOnly ≠ c.fEmpty
  ro_co : c.fReadOnly ≠ c.fCompact
  ro_od : c.fReadOnly ≠ c.fOrdered
  em_co : c.fEmpty ≠ c.fCompact
  em_od : c.fEmpty ≠ c.fOrdered
  co_od : c.fCompact ≠ c.fOrdered

theorem COk.of_ok {c : Consts} (h : c.ok = true) : COk c := by
  simp only [Consts.ok, Bool.and_eq_true, decide_eq_true_eq, bne_iff_ne, ne_eq] at h
  obtain ⟨⟨⟨⟨⟨⟨⟨⟨⟨⟨⟨⟨⟨⟨⟨⟨⟨h1, h2⟩, h3⟩, h4⟩, h5⟩, h6⟩, h7⟩, h8⟩, h9⟩, h10⟩, h11⟩, h12⟩, h13⟩, h14⟩, h15⟩, h16⟩, h17⟩, h18⟩ := h
  exact ⟨h1, h2, h3, h4, h5, h6, h7, h8, h9, h10, h11, h12, h13, h14, h15, h16, h17, h18⟩

/-- the part of the side conditions that concerns the flags byte -/
structure FlagsOk (c : Consts) : Prop where
  ro : c.fReadOnly < 8
  em : c.fEmpty < 8
  co : c.fCompact < 8
  od : c.fOrdered < 8
  ro_em : c.fReadOnly ≠ c.fEmpty
  ro_co : c.fReadOnly ≠ c.fCompact
  ro_od : c.fReadOnly ≠ c.fOrdered
  em_co : c.fEmpty ≠ c.fCompact
  em_od : c.fEmpty ≠ c.fOrdered
  co_od : c.fCompact ≠ c.fOrdered

theorem COk.flags {c : Consts} (h : COk c) : FlagsOk c :=
  ⟨h.ro, h.em, h.co, h.od, h.ro_em, h.ro_co, h.ro_od, h.em_co, h.em_od, h.co_od⟩

theorem flagsByte_lt' {c : Consts} (hc : FlagsOk c) (e o : Bool) : flagsByte c e o < 256 := by
  unfold flagsByte
  exact or_lt_256 _ _ (or_lt_256 _ _ (or_lt_256 _ _ (two_pow_lt_256 _ hc.co) (two_pow_lt_256 _ hc.ro)) (flagBit_lt _ _ hc.em)) (flagBit_lt _ _ hc.od)

theorem flagsByte_empty' {c : Consts} (hc : FlagsOk c) (e o : Bool) : (flagsByte c e o).testBit c.fEmpty = e := by
  have h1 := hc.em_co; have h2 := hc.ro_em; have h3 := hc.em_od
  simp [flagsByte, Nat.testBit_or, testBit_flagBit, Ne.symm h1, h2, Ne.symm h3]

theorem flagsByte_ordered' {c : Consts} (hc : FlagsOk c) (e o : Bool) : (flagsByte c e o).testBit c.fOrdered = o := by
  have h1 := hc.co_od; have h2 := hc.ro_od; have h3 := hc.em_od
  simp [flagsByte, Nat.testBit_or, testBit_flagBit, h1, h2, h3]

theorem flagsByte_lt {c : Consts} (hc : COk c) (e o : Bool) : flagsByte c e o < 256 := flagsByte_lt' hc.flags e o
theorem flagsByte_empty {c : Consts} (hc : COk c) (e o : Bool) : (flagsByte c e o).testBit c.fEmpty = e := flagsByte_empty' hc.flags e o
theorem flagsByte_ordered {c : Consts} (hc : COk c) (e o : Bool) : (flagsByte c e o).testBit c.fOrdered = o := flagsByte_ordered' hc.flags e o

/-! ### the version-3 body -/

theorem decodeV3_encode {c : Consts} (hc : COk c) (s : Image) (hwf : WF s) (exp : Nat)
    (hseed : s.isEmpty = true ∨ s.seedHash = exp) (tail : Bytes) :
    decodeV3 c exp (preLongs s)
      (w16 0 ++ (w8 (flagsByte c s.isEmpty s.isOrdered) ++ (w16 s.seedHash ++
        ((if preLongs s > 1 then w32 s.entries.length ++ w32 0 else []) ++
        ((if s.estMode then w64 s.theta else []) ++ (wU64s s.entries ++ tail)))))) = some (s, tail) := by
  obtain ⟨hsh, hth, hes, hlen, hemp, hord⟩ := hwf
  unfold decodeV3
  rw [bind_skip_w16, bind_u8 _ _ _ (flagsByte_lt hc _ _), bind_u16 _ _ _ hsh, flagsByte_empty hc, flagsByte_ordered hc]
  obtain ⟨e, o, sh, th, es⟩ := s
  simp only at *
  cases e with
  | true =>
    obtain ⟨he, ht⟩ := hemp rfl
    subst he; subst ht
    have ho : o = true := hord (by simp)
    subst ho
    simp [preLongs, Image.estMode, Reader.pure, wU64s]
  | false =>
    have hs : sh = exp := by
      rcases hseed with h | h
      · simp at h
      · exact h
    subst hs
    simp only [Bool.false_eq_true, ↓reduceIte, beq_self_eq_true, bind_guard_true]
    by_cases hest : th < maxTheta
    · -- estimation mode: 3 preamble longs
      have hp : preLongs ⟨false, o, sh, th, es⟩ = 3 := by simp [preLongs, Image.estMode, hest]
      have hem : Image.estMode ⟨false, o, sh, th, es⟩ = true := by simp [Image.estMode, hest]
      rw [hp, hem]
      simp only [Nat.reduceEqDiff, ↓reduceIte, Nat.reduceLT, Nat.reduceGT, List.append_assoc]
      rw [bind_u32 _ _ _ hlen, bind_skip_w32, bind_u64 _ _ _ (by unfold maxTheta at hth; omega), bind_some (repeatN_u64_wU64s es hes tail)]
      simp only [Reader.pure, Option.some.injEq, Prod.mk.injEq, and_true, Image.mk.injEq, true_and]
      by_cases h1 : es.length ≤ 1
      · simp [h1, hord h1]
      · simp [h1]
    · have hth' : th = maxTheta := by omega
      subst hth'
      have hem : Image.estMode ⟨false, o, sh, maxTheta, es⟩ = false := by simp [Image.estMode]
      by_cases h1 : es.length = 1
      · -- single entry: 1 preamble long
        have hp : preLongs ⟨false, o, sh, maxTheta, es⟩ = 1 := by simp [preLongs, Image.estMode, h1]
        rw [hp, hem]
        match es, h1 with
        | [x], _ =>
          have hx : x < 2 ^ 64 := hes x (by simp)
          have ho : o = true := hord (by simp)
          subst ho
          simp only [↓reduceIte, Nat.lt_irrefl, List.nil_append, wU64s, List.append_nil, List.append_assoc, Bool.false_eq_true, gt_iff_lt]
          rw [bind_u64 _ _ _ hx]
          rfl
      · have hp : preLongs ⟨false, o, sh, maxTheta, es⟩ = 2 := by simp [preLongs, Image.estMode, h1]
        rw [hp, hem]
        simp only [Nat.reduceEqDiff, ↓reduceIte, Nat.reduceLT, Nat.reduceGT, List.append_assoc, Bool.false_eq_true, List.nil_append, Nat.lt_irrefl]
        rw [bind_u32 _ _ _ hlen, bind_skip_w32, bind_pure, bind_some (repeatN_u64_wU64s es hes tail)]
        simp only [Reader.pure, Option.some.injEq, Prod.mk.injEq, and_true, Image.mk.injEq, true_and]
        by_cases h2 : es.length ≤ 1
        · simp [h2, hord h2]
        · simp [h2]

theorem preLongs_lt (s : Image) : preLongs s < 256 := by
  unfold preLongs; split
  · decide
  · split <;> decide

theorem preLongs_le3 (s : Image) : preLongs s ≤ 3 := by
  unfold preLongs; split
  · decide
  · split <;> decide


/-! ### the complete reader on version-3 images -/

theorem decode_encode_v3 {c : Consts} (hc : COk c) (s : Image) (hwf : WF s) (exp : Nat)
    (hseed : s.isEmpty = true ∨ s.seedHash = exp) (tail : Bytes) :
    decode c exp (encode c s ++ tail) = some (s, tail) := by
  unfold decode encode
  simp only [List.append_assoc]
  rw [bind_u8 _ _ _ (preLongs_lt s), bind_u8 _ _ _ hc.v3, bind_u8 _ _ _ hc.ty]
  simp only [beq_self_eq_true, bind_guard_true, hc.v34, ↓reduceIte]
  exact decodeV3_encode hc s hwf exp hseed tail

theorem length_encode (c : Consts) (s : Image) : (encode c s).length = serializedSize s := by
  unfold encode serializedSize
  simp only [List.length_append, w8, w16, w32, w64, length_wLe, length_wU64s]
  by_cases h1 : s.estMode = true
  · have hp : preLongs s = 3 := by simp [preLongs, h1]
    simp [hp, h1, length_wLe]; omega
  · have h1' : s.estMode = false := by simpa using h1
    by_cases h2 : (s.isEmpty || s.entries.length == 1) = true
    · have hp : preLongs s = 1 := by simp only [preLongs, h1', h2]; simp
      simp [hp, h1']; omega
    · have hp : preLongs s = 2 := by simp only [preLongs, h1', h2]; simp
      simp [hp, h1', length_wLe]; omega

/-! ### prefix safety: one line per combinator -/

theorem PS_decodeV3 (c : Consts) (exp pre : Nat) : PS (decodeV3 c exp pre) :=
  PS_bind _ _ (PS_skip 2) fun _ =>
  PS_bind _ _ (PS_leNat 1) fun _ =>
  PS_bind _ _ (PS_leNat 2) fun _ =>
  PS_ite _ _ _ (PS_pure _) <|
    PS_bind _ _ (PS_guard _) fun _ =>
    PS_ite _ _ _ (PS_bind _ _ (PS_leNat 8) fun _ => PS_pure _) <|
      PS_bind _ _ (PS_leNat 4) fun n =>
      PS_bind _ _ (PS_skip 4) fun _ =>
      PS_bind _ _ (PS_ite _ _ _ (PS_leNat 8) (PS_pure _)) fun _ =>
      PS_bind _ _ (PS_repeatN _ (PS_leNat 8) n) fun _ => PS_pure _

theorem PS_decodeV4 (exp pre : Nat) : PS (decodeV4 exp pre) :=
  PS_bind _ _ (PS_leNat 1) fun _ =>
  PS_bind _ _ (PS_leNat 1) fun neb =>
  PS_bind _ _ (PS_leNat 1) fun _ =>
  PS_bind _ _ (PS_leNat 2) fun _ =>
  PS_bind _ _ (PS_guard _) fun _ =>
  PS_bind _ _ (PS_ite _ _ _ (PS_leNat 8) (PS_pure _)) fun _ =>
  PS_bind _ _ (PS_leNat neb) fun _ =>
  PS_bind _ _ (PS_bytesN _) fun _ => PS_pure _

theorem PS_decodeV1 (exp : Nat) : PS (decodeV1 exp) :=
  PS_bind _ _ (PS_skip 5) fun _ =>
  PS_bind _ _ (PS_leNat 4) fun n =>
  PS_bind _ _ (PS_skip 4) fun _ =>
  PS_bind _ _ (PS_leNat 8) fun _ =>
  PS_ite _ _ _ (PS_pure _) (PS_bind _ _ (PS_repeatN _ (PS_leNat 8) n) fun _ => PS_pure _)

theorem PS_decodeV2 (exp pre : Nat) : PS (decodeV2 exp pre) :=
  PS_bind _ _ (PS_skip 3) fun _ =>
  PS_bind _ _ (PS_leNat 2) fun _ =>
  PS_bind _ _ (PS_guard _) fun _ =>
  PS_ite _ _ _ (PS_pure _) <|
  PS_ite _ _ _
    (PS_bind _ _ (PS_leNat 4) fun n =>
     PS_bind _ _ (PS_skip 4) fun _ =>
     PS_ite _ _ _ (PS_pure _) (PS_bind _ _ (PS_repeatN _ (PS_leNat 8) n) fun _ => PS_pure _)) <|
  PS_ite _ _ _
    (PS_bind _ _ (PS_leNat 4) fun n =>
     PS_bind _ _ (PS_skip 4) fun _ =>
     PS_bind _ _ (PS_leNat 8) fun _ =>
     PS_ite _ _ _ (PS_pure _) (PS_bind _ _ (PS_repeatN _ (PS_leNat 8) n) fun _ => PS_pure _))
    PS_fail

theorem PS_decode (c : Consts) (exp : Nat) : PS (decode c exp) :=
  PS_bind _ _ (PS_leNat 1) fun pre =>
  PS_bind _ _ (PS_leNat 1) fun _ =>
  PS_bind _ _ (PS_leNat 1) fun _ =>
  PS_bind _ _ (PS_guard _) fun _ =>
  PS_ite _ _ _ (PS_decodeV4 exp pre) <|
  PS_ite _ _ _ (PS_decodeV3 c exp pre) <|
  PS_ite _ _ _ (PS_decodeV1 exp) <|
  PS_ite _ _ _ (PS_decodeV2 exp pre) PS_fail

end DS.Wire.Theta

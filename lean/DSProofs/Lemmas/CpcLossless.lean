/- `uncompress (compress s) = s` for the four flavors (free to change). -/
import DSProofs.Lemmas.CpcCompress
namespace DS.Cpc

theorem slide_unslide (C : CompTables) (hC : TablesOK C) (p off rc : Nat) (hp : p < 16) (ho : off ≤ 56)
    (hz : rc % 64 < off ∨ off + 8 ≤ rc % 64) : unslideCol C p off (slideCol C p off rc) = rc := by
  have hcol : rc % 64 < 64 := Nat.mod_lt _ (by decide)
  have hc' : (rc % 64 + 56 - off) % 64 < 56 := by omega
  have hpl := hC.perm_lt p _ hp hc'
  have hpi := hC.perm_inv p _ hp hc'
  unfold unslideCol slideCol
  have e1 : (rc / 64 * 64 + C.perm p ((rc % 64 + 56 - off) % 64)) / 64 = rc / 64 := by omega
  have e2 : (rc / 64 * 64 + C.perm p ((rc % 64 + 56 - off) % 64)) % 64 = C.perm p ((rc % 64 + 56 - off) % 64) := by omega
  rw [e1, e2, hpi]
  omega

theorem table_nil_of_empty (s : Sketch) (xs : List Nat) (h : Inv s xs) (hv : ∀ x ∈ xs, x < 64 * 2^s.lgK)
    (h0 : s.numCoupons = 0) : s.table = [] ∧ s.window = [] := by
  have hk := Nat.two_pow_pos s.lgK
  have hw : s.window = [] := by
    apply Classical.byContradiction
    intro hw; have := h.winC hw; omega
  have hxs : xs = [] := distinct_eq_nil xs (by rw [← h.count]; exact h0)
  refine ⟨?_, hw⟩
  apply List.eq_nil_iff_forall_not_mem.2
  intro a ha
  have := (sparse_table_mem s xs h hv hw a).1 ha
  rw [hxs] at this
  exact absurd this (by simp)

theorem offset_zero_of_lt27 (s : Sketch) (xs : List Nat) (h : Inv s xs) (h27 : 8 * s.numCoupons < 27 * 2^s.lgK) : s.offset = 0 := by
  apply Classical.byContradiction
  intro hne0
  have := h.offLo (by omega)
  have e : (19 + 8 * s.offset) * 2^s.lgK = 19 * 2^s.lgK + 8 * s.offset * 2^s.lgK := Nat.add_mul _ _ _
  have : 8 * 2^s.lgK ≤ 8 * s.offset * 2^s.lgK := Nat.mul_le_mul_right _ (by omega)
  omega

/-- **compression is lossless** on every valid sketch whose offset is the correct one -/
theorem compress_lossless (C : CompTables) (hC : TablesOK C) (s : Sketch) (xs : List Nat) (h : Inv s xs)
    (hv : ∀ x ∈ xs, x < 64 * 2^s.lgK) (hoff : s.offset = determineCorrectOffset s.lgK s.numCoupons) :
    uncompress C (compress C s) s.lgK s.numCoupons = (s.table, s.window) := by
  have hk := Nat.two_pow_pos s.lgK
  unfold uncompress compress
  rcases flavor_cases s.lgK s.numCoupons with ⟨h0, hf⟩ | ⟨h0, h1, hf⟩ | ⟨h0, h1, h2, hf⟩ | ⟨h0, h1, h2, h3, hf⟩ | ⟨h0, h1, h2, h3, hf⟩
  · -- EMPTY
    simp only [hf]
    obtain ⟨ht, hw⟩ := table_nil_of_empty s xs h hv h0
    rw [ht, hw]
  · -- SPARSE
    simp only [hf]
    have hw : s.window = [] := by
      apply Classical.byContradiction
      intro hw; have := h.winC hw; omega
    rw [pairs_roundtrip C hC s.lgK s.table (pairsOK_sorted _ h.rep.sorted), sortPairs_of_sorted _ h.rep.sorted, hw]
  · -- HYBRID
    simp only [hf]
    have hw : s.window ≠ [] := by intro e; have := h.sparseC e; omega
    have ho : s.offset = 0 := offset_zero_of_lt27 s xs h (by omega)
    have hlen := h.rep.win_len hw
    have hz : ∀ rc ∈ s.table, 8 ≤ rc % 64 := by
      intro rc hrc; have := h.rep.zone hw rc hrc; omega
    have hall : (mergeS s.table (pairsOfWindow s.window)).Pairwise (· < ·) :=
      sorted_mergeS _ _ h.rep.sorted (sorted_pairsOfWindow _)
        (by intro a ha hb; have := hz a ha; have := ((mem_pairsOfWindow _ a).1 hb).2.1; omega)
    rw [pairs_roundtrip C hC s.lgK _ (pairsOK_sorted _ hall)]
    congr 1
    · have hs : ((mergeS s.table (pairsOfWindow s.window)).filter (fun rc => decide (8 ≤ rc % 64))).Pairwise (· < ·) :=
        List.Pairwise.filter _ hall
      rw [sortPairs_of_sorted _ hs]
      apply sorted_ext _ _ hs h.rep.sorted
      intro a
      rw [List.mem_filter, mem_mergeS, decide_eq_true_eq]
      constructor
      · rintro ⟨ha | ha, h8⟩
        · exact ha
        · have := ((mem_pairsOfWindow _ a).1 ha).2.1; omega
      · intro ha; exact ⟨Or.inl ha, hz a ha⟩
    · apply window_of_pairs (2^s.lgK) s.window hlen h.rep.win_byte
      intro rc
      rw [List.mem_filter, mem_mergeS, decide_eq_true_eq]
      constructor
      · rintro ⟨ha | ha, h8⟩
        · have := hz rc ha; omega
        · exact ha
      · intro ha; exact ⟨Or.inr ha, ((mem_pairsOfWindow _ rc).1 ha).2.1⟩
  · -- PINNED
    simp only [hf]
    have hw : s.window ≠ [] := by intro e; have := h.sparseC e; omega
    have ho : s.offset = 0 := offset_zero_of_lt27 s xs h h3
    have hlen := h.rep.win_len hw
    have hz : ∀ rc ∈ s.table, 8 ≤ rc % 64 := by
      intro rc hrc; have := h.rep.zone hw rc hrc; omega
    by_cases ht : s.table = []
    · simp only [ht, if_true]
      rw [window_roundtrip C hC s.lgK s.numCoupons s.window hlen h.rep.win_byte]
    · have hne : (s.table.map (fun rc => rc - 8)).length ≠ 0 := by
        simp only [List.length_map]; intro e; exact ht (List.length_eq_zero_iff.1 e)
      simp only [ht, if_false, hne]
      have hs : (s.table.map (fun rc => rc - 8)).Pairwise (· < ·) := by
        rw [List.pairwise_map]
        apply List.Pairwise.imp_of_mem _ h.rep.sorted
        intro a b ha hb hab
        have := hz a ha; have := hz b hb; omega
      rw [window_roundtrip C hC s.lgK s.numCoupons s.window hlen h.rep.win_byte,
        pairs_roundtrip C hC s.lgK _ (pairsOK_sorted _ hs), List.map_map]
      have : s.table.map ((fun rc => rc + 8) ∘ fun rc => rc - 8) = s.table := by
        rw [← List.map_id s.table]
        rw [List.map_map]
        apply List.map_congr_left
        intro a ha; have := hz a ha; simp; omega
      rw [this, sortPairs_of_sorted _ h.rep.sorted]
  · -- SLIDING
    simp only [hf]
    have hw : s.window ≠ [] := by intro e; have := h.sparseC e; omega
    have hlen := h.rep.win_len hw
    have hph := pseudoPhase_sliding s.lgK s.numCoupons h3
    by_cases ht : s.table = []
    · simp only [ht, if_true]
      rw [window_roundtrip C hC s.lgK s.numCoupons s.window hlen h.rep.win_byte]
    · have hne : (sortPairs (s.table.map (slideCol C (pseudoPhase s.lgK s.numCoupons) s.offset))).length ≠ 0 := by
        simp only [length_sortPairs, List.length_map]; intro e; exact ht (List.length_eq_zero_iff.1 e)
      simp only [ht, if_false, hne]
      have hinv : ∀ rc ∈ s.table, unslideCol C (pseudoPhase s.lgK s.numCoupons) s.offset
          (slideCol C (pseudoPhase s.lgK s.numCoupons) s.offset rc) = rc :=
        fun rc hrc => slide_unslide C hC _ _ rc hph h.rep.offLe (h.rep.zone hw rc hrc)
      have hnd : (s.table.map (slideCol C (pseudoPhase s.lgK s.numCoupons) s.offset)).Nodup := by
        rw [List.nodup_iff_pairwise_ne, List.pairwise_map]
        apply List.Pairwise.imp_of_mem _ h.rep.sorted
        intro a b ha hb hab he
        have := congrArg (unslideCol C (pseudoPhase s.lgK s.numCoupons) s.offset) he
        rw [hinv a ha, hinv b hb] at this
        omega
      have hs := sortPairs_sorted_of_nodup _ hnd
      rw [window_roundtrip C hC s.lgK s.numCoupons s.window hlen h.rep.win_byte,
        pairs_roundtrip C hC s.lgK _ (pairsOK_sorted _ hs), ← hoff]
      congr 1
      apply sortPairs_eq_of_perm _ _ _ h.rep.sorted
      have hp := (sortPairs_perm (s.table.map (slideCol C (pseudoPhase s.lgK s.numCoupons) s.offset))).map
        (unslideCol C (pseudoPhase s.lgK s.numCoupons) s.offset)
      refine hp.trans ?_
      rw [List.map_map]
      have : s.table.map (unslideCol C (pseudoPhase s.lgK s.numCoupons) s.offset ∘ slideCol C (pseudoPhase s.lgK s.numCoupons) s.offset) = s.table := by
        rw [← List.map_id s.table, List.map_map]
        apply List.map_congr_left
        intro a ha; simp [hinv a ha]
      rw [this]

end DS.Cpc

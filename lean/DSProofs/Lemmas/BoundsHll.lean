/- C06 helper lemmas: HLL relative-error function, HLL-mode and coupon-mode bounds over an ordered field. -/
import DSProofs.Lemmas.BoundsTablesFacts
namespace DS.Bounds
set_option linter.unusedSectionVars false
set_option linter.unusedVariables false
open DS.Bounds.Gen

variable {K : Type} [Field K] [LinearOrder K] [IsStrictOrderedRing K] (F : MathFns K)

theorem lt_of_mul_self_lt {a b : K} (ha : 0 ≤ a) (hb : 0 ≤ b) (h : a * a < b * b) : a < b := by
  by_contra hn
  have := mul_self_le_mul_self hb (not_lt.mp hn)
  linarith

/-- q = √(2^lgK) is positive and squares to 2^lgK -/
theorem sqrt_pow2 (hF : F.OK) (lgK : Nat) :
    0 < F.sqrt ((2 ^ lgK : Nat) : K) ∧ F.sqrt ((2 ^ lgK : Nat) : K) * F.sqrt ((2 ^ lgK : Nat) : K) = ((2 ^ lgK : Nat) : K) := by
  have hk : (0 : K) < ((2 ^ lgK : Nat) : K) := by exact_mod_cast Nat.pos_of_ne_zero (by positivity)
  have hs := hF.sqrt_sq _ (le_of_lt hk)
  refine ⟨?_, hs⟩
  rcases eq_or_lt_of_le (hF.sqrt_nonneg ((2 ^ lgK : Nat) : K)) with h | h
  · rw [← h, mul_zero] at hs; rw [← hs] at hk; exact absurd hk (lt_irrefl _)
  · exact h

/-- κ·c/√k ∈ [0,1) and increasing in κ when (3c)² < 2^m ≤ k -/
theorem ratio_facts (hF : F.OK) (lgK m : Nat) (hm : m ≤ lgK) (c : K) (hc : 0 < c) (h3 : (3 * c) * (3 * c) < ((2 ^ m : Nat) : K))
    (sd : Nat) (hsd : sd ≤ 3) :
    0 ≤ (sd : K) * c / F.sqrt ((2 ^ lgK : Nat) : K) ∧ (sd : K) * c / F.sqrt ((2 ^ lgK : Nat) : K) < 1 ∧
    (sd : K) * c / F.sqrt ((2 ^ lgK : Nat) : K) ≤ ((sd + 1 : Nat) : K) * c / F.sqrt ((2 ^ lgK : Nat) : K) := by
  obtain ⟨hq, hqq⟩ := sqrt_pow2 F hF lgK
  have hsd' : (sd : K) ≤ 3 := by exact_mod_cast hsd
  have hsd0 : (0 : K) ≤ sd := Nat.cast_nonneg sd
  have hmk : ((2 ^ m : Nat) : K) ≤ ((2 ^ lgK : Nat) : K) := by
    exact_mod_cast Nat.pow_le_pow_right (by norm_num) hm
  refine ⟨div_nonneg (mul_nonneg hsd0 (le_of_lt hc)) (le_of_lt hq), ?_, ?_⟩
  · rw [div_lt_one hq]
    apply lt_of_mul_self_lt (mul_nonneg hsd0 (le_of_lt hc)) (le_of_lt hq)
    have : (sd : K) * c * ((sd : K) * c) ≤ (3 * c) * (3 * c) :=
      mul_self_le_mul_self (mul_nonneg hsd0 (le_of_lt hc)) (by nlinarith)
    linarith
  · apply div_le_div_of_nonneg_right _ (le_of_lt hq)
    push_cast
    nlinarith

/-! ### getRelErr -/

theorem rse_facts : (0 : K) < litK hllT.hipRse ∧ (0 : K) < litK hllT.nonHipRse ∧
    (3 * litK hllT.hipRse) * (3 * litK hllT.hipRse) < (((2 ^ 13 : Nat)) : K) ∧
    (3 * litK hllT.nonHipRse) * (3 * litK hllT.nonHipRse) < (((2 ^ 13 : Nat)) : K) ∧
    (0 : K) < litK hllT.couponRse ∧ 3 * (litK hllT.couponRse : K) < 1 ∧ hllT.minLgK = 4 := by
  have h := Gen.rse_factors
  simp only [Bool.and_eq_true, decide_eq_true_eq] at h
  obtain ⟨⟨⟨⟨⟨⟨p1, p2⟩, p3⟩, p4⟩, p5⟩, p6⟩, p7⟩ := h
  have a1 : (0 : K) < litK DSGen.Bounds.hllHipRseFactor := litK_pos_of_qpos p1
  have a2 : (litK DSGen.Bounds.hllHipRseFactor : K) < litK DSGen.Bounds.hllNonHipRseFactor := litK_lt_of_qlt p2
  have a4 : (0 : K) < litK DSGen.Bounds.couponRse := litK_pos_of_qpos p4
  have dn : (0 : K) < ((DSGen.Bounds.hllNonHipRseFactor.2.2 : Nat) : K) := by
    have := a2; unfold qlt at p2; simp only [Bool.and_eq_true] at p2; exact denPos_cast p2.1.2
  have dc : (0 : K) < ((DSGen.Bounds.couponRse.2.2 : Nat) : K) := by
    unfold qpos at p4; simp only [Bool.and_eq_true] at p4; exact denPos_cast p4.1
  have a3 : (3 * litK DSGen.Bounds.hllNonHipRseFactor) * (3 * litK DSGen.Bounds.hllNonHipRseFactor) < (((2 ^ 13 : Nat)) : K) := by
    unfold litK
    unfold Gen.num Gen.den at p3
    have p3' : (9 * (DSGen.Bounds.hllNonHipRseFactor.2.1 : K) * DSGen.Bounds.hllNonHipRseFactor.2.1 <
        8192 * ((DSGen.Bounds.hllNonHipRseFactor.2.2 : Nat) : K) * ((DSGen.Bounds.hllNonHipRseFactor.2.2 : Nat) : K)) := by exact_mod_cast p3
    have : 3 * ((DSGen.Bounds.hllNonHipRseFactor.2.1 : K) / ((DSGen.Bounds.hllNonHipRseFactor.2.2 : Nat) : K)) *
        (3 * ((DSGen.Bounds.hllNonHipRseFactor.2.1 : K) / ((DSGen.Bounds.hllNonHipRseFactor.2.2 : Nat) : K))) =
        9 * (DSGen.Bounds.hllNonHipRseFactor.2.1 : K) * DSGen.Bounds.hllNonHipRseFactor.2.1 /
          (((DSGen.Bounds.hllNonHipRseFactor.2.2 : Nat) : K) * ((DSGen.Bounds.hllNonHipRseFactor.2.2 : Nat) : K)) := by
      field_simp; ring
    rw [this, div_lt_iff₀ (mul_pos dn dn)]
    push_cast
    linarith
  have a5 : 3 * (litK DSGen.Bounds.couponRse : K) < 1 := by
    unfold litK
    unfold Gen.num at p5
    have p5' : (3 * (DSGen.Bounds.couponRse.2.1 : K) < ((DSGen.Bounds.couponRse.2.2 : Nat) : K)) := by exact_mod_cast p5
    rw [← mul_div_assoc, div_lt_one dc]
    exact p5'
  refine ⟨a1, lt_trans a1 a2, ?_, a3, a4, a5, p6⟩
  have : (3 * (litK DSGen.Bounds.hllHipRseFactor : K)) * (3 * litK DSGen.Bounds.hllHipRseFactor)
      ≤ (3 * litK DSGen.Bounds.hllNonHipRseFactor) * (3 * litK DSGen.Bounds.hllNonHipRseFactor) :=
    mul_self_le_mul_self (by linarith) (by linarith)
  exact lt_of_le_of_lt this a3


theorem rowLb_facts {t : List Lit} {r : Nat} (h : rowLbOk t r = true) :
    (0 : K) < litK (t.getD (3 * r) (0, 0, 1)) ∧
    (litK (t.getD (3 * r) (0, 0, 1)) : K) < litK (t.getD (3 * r + 1) (0, 0, 1)) ∧
    (litK (t.getD (3 * r + 1) (0, 0, 1)) : K) < litK (t.getD (3 * r + 2) (0, 0, 1)) := by
  unfold rowLbOk at h
  simp only [Bool.and_eq_true] at h
  obtain ⟨⟨p, q⟩, r'⟩ := h
  exact ⟨litK_pos_of_qpos p, litK_lt_of_qlt q, litK_lt_of_qlt r'⟩

theorem rowUb_facts {t : List Lit} {r : Nat} (h : rowUbOk t r = true) :
    (litK (t.getD (3 * r) (0, 0, 1)) : K) < 0 ∧
    (litK (t.getD (3 * r + 1) (0, 0, 1)) : K) < litK (t.getD (3 * r) (0, 0, 1)) ∧
    (litK (t.getD (3 * r + 2) (0, 0, 1)) : K) < litK (t.getD (3 * r + 1) (0, 0, 1)) ∧
    (-1 : K) < litK (t.getD (3 * r + 2) (0, 0, 1)) := by
  unfold rowUbOk at h
  simp only [Bool.and_eq_true] at h
  obtain ⟨⟨⟨p, q⟩, r'⟩, s⟩ := h
  have := litK_lt_of_qlt (K := K) s
  rw [litK_m1] at this
  exact ⟨litK_neg_of_qneg p, litK_lt_of_qlt q, litK_lt_of_qlt r', this⟩

theorem hllT_range : hllT.minLgK = 4 ∧ hllT.maxLgK = DSGen.Bounds.hllMaxLgK := ⟨(rse_facts (K := ℚ)).2.2.2.2.2.2, rfl⟩

/-- lower-bound relative error: ≥ 0 and increasing in the number of standard deviations -/
theorem relErrLb_facts (hF : F.OK) (ooo : Bool) (lgK sd : Nat) (h1 : 1 ≤ sd) (h3 : sd ≤ 3) (r : K)
    (h : @hllRelErr K (fieldNum F) hllT false ooo lgK sd = some r) :
    0 ≤ r ∧ ∀ r', sd < 3 → @hllRelErr K (fieldNum F) hllT false ooo lgK (sd + 1) = some r' → r ≤ r' := by
  obtain ⟨f1, f2, f3, f4, _, _, fmin⟩ := rse_facts (K := K)
  unfold hllRelErr at h
  simp only [nat_eq, lit_eq, tget_eq, Bool.false_eq_true, if_false, Nat.cast_one] at h
  split at h
  · simp at h
  rename_i hr
  by_cases hb : lgK > 12
  · simp only [hb, if_true, Option.some.injEq] at h
    have hc : (0 : K) < litK (if ooo = true then hllT.nonHipRse else hllT.hipRse) := by cases ooo <;> simpa
    have hc3 : (3 * litK (if ooo = true then hllT.nonHipRse else hllT.hipRse)) * (3 * litK (if ooo = true then hllT.nonHipRse else hllT.hipRse))
        < (((2 ^ 13 : Nat)) : K) := by cases ooo <;> simpa
    obtain ⟨g1, _, g3⟩ := ratio_facts F hF lgK 13 (by omega) _ hc hc3 sd h3
    rw [one_mul] at h
    subst h
    refine ⟨g1, ?_⟩
    intro r' _ h'
    unfold hllRelErr at h'
    simp only [nat_eq, lit_eq, Bool.false_eq_true, if_false, Nat.cast_one, hr, hb, if_true, Option.some.injEq, one_mul] at h'
    subst h'
    exact g3
  · simp only [hb, if_false, Option.some.injEq] at h
    have hlo : 4 ≤ lgK := by have := fmin; omega
    have hrow := (Gen.relErr_signed_monotone.2 (lgK - 4) (by omega))
    simp only [Bool.and_eq_true] at hrow
    obtain ⟨⟨⟨q1, q2⟩, _⟩, _⟩ := hrow
    have e : (lgK - 4) * 3 = 3 * (lgK - 4) := by omega
    rw [e] at h
    have hsd : sd = 1 ∨ sd = 2 ∨ sd = 3 := by omega
    cases ooo
    · obtain ⟨a0, a1, a2⟩ := rowLb_facts (K := K) q1
      simp only at h
      rcases hsd with rfl | rfl | rfl
      · simp only [Nat.sub_self, Nat.add_zero] at h; subst h
        refine ⟨le_of_lt a0, ?_⟩
        intro r' _ h'
        unfold hllRelErr at h'
        simp only [tget_eq, hr, hb, if_false, Option.some.injEq, e] at h'
        subst h'; exact le_of_lt a1
      · simp only [Nat.add_one_sub_one] at h; subst h
        refine ⟨le_of_lt (lt_trans a0 a1), ?_⟩
        intro r' _ h'
        unfold hllRelErr at h'
        simp only [tget_eq, hr, hb, if_false, Option.some.injEq, e] at h'
        subst h'; exact le_of_lt a2
      · exact ⟨by simp only [Nat.add_one_sub_one] at h; subst h; exact le_of_lt (lt_trans a0 (lt_trans a1 a2)), fun _ hh _ => by omega⟩
    · obtain ⟨a0, a1, a2⟩ := rowLb_facts (K := K) q2
      simp only at h
      rcases hsd with rfl | rfl | rfl
      · simp only [Nat.sub_self, Nat.add_zero] at h; subst h
        refine ⟨le_of_lt a0, ?_⟩
        intro r' _ h'
        unfold hllRelErr at h'
        simp only [tget_eq, hr, hb, if_false, Option.some.injEq, e] at h'
        subst h'; exact le_of_lt a1
      · simp only [Nat.add_one_sub_one] at h; subst h
        refine ⟨le_of_lt (lt_trans a0 a1), ?_⟩
        intro r' _ h'
        unfold hllRelErr at h'
        simp only [tget_eq, hr, hb, if_false, Option.some.injEq, e] at h'
        subst h'; exact le_of_lt a2
      · exact ⟨by simp only [Nat.add_one_sub_one] at h; subst h; exact le_of_lt (lt_trans a0 (lt_trans a1 a2)), fun _ hh _ => by omega⟩

/-- upper-bound relative error: in (−1, 0] and decreasing in the number of standard deviations -/
theorem relErrUb_facts (hF : F.OK) (ooo : Bool) (lgK sd : Nat) (h1 : 1 ≤ sd) (h3 : sd ≤ 3) (r : K)
    (h : @hllRelErr K (fieldNum F) hllT true ooo lgK sd = some r) :
    -1 < r ∧ r ≤ 0 ∧ ∀ r', sd < 3 → @hllRelErr K (fieldNum F) hllT true ooo lgK (sd + 1) = some r' → r' ≤ r := by
  obtain ⟨f1, f2, f3, f4, _, _, fmin⟩ := rse_facts (K := K)
  unfold hllRelErr at h
  simp only [nat_eq, lit_eq, tget_eq, if_true, Nat.cast_one] at h
  split at h
  · simp at h
  rename_i hr
  by_cases hb : lgK > 12
  · simp only [hb, if_true, Option.some.injEq] at h
    have hc : (0 : K) < litK (if ooo = true then hllT.nonHipRse else hllT.hipRse) := by cases ooo <;> simpa
    have hc3 : (3 * litK (if ooo = true then hllT.nonHipRse else hllT.hipRse)) * (3 * litK (if ooo = true then hllT.nonHipRse else hllT.hipRse))
        < (((2 ^ 13 : Nat)) : K) := by cases ooo <;> simpa
    obtain ⟨g1, g2, g3⟩ := ratio_facts F hF lgK 13 (by omega) _ hc hc3 sd h3
    rw [neg_one_mul, neg_div, sqrt_eq] at h
    subst h
    refine ⟨by linarith, by linarith, ?_⟩
    intro r' _ h'
    unfold hllRelErr at h'
    simp only [nat_eq, lit_eq, if_true, Nat.cast_one, hr, hb, if_false, Option.some.injEq, neg_one_mul, neg_div, sqrt_eq] at h'
    subst h'
    linarith
  · simp only [hb, if_false, Option.some.injEq] at h
    have hlo : 4 ≤ lgK := by have := fmin; omega
    have hrow := (Gen.relErr_signed_monotone.2 (lgK - 4) (by omega))
    simp only [Bool.and_eq_true] at hrow
    obtain ⟨⟨⟨_, _⟩, q1⟩, q2⟩ := hrow
    have e : (lgK - 4) * 3 = 3 * (lgK - 4) := by omega
    rw [e] at h
    have hsd : sd = 1 ∨ sd = 2 ∨ sd = 3 := by omega
    have eT1 : hllT.relErrHipUb = DSGen.Bounds.relErrHipUb := rfl
    have eT2 : hllT.relErrNonHipUb = DSGen.Bounds.relErrNonHipUb := rfl
    cases ooo
    · obtain ⟨a0, a1, a2, a3⟩ := rowUb_facts (K := K) q1
      simp only [eT1, eT2] at h
      rcases hsd with rfl | rfl | rfl
      · simp only [Nat.sub_self, Nat.add_zero] at h; subst h
        refine ⟨by linarith, le_of_lt a0, ?_⟩
        intro r' _ h'
        unfold hllRelErr at h'
        simp only [tget_eq, hr, hb, if_false, Option.some.injEq, e, eT1, eT2] at h'
        subst h'; exact le_of_lt a1
      · simp only [Nat.add_one_sub_one] at h; subst h
        refine ⟨by linarith, by linarith, ?_⟩
        intro r' _ h'
        unfold hllRelErr at h'
        simp only [tget_eq, hr, hb, if_false, Option.some.injEq, e, eT1, eT2] at h'
        subst h'; exact le_of_lt a2
      · simp only [Nat.add_one_sub_one] at h; subst h
        exact ⟨a3, by linarith, fun _ hh _ => by omega⟩
    · obtain ⟨a0, a1, a2, a3⟩ := rowUb_facts (K := K) q2
      simp only [eT1, eT2] at h
      rcases hsd with rfl | rfl | rfl
      · simp only [Nat.sub_self, Nat.add_zero] at h; subst h
        refine ⟨by linarith, le_of_lt a0, ?_⟩
        intro r' _ h'
        unfold hllRelErr at h'
        simp only [tget_eq, hr, hb, if_false, Option.some.injEq, e, eT1, eT2] at h'
        subst h'; exact le_of_lt a1
      · simp only [Nat.add_one_sub_one] at h; subst h
        refine ⟨by linarith, by linarith, ?_⟩
        intro r' _ h'
        unfold hllRelErr at h'
        simp only [tget_eq, hr, hb, if_false, Option.some.injEq, e, eT1, eT2] at h'
        subst h'; exact le_of_lt a2
      · simp only [Nat.add_one_sub_one] at h; subst h
        exact ⟨a3, by linarith, fun _ hh _ => by omega⟩

/-! ### HLL-mode bounds -/

theorem sdOk_iff (sd : Nat) : sdOk sd = true ↔ 1 ≤ sd ∧ sd ≤ 3 := by
  unfold sdOk; simp

/-- lb ≤ est ≤ ub for an HLL-mode state, given est ≥ 0 and (number of non-zero registers) ≤ est -/
theorem hll_order (hF : F.OK) (s : HllReg K) (sd : Nat) (e lb ub : K)
    (he : @hllEstimate K (fieldNum F) hllT s = some e) (h0 : 0 ≤ e) (hnz : ((numNonZeros s : Nat) : K) ≤ e)
    (hl : @hllLowerBound K (fieldNum F) hllT s sd = some lb) (hu : @hllUpperBound K (fieldNum F) hllT s sd = some ub) :
    lb ≤ e ∧ e ≤ ub := by
  unfold hllLowerBound at hl
  unfold hllUpperBound at hu
  by_cases hs : sdOk sd = true
  · obtain ⟨s1, s3⟩ := (sdOk_iff sd).mp hs
    simp only [hs, Bool.not_true, Bool.false_eq_true, if_false, he] at hl hu
    constructor
    · cases hre : @hllRelErr K (fieldNum F) hllT false s.ooo s.lgK sd with
      | none => simp [hre] at hl
      | some re =>
        simp only [hre, Option.some.injEq, lit_eq, litK_c1, nat_eq] at hl
        obtain ⟨g0, _⟩ := relErrLb_facts F hF s.ooo s.lgK sd s1 s3 re hre
        subst hl
        apply max_le _ hnz
        rw [div_le_iff₀ (by linarith)]
        nlinarith
    · cases hre : @hllRelErr K (fieldNum F) hllT true s.ooo s.lgK sd with
      | none => simp [hre] at hu
      | some re =>
        simp only [hre, Option.some.injEq, lit_eq, litK_c1] at hu
        obtain ⟨g0, g1, _⟩ := relErrUb_facts F hF s.ooo s.lgK sd s1 s3 re hre
        subst hu
        rw [le_div_iff₀ (by linarith)]
        nlinarith
  · simp [hs] at hl

/-- lb antitone, ub monotone in the number of standard deviations (any HLL-mode state with est ≥ 0) -/
theorem hll_mono (hF : F.OK) (s : HllReg K) (sd : Nat) (hsd : sd < 3) (e lb ub lb' ub' : K)
    (he : @hllEstimate K (fieldNum F) hllT s = some e) (h0 : 0 ≤ e)
    (hl : @hllLowerBound K (fieldNum F) hllT s sd = some lb) (hu : @hllUpperBound K (fieldNum F) hllT s sd = some ub)
    (hl' : @hllLowerBound K (fieldNum F) hllT s (sd + 1) = some lb') (hu' : @hllUpperBound K (fieldNum F) hllT s (sd + 1) = some ub') :
    lb' ≤ lb ∧ ub ≤ ub' := by
  unfold hllLowerBound at hl hl'
  unfold hllUpperBound at hu hu'
  by_cases hs : sdOk sd = true
  · obtain ⟨s1, s3⟩ := (sdOk_iff sd).mp hs
    have hs' : sdOk (sd + 1) = true := (sdOk_iff _).mpr ⟨by omega, by omega⟩
    simp only [hs, hs', Bool.not_true, Bool.false_eq_true, if_false, he] at hl hu hl' hu'
    constructor
    · cases hre : @hllRelErr K (fieldNum F) hllT false s.ooo s.lgK sd with
      | none => simp [hre] at hl
      | some re =>
        cases hre' : @hllRelErr K (fieldNum F) hllT false s.ooo s.lgK (sd + 1) with
        | none => simp [hre'] at hl'
        | some re' =>
          simp only [hre, hre', Option.some.injEq, lit_eq, litK_c1, nat_eq] at hl hl'
          obtain ⟨g0, g1⟩ := relErrLb_facts F hF s.ooo s.lgK sd s1 s3 re hre
          have g2 := g1 re' hsd hre'
          subst hl; subst hl'
          apply max_le_max _ (le_refl _)
          exact div_le_div_of_nonneg_left h0 (by linarith) (by linarith)
    · cases hre : @hllRelErr K (fieldNum F) hllT true s.ooo s.lgK sd with
      | none => simp [hre] at hu
      | some re =>
        cases hre' : @hllRelErr K (fieldNum F) hllT true s.ooo s.lgK (sd + 1) with
        | none => simp [hre'] at hu'
        | some re' =>
          simp only [hre, hre', Option.some.injEq, lit_eq, litK_c1] at hu hu'
          obtain ⟨g0, g1, g2⟩ := relErrUb_facts F hF s.ooo s.lgK sd s1 s3 re hre
          obtain ⟨g0', _, _⟩ := relErrUb_facts F hF s.ooo s.lgK (sd + 1) (by omega) (by omega) re' hre'
          have g3 := g2 re' hsd hre'
          subst hu; subst hu'
          exact div_le_div_of_nonneg_left h0 (by linarith) (by linarith)
  · simp [hs] at hl

/-! ### coupon (LIST / SET) mode -/

/-- coupon-mode bounds: coupon count ≤ lb ≤ est ≤ ub (unconditionally), and monotone in the number of std devs -/
theorem coupon_order (count sd : Nat) (e lb ub : K)
    (he : @couponEstimate K (fieldNum F) hllT count = some e)
    (hl : @couponLowerBound K (fieldNum F) hllT count sd = some lb) (hu : @couponUpperBound K (fieldNum F) hllT count sd = some ub) :
    (count : K) ≤ lb ∧ lb ≤ e ∧ e ≤ ub := by
  obtain ⟨_, _, _, _, c0, c3, _⟩ := rse_facts (K := K)
  unfold couponEstimate at he
  unfold couponLowerBound at hl
  unfold couponUpperBound at hu
  by_cases hs : sdOk sd = true
  · obtain ⟨s1, s3⟩ := (sdOk_iff sd).mp hs
    simp only [hs, Bool.not_true, Bool.false_eq_true, if_false, Option.map_eq_some_iff, nat_eq, lit_eq, litK_c1] at he hl hu
    obtain ⟨x, hx, rfl⟩ := he
    obtain ⟨x1, hx1, rfl⟩ := hl
    obtain ⟨x2, hx2, rfl⟩ := hu
    rw [hx] at hx1 hx2
    simp only [Option.some.injEq] at hx1 hx2
    subst hx1; subst hx2
    have hcn : (0 : K) ≤ count := Nat.cast_nonneg count
    have hsd1 : (1 : K) ≤ sd := by exact_mod_cast s1
    have hsd3 : (sd : K) ≤ 3 := by exact_mod_cast s3
    have hp : 0 < (sd : K) * litK hllT.couponRse := by positivity
    have hq : (sd : K) * litK hllT.couponRse < 1 := by nlinarith
    refine ⟨le_max_right _ _, ?_, ?_⟩
    · apply max_le _ (le_max_right _ _)
      rcases le_or_gt 0 x with hx0 | hx0
      · apply le_trans _ (le_max_left _ _)
        rw [div_le_iff₀ (by linarith)]
        nlinarith
      · apply le_trans _ (le_max_right _ _)
        apply le_trans _ hcn
        apply le_of_lt
        exact div_neg_of_neg_of_pos hx0 (by linarith)
    · apply max_le _ (le_max_right _ _)
      rcases le_or_gt 0 x with hx0 | hx0
      · apply le_trans _ (le_max_left _ _)
        rw [le_div_iff₀ (by linarith)]
        nlinarith
      · exact le_trans (le_of_lt hx0) (le_trans hcn (le_max_right _ _))
  · simp [hs] at hl

theorem coupon_mono (count sd : Nat) (hsd : sd < 3) (lb ub lb' ub' : K)
    (hl : @couponLowerBound K (fieldNum F) hllT count sd = some lb) (hu : @couponUpperBound K (fieldNum F) hllT count sd = some ub)
    (hl' : @couponLowerBound K (fieldNum F) hllT count (sd + 1) = some lb')
    (hu' : @couponUpperBound K (fieldNum F) hllT count (sd + 1) = some ub') :
    lb' ≤ lb ∧ ub ≤ ub' := by
  obtain ⟨_, _, _, _, c0, c3, _⟩ := rse_facts (K := K)
  unfold couponLowerBound at hl hl'
  unfold couponUpperBound at hu hu'
  by_cases hs : sdOk sd = true
  · obtain ⟨s1, s3⟩ := (sdOk_iff sd).mp hs
    have hs' : sdOk (sd + 1) = true := (sdOk_iff _).mpr ⟨by omega, by omega⟩
    simp only [hs, hs', Bool.not_true, Bool.false_eq_true, if_false, Option.map_eq_some_iff, nat_eq, lit_eq, litK_c1] at hl hu hl' hu'
    obtain ⟨x, hx, rfl⟩ := hl
    obtain ⟨x1, hx1, rfl⟩ := hl'
    obtain ⟨x2, hx2, rfl⟩ := hu
    obtain ⟨x3, hx3, rfl⟩ := hu'
    rw [hx] at hx1 hx2 hx3
    simp only [Option.some.injEq] at hx1 hx2 hx3
    subst hx1; subst hx2; subst hx3
    have hcn : (0 : K) ≤ count := Nat.cast_nonneg count
    have hsd1 : (1 : K) ≤ sd := by exact_mod_cast s1
    have hsd3 : ((sd + 1 : Nat) : K) ≤ 3 := by exact_mod_cast (show sd + 1 ≤ 3 by omega)
    have hstep : (sd : K) * litK hllT.couponRse ≤ ((sd + 1 : Nat) : K) * litK hllT.couponRse := by push_cast; nlinarith
    have hp : 0 < (sd : K) * litK hllT.couponRse := by positivity
    have hq : ((sd + 1 : Nat) : K) * litK hllT.couponRse < 1 := by nlinarith
    rcases le_or_gt 0 x with hx0 | hx0
    · constructor
      · exact max_le_max (div_le_div_of_nonneg_left hx0 (by linarith) (by linarith)) (le_refl _)
      · exact max_le_max (div_le_div_of_nonneg_left hx0 (by linarith) (by linarith)) (le_refl _)
    · -- a negative interpolated value never wins against the coupon count
      have n1 : x / (1 + (sd : K) * litK hllT.couponRse) < 0 := div_neg_of_neg_of_pos hx0 (by linarith)
      have n2 : x / (1 + ((sd + 1 : Nat) : K) * litK hllT.couponRse) < 0 := div_neg_of_neg_of_pos hx0 (by linarith)
      have n3 : x / (1 - (sd : K) * litK hllT.couponRse) < 0 := div_neg_of_neg_of_pos hx0 (by linarith)
      have n4 : x / (1 - ((sd + 1 : Nat) : K) * litK hllT.couponRse) < 0 := div_neg_of_neg_of_pos hx0 (by linarith)
      simp only [fmax_eq]
      rw [max_eq_right (le_trans (le_of_lt n1) hcn), max_eq_right (le_trans (le_of_lt n2) hcn),
        max_eq_right (le_trans (le_of_lt n3) hcn), max_eq_right (le_trans (le_of_lt n4) hcn)]
      exact ⟨le_refl _, le_refl _⟩
  · simp [hs] at hl

end DS.Bounds

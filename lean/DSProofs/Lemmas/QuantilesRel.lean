/-
The relation between a classic quantiles sketch and the list of items it has accepted:
`RelC` (count, no NaN, base buffer ⊆ items, exact mode holds exactly the items) needs nothing of the comparator;
`RelM` (min / max are extremes of the items) needs a strict weak order.  Both satisfy the closure interface `RelOK`
of Lemmas/QuantilesMerge.lean.
-/
import DSProofs.Lemmas.QuantilesMerge
namespace DS.Quantiles

variable {α : Type}

structure RelC (c : Cmp α) (s : Sketch α) (items : List α) : Prop where
  len : s.n = items.length
  ok : ∀ x ∈ items, c.nan x = false
  sub : ∀ x ∈ s.bb, x ∈ items
  exact : s.bits = 0 → s.bb.Perm items

def MinRel (lt : α → α → Bool) : Option α → List α → Prop
  | none, items => items = []
  | some a, items => a ∈ items ∧ ∀ x ∈ items, lt x a = false

def MaxRel (lt : α → α → Bool) : Option α → List α → Prop
  | none, items => items = []
  | some a, items => a ∈ items ∧ ∀ x ∈ items, lt a x = false

structure RelM (c : Cmp α) (s : Sketch α) (items : List α) : Prop where
  mn : MinRel c.lt s.minItem items
  mx : MaxRel c.lt s.maxItem items

theorem relC_ok (c : Cmp α) (S : List α → Prop) : RelOK c S (RelC c) where
  upd := by
    intro s items x s' _ hr hx hp
    obtain ⟨_, _, hn, _, _, hcase⟩ := hp
    refine ⟨by rw [hn, hr.len]; simp, ?_, ?_, ?_⟩
    · intro y hy
      rcases List.mem_append.mp hy with h | h
      · exact hr.ok y h
      · simp at h; rw [h]; exact hx
    · intro y hy
      rcases hcase with ⟨hb, _, _⟩ | ⟨hb, _⟩
      · rw [hb] at hy
        rcases List.mem_append.mp hy with h | h
        · exact List.mem_append_left _ (hr.sub y h)
        · exact List.mem_append_right _ h
      · rw [hb] at hy; simp at hy
    · intro hb0
      rcases hcase with ⟨hb, hbits, _⟩ | ⟨_, hbits⟩
      · rw [hb]; exact List.Perm.append_right [x] (hr.exact (by rw [← hbits]; exact hb0))
      · omega
  perm := by
    intro s items items' hr hp
    exact ⟨by rw [hr.len, hp.length_eq], fun x hx => hr.ok x (hp.mem_iff.mpr hx),
      fun x hx => hp.mem_iff.mp (hr.sub x hx), fun hb => (hr.exact hb).trans hp⟩
  len := fun _ _ hr => hr.len
  bb := fun _ _ _ hr hb => hr.exact hb
  lm := by
    intro t1 r src it is factor h1 hs _ _ hf
    obtain ⟨_, hbb, hn, hbits, hfpos, _, _, _⟩ := hf
    refine ⟨?_, ?_, ?_, ?_⟩
    · have a := h1.len; have b := hs.len
      simp only [List.length_append] at a ⊢
      omega
    · intro x hx
      rcases List.mem_append.mp hx with h | h
      · exact h1.ok x (List.mem_append_left _ h)
      · exact hs.ok x h
    · intro x hx
      rw [hbb] at hx
      rcases List.mem_append.mp (h1.sub x hx) with h | h
      · exact List.mem_append_left _ h
      · exact List.mem_append_right _ (hs.sub x h)
    · intro hb0
      have h1b : t1.bits = 0 := by omega
      have hsb : src.bits = 0 := by
        have : src.bits * factor = 0 := by omega
        rcases Nat.mul_eq_zero.mp this with h | h
        · exact h
        · omega
      rw [hbb]
      exact (h1.exact h1b).trans (List.Perm.append_left it (hs.exact hsb))
  sortbb := by
    intro s items hr
    obtain ⟨_, hn, hb, _, _, _, hp⟩ := sortBB_fields c s
    exact ⟨by rw [hn]; exact hr.len, hr.ok, fun x hx => hr.sub x (hp.mem_iff.mp hx),
      fun h0 => hp.trans (hr.exact (by rw [← hb]; exact h0))⟩
  new := fun k => ⟨rfl, by simp, by simp [Sketch.new], fun _ => by simp [Sketch.new]⟩

theorem minRel_perm {lt : α → α → Bool} {m : Option α} {a b : List α} (h : MinRel lt m a) (hp : a.Perm b) :
    MinRel lt m b := by
  cases m with
  | none => simp only [MinRel] at h ⊢; subst h; exact hp.symm.eq_nil
  | some x => exact ⟨hp.mem_iff.mp h.1, fun y hy => h.2 y (hp.mem_iff.mpr hy)⟩

theorem maxRel_perm {lt : α → α → Bool} {m : Option α} {a b : List α} (h : MaxRel lt m a) (hp : a.Perm b) :
    MaxRel lt m b := by
  cases m with
  | none => simp only [MaxRel] at h ⊢; subst h; exact hp.symm.eq_nil
  | some x => exact ⟨hp.mem_iff.mp h.1, fun y hy => h.2 y (hp.mem_iff.mpr hy)⟩

theorem minRel_update {lt : α → α → Bool} (h : SWO lt) {s : Sketch α} {items : List α} (x : α)
    (hn : s.n = items.length) (hm : MinRel lt s.minItem items) : MinRel lt (newMin lt s x) (items ++ [x]) := by
  unfold newMin
  by_cases h0 : s.n = 0
  · have : items = [] := List.eq_nil_of_length_eq_zero (by omega)
    subst this
    simp only [h0, if_true, List.nil_append]
    exact ⟨by simp, fun y hy => by simp at hy; rw [hy]; exact h.irrefl x⟩
  · simp only [h0, if_false]
    cases hmi : s.minItem with
    | none =>
      rw [hmi] at hm; simp only [MinRel] at hm
      rw [hm] at hn; simp at hn; omega
    | some a =>
      rw [hmi] at hm
      obtain ⟨ha, hlow⟩ := hm
      simp only [Option.map]
      by_cases hxa : lt x a = true
      · simp only [hxa, if_true]
        refine ⟨by simp, ?_⟩
        intro y hy
        rcases List.mem_append.mp hy with hy | hy
        · cases hyx : lt y x with
          | false => rfl
          | true => have := h.trans y x a hyx hxa; rw [hlow y hy] at this; exact absurd this (by simp)
        · simp at hy; rw [hy]; exact h.irrefl x
      · have hxa' : lt x a = false := by simpa using hxa
        simp only [hxa', Bool.false_eq_true, if_false]
        refine ⟨List.mem_append_left _ ha, ?_⟩
        intro y hy
        rcases List.mem_append.mp hy with hy | hy
        · exact hlow y hy
        · simp at hy; rw [hy]; exact hxa'

theorem maxRel_update {lt : α → α → Bool} (h : SWO lt) {s : Sketch α} {items : List α} (x : α)
    (hn : s.n = items.length) (hm : MaxRel lt s.maxItem items) : MaxRel lt (newMax lt s x) (items ++ [x]) := by
  unfold newMax
  by_cases h0 : s.n = 0
  · have : items = [] := List.eq_nil_of_length_eq_zero (by omega)
    subst this
    simp only [h0, if_true, List.nil_append]
    exact ⟨by simp, fun y hy => by simp at hy; rw [hy]; exact h.irrefl x⟩
  · simp only [h0, if_false]
    cases hmi : s.maxItem with
    | none =>
      rw [hmi] at hm; simp only [MaxRel] at hm
      rw [hm] at hn; simp at hn; omega
    | some a =>
      rw [hmi] at hm
      obtain ⟨ha, hup⟩ := hm
      simp only [Option.map]
      by_cases hax : lt a x = true
      · simp only [hax, if_true]
        refine ⟨by simp, ?_⟩
        intro y hy
        rcases List.mem_append.mp hy with hy | hy
        · cases hxy : lt x y with
          | false => rfl
          | true => have := h.trans a x y hax hxy; rw [hup y hy] at this; exact absurd this (by simp)
        · simp at hy; rw [hy]; exact h.irrefl x
      · have hax' : lt a x = false := by simpa using hax
        simp only [hax', Bool.false_eq_true, if_false]
        refine ⟨List.mem_append_left _ ha, ?_⟩
        intro y hy
        rcases List.mem_append.mp hy with hy | hy
        · exact hup y hy
        · simp at hy; rw [hy]; exact hax'

/-- the min/max tail of a level merge: `bb ⊆ is` is the source's base buffer inside the source's items -/
theorem minRel_merge {lt : α → α → Bool} (h : SWO lt) {a b : Option α} {it is bb : List α}
    (ha : MinRel lt a (it ++ bb)) (hb : MinRel lt b is) (hsub : ∀ x ∈ bb, x ∈ is) :
    MinRel lt (mergeMin lt a b) (it ++ is) := by
  cases a with
  | none =>
    simp only [MinRel] at ha
    have hit : it = [] := (List.append_eq_nil_iff.mp ha).1
    subst hit
    simpa [mergeMin] using hb
  | some x =>
    obtain ⟨hx, hxl⟩ := ha
    have hxmem : x ∈ it ++ is := by
      rcases List.mem_append.mp hx with h' | h'
      · exact List.mem_append_left _ h'
      · exact List.mem_append_right _ (hsub x h')
    cases b with
    | none =>
      simp only [MinRel] at hb
      subst hb
      simp only [mergeMin, List.append_nil]
      exact ⟨by simpa using hxmem, fun y hy => hxl y (List.mem_append_left _ hy)⟩
    | some y =>
      obtain ⟨hy, hyl⟩ := hb
      simp only [mergeMin]
      by_cases hyx : lt y x = true
      · simp only [hyx, if_true]
        refine ⟨List.mem_append_right _ hy, ?_⟩
        intro z hz
        rcases List.mem_append.mp hz with hz | hz
        · cases hzy : lt z y with
          | false => rfl
          | true =>
            have := h.trans z y x hzy hyx
            rw [hxl z (List.mem_append_left _ hz)] at this
            exact absurd this (by simp)
        · exact hyl z hz
      · have hyx' : lt y x = false := by simpa using hyx
        simp only [hyx', Bool.false_eq_true, if_false]
        refine ⟨hxmem, ?_⟩
        intro z hz
        rcases List.mem_append.mp hz with hz | hz
        · exact hxl z (List.mem_append_left _ hz)
        · exact h.ntrans z y x (hyl z hz) hyx'

theorem maxRel_merge {lt : α → α → Bool} (h : SWO lt) {a b : Option α} {it is bb : List α}
    (ha : MaxRel lt a (it ++ bb)) (hb : MaxRel lt b is) (hsub : ∀ x ∈ bb, x ∈ is) :
    MaxRel lt (mergeMax lt a b) (it ++ is) := by
  cases a with
  | none =>
    simp only [MaxRel] at ha
    have hit : it = [] := (List.append_eq_nil_iff.mp ha).1
    subst hit
    simpa [mergeMax] using hb
  | some x =>
    obtain ⟨hx, hxl⟩ := ha
    have hxmem : x ∈ it ++ is := by
      rcases List.mem_append.mp hx with h' | h'
      · exact List.mem_append_left _ h'
      · exact List.mem_append_right _ (hsub x h')
    cases b with
    | none =>
      simp only [MaxRel] at hb
      subst hb
      simp only [mergeMax, List.append_nil]
      exact ⟨by simpa using hxmem, fun y hy => hxl y (List.mem_append_left _ hy)⟩
    | some y =>
      obtain ⟨hy, hyl⟩ := hb
      simp only [mergeMax]
      by_cases hxy : lt x y = true
      · simp only [hxy, if_true]
        refine ⟨List.mem_append_right _ hy, ?_⟩
        intro z hz
        rcases List.mem_append.mp hz with hz | hz
        · cases hyz : lt y z with
          | false => rfl
          | true =>
            have := h.trans x y z hxy hyz
            rw [hxl z (List.mem_append_left _ hz)] at this
            exact absurd this (by simp)
        · exact hyl z hz
      · have hxy' : lt x y = false := by simpa using hxy
        simp only [hxy', Bool.false_eq_true, if_false]
        refine ⟨hxmem, ?_⟩
        intro z hz
        rcases List.mem_append.mp hz with hz | hz
        · exact hxl z (List.mem_append_left _ hz)
        · exact h.ntrans x y z hxy' (hyl z hz)

/-- count/content and min/max together -/
def Rel (c : Cmp α) (s : Sketch α) (items : List α) : Prop := RelC c s items ∧ RelM c s items

theorem rel_ok (c : Cmp α) (S : List α → Prop) (h : SWO c.lt) : RelOK c S (Rel c) where
  upd := by
    intro s items x s' hi hr hx hp
    refine ⟨(relC_ok c S).upd s items x s' hi hr.1 hx hp, ?_, ?_⟩
    · rw [hp.2.2.2.1]; exact minRel_update h x hr.1.len hr.2.mn
    · rw [hp.2.2.2.2.1]; exact maxRel_update h x hr.1.len hr.2.mx
  perm := fun s a b hr hp => ⟨(relC_ok c S).perm s a b hr.1 hp, minRel_perm hr.2.mn hp, maxRel_perm hr.2.mx hp⟩
  len := fun _ _ hr => hr.1.len
  bb := fun _ _ _ hr hb => hr.1.exact hb
  lm := by
    intro t1 r src it is factor h1 hs hsi hti hf
    refine ⟨(relC_ok c S).lm t1 r src it is factor h1.1 hs.1 hsi hti hf, ?_, ?_⟩
    · rw [hf.2.2.2.2.2.1]; exact minRel_merge h h1.2.mn hs.2.mn hs.1.sub
    · rw [hf.2.2.2.2.2.2.1]; exact maxRel_merge h h1.2.mx hs.2.mx hs.1.sub
  sortbb := by
    intro s items hr
    obtain ⟨_, _, _, _, hmn, hmx, _⟩ := sortBB_fields c s
    exact ⟨(relC_ok c S).sortbb s items hr.1, by rw [hmn]; exact hr.2.mn, by rw [hmx]; exact hr.2.mx⟩
  new := fun k => ⟨(relC_ok c S).new k, by simp [Sketch.new, MinRel], by simp [Sketch.new, MaxRel]⟩

end DS.Quantiles

/- The reserved information-free tail of HLL images and the behaviour of the lenient reader on prefixes (C11). -/
import DSProofs.Lemmas.WireHllSize

namespace DS.Wire.Hll
open DS.Wire DS.Wire.Reader

theorem wU32s_zeros : ∀ n : Nat, ∀ x ∈ wU32s (List.replicate n 0), x = 0
  | 0, x, hx => by simp [wU32s] at hx
  | n + 1, x, hx => by
    simp only [List.replicate_succ, wU32s, List.mem_append] at hx
    rcases hx with h | h
    · simp [w32, wLe] at h; exact h
    · exact wU32s_zeros n x h

/-- every well-formed image is its information-carrying part followed by zero padding -/
theorem encode_split (c : Consts) (s : Img) (hw : s.WF c) :
    ∃ pad, encode c s = encodeG c true s ++ pad ∧ (∀ x ∈ pad, x = 0) ∧ (encodeG c true s).length = coreSize c s := by
  cases s with
  | list s =>
    obtain ⟨_, _, _, hl, _, _, hemp, hdrop⟩ := hw
    by_cases hp : listPad c s.h = true
    · have he : s.h.emptyFlag c = true := by
        simp only [listPad, Bool.and_eq_true] at hp; exact hp.2
      have hb6 : s.h.b6 = 0 := by rw [he] at hemp; simpa using hemp.symm
      have hc : s.coupons = List.replicate (listLen c s.h) 0 := by
        have := hdrop; rw [hb6] at this; simpa [hl] using this
      refine ⟨wU32s s.coupons, ?_, ?_, ?_⟩
      · simp [encode, encodeList, encodeG, encodeListG, hp]
      · rw [hc]; exact wU32s_zeros _
      · simp [encodeG, encodeListG, hp, coreSize, length_encodeHdr]
    · have hp' : listPad c s.h = false := by simpa using hp
      refine ⟨[], ?_, by simp, ?_⟩
      · simp [encode, encodeList, encodeG, encodeListG, hp']
      · simp [encodeG, encodeListG, hp', coreSize, length_encodeHdr, length_wU32s, listSize, hl]
  | set s =>
    obtain ⟨⟨_, _, _, _, _, hl, _⟩, _⟩ := hw
    refine ⟨[], by simp [encode, encodeG], by simp, ?_⟩
    simp [encodeG, encodeSet, coreSize, length_encodeHdr, length_wU32s, setSize, hl, w32, length_wLe]; omega
  | hll s =>
    obtain ⟨_, _, _, _, _, _, _, _, _, hrl, hal, _, hac, _, _, _⟩ := hw
    by_cases hp : hllPad c s.h s.auxCount = true
    · have h0 : s.auxCount = 0 := by
        simp only [hllPad, Bool.and_eq_true, beq_iff_eq] at hp; exact hp.2
      have hz : s.aux = List.replicate (auxLen c s.h s.auxCount) 0 := by
        have := filter_ne_zero_nil_replicate s.aux (by rw [← HllImg.auxNonzero, ← hac, h0])
        rw [hal] at this; exact this
      refine ⟨wU32s s.aux, ?_, ?_, ?_⟩
      · simp [encode, encodeHll, encodeG, hllTailG, hp]
      · rw [hz]; exact wU32s_zeros _
      · simp [encodeG, hllTailG, hp, coreSize, length_encodeHdr, w64, w32, length_wLe, hrl]; omega
    · have hp' : hllPad c s.h s.auxCount = false := by simpa using hp
      refine ⟨[], ?_, by simp, ?_⟩
      · simp [encode, encodeHll, encodeG, hllTailG, hp']
      · simp [encodeG, hllTailG, hp', coreSize, length_encodeHdr, w64, w32, length_wLe, length_wU32s, hllSize, hrl, hal]
        omega

theorem core_prefix_of_WF (c : Consts) (hc : c.ok = true) (s : Img) (hw : s.WF c) (n : Nat)
    (hn : n < (encode c s).length) :
    (n < coreSize c s ∧ decodeCore c ((encode c s).take n) = none) ∨
    (isPadding c s n = true ∧ ∃ r, decodeCore c ((encode c s).take n) = some (s, r) ∧ ∀ x ∈ r, x = 0) := by
  obtain ⟨pad, hsplit, hzero, hlen⟩ := encode_split c s hw
  have hd : decodeCore c (encode c s) = some (s, pad) := by
    rw [hsplit]; exact decodeG_encodeG c hc true s hw pad
  obtain ⟨k, hk, hr, hlt, hge⟩ := PS_decodeG c true _ _ _ hd
  have hlenE : (encode c s).length = coreSize c s + pad.length := by
    rw [hsplit, List.length_append, hlen]
  have hk' : k = coreSize c s := by
    have := congrArg List.length hr
    simp only [List.length_drop] at this
    omega
  subst hk'
  by_cases hnk : n < coreSize c s
  · exact Or.inl ⟨hnk, hlt n hnk⟩
  · right
    have hsz := size_eq_of_WF c s hw
    refine ⟨by simp [isPadding]; omega, _, hge n (by omega), ?_⟩
    intro x hx
    rw [List.drop_take] at hx
    have hx' := List.mem_of_mem_take hx
    rw [← hr] at hx'
    exact hzero x hx'

end DS.Wire.Hll

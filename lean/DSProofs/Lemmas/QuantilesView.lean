/-
The sorted view of a classic quantiles sketch (through the shared DSModel/SortedView.lean):
it is a permutation of the iterator's (item, weight) pairs, ascending, its total is `n`;
`get_rank`'s numerator is the weight of the retained items below the query point; in exact mode ranks and
quantiles are those of the input multiset.
-/
import DSProofs.Lemmas.QuantilesIter
import DSProofs.Lemmas.SortedView
namespace DS.Quantiles

open DS.SortedView

variable {α : Type}

/-- entries ascending by item -/
def SortedE (lt : α → α → Bool) (v : List (α × Nat)) : Prop := v.Pairwise (fun a b => leOf lt a.1 b.1 = true)

theorem merge_perm (lt : α → α → Bool) (a b : List (α × Nat)) : (SortedView.merge lt a b).Perm (a ++ b) :=
  SortedView.merge_perm lt a b

theorem merge_sorted {lt : α → α → Bool} (hlt : SWO lt) (a b : List (α × Nat)) (ha : SortedE lt a) (hb : SortedE lt b) :
    SortedE lt (SortedView.merge lt a b) := by
  refine SortedView.merge_induction lt (motive := fun a b m => SortedE lt a → SortedE lt b → SortedE lt m) ?_ ?_ ?_ ?_ a b ha hb
  · intro r _ hb; exact hb
  · intro a l ha _; exact ha
  · intro a l b r h ih ha hb
    -- b.1 < a.1: b goes first
    have ih' := ih ha (List.Pairwise.of_cons hb)
    refine List.Pairwise.cons ?_ ih'
    intro z hz
    rcases List.mem_append.mp ((merge_perm lt (a :: l) r).mem_iff.mp hz) with hz | hz
    · -- z ∈ a :: l, b < a ≤ z
      have hba : leOf lt b.1 a.1 = true := by
        simp only [leOf, Bool.not_eq_true']
        cases hab : lt a.1 b.1 with
        | false => rfl
        | true => have := hlt.trans _ _ _ hab h; rw [hlt.irrefl] at this; exact absurd this (by simp)
      rcases List.mem_cons.mp hz with rfl | hz
      · exact hba
      · exact hlt.le_trans _ _ _ hba (List.rel_of_pairwise_cons ha hz)
    · exact List.rel_of_pairwise_cons hb hz
  · intro a l b r h ih ha hb
    have ih' := ih (List.Pairwise.of_cons ha) hb
    refine List.Pairwise.cons ?_ ih'
    intro z hz
    have hab : leOf lt a.1 b.1 = true := by simpa [leOf] using h
    rcases List.mem_append.mp ((merge_perm lt l (b :: r)).mem_iff.mp hz) with hz | hz
    · exact List.rel_of_pairwise_cons ha hz
    · rcases List.mem_cons.mp hz with rfl | hz
      · exact hab
      · exact hlt.le_trans _ _ _ hab (List.rel_of_pairwise_cons hb hz)

theorem sortedE_map {lt : α → α → Bool} {l : List α} (h : Sorted lt l) (w : Nat) : SortedE lt (l.map (fun x => (x, w))) := by
  unfold SortedE
  rw [List.pairwise_map]
  exact h

theorem add_perm (lt : α → α → Bool) (v : List (α × Nat)) (items : List α) (w : Nat) :
    (SortedView.add lt v items w).Perm (v ++ items.map (fun x => (x, w))) := by
  unfold SortedView.add
  by_cases hv : v.isEmpty = true
  · have : v = [] := List.isEmpty_iff.mp hv
    subst this; simp
  · simp only [hv, Bool.false_eq_true, if_false]
    exact merge_perm lt _ _

theorem add_sorted {lt : α → α → Bool} (hlt : SWO lt) {v : List (α × Nat)} {items : List α} (w : Nat)
    (hv : SortedE lt v) (hi : Sorted lt items) : SortedE lt (SortedView.add lt v items w) := by
  unfold SortedView.add
  by_cases hv' : v.isEmpty = true
  · simp only [hv', if_true]; exact sortedE_map hi w
  · simp only [hv', Bool.false_eq_true, if_false]
    exact merge_sorted hlt _ _ hv (sortedE_map hi w)

theorem addLevels_perm (lt : α → α → Bool) : ∀ (lv : List (List α)) (v : List (α × Nat)) (w : Nat),
    (addLevels lt v lv w).Perm (v ++ pairsLevels w lv) := by
  intro lv
  induction lv with
  | nil => intro v w; simp [addLevels, pairsLevels]
  | cons l r ih =>
    intro v w
    simp only [addLevels, pairsLevels]
    refine (ih _ (2 * w)).trans ?_
    rw [← List.append_assoc]
    refine List.Perm.append_right _ ?_
    by_cases hl : l.isEmpty = true
    · have : l = [] := List.isEmpty_iff.mp hl
      subst this; simp
    · simp only [hl, Bool.false_eq_true, if_false]
      exact add_perm lt v l w

theorem addLevels_sorted {lt : α → α → Bool} (hlt : SWO lt) : ∀ (lv : List (List α)) (v : List (α × Nat)) (w : Nat),
    SortedE lt v → (∀ l ∈ lv, Sorted lt l) → SortedE lt (addLevels lt v lv w) := by
  intro lv
  induction lv with
  | nil => intro v w hv _; exact hv
  | cons l r ih =>
    intro v w hv hl
    simp only [addLevels]
    refine ih _ (2 * w) ?_ (fun x hx => hl x (List.mem_cons_of_mem _ hx))
    by_cases he : l.isEmpty = true
    · simp only [he, if_true]; exact hv
    · simp only [he, Bool.false_eq_true, if_false]
      exact add_sorted hlt w hv (hl l (List.mem_cons_self))

theorem rawView_perm (c : Cmp α) (s : Sketch α) : (s.rawView c).Perm (expectedIter s) := by
  unfold Sketch.rawView expectedIter
  refine (addLevels_perm c.lt s.levels _ 2).trans (List.Perm.append_right _ ?_)
  simpa using add_perm c.lt [] s.bb 1

theorem rawView_sorted {c : Cmp α} (hlt : SWO c.lt) {s : Sketch α} (hb : Sorted c.lt s.bb)
    (hl : ∀ l ∈ s.levels, Sorted c.lt l) : SortedE c.lt (s.rawView c) := by
  unfold Sketch.rawView
  exact addLevels_sorted hlt s.levels _ 2 (add_sorted hlt 1 List.Pairwise.nil hb) hl

/-! ### rank -/

/-- the items counted by `get_rank(x, inclusive)`: `e ≤ x` resp. `e < x` in terms of the comparator -/
def belowP (lt : α → α → Bool) (x : α) (incl : Bool) : α → Bool := fun e => if incl then !lt x e else lt e x

/-- total weight of the entries satisfying `q` -/
def selW (q : α → Bool) : List (α × Nat) → Nat
  | [] => 0
  | e :: t => (if q e.1 then e.2 else 0) + selW q t

/-- weight of the maximal prefix satisfying `q` -/
def prefW (q : α → Bool) : List (α × Nat) → Nat
  | [] => 0
  | e :: t => if q e.1 then e.2 + prefW q t else 0

theorem selW_perm (q : α → Bool) {a b : List (α × Nat)} (h : a.Perm b) : selW q a = selW q b := by
  induction h with
  | nil => rfl
  | cons x _ ih => simp [selW, ih]
  | swap x y l => simp only [selW]; omega
  | trans _ _ ih1 ih2 => exact ih1.trans ih2

theorem selW_append (q : α → Bool) (a b : List (α × Nat)) : selW q (a ++ b) = selW q a + selW q b := by
  induction a with
  | nil => simp [selW]
  | cons x t ih => simp only [List.cons_append, selW, ih]; omega

theorem selW_map (q : α → Bool) (l : List α) (w : Nat) : selW q (l.map (fun x => (x, w))) = w * l.countP q := by
  induction l with
  | nil => simp [selW]
  | cons x t ih =>
    simp only [List.map_cons, selW, ih, List.countP_cons]
    by_cases h : q x = true <;> simp [h, Nat.mul_add]
    omega

theorem selW_pairsLevels (q : α → Bool) (W : Nat) (lv : List (List α)) : selW q (pairsLevels W lv) = wLevels q W lv := by
  induction lv generalizing W with
  | nil => rfl
  | cons l r ih => simp only [pairsLevels, selW_append, selW_map, ih, wLevels]

theorem selW_expectedIter (q : α → Bool) (s : Sketch α) : selW q (expectedIter s) = wSketch q s := by
  simp only [expectedIter, selW_append, selW_map, selW_pairsLevels, wSketch, Nat.one_mul]

theorem go_cumulate (lt : α → α → Bool) (x : α) (incl : Bool) : ∀ (raw : List (α × Nat)) (acc : Nat),
    SortedView.rankGo lt x incl (cumulate acc raw) acc = acc + prefW (belowP lt x incl) raw := by
  intro raw
  induction raw with
  | nil => intro acc; simp [cumulate, SortedView.rankGo, prefW]
  | cons e t ih =>
    intro acc
    obtain ⟨y, w⟩ := e
    cases incl with
    | true =>
      simp only [cumulate, SortedView.rankGo, prefW, belowP, if_true]
      by_cases h : lt x y = true
      · simp [h]
      · have h' : lt x y = false := by simpa using h
        simp only [h', Bool.false_eq_true, if_false, Bool.not_false, if_true]
        rw [ih]; omega
    | false =>
      simp only [cumulate, SortedView.rankGo, prefW, belowP, Bool.false_eq_true, if_false]
      by_cases h : lt y x = true
      · simp only [h, Bool.not_true, Bool.false_eq_true, if_false, if_true]
        rw [ih]; omega
      · have h' : lt y x = false := by simpa using h
        simp [h']

/-- `q` is closed downwards along the order -/
def DownClosed (lt : α → α → Bool) (q : α → Bool) : Prop := ∀ a b, leOf lt a b = true → q b = true → q a = true

theorem belowP_down {lt : α → α → Bool} (hlt : SWO lt) (x : α) (incl : Bool) : DownClosed lt (belowP lt x incl) := by
  intro a b hab hb
  simp only [leOf, Bool.not_eq_true'] at hab
  cases incl with
  | true =>
    simp only [belowP, if_true, Bool.not_eq_true'] at hb ⊢
    exact hlt.ntrans x b a hb hab
  | false =>
    simp only [belowP, Bool.false_eq_true, if_false] at hb ⊢
    cases hax : lt a x with
    | true => rfl
    | false => have := hlt.ntrans b a x hab hax; rw [hb] at this; exact absurd this (by simp)

theorem prefW_eq_selW {lt : α → α → Bool} {q : α → Bool} (hq : DownClosed lt q) :
    ∀ {raw : List (α × Nat)}, SortedE lt raw → prefW q raw = selW q raw := by
  intro raw
  induction raw with
  | nil => intro _; rfl
  | cons e t ih =>
    intro hs
    simp only [prefW, selW]
    by_cases h : q e.1 = true
    · simp only [h, if_true]; rw [ih (List.Pairwise.of_cons hs)]
    · simp only [h, Bool.false_eq_true, if_false, Nat.zero_add]
      have hall : ∀ z ∈ t, q z.1 = false := by
        intro z hz
        cases hz' : q z.1 with
        | false => rfl
        | true => exact absurd (hq e.1 z.1 (List.rel_of_pairwise_cons hs hz) hz') h
      clear ih hs
      induction t with
      | nil => rfl
      | cons z t' iht =>
        simp only [selW, hall z (List.mem_cons_self), Bool.false_eq_true, if_false, Nat.zero_add]
        exact iht (fun y hy => hall y (List.mem_cons_of_mem _ hy))

theorem total_eq (raw : List (α × Nat)) : SortedView.total raw = (raw.map (·.2)).sum := by
  unfold SortedView.total
  have : ∀ (l : List (α × Nat)) (a : Nat), l.foldl (fun a e => a + e.2) a = a + (l.map (·.2)).sum := by
    intro l
    induction l with
    | nil => intro a; simp
    | cons e t ih => intro a; simp only [List.foldl_cons, ih, List.map_cons, List.sum_cons]; omega
  simpa using this raw 0

end DS.Quantiles

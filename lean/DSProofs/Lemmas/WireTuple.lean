/-
Compact tuple sketch images: serde laws, round trip (current and legacy version/type bytes), size, prefix safety,
boundedness (helper lemmas).
-/
import DSProofs.Lemmas.WireTheta
import DSModel.Wire.Tuple
namespace DS.Wire.Tuple
open DS.Wire Reader

variable {σ : Type}

/-- what a summary serde must satisfy -/
structure Laws (cd : Codec σ) : Prop where
  dec_enc : ∀ x, cd.ok x = true → ∀ r, cd.dec (cd.enc x ++ r) = some (x, r)
  ps : PS cd.dec
  shrinks : Consumes cd.dec 0

theorem u64Codec_laws : Laws u64Codec where
  dec_enc := by
    intro x hx r
    simp only [u64Codec, decide_eq_true_eq] at hx ⊢
    exact u64_w64 x hx r
  ps := PS_leNat 8
  shrinks := consumes_zero_of _ _ (consumes_leNat 8)

theorem strCodec_laws (k : Nat) : Laws (strCodec k) where
  dec_enc := by
    intro x hx r
    simp only [strCodec, decide_eq_true_eq] at hx ⊢
    rw [List.append_assoc, bind_leNat _ _ _ _ hx]
    exact bytesN_append x r
  ps := PS_bind _ _ (PS_leNat k) fun n => PS_bytesN n
  shrinks := by
    have := consumes_bind (leNat k) (fun n => bytesN n) 0 0 (consumes_zero_of _ _ (consumes_leNat k))
      (fun n => consumes_zero_of _ _ (consumes_bytesN n))
    simpa [strCodec] using this

structure COk (c : Consts) : Prop where
  sv : c.serVer < 256
  svl : c.serVerLegacy < 256
  fam : c.family < 256
  ty : c.sketchType < 256
  tyl : c.sketchTypeLegacy < 256
  flags : Theta.FlagsOk c.theta

theorem COk.of_ok {c : Consts} (h : c.ok = true) : COk c := by
  simp only [Consts.ok, Bool.and_eq_true, decide_eq_true_eq, bne_iff_ne, ne_eq] at h
  obtain ⟨⟨⟨⟨⟨⟨⟨⟨⟨⟨⟨⟨⟨⟨h1, h2⟩, h3⟩, h4⟩, h5⟩, h6⟩, h7⟩, h8⟩, h9⟩, h10⟩, h11⟩, h12⟩, h13⟩, h14⟩, h15⟩ := h
  exact ⟨h1, h2, h3, h4, h5, ⟨h6, h7, h8, h9, h10, h11, h12, h13, h14, h15⟩⟩

theorem preLongs_lt (s : Image σ) : preLongs s < 256 := by
  unfold preLongs; split
  · decide
  · split <;> decide

theorem preLongs_le3 (s : Image σ) : preLongs s ≤ 3 := by
  unfold preLongs; split
  · decide
  · split <;> decide

theorem entryReader_enc (cd : Codec σ) (hl : Laws cd) (e : Nat × σ) (he : e.1 < 2 ^ 64 ∧ cd.ok e.2 = true) (r : Bytes) :
    entryReader cd ((w64 e.1 ++ cd.enc e.2) ++ r) = some (e, r) := by
  unfold entryReader
  rw [List.append_assoc, bind_u64 _ _ _ he.1, bind_some (hl.dec_enc e.2 he.2 r)]
  rfl

theorem wEntries_eq_foldr (cd : Codec σ) (l : List (Nat × σ)) (r : Bytes) :
    wEntries cd l ++ r = l.foldr (fun e acc => (w64 e.1 ++ cd.enc e.2) ++ acc) r := by
  induction l with
  | nil => rfl
  | cons e t ih =>
    obtain ⟨k, v⟩ := e
    simp [wEntries, List.append_assoc, ih]

theorem repeatN_entries (cd : Codec σ) (hl : Laws cd) (l : List (Nat × σ)) (h : ∀ e ∈ l, e.1 < 2 ^ 64 ∧ cd.ok e.2 = true) (r : Bytes) :
    repeatN (entryReader cd) l.length (wEntries cd l ++ r) = some (l, r) := by
  rw [wEntries_eq_foldr]
  exact repeatN_roundtrip (entryReader cd) (fun e => w64 e.1 ++ cd.enc e.2) (fun e => e.1 < 2 ^ 64 ∧ cd.ok e.2 = true)
    (fun e he r => entryReader_enc cd hl e he r) l h r

theorem length_wEntries (cd : Codec σ) (l : List (Nat × σ)) : (wEntries cd l).length = entriesSize cd l := by
  induction l with
  | nil => rfl
  | cons e t ih =>
    obtain ⟨k, v⟩ := e
    simp [wEntries, entriesSize, w64, length_wLe, ih]; omega

/-- round trip for any accepted (serial version, type) pair -/
theorem decode_encodeWith {c : Consts} (hc : COk c) (cd : Codec σ) (hl : Laws cd) (sv ty : Nat)
    (hsv : sv = c.serVer ∨ sv = c.serVerLegacy) (hty : ty = c.sketchType ∨ ty = c.sketchTypeLegacy)
    (s : Image σ) (hwf : WF cd s) (exp : Nat) (hseed : s.isEmpty = true ∨ s.seedHash = exp) (tail : Bytes) :
    decode c cd exp (encodeWith c cd sv ty s ++ tail) = some (s, tail) := by
  obtain ⟨hsh, hth, hes, hlen, hemp, hord⟩ := hwf
  have hsv' : sv < 256 := by rcases hsv with h | h <;> rw [h]; exact hc.sv; exact hc.svl
  have hty' : ty < 256 := by rcases hty with h | h <;> rw [h]; exact hc.ty; exact hc.tyl
  unfold decode encodeWith
  simp only [List.append_assoc]
  rw [bind_u8 _ _ _ (preLongs_lt s), bind_u8 _ _ _ hsv', bind_u8 _ _ _ hc.fam, bind_u8 _ _ _ hty', bind_skip_w8,
    bind_u8 _ _ _ (Theta.flagsByte_lt' hc.flags _ _), bind_u16 _ _ _ hsh]
  have hg : ((sv == c.serVer || sv == c.serVerLegacy) && c.family == c.family && (ty == c.sketchType || ty == c.sketchTypeLegacy)) = true := by
    rcases hsv with h | h <;> rcases hty with h' | h' <;> simp [h, h']
  rw [hg, bind_guard_true]
  have hfe : (Theta.flagsByte c.theta s.isEmpty s.isOrdered).testBit c.fEmpty = s.isEmpty := Theta.flagsByte_empty' hc.flags _ _
  have hfo : (Theta.flagsByte c.theta s.isEmpty s.isOrdered).testBit c.fOrdered = s.isOrdered := Theta.flagsByte_ordered' hc.flags _ _
  rw [hfe, hfo]
  obtain ⟨e, o, sh, th, es⟩ := s
  simp only at *
  cases e with
  | true =>
    obtain ⟨he, ht⟩ := hemp rfl
    subst he; subst ht
    have ho : o = true := hord (by simp)
    subst ho
    simp [preLongs, Image.estMode, Reader.pure, wEntries, maxTheta]
  | false =>
    have hs : sh = exp := by
      rcases hseed with h | h
      · simp at h
      · exact h
    subst hs
    simp only [Bool.false_eq_true, ↓reduceIte, beq_self_eq_true, bind_guard_true]
    by_cases hest : th < maxTheta
    · have hp : preLongs (⟨false, o, sh, th, es⟩ : Image σ) = 3 := by simp [preLongs, Image.estMode, hest]
      have hem : Image.estMode (⟨false, o, sh, th, es⟩ : Image σ) = true := by simp [Image.estMode, hest]
      rw [hp, hem]
      simp only [Nat.reduceEqDiff, ↓reduceIte, Nat.reduceLT, Nat.reduceGT, List.append_assoc]
      rw [bind_u32 _ _ _ hlen, bind_skip_w32, bind_u64 _ _ _ (by unfold maxTheta Theta.maxTheta at hth; omega),
        bind_some (repeatN_entries cd hl es hes tail)]
      simp only [Reader.pure, Option.some.injEq, Prod.mk.injEq, and_true, Image.mk.injEq, true_and]
      by_cases h1 : es.length ≤ 1
      · simp [h1, hord h1]
      · simp [h1]
    · have hth' : th = maxTheta := by omega
      subst hth'
      have hem : Image.estMode (⟨false, o, sh, maxTheta, es⟩ : Image σ) = false := by simp [Image.estMode]
      by_cases h1 : es.length = 1
      · have hp : preLongs (⟨false, o, sh, maxTheta, es⟩ : Image σ) = 1 := by simp [preLongs, Image.estMode, h1]
        rw [hp, hem]
        match es, h1 with
        | [x], _ =>
          have hx := hes x (by simp)
          have ho : o = true := hord (by simp)
          subst ho
          simp only [↓reduceIte, Nat.lt_irrefl, List.nil_append, wEntries, List.append_nil, List.append_assoc, Bool.false_eq_true, gt_iff_lt]
          have := entryReader_enc cd hl x hx tail
          rw [List.append_assoc] at this
          rw [bind_some this]
          rfl
      · have hp : preLongs (⟨false, o, sh, maxTheta, es⟩ : Image σ) = 2 := by simp [preLongs, Image.estMode, h1]
        rw [hp, hem]
        simp only [Nat.reduceEqDiff, ↓reduceIte, Nat.reduceLT, Nat.reduceGT, List.append_assoc, Bool.false_eq_true, List.nil_append, Nat.lt_irrefl]
        rw [bind_u32 _ _ _ hlen, bind_skip_w32, bind_pure, bind_some (repeatN_entries cd hl es hes tail)]
        simp only [Reader.pure, Option.some.injEq, Prod.mk.injEq, and_true, Image.mk.injEq, true_and]
        by_cases h2 : es.length ≤ 1
        · simp [h2, hord h2]
        · simp [h2]

theorem length_encodeWith (c : Consts) (cd : Codec σ) (sv ty : Nat) (s : Image σ) :
    (encodeWith c cd sv ty s).length = serializedSize cd s := by
  unfold encodeWith serializedSize
  simp only [List.length_append, w8, w16, w32, w64, length_wLe, length_wEntries]
  by_cases h1 : s.estMode = true
  · have hp : preLongs s = 3 := by simp [preLongs, h1]
    simp [hp, h1, length_wLe]; omega
  · have h1' : s.estMode = false := by simpa using h1
    by_cases h2 : (s.isEmpty || s.entries.length == 1) = true
    · have hp : preLongs s = 1 := by simp only [preLongs, h1', h2]; simp
      simp [hp, h1']; omega
    · have hp : preLongs s = 2 := by simp only [preLongs, h1', h2]; simp
      simp [hp, h1', length_wLe]; omega

theorem PS_entryReader (cd : Codec σ) (hl : Laws cd) : PS (entryReader cd) :=
  PS_bind _ _ (PS_leNat 8) fun _ => PS_bind _ _ hl.ps fun _ => PS_pure _

theorem PS_decode (c : Consts) (cd : Codec σ) (hl : Laws cd) (exp : Nat) : PS (decode c cd exp) :=
  PS_bind _ _ (PS_leNat 1) fun _ =>
  PS_bind _ _ (PS_leNat 1) fun _ =>
  PS_bind _ _ (PS_leNat 1) fun _ =>
  PS_bind _ _ (PS_leNat 1) fun _ =>
  PS_bind _ _ (PS_skip 1) fun _ =>
  PS_bind _ _ (PS_leNat 1) fun _ =>
  PS_bind _ _ (PS_leNat 2) fun _ =>
  PS_bind _ _ (PS_guard _) fun _ =>
  PS_ite _ _ _ (PS_pure _) <|
    PS_bind _ _ (PS_guard _) fun _ =>
    PS_ite _ _ _ (PS_bind _ _ (PS_entryReader cd hl) fun _ => PS_pure _) <|
      PS_bind _ _ (PS_leNat 4) fun n =>
      PS_bind _ _ (PS_skip 4) fun _ =>
      PS_bind _ _ (PS_ite _ _ _ (PS_leNat 8) (PS_pure _)) fun _ =>
      PS_bind _ _ (PS_repeatN _ (PS_entryReader cd hl) n) fun _ => PS_pure _

def nEntries (s : Image σ) : Nat := s.entries.length

theorem c8_entryReader (cd : Codec σ) (hl : Laws cd) : Consumes (entryReader cd) 8 := by
  have := consumes_bind u64 (fun k => Reader.bind cd.dec fun v => Reader.pure (k, v)) 8 0 (consumes_leNat 8)
    (fun k => by
      have := consumes_bind cd.dec (fun v => Reader.pure (k, v)) 0 0 hl.shrinks (fun v => consumes_pure _)
      simpa using this)
  simpa [entryReader] using this

theorem bounded_decode (c : Consts) (cd : Codec σ) (hl : Laws cd) (exp : Nat) : BoundedBy nEntries 8 (decode c cd exp) :=
  boundedBy_bind _ _ c0_u8 fun _ =>
  boundedBy_bind _ _ c0_u8 fun _ =>
  boundedBy_bind _ _ c0_u8 fun _ =>
  boundedBy_bind _ _ c0_u8 fun _ =>
  boundedBy_bind _ _ (c0_skip 1) fun _ =>
  boundedBy_bind _ _ c0_u8 fun _ =>
  boundedBy_bind _ _ c0_u16 fun _ =>
  boundedBy_bind _ _ (consumes_guard _) fun _ =>
  boundedBy_ite _ _ _ (boundedBy_pure _ rfl) <|
    boundedBy_bind _ _ (consumes_guard _) fun _ =>
    boundedBy_ite _ _ _
      (by
        intro b x r h
        simp only [Reader.bind] at h
        cases h1 : entryReader cd b with
        | none => simp [h1] at h
        | some p =>
          obtain ⟨e, r1⟩ := p
          simp only [h1, Reader.pure, Option.some.injEq, Prod.mk.injEq] at h
          have := c8_entryReader cd hl b e r1 h1
          rw [← h.1, ← h.2]; simp [nEntries]; omega) <|
      boundedBy_bind _ _ c0_u32 fun n =>
      boundedBy_bind _ _ (c0_skip 4) fun _ =>
      boundedBy_bind _ _ (consumes_ite _ _ _ 0 c0_u64 (consumes_pure _)) fun _ =>
      boundedBy_repeatN (entryReader cd) 8 (c8_entryReader cd hl) (by decide) n _ (fun l => by simp [nEntries])

end DS.Wire.Tuple

/-
`Spec P ar W X t`: every leaf of the choice tree `t` satisfies `P`, every path consumes exactly the arity sequence
`ar`, and the sum of `W` over all leaves is `∏ ar * X`.  Composition lemmas, then the specs of the level machinery
of the classic quantiles sketch (`ripple`, `carryFrom`, `propagateCarry`).
-/
import DSModel.Quantiles.History
import DSProofs.Lemmas.QuantilesBasic
namespace DS.Quantiles

open Tree

variable {α β γ : Type}

def prodAr (ar : List Nat) : Nat := ar.foldr (· * ·) 1

@[simp] theorem prodAr_nil : prodAr [] = 1 := rfl
@[simp] theorem prodAr_cons (a : Nat) (ar : List Nat) : prodAr (a :: ar) = a * prodAr ar := rfl
theorem prodAr_append (a b : List Nat) : prodAr (a ++ b) = prodAr a * prodAr b := by
  induction a with
  | nil => simp
  | cons x t ih => simp [ih, Nat.mul_assoc]

structure Spec (P : β → Prop) (ar : List Nat) (W : β → Nat) (X : Nat) (t : Tree β) : Prop where
  all : t.All P
  uni : t.Uniform ar
  sum : t.sum W = prodAr ar * X

theorem Spec.done {P : β → Prop} {W : β → Nat} {X : Nat} {b : β} (hP : P b) (hX : W b = X) :
    Spec P [] W X (Tree.done b) :=
  ⟨hP, trivial, by simp [Tree.sum, hX]⟩

theorem Spec.weaken {P Q : β → Prop} {ar : List Nat} {W : β → Nat} {X : Nat} {t : Tree β}
    (h : Spec P ar W X t) (hpq : ∀ b, P b → Q b) : Spec Q ar W X t :=
  ⟨h.all.mono hpq, h.uni, h.sum⟩

theorem Spec.congr {P : β → Prop} {ar ar' : List Nat} {W : β → Nat} {X X' : Nat} {t : Tree β}
    (h : Spec P ar W X t) (har : ar = ar') (hX : X = X') : Spec P ar' W X' t := by
  subst har; subst hX; exact h

theorem Spec.bind {P : β → Prop} {Q : γ → Prop} {a1 a2 : List Nat} {V : β → Nat} {W : γ → Nat} {X : Nat}
    {t : Tree β} {f : β → Tree γ} (h : Spec P a1 V X t) (hf : ∀ b, P b → Spec Q a2 W (V b) (f b)) :
    Spec Q (a1 ++ a2) W X (t.bind f) := by
  refine ⟨h.all.bind (fun b hb => (hf b hb).all), h.uni.bind h.all (fun b hb => (hf b hb).uni), ?_⟩
  rw [Tree.sum_bind, Tree.sum_congr_all h.all (g := fun b => prodAr a2 * V b) (fun b hb => (hf b hb).sum),
    Tree.sum_mul, h.sum, prodAr_append]
  simp only [Nat.mul_assoc, Nat.mul_left_comm]

theorem Spec.map {P : β → Prop} {Q : γ → Prop} {ar : List Nat} {V : β → Nat} {W : γ → Nat} {X : Nat}
    {t : Tree β} {g : β → γ} (h : Spec P ar V X t) (hg : ∀ b, P b → Q (g b) ∧ W (g b) = V b) :
    Spec Q ar W X (t.map g) := by
  have := Spec.bind (Q := Q) (a2 := []) (W := W) (f := fun b => Tree.done (g b)) h
    (fun b hb => Spec.done (hg b hb).1 (hg b hb).2)
  simpa [Tree.map] using this

theorem Spec.choose {P : β → Prop} {a : Nat} {ar : List Nat} {W : β → Nat} {X : Nat → Nat} {Xtot : Nat}
    {k : Nat → Tree β} (ha : 0 < a) (h : ∀ c, c < a → Spec P ar W (X c) (k c))
    (hX : Tree.sumRange a X = a * Xtot) : Spec P (a :: ar) W Xtot (Tree.choose a k) := by
  refine ⟨⟨ha, fun c hc => (h c hc).all⟩, ⟨rfl, ha, fun c hc => (h c hc).uni⟩, ?_⟩
  simp only [Tree.sum]
  rw [Tree.sumRange_congr (g := fun c => prodAr ar * X c) (fun c hc => (h c hc).sum), Tree.sumRange_mul, hX, prodAr_cons]
  simp only [Nat.mul_assoc, Nat.mul_left_comm]

theorem Spec.add_const {P : β → Prop} {ar : List Nat} {W : β → Nat} {X : Nat} {t : Tree β}
    (h : Spec P ar W X t) (a : Nat) : Spec P ar (fun b => a + W b) (a + X) t := by
  refine ⟨h.all, h.uni, ?_⟩
  rw [Tree.sum_add, Tree.sum_const, h.uni.leafCount, h.sum]
  show prodAr ar * a + prodAr ar * X = prodAr ar * (a + X)
  rw [Nat.mul_add]

/-! ### weights -/

/-- Σ over the levels of `weight * #(items satisfying p)`, the first level having weight `W`, doubling upwards -/
def wLevels (p : α → Bool) : Nat → List (List α) → Nat
  | _, [] => 0
  | W, l :: r => W * l.countP p + wLevels p (2 * W) r

/-- total weight of the retained items satisfying `p` (base buffer weight 1, level `i` weight `2^(i+1)`) -/
def wSketch (p : α → Bool) (s : Sketch α) : Nat := s.bb.countP p + wLevels p 2 s.levels

theorem wLevels_replicate_nil (p : α → Bool) (W m : Nat) : wLevels p W (List.replicate m ([] : List α)) = 0 := by
  induction m generalizing W with
  | zero => rfl
  | succ m ih => simp [List.replicate_succ, wLevels, ih]

theorem wLevels_append_replicate_nil (p : α → Bool) (W : Nat) (lv : List (List α)) (m : Nat) :
    wLevels p W (lv ++ List.replicate m []) = wLevels p W lv := by
  induction lv generalizing W with
  | nil => simp [wLevels_replicate_nil, wLevels]
  | cons l r ih => simp [wLevels, ih]

/-! ### level shapes -/

/-- closure properties of a "sortedness" predicate `S` on buffers: instantiated with `Sorted lt` (for a strict weak
order) and with `fun _ => True` (so that the counting theorems need nothing about the comparator) -/
structure SortOK (lt : α → α → Bool) (S : List α → Prop) : Prop where
  nil : S []
  single : ∀ x, S [x]
  sort : ∀ l, S (sortBuf lt l)
  merge : ∀ a b, S a → S b → S (merge2 lt a b)
  strided : ∀ s o l, S l → S (strided s o l)

theorem sortOK_true (lt : α → α → Bool) : SortOK lt (fun _ => True) :=
  ⟨trivial, fun _ => trivial, fun _ => trivial, fun _ _ _ _ => trivial, fun _ _ _ _ => trivial⟩

theorem sortOK_sorted {lt : α → α → Bool} (h : SWO lt) : SortOK lt (Sorted lt) :=
  ⟨sorted_nil lt, fun _ => List.pairwise_singleton _ _, sorted_sortBuf h, fun _ _ ha hb => sorted_merge2 h ha hb,
   fun s o _ hl => sorted_strided hl s o⟩

/-- level `i` holds `k` items if bit `i` of the pattern is set and is empty otherwise; every level satisfies `S`;
no bits beyond the vector -/
def LevelsShape (S : List α → Prop) (k : Nat) : List (List α) → Nat → Prop
  | [], b => b = 0
  | l :: rest, b => l.length = (if b % 2 = 1 then k else 0) ∧ S l ∧ LevelsShape S k rest (b / 2)

theorem LevelsShape.lt_two_pow {S : List α → Prop} {k : Nat} :
    ∀ {lv : List (List α)} {b : Nat}, LevelsShape S k lv b → b < 2 ^ lv.length := by
  intro lv
  induction lv with
  | nil => intro b h; simp only [LevelsShape] at h; subst h; simp
  | cons l r ih =>
    intro b h
    have := ih h.2.2
    simp only [List.length_cons, Nat.pow_succ]
    omega

theorem LevelsShape.append_nil {S : List α → Prop} {k : Nat} (hnil : S []) :
    ∀ {lv : List (List α)} {b : Nat} (m : Nat), LevelsShape S k lv b →
    LevelsShape S k (lv ++ List.replicate m []) b := by
  intro lv
  induction lv with
  | nil =>
    intro b m h
    simp only [LevelsShape] at h; subst h
    induction m with
    | zero => simp [LevelsShape]
    | succ m ih => simpa [List.replicate_succ, LevelsShape, hnil] using ih
  | cons l r ih =>
    intro b m h
    exact ⟨h.1, h.2.1, ih m h.2.2⟩

theorem LevelsShape.sorted {S : List α → Prop} {k : Nat} :
    ∀ {lv : List (List α)} {b : Nat}, LevelsShape S k lv b → ∀ l ∈ lv, S l := by
  intro lv
  induction lv with
  | nil => intro b _ l hl; simp at hl
  | cons l0 r ih =>
    intro b h l hl
    rcases List.mem_cons.mp hl with rfl | hl
    · exact h.2.1
    · exact ih h.2.2 l hl

/-- arities of `carryFrom start` over `len` levels with pattern `bits` -/
def carryAr : Nat → Nat → Nat → List Nat
  | 0, len, bits => rippleAr len bits
  | _ + 1, 0, _ => []
  | s + 1, m + 1, bits => carryAr s m (bits / 2)

theorem carryAr_eq (start len bits : Nat) : carryAr start len bits = rippleAr (len - start) (bits / 2 ^ start) := by
  induction start generalizing len bits with
  | zero => simp [carryAr]
  | succ s ih =>
    cases len with
    | zero => simp [carryAr, rippleAr]
    | succ m =>
      simp only [carryAr, ih]
      rw [Nat.pow_succ, Nat.mul_comm, Nat.div_div_eq_div_mul]
      congr 1
      omega

section levels
variable (lt : α → α → Bool) (p : α → Bool) (k : Nat) {S : List α → Prop} (hS : SortOK lt S)
include hS

theorem ripple_spec : ∀ (lv : List (List α)) (bits : Nat) (cur : List α) (W : Nat),
    LevelsShape S k lv bits → cur.length = k → S cur → bits + 1 < 2 ^ lv.length →
    Spec (fun lv' => LevelsShape S k lv' (bits + 1) ∧ lv'.length = lv.length) (rippleAr lv.length bits)
      (wLevels p W) (W * cur.countP p + wLevels p W lv) (ripple lt lv bits cur) := by
  intro lv
  induction lv with
  | nil => intro bits cur W _ _ _ hroom; simp at hroom
  | cons l rest ih =>
    intro bits cur W hsh hcur hScur hroom
    obtain ⟨hl, hSl, hrest⟩ := hsh
    by_cases hodd : bits % 2 = 1
    · simp only [ripple, hodd, if_true, List.length_cons, rippleAr]
      simp only [hodd, if_true] at hl
      have hm : (merge2 lt l cur).length = 2 * k := by rw [merge2_length]; omega
      have hroom' : bits / 2 + 1 < 2 ^ rest.length := by
        simp only [List.length_cons, Nat.pow_succ] at hroom; omega
      refine Spec.choose (X := fun c => 2 * W * (strided 2 c (merge2 lt l cur)).countP p + wLevels p (2 * W) rest)
        (by omega) ?_ ?_
      · intro c hc
        refine Spec.map (ih (bits / 2) (strided 2 c (merge2 lt l cur)) (2 * W) hrest (strided_length hm hc)
          (hS.strided _ _ _ (hS.merge _ _ hSl hScur)) hroom') ?_
        intro r hr
        refine ⟨⟨⟨?_, hS.nil, ?_⟩, by simp [hr.2]⟩, by simp [wLevels]⟩
        · have : (bits + 1) % 2 = 0 := by omega
          simp [this]
        · have : (bits + 1) / 2 = bits / 2 + 1 := by omega
          rw [this]; exact hr.1
      · simp only [Tree.sumRange, Nat.zero_add, wLevels]
        have h2 := strided_two_countP p (merge2 lt l cur)
        rw [merge2_countP] at h2
        have e : W * (strided 2 0 (merge2 lt l cur)).countP p + W * (strided 2 1 (merge2 lt l cur)).countP p
            = W * l.countP p + W * cur.countP p := by rw [← Nat.mul_add, ← Nat.mul_add, h2]
        simp only [Nat.mul_assoc]
        generalize W * (strided 2 0 (merge2 lt l cur)).countP p = x0 at e ⊢
        generalize W * (strided 2 1 (merge2 lt l cur)).countP p = x1 at e ⊢
        generalize W * l.countP p = x2 at e ⊢
        generalize W * cur.countP p = x3 at e ⊢
        omega
    · have heven : bits % 2 = 0 := by omega
      simp only [ripple, hodd, if_false, List.length_cons, rippleAr]
      simp only [hodd, if_false] at hl
      have hnil : l = [] := List.eq_nil_of_length_eq_zero hl
      subst hnil
      refine Spec.done ⟨⟨?_, ?_, ?_⟩, rfl⟩ ?_
      · have : (bits + 1) % 2 = 1 := by omega
        simp [this, hcur]
      · simpa using hScur
      · have : (bits + 1) / 2 = bits / 2 := by omega
        rw [this]; exact hrest
      · simp [wLevels]

theorem carryFrom_spec : ∀ (start : Nat) (lv : List (List α)) (bits : Nat) (cur : List α) (W : Nat),
    LevelsShape S k lv bits → cur.length = k → S cur → bits + 2 ^ start < 2 ^ lv.length →
    Spec (fun lv' => LevelsShape S k lv' (bits + 2 ^ start) ∧ lv'.length = lv.length) (carryAr start lv.length bits)
      (wLevels p W) (W * 2 ^ start * cur.countP p + wLevels p W lv) (carryFrom lt start lv bits cur) := by
  intro start
  induction start with
  | zero =>
    intro lv bits cur W hsh hcur hScur hroom
    simpa [carryFrom, carryAr] using ripple_spec lt p k hS lv bits cur W hsh hcur hScur (by simpa using hroom)
  | succ s ih =>
    intro lv bits cur W hsh hcur hScur hroom
    cases lv with
    | nil =>
      exfalso
      have : 0 < 2 ^ (s + 1) := Nat.two_pow_pos _
      simp only [List.length_nil, Nat.pow_zero] at hroom
      omega
    | cons l rest =>
      obtain ⟨hl, hSl, hrest⟩ := hsh
      have hroom' : bits / 2 + 2 ^ s < 2 ^ rest.length := by
        simp only [List.length_cons, Nat.pow_succ] at hroom; omega
      simp only [carryFrom, List.length_cons, carryAr]
      have h := (ih rest (bits / 2) cur (2 * W) hrest hcur hScur hroom').add_const (W * l.countP p)
      refine (Spec.map h ?_).congr rfl ?_
      · intro r hr
        refine ⟨⟨⟨?_, hSl, ?_⟩, by simp [hr.2]⟩, by simp [wLevels]⟩
        · have : (bits + 2 ^ (s + 1)) % 2 = bits % 2 := by rw [Nat.pow_succ]; omega
          rw [this]; exact hl
        · have : (bits + 2 ^ (s + 1)) / 2 = bits / 2 + 2 ^ s := by rw [Nat.pow_succ]; omega
          rw [this]; exact hr.1
      · simp only [wLevels, Nat.pow_succ, Nat.mul_assoc, Nat.mul_left_comm, Nat.mul_comm, Nat.add_left_comm]

end levels

end DS.Quantiles

/-
The compressed theta writer / reader over the TRANSLATED block routines equal the specification writer / reader
(helper lemmas; uses the lifted layout obligation).
-/
import DSProofs.Lemmas.BitPackBlocks
import DSProofs.Lemmas.WireThetaV4
namespace DS.Wire.Theta
open DS.Wire Reader DS.Wire.BitPack

theorem encodeV4IR_eq (c : Consts) (s : Image) (h4 : WFv4 s) : encodeV4IR c s = encodeV4 c s := by
  obtain ⟨hwf, hsuit, hasc, h63⟩ := h4
  obtain ⟨_, _, hne⟩ := suitable_facts s hwf hsuit
  unfold encodeV4IR encodeV4
  simp only
  have hpos := entryBits_pos s.entries hne hasc
  have hle := entryBits_le_63 s.entries h63
  rw [packBlocksWith_eq (irPack8 (entryBits s.entries)) (entryBits s.entries)
    (fun l hl hv => irPack8_eq _ hpos hle l hl hv) _ (deltas_lt_entryBits s.entries)]

theorem bind_congr {α β : Type} (m : Reader α) (f g : α → Reader β) (b : Bytes)
    (h : ∀ a r, m b = some (a, r) → f a r = g a r) : Reader.bind m f b = Reader.bind m g b := by
  simp only [Reader.bind]
  cases hm : m b with
  | none => rfl
  | some p => obtain ⟨a, r⟩ := p; exact h a r hm

theorem decodeV4IR_eq (exp pre : Nat) (b : Bytes) : decodeV4IR exp pre b = decodeV4 exp pre b := by
  unfold decodeV4IR decodeV4
  apply bind_congr; intro eb r1 _
  apply bind_congr; intro neb r2 _
  apply bind_congr; intro fl r3 _
  apply bind_congr; intro sh r4 _
  by_cases hg : (sh == exp && decide (neb ≤ 4) && decide (1 ≤ eb ∧ eb ≤ 63)) = true
  · have heb : 1 ≤ eb ∧ eb ≤ 63 := by
      simp only [Bool.and_eq_true, decide_eq_true_eq] at hg
      exact hg.2
    apply bind_congr; intro _ r5 _
    apply bind_congr; intro theta r6 _
    apply bind_congr; intro n r7 _
    apply bind_congr; intro bs r8 hbs
    have hlen := bytesN_length _ _ _ _ hbs
    rw [unpackBlocksWith_eq (irUnpack8 eb) eb (fun b hb => irUnpack8_eq eb heb.1 heb.2 b hb) n bs hlen]
  · have : (sh == exp && decide (neb ≤ 4) && decide (1 ≤ eb ∧ eb ≤ 63)) = false := by simpa using hg
    rw [this]
    simp [Reader.bind, guard, Reader.fail]

end DS.Wire.Theta

/- C19, KLL sketch part 18: `general_compress` – one iteration, the loop, the function. -/
import DSProofs.Lemmas.LifeKllQ
namespace DS.Life.Kll
open DS.Life

theorem tc_zero (k m : Nat) : computeTotalCapacity k m 0 = 0 := rfl

theorem gcBody_spec {S : Nat → Bool} {k m wb tmp ub finalN : Nat} {srt : Bool} {f : Nat} (hm2 : 2 ≤ m)
    (h64 : finalN < 2 ^ 64) (hub : ub = ubOnNumLevels finalN) (hS : S wb = true)
    (ih : ∀ cl g h, GCInv k m wb tmp ub finalN h cl g →
      SafeF S h (generalCompressLoop k m wb srt f cl g h) (GCQ k m wb tmp ub g h))
    {cl : Nat} {g : GcState} {h : Heap} (inv : GCInv k m wb tmp ub finalN h cl g) {IL' : List Nat}
    (ext : ILExt tmp cl g IL') :
    SafeF S h (gcBody k m wb srt f cl g IL' h) (GCQ k m wb tmp ub g h) := by
  have hN := inv.hN
  have hcl := inv.hcl
  have hlenI : IL'.length = ub + 2 := by rw [ext.len, inv.lenI]
  have hlenO := inv.lenO
  have hoi := inv.oi
  have hbl : g.inLevels.getD cl 0 ≤ g.inLevels.getD (cl + 1) 0 := inv.inMono cl (Nat.le_refl _) hcl
  have hlim : g.inLevels.getD (cl + 1) 0 ≤ tmp := by
    have := mono_chain inv.inMono g.curNumLevels (cl + 1) (by omega) (by omega) (Nat.le_refl _)
    rw [inv.inTop] at this; exact this
  unfold gcBody
  apply step_lv (by omega)
  apply step_lv (by omega)
  apply step_lv (by omega)
  rw [ext.same cl (by omega), ext.same (cl + 1) (by omega)]
  by_cases hA : g.curItemCount < g.target ∨
      g.inLevels.getD (cl + 1) 0 - g.inLevels.getD cl 0 < levelCapacity k g.curNumLevels cl m
  · rw [if_pos hA]
    rw [if_neg (by omega)]
    -- the level is moved over as it is
    have finA : ∀ h1, SameBut h h1 (fun b' _ => b' = wb) → HasCells h1 wb tmp →
        LiveOn h1 wb 0 (g.outLevels.getD cl 0 + (g.inLevels.getD (cl + 1) 0 - g.inLevels.getD cl 0)) →
        NonRawOn h1 wb (g.outLevels.getD cl 0 + (g.inLevels.getD (cl + 1) 0 - g.inLevels.getD cl 0))
          (g.inLevels.getD (cl + 1) 0) →
        LiveOn h1 wb (g.inLevels.getD (cl + 1) 0) tmp →
        SafeF S h1 ((do
            let outL ← setLv g.outLevels (cl + 1)
              (g.outLevels.getD cl 0 + (g.inLevels.getD (cl + 1) 0 - g.inLevels.getD cl 0))
            gcNext k m wb srt f cl { g with inLevels := IL', outLevels := outL }) h1)
          (fun g' h' => GCPost k m wb tmp ub h' g' ∧ g.curNumLevels ≤ g'.curNumLevels ∧
            SameBut h1 h' (fun b' _ => b' = wb)) := by
      intro h1 sb1 hc1 lv1 nr1 lv2
      apply step_setLv _ (by omega)
      generalize hOL : g.outLevels.set (cl + 1)
        (g.outLevels.getD cl 0 + (g.inLevels.getD (cl + 1) 0 - g.inLevels.getD cl 0)) = OL'
      have hlenO' : OL'.length = ub + 2 := by rw [← hOL]; simp [hlenO]
      have hOnew : OL'.getD (cl + 1) 0 =
          g.outLevels.getD cl 0 + (g.inLevels.getD (cl + 1) 0 - g.inLevels.getD cl 0) := by
        rw [← hOL, getD_set_eq _ _ _ (by omega)]
      have hOsame : ∀ l, l ≠ cl + 1 → OL'.getD l 0 = g.outLevels.getD l 0 := fun l hl => by
        rw [← hOL, getD_set_ne _ _ _ _ hl]
      have hcapA : ¬ g.curItemCount < g.target →
          g.inLevels.getD (cl + 1) 0 - g.inLevels.getD cl 0 < levelCapacity k (g.curNumLevels - cl) 0 m ∧
          g.outLevels.getD cl 0 + cl + computeTotalCapacity k m (g.curNumLevels - cl) ≤
            computeTotalCapacity k m g.curNumLevels := by
        intro hnf
        refine ⟨?_, inv.cap.resolve_left hnf⟩
        rw [← levelCapacity_depth k g.curNumLevels cl m hcl]
        exact hA.resolve_left hnf
      have r := gcNext_spec (S := S) (k := k) (m := m) (wb := wb) (tmp := tmp) (ub := ub) (finalN := finalN) ih
        (cl := cl) (g := (⟨IL', OL', g.curNumLevels, g.curItemCount, g.target, g.coins⟩ : GcState)) (h := h1) ?_ ?_
      · refine r.mono ?_
        intro g' h' ⟨p, hle, sb'⟩
        exact ⟨p, hle, sb'⟩
      · -- this was the top level: done
        intro etop
        simp only at etop
        have eN : g.curNumLevels = cl + 1 := by omega
        have elim : g.inLevels.getD (cl + 1) 0 = tmp := by rw [← eN]; exact inv.inTop
        refine ⟨hlenO', hN, by simp only; omega, ?_, ?_, hc1, ?_, ?_, ?_, inv.tgt, ?_⟩
        · simp only; rw [hOsame 0 (by omega)]; exact inv.out0
        · intro l hl
          simp only at hl ⊢
          by_cases e : l = cl
          · subst e; rw [hOnew, hOsame l (by omega)]; omega
          · rw [hOsame l (by omega), hOsame (l + 1) (by omega)]; exact inv.outMono l (by omega)
        · simp only; rw [eN, hOnew]; exact lv1
        · simp only; rw [eN, hOnew, ← elim]; exact nr1
        · simp only; rw [eN, hOnew]; omega
        · simp only
          by_cases hnf : g.curItemCount < g.target
          · exact Or.inl hnf
          · right
            obtain ⟨a, b⟩ := hcapA hnf
            rw [eN, hOnew, inv.tgt]
            have e1 : g.curNumLevels - cl = 1 := by omega
            rw [e1] at a b
            have := tc_step k m 1 (Nat.le_refl _)
            simp only [Nat.sub_self, tc_zero] at this
            omega
      · -- continue with the next level
        intro etop
        simp only at etop
        refine ⟨hlenI, hlenO', hN, by simp only; omega, ?_, ?_, ?_, ?_, ?_, hc1, ?_, ?_, ?_, inv.tgt, ?_, ?_⟩
        · simp only; rw [hOsame 0 (by omega)]; exact inv.out0
        · intro l hl
          simp only
          by_cases e : l = cl
          · subst e; rw [hOnew, hOsame l (by omega)]; omega
          · rw [hOsame l (by omega), hOsame (l + 1) (by omega)]; exact inv.outMono l (by omega)
        · intro l h1' h2'
          simp only at h2' ⊢
          rw [ext.same l (by omega), ext.same (l + 1) (by omega)]
          exact inv.inMono l (by omega) h2'
        · simp only; rw [ext.same _ (Nat.le_refl _)]; exact inv.inTop
        · simp only; rw [hOnew, ext.same (cl + 1) (by omega)]; omega
        · simp only; rw [hOnew]; exact lv1
        · simp only; rw [hOnew, ext.same (cl + 1) (by omega)]; exact nr1
        · simp only; rw [ext.same (cl + 1) (by omega)]; exact lv2
        · simp only
          by_cases hnf : g.curItemCount < g.target
          · exact Or.inl hnf
          · right
            obtain ⟨a, b⟩ := hcapA hnf
            rw [hOnew]
            have h1' := tc_step k m (g.curNumLevels - cl) (by omega)
            have e5 : g.curNumLevels - (cl + 1) = g.curNumLevels - cl - 1 := by omega
            rw [e5]; omega
        · simp only
          rw [← inv.wt]
          apply wsum_congr
          intro l hl
          simp only [mixPop, pop]
          by_cases e : l < cl
          · rw [if_pos (by omega), if_pos e, hOsame l (by omega), hOsame (l + 1) (by omega)]
          · by_cases e2 : l = cl
            · subst e2
              rw [if_pos (by omega), if_neg e, hOnew, hOsame l (by omega)]; omega
            · rw [if_neg (by omega), if_neg e, ext.same l (by omega), ext.same (l + 1) (by omega)]
    have toQ : ∀ {h1 : Heap}, SameBut h h1 (fun b' _ => b' = wb) →
        SafeF S h1 ((do
            let outL ← setLv g.outLevels (cl + 1)
              (g.outLevels.getD cl 0 + (g.inLevels.getD (cl + 1) 0 - g.inLevels.getD cl 0))
            gcNext k m wb srt f cl { g with inLevels := IL', outLevels := outL }) h1)
          (fun g' h' => GCPost k m wb tmp ub h' g' ∧ g.curNumLevels ≤ g'.curNumLevels ∧
            SameBut h1 h' (fun b' _ => b' = wb)) →
        SafeF S h1 ((do
            let outL ← setLv g.outLevels (cl + 1)
              (g.outLevels.getD cl 0 + (g.inLevels.getD (cl + 1) 0 - g.inLevels.getD cl 0))
            gcNext k m wb srt f cl { g with inLevels := IL', outLevels := outL }) h1) (GCQ k m wb tmp ub g h) :=
      fun sb1 r => r.mono (fun g' h' ⟨p, hle, sb'⟩ => ⟨p, hle, sb1.trans sb' (fun _ _ x => x) (fun _ _ x => x)⟩)
    by_cases hne : g.inLevels.getD cl 0 ≠ g.outLevels.getD cl 0
    · rw [if_pos hne]
      apply vstep_shiftDown inv.cells (by omega) (by omega)
        (fun j h1 h2 => inv.live2 j h1 (by omega)) inv.gap hS
      intro h1 sb1 lv1 nr1
      have sb1' : SameBut h h1 (fun b' _ => b' = wb) := sb1.mono (fun _ _ x => x.1)
      apply toQ sb1'
      apply finA h1 sb1' (sb1.cells _ _ inv.cells)
      · intro j h1' h2'
        by_cases e : j < g.outLevels.getD cl 0
        · rw [sb1.st _ _ (fun x => by omega)]; exact inv.live1 j h1' e
        · exact lv1 j (by omega) h2'
      · intro j h1' h2'
        exact nr1 j h1' (by omega)
      · intro j h1' h2'
        rw [sb1.st _ _ (fun x => by omega)]; exact inv.live2 j (by omega) h2'
    · rw [if_neg hne]
      have e : g.inLevels.getD cl 0 = g.outLevels.getD cl 0 := by omega
      apply toQ (SameBut.refl _ _)
      apply finA h (SameBut.refl _ _) inv.cells
      · intro j h1' h2'
        by_cases e' : j < g.outLevels.getD cl 0
        · exact inv.live1 j h1' e'
        · exact inv.live2 j (by omega) (by omega)
      · intro j h1' h2'; omega
      · intro j h1' h2'; exact inv.live2 j (by omega) h2'
  · rw [if_neg hA]
    have hfull : ¬ g.curItemCount < g.target := fun x => hA (Or.inl x)
    have hpop2 : 2 ≤ g.inLevels.getD (cl + 1) 0 - g.inLevels.getD cl 0 := by
      have := levelCapacity_ge k g.curNumLevels cl m
      have : ¬ g.inLevels.getD (cl + 1) 0 - g.inLevels.getD cl 0 < levelCapacity k g.curNumLevels cl m :=
        fun x => hA (Or.inr x)
      omega
    apply step_lv (by omega)
    have toQ : ∀ {h1 : Heap} {prog : M GcState}, SameBut h h1 (fun b' _ => b' = wb) →
        SafeF S h1 (prog h1) (fun g' h' => GCPost k m wb tmp ub h' g' ∧ g.curNumLevels ≤ g'.curNumLevels ∧
            SameBut h1 h' (fun b' _ => b' = wb)) → SafeF S h1 (prog h1) (GCQ k m wb tmp ub g h) :=
      fun sb1 r => r.mono (fun g' h' ⟨p, hle, sb'⟩ => ⟨p, hle, sb1.trans sb' (fun _ _ x => x) (fun _ _ x => x)⟩)
    have setO : ∀ (x : Nat), ∃ OL', g.outLevels.set (cl + 1) x = OL' ∧ OL'.length = ub + 2 ∧
        (∀ l, l ≠ cl + 1 → OL'.getD l 0 = g.outLevels.getD l 0) ∧ OL'.getD (cl + 1) 0 = x := fun x =>
      ⟨_, rfl, by simp [hlenO], fun l hl => getD_set_ne _ _ _ _ hl, getD_set_eq _ _ _ (by omega)⟩
    by_cases hodd : (g.inLevels.getD (cl + 1) 0 - g.inLevels.getD cl 0) % 2 = 1
    · rw [if_pos hodd, if_pos hodd, if_pos hodd]
      obtain ⟨OL', eOL, hlenO', hOsame, hOnew⟩ := setO (g.outLevels.getD cl 0 + 1)
      obtain ⟨v, hv⟩ := inv.live2 (g.inLevels.getD cl 0) (Nat.le_refl _) (by omega)
      by_cases hne : g.outLevels.getD cl 0 ≠ g.inLevels.getD cl 0
      · rw [if_pos hne]
        apply vstep_moveAssignSlot inv.cells (by omega) hv inv.cells (by omega)
          (inv.gap _ (Nat.le_refl _) (by omega)) (fun x => by omega) hS hS
        intro h1 sb1 hd hs
        apply step_setLv _ (by omega)
        rw [eOL]
        apply toQ (sb1.mono (fun _ _ x => by rcases x with x | x <;> exact x.1))
        apply gcB1_spec (S := S) hm2 h64 hub hS ih inv ext hlenO' (odd := 1) hOsame hOnew (Nat.le_refl _)
          (by omega) (by omega) (by omega) hfull (sb1.cells _ _ inv.cells)
        · intro j h1' h2'
          by_cases e : j = g.outLevels.getD cl 0
          · subst e; exact ⟨v, hd⟩
          · rw [sb1.st _ _ (fun x => by rcases x with x | x <;> omega)]; exact inv.live1 j h1' (by omega)
        · intro j h1' h2'
          by_cases e : j = g.inLevels.getD cl 0
          · subst e; rw [hs]; simp
          · rw [sb1.st _ _ (fun x => by rcases x with x | x <;> omega)]; exact inv.gap j (by omega) (by omega)
        · intro j h1' h2'
          rw [sb1.st _ _ (fun x => by rcases x with x | x <;> omega)]; exact inv.live2 j (by omega) h2'
      · rw [if_neg hne]
        have e : g.outLevels.getD cl 0 = g.inLevels.getD cl 0 := by omega
        apply step_setLv _ (by omega)
        rw [eOL]
        apply toQ (SameBut.refl _ _)
        apply gcB1_spec (S := S) hm2 h64 hub hS ih inv ext hlenO' (odd := 1) hOsame hOnew (Nat.le_refl _)
          (by omega) (by omega) (by omega) hfull inv.cells
        · intro j h1' h2'
          by_cases e' : j = g.outLevels.getD cl 0
          · subst e'; rw [e]; exact ⟨v, hv⟩
          · exact inv.live1 j h1' (by omega)
        · intro j h1' h2'; omega
        · intro j h1' h2'; exact inv.live2 j (by omega) h2'
    · rw [if_neg hodd, if_neg hodd, if_neg hodd]
      obtain ⟨OL', eOL, hlenO', hOsame, hOnew⟩ := setO (g.outLevels.getD cl 0)
      apply step_setLv _ (by omega)
      rw [eOL]
      apply toQ (SameBut.refl _ _)
      exact gcB1_spec (S := S) hm2 h64 hub hS ih inv ext hlenO' (odd := 0) hOsame hOnew (by omega)
        (by omega) (by omega) (by omega) hfull inv.cells inv.live1 inv.gap inv.live2


theorem gcLoop_spec {S : Nat → Bool} {k m wb tmp ub finalN : Nat} {srt : Bool} (hm2 : 2 ≤ m)
    (h64 : finalN < 2 ^ 64) (hub : ub = ubOnNumLevels finalN) (hS : S wb = true) :
    ∀ fuel cl g h, GCInv k m wb tmp ub finalN h cl g →
      SafeF S h (generalCompressLoop k m wb srt fuel cl g h) (GCQ k m wb tmp ub g h) := by
  intro fuel
  induction fuel with
  | zero =>
    intro cl g h _
    unfold generalCompressLoop
    exact SafeF.exc _
  | succ f ih =>
    intro cl g h inv
    rw [gcLoop_eq]
    have hN := inv.hN
    have hcl := inv.hcl
    have hlenI := inv.lenI
    by_cases etop : cl = g.curNumLevels - 1
    · rw [if_pos etop]
      apply step_lv (by omega)
      apply step_setLv _ (by omega)
      apply gcBody_spec (S := S) hm2 h64 hub hS ih inv
      refine ⟨by simp, fun l hl => getD_set_ne _ _ _ _ (by omega), fun _ => ?_⟩
      have e1 : g.curNumLevels + 1 = cl + 2 := by omega
      have e2 : cl + 1 = g.curNumLevels := by omega
      rw [e1, getD_set_eq _ _ _ (by omega), e2]
      exact inv.inTop
    · rw [if_neg etop]
      exact gcBody_spec (S := S) hm2 h64 hub hS ih inv ⟨rfl, fun _ _ => rfl, fun e => absurd e etop⟩

/-- `general_compress` on the populated work arrays -/
theorem generalCompress_spec {S : Nat → Bool} {k m wb tmp ub finalN prov : Nat} {srt : Bool} {coins : List Bool}
    (hm2 : 2 ≤ m) (h64 : finalN < 2 ^ 64) (hub : ub = ubOnNumLevels finalN) (hS : S wb = true) {h : Heap}
    {WL : List Nat} (hlen : WL.length = ub + 2) (hp1 : 1 ≤ prov) (hpu : prov ≤ ub) (hw0 : WL.getD 0 0 = 0)
    (hmono : ∀ l, l < prov → WL.getD l 0 ≤ WL.getD (l + 1) 0) (htop : WL.getD prov 0 = tmp)
    (hwt : wsum (pop WL) prov = finalN) (hc : HasCells h wb tmp) (hl : LiveOn h wb 0 tmp) :
    SafeF S h (generalCompress k m prov wb WL (List.replicate (ub + 2) 0) srt coins h)
      (fun r h' => r.2.1.length = ub + 2 ∧ prov ≤ r.1.finalNumLevels ∧ r.1.finalNumLevels ≤ ub ∧
        r.2.1.getD 0 0 = 0 ∧ (∀ l, l < r.1.finalNumLevels → r.2.1.getD l 0 ≤ r.2.1.getD (l + 1) 0) ∧
        r.2.1.getD r.1.finalNumLevels 0 = r.1.finalNumItems ∧ r.1.finalNumItems ≤ r.1.finalCapacity ∧
        r.1.finalCapacity = computeTotalCapacity k m r.1.finalNumLevels ∧ r.1.finalNumItems ≤ tmp ∧
        SameBut h h' (fun b' _ => b' = wb) ∧ HasCells h' wb tmp ∧ LiveOn h' wb 0 r.1.finalNumItems ∧
        (∀ j, r.1.finalNumItems ≤ j → j < tmp → stAt h' wb j = .raw)) := by
  unfold generalCompress
  rw [if_neg (by omega)]
  apply step_lv (by omega)
  apply step_lv (by omega)
  apply step_setLv _ (by simp)
  rw [htop, hw0]
  generalize hOL0 : (List.replicate (ub + 2) 0).set 0 0 = OL0
  have hlenO : OL0.length = ub + 2 := by rw [← hOL0]; simp
  have hO0 : OL0.getD 0 0 = 0 := by rw [← hOL0, getD_set_eq _ _ _ (by simp)]
  have inv0 : GCInv k m wb tmp ub finalN h 0
      (⟨WL, OL0, prov, tmp - 0, computeTotalCapacity k m prov, coins⟩ : GcState) := by
    refine ⟨hlen, hlenO, hpu, by simp only; omega, hO0, fun l hl' => by omega, fun l _ h2 => hmono l h2, htop, ?_, hc,
      fun j h1 h2 => ?_, fun j h1 h2 => ?_, ?_, rfl, Or.inr ?_, ?_⟩
    · simp only; rw [hO0]; omega
    · simp only at h2; rw [hO0] at h2; omega
    · simp only at h1 h2; rw [hO0] at h1; rw [hw0] at h2; omega
    · simp only; rw [hw0]; exact hl
    · simp only; rw [hO0]; simp
    · simp only
      rw [← hwt]
      apply wsum_congr
      intro l _
      simp [mixPop]
  apply SafeF.bind' (gcLoop_spec (S := S) (srt := srt) hm2 h64 hub hS (WL.length + 1) 0 _ h inv0)
  intro g1 h1 ⟨post, hNle, sb1⟩ _
  simp only at hNle
  apply step_lv (by have := post.lenO; have := post.hN; omega)
  apply step_lv (by have := post.lenO; omega)
  rw [post.out0]
  by_cases hchk : g1.outLevels.getD g1.curNumLevels 0 - 0 ≠ g1.curItemCount
  · rw [if_pos hchk]; exact SafeF.exc _
  rw [if_neg hchk]
  have ecnt : g1.curItemCount = g1.outLevels.getD g1.curNumLevels 0 := by omega
  have hle := post.le
  apply vstep_destroyRange post.cells (by omega : g1.curItemCount + (tmp - 0 - g1.curItemCount) ≤ tmp)
    (fun j h1' h2' => post.nonraw j (by omega) (by omega)) hS
  intro h2 sb2 hr2
  apply SafeF.pure
  refine ⟨post.lenO, hNle, post.hN, post.out0, post.mono, ecnt.symm, ?_, post.tgt, by simp only; omega,
    sb1.trans (sb2.mono (fun _ _ x => x.1)) (fun _ _ x => x) (fun _ _ x => x), sb2.cells _ _ post.cells, ?_, ?_⟩
  · simp only
    rcases post.cap with c | c
    · omega
    · omega
  · intro j h1' h2'
    simp only at h2'
    rw [sb2.st _ _ (fun x => by omega)]
    exact post.live j h1' (by omega)
  · intro j h1' h2'
    simp only at h1'
    exact hr2 j h1' (by omega)

end DS.Life.Kll

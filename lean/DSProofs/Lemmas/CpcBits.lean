/- Bit-level helper lemmas for the CPC model (free to change; property statements live in Props/). -/
import DSModel.Cpc.Sketch
namespace DS.Cpc

theorem rc_div (r c : Nat) (hc : c < 64) : (r * 64 + c) / 64 = r := by omega
theorem rc_mod (r c : Nat) (hc : c < 64) : (r * 64 + c) % 64 = c := by omega
theorem rc_eq_iff (r c rc : Nat) (hc : c < 64) : r * 64 + c = rc ↔ (rc / 64 = r ∧ rc % 64 = c) := by omega

/-- conditional XOR fold over a duplicate-free list of row_col codes: bit `c` of row `r` is flipped iff `(r,c)` is listed -/
theorem testBit_foldl_xor (l : List Nat) (hn : l.Nodup) (r c : Nat) (hc : c < 64) (b : Nat) :
    (l.foldl (fun m rc => if rc / 64 = r then m ^^^ 2^(rc % 64) else m) b).testBit c
      = (b.testBit c ^^ decide (r * 64 + c ∈ l)) := by
  induction l generalizing b with
  | nil => simp
  | cons x t ih =>
    rw [List.nodup_cons] at hn
    simp only [List.foldl_cons]
    rw [ih hn.2]
    by_cases hx : x / 64 = r
    · simp only [hx, if_true, Nat.testBit_xor, Nat.testBit_two_pow, List.mem_cons]
      by_cases hcx : x % 64 = c
      · have hxe : r * 64 + c = x := by omega
        have : r * 64 + c ∉ t := by rw [hxe]; exact hn.1
        simp [hcx, hxe, hn.1]
      · have hne : r * 64 + c ≠ x := by omega
        simp [hcx, hne]
    · have hne : r * 64 + c ≠ x := by omega
      simp [hx, hne]

/-- conditional OR fold: bit `c` of row `r` is set iff it was set or `(r,c)` is listed -/
theorem testBit_foldl_or (l : List Nat) (r c : Nat) (hc : c < 64) (b : Nat) :
    (l.foldl (fun m rc => if rc / 64 = r then m ||| 2^(rc % 64) else m) b).testBit c
      = (b.testBit c || decide (r * 64 + c ∈ l)) := by
  induction l generalizing b with
  | nil => simp
  | cons x t ih =>
    simp only [List.foldl_cons]
    rw [ih]
    by_cases hx : x / 64 = r
    · simp only [hx, if_true, Nat.testBit_or, Nat.testBit_two_pow, List.mem_cons]
      by_cases hcx : x % 64 = c
      · have hxe : r * 64 + c = x := by omega
        simp [hcx, hxe]
      · have hne : r * 64 + c ≠ x := by omega
        simp [hcx, hne]
    · have hne : r * 64 + c ≠ x := by omega
      simp [hx, hne]

theorem testBit_255 (j : Nat) : (255 : Nat).testBit j = decide (j < 8) := by
  have : (255 : Nat) = 2^8 - 1 := by decide
  rw [this, Nat.testBit_two_pow_sub_one]

/-- bits of the surprise word of a row (for `off ≤ 56`) -/
theorem testBit_surprises (off m c : Nat) (hc : c < 64) :
    (surprises off m).testBit c =
      if c < off then !m.testBit c else if c < off + 8 then false else m.testBit c := by
  unfold surprises
  simp only [Nat.testBit_xor, Nat.testBit_and, Nat.testBit_shiftLeft, Nat.testBit_two_pow_sub_one, testBit_255]
  by_cases h1 : c < off
  · have : ¬ (c ≥ off) := by omega
    simp [h1, hc, this]
  · by_cases h2 : c < off + 8
    · have h3 : c ≥ off := by omega
      have h4 : c - off < 8 := by omega
      simp [h1, h2, hc, h3, h4]
    · have h3 : c ≥ off := by omega
      have h4 : ¬ (c - off < 8) := by omega
      simp [h1, h2, hc, h3, h4]

theorem testBit_surprises_ge (off m c : Nat) (hc : 64 ≤ c) (ho : off ≤ 56) : (surprises off m).testBit c = false := by
  unfold surprises
  simp only [Nat.testBit_xor, Nat.testBit_and, Nat.testBit_shiftLeft, Nat.testBit_two_pow_sub_one, testBit_255]
  have h1 : ¬ (c < off) := by omega
  have h2 : ¬ (c < 64) := by omega
  have h3 : c ≥ off := by omega
  have h4 : ¬ (c - off < 8) := by omega
  simp [h1, h2, h3, h4]

/-- `ctz64`: no bit below it is set -/
theorem ctzGo_spec (x : Nat) (f i c : Nat) (h1 : i ≤ c) (h2 : c < ctzGo x f i) : x.testBit c = false := by
  induction f generalizing i with
  | zero => simp [ctzGo] at h2; omega
  | succ f ih =>
    simp only [ctzGo] at h2
    split at h2
    · omega
    · rename_i hb
      by_cases hic : i = c
      · subst hic; simpa using hb
      · exact ih (i + 1) (by omega) h2

theorem ctz64_spec (x c : Nat) (h : c < ctz64 x) : x.testBit c = false :=
  ctzGo_spec x 64 0 c (Nat.zero_le _) h

theorem testBit_foldl_or_range (f : Nat → Nat) (n c : Nat) (a : Nat) :
    ((List.range n).foldl (fun a i => a ||| f i) a).testBit c = (a.testBit c || (List.range n).any (fun i => (f i).testBit c)) := by
  induction n generalizing a with
  | zero => simp
  | succ n ih =>
    rw [List.range_succ, List.foldl_append, List.any_append]
    simp [ih, Nat.testBit_or, Bool.or_assoc]

theorem lt_two_pow_of_bits (x n : Nat) (h : ∀ i, n ≤ i → x.testBit i = false) : x < 2^n :=
  Nat.lt_pow_two_of_testBit x (fun i hi => h i hi)

end DS.Cpc

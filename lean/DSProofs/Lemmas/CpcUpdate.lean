/- `update_sparse`, `update_windowed`, `row_col_update` preserve the invariant (free to change). -/
import DSProofs.Lemmas.CpcStep
namespace DS.Cpc

theorem rc_inj (r c r' c' : Nat) (hc : c < 64) (hc' : c' < 64) : r' * 64 + c' = r * 64 + c ↔ (r' = r ∧ c' = c) := by omega

/-! ### sparse -/

theorem inv_updateSparse (T : HipTables) (s : Sketch) (xs : List Nat) (r c : Nat) (h : Inv s xs)
    (hw : s.window = []) (hr : r < 2^s.lgK) (hc : c < 64) :
    Inv (updateSparse T s (r * 64 + c)) (xs ++ [r * 64 + c]) := by
  have ho : s.offset = 0 := h.rep.sparse hw
  have hfic : s.fic = 0 := by have := h.ficLe; omega
  have hbit : s.bit r c = decide (r * 64 + c ∈ s.table) := by simp [Sketch.bit, hw]
  unfold updateSparse
  by_cases hm : r * 64 + c ∈ s.table
  · simp only [hm, if_true]
    exact inv_dup s xs _ h ((h.bits r c hr hc).1 (by rw [hbit]; simpa using hm))
  · simp only [hm, if_false]
    have hnew : s.bit r c = false := by rw [hbit]; simpa using hm
    -- the state after insertion
    let s1 : Sketch := updateHip T { s with table := insertS (r * 64 + c) s.table, numCoupons := s.numCoupons + 1 } (r * 64 + c)
    have hrep1 : Rep s1 := by
      refine ⟨sorted_insertS _ _ h.rep.sorted, ?_, h.rep.offLe, fun _ => ho, ?_, ?_, ?_⟩
      · intro rc hrc
        rcases (mem_insertS _ _ _).1 hrc with rfl | hrc
        · show r * 64 + c < 64 * 2^s.lgK; omega
        · exact h.rep.tbl_lt rc hrc
      · intro hne; exact absurd hw hne
      · intro b hb; exact h.rep.win_byte b hb
      · intro hne; exact absurd hw hne
    have hbits1 : ∀ r' c', r' < 2^s.lgK → c' < 64 →
        s1.bit r' c' = (s.bit r' c' || (decide (r' = r) && decide (c' = c))) := by
      intro r' c' _ hc'
      show Sketch.bit { s with table := insertS (r * 64 + c) s.table, numCoupons := s.numCoupons + 1 } r' c' = _
      simp only [Sketch.bit, hw, List.isEmpty_nil, if_true, mem_insertS, rc_inj r c r' c' hc hc']
      by_cases h1 : r' = r <;> by_cases h2 : c' = c <;> simp [h1, h2]
    show Inv (if 32 * s1.numCoupons ≥ 3 * 2^s1.lgK then promote s1 else s1) _
    have hc1 : s1.numCoupons = s.numCoupons + 1 := rfl
    have hsp := h.sparseC hw
    have hkpos := Nat.two_pow_pos s.lgK
    split
    · rename_i hge
      have hge' : 3 * 2^s.lgK ≤ 32 * (s.numCoupons + 1) := hge
      refine inv_novel s (promote s1) xs r c h hr hc hnew rfl (rep_promote s1 hrep1 ho) ?_ hc1 ?_ ?_ ?_ ?_ ?_ ?_
      · intro r' c' hr' hc'
        rw [promote_bit s1 hw ho r' c' hr' hc']; exact hbits1 r' c' hr' hc'
      · show s.fic ≤ s.offset; omega
      · intro r' c' _ hc'; exact absurd hc' (by show ¬ c' < s.fic; omega)
      · intro hwn; exact absurd hwn (promote_window_ne s1)
      · intro _; exact hge'
      · intro _; left
        show 8 * (s.numCoupons + 1) < (27 + 8 * s.offset) * 2^s.lgK
        rw [ho]; omega
      · intro h1; exact absurd h1 (by show ¬ 1 ≤ s.offset; omega)
    · rename_i hlt
      have hlt' : ¬ 3 * 2^s.lgK ≤ 32 * (s.numCoupons + 1) := hlt
      refine inv_novel s s1 xs r c h hr hc hnew rfl hrep1 hbits1 hc1 ?_ ?_ ?_ ?_ ?_ ?_
      · show s.fic ≤ s.offset; omega
      · intro r' c' _ hc'; exact absurd hc' (by show ¬ c' < s.fic; omega)
      · intro _; show 32 * (s.numCoupons + 1) < 3 * 2^s.lgK; omega
      · intro hwn; exact absurd hw hwn
      · intro hwn; exact absurd hw hwn
      · intro h1; exact absurd h1 (by show ¬ 1 ≤ s.offset; omega)

/-! ### windowed -/

/-- common tail: a novel coupon was recorded in `s1` (same counters as `s`) -/
theorem inv_afterNovel (T : HipTables) (s s1 : Sketch) (xs : List Nat) (r c : Nat) (h : Inv s xs)
    (hw : s.window ≠ []) (hr : r < 2^s.lgK) (hc : c < 64) (hnew : s.bit r c = false)
    (hrep1 : Rep s1) (hw1 : s1.window ≠ [])
    (hlg : s1.lgK = s.lgK) (hC : s1.numCoupons = s.numCoupons) (hoff : s1.offset = s.offset) (hfic : s1.fic = s.fic)
    (hbits1 : ∀ r' c', r' < 2^s.lgK → c' < 64 → s1.bit r' c' = (s.bit r' c' || (decide (r' = r) && decide (c' = c)))) :
    Inv (afterNovelWindowed T s1 (r * 64 + c)) (xs ++ [r * 64 + c]) := by
  let s2 : Sketch := updateHip T { s1 with numCoupons := s1.numCoupons + 1 } (r * 64 + c)
  have hrep2 : Rep s2 := ⟨hrep1.1, hrep1.2, hrep1.3, hrep1.4, hrep1.5, hrep1.6, hrep1.7⟩
  have hbits2 : ∀ r' c', r' < 2^s.lgK → c' < 64 → s2.bit r' c' = (s.bit r' c' || (decide (r' = r) && decide (c' = c))) := hbits1
  have hC2 : s2.numCoupons = s.numCoupons + 1 := by show s1.numCoupons + 1 = _; rw [hC]
  have hlg2 : s2.lgK = s.lgK := hlg
  have hoff2 : s2.offset = s.offset := hoff
  have hfic2 : s2.fic = s.fic := hfic
  have hw2 : s2.window ≠ [] := hw1
  have hwinC := h.winC hw
  have hhi := h.offHi hw
  have hlo := h.offLo
  have hkpos := Nat.two_pow_pos s.lgK
  have hficFull2 : ∀ r' c', r' < 2^s.lgK → c' < s.fic → s2.bit r' c' = true := by
    intro r' c' hr' hc'
    have hc64 : c' < 64 := by have := h.ficLe; have := h.rep.offLe; omega
    rw [hbits2 r' c' hr' hc64, h.ficFull r' c' hr' hc']; rfl
  show Inv (if 8 * s2.numCoupons ≥ (27 + 8 * s2.offset) * 2^s2.lgK then moveWindow T s2 else s2) _
  rw [hC2, hoff2, hlg2]
  have e1 : (27 + 8 * (s.offset + 1)) * 2^s.lgK = (27 + 8 * s.offset) * 2^s.lgK + 8 * 2^s.lgK := by
    rw [show 27 + 8 * (s.offset + 1) = (27 + 8 * s.offset) + 8 by omega, Nat.add_mul]
  have e2 : (19 + 8 * (s.offset + 1)) * 2^s.lgK = (27 + 8 * s.offset) * 2^s.lgK := by
    rw [show 19 + 8 * (s.offset + 1) = 27 + 8 * s.offset by omega]
  split
  · rename_i hmv
    by_cases hle : s2.offset + 1 ≤ 56
    · have hle' : s.offset + 1 ≤ 56 := by rw [← hoff2]; exact hle
      refine inv_novel s (moveWindow T s2) xs r c h hr hc hnew ?_ (rep_moveWindow T s2 hle hrep2) ?_ ?_ ?_ ?_ ?_ ?_ ?_ ?_
      · rw [moveWindow_lgK, hlg2]
      · intro r' c' hr' hc'
        rw [moveWindow_bit T s2 hle hrep2 r' c' (by rw [hlg2]; exact hr') hc']; exact hbits2 r' c' hr' hc'
      · rw [moveWindow_numCoupons, hC2]
      · rw [moveWindow_fic T s2 hle, moveWindow_offset T s2 hle]; exact ficOfMatrix_le _ _ _
      · intro r' c' hr' hc'
        exact moveWindow_ficFull T s2 hle hrep2 r' c' (by rw [hlg2]; exact hr') hc'
      · intro hwn; exact absurd hwn (moveWindow_window_ne T s2 hle)
      · intro _; rw [moveWindow_numCoupons, hC2]; omega
      · intro _; left
        rw [moveWindow_numCoupons, hC2, moveWindow_offset T s2 hle, hoff2, e1]
        rcases hhi with h1 | h1
        · omega
        · omega
      · intro _
        rw [moveWindow_numCoupons, hC2, moveWindow_offset T s2 hle, hoff2, e2]
        exact hmv
    · rw [moveWindow_of_gt T s2 (by omega)]
      refine inv_novel s s2 xs r c h hr hc hnew hlg2 hrep2 hbits2 hC2 ?_ ?_ ?_ ?_ ?_ ?_
      · rw [hfic2, hoff2]; exact h.ficLe
      · rw [hfic2]; exact hficFull2
      · intro hwn; exact absurd hwn hw2
      · intro _; rw [hC2]; omega
      · intro _; right; have := h.rep.offLe; omega
      · intro h1; rw [hoff2] at h1 ⊢; rw [hC2]; have := hlo h1; omega
  · rename_i hnm
    refine inv_novel s s2 xs r c h hr hc hnew hlg2 hrep2 hbits2 hC2 ?_ ?_ ?_ ?_ ?_ ?_
    · rw [hfic2, hoff2]; exact h.ficLe
    · rw [hfic2]; exact hficFull2
    · intro hwn; exact absurd hwn hw2
    · intro _; rw [hC2]; omega
    · intro _; left; rw [hC2, hoff2]; omega
    · intro h1; rw [hoff2] at h1 ⊢; rw [hC2]; have := hlo h1; omega

theorem or_two_pow_eq_self_iff (x i : Nat) : x ||| 2^i = x ↔ x.testBit i = true := by
  constructor
  · intro h
    have := congrArg (fun y => y.testBit i) h
    simp only [Nat.testBit_or, Nat.testBit_two_pow_self, Bool.or_true] at this
    exact this.symm
  · intro h
    apply Nat.eq_of_testBit_eq
    intro j
    rw [Nat.testBit_or, Nat.testBit_two_pow]
    by_cases hij : i = j
    · subst hij; simp [h]
    · simp [hij]

theorem getD_set (l : List Nat) (i j v : Nat) (hi : i < l.length) :
    (l.set i v).getD j 0 = if i = j then v else l.getD j 0 := by
  simp only [List.getD_eq_getElem?_getD, List.getElem?_set, hi, if_true]
  split <;> simp

theorem inv_updateWindowed (T : HipTables) (s : Sketch) (xs : List Nat) (r c : Nat) (h : Inv s xs)
    (hw : s.window ≠ []) (hr : r < 2^s.lgK) (hc : c < 64) :
    Inv (updateWindowed T s (r * 64 + c)) (xs ++ [r * 64 + c]) := by
  have hne := isEmpty_false_of_ne hw
  have hlen := h.rep.win_len hw
  unfold updateWindowed
  simp only [rc_mod r c hc, rc_div r c hc]
  by_cases h1 : c < s.offset
  · -- before the window: inverted logic
    simp only [h1, if_true]
    have hbit : s.bit r c = !decide (r * 64 + c ∈ s.table) := by simp [Sketch.bit, hne, h1]
    by_cases hm : r * 64 + c ∈ s.table
    · simp only [hm, if_true]
      have hnew : s.bit r c = false := by rw [hbit]; simp [hm]
      refine inv_afterNovel T s _ xs r c h hw hr hc hnew ?_ hw rfl rfl rfl rfl ?_
      · refine ⟨sorted_erase _ _ h.rep.sorted, ?_, h.rep.offLe, h.rep.sparse, h.rep.win_len, h.rep.win_byte, ?_⟩
        · intro rc hrc; exact h.rep.tbl_lt rc ((mem_erase_sorted _ _ _ h.rep.sorted).1 hrc).2
        · intro hwn rc hrc; exact h.rep.zone hwn rc ((mem_erase_sorted _ _ _ h.rep.sorted).1 hrc).2
      · intro r' c' _ hc'
        simp only [Sketch.bit, hne, Bool.false_eq_true, if_false, mem_erase_sorted _ _ _ h.rep.sorted,
          ne_eq, rc_inj r c r' c' hc hc']
        by_cases g1 : c' < s.offset
        · simp only [g1, if_true]
          by_cases e1 : r' = r <;> by_cases e2 : c' = c <;> simp [e1, e2, hm]
        · have e2 : c' ≠ c := by omega
          by_cases g2 : c' < s.offset + 8 <;> simp [g1, g2, e2]
    · simp only [hm, if_false]
      exact inv_dup s xs _ h ((h.bits r c hr hc).1 (by rw [hbit]; simp [hm]))
  · simp only [h1, if_false]
    by_cases h2 : c < s.offset + 8
    · -- inside the window
      simp only [h2, if_true]
      have hbit : s.bit r c = (s.window.getD r 0).testBit (c - s.offset) := by simp [Sketch.bit, hne, h1, h2]
      by_cases he : s.window.getD r 0 ||| 2^(c - s.offset) = s.window.getD r 0
      · simp only [he, if_true]
        exact inv_dup s xs _ h ((h.bits r c hr hc).1 (by rw [hbit]; exact (or_two_pow_eq_self_iff _ _).1 he))
      · simp only [he, if_false]
        have hnew : s.bit r c = false := by
          rw [hbit]
          cases hb : (s.window.getD r 0).testBit (c - s.offset)
          · rfl
          · exact absurd ((or_two_pow_eq_self_iff _ _).2 hb) he
        have hrl : r < s.window.length := by rw [hlen]; exact hr
        have hw1 : s.window.set r (s.window.getD r 0 ||| 2^(c - s.offset)) ≠ [] := by
          intro hnil; exact hw ((List.set_eq_nil_iff _ _).1 hnil)
        refine inv_afterNovel T s _ xs r c h hw hr hc hnew ?_ hw1 rfl rfl rfl rfl ?_
        · refine ⟨h.rep.sorted, h.rep.tbl_lt, h.rep.offLe, ?_, ?_, ?_, ?_⟩
          · intro hnil; exact absurd hnil hw1
          · intro _; show (s.window.set r _).length = _; rw [List.length_set]; exact hlen
          · intro b hb
            rcases List.mem_or_eq_of_mem_set hb with hb | rfl
            · exact h.rep.win_byte b hb
            · exact Nat.or_lt_two_pow (n := 8) (getD_window_lt s h.rep r)
                (Nat.pow_lt_pow_right (by decide) (by omega))
          · intro _; exact h.rep.zone hw
        · intro r' c' _ hc'
          have hne1 := isEmpty_false_of_ne hw1
          simp only [Sketch.bit, hne1, hne, Bool.false_eq_true, if_false]
          by_cases g1 : c' < s.offset
          · have e2 : c' ≠ c := by omega
            simp [g1, e2]
          · by_cases g2 : c' < s.offset + 8
            · simp only [g1, g2, if_true, if_false]
              rw [getD_set _ _ _ _ hrl]
              by_cases e1 : r = r'
              · subst e1
                simp only [if_true, Nat.testBit_or, Nat.testBit_two_pow, decide_true, Bool.true_and]
                congr 1
                by_cases e2 : c' = c
                · subst e2; simp
                · have : c - s.offset ≠ c' - s.offset := by omega
                  simp [e2, this]
              · have : r' ≠ r := fun e => e1 e.symm
                simp [e1, this]
            · have e2 : c' ≠ c := by omega
              simp [g1, g2, e2]
    · -- after the window
      simp only [h2, if_false]
      have hbit : s.bit r c = decide (r * 64 + c ∈ s.table) := by simp [Sketch.bit, hne, h1, h2]
      by_cases hm : r * 64 + c ∈ s.table
      · simp only [hm, if_true]
        exact inv_dup s xs _ h ((h.bits r c hr hc).1 (by rw [hbit]; simpa using hm))
      · simp only [hm, if_false]
        have hnew : s.bit r c = false := by rw [hbit]; simpa using hm
        refine inv_afterNovel T s _ xs r c h hw hr hc hnew ?_ hw rfl rfl rfl rfl ?_
        · refine ⟨sorted_insertS _ _ h.rep.sorted, ?_, h.rep.offLe, h.rep.sparse, h.rep.win_len, h.rep.win_byte, ?_⟩
          · intro rc hrc
            rcases (mem_insertS _ _ _).1 hrc with rfl | hrc
            · show r * 64 + c < 64 * 2^s.lgK; omega
            · exact h.rep.tbl_lt rc hrc
          · intro hwn rc hrc
            rcases (mem_insertS _ _ _).1 hrc with rfl | hrc
            · right; rw [rc_mod r c hc]; show s.offset + 8 ≤ c; omega
            · exact h.rep.zone hwn rc hrc
        · intro r' c' _ hc'
          simp only [Sketch.bit, hne, Bool.false_eq_true, if_false, mem_insertS, rc_inj r c r' c' hc hc']
          by_cases g1 : c' < s.offset
          · have e2 : c' ≠ c := by omega
            simp [g1, e2]
          · by_cases g2 : c' < s.offset + 8
            · have e2 : c' ≠ c := by omega
              simp [g1, g2, e2]
            · simp only [g1, g2, if_false]
              by_cases e1 : r' = r <;> by_cases e2 : c' = c <;> simp [e1, e2]

/-- `row_col_update` preserves the invariant (for a valid row_col code) -/
theorem inv_rowColUpdate (T : HipTables) (s : Sketch) (xs : List Nat) (rc : Nat) (h : Inv s xs)
    (hrc : rc < 64 * 2^s.lgK) : Inv (rowColUpdate T s rc) (xs ++ [rc]) := by
  have hr : rc / 64 < 2^s.lgK := by omega
  have hc : rc % 64 < 64 := Nat.mod_lt _ (by decide)
  have hrc' : rc = (rc / 64) * 64 + rc % 64 := by omega
  unfold rowColUpdate
  split
  · rename_i hf
    -- every column below fic is full: the coupon is already there
    have := h.ficFull (rc / 64) (rc % 64) hr hf
    have hm := (h.bits _ _ hr hc).1 this
    rw [← hrc'] at hm
    exact inv_dup s xs rc h hm
  · split
    · rename_i hw
      have hw' : s.window = [] := List.isEmpty_iff.1 hw
      rw [hrc']; exact inv_updateSparse T s xs _ _ h hw' hr hc
    · rename_i hw
      have hw' : s.window ≠ [] := fun e => hw (by simp [e])
      rw [hrc']; exact inv_updateWindowed T s xs _ _ h hw' hr hc

theorem updateSparse_lgK (T s rc) : (updateSparse T s rc).lgK = s.lgK := by
  simp only [updateSparse]; split
  · rfl
  · split <;> rfl

theorem afterNovelWindowed_lgK (T s rc) : (afterNovelWindowed T s rc).lgK = s.lgK := by
  simp only [afterNovelWindowed]; split
  · rw [moveWindow_lgK]; rfl
  · rfl

theorem updateWindowed_lgK (T s rc) : (updateWindowed T s rc).lgK = s.lgK := by
  simp only [updateWindowed]
  repeat' split
  all_goals first | rfl | (rw [afterNovelWindowed_lgK])

theorem rowColUpdate_lgK (T s rc) : (rowColUpdate T s rc).lgK = s.lgK := by
  simp only [rowColUpdate]; split
  · rfl
  · split
    · exact updateSparse_lgK T s rc
    · exact updateWindowed_lgK T s rc

theorem run_snoc (T : HipTables) (lgK : Nat) (rcs : List Nat) (rc : Nat) :
    run T lgK (rcs ++ [rc]) = rowColUpdate T (run T lgK rcs) rc := by
  simp [run, List.foldl_append]

theorem foldl_lgK (T : HipTables) (rcs : List Nat) (s : Sketch) : (rcs.foldl (rowColUpdate T) s).lgK = s.lgK := by
  induction rcs generalizing s with
  | nil => rfl
  | cons x t ih => rw [List.foldl_cons, ih, rowColUpdate_lgK]

theorem run_lgK (T : HipTables) (lgK : Nat) (rcs : List Nat) : (run T lgK rcs).lgK = lgK := foldl_lgK T rcs (fresh lgK)

theorem inv_foldl (T : HipTables) (rcs : List Nat) (s : Sketch) (xs : List Nat) (h : Inv s xs)
    (hr : ∀ rc ∈ rcs, rc < 64 * 2^s.lgK) : Inv (rcs.foldl (rowColUpdate T) s) (xs ++ rcs) := by
  induction rcs generalizing s xs with
  | nil => simpa using h
  | cons x t ih =>
    rw [List.foldl_cons]
    have := ih (rowColUpdate T s x) (xs ++ [x]) (inv_rowColUpdate T s xs x h (hr x List.mem_cons_self))
      (by intro rc hrc; rw [rowColUpdate_lgK]; exact hr rc (List.mem_cons_of_mem _ hrc))
    simpa using this

/-- the invariant holds after every stream of valid row_col codes -/
theorem inv_run (T : HipTables) (lgK : Nat) (rcs : List Nat) (h : ∀ rc ∈ rcs, rc < 64 * 2^lgK) :
    Inv (run T lgK rcs) rcs := by
  have := inv_foldl T rcs (fresh lgK) [] (inv_fresh lgK) h
  simpa [run] using this

end DS.Cpc

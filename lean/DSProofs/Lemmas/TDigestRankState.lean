/-
t-digest (C17), exact arithmetic: `get_rank` on a state satisfying the invariant — never throws on a
non-empty digest, is 0 below min, 1 above max, inside [0,1], non-decreasing.  Consequence recorded here: after
the compress the first / last centroid means ARE min / max, so the two tail branches of `get_rank` (whose left
formula lacks the division by the total weight) are never taken from a state reachable by updates and merges.
-/
import DSProofs.Lemmas.TDigestRankMono
namespace DS.TDigest
open Num Conv

/-- a compressed, non-empty state: the first / last centroid carry min / max -/
structure Compressed (s : St Rat) : Prop where
  inv : Inv s
  buf : s.buf = []
  ne : s.cs ≠ []

theorem Compressed.head {s : St Rat} (h : Compressed s) : ∃ f, s.cs.head? = some f ∧ f.mean = s.min ∧ f.weight = 1 := by
  have hne : s.isEmpty = false := (isEmpty_false_iff s).2 (Or.inl h.ne)
  rcases h.inv.minAtt hne with h1 | ⟨c, hc, hcm⟩
  · rw [h.buf] at h1; simp at h1
  · exact ⟨c, hc, hcm, h.inv.headW c hc⟩

theorem Compressed.last {s : St Rat} (h : Compressed s) : ∃ l, s.cs.getLast? = some l ∧ l.mean = s.max ∧ l.weight = 1 := by
  have hne : s.isEmpty = false := (isEmpty_false_iff s).2 (Or.inl h.ne)
  rcases h.inv.maxAtt hne with h1 | ⟨c, hc, hcm⟩
  · rw [h.buf] at h1; simp at h1
  · exact ⟨c, hc, hcm, h.inv.lastW c hc⟩

theorem Compressed.cw_pos {s : St Rat} (h : Compressed s) : 0 < s.cw := by
  obtain ⟨f, hf, _, hw⟩ := h.head
  have hmem : f ∈ s.cs := List.mem_of_head? hf
  rw [h.inv.cw]
  obtain ⟨a, b, hab⟩ := List.append_of_mem hmem
  rw [hab]; simp; omega

theorem compress_compressed (sc : Scale Rat) (hsc : ScaleOK sc) (tun : Tun) (s : St Rat) (hs : Inv s)
    (hne : s.isEmpty = false) : Compressed (compress sc tun s) := by
  obtain ⟨hinv, hbuf, hemp, _⟩ := compress_inv sc hsc tun s hs
  refine ⟨hinv, hbuf, ?_⟩
  rw [hne] at hemp
  rcases (isEmpty_false_iff _).1 hemp with h | h
  · exact h
  · exact absurd hbuf h

/-- inside [min, max] the tails are not taken: `rankC` is `rankMid` -/
theorem rankC_mid {s : St Rat} (h : Compressed s) (x : Rat) (h1 : s.min ≤ x) (h2 : x ≤ s.max) :
    rankC s x = rankMid s.cs (s.cw : Rat) x := by
  obtain ⟨f, hf, hfm, _⟩ := h.head
  obtain ⟨l, hl, hlm, _⟩ := h.last
  unfold rankC
  rw [hf, hl]
  simp only []
  have a : (x <. f.mean) = false := by simp [hfm, h1]
  have b : (l.mean <. x) = false := by simp [hlm, h2]
  simp only [a, b, Bool.false_eq_true, if_false]
  rfl

theorem rankC_val {s : St Rat} (h : Compressed s) (x : Rat) (h1 : s.min ≤ x) (h2 : x ≤ s.max) :
    ∃ v, rankC s x = some (v / (s.cw : Rat)) ∧ RankVal s.cs x v := by
  obtain ⟨f, hf, hfm, _⟩ := h.head
  obtain ⟨l, hl, hlm, _⟩ := h.last
  rw [rankC_mid h x h1 h2]
  exact rankMid_val h.inv.sorted hf hl x (by rw [hfm]; exact h1) (by rw [hlm]; exact h2) _

/-! ### get_rank -/

/-- which branch `get_rank` takes on a non-empty digest -/
theorem getRank_cases (sc : Scale Rat) (tun : Tun) (s : St Rat) (hne : s.isEmpty = false) (x : Rat) :
    (x < s.min ∧ getRank sc tun s x = (some 0, s)) ∨
    (s.min ≤ x ∧ s.max < x ∧ getRank sc tun s x = (some 1, s)) ∨
    (s.min ≤ x ∧ x ≤ s.max ∧ s.cs.length + s.buf.length = 1 ∧ getRank sc tun s x = (some (1 / 2), s)) ∨
    (s.min ≤ x ∧ x ≤ s.max ∧ s.cs.length + s.buf.length ≠ 1 ∧
      getRank sc tun s x = (rankC (compress sc tun s) x, compress sc tun s)) := by
  unfold getRank
  simp only [hne, Bool.false_eq_true, if_false, rat_isNaN]
  by_cases h1 : x < s.min
  · left; refine ⟨h1, ?_⟩; simp [h1]
  · right
    have h1' : s.min ≤ x := not_lt.1 h1
    have a : (x <. s.min) = false := by simp [h1']
    simp only [a, Bool.false_eq_true, if_false]
    by_cases h2 : s.max < x
    · left; refine ⟨h1', h2, ?_⟩; simp [h2]
    · right
      have h2' : x ≤ s.max := not_lt.1 h2
      have b : (s.max <. x) = false := by simp [h2']
      simp only [b, Bool.false_eq_true, if_false]
      by_cases h3 : s.cs.length + s.buf.length = 1
      · left; refine ⟨h1', h2', h3, ?_⟩; simp [h3]
      · right; refine ⟨h1', h2', h3, ?_⟩; simp [h3]

theorem getRank_state {α δ : Type} [Num α] [Num δ] [Conv α δ] (sc : Scale δ) (tun : Tun) (s : St α) (x : α) :
    (getRank sc tun s x).2 = s ∨ (getRank sc tun s x).2 = compress sc tun s := by
  unfold getRank
  split_ifs <;> simp

/-- never throws on a non-empty digest; 0 below min, 1 above max, always inside [0,1] -/
theorem getRank_range (sc : Scale Rat) (hsc : ScaleOK sc) (tun : Tun) (s : St Rat) (hs : Inv s)
    (hne : s.isEmpty = false) (x : Rat) :
    ∃ r, (getRank sc tun s x).1 = some r ∧ 0 ≤ r ∧ r ≤ 1 ∧ (x < s.min → r = 0) ∧ (s.max < x → r = 1) := by
  have hmm : s.min ≤ s.max := by
    rcases hs.minAtt hne with h | ⟨c, hc, hcm⟩
    · exact hs.bufHi _ h
    · rw [← hcm]; exact hs.csHi c (List.mem_of_head? hc)
  rcases getRank_cases sc tun s hne x with ⟨h1, he⟩ | ⟨h1, h2, he⟩ | ⟨h1, h2, _, he⟩ | ⟨h1, h2, _, he⟩
  · exact ⟨0, by rw [he], le_refl _, by norm_num, fun _ => rfl, fun h => by linarith⟩
  · exact ⟨1, by rw [he], by norm_num, le_refl _, fun h => by linarith, fun _ => rfl⟩
  · exact ⟨1 / 2, by rw [he], by norm_num, by norm_num, fun h => by linarith, fun h => by linarith⟩
  · have hc := compress_compressed sc hsc tun s hs hne
    obtain ⟨_, _, _, hmm'⟩ := compress_inv sc hsc tun s hs
    obtain ⟨hmin, hmax⟩ := hmm' hne
    obtain ⟨v, hv, hval⟩ := rankC_val hc x (by rw [hmin]; exact h1) (by rw [hmax]; exact h2)
    have hcw := hc.cw_pos
    have hcwR : (0 : Rat) < ((compress sc tun s).cw : Rat) := by exact_mod_cast hcw
    obtain ⟨v0, v1⟩ := hval.range
    rw [← hc.inv.cw] at v1
    refine ⟨_, by rw [he]; exact hv, div_nonneg v0 hcwR.le, ?_, fun h => by linarith, fun h => by linarith⟩
    rw [div_le_one hcwR]; exact v1

/-- non-decreasing in the value -/
theorem getRank_mono (sc : Scale Rat) (hsc : ScaleOK sc) (tun : Tun) (s : St Rat) (hs : Inv s)
    (hne : s.isEmpty = false) (x y : Rat) (hxy : x ≤ y) (rx ry : Rat)
    (hx : (getRank sc tun s x).1 = some rx) (hy : (getRank sc tun s y).1 = some ry) : rx ≤ ry := by
  obtain ⟨rx', hx', x0, x1, xlo, xhi⟩ := getRank_range sc hsc tun s hs hne x
  obtain ⟨ry', hy', y0, y1, ylo, yhi⟩ := getRank_range sc hsc tun s hs hne y
  rw [hx] at hx'; rw [hy] at hy'
  simp at hx' hy'
  subst hx' hy'
  by_cases hxm : x < s.min
  · rw [xlo hxm]; exact y0
  by_cases hym : s.max < y
  · rw [yhi hym]; exact x1
  have hx1 : s.min ≤ x := not_lt.1 hxm
  have hy2 : y ≤ s.max := not_lt.1 hym
  have hy1 : s.min ≤ y := le_trans hx1 hxy
  have hx2 : x ≤ s.max := le_trans hxy hy2
  rcases getRank_cases sc tun s hne x with ⟨h, _⟩ | ⟨_, h, _⟩ | ⟨_, _, h3, hex⟩ | ⟨_, _, h3, hex⟩
  · exact absurd h hxm
  · linarith
  · rcases getRank_cases sc tun s hne y with ⟨h, _⟩ | ⟨_, h, _⟩ | ⟨_, _, _, hey⟩ | ⟨_, _, h3', _⟩
    · linarith
    · exact absurd h hym
    · rw [hex] at hx; rw [hey] at hy; simp at hx hy; rw [← hx, ← hy]
    · exact absurd h3 h3'
  · rcases getRank_cases sc tun s hne y with ⟨h, _⟩ | ⟨_, h, _⟩ | ⟨_, _, h3', _⟩ | ⟨_, _, _, hey⟩
    · linarith
    · exact absurd h hym
    · exact absurd h3' h3
    · have hc := compress_compressed sc hsc tun s hs hne
      obtain ⟨_, _, _, hmm'⟩ := compress_inv sc hsc tun s hs
      obtain ⟨hmin, hmax⟩ := hmm' hne
      obtain ⟨vx, hvx, hvalx⟩ := rankC_val hc x (by rw [hmin]; exact hx1) (by rw [hmax]; exact hx2)
      obtain ⟨vy, hvy, hvaly⟩ := rankC_val hc y (by rw [hmin]; exact hy1) (by rw [hmax]; exact hy2)
      rw [hex] at hx; rw [hey] at hy
      simp only [] at hx hy
      rw [hvx] at hx; rw [hvy] at hy
      simp at hx hy
      subst hx hy
      have hcwR : (0 : Rat) < ((compress sc tun s).cw : Rat) := by exact_mod_cast hc.cw_pos
      rcases eq_or_lt_of_le hxy with rfl | hlt
      · rw [hvx] at hvy; simp at hvy
        rw [div_left_inj' (ne_of_gt hcwR)] at hvy
        rw [hvy]
      · exact div_le_div_of_nonneg_right (rankVal_mono hvalx hvaly hlt) hcwR.le

end DS.TDigest

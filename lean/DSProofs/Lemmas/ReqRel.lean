/- Two runs of the REQ model side by side (compactor level): shapes never depend on coin values; below a chosen level `h`
   everything agrees, at level `h` the coins are complementary.  (Helper lemmas for C08.) -/
import DSProofs.Lemmas.ReqCompress
namespace DS.Req

variable {ρ : Type}

/-- `hh = none`: only shapes are related (two arbitrary coin supplies).
    `hh = some h`: additionally the compactors of level ≤ h hold the same items, coins of level < h agree and a coin of level h
    is complemented iff it derives from a draw (`rnd`). -/
structure CRel (hh : Option Nat) (c c' : Compactor ρ) : Prop where
  lg : c'.lgWeight = c.lgWeight
  hra : c'.hra = c.hra
  sorted : c'.sorted = c.sorted
  ssRaw : c'.ssRaw = c.ssRaw
  ss : c'.sectionSize = c.sectionSize
  ns : c'.numSections = c.numSections
  state : c'.state = c.state
  rnd : c'.rnd = c.rnd
  len : c'.items.length = c.items.length
  same : ∀ h, hh = some h → c.lgWeight ≤ h → c'.items = c.items ∧ c'.entered = c.entered
  coinLt : ∀ h, hh = some h → c.lgWeight < h → c'.coin = c.coin
  coinEq : ∀ h, hh = some h → c.lgWeight = h → c'.coin = (c.coin != c.rnd)

theorem CRel.refl_none (c : Compactor ρ) : CRel none c c :=
  ⟨rfl, rfl, rfl, rfl, rfl, rfl, rfl, rfl, rfl, fun _ h => by simp at h, fun _ h => by simp at h, fun _ h => by simp at h⟩

theorem CRel.nomCap {hh : Option Nat} {c c' : Compactor ρ} (T : Tun) (r : CRel hh c c') : c'.nomCap T = c.nomCap T := by
  simp [Compactor.nomCap, r.ss, r.ns]

theorem mk'_CRel (T : Tun) (F : SecFns ρ) (hh : Option Nat) (hra : Bool) (lg k : Nat) (d d' : Bool)
    (h1 : ∀ h, hh = some h → lg < h → T.initCoinRandom = true → d' = d)
    (h2 : ∀ h, hh = some h → lg = h → T.initCoinRandom = true → d' = !d) :
    CRel hh (Compactor.mkC T F hra lg k d) (Compactor.mkC T F hra lg k d') := by
  unfold Compactor.mkC
  by_cases hf : T.initCoinRandom = true
  · simp only [hf, if_true]
    exact ⟨rfl, rfl, rfl, rfl, rfl, rfl, rfl, rfl, rfl, fun _ _ _ => ⟨rfl, rfl⟩, fun h e hl => h1 h e hl hf,
      fun h e hl => by show d' = (d != true); rw [h2 h e hl hf]; cases d <;> rfl⟩
  · simp only [hf, if_false]
    exact ⟨rfl, rfl, rfl, rfl, rfl, rfl, rfl, rfl, rfl, fun _ _ _ => ⟨rfl, rfl⟩, fun _ _ _ => rfl, fun _ _ _ => by simp [Compactor.mk']⟩

theorem append_CRel {hh : Option Nat} {c c' : Compactor ρ} (x : Int) (r : CRel hh c c') : CRel hh (c.append x) (c'.append x) := by
  refine ⟨r.lg, r.hra, ?_, r.ssRaw, r.ss, r.ns, r.state, r.rnd, ?_, ?_, r.coinLt, r.coinEq⟩
  · simp only [Compactor.append, r.len, r.sorted]
  · simp only [Compactor.append, r.hra]; split <;> simp [r.len]
  · intro h e hl
    obtain ⟨a, b⟩ := r.same h e hl
    simp only [Compactor.append, r.hra, a, b, and_self]

theorem sort_CRel {hh : Option Nat} {c c' : Compactor ρ} (r : CRel hh c c') : CRel hh c.sort c'.sort := by
  have hs := r.sorted
  unfold Compactor.sort
  rw [hs]
  split
  · exact r
  · refine ⟨r.lg, r.hra, rfl, r.ssRaw, r.ss, r.ns, r.state, r.rnd, ?_, ?_, r.coinLt, r.coinEq⟩
    · simp [length_sortInts, r.len]
    · intro h e hl
      obtain ⟨a, b⟩ := r.same h e hl
      exact ⟨by show sortInts c'.items = sortInts c.items; rw [a], b⟩

theorem ensureEnough_CRel {hh : Option Nat} (T : Tun) (F : SecFns ρ) {c c' : Compactor ρ} (r : CRel hh c c') :
    CRel hh (c.ensureEnough T F).1 (c'.ensureEnough T F).1 ∧ (c'.ensureEnough T F).2 = (c.ensureEnough T F).2 := by
  simp only [Compactor.ensureEnough, r.ssRaw, r.state, r.ns]
  split
  · refine ⟨⟨r.lg, r.hra, r.sorted, rfl, rfl, rfl, rfl, r.rnd, r.len, r.same, r.coinLt, r.coinEq⟩, rfl⟩
  · exact ⟨r, rfl⟩

theorem ensureLoop_CRel {hh : Option Nat} (T : Tun) (F : SecFns ρ) (fuel : Nat) {c c' : Compactor ρ} (r : CRel hh c c') :
    CRel hh (Compactor.ensureLoop T F fuel c) (Compactor.ensureLoop T F fuel c') := by
  induction fuel generalizing c c' with
  | zero => exact r
  | succ n ih =>
    have e := ensureEnough_CRel T F r
    simp only [Compactor.ensureLoop, e.2]
    split
    · exact ih e.1
    · exact r

theorem mergeItems_cnt' (p : Int → Bool) (hra : Bool) (mine theirs : List Int) :
    cntP p (mergeItems hra mine theirs) = cntP p mine + cntP p theirs := by
  unfold mergeItems; split
  · rename_i hemp; rw [List.isEmpty_iff] at hemp; rw [hemp]; simp
  · split <;> rw [cntP_mergeRuns] <;> omega

theorem sortedItems_CRel {hh : Option Nat} {c c' : Compactor ρ} (r : CRel hh c c') :
    c'.sortedItems.length = c.sortedItems.length ∧ (∀ h, hh = some h → c.lgWeight ≤ h → c'.sortedItems = c.sortedItems) := by
  unfold Compactor.sortedItems; rw [r.sorted]
  refine ⟨?_, ?_⟩
  · split <;> simp [length_sortInts, r.len]
  · intro h e hl; rw [(r.same h e hl).1]

theorem mergeItems_len (hra : Bool) (mine theirs : List Int) : (mergeItems hra mine theirs).length = mine.length + theirs.length := by
  have := mergeItems_cnt' (fun _ => true) hra mine theirs; simpa [cntP_true] using this

theorem cmerge_CRel {hh : Option Nat} (T : Tun) (F : SecFns ρ) {c c' o o' : Compactor ρ} (r : CRel hh c c') (ro : CRel hh o o')
    (hlg : o.lgWeight = c.lgWeight) : CRel hh (c.merge T F o) (c'.merge T F o') := by
  have r1 : CRel hh (c.orState o) (c'.orState o') :=
    ⟨r.lg, r.hra, r.sorted, r.ssRaw, r.ss, r.ns, by simp [Compactor.orState, r.state, ro.state], r.rnd, r.len, r.same, r.coinLt, r.coinEq⟩
  have hst : (c'.orState o').state = (c.orState o).state := r1.state
  have r2 := ensureLoop_CRel T F ((c.orState o).state + 2) r1
  have hlg2 : (Compactor.ensureLoop T F ((c.orState o).state + 2) (c.orState o)).lgWeight = c.lgWeight := (ensureLoop_items T F _ _).2.1
  simp only [Compactor.merge]
  rw [hst]
  generalize Compactor.ensureLoop T F ((c.orState o).state + 2) (c.orState o) = c2 at r2 hlg2
  generalize Compactor.ensureLoop T F ((c.orState o).state + 2) (c'.orState o') = c2' at r2
  have m := sortedItems_CRel r2
  have t := sortedItems_CRel ro
  refine ⟨r2.lg, r2.hra, rfl, r2.ssRaw, r2.ss, r2.ns, r2.state, r2.rnd, ?_, ?_, r2.coinLt, r2.coinEq⟩
  · show (mergeItems c2'.hra c2'.sortedItems o'.sortedItems).length = (mergeItems c2.hra c2.sortedItems o.sortedItems).length
    rw [mergeItems_len, mergeItems_len, m.1, t.1]
  · intro h e hl
    have hl2 : c2.lgWeight ≤ h := hl
    refine ⟨?_, ?_⟩
    · show mergeItems c2'.hra c2'.sortedItems o'.sortedItems = mergeItems c2.hra c2.sortedItems o.sortedItems
      rw [r2.hra, m.2 h e hl2, t.2 h e (by omega)]
    · show o'.entered ++ c2'.entered = o.entered ++ c2.entered
      rw [(ro.same h e (by omega)).2, (r2.same h e hl2).2]

theorem range_CRel {hh : Option Nat} (T : Tun) {c c' : Compactor ρ} (r : CRel hh c c') :
    c'.compactionRange T = c.compactionRange T := by
  unfold Compactor.compactionRange Compactor.secsToCompact
  rw [r.nomCap T, r.ns, r.ss, r.state, r.len, r.hra]

theorem bool_flip_lemma (a b : Bool) : (!(a != b)) = ((!a) != b) := by cases a <;> cases b <;> rfl

/-- results of one compaction in the two runs.  `d`, `d'` are the coins `random_bit()` would return. -/
structure CompactRel (hh : Option Nat) (res res' : CompactRes ρ) : Prop where
  cur : CRel hh res.cur res'.cur
  nxt : CRel hh res.nxt res'.nxt
  num : res'.num = res.num
  capOld : res'.capOld = res.capOld
  capNew : res'.capNew = res.capNew
  fresh : res'.fresh = res.fresh
  rangeOk : res'.rangeOk = res.rangeOk
  oddConst : res'.oddConst = res.oddConst

theorem compact_CRel {hh : Option Nat} (T : Tun) (F : SecFns ρ) {c c' nxt nxt' : Compactor ρ} (d d' : Bool)
    (r : CRel hh c c') (rn : CRel hh nxt nxt') (hnl : nxt.lgWeight = c.lgWeight + 1)
    (hd1 : ∀ h, hh = some h → c.lgWeight < h → ¬ c.state % 2 = 1 → d' = d)
    (hd2 : ∀ h, hh = some h → c.lgWeight = h → ¬ c.state % 2 = 1 → d' = !d)
    (hev : ((c.compactionRange T).2 - (c.compactionRange T).1) % 2 = 0)
    (hle : (c.compactionRange T).1 ≤ (c.compactionRange T).2) (hin : (c.compactionRange T).2 ≤ c.items.length) :
    CompactRel hh (c.compact T F nxt d) (c'.compact T F nxt' d') := by
  have hrg := range_CRel T r
  have hin' : (c.compactionRange T).2 ≤ c'.items.length := by rw [r.len]; exact hin
  -- the compactor before `ensure_enough_sections`
  have r1 : CRel hh
      ({ c with coin := if c.state % 2 = 1 then !c.coin else d,
                items := c.items.take (c.compactionRange T).1 ++ c.items.drop (c.compactionRange T).2,
                state := c.state + 1, rnd := if c.state % 2 = 1 then c.rnd else true } : Compactor ρ)
      ({ c' with coin := if c.state % 2 = 1 then !c'.coin else d',
                 items := c'.items.take (c.compactionRange T).1 ++ c'.items.drop (c.compactionRange T).2,
                 state := c.state + 1, rnd := if c.state % 2 = 1 then c.rnd else true } : Compactor ρ) := by
    refine ⟨r.lg, r.hra, r.sorted, r.ssRaw, r.ss, r.ns, rfl, rfl, ?_, ?_, ?_, ?_⟩
    · show (c'.items.take _ ++ c'.items.drop _).length = (c.items.take _ ++ c.items.drop _).length
      rw [length_kept _ _ _ hle hin', length_kept _ _ _ hle hin, r.len]
    · intro h e hl
      obtain ⟨a, b⟩ := r.same h e hl
      exact ⟨by show c'.items.take _ ++ c'.items.drop _ = c.items.take _ ++ c.items.drop _; rw [a], b⟩
    · intro h e hl
      show (if c.state % 2 = 1 then !c'.coin else d') = (if c.state % 2 = 1 then !c.coin else d)
      rw [r.coinLt h e hl]
      split
      · rfl
      · rename_i ho; exact hd1 h e hl ho
    · intro h e hl
      show (if c.state % 2 = 1 then !c'.coin else d') = ((if c.state % 2 = 1 then !c.coin else d) != (if c.state % 2 = 1 then c.rnd else true))
      rw [r.coinEq h e hl]
      split
      · exact bool_flip_lemma _ _
      · rename_i ho; rw [hd2 h e hl ho]; cases d <;> rfl
  have e1 := ensureEnough_CRel T F r1
  have hpl : ∀ coin', (promote ((c'.items.take (c.compactionRange T).2).drop (c.compactionRange T).1) coin').length
      = ((c.compactionRange T).2 - (c.compactionRange T).1) / 2 := by
    intro coin'
    rw [length_promote _ _ (by rw [length_range _ _ _ hle hin']; exact hev), length_range _ _ _ hle hin']
  have hpl2 : ∀ coin, (promote ((c.items.take (c.compactionRange T).2).drop (c.compactionRange T).1) coin).length
      = ((c.compactionRange T).2 - (c.compactionRange T).1) / 2 := by
    intro coin
    rw [length_promote _ _ (by rw [length_range _ _ _ hle hin]; exact hev), length_range _ _ _ hle hin]
  constructor
  · simp only [Compactor.compact, hrg, r.state, r.rnd]; exact e1.1
  · simp only [Compactor.compact, hrg, r.state, r.hra]
    refine ⟨rn.lg, rn.hra, rn.sorted, rn.ssRaw, rn.ss, rn.ns, rn.state, rn.rnd, ?_, ?_, rn.coinLt, rn.coinEq⟩
    · show (if c.hra = true then mergeRuns _ nxt'.items else mergeRuns nxt'.items _).length = (if c.hra = true then mergeRuns _ nxt.items else mergeRuns nxt.items _).length
      split <;> simp only [length_mergeRuns, hpl, hpl2, rn.len]
    · intro h e hl
      have hcl : c.lgWeight < h := by have : nxt.lgWeight ≤ h := hl; omega
      obtain ⟨a, b⟩ := r.same h e (by omega)
      obtain ⟨a2, b2⟩ := rn.same h e hl
      have hcoin : (if c.state % 2 = 1 then !c'.coin else d') = (if c.state % 2 = 1 then !c.coin else d) := by
        rw [r.coinLt h e hcl]
        split
        · rfl
        · rename_i ho; exact hd1 h e hcl ho
      refine ⟨?_, ?_⟩
      · show (if c.hra = true then mergeRuns _ nxt'.items else mergeRuns nxt'.items _) = (if c.hra = true then mergeRuns _ nxt.items else mergeRuns nxt.items _)
        rw [a, a2, hcoin]
      · show promote _ _ ++ nxt'.entered = promote _ _ ++ nxt.entered
        rw [a, b2, hcoin]
  · simp only [Compactor.compact, hrg]
  · simp only [Compactor.compact, r.nomCap T]
  · simp only [Compactor.compact, hrg, r.state, r.rnd]; exact e1.1.nomCap T
  · simp only [Compactor.compact, r.state]
  · simp only [Compactor.compact, hrg]
  · simp only [Compactor.compact, r.state, r.rnd]

end DS.Req

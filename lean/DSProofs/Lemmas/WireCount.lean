/-
Helper lemmas for the wire models of group `count` (count-min, frequent items, VarOpt, VarOpt union, EBPPS):
bind-form round trips, item-serde laws, inversion of `Reader.bind`, length bookkeeping.
Property statements live in Props/C09_*, C10_*, C11_*.
-/
import DSProofs.Lemmas.Wire
import DSModel.Wire.SerdeC
namespace DS.Wire
open Reader

variable {α β ι : Type}

/-! ### bind-form round trips (rewrite a decoder run over `encode … ++ tail` field by field) -/

theorem bind_ok (m : Reader α) (f : α → Reader β) (b r : Bytes) (x : α) (h : m b = some (x, r)) :
    Reader.bind m f b = f x r := by simp [Reader.bind, h]

theorem bind_u8 (x : Nat) (hx : x < 256) (f : Nat → Reader β) (r : Bytes) :
    Reader.bind u8 f (w8 x ++ r) = f x r := bind_ok _ _ _ _ _ (u8_w8 x (by omega) r)
theorem bind_u16 (x : Nat) (hx : x < 2 ^ 16) (f : Nat → Reader β) (r : Bytes) :
    Reader.bind u16 f (w16 x ++ r) = f x r := bind_ok _ _ _ _ _ (u16_w16 x hx r)
theorem bind_u32 (x : Nat) (hx : x < 2 ^ 32) (f : Nat → Reader β) (r : Bytes) :
    Reader.bind u32 f (w32 x ++ r) = f x r := bind_ok _ _ _ _ _ (u32_w32 x hx r)
theorem bind_u64 (x : Nat) (hx : x < 2 ^ 64) (f : Nat → Reader β) (r : Bytes) :
    Reader.bind u64 f (w64 x ++ r) = f x r := bind_ok _ _ _ _ _ (u64_w64 x hx r)
theorem bind_skip (n : Nat) (f : Unit → Reader β) (r : Bytes) :
    Reader.bind (skip n) f (wZeros n ++ r) = f () r := bind_ok _ _ _ _ _ (skip_zeros n r)
theorem bind_guard_true (f : Unit → Reader β) (r : Bytes) :
    Reader.bind (guard true) f r = f () r := rfl
theorem bind_guard (c : Bool) (hc : c = true) (f : Unit → Reader β) (r : Bytes) :
    Reader.bind (guard c) f r = f () r := by subst hc; rfl
theorem bind_pure (a : α) (f : α → Reader β) (r : Bytes) : Reader.bind (Reader.pure a) f r = f a r := rfl

theorem bind_assoc (m : Reader α) (f : α → Reader β) {γ : Type} (g : β → Reader γ) :
    Reader.bind (Reader.bind m f) g = Reader.bind m (fun x => Reader.bind (f x) g) := by
  funext b
  simp only [Reader.bind]
  cases m b <;> rfl

/-! ### inversion -/

theorem bind_some {m : Reader α} {f : α → Reader β} {b r : Bytes} {y : β}
    (h : Reader.bind m f b = some (y, r)) : ∃ a r1, m b = some (a, r1) ∧ f a r1 = some (y, r) := by
  simp only [Reader.bind] at h
  cases hm : m b with
  | none => simp [hm] at h
  | some p => obtain ⟨a, r1⟩ := p; simp only [hm] at h; exact ⟨a, r1, rfl, h⟩

theorem guard_some {c : Bool} {b r : Bytes} {u : Unit} (h : guard c b = some (u, r)) : c = true ∧ r = b := by
  cases c with
  | false => simp [guard, Reader.fail] at h
  | true => simp only [guard, Reader.pure, if_true, Option.some.injEq, Prod.mk.injEq] at h; exact ⟨rfl, h.2.symm⟩

theorem pure_some {a x : α} {b r : Bytes} (h : Reader.pure a b = some (x, r)) : x = a ∧ r = b := by
  simp only [Reader.pure, Option.some.injEq, Prod.mk.injEq] at h; exact ⟨h.1.symm, h.2.symm⟩

/-- a prefix-safe reader never returns more than it was given -/
theorem PS.rem_le {rd : Reader α} (h : PS rd) {b r : Bytes} {x : α} (hd : rd b = some (x, r)) : r.length ≤ b.length := by
  obtain ⟨k, _, hr, _, _⟩ := h b x r hd
  subst hr; simp

/-- remaining bytes after a successful read (prefix-safe readers return a suffix) -/
theorem PS.rem_suffix {rd : Reader α} (h : PS rd) {b r : Bytes} {x : α} (hd : rd b = some (x, r)) :
    ∃ k, k ≤ b.length ∧ r = b.drop k := by
  obtain ⟨k, hk, hr, _, _⟩ := h b x r hd
  exact ⟨k, hk, hr⟩

/-- every successful read consumes at least one byte -/
def Consuming (rd : Reader α) : Prop := ∀ b x r, rd b = some (x, r) → r.length < b.length

theorem leNat_rem (n : Nat) : ∀ (b r : Bytes) (x : Nat), leNat n b = some (x, r) → r.length + n = b.length := by
  induction n with
  | zero => intro b r x h; obtain ⟨_, hr⟩ := pure_some h; subst hr; rfl
  | succ n ih =>
    intro b r x h
    simp only [leNat] at h
    obtain ⟨a, r1, h1, h2⟩ := bind_some h
    obtain ⟨hi, r2, h3, h4⟩ := bind_some h2
    obtain ⟨_, hr⟩ := pure_some h4
    cases b with
    | nil => simp [byte] at h1
    | cons y t =>
      simp only [byte, Option.some.injEq, Prod.mk.injEq] at h1
      have := ih _ _ _ h3
      subst hr
      rw [← h1.2] at this
      simp only [List.length_cons]; omega

theorem bytesN_rem (n : Nat) : ∀ (b r x : Bytes), bytesN n b = some (x, r) → r.length + n = b.length ∧ x.length = n := by
  induction n with
  | zero => intro b r x h; obtain ⟨hx, hr⟩ := pure_some h; subst hr; subst hx; exact ⟨rfl, rfl⟩
  | succ n ih =>
    intro b r x h
    simp only [bytesN] at h
    obtain ⟨a, r1, h1, h2⟩ := bind_some h
    obtain ⟨t', r2, h3, h4⟩ := bind_some h2
    obtain ⟨hx, hr⟩ := pure_some h4
    cases b with
    | nil => simp [byte] at h1
    | cons y t =>
      simp only [byte, Option.some.injEq, Prod.mk.injEq] at h1
      have := ih _ _ _ h3
      subst hr; subst hx
      rw [← h1.2] at this
      simp only [List.length_cons]; omega

theorem u64_consuming : Consuming u64 := by
  intro b x r h; have := leNat_rem 8 b r x h; omega

/-- `n` repetitions of a consuming reader return exactly `n` elements and need at least `n` bytes -/
theorem repeatN_count {rd : Reader α} (hc : Consuming rd) :
    ∀ (n : Nat) (b r : Bytes) (l : List α), repeatN rd n b = some (l, r) → l.length = n ∧ r.length + n ≤ b.length := by
  intro n
  induction n with
  | zero => intro b r l h; obtain ⟨hl, hr⟩ := pure_some h; subst hl; subst hr; simp
  | succ n ih =>
    intro b r l h
    simp only [repeatN] at h
    obtain ⟨a, r1, h1, h2⟩ := bind_some h
    obtain ⟨t, r2, h3, h4⟩ := bind_some h2
    obtain ⟨hl, hr⟩ := pure_some h4
    have h5 := hc _ _ _ h1
    obtain ⟨h6, h7⟩ := ih _ _ _ h3
    subst hl; subst hr
    simp only [List.length_cons]; omega

/-! ### lengths -/

theorem length_w8 (x : Nat) : (w8 x).length = 1 := length_wLe 1 x
theorem length_w16 (x : Nat) : (w16 x).length = 2 := length_wLe 2 x
theorem length_w32 (x : Nat) : (w32 x).length = 4 := length_wLe 4 x
theorem length_w64 (x : Nat) : (w64 x).length = 8 := length_wLe 8 x
theorem length_wZeros (n : Nat) : (wZeros n).length = n := by simp [wZeros]

theorem length_encU64s (l : List Nat) : (encU64s l).length = 8 * l.length := by
  induction l with
  | nil => rfl
  | cons x t ih => simp only [encU64s, List.length_append, length_w64, ih, List.length_cons]; omega

/-! ### lists of 64-bit words -/

theorem decU64s_enc (l : List Nat) (hl : ∀ x ∈ l, x < 2 ^ 64) (r : Bytes) :
    decU64s l.length (encU64s l ++ r) = some (l, r) := by
  induction l with
  | nil => rfl
  | cons x t ih =>
    have hx : x < 2 ^ 64 := hl x (by simp)
    have ht : ∀ y ∈ t, y < 2 ^ 64 := fun y hy => hl y (by simp [hy])
    simp only [decU64s] at ih
    simp only [decU64s, encU64s, List.length_cons, repeatN, List.append_assoc]
    rw [bind_u64 x hx, bind_ok _ _ _ _ _ (ih ht)]
    rfl

theorem bind_decU64s (l : List Nat) (n : Nat) (hn : n = l.length) (hl : ∀ x ∈ l, x < 2 ^ 64) (f : List Nat → Reader β) (r : Bytes) :
    Reader.bind (decU64s n) f (encU64s l ++ r) = f l r := by
  subst hn; exact bind_ok _ _ _ _ _ (decU64s_enc l hl r)

theorem PS_decU64s (n : Nat) : PS (decU64s n) := PS_repeatN _ (PS_leNat 8) n

/-! ### item serdes -/

/-- the laws a serde has to satisfy for the family theorems -/
structure Serde.Lawful (sd : Serde ι) : Prop where
  rt : ∀ x r, sd.ok x → sd.dec (sd.enc x ++ r) = some (x, r)
  ps : PS sd.dec
  consuming : Consuming sd.dec

theorem serdeU64_lawful : serdeU64.Lawful where
  rt := fun x r hx => u64_w64 x hx r
  ps := PS_leNat 8
  consuming := u64_consuming

theorem strDec_enc (s r : Bytes) (hs : s.length < 2 ^ 32) : strDec (strEnc s ++ r) = some (s, r) := by
  simp only [strDec, strEnc, List.append_assoc]
  rw [bind_u32 _ hs]
  exact bytesN_append s r

theorem PS_strDec : PS strDec := PS_bind _ _ (PS_leNat 4) (fun n => PS_bytesN n)

theorem serdeStr_lawful : serdeStr.Lawful where
  rt := fun x r hx => strDec_enc x r hx
  ps := PS_strDec
  consuming := by
    intro b x r h
    simp only [serdeStr, strDec] at h
    obtain ⟨n, r1, h1, h2⟩ := bind_some h
    have h3 := leNat_rem 4 _ _ _ h1
    have h4 := (bytesN_rem n _ _ _ h2).1
    omega

theorem decItems_enc (sd : Serde ι) (hsd : sd.Lawful) (l : List ι) (hl : ∀ x ∈ l, sd.ok x) (r : Bytes) :
    decItems sd l.length (encItems sd l ++ r) = some (l, r) := by
  induction l with
  | nil => rfl
  | cons x t ih =>
    have hx : sd.ok x := hl x (by simp)
    have ht : ∀ y ∈ t, sd.ok y := fun y hy => hl y (by simp [hy])
    simp only [decItems] at ih
    simp only [decItems, encItems, List.length_cons, repeatN, List.append_assoc]
    rw [bind_ok _ _ _ _ _ (hsd.rt x _ hx), bind_ok _ _ _ _ _ (ih ht)]
    rfl

theorem bind_decItems (sd : Serde ι) (hsd : sd.Lawful) (l : List ι) (n : Nat) (hn : n = l.length) (hl : ∀ x ∈ l, sd.ok x)
    (f : List ι → Reader β) (r : Bytes) :
    Reader.bind (decItems sd n) f (encItems sd l ++ r) = f l r := by
  subst hn; exact bind_ok _ _ _ _ _ (decItems_enc sd hsd l hl r)

theorem PS_decItems (sd : Serde ι) (hsd : sd.Lawful) (n : Nat) : PS (decItems sd n) := PS_repeatN _ hsd.ps n

theorem decItems_count (sd : Serde ι) (hsd : sd.Lawful) (n : Nat) (b r : Bytes) (l : List ι)
    (h : decItems sd n b = some (l, r)) : l.length = n ∧ r.length + n ≤ b.length :=
  repeatN_count hsd.consuming n b r l h

theorem decU64s_count (n : Nat) (b r : Bytes) (l : List Nat)
    (h : decU64s n b = some (l, r)) : l.length = n ∧ r.length + n ≤ b.length :=
  repeatN_count u64_consuming n b r l h

theorem length_encItems (sd : Serde ι) (l : List ι) : (encItems sd l).length = itemsBytes sd l := by
  induction l with
  | nil => rfl
  | cons x t ih => simp [encItems, itemsBytes, ih]

theorem itemsBytes_u64 (l : List Nat) : itemsBytes serdeU64 l = 8 * l.length := by
  induction l with
  | nil => rfl
  | cons x t ih => simp only [itemsBytes, serdeU64, length_w64, List.length_cons] at *; omega

/-- generic consequence of prefix safety + exact decode (restated for readers with a parameter) -/
theorem prefix_rejected' (rd : Reader α) (h : PS rd) (img : Bytes) (x : α)
    (hd : ∀ tail, rd (img ++ tail) = some (x, tail)) (n : Nat) (hn : n < img.length) : rd (img.take n) = none := by
  have := hd []
  simp only [List.append_nil] at this
  exact prefix_rejected rd h img x this n hn

end DS.Wire

/-
The `const_iterator` of the classic quantiles sketch, exactly as coded (DSModel/Quantiles/Query.lean), yields on every
sketch satisfying the invariant the base buffer with weight 1 followed by the valid levels with weights `2^(i+1)`;
hence `num_retained` pairs whose weights sum to `n`.
-/
import DSProofs.Lemmas.QuantilesMerge
namespace DS.Quantiles

variable {α : Type}

/-- `(item, weight)` pairs of the levels, first level with weight `W`, doubling upwards -/
def pairsLevels : Nat → List (List α) → List (α × Nat)
  | _, [] => []
  | W, l :: r => l.map (fun x => (x, W)) ++ pairsLevels (2 * W) r

/-- what the iterator should yield -/
def expectedIter (s : Sketch α) : List (α × Nat) := s.bb.map (fun x => (x, 1)) ++ pairsLevels 2 s.levels

def totalLen : List (List α) → Nat
  | [] => 0
  | l :: r => l.length + totalLen r

def weightSum : Nat → List (List α) → Nat
  | _, [] => 0
  | W, l :: r => W * l.length + weightSum (2 * W) r

theorem pairsLevels_length (W : Nat) (lv : List (List α)) : (pairsLevels W lv).length = totalLen lv := by
  induction lv generalizing W with
  | nil => rfl
  | cons l r ih => simp [pairsLevels, totalLen, ih]

theorem pairsLevels_wsum (W : Nat) (lv : List (List α)) : ((pairsLevels W lv).map (·.2)).sum = weightSum W lv := by
  induction lv generalizing W with
  | nil => rfl
  | cons l r ih =>
    simp only [pairsLevels, List.map_append, List.sum_append, ih, weightSum, List.map_map]
    congr 1
    induction l with
    | nil => simp
    | cons x t iht => simp only [List.map_cons, List.sum_cons, List.length_cons, Function.comp] at iht ⊢; rw [iht, Nat.mul_add]; omega

theorem LevelsShape.totalLen {S : List α → Prop} {k : Nat} :
    ∀ {lv : List (List α)} {b : Nat}, LevelsShape S k lv b → totalLen lv = k * popcount b := by
  intro lv
  induction lv with
  | nil => intro b h; simp only [LevelsShape] at h; subst h; simp [DS.Quantiles.totalLen, popcount_zero]
  | cons l r ih =>
    intro b h
    rw [DS.Quantiles.totalLen, ih h.2.2, h.1, popcount_step b, Nat.mul_add]
    rcases Nat.mod_two_eq_zero_or_one b with h0 | h1
    · simp [h0]
    · simp [h1]

theorem LevelsShape.weightSum {S : List α → Prop} {k : Nat} :
    ∀ {lv : List (List α)} {b : Nat} (W : Nat), LevelsShape S k lv b → weightSum W lv = W * (k * b) := by
  intro lv
  induction lv with
  | nil => intro b W h; simp only [LevelsShape] at h; subst h; simp [DS.Quantiles.weightSum]
  | cons l r ih =>
    intro b W h
    rw [DS.Quantiles.weightSum, ih (2 * W) h.2.2, h.1]
    have hb : b = 2 * (b / 2) + b % 2 := by omega
    rcases Nat.mod_two_eq_zero_or_one b with h0 | h1
    · simp only [h0, Nat.zero_ne_one, if_false, Nat.mul_zero, Nat.zero_add]
      conv => rhs; rw [hb, h0, Nat.add_zero]
      simp only [Nat.mul_assoc, Nat.mul_left_comm]
    · simp only [h1, if_true]
      conv => rhs; rw [hb, h1]
      simp only [Nat.mul_add, Nat.mul_one, Nat.mul_assoc, Nat.mul_left_comm, Nat.add_comm]

/-- the expected output has `num_retained` entries whose weights sum to `n` -/
theorem expectedIter_facts {c : Cmp α} {S : List α → Prop} {s : Sketch α} (h : Inv c S s) :
    (expectedIter s).length = s.numRetained ∧ ((expectedIter s).map (·.2)).sum = s.n := by
  have hK : 0 < 2 * s.k := by have := h.kpos; omega
  constructor
  · simp only [expectedIter, List.length_append, List.length_map, pairsLevels_length, h.lv_shape.totalLen,
      Sketch.numRetained, computeRetained, h.bb_len, h.bits_eq]
  · simp only [expectedIter, List.map_append, List.sum_append, pairsLevels_wsum, h.lv_shape.weightSum, List.map_map]
    have : (List.map ((fun x => x.2) ∘ fun x => (x, 1)) s.bb).sum = s.bb.length := by
      induction s.bb with
      | nil => rfl
      | cons x t ih => simp only [List.map_cons, List.sum_cons, List.length_cons, Function.comp] at ih ⊢; omega
    rw [this, h.bb_len, h.bits_eq]
    have := Nat.mod_add_div s.n (2 * s.k)
    simp only [Nat.mul_assoc] at this ⊢
    omega

/-! ### the state machine -/

theorem totalLen_le_weightSum (W : Nat) (hW : 0 < W) (lv : List (List α)) : totalLen lv ≤ weightSum W lv := by
  induction lv generalizing W with
  | nil => simp [totalLen, weightSum]
  | cons l r ih =>
    simp only [totalLen, weightSum]
    have := ih (2 * W) (by omega)
    have : l.length ≤ W * l.length := Nat.le_mul_of_pos_left _ hW
    omega

def mkIt (r : Nat × Nat × Nat) : Iter := { level := some r.1, index := 0, bits := r.2.1, weight := r.2.2 }

section
variable (s : Sketch α)

theorem collect_end_est (hest : s.n / (2 * s.k) ≠ 0) (f b W : Nat) :
    iterCollect s f { level := some s.levels.length, index := 0, bits := b, weight := W } = [] := by
  cases f with
  | zero => rfl
  | succ f => simp [iterCollect, iterIsEnd, hest]

theorem collect_level_step (hest : s.n / (2 * s.k) ≠ 0) {L j b W f : Nat} {cur : List α}
    (hcur : s.levels[L]? = some cur) (hj : j < cur.length) :
    iterCollect s (f + 1) { level := some L, index := j, bits := b, weight := W } =
      (cur[j], W) :: iterCollect s f
        (if j + 1 = s.k then mkIt (advFrom (L + 1) b W) else { level := some L, index := j + 1, bits := b, weight := W }) := by
  have hL : L < s.levels.length := by
    rcases Nat.lt_or_ge L s.levels.length with h | h
    · exact h
    · rw [List.getElem?_eq_none h] at hcur; exact absurd hcur (by simp)
  have hne : (some L == some s.levels.length) = false := by
    simp; omega
  simp only [iterCollect, iterIsEnd, hest, if_false, hne, Bool.false_and, Bool.false_eq_true, iterDeref, hcur,
    List.getElem?_eq_getElem hj, iterNext]
  congr 1

/-- walking through one valid level, given what happens after it (`HB`) -/
theorem collect_level (hest : s.n / (2 * s.k) ≠ 0) {L b W : Nat} {cur : List α} (post : List (List α))
    (hcur : s.levels[L]? = some cur) (hk : cur.length = s.k)
    (HB : ∀ f, totalLen post + 1 ≤ f → iterCollect s f (mkIt (advFrom (L + 1) b W)) = pairsLevels (2 * W) post) :
    ∀ (m j f : Nat), j + m = s.k → 0 < m → m + totalLen post + 1 ≤ f →
      iterCollect s f { level := some L, index := j, bits := b, weight := W } =
        (cur.drop j).map (fun x => (x, W)) ++ pairsLevels (2 * W) post := by
  intro m
  induction m with
  | zero => intro j f _ h; omega
  | succ m ih =>
    intro j f hjm _ hf
    obtain ⟨f', rfl⟩ : ∃ f', f = f' + 1 := ⟨f - 1, by omega⟩
    have hj : j < cur.length := by omega
    rw [collect_level_step s hest hcur hj, List.drop_eq_getElem_cons hj]
    simp only [List.map_cons, List.cons_append]
    congr 1
    by_cases hlast : j + 1 = s.k
    · have : cur.drop (j + 1) = [] := List.drop_eq_nil_of_le (by omega)
      rw [this]
      simp only [hlast, if_true]
      simp only [List.map_nil, List.nil_append]
      exact HB f' (by omega)
    · simp only [hlast, if_false]
      exact ih (j + 1) f' (by omega) (by omega) (by omega)

variable {S : List α → Prop}

/-- after a level: the `do … while` of `operator++` finds the next valid level or the end -/
theorem collect_after (hest : s.n / (2 * s.k) ≠ 0) (hkpos : 0 < s.k) :
    ∀ (post pre : List (List α)) (L b W : Nat), s.levels = pre ++ post → pre.length = L + 1 →
      LevelsShape S s.k post (b / 2) → post.length = bitLen (b / 2) →
      ∀ f, totalLen post + 1 ≤ f → iterCollect s f (mkIt (advFrom (L + 1) b W)) = pairsLevels (2 * W) post := by
  intro post
  induction post with
  | nil =>
    intro pre L b W hlv hpre _ hlen f _
    have hb : b / 2 = 0 := bitLen_eq_zero.mp (by simpa using hlen.symm)
    have hadv : advFrom (L + 1) b W = (L + 1, b / 2, W) := by rw [advFrom]; simp [hb]
    have hL : s.levels.length = L + 1 := by rw [hlv]; simp [hpre]
    rw [hadv, mkIt, ← hL]
    exact collect_end_est s hest f _ _
  | cons l' post' ih =>
    intro pre L b W hlv hpre hsh hlen f hf
    obtain ⟨hl', _, hsh'⟩ := hsh
    have hb : b / 2 ≠ 0 := by
      intro h; rw [h, bitLen_zero] at hlen; simp at hlen
    have hlen' : post'.length = bitLen (b / 2 / 2) := by
      rw [bitLen_pos hb] at hlen; simpa using hlen
    have hlv' : s.levels = (pre ++ [l']) ++ post' := by rw [hlv]; simp
    have hpre' : (pre ++ [l']).length = (L + 1) + 1 := by simp [hpre]
    by_cases hodd : (b / 2) % 2 = 1
    · have hadv : advFrom (L + 1) b W = (L + 1, b / 2, 2 * W) := by rw [advFrom]; simp [hb, hodd]
      simp only [hodd, if_true] at hl'
      rw [hadv, mkIt]
      have hcur : s.levels[L + 1]? = some l' := by
        rw [hlv, List.getElem?_append_right (by omega)]; simp [hpre]
      have := collect_level s hest post' hcur hl' (ih (pre ++ [l']) (L + 1) (b / 2) (2 * W) hlv' hpre' hsh' hlen')
        s.k 0 f (by omega) hkpos (by simp only [totalLen] at hf; omega)
      simpa [pairsLevels] using this
    · have hadv : advFrom (L + 1) b W = advFrom (L + 1 + 1) (b / 2) (2 * W) := by
        rw [advFrom]; simp [hb, hodd]
      simp only [hodd, if_false] at hl'
      have hnil : l' = [] := List.eq_nil_of_length_eq_zero hl'
      subst hnil
      rw [hadv]
      simp only [pairsLevels, List.map_nil, List.nil_append]
      exact ih (pre ++ [[]]) (L + 1) (b / 2) (2 * W) hlv' hpre' hsh' hlen' f (by simp only [totalLen] at hf; omega)

/-- the constructor loop of `begin()` when the base buffer is empty: finds the lowest valid level -/
theorem collect_skip (hest : s.n / (2 * s.k) ≠ 0) (hkpos : 0 < s.k) :
    ∀ (lv pre : List (List α)) (L W b : Nat), s.levels = pre ++ lv → pre.length = L →
      LevelsShape S s.k lv b → lv.length = bitLen b → b ≠ 0 →
      ∀ f, totalLen lv + 1 ≤ f →
        iterCollect s f { level := some (skipZeros L W b).1, index := 0, bits := (skipZeros L W b).2.2,
                          weight := (skipZeros L W b).2.1 } = pairsLevels W lv := by
  intro lv
  induction lv with
  | nil =>
    intro pre L W b _ _ _ hlen hb
    exact absurd (bitLen_eq_zero.mp (by simpa using hlen.symm)) hb
  | cons l rest ih =>
    intro pre L W b hlv hpre hsh hlen hb f hf
    obtain ⟨hl, _, hsh'⟩ := hsh
    have hlen' : rest.length = bitLen (b / 2) := by rw [bitLen_pos hb] at hlen; simpa using hlen
    have hlv' : s.levels = (pre ++ [l]) ++ rest := by rw [hlv]; simp
    have hpre' : (pre ++ [l]).length = L + 1 := by simp [hpre]
    by_cases hodd : b % 2 = 1
    · have hsk : skipZeros L W b = (L, W, b) := by
        rw [skipZeros]; simp [hb]; omega
      simp only [hodd, if_true] at hl
      rw [hsk]
      have hcur : s.levels[L]? = some l := by
        rw [hlv, List.getElem?_append_right (by omega)]; simp [hpre]
      have := collect_level s hest rest hcur hl
        (collect_after s hest hkpos rest (pre ++ [l]) L b W hlv' hpre' hsh' hlen')
        s.k 0 f (by omega) hkpos (by simp only [totalLen] at hf; omega)
      simpa [pairsLevels] using this
    · have heven : b % 2 = 0 := by omega
      have hsk : skipZeros L W b = skipZeros (L + 1) (2 * W) (b / 2) := by
        rw [skipZeros]; simp [hb, heven]
      simp only [hodd, if_false] at hl
      have hnil : l = [] := List.eq_nil_of_length_eq_zero hl
      subst hnil
      rw [hsk]
      simp only [pairsLevels, List.map_nil, List.nil_append]
      exact ih (pre ++ [[]]) (L + 1) (2 * W) (b / 2) hlv' hpre' hsh' hlen' (by omega) f
        (by simp only [totalLen] at hf; omega)

/-- walking through the base buffer and on into the levels -/
theorem collect_bb {c : Cmp α} (h : Inv c S s) :
    ∀ (m j f : Nat), j + m = s.bb.length → 0 < m → m + totalLen s.levels + 1 ≤ f →
      iterCollect s f { level := none, index := j, bits := s.n / (2 * s.k), weight := 1 } =
        (s.bb.drop j).map (fun x => (x, 1)) ++ pairsLevels 2 s.levels := by
  have hkpos := h.kpos
  have hK : 0 < 2 * s.k := by omega
  intro m
  induction m with
  | zero => intro j f _ h0; omega
  | succ m ih =>
    intro j f hjm _ hf
    obtain ⟨f', rfl⟩ : ∃ f', f = f' + 1 := ⟨f - 1, by omega⟩
    have hj : j < s.bb.length := by omega
    have hjn : j ≠ s.n := by
      have := h.bb_len; have := Nat.mod_le s.n (2 * s.k); omega
    have hnotend : iterIsEnd s { level := none, index := j, bits := s.n / (2 * s.k), weight := 1 } = false := by
      unfold iterIsEnd
      by_cases he : s.n / (2 * s.k) = 0
      · simp [he, hjn]
      · simp [he]
    rw [iterCollect]
    simp only [hnotend, Bool.false_eq_true, if_false, iterDeref, List.getElem?_eq_getElem hj]
    rw [List.drop_eq_getElem_cons hj]
    simp only [List.map_cons, List.cons_append]
    congr 1
    by_cases hlast : j + 1 = s.bb.length
    · -- the last base buffer item
      have hdrop : s.bb.drop (j + 1) = [] := List.drop_eq_nil_of_le (by omega)
      rw [hdrop]
      simp only [List.map_nil, List.nil_append]
      cases hlv : s.levels with
      | nil =>
        have hb0 : s.n / (2 * s.k) = 0 := by
          have := h.lv_len; rw [hlv] at this
          rw [← h.bits_eq]; exact bitLen_eq_zero.mp (by simpa using this.symm)
        have hn : s.bb.length = s.n := by
          rw [h.bb_len]; exact Nat.mod_eq_of_lt ((Nat.div_eq_zero_iff_lt hK).mp hb0)
        simp only [iterNext, hlv, List.length_nil, Nat.lt_irrefl, and_false, if_false, pairsLevels]
        cases f' with
        | zero => rfl
        | succ f'' => simp [iterCollect, iterIsEnd, hb0]; omega
      | cons l0 rest =>
        have hbits : s.bits ≠ 0 := by
          intro hb; have := h.lv_len; rw [hlv, hb, bitLen_zero] at this; simp at this
        have hest : s.n / (2 * s.k) ≠ 0 := by rw [← h.bits_eq]; exact hbits
        have hsh := h.lv_shape
        rw [hlv] at hsh
        obtain ⟨hl0, _, hsh'⟩ := hsh
        have hlen' : rest.length = bitLen (s.bits / 2) := by
          have := h.lv_len; rw [hlv, bitLen_pos hbits] at this; simpa using this
        have hpos : (l0 :: rest).length > 0 := by simp
        rw [← h.bits_eq]
        by_cases hodd : s.bits % 2 = 1
        · simp only [iterNext, hlast, hlv, hpos, and_self, if_true, hbits, if_false, hodd]
          simp only [hodd, if_true] at hl0
          have hcur : s.levels[0]? = some l0 := by rw [hlv]; rfl
          have := collect_level s hest rest hcur hl0
            (collect_after s hest hkpos rest [l0] 0 s.bits 2 (by rw [hlv]; rfl) rfl hsh' hlen')
            s.k 0 f' (by omega) hkpos (by rw [hlv] at hf; simp only [totalLen] at hf; omega)
          simpa [pairsLevels] using this
        · simp only [iterNext, hlast, hlv, hpos, and_self, if_true, hbits, if_false, hodd]
          simp only [hodd, if_false] at hl0
          have hnil : l0 = [] := List.eq_nil_of_length_eq_zero hl0
          subst hnil
          have := collect_after s hest hkpos rest [[]] 0 s.bits 2 (by rw [hlv]; rfl) rfl hsh' hlen' f'
            (by rw [hlv] at hf; simp only [totalLen] at hf; omega)
          simpa [pairsLevels, mkIt] using this
    · have hnext : iterNext s { level := none, index := j, bits := s.n / (2 * s.k), weight := 1 } =
          { level := none, index := j + 1, bits := s.n / (2 * s.k), weight := 1 } := by
        simp [iterNext, hlast]
      rw [hnext]
      exact ih (j + 1) f' (by omega) (by omega) (by omega)

/-- **the iterator as coded yields the base buffer with weight 1, then the valid levels with weights 2^(i+1)** -/
theorem iterate_eq {c : Cmp α} (h : Inv c S s) : s.iterate = expectedIter s := by
  have hkpos := h.kpos
  have hK : 0 < 2 * s.k := by omega
  have hfuel : totalLen s.levels + s.bb.length ≤ s.n := by
    have h1 := totalLen_le_weightSum 2 (by omega) s.levels
    rw [h.lv_shape.weightSum, h.bits_eq] at h1
    have h2 := Nat.mod_add_div s.n (2 * s.k)
    rw [h.bb_len]
    simp only [Nat.mul_assoc] at h1 h2
    omega
  unfold Sketch.iterate iterBegin expectedIter
  by_cases hcase : s.n % (2 * s.k) = 0 ∧ s.n / (2 * s.k) > 0
  · simp only [hcase, and_self, if_true]
    have hbb : s.bb = [] := List.eq_nil_of_length_eq_zero (by rw [h.bb_len]; exact hcase.1)
    have hest : s.n / (2 * s.k) ≠ 0 := by omega
    have := collect_skip s hest hkpos s.levels [] 0 2 (s.n / (2 * s.k)) rfl rfl
      (by rw [← h.bits_eq]; exact h.lv_shape) (by rw [← h.bits_eq]; exact h.lv_len) hest (s.n + 1) (by omega)
    rw [this, hbb]; rfl
  · simp only [hcase, if_false]
    by_cases hb0 : s.bb.length = 0
    · have hbb : s.bb = [] := List.eq_nil_of_length_eq_zero hb0
      have hz : s.n / (2 * s.k) = 0 := by
        rw [h.bb_len] at hb0
        rcases Nat.eq_zero_or_pos (s.n / (2 * s.k)) with h0 | h0
        · exact h0
        · exact absurd ⟨hb0, h0⟩ hcase
      have hn : s.n = 0 := by
        have := Nat.mod_add_div s.n (2 * s.k)
        rw [h.bb_len] at hb0
        rw [hb0, hz] at this; omega
      have hlv : s.levels = [] := List.eq_nil_of_length_eq_zero (by rw [h.lv_len, h.bits_eq, hz, bitLen_zero])
      have hend : iterIsEnd s { level := none, index := 0, bits := s.n / (2 * s.k), weight := 1 } = true := by
        unfold iterIsEnd; simp [hz, hn]
      rw [iterCollect]
      simp [hend, hbb, hlv, pairsLevels]
    · have := collect_bb s h s.bb.length 0 (s.n + 1) (by omega) (by omega) (by omega)
      simpa using this

end

end DS.Quantiles

/- Lemmas about the model of quantiles_sorted_view (DSModel/SortedView.lean): merge/add, cumulative weights,
rank as "weight below". Core Lean only. -/
import DSModel.SortedView
namespace DS.SortedView

variable {α : Type}

/-! ### strict weak orders -/

theorem sw_irrefl {lt : α → α → Bool} (sw : StrictWeak lt) (a : α) : lt a a = false := by
  cases h : lt a a with
  | false => rfl
  | true => have := sw.asymm a a h; rw [h] at this; exact this

theorem sw_trans {lt : α → α → Bool} (sw : StrictWeak lt) {a b c : α} (h1 : lt a b = true) (h2 : lt b c = true) :
    lt a c = true := by
  cases h : lt a c with
  | true => rfl
  | false =>
    have := sw.negTrans a c b h (sw.asymm b c h2)
    rw [h1] at this; exact absurd this (by simp)

/-- entries sorted by item -/
def SortedE (lt : α → α → Bool) (l : List (α × Nat)) : Prop := Sorted lt (l.map Prod.fst)

/-- sum of the weights -/
def sumW : List (α × Nat) → Nat
  | [] => 0
  | e :: t => e.2 + sumW t

/-! ### merge -/

@[simp] theorem merge_nil_left (lt : α → α → Bool) (r : List (α × Nat)) : merge lt [] r = r := by
  unfold merge; cases r <;> simp [mergeF]

@[simp] theorem merge_nil_right (lt : α → α → Bool) (l : List (α × Nat)) : merge lt l [] = l := by
  unfold merge
  cases l with
  | nil => simp [mergeF]
  | cons a l => cases h : (a :: l).length + ([] : List (α × Nat)).length <;> simp [mergeF]

theorem merge_cons_cons (lt : α → α → Bool) (a b : α × Nat) (l r : List (α × Nat)) :
    merge lt (a :: l) (b :: r) = if lt b.1 a.1 then b :: merge lt (a :: l) r else a :: merge lt l (b :: r) := by
  unfold merge
  have e : (a :: l).length + (b :: r).length = (l.length + (r.length + 1)) + 1 := by simp only [List.length_cons]; omega
  rw [e, mergeF]
  simp only [List.length_cons]
  have e2 : l.length + 1 + r.length = l.length + (r.length + 1) := by omega
  rw [e2]

/-- induction principle following the recursion of `merge` (compatibility: replaces `fun_induction merge`);
the motive sees the two runs and the merged result -/
theorem merge_induction (lt : α → α → Bool) {motive : List (α × Nat) → List (α × Nat) → List (α × Nat) → Prop}
    (case1 : ∀ r, motive [] r r)
    (case2 : ∀ a l, motive (a :: l) [] (a :: l))
    (case3 : ∀ a l b r, lt b.1 a.1 = true → motive (a :: l) r (merge lt (a :: l) r) →
      motive (a :: l) (b :: r) (b :: merge lt (a :: l) r))
    (case4 : ∀ a l b r, ¬ lt b.1 a.1 = true → motive l (b :: r) (merge lt l (b :: r)) →
      motive (a :: l) (b :: r) (a :: merge lt l (b :: r))) :
    ∀ l r, motive l r (merge lt l r)
  | [], r => by rw [merge_nil_left]; exact case1 r
  | a :: l, [] => by rw [merge_nil_right]; exact case2 a l
  | a :: l, b :: r => by
    rw [merge_cons_cons]
    by_cases h : lt b.1 a.1 = true
    · rw [if_pos h]; exact case3 a l b r h (merge_induction lt case1 case2 case3 case4 (a :: l) r)
    · rw [if_neg h]; exact case4 a l b r h (merge_induction lt case1 case2 case3 case4 l (b :: r))
termination_by l r => l.length + r.length

theorem merge_perm (lt : α → α → Bool) : ∀ l r : List (α × Nat), (merge lt l r).Perm (l ++ r)
  | [], r => by simp
  | a :: l, [] => by simp
  | a :: l, b :: r => by
    rw [merge_cons_cons]
    split
    · exact (List.Perm.cons b (merge_perm lt (a :: l) r)).trans List.perm_middle.symm
    · exact List.Perm.cons a (merge_perm lt l (b :: r))
termination_by l r => l.length + r.length

theorem merge_sorted {lt : α → α → Bool} (sw : StrictWeak lt) :
    ∀ l r : List (α × Nat), SortedE lt l → SortedE lt r → SortedE lt (merge lt l r)
  | [], r, _, hr => by simpa using hr
  | a :: l, [], hl, _ => by simpa using hl
  | a :: l, b :: r, hl, hr => by
    rw [merge_cons_cons]
    unfold SortedE Sorted at hl hr ⊢
    simp only [List.map_cons] at hl hr
    have hl' := List.pairwise_cons.mp hl
    have hr' := List.pairwise_cons.mp hr
    cases hba : lt b.1 a.1
    · simp only [Bool.false_eq_true, if_false, List.map_cons]
      refine List.pairwise_cons.mpr ⟨?_, merge_sorted sw l (b :: r) hl'.2 hr⟩
      intro z hz
      rcases List.mem_map.mp hz with ⟨e, he, rfl⟩
      rcases List.mem_append.mp ((merge_perm lt l (b :: r)).mem_iff.mp he) with h1 | h1
      · exact hl'.1 e.1 (List.mem_map.mpr ⟨e, h1, rfl⟩)
      · rcases List.mem_cons.mp h1 with rfl | h2
        · exact hba
        · exact sw.negTrans e.1 b.1 a.1 (hr'.1 e.1 (List.mem_map.mpr ⟨e, h2, rfl⟩)) hba
    · simp only [if_true, List.map_cons]
      refine List.pairwise_cons.mpr ⟨?_, merge_sorted sw (a :: l) r hl hr'.2⟩
      intro z hz
      have hab : lt a.1 b.1 = false := sw.asymm b.1 a.1 hba
      rcases List.mem_map.mp hz with ⟨e, he, rfl⟩
      rcases List.mem_append.mp ((merge_perm lt (a :: l) r).mem_iff.mp he) with h1 | h1
      · rcases List.mem_cons.mp h1 with rfl | h2
        · exact hab
        · exact sw.negTrans e.1 a.1 b.1 (hl'.1 e.1 (List.mem_map.mpr ⟨e, h2, rfl⟩)) hab
      · exact hr'.1 e.1 (List.mem_map.mpr ⟨e, h1, rfl⟩)
termination_by l r => l.length + r.length

/-! ### add -/

theorem add_perm (lt : α → α → Bool) (view : List (α × Nat)) (items : List α) (w : Nat) :
    (add lt view items w).Perm (view ++ items.map (fun x => (x, w))) := by
  unfold add
  split
  · rename_i h
    have : view = [] := by simpa using h
    subst this; simp
  · exact merge_perm lt _ _

theorem sortedE_map {lt : α → α → Bool} {items : List α} (w : Nat) (h : Sorted lt items) :
    SortedE lt (items.map (fun x => (x, w))) := by
  unfold SortedE
  have : (Prod.fst ∘ fun (x : α) => (x, w)) = id := rfl
  rw [List.map_map, this, List.map_id]; exact h

theorem add_sorted {lt : α → α → Bool} (sw : StrictWeak lt) {view : List (α × Nat)} {items : List α} (w : Nat)
    (hv : SortedE lt view) (hi : Sorted lt items) : SortedE lt (add lt view items w) := by
  unfold add
  split
  · exact sortedE_map w hi
  · exact merge_sorted sw _ _ hv (sortedE_map w hi)

theorem sumW_append : ∀ a b : List (α × Nat), sumW (a ++ b) = sumW a + sumW b
  | [], b => by simp [sumW]
  | e :: t, b => by simp only [List.cons_append, sumW, sumW_append t b]; omega

theorem sumW_perm {a b : List (α × Nat)} (h : a.Perm b) : sumW a = sumW b := by
  induction h with
  | nil => rfl
  | cons x _ ih => simp only [sumW, ih]
  | swap x y l => simp only [sumW]; omega
  | trans _ _ ih1 ih2 => exact ih1.trans ih2

theorem sumW_map_const (items : List α) (w : Nat) : sumW (items.map (fun x => (x, w))) = w * items.length := by
  induction items with
  | nil => simp [sumW]
  | cons a t ih => simp only [List.map_cons, sumW, ih, List.length_cons, Nat.mul_add, Nat.mul_one]; omega

theorem foldl_total (l : List (α × Nat)) (acc : Nat) : l.foldl (fun a e => a + e.2) acc = acc + sumW l := by
  induction l generalizing acc with
  | nil => simp [sumW]
  | cons e t ih => simp only [List.foldl_cons, ih, sumW]; omega

theorem total_eq_sumW (l : List (α × Nat)) : total l = sumW l := by
  unfold total; rw [foldl_total]; omega

theorem sumW_add (lt : α → α → Bool) (view : List (α × Nat)) (items : List α) (w : Nat) :
    sumW (add lt view items w) = sumW view + w * items.length := by
  rw [sumW_perm (add_perm lt view items w), sumW_append, sumW_map_const]

/-! ### cumulative weights -/

theorem cumulate_fst : ∀ (acc : Nat) (raw : List (α × Nat)), (cumulate acc raw).map Prod.fst = raw.map Prod.fst
  | _, [] => rfl
  | acc, (x, w) :: t => by simp only [cumulate, List.map_cons, cumulate_fst (acc + w) t]

theorem cumulate_length (acc : Nat) (raw : List (α × Nat)) : (cumulate acc raw).length = raw.length := by
  have := congrArg List.length (cumulate_fst acc raw); simpa using this

/-- every cumulative weight lies between the start value and start + total -/
theorem cumulate_bounds : ∀ (acc : Nat) (raw : List (α × Nat)) (e : α × Nat), e ∈ cumulate acc raw →
    acc ≤ e.2 ∧ e.2 ≤ acc + sumW raw
  | _, [], e, h => by simp [cumulate] at h
  | acc, (x, w) :: t, e, h => by
    simp only [cumulate, List.mem_cons] at h
    rcases h with rfl | h
    · simp only [sumW]; omega
    · have := cumulate_bounds (acc + w) t e h
      simp only [sumW]; omega

/-- cumulative weights are non-decreasing (increasing when the weights are positive) -/
theorem cumulate_pairwise : ∀ (acc : Nat) (raw : List (α × Nat)),
    (cumulate acc raw).Pairwise (fun a b => a.2 ≤ b.2)
  | _, [] => List.Pairwise.nil
  | acc, (x, w) :: t => by
    simp only [cumulate]
    refine List.pairwise_cons.mpr ⟨?_, cumulate_pairwise (acc + w) t⟩
    intro e he
    exact (cumulate_bounds (acc + w) t e he).1

theorem cumulate_pairwise_lt : ∀ (acc : Nat) (raw : List (α × Nat)), (∀ e ∈ raw, 0 < e.2) →
    (cumulate acc raw).Pairwise (fun a b => a.2 < b.2)
  | _, [], _ => List.Pairwise.nil
  | acc, (x, w) :: t, hpos => by
    simp only [cumulate]
    refine List.pairwise_cons.mpr ⟨?_, cumulate_pairwise_lt (acc + w) t (fun e he => hpos e (List.mem_cons_of_mem _ he))⟩
    intro e he
    cases t with
    | nil => simp [cumulate] at he
    | cons y t' =>
      obtain ⟨y1, y2⟩ := y
      simp only [cumulate, List.mem_cons] at he
      have hy : 0 < y2 := hpos (y1, y2) (by simp)
      rcases he with rfl | he
      · simp only; omega
      · have := (cumulate_bounds (acc + w + y2) t' e he).1
        simp only; omega

/-- the last cumulative weight is the total -/
theorem cumulate_getLast? : ∀ (acc : Nat) (raw : List (α × Nat)), raw ≠ [] →
    (cumulate acc raw).getLast?.map Prod.snd = some (acc + sumW raw)
  | _, [], h => absurd rfl h
  | acc, [(x, w)], _ => by simp [cumulate, sumW]
  | acc, (x, w) :: (y1, y2) :: t, _ => by
    have := cumulate_getLast? (acc + w) ((y1, y2) :: t) (by simp)
    simp only [cumulate, sumW] at this ⊢
    rw [List.getLast?_cons_cons, this]; congr 1; omega

/-! ### rank = weight below -/

/-- is `a` counted by the rank of `x`?  inclusive: `a ≤ x`; exclusive: `a < x` -/
def isBelow (lt : α → α → Bool) (x : α) (incl : Bool) (a : α) : Bool := if incl then !lt x a else lt a x

/-- total weight of the entries `≤ x` (inclusive) resp. `< x` (exclusive) -/
def weightBelow (lt : α → α → Bool) (x : α) (incl : Bool) : List (α × Nat) → Nat
  | [] => 0
  | e :: t => (if isBelow lt x incl e.1 then e.2 else 0) + weightBelow lt x incl t

theorem weightBelow_append (lt : α → α → Bool) (x : α) (incl : Bool) : ∀ a b : List (α × Nat),
    weightBelow lt x incl (a ++ b) = weightBelow lt x incl a + weightBelow lt x incl b
  | [], b => by simp [weightBelow]
  | e :: t, b => by simp only [List.cons_append, weightBelow, weightBelow_append lt x incl t b]; omega

theorem weightBelow_perm (lt : α → α → Bool) (x : α) (incl : Bool) {a b : List (α × Nat)} (h : a.Perm b) :
    weightBelow lt x incl a = weightBelow lt x incl b := by
  induction h with
  | nil => rfl
  | cons x _ ih => simp only [weightBelow, ih]
  | swap x y l => simp only [weightBelow]; omega
  | trans _ _ ih1 ih2 => exact ih1.trans ih2

theorem weightBelow_map_const (lt : α → α → Bool) (x : α) (incl : Bool) (items : List α) (w : Nat) :
    weightBelow lt x incl (items.map (fun a => (a, w))) = w * (items.filter (isBelow lt x incl)).length := by
  induction items with
  | nil => simp [weightBelow]
  | cons a t ih =>
    simp only [List.map_cons, weightBelow, ih, List.filter_cons]
    split <;> simp [Nat.mul_add] <;> omega

theorem weightBelow_le_sumW (lt : α → α → Bool) (x : α) (incl : Bool) : ∀ l : List (α × Nat), weightBelow lt x incl l ≤ sumW l
  | [] => Nat.le_refl _
  | e :: t => by
    have := weightBelow_le_sumW lt x incl t
    simp only [weightBelow, sumW]; split <;> omega

/-- nothing later in a sorted list is below `x` once an entry is not -/
theorem weightBelow_zero_of_sorted {lt : α → α → Bool} (sw : StrictWeak lt) (x : α) (incl : Bool) (a : α) :
    ∀ t : List (α × Nat), (∀ b ∈ t.map Prod.fst, lt b a = false) → isBelow lt x incl a = false →
    weightBelow lt x incl t = 0
  | [], _, _ => rfl
  | e :: t, hs, ha => by
    have he : lt e.1 a = false := hs e.1 (by simp)
    have hb : isBelow lt x incl e.1 = false := by
      unfold isBelow at ha ⊢
      cases incl with
      | true =>
        simp only [if_true, Bool.not_eq_false'] at ha ⊢
        cases hxe : lt x e.1 with
        | true => rfl
        | false => have := sw.negTrans x e.1 a hxe he; rw [ha] at this; exact absurd this (by simp)
      | false =>
        simp only [Bool.false_eq_true, if_false] at ha ⊢
        exact sw.negTrans e.1 a x he ha
    simp only [weightBelow, hb, Bool.false_eq_true, if_false, Nat.zero_add]
    exact weightBelow_zero_of_sorted sw x incl a t (fun b hb' => hs b (by simp only [List.map_cons, List.mem_cons]; exact Or.inr hb')) ha

/-- the scan of `get_rank` on a sorted cumulative view returns the weight below -/
theorem rankGo_eq {lt : α → α → Bool} (sw : StrictWeak lt) (x : α) (incl : Bool) :
    ∀ (raw : List (α × Nat)) (acc : Nat), SortedE lt raw →
    rankGo lt x incl (cumulate acc raw) acc = acc + weightBelow lt x incl raw
  | [], acc, _ => by simp [cumulate, rankGo, weightBelow]
  | (a, w) :: t, acc, hs => by
    unfold SortedE Sorted at hs
    simp only [List.map_cons] at hs
    have hs' := List.pairwise_cons.mp hs
    simp only [cumulate, rankGo, weightBelow]
    have hcond : (if incl = true then lt x a else !lt a x) = !isBelow lt x incl a := by
      unfold isBelow; cases incl <;> simp
    rw [hcond]
    cases hb : isBelow lt x incl a
    · simp only [Bool.not_false, if_true, Bool.false_eq_true, if_false, Nat.zero_add]
      rw [weightBelow_zero_of_sorted sw x incl a t hs'.1 hb]; omega
    · simp only [Bool.not_true, Bool.false_eq_true, if_false, if_true]
      rw [rankGo_eq sw x incl t (acc + w) hs'.2]; omega

theorem rankNum_eq {lt : α → α → Bool} (sw : StrictWeak lt) (raw : List (α × Nat)) (hs : SortedE lt raw) (x : α) (incl : Bool) :
    rankNum lt (build raw) x incl = weightBelow lt x incl raw := by
  unfold rankNum build
  simp only
  rw [rankGo_eq sw x incl raw 0 hs]; omega

theorem isBelow_mono {lt : α → α → Bool} (sw : StrictWeak lt) {x y : α} (hxy : lt y x = false) (incl : Bool) (a : α)
    (h : isBelow lt x incl a = true) : isBelow lt y incl a = true := by
  unfold isBelow at h ⊢
  cases incl with
  | true =>
    simp only [if_true, Bool.not_eq_true'] at h ⊢
    exact sw.negTrans y x a hxy h
  | false =>
    simp only [Bool.false_eq_true, if_false] at h ⊢
    cases hay : lt a y with
    | true => rfl
    | false => have := sw.negTrans a y x hay hxy; rw [h] at this; exact absurd this (by simp)

theorem weightBelow_mono {lt : α → α → Bool} (sw : StrictWeak lt) {x y : α} (hxy : lt y x = false) (incl : Bool) :
    ∀ l : List (α × Nat), weightBelow lt x incl l ≤ weightBelow lt y incl l
  | [] => Nat.le_refl _
  | e :: t => by
    have ih := weightBelow_mono sw hxy incl t
    simp only [weightBelow]
    cases hb : isBelow lt x incl e.1
    · simp only [Bool.false_eq_true, if_false]; split <;> omega
    · rw [isBelow_mono sw hxy incl e.1 hb]; simp only [if_true]; omega

theorem weightBelow_excl_le_incl {lt : α → α → Bool} (sw : StrictWeak lt) (x : α) :
    ∀ l : List (α × Nat), weightBelow lt x false l ≤ weightBelow lt x true l
  | [] => Nat.le_refl _
  | e :: t => by
    have ih := weightBelow_excl_le_incl sw x t
    simp only [weightBelow]
    cases hb : isBelow lt x false e.1
    · simp only [Bool.false_eq_true, if_false]; split <;> omega
    · have : isBelow lt x true e.1 = true := by
        unfold isBelow at hb ⊢
        simp only [Bool.false_eq_true, if_false] at hb
        simp only [if_true, Bool.not_eq_true']
        exact sw.asymm e.1 x hb
      rw [this]; simp only [if_true]; omega

theorem weightBelow_all {lt : α → α → Bool} (x : α) (incl : Bool) :
    ∀ l : List (α × Nat), (∀ e ∈ l, isBelow lt x incl e.1 = true) → weightBelow lt x incl l = sumW l
  | [], _ => rfl
  | e :: t, h => by
    simp only [weightBelow, sumW, h e (by simp), if_true,
      weightBelow_all x incl t (fun e' he' => h e' (List.mem_cons_of_mem _ he'))]

end DS.SortedView

/- Repaired model: union / intersect / invert preserve the invariant (main case analysis). -/
import DSProofs.Lemmas.BloomFixed13
namespace DS.Bloom

variable {ι : Type} [DecidableEq ι] (P : Params) (hf : ι → Nat → Option (Nat × Nat))

theorem good_setop (hP : P.Wire) (w : World) (p : PGhost ι) (hg : Good P hf w p) (op : SetOp) (v u : Nat) :
    Good P hf (opSet P Fix.fixed w op v u).1 (pstep hf p w (opSet P Fix.fixed w op v u).1 (opSet P Fix.fixed w op v u).2 (.setop op v u)) := by
  cases hv : w.filters v with
  | none => simp only [opSet, pstep, hv]; exact hg
  | some f =>
  cases hu : w.filters u with
  | none => simp only [opSet, pstep, hv, hu]; exact hg
  | some g' =>
  obtain ⟨i, hi⟩ := hg.tracked v f hv
  have hok := hg.view v f i hv hi
  have hw := hg.fwf v f hv
  by_cases hro : f.readOnly = true
  · simp [opSet, pstep, hv, hu, hi, hro, Fix.fixed]; exact hg
  have hro' : f.readOnly = false := by simpa using hro
  by_cases h2 : (op != .invert && !compatible f g') = true
  · simp [opSet, pstep, hv, hu, hi, hro', h2, Fix.fixed]; exact hg
  have hcc : op = .invert ∨ compatible f g' = true := by
    cases op with
    | invert => exact Or.inl rfl
    | union => right; simpa using h2
    | inter => right; simpa using h2
  simp only [opSet, hv, hu, hro', h2, Fix.fixed, Bool.and_false, Bool.false_eq_true, if_false]
  rw [pstep_setop_eq hf p w _ _ op v u f g' i hv hu hi]
  -- the source's contribution
  have hB0 : op ≠ .invert → ∀ l, (l = [] ∨ (l = (p.si (keyOf u g')).S ∧ agrees w g' = true)) →
      Covers hf (w.val g') (g'.off P) f.cfg l ∧ Hashed hf f.seed l := by
    intro hop l hl
    rcases hl with h | ⟨h, hag⟩
    · rw [h]; exact ⟨Covers.nil _ _ _ _, fun y hy => by cases hy⟩
    · have hcomp : compatible f g' = true := by
        rcases hcc with h | h
        · exact absurd h hop
        · exact h
      have := source_covers P hf hP w p hg u g' hu hag
      rw [compatible_cfg hcomp] at this
      have hs : g'.seed = f.seed := by have := congrArg Cfg.seed (compatible_cfg hcomp); simpa [Filter.cfg] using this
      rw [hs] at this
      rw [h]; exact this
  have hn64 : ∀ off, popCount (setField (w.val f) off f.capBits (combine op f.capBits (w.bitsOf P f) (w.bitsOf P g'))) off f.capBits % 2 ^ 64
      = popCount (setField (w.val f) off f.capBits (combine op f.capBits (w.bitsOf P f) (w.bitsOf P g'))) off f.capBits := by
    intro off
    have := popCount_le (setField (w.val f) off f.capBits (combine op f.capBits (w.bitsOf P f) (w.bitsOf P g'))) off f.capBits
    have := hw.capLt
    exact Nat.mod_eq_of_lt (by omega)
  cases hr : f.ref with
  | owned b =>
    have hm : isMem f = false := by simp [isMem, hr]
    have hkey : keyOf v f = .own v := by simp [keyOf, hr]
    have hoff : f.off P = 0 := by simp [Filter.off, hr]
    have hXk : keyVal w (keyOf v f) = w.val f := (val_eq_keyVal w v f hv).symm
    rw [hXk, hkey] at hok
    have hos := hok.os hm
    have hcovA : Covers hf (w.val f) (f.off P) f.cfg (p.si (.own v)).S := by rw [hoff]; exact hos.1
    have hcovM : Covers hf (w.val f) (f.off P) f.cfg i.M := hok.cov
    -- su as seen after `write` (which is the identity here)
    have hsu : ∀ l, l = (if agrees w g' then (p.si (keyOf u g')).S else []) →
        (l = [] ∨ (l = (p.si (keyOf u g')).S ∧ agrees w g' = true)) := by
      intro l hl
      by_cases hag : agrees w g' = true
      · right; rw [hl]; simp [hag]
      · left; rw [hl]; simp [hag]
    simp only [setGhost, write_own p w v f i b hr, hkey]
    generalize hsudef : (if agrees w g' then (p.si (keyOf u g')).S else []) = su
    have hsu' := hsu su hsudef.symm
    have hlists := setop_lists_covered P hf f g' op w hw.capPos hcc (p.si (.own v)).S i.M su hcovA hcovM (fun hop => (hB0 hop su hsu').1)
    simp only [hoff] at hlists ⊢
    by_cases hp : i.promised = true
    · have hk1 := (hok.k1 hp).1
      have hnepos : ∀ M' : List ι, Covers hf (setField (w.val f) 0 f.capBits (combine op f.capBits (w.bitsOf P f) (w.bitsOf P g'))) 0 f.cfg M' →
          Hashed hf f.seed M' → M' ≠ [] →
          (false = true ∨ popCount (setField (w.val f) 0 f.capBits (combine op f.capBits (w.bitsOf P f) (w.bitsOf P g'))) 0 f.capBits ≠ 0) := by
        intro M' hc hh hne
        right
        have := popCount_pos_of_covers hf _ 0 f.cfg M' hc hh hne hk1 hw.capPos
        simp only [Filter.cfg] at this
        omega
      cases op with
      | union =>
        simp only [hp, if_true, setS_vi, hi, setS_si_same]
        have hB := hB0 (by intro h; cases h) su hsu'
        apply good_write_own P hf w p _ hg v f i b hv hi hr _ _ false _ { p.si (.own v) with S := (p.si (.own v)).S ++ su } ((p.si (.own v)).S ++ su)
        · simp
        · intro k hk; simp [setS_si_ne _ _ hk]
        · simp [hp]
        · intro u' hu'; simp [setV_vi_ne _ _ hu']
        · intro hpf; rw [hp] at hpf; cases hpf
        · exact hashed_append hf hos.2.1 hB.2
        · exact hlists.1 rfl
        · exact hashed_append hf hos.2.1 hB.2
        · exact hlists.1 rfl
        · exact hnepos _ (hlists.1 rfl) (hashed_append hf hos.2.1 hB.2)
        · intro _ _; rfl
      | inter =>
        simp only [hp, if_true, hi]
        apply good_write_own P hf w p _ hg v f i b hv hi hr _ _ false _
          { p.si (.own v) with S := (p.si (.own v)).S.filter (fun y => decide (y ∈ su)) } (i.M.filter (fun y => decide (y ∈ su)))
        · simp [destructive_si_same]
        · intro k hk; simp [destructive_si_ne _ _ _ hk]
        · simp [hp]
        · intro u' hu'; rw [setV_vi_ne _ _ hu']; exact destructive_vi_own_ne p w v _ u' hu'
        · intro hpf; rw [hp] at hpf; cases hpf
        · exact hashed_filter hf _ hok.hs
        · exact (hlists.2 rfl).2
        · exact hashed_filter hf _ hos.2.1
        · exact (hlists.2 rfl).1
        · exact hnepos _ (hlists.2 rfl).2 (hashed_filter hf _ hok.hs)
        · intro _ _; rfl
      | invert =>
        apply good_write_own P hf w p _ hg v f i b hv hi hr _ _ false _ { p.si (.own v) with S := [] } []
        · exact destructive_si_same p w _ _
        · intro k hk; exact destructive_si_ne p w _ hk
        · exact destructive_vi_same p w _ _ v f i hv hi hkey
        · intro u' hu'; exact destructive_vi_own_ne p w v _ u' hu'
        · intro _; exact ⟨rfl, rfl⟩
        · intro y hy; cases hy
        · exact Covers.nil _ _ _ _
        · intro y hy; cases hy
        · exact Covers.nil _ _ _ _
        · intro h; exact absurd rfl h
        · intro _ _; rfl
    · -- unpromised owned filter: nothing is recorded
      have hp' : i.promised = false := by simpa using hp
      have hM0 := hok.up hp'
      have hS0 := hos.2.2 hp'
      cases op with
      | union =>
        simp only [hp', Bool.false_eq_true, if_false]
        apply good_write_own P hf w p p hg v f i b hv hi hr _ _ false _ (p.si (.own v)) i.M rfl (fun _ _ => rfl) hi (fun _ _ => rfl)
        · intro _; exact ⟨hM0, hS0⟩
        · rw [hM0]; intro y hy; cases hy
        · rw [hM0]; exact Covers.nil _ _ _ _
        · rw [hS0]; intro y hy; cases hy
        · rw [hS0]; exact Covers.nil _ _ _ _
        · intro hne; exact absurd hM0 hne
        · intro hpt; rw [hp'] at hpt; cases hpt
      | inter =>
        simp only [hp', Bool.false_eq_true, if_false]
        apply good_write_own P hf w p _ hg v f i b hv hi hr _ _ false _ { p.si (.own v) with S := [] } []
        · rw [destructive_si_same, hS0]; rfl
        · intro k hk; exact destructive_si_ne p w _ hk
        · exact destructive_vi_same p w _ _ v f i hv hi hkey
        · intro u' hu'; exact destructive_vi_own_ne p w v _ u' hu'
        · intro _; exact ⟨rfl, rfl⟩
        · intro y hy; cases hy
        · exact Covers.nil _ _ _ _
        · intro y hy; cases hy
        · exact Covers.nil _ _ _ _
        · intro h; exact absurd rfl h
        · intro _ _; rfl
      | invert =>
        apply good_write_own P hf w p _ hg v f i b hv hi hr _ _ false _ { p.si (.own v) with S := [] } []
        · exact destructive_si_same p w _ _
        · intro k hk; exact destructive_si_ne p w _ hk
        · exact destructive_vi_same p w _ _ v f i hv hi hkey
        · intro u' hu'; exact destructive_vi_own_ne p w v _ u' hu'
        · intro _; exact ⟨rfl, rfl⟩
        · intro y hy; cases hy
        · exact Covers.nil _ _ _ _
        · intro y hy; cases hy
        · exact Covers.nil _ _ _ _
        · intro h; exact absurd rfl h
        · intro _ _; rfl
  | mem m =>
    have hm : isMem f = true := by simp [isMem, hr]
    have hkey : keyOf v f = .mem m := by simp [keyOf, hr]
    have hoff : f.off P = 256 := off_mem P hP.layout hm
    have hX : w.val f = w.blockVal m := by simp [World.val, hr]
    have hXk : keyVal w (keyOf v f) = w.blockVal m := by rw [← val_eq_keyVal w v f hv, hX]
    rw [hXk, hkey] at hok
    by_cases ht : (p.si (.mem m)).tainted = true
    · -- already tainted block
      have hS0 := hg.taintS m ht
      simp only [setGhost, write_tainted p w v f i m hr ht, hkey, Bool.false_eq_true, if_false]
      cases op with
      | union =>
        apply good_write_mem_taint P hf w p p hg v f m hv hr _ _ false _ (p.si (.mem m)) rfl (fun _ _ => rfl) ht hS0 (Nat.le_refl _)
        · intro u' fu iu hfu hiu hk
          have hoku := hg.view u' fu iu hfu hiu
          rw [hk] at hoku
          exact ⟨iu, hiu, hoku.tm (keyOf_mem_of_eq hk).2 ht, rfl, rfl⟩
        · intro u' fu _ _; rfl
      | inter =>
        apply good_write_mem_taint P hf w p _ hg v f m hv hr _ _ false _ { p.si (.mem m) with S := [] }
        · rw [destructive_si_same, hS0]; rfl
        · intro k hk; exact destructive_si_ne p w _ hk
        · exact ht
        · rfl
        · exact Nat.le_refl _
        · intro u' fu iu hfu hiu hk
          exact ⟨_, destructive_vi_same p w _ _ u' fu iu hfu hiu hk, rfl, rfl, rfl⟩
        · intro u' fu hfu hk; exact destructive_vi_ne p w _ _ u' fu hfu hk
      | invert =>
        apply good_write_mem_taint P hf w p _ hg v f m hv hr _ _ false _ { p.si (.mem m) with S := [] }
          (destructive_si_same p w _ _) (fun k hk => destructive_si_ne p w _ hk) ht rfl (Nat.le_refl _)
        · intro u' fu iu hfu hiu hk
          exact ⟨_, destructive_vi_same p w _ _ u' fu iu hfu hiu hk, rfl, rfl, rfl⟩
        · intro u' fu hfu hk; exact destructive_vi_ne p w _ _ u' fu hfu hk
    · have ht' : (p.si (.mem m)).tainted = false := by simpa using ht
      by_cases hs : (i.sync != (p.si (.mem m)).ver || f.readOnly) = true
      · -- stale writer: the block becomes tainted
        simp only [setGhost, write_stale p w v f i m hr ht' hs, hkey, Bool.false_eq_true, if_false]
        have hts : ((p.taint w (.mem m)).si (.mem m)).S = [] := by rw [taint_si_same]
        cases op with
        | union =>
          apply good_write_mem_taint P hf w p _ hg v f m hv hr _ _ false _ ⟨[], (p.si (.mem m)).ver, true⟩ (taint_si_same p w _)
            (fun k hk => taint_si_ne p w hk) rfl rfl (Nat.le_refl _)
          · intro u' fu iu hfu hiu hk
            exact ⟨_, taint_vi_same p w _ u' fu iu hfu hiu hk, rfl, rfl, rfl⟩
          · intro u' fu hfu hk; exact taint_vi_ne p w _ u' fu hfu hk
        | inter =>
          apply good_write_mem_taint P hf w p _ hg v f m hv hr _ _ false _ ⟨[], (p.si (.mem m)).ver, true⟩
          · rw [destructive_si_same, taint_si_same]; rfl
          · intro k hk; rw [destructive_si_ne _ _ _ hk, taint_si_ne _ _ hk]
          · rfl
          · rfl
          · exact Nat.le_refl _
          · intro u' fu iu hfu hiu hk
            exact ⟨_, destructive_vi_same _ w _ _ u' fu _ hfu (taint_vi_same p w _ u' fu iu hfu hiu hk) hk, rfl, rfl, rfl⟩
          · intro u' fu hfu hk
            rw [destructive_vi_ne _ w _ _ u' fu hfu hk, taint_vi_ne p w _ u' fu hfu hk]
        | invert =>
          apply good_write_mem_taint P hf w p _ hg v f m hv hr _ _ false _ ⟨[], (p.si (.mem m)).ver, true⟩
          · rw [destructive_si_same, taint_si_same]
          · intro k hk; rw [destructive_si_ne _ _ _ hk, taint_si_ne _ _ hk]
          · rfl
          · rfl
          · exact Nat.le_refl _
          · intro u' fu iu hfu hiu hk
            exact ⟨_, destructive_vi_same _ w _ _ u' fu _ hfu (taint_vi_same p w _ u' fu iu hfu hiu hk) hk, rfl, rfl, rfl⟩
          · intro u' fu hfu hk
            rw [destructive_vi_ne _ w _ _ u' fu hfu hk, taint_vi_ne p w _ u' fu hfu hk]
      · -- disciplined write
        have hs' : (i.sync != (p.si (.mem m)).ver || f.readOnly) = false := by simpa using hs
        have hsync : i.sync = (p.si (.mem m)).ver := by
          simp only [Bool.or_eq_false_iff, bne_eq_false_iff_eq] at hs'; exact hs'.1
        have hp : i.promised = true := by
          cases hpp : i.promised with
          | true => rfl
          | false => have := hok.us hpp hm ht'; omega
        have hk1 := (hok.k1 hp).1
        obtain ⟨hcovS0, hhsS0, _⟩ := block_of_writer P hf w p hg v f i m hv hi hr hp ht' hsync
        have hcovA : Covers hf (w.val f) (f.off P) f.cfg (p.si (.mem m)).S := by rw [hX, hoff]; exact hcovS0
        have hcovM : Covers hf (w.val f) (f.off P) f.cfg i.M := by rw [hX]; exact hok.cov
        simp only [setGhost, write_ok p w v f i m hr ht' hs', hkey, hp, if_true]
        generalize hsudef : (if agrees w g' then (p.si (keyOf u g')).S else []) = su
        have hsu' : su = [] ∨ (su = (p.si (keyOf u g')).S ∧ agrees w g' = true) := by
          by_cases hag : agrees w g' = true
          · right; rw [← hsudef]; simp [hag]
          · left; rw [← hsudef]; simp [hag]
        have hlists := setop_lists_covered P hf f g' op w hw.capPos hcc (p.si (.mem m)).S i.M su hcovA hcovM (fun hop => (hB0 hop su hsu').1)
        simp only [hoff, hX] at hlists ⊢
        have hnepos : ∀ M' : List ι, Covers hf (setField (w.blockVal m) 256 f.capBits (combine op f.capBits (w.bitsOf P f) (w.bitsOf P g'))) 256 f.cfg M' →
            Hashed hf f.seed M' → M' ≠ [] →
            (false = true ∨ popCount (setField (w.blockVal m) 256 f.capBits (combine op f.capBits (w.bitsOf P f) (w.bitsOf P g'))) 256 f.capBits ≠ 0) := by
          intro M' hc hh hne
          right
          have := popCount_pos_of_covers hf _ 256 f.cfg M' hc hh hne hk1 hw.capPos
          simp only [Filter.cfg] at this
          omega
        have hcntR : getField (commitVal P f (setField (w.blockVal m) 256 f.capBits (combine op f.capBits (w.bitsOf P f) (w.bitsOf P g')))
              (some (popCount (setField (w.blockVal m) 256 f.capBits (combine op f.capBits (w.bitsOf P f) (w.bitsOf P g'))) 256 f.capBits))) 192 64 = P.dirty ∨
            getField (commitVal P f (setField (w.blockVal m) 256 f.capBits (combine op f.capBits (w.bitsOf P f) (w.bitsOf P g')))
              (some (popCount (setField (w.blockVal m) 256 f.capBits (combine op f.capBits (w.bitsOf P f) (w.bitsOf P g'))) 256 f.capBits))) 192 64
              = popCount (setField (w.blockVal m) 256 f.capBits (combine op f.capBits (w.bitsOf P f) (w.bitsOf P g'))) 256 f.capBits := by
          right
          rw [commitVal_count P hP.layout f m hr hro']
          have := hn64 256; rw [hX] at this; exact this
        have hlow : ∀ j, j < 256 → (setField (w.blockVal m) 256 f.capBits (combine op f.capBits (w.bitsOf P f) (w.bitsOf P g'))).testBit j
            = (w.blockVal m).testBit j := fun j hj => testBit_setField_out _ _ _ _ _ (Or.inl hj)
        cases op with
        | union =>
          have hB := hB0 (by intro h; cases h) su hsu'
          simp only [setS_vi, setV_vi_same, setS_si_same, setV_si]
          apply good_write_mem_ok P hf hP.layout w p _ hg v f i m hv hi hr hro' hp ht' hsync _ _ false _
            ⟨(p.si (.mem m)).S ++ su, (p.si (.mem m)).ver + 1, false⟩ ((p.si (.mem m)).S ++ su) hlow
          · simp [ht']
          · intro k hk; simp [setS_si_ne _ _ hk]
          · simp [hsync]
          · rfl
          · simp [hsync, hp]
          · intro u' fu iu hu' hfu hiu hk
            refine ⟨iu.M, ?_, Or.inr ⟨rfl, ?_⟩⟩
            · simp [setV_vi_ne _ _ hu', hiu]
            · intro j _ hb
              by_cases hj : j < f.capBits
              · have := setop_bit P w f g' .union j hj (hcc.imp id compatible_cap)
                rw [hoff, hX] at this
                rw [this]; simp [combineBit, hb]
              · rw [testBit_setField_out _ _ _ _ _ (Or.inr (by omega))]; exact hb
          · intro u' fu hfu hk
            have hu' : u' ≠ v := by intro e; subst e; rw [hv] at hfu; injection hfu with hfu; subst hfu; exact hk hkey
            simp [setV_vi_ne _ _ hu']
          · exact hashed_append hf hhsS0 hB.2
          · exact hlists.1 rfl
          · exact hashed_append hf hhsS0 hB.2
          · exact hlists.1 rfl
          · exact hnepos _ (hlists.1 rfl) (hashed_append hf hhsS0 hB.2)
          · intro _; rfl
          · exact hcntR
          · intro h; cases h
        | inter =>
          simp only [setV_vi_same]
          apply good_write_mem_ok P hf hP.layout w p _ hg v f i m hv hi hr hro' hp ht' hsync _ _ false _
            ⟨(p.si (.mem m)).S.filter (fun y => decide (y ∈ su)), (p.si (.mem m)).ver + 1, false⟩ (i.M.filter (fun y => decide (y ∈ su))) hlow
          · simp [destructive_si_same, ht']
          · intro k hk; simp [destructive_si_ne _ _ _ hk, setS_si_ne _ _ hk]
          · simp [hsync]
          · rfl
          · simp [hsync, hp]
          · intro u' fu iu hu' hfu hiu hk
            refine ⟨[], ?_, Or.inl rfl⟩
            rw [setV_vi_ne _ _ hu']
            exact destructive_vi_same _ w _ _ u' fu iu hfu (by simp [setV_vi_ne _ _ hu', hiu]) hk
          · intro u' fu hfu hk
            have hu' : u' ≠ v := by intro e; subst e; rw [hv] at hfu; injection hfu with hfu; subst hfu; exact hk hkey
            rw [setV_vi_ne _ _ hu', destructive_vi_ne _ w _ _ u' fu hfu hk]; simp [setV_vi_ne _ _ hu']
          · exact hashed_filter hf _ hok.hs
          · exact (hlists.2 rfl).2
          · exact hashed_filter hf _ hhsS0
          · exact (hlists.2 rfl).1
          · exact hnepos _ (hlists.2 rfl).2 (hashed_filter hf _ hok.hs)
          · intro _; rfl
          · exact hcntR
          · intro h; cases h
        | invert =>
          apply good_write_mem_ok P hf hP.layout w p _ hg v f i m hv hi hr hro' hp ht' hsync _ _ false _
            ⟨[], (p.si (.mem m)).ver + 1, false⟩ [] hlow
          · rw [destructive_si_same]; simp [ht']
          · intro k hk; rw [destructive_si_ne _ _ _ hk]; simp [setS_si_ne _ _ hk]
          · simp [hsync]
          · rfl
          · rw [destructive_vi_same _ w _ _ v f { i with sync := (p.si (.mem m)).ver + 1 } hv (by simp [hp]) hkey]
            simp [hsync, hp]
          · intro u' fu iu hu' hfu hiu hk
            refine ⟨[], ?_, Or.inl rfl⟩
            exact destructive_vi_same _ w _ _ u' fu iu hfu (by simp [setV_vi_ne _ _ hu', hiu]) hk
          · intro u' fu hfu hk
            have hu' : u' ≠ v := by intro e; subst e; rw [hv] at hfu; injection hfu with hfu; subst hfu; exact hk hkey
            rw [destructive_vi_ne _ w _ _ u' fu hfu hk]; simp [setV_vi_ne _ _ hu']
          · intro y hy; cases hy
          · exact Covers.nil _ _ _ _
          · intro y hy; cases hy
          · exact Covers.nil _ _ _ _
          · intro h; exact absurd rfl h
          · intro _; rfl
          · exact hcntR
          · intro h; cases h

end DS.Bloom

/- VarOpt union: merging sketches into the gadget keeps the gadget's invariant, n and total weight. Rat instance. -/
import DSProofs.Lemmas.VarOptQuery
namespace DS.VarOpt
open DS

-- ------------------------------------------------------------------ the weight-correcting R iterator

theorem corrected_spec (tau total : Rat) (htau : 0 < tau) : ∀ (n : Nat) (cum : Rat),
    (correctedRWeights tau total n cum).length = n ∧
    (1 ≤ n → sumR (correctedRWeights tau total n cum) = total - cum) ∧
    (0 < total - cum - ((n : Rat) - 1) * tau → ∀ x ∈ correctedRWeights tau total n cum, 0 < x) := by
  intro n
  induction n using Nat.strong_induction_on with
  | _ n ih =>
    intro cum
    match n with
    | 0 => simp [correctedRWeights]
    | 1 =>
      refine ⟨by simp [correctedRWeights], fun _ => by simp [correctedRWeights, sumR], ?_⟩
      intro h x hx
      simp [correctedRWeights] at hx
      subst hx; simpa using h
    | n + 2 =>
      obtain ⟨h1, h2, h3⟩ := ih (n + 1) (by omega) (cum + tau)
      have hdef : correctedRWeights tau total (n + 2) cum = tau :: correctedRWeights tau total (n + 1) (cum + tau) := by
        simp [correctedRWeights]
      rw [hdef]
      refine ⟨by simp [h1], fun _ => ?_, ?_⟩
      · simp only [sumR]; rw [h2 (by omega)]; ring
      · intro h x hx
        rcases List.mem_cons.mp hx with rfl | hx'
        · exact htau
        · apply h3 _ x hx'
          push_cast at h ⊢
          linarith

theorem sumR_zip_snd {α : Type} (a : List α) (b : List Rat) (h : a.length = b.length) :
    sumR ((a.zip b).map (·.2)) = sumR b := by
  induction a generalizing b with
  | nil => cases b <;> simp_all [sumR]
  | cons x t ih =>
    cases b with
    | nil => simp at h
    | cons y t' => simp [sumR]; exact ih t' (by simpa using h)

/-- what `merge_items` feeds for the R region: positive weights summing to `total_wt_r_` -/
theorem rSamplesCorrected_spec (s : Sk Rat) (hr : s.R ≠ []) (hW : 0 < s.totalWtR) :
    (∀ p ∈ s.rSamplesCorrected, 0 < p.2) ∧ totalW s.rSamplesCorrected = s.totalWtR ∧
    s.rSamplesCorrected.length = s.R.length := by
  have hr0 : (0 : Rat) < (s.R.length : Rat) := by exact_mod_cast length_pos_of_ne_nil hr
  have htau : 0 < s.totalWtR / (s.R.length : Rat) := by positivity
  obtain ⟨h1, h2, h3⟩ := corrected_spec (s.totalWtR / (s.R.length : Rat)) s.totalWtR htau s.R.length 0
  have hlast : 0 < s.totalWtR - 0 - ((s.R.length : Rat) - 1) * (s.totalWtR / (s.R.length : Rat)) := by
    have : s.totalWtR - 0 - ((s.R.length : Rat) - 1) * (s.totalWtR / (s.R.length : Rat)) = s.totalWtR / (s.R.length : Rat) := by
      field_simp; ring
    rw [this]; exact htau
  unfold Sk.rSamplesCorrected totalW
  simp only [Num.div_rat, Num.ofNat_rat, Num.zero_rat]
  refine ⟨?_, ?_, ?_⟩
  · intro p hp
    exact h3 hlast p.2 (List.of_mem_zip hp).2
  · rw [sumR_zip_snd _ _ h1.symm, h2 (length_pos_of_ne_nil hr)]; ring
  · simp [h1]

-- ------------------------------------------------------------------ merge_items / update

theorem totalW_map_H (H : List E) : totalW (H.map (fun e => (e.item, e.wt))) = sumW H := by
  induction H with
  | nil => rfl
  | cons e t ih => simp [totalW, sumR, sumW] at ih ⊢; rw [ih]

theorem countMarks_append (a b : List E) : countMarks (a ++ b) = countMarks a + countMarks b := by
  simp [countMarks, List.filter_append]

theorem countMarks_entriesOf (g mark : Bool) (items : List (Int × Rat)) :
    countMarks (entriesOf g mark items) = if g && mark then items.length else 0 := by
  unfold countMarks entriesOf
  by_cases h : (g && mark) = true
  · rw [if_pos h, List.filter_eq_self.mpr]
    · simp
    · intro e he
      simp only [List.mem_reverse, List.mem_map] at he
      obtain ⟨p, _, rfl⟩ := he
      exact h
  · rw [if_neg h, List.filter_eq_nil_iff.mpr]
    · rfl
    · intro e he
      simp only [List.mem_reverse, List.mem_map] at he
      obtain ⟨p, _, rfl⟩ := he
      simpa using h

theorem sumW_marked_entriesOf (g mark : Bool) (items : List (Int × Rat)) :
    sumW ((entriesOf g mark items).filter (·.mark)) = if g && mark then totalW items else 0 := by
  by_cases h : (g && mark) = true
  · rw [if_pos h, List.filter_eq_self.mpr, sumW_entriesOf]
    intro e he
    exact (mem_entriesOf.mp he).2.trans h
  · rw [if_neg h, List.filter_eq_nil_iff.mpr]
    · rfl
    · intro e he
      have := (mem_entriesOf.mp he).2
      simp only [Bool.not_eq_true] at h
      rw [this, h]; simp

/-- bookkeeping of `resolve_tau` against the marked entries ever fed to the gadget (ghost list `insG`): the
    denominator never exceeds their number, and when it equals it the numerator is their total weight -/
def TauBook (u : Un Rat) (insG : List E) : Prop :=
  u.outerTauDenom ≤ countMarks insG ∧
  (u.outerTauDenom = countMarks insG → u.outerTauNumer = sumW (insG.filter (·.mark)))

/-- invariant of a union: the gadget satisfies the sketch invariant for the ghost list `insG` of everything fed to
    it, whose total weight is `tot`; `cnt` is the union's item counter -/
structure UInv (u : Un Rat) (insG LG : List E) (tot : Rat) (cnt : Nat) : Prop where
  ginv : Inv u.gadget insG LG
  isGadget : u.gadget.gadget = true
  kEq : u.gadget.k = u.maxK
  n_eq : u.n = cnt
  tot_eq : sumW insG = tot
  nz : insG ≠ [] → 1 ≤ cnt

/-- a sketch that has seen nothing has no reservoir -/
theorem Inv.warm_R_of_empty {sk : Sk Rat} {L : List E} (h : Inv sk [] L) : sk.R = [] := by
  by_contra hr
  have he := h.est hr
  have hl := h.perm.length_eq
  simp at hl
  have := he.rLen
  omega

theorem mergeItems_spec (T : Tunables) (u : Un Rat) (insG LG : List E) (tot : Rat) (cnt : Nat) (hu : UInv u insG LG tot cnt)
    (sk : Sk Rat) (ins L : List E) (hsk : Inv sk ins L) (ds : Draws Rat) :
    ∃ u' ds' insG' LG', mergeItems T u sk ds = some (u', ds') ∧ UInv u' insG' LG' (tot + sumW ins) (cnt + sk.n) ∧
      u'.maxK = u.maxK ∧ u'.outerTauNumer = u.outerTauNumer ∧ u'.outerTauDenom = u.outerTauDenom ∧
      countMarks insG' = countMarks insG + sk.R.length ∧
      sumW (insG'.filter (·.mark)) = sumW (insG.filter (·.mark)) + (if sk.R = [] then 0 else sk.totalWtR) := by
  unfold mergeItems
  by_cases hn : sk.n = 0
  · have : ins = [] := List.eq_nil_of_length_eq_zero (by rw [← hsk.n_eq]; exact hn)
    subst this
    simp only [hn, beq_self_eq_true, if_true]
    exact ⟨u, ds, insG, LG, rfl, ⟨hu.ginv, hu.isGadget, hu.kEq, by simp [hu.n_eq], by simp [sumW, hu.tot_eq], fun h => by have := hu.nz h; omega⟩, rfl, rfl, rfl,
      by rw [hsk.warm_R_of_empty]; simp, by rw [hsk.warm_R_of_empty]; simp⟩
  · simp only [hn, beq_iff_eq, if_false]
    -- H region, unmarked
    have hposH : ∀ p ∈ sk.H.map (fun e => (e.item, e.wt)), 0 < p.2 := by
      intro p hp
      obtain ⟨e, he, rfl⟩ := List.mem_map.mp hp
      exact hsk.pos e (hsk.perm.symm.subset (List.mem_append_left _ he))
    obtain ⟨g1, ds1, L1, hf1, hinv1, hk1, hg1, _, _⟩ :=
      feed_spec T false (sk.H.map (fun e => (e.item, e.wt))) u.gadget insG LG ds hu.ginv hposH (by simp)
    rw [hf1]
    simp only []
    by_cases hr : sk.R = []
    · -- no R region
      have hrs : sk.rSamplesCorrected = [] := by simp [Sk.rSamplesCorrected, hr]
      rw [hrs]
      simp only [feed]
      refine ⟨_, ds1, _, L1, rfl, ⟨hinv1, by rw [hg1]; exact hu.isGadget, by rw [hk1]; exact hu.kEq, by simp [hu.n_eq], ?_, fun _ => by omega⟩, rfl, rfl, rfl, ?_, ?_⟩
      · rw [sumW_append, sumW_entriesOf, totalW_map_H, hu.tot_eq, ← hsk.weight.1 hr]; ring
      · rw [countMarks_append, countMarks_entriesOf, hr]; simp
      · rw [List.filter_append, sumW_append, sumW_marked_entriesOf, hr]; simp
    · have he := hsk.est hr
      have hLne : L ≠ [] := by intro h; have := he.rLen; rw [h] at this; simp at this
      have hWpos : 0 < sk.totalWtR := by
        rw [he.wtR]
        exact sumW_pos hLne (fun e heL => hsk.pos e (hsk.perm.symm.subset (List.mem_append_right _ heL)))
      obtain ⟨hposR, htotR, hrlen⟩ := rSamplesCorrected_spec sk hr hWpos
      obtain ⟨g2, ds2, L2, hf2, hinv2, hk2, hg2, _, _⟩ :=
        feed_spec T true sk.rSamplesCorrected g1 _ L1 ds1 hinv1 hposR (fun _ => by rw [hg1]; exact hu.isGadget)
      rw [hf2]
      refine ⟨_, ds2, _, L2, rfl, ⟨hinv2, by rw [hg2, hg1]; exact hu.isGadget, by rw [hk2, hk1]; exact hu.kEq,
        by simp [hu.n_eq], ?_, fun _ => by omega⟩, rfl, rfl, rfl, ?_, ?_⟩
      · rw [sumW_append, sumW_entriesOf, htotR, sumW_append, sumW_entriesOf, totalW_map_H, hu.tot_eq, ← hsk.weight.2 hr]; ring
      · rw [countMarks_append, countMarks_entriesOf, countMarks_append, countMarks_entriesOf, hg1, hu.isGadget, hrlen]
        simp; omega
      · rw [List.filter_append, sumW_append, sumW_marked_entriesOf, List.filter_append, sumW_append, sumW_marked_entriesOf,
          hg1, hu.isGadget, htotR, if_neg hr]
        simp; ring

theorem resolveTau_gadget (u : Un Rat) (sk : Sk Rat) :
    (resolveTau u sk).gadget = u.gadget ∧ (resolveTau u sk).n = u.n ∧ (resolveTau u sk).maxK = u.maxK := by
  unfold resolveTau
  simp only []
  repeat' split
  all_goals exact ⟨rfl, rfl, rfl⟩

theorem unUpdate_spec (T : Tunables) (u : Un Rat) (insG LG : List E) (tot : Rat) (cnt : Nat) (hu : UInv u insG LG tot cnt)
    (hb : TauBook u insG) (sk : Sk Rat) (ins L : List E) (hsk : Inv sk ins L) (ds : Draws Rat) :
    ∃ u' ds' insG' LG', u.update T sk ds = some (u', ds') ∧ UInv u' insG' LG' (tot + sumW ins) (cnt + sk.n) ∧
      u'.maxK = u.maxK ∧ TauBook u' insG' := by
  obtain ⟨u1, ds1, insG', LG', hm, hinv, hmk, hnum, hden, hcm, hsm⟩ := mergeItems_spec T u insG LG tot cnt hu sk ins L hsk ds
  obtain ⟨h1, h2, h3⟩ := resolveTau_gadget u1 sk
  refine ⟨resolveTau u1 sk, ds1, insG', LG', by simp [Un.update, hm], ?_, by rw [h3, hmk], ?_⟩
  · exact ⟨by rw [h1]; exact hinv.ginv, by rw [h1]; exact hinv.isGadget, by rw [h1, h3]; exact hinv.kEq,
      by rw [h2]; exact hinv.n_eq, hinv.tot_eq, hinv.nz⟩
  · obtain ⟨hle, heq⟩ := hb
    rw [← hden] at hle heq
    rw [← hnum] at heq
    -- marked entries counted zero weigh zero
    have hzero : countMarks insG = 0 → sumW (insG.filter (·.mark)) = 0 := by
      intro h0
      unfold countMarks at h0
      rw [List.eq_nil_of_length_eq_zero h0]; rfl
    unfold TauBook resolveTau
    by_cases hr : sk.R = []
    · have hrl : ¬ sk.R.length > 0 := by rw [hr]; simp
      rw [if_neg hrl, hcm, hsm, hr]
      simp only [List.length_nil, Nat.add_zero, if_true, add_zero]
      exact ⟨hle, heq⟩
    · have hrpos : sk.R.length > 0 := length_pos_of_ne_nil hr
      rw [if_pos hrpos, hcm, hsm, if_neg hr]
      simp only []
      split
      · refine ⟨by show sk.R.length ≤ _; omega, fun h => ?_⟩
        have h0 : countMarks insG = 0 := by
          have : sk.R.length = countMarks insG + sk.R.length := h
          omega
        show sk.totalWtR = _
        rw [hzero h0]; ring
      · split
        · refine ⟨by show sk.R.length ≤ _; omega, fun h => ?_⟩
          have h0 : countMarks insG = 0 := by
            have : sk.R.length = countMarks insG + sk.R.length := h
            omega
          show sk.totalWtR = _
          rw [hzero h0]; ring
        · split
          · refine ⟨by show u1.outerTauDenom + sk.R.length ≤ _; omega, fun h => ?_⟩
            have h0 : u1.outerTauDenom = countMarks insG := by
              have : u1.outerTauDenom + sk.R.length = countMarks insG + sk.R.length := h
              omega
            show Num.add u1.outerTauNumer sk.totalWtR = _
            rw [Num.add_rat, heq h0]
          · refine ⟨by omega, fun h => ?_⟩
            exfalso; omega

/-- `update` with each sketch of a list, in order -/
def unionAll (T : Tunables) : Un Rat → List (Sk Rat) → Draws Rat → Option (Un Rat × Draws Rat)
  | u, [], ds => some (u, ds)
  | u, sk :: t, ds =>
    match u.update T sk ds with
    | some (u1, ds1) => unionAll T u1 t ds1
    | none => none

theorem newUnion_inv (T : Tunables) (maxK : Nat) (u0 : Un Rat) (h : Un.new T maxK = some u0) :
    UInv u0 [] [] 0 0 ∧ u0.maxK = maxK := by
  unfold Un.new at h
  split at h
  · rename_i g hg
    injection h with h
    subst h
    obtain ⟨hinv, hk, hgg, _⟩ := new_inv T maxK T.defaultRf true g hg
    exact ⟨⟨hinv, hgg, hk, rfl, rfl, fun h => absurd rfl h⟩, rfl⟩
  · exact absurd h (by simp)

end DS.VarOpt

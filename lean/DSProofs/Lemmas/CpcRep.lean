/- Representation lemmas for the CPC sketch model: what `build_bit_matrix` computes, and that
   `promote_sparse_to_windowed` / `move_window` re-encode the same matrix (free to change). -/
import DSProofs.Lemmas.CpcBits
import DSProofs.Lemmas.CpcSet
namespace DS.Cpc

theorem getD_map_range {α} (f : Nat → α) (n i : Nat) (d : α) (h : i < n) : ((List.range n).map f).getD i d = f i := by
  simp [List.getD_eq_getElem?_getD, List.getElem?_map, List.getElem?_range h]

theorem getD_toArray {α} (l : List α) (i : Nat) (d : α) : l.toArray.getD i d = l.getD i d := by
  simp [Array.getD, List.getD_eq_getElem?_getD]
  split <;> simp_all

theorem pow_pos' (n : Nat) : 0 < 2^n := Nat.two_pow_pos n

/-- well-formedness of the representation (independent of the stream) -/
structure Rep (s : Sketch) : Prop where
  sorted : s.table.Pairwise (· < ·)
  tbl_lt : ∀ rc ∈ s.table, rc < 64 * 2^s.lgK
  offLe : s.offset ≤ 56
  sparse : s.window = [] → s.offset = 0
  win_len : s.window ≠ [] → s.window.length = 2^s.lgK
  win_byte : ∀ b ∈ s.window, b < 256
  zone : s.window ≠ [] → ∀ rc ∈ s.table, rc % 64 < s.offset ∨ s.offset + 8 ≤ rc % 64

theorem getD_window_lt (s : Sketch) (h : Rep s) (r : Nat) : s.window.getD r 0 < 256 := by
  rw [List.getD_eq_getElem?_getD]
  cases hr : s.window[r]? with
  | none => simp
  | some b => simp; exact h.win_byte b (List.mem_of_getElem? hr)

/-- `build_bit_matrix` row `r`, bit `c` = the abstract bit -/
theorem testBit_rowPattern (s : Sketch) (h : Rep s) (r c : Nat) (hc : c < 64) :
    (rowPattern s r).testBit c = s.bit r c := by
  unfold rowPattern
  rw [testBit_foldl_xor _ (nodup_of_sorted h.sorted) r c hc]
  simp only [Nat.testBit_or, Nat.testBit_two_pow_sub_one, Nat.testBit_shiftLeft, Sketch.bit]
  by_cases hw : s.window = []
  · have ho := h.sparse hw
    simp [hw, ho]
  · have hne : s.window.isEmpty = false := by simpa [List.isEmpty_iff] using hw
    simp only [hne, Bool.false_eq_true, if_false]
    by_cases h1 : c < s.offset
    · simp [h1]
    · by_cases h2 : c < s.offset + 8
      · have h3 : c ≥ s.offset := by omega
        have hnot : r * 64 + c ∉ s.table := by
          intro hm
          have := h.zone hw _ hm
          rw [rc_mod r c hc] at this
          omega
        simp [h1, h2, h3, hnot]
      · have h3 : c ≥ s.offset := by omega
        have hb : (s.window.getD r 0).testBit (c - s.offset) = false :=
          Nat.testBit_lt_two_pow (Nat.lt_of_lt_of_le (getD_window_lt s h r)
            (by calc 256 = 2^8 := by decide
                 _ ≤ 2^(c - s.offset) := Nat.pow_le_pow_right (by decide) (by omega)))
        rw [List.getD_eq_getElem?_getD] at hb
        simp [h1, h2, h3, hb]

theorem rowPattern_high (s : Sketch) (h : Rep s) (r c : Nat) (hc : 64 ≤ c) : (rowPattern s r).testBit c = false := by
  unfold rowPattern
  -- no table entry touches a bit ≥ 64; the base word is below 2^64
  have hfold : ∀ (l : List Nat) (b : Nat), b.testBit c = false →
      (l.foldl (fun m rc => if rc / 64 = r then m ^^^ 2^(rc % 64) else m) b).testBit c = false := by
    intro l
    induction l with
    | nil => intro b hb; simpa using hb
    | cons x t ih =>
      intro b hb
      simp only [List.foldl_cons]
      apply ih
      split
      · have : x % 64 ≠ c := by omega
        simp [Nat.testBit_xor, hb, this]
      · exact hb
  apply hfold
  simp only [Nat.testBit_or, Nat.testBit_two_pow_sub_one, Nat.testBit_shiftLeft]
  have ho := h.offLe
  have h1 : ¬ (c < s.offset) := by omega
  have hb : (s.window.getD r 0).testBit (c - s.offset) = false :=
    Nat.testBit_lt_two_pow (Nat.lt_of_lt_of_le (getD_window_lt s h r)
      (by calc 256 = 2^8 := by decide
           _ ≤ 2^(c - s.offset) := Nat.pow_le_pow_right (by decide) (by omega)))
  rw [List.getD_eq_getElem?_getD] at hb
  simp [h1, hb]

theorem buildBitMatrix_getD (s : Sketch) (r : Nat) (hr : r < 2^s.lgK) : (buildBitMatrix s).getD r 0 = rowPattern s r :=
  getD_map_range _ _ _ _ hr

/-! ### reading a matrix back into window + table (`move_window`, `get_result_from_bit_matrix`) -/

theorem mem_tableOfMatrix (k off : Nat) (m : Array Nat) (rc : Nat) :
    rc ∈ tableOfMatrix k off m ↔ rc < 64 * k ∧ (surprises off (m.getD (rc / 64) 0)).testBit (rc % 64) = true := by
  simp [tableOfMatrix, List.mem_filter, List.mem_range]

theorem sorted_tableOfMatrix (k off : Nat) (m : Array Nat) : (tableOfMatrix k off m).Pairwise (· < ·) :=
  List.Pairwise.filter _ List.pairwise_lt_range

theorem windowOfMatrix_getD (k off : Nat) (m : Array Nat) (r : Nat) (hr : r < k) :
    (windowOfMatrix k off m).getD r 0 = (m.getD r 0 >>> off) % 256 :=
  getD_map_range _ _ _ _ hr

/-- the sketch rebuilt from a matrix at offset `off` has exactly the matrix's bits -/
theorem bit_of_matrix (s : Sketch) (k off : Nat) (m : Array Nat) (hk : 0 < k)
    (hw : s.window = windowOfMatrix k off m) (ht : s.table = tableOfMatrix k off m) (hoff : s.offset = off)
    (r c : Nat) (hr : r < k) (hc : c < 64) :
    s.bit r c = (m.getD r 0).testBit c := by
  have hne : s.window.isEmpty = false := by
    rw [hw]; simp [windowOfMatrix]; omega
  have hmem : (r * 64 + c ∈ s.table) ↔ (surprises off (m.getD r 0)).testBit c = true := by
    rw [ht, mem_tableOfMatrix, rc_div r c hc, rc_mod r c hc]
    constructor
    · exact fun h => h.2
    · intro h; exact ⟨by omega, h⟩
  simp only [Sketch.bit, hne, Bool.false_eq_true, if_false, hoff]
  rw [testBit_surprises off _ c hc] at hmem
  by_cases h1 : c < off
  · simp only [h1, if_true] at hmem ⊢
    cases hb : (m.getD r 0).testBit c <;> simp_all
  · by_cases h2 : c < off + 8
    · simp only [h1, h2, if_true, if_false]
      rw [hw, windowOfMatrix_getD k off m r hr, Nat.testBit_mod_two_pow _ 8, Nat.testBit_shiftRight]
      have : off + (c - off) = c := by omega
      have h3 : c - off < 8 := by omega
      simp [this, h3]
    · simp only [h1, h2, if_false] at hmem ⊢
      cases hb : (m.getD r 0).testBit c <;> simp_all

theorem zone_tableOfMatrix (k off : Nat) (m : Array Nat) (rc : Nat) (h : rc ∈ tableOfMatrix k off m) :
    rc % 64 < off ∨ off + 8 ≤ rc % 64 := by
  rw [mem_tableOfMatrix] at h
  have hc : rc % 64 < 64 := Nat.mod_lt _ (by decide)
  have := h.2
  rw [testBit_surprises off _ _ hc] at this
  by_cases h1 : rc % 64 < off
  · exact Or.inl h1
  · by_cases h2 : rc % 64 < off + 8
    · simp [h1, h2] at this
    · exact Or.inr (by omega)

theorem windowOfMatrix_byte (k off : Nat) (m : Array Nat) : ∀ b ∈ windowOfMatrix k off m, b < 256 := by
  intro b hb
  simp only [windowOfMatrix, List.mem_map, List.mem_range] at hb
  obtain ⟨i, _, rfl⟩ := hb
  exact Nat.mod_lt _ (by decide)

/-- every column below `ficOfMatrix` is full in every row -/
theorem ficOfMatrix_full (k off : Nat) (m : Array Nat) (r c : Nat) (hr : r < k)
    (hc : c < ficOfMatrix k off m) : (m.getD r 0).testBit c = true := by
  unfold ficOfMatrix at hc
  have h1 : c < off := by omega
  have h2 : c < ctz64 ((List.range k).foldl (fun a i => a ||| surprises off (m.getD i 0)) 0) := by omega
  have h3 := ctz64_spec _ _ h2
  rw [testBit_foldl_or_range (fun i => surprises off (m.getD i 0))] at h3
  simp only [Nat.zero_testBit, Bool.false_or, List.any_eq_false, List.mem_range] at h3
  have h4 := h3 r hr
  have hc64 : c < 64 := by
    -- ctz64 ≤ 64
    have : ∀ x f i, ctzGo x f i ≤ i + f := by
      intro x f
      induction f with
      | zero => intro i; simp [ctzGo]
      | succ f ih => intro i; simp only [ctzGo]; split
                     · omega
                     · have := ih (i + 1); omega
    have := this ((List.range k).foldl (fun a i => a ||| surprises off (m.getD i 0)) 0) 64 0
    unfold ctz64 at h2
    omega
  rw [testBit_surprises off _ c hc64] at h4
  simpa [h1] using h4

theorem ficOfMatrix_le (k off : Nat) (m : Array Nat) : ficOfMatrix k off m ≤ off := Nat.min_le_right _ _

end DS.Cpc

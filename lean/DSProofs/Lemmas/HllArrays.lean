/- L2 register arrays: HLL_8 and the link between the L1 register update and `maxUpdate` (helper lemmas for Props/C03.lean). -/
import DSModel.Hll.Arrays
import DSProofs.Lemmas.HllRegs
namespace DS.Hll

variable {ν : Type} [HNum ν]

/-- the abstract register update: slot(c) := max(slot(c), value(c)) -/
def maxUpdate (p : Params) (lgK : Nat) (regs : Array Nat) (c : Nat) : Array Nat :=
  if regs.getD (cSlot p lgK c) 0 < cValue p c then regs.setIfInBounds (cSlot p lgK c) (cValue p c) else regs

/-- the L1 model's HLL-mode update is `maxUpdate` on the registers (HLL_4's quick rejection never hides a real update) -/
theorem hllUpdate_regs {p : Params} {s : St ν} {M : Nat → Prop} (h : HInv p s M) (c : Nat) :
    (hllUpdate p s c).regs = maxUpdate p s.lgK s.regs c := by
  unfold hllUpdate maxUpdate
  by_cases hq : s.tt = .h4 ∧ cValue p c ≤ s.curMin
  · rw [if_pos hq]
    have := h.cm_le hq.1 _ (cSlot_lt p s.lgK c)
    rw [if_neg (by omega)]
  · rw [if_neg hq]
    by_cases hlt : s.regs.getD (cSlot p s.lgK c) 0 < cValue p c
    · rw [if_pos hlt, if_pos hlt]; rfl
    · rw [if_neg hlt, if_neg hlt]

/-- HLL_8: the byte array IS the register array, updated by `maxUpdate`; `numAtCurMin` keeps counting the zero registers -/
theorem h8_refines (p : Params) (h : H8) (c : Nat) (hsz : h.bytes.size = 2^h.lgK) :
    (h.update p c).regs = maxUpdate p h.lgK h.regs c ∧ (h.update p c).lgK = h.lgK ∧
    (h.update p c).bytes.size = 2^h.lgK ∧
    (h.numAtCurMin = h.regs.count 0 → (h.update p c).numAtCurMin = (h.update p c).regs.count 0) := by
  unfold H8.update maxUpdate H8.regs
  simp only
  by_cases hlt : cValue p c > h.bytes.getD (cSlot p h.lgK c) 0
  · rw [if_pos hlt, if_pos hlt]
    refine ⟨rfl, rfl, by simp [hsz], fun hn => ?_⟩
    have hs : cSlot p h.lgK c < h.bytes.size := by rw [hsz]; exact cSlot_lt p h.lgK c
    have hcs := count_setIfInBounds (a := h.bytes) (i := cSlot p h.lgK c) (v := cValue p c) (w := 0) hs
    rw [if_neg (show ¬ cValue p c = 0 by omega)] at hcs
    simp only
    have hn' : h.numAtCurMin = h.bytes.count 0 := hn
    by_cases h0 : h.bytes.getD (cSlot p h.lgK c) 0 = 0
    · rw [if_pos h0] at hcs ⊢; omega
    · rw [if_neg h0] at hcs ⊢; omega
  · rw [if_neg hlt, if_neg hlt]
    exact ⟨rfl, rfl, hsz, fun hn => hn⟩

end DS.Hll

import DSModel.Hll.Arrays

/- A Boolean witness (evaluated by the kernel on a concrete history) refutes the corresponding full statement. -/
import DSModel.Bloom.Promise
namespace DS.Bloom

variable {ι : Type} [DecidableEq ι]

theorem not_noFalseNeg_of_witness (P : Params) (fx : Fix) (hf : ι → Nat → Option (Nat × Nat)) (ops : List (Op ι)) (v : Nat) (x : ι)
    (h : fnWitness P fx hf ops v x = true) : ¬ NoFalseNegFull P fx hf := by
  intro hfull
  unfold fnWitness at h
  split at h
  · rename_i f i hf' hi'
    simp only [Bool.and_eq_true, decide_eq_true_eq, Bool.not_eq_true'] at h
    have := hfull ops v f i hf' hi' h.1.1 x h.1.2
    rw [this] at h
    exact absurd h.2 (by simp)
  · cases h

theorem not_qauPrior_of_witness (P : Params) (fx : Fix) (hf : ι → Nat → Option (Nat × Nat)) (ops : List (Op ι)) (v : Nat) (x : ι) (b : Bool)
    (h : qauWitness P fx hf ops v x b = true) : ¬ QauPriorFull P fx hf := by
  intro hfull
  unfold qauWitness at h
  split at h
  · rename_i f i hf' hi'
    simp only [Bool.and_eq_true, decide_eq_true_eq, bne_iff_ne, ne_eq] at h
    have := hfull ops v f i x b hf' hi' h.1.1.1 h.1.1.2 h.1.2
    exact h.2 this.symm
  · cases h

end DS.Bloom

/- C19 helper: `Heap.setCells` (whole-block update used by the sorting primitives) and its views. -/
import DSProofs.Lemmas.LifeView
namespace DS.Life

theorem find?_setCells (h : Heap) (b : Nat) (cs : List Cell) (b' : Nat) :
    (h.setCells b cs).find? b' = if b' = b then (h.find? b).map (fun B => { B with cells := cs }) else h.find? b' := by
  unfold Heap.setCells Heap.find?
  exact find?_map_upd h.blocks b b' (fun B => { B with cells := cs }) (fun _ => rfl)

@[simp] theorem next_setCells (h : Heap) (b : Nat) (cs : List Cell) : (h.setCells b cs).next = h.next := rfl

@[simp] theorem ids_setCells (h : Heap) (b : Nat) (cs : List Cell) : (h.setCells b cs).ids = h.ids := by
  unfold Heap.setCells Heap.ids
  simp only [List.map_map]
  apply List.map_congr_left
  intro B _
  simp only [Function.comp]
  split <;> rfl

theorem Out_setCells (S : Nat → Bool) (h : Heap) (b : Nat) (cs : List Cell) (hS : S b = true) :
    Out S (h.setCells b cs) = Out S h := by
  unfold Out Heap.setCells
  simp only
  induction h.blocks with
  | nil => rfl
  | cons B Bs ih =>
    simp only [List.map_cons, List.filter_cons]
    by_cases hB : B.id = b
    · simp [hB, hS, ih]
    · simp only [hB, if_false]
      rw [ih]

theorem Frame_setCells (S : Nat → Bool) (h : Heap) (b : Nat) (cs : List Cell) (hS : S b = true) :
    Frame S h (h.setCells b cs) :=
  ⟨Out_setCells S h b cs hS, Nat.le_refl _, fun w => by simpa [Heap.WF] using w⟩

theorem cell?_setCells {h : Heap} {b : Nat} {B : Block} (hf : h.find? b = some B) (cs : List Cell) (b' j : Nat) :
    (h.setCells b cs).cell? b' j = if b' = b then cs[j]? else h.cell? b' j := by
  simp only [cell?_def, find?_setCells]
  by_cases hb : b' = b
  · subst hb; simp [hf]
  · simp [hb]

theorem count?_setCells {h : Heap} {b : Nat} {B : Block} (hf : h.find? b = some B) (cs : List Cell) (b' : Nat) :
    (h.setCells b cs).count? b' = if b' = b then some cs.length else h.count? b' := by
  unfold Heap.count?
  rw [find?_setCells]
  by_cases hb : b' = b
  · subst hb; simp [hf]
  · simp [hb]

/-- cells of an existing block through the views -/
theorem cell?_of_find? {h : Heap} {b : Nat} {B : Block} (hf : h.find? b = some B) (j : Nat) :
    h.cell? b j = B.cells[j]? := by
  simp [cell?_def, hf]

theorem HasCells_of_find? {h : Heap} {b : Nat} {B : Block} (hf : h.find? b = some B) : HasCells h b B.cells.length := by
  simp [HasCells, Heap.count?, hf]

end DS.Life

namespace DS.Life

/-- replacing the segment `[lo, lo+n)` of a list by a permutation of itself -/
theorem permSeg_length {α : Type} (cs seg' : List α) (lo n : Nat) (hle : lo + n ≤ cs.length)
    (hp : seg'.Perm ((cs.drop lo).take n)) : (cs.take lo ++ seg' ++ cs.drop (lo + n)).length = cs.length := by
  have hl : seg'.length = n := by rw [hp.length_eq]; simp; omega
  simp [hl]; omega

theorem permSeg_outside {α : Type} (cs seg' : List α) (lo n : Nat) (hle : lo + n ≤ cs.length)
    (hp : seg'.Perm ((cs.drop lo).take n)) (j : Nat) (hj : j < lo ∨ lo + n ≤ j) :
    (cs.take lo ++ seg' ++ cs.drop (lo + n))[j]? = cs[j]? := by
  have hl : seg'.length = n := by rw [hp.length_eq]; simp; omega
  rw [List.append_assoc, List.getElem?_append]
  have htl : (cs.take lo).length = lo := by simp; omega
  rw [htl]
  rcases hj with hj | hj
  · rw [if_pos hj, List.getElem?_take, if_pos hj]
  · rw [if_neg (by omega), List.getElem?_append, hl, if_neg (by omega), List.getElem?_drop]
    congr 1; omega

theorem permSeg_inside {α : Type} (cs seg' : List α) (lo n : Nat) (hle : lo + n ≤ cs.length)
    (hp : seg'.Perm ((cs.drop lo).take n)) (j : Nat) (h1 : lo ≤ j) (h2 : j < lo + n) :
    ∃ x, (cs.take lo ++ seg' ++ cs.drop (lo + n))[j]? = some x ∧ ∃ i, lo ≤ i ∧ i < lo + n ∧ cs[i]? = some x := by
  have hl : seg'.length = n := by rw [hp.length_eq]; simp; omega
  rw [List.append_assoc, List.getElem?_append]
  have htl : (cs.take lo).length = lo := by simp; omega
  rw [htl, if_neg (by omega), List.getElem?_append, hl, if_pos (by omega)]
  have hjl : j - lo < seg'.length := by omega
  refine ⟨seg'[j - lo], List.getElem?_eq_getElem hjl, ?_⟩
  have hm : seg'[j - lo] ∈ (cs.drop lo).take n := hp.mem_iff.mp (List.getElem_mem hjl)
  rw [List.mem_take_iff_getElem] at hm
  obtain ⟨k, hk, ek⟩ := hm
  refine ⟨lo + k, by omega, by simp at hk; omega, ?_⟩
  rw [← ek]
  simp only [List.getElem_drop]
  rw [List.getElem?_eq_getElem]

/-- two positions inside the permuted segment holding elements with the same key are the same position, when the
    keys of the original segment are pairwise distinct -/
theorem permSeg_inj {α β : Type} (key : α → β) (cs seg' : List α) (lo n : Nat) (hle : lo + n ≤ cs.length)
    (hp : seg'.Perm ((cs.drop lo).take n))
    (hnd : ∀ i j x y, lo ≤ i → i < lo + n → lo ≤ j → j < lo + n → cs[i]? = some x → cs[j]? = some y → key x = key y → i = j)
    (p q : Nat) (hp1 : lo ≤ p) (hp2 : p < lo + n) (hq1 : lo ≤ q) (hq2 : q < lo + n) (x y : α)
    (hx : (cs.take lo ++ seg' ++ cs.drop (lo + n))[p]? = some x)
    (hy : (cs.take lo ++ seg' ++ cs.drop (lo + n))[q]? = some y) (hk : key x = key y) : p = q := by
  have hl : seg'.length = n := by rw [hp.length_eq]; simp; omega
  have htl : (cs.take lo).length = lo := by simp; omega
  -- the keys of the original segment are Nodup
  have nd0 : (((cs.drop lo).take n).map key).Nodup := by
    rw [List.Nodup, List.pairwise_iff_getElem]
    intro i j hi hj hij heq
    simp only [List.length_map, List.length_take, List.length_drop] at hi hj
    simp only [List.getElem_map, List.getElem_take, List.getElem_drop] at heq
    have := hnd (lo + i) (lo + j) _ _ (by omega) (by omega) (by omega) (by omega)
      (List.getElem?_eq_getElem (by omega)) (List.getElem?_eq_getElem (by omega)) heq
    omega
  have nd1 : (seg'.map key).Nodup := ((hp.map key).nodup_iff).mpr nd0
  rw [List.Nodup, List.pairwise_iff_getElem] at nd1
  -- locate x and y in seg'
  rw [List.append_assoc, List.getElem?_append, htl, if_neg (by omega), List.getElem?_append, hl, if_pos (by omega)] at hx hy
  have hpl : p - lo < seg'.length := by omega
  have hql : q - lo < seg'.length := by omega
  rw [List.getElem?_eq_getElem hpl] at hx
  rw [List.getElem?_eq_getElem hql] at hy
  cases hx; cases hy
  rcases Nat.lt_trichotomy (p - lo) (q - lo) with hlt | heq | hgt
  · have := nd1 (p - lo) (q - lo) (by simpa using hpl) (by simpa using hql) hlt
    simp only [List.getElem_map] at this
    exact absurd hk this
  · omega
  · have := nd1 (q - lo) (p - lo) (by simpa using hql) (by simpa using hpl) hgt
    simp only [List.getElem_map] at this
    exact absurd hk.symm this

end DS.Life

/- Two runs of the REQ model side by side: sketch operations and whole histories. (Helper lemmas for C08.) -/
import DSProofs.Lemmas.ReqRel2
namespace DS.Req

variable {ρ : Type}

theorem CsRel_append {hh : Option Nat} : ∀ (a a' b b' : List (Compactor ρ)), CsRel hh a a' → CsRel hh b b' → CsRel hh (a ++ b) (a' ++ b') := by
  intro a
  induction a with
  | nil => intro a' b b' h hb; cases a' with
    | nil => exact hb
    | cons _ _ => exact absurd h (by simp [CsRel])
  | cons x t ih => intro a' b b' h hb; cases a' with
    | nil => exact absurd h (by simp [CsRel])
    | cons y t' => exact ⟨h.1, ih t' b b' h.2 hb⟩

/-- what every operation does to the coin cursor: the trace only grows, the supply is untouched, |trace| = cursor -/
structure AccMono (a b : Acc) : Prop where
  pre : a.lv <+: b.lv
  coins : b.coins = a.coins
  lvlen : a.lv.length = a.used → b.lv.length = b.used
  odd : b.oddConst = false → a.oddConst = false

theorem AccMono.refl (a : Acc) : AccMono a a := ⟨List.prefix_refl _, rfl, fun h => h, fun h => h⟩
theorem AccMono.trans {a b c : Acc} (h1 : AccMono a b) (h2 : AccMono b c) : AccMono a c :=
  ⟨h1.pre.trans h2.pre, h2.coins.trans h1.coins, fun h => h2.lvlen (h1.lvlen h), fun h => h1.odd (h2.odd h)⟩

theorem compress_mono (T : Tun) (F : SecFns ρ) (s : Sketch ρ) (a : Acc) : AccMono a (s.compress T F a).2 := by
  have := compressLoop_acc T F s.hra s.k (sumItems s.compactors + s.compactors.length + 1) 0 s.compactors
    { retained := s.numRetained, maxNom := s.maxNomSize } a
  exact ⟨this.1, this.2.1, this.2.2.1, this.2.2.2⟩

theorem drawIf_mono (a : Acc) (b : Bool) (lvl : Nat) : AccMono a (a.drawIf b lvl) := by
  have := drawIf_acc a b lvl
  exact ⟨this.1, this.2.1, this.2.2.1, fun h => by rw [← this.2.2.2.1]; exact h⟩

theorem growTo_mono (T : Tun) (F : SecFns ρ) (target : Nat) : ∀ (fuel : Nat) (s : Sketch ρ) (a : Acc), AccMono a (growTo T F fuel target s a).2 := by
  intro fuel
  induction fuel with
  | zero => intro s a; exact AccMono.refl a
  | succ n ih =>
    intro s a
    simp only [growTo]
    split
    · exact (drawIf_mono a _ _).trans (ih _ _)
    · exact AccMono.refl a

theorem mergePre_mono (T : Tun) (F : SecFns ρ) (s o : Sketch ρ) (a : Acc) : AccMono a (s.mergePre T F o a).2 :=
  growTo_mono T F _ _ s a

/-! ### compress, update -/

theorem compress_rel {T : Tun} (hT : TunOK T) (F : SecFns ρ) (L : List Nat) (hh : Option Nat) (s s' : Sketch ρ) (a a' : Acc)
    (hs : SInv T s) (r : SRel hh s s') (ra : AccRel L hh a a') (hL : (s.compress T F a).2.lv <+: L) :
    SRel hh (s.compress T F a).1 (s'.compress T F a').1 ∧ AccRel L hh (s.compress T F a).2 (s'.compress T F a').2 ∧
    (∀ p h0, hh = some h0 → (s.compress T F a).2.oddConst = false → Bal p h0 s.compactors s'.compactors →
      Bal p h0 (s.compress T F a).1.compactors (s'.compress T F a').1.compactors) := by
  have hsum := CsRel_sums T _ _ r.cs
  have hlen := CsRel_length _ _ r.cs
  simp only [Sketch.compress] at hL ⊢
  rw [r.hra, r.k, hsum.1, hlen, r.ret, r.maxNom]
  have cl := compressLoop_rel hT F s.hra s.k hs.k2 L hh (sumItems s.compactors + s.compactors.length + 1) 0 s.compactors s'.compactors
    { retained := s.numRetained, maxNom := s.maxNomSize } a a' hs.cs r.cs ra hL
  obtain ⟨c1, c2, c3, c4⟩ := cl
  refine ⟨⟨rfl, rfl, ?_, ?_, r.n, r.mn, r.mx, c1⟩, c3, ?_⟩
  · show (compressLoop _ _ _ _ _ _ s'.compactors _ a').2.1.maxNom = (compressLoop _ _ _ _ _ _ s.compactors _ a).2.1.maxNom
    rw [c2]
  · show (compressLoop _ _ _ _ _ _ s'.compactors _ a').2.1.retained = (compressLoop _ _ _ _ _ _ s.compactors _ a).2.1.retained
    rw [c2]
  · intro p h0 e hodd hb
    have := c4 p h0 e hodd
    unfold Bal at hb ⊢
    show balL p h0 (compressLoop _ _ _ _ _ _ s.compactors _ a).1 (compressLoop _ _ _ _ _ _ s'.compactors _ a').1 = balR p h0 (compressLoop _ _ _ _ _ _ s.compactors _ a).1
    omega

theorem append1_bal {T : Tun} {hh : Option Nat} (s s' : Sketch ρ) (x : Int) (hs : SInv T s) (r : SRel hh s s') (p : Int → Bool) (h0 : Nat)
    (hb : Bal p h0 s.compactors s'.compactors) : Bal p h0 (s.append1 x).compactors (s'.append1 x).compactors := by
  have hr := r.cs
  have hinv := hs.cs
  unfold Bal at hb ⊢
  show balL p h0 (appendLevel0 s.compactors x) (appendLevel0 s'.compactors x) = balR p h0 (appendLevel0 s.compactors x)
  cases hc : s.compactors with
  | nil => exact absurd hc hs.nonnil
  | cons c t => cases hc' : s'.compactors with
    | nil => rw [hc, hc'] at hr; exact absurd hr (by simp [CsRel])
    | cons c' t' =>
      rw [hc] at hinv; rw [hc, hc'] at hb
      have hlg : c.lgWeight = 0 := hinv.1.lg
      simp only [appendLevel0, balL, balR, headL, headR, Compactor.append, hlg] at hb ⊢
      have n1 : ¬ (0 = h0 + 1) := by omega
      simp only [n1, if_false, Nat.zero_add] at hb ⊢
      by_cases h00 : 0 = h0
      · simp only [h00, if_true] at hb ⊢
        cases c.hra <;> simp only [cntP_cons, cntP_append, cntP_nil, Bool.false_eq_true, if_false, if_true] <;> omega
      · simp only [h00, if_false] at hb ⊢
        exact hb

theorem append1_rel {hh : Option Nat} (s s' : Sketch ρ) (x : Int) (r : SRel hh s s') : SRel hh (s.append1 x) (s'.append1 x) := by
  refine ⟨r.k, r.hra, r.maxNom, by simp [Sketch.append1, r.ret], by simp [Sketch.append1, r.n],
    by simp [Sketch.append1, r.mn], by simp [Sketch.append1, r.mx], ?_⟩
  show CsRel hh (appendLevel0 s.compactors x) (appendLevel0 s'.compactors x)
  have := r.cs
  cases hc : s.compactors with
  | nil => cases hc' : s'.compactors with
    | nil => simp [appendLevel0, CsRel]
    | cons _ _ => rw [hc, hc'] at this; exact absurd this (by simp [CsRel])
  | cons c t => cases hc' : s'.compactors with
    | nil => rw [hc, hc'] at this; exact absurd this (by simp [CsRel])
    | cons c' t' => rw [hc, hc'] at this; exact ⟨append_CRel x this.1, this.2⟩

theorem update_rel {T : Tun} (hT : TunOK T) (F : SecFns ρ) (L : List Nat) (hh : Option Nat) (s s' : Sketch ρ) (x : Int) (a a' : Acc)
    (hs : SInv T s) (r : SRel hh s s') (ra : AccRel L hh a a') (hL : (s.update T F x a).2.lv <+: L) :
    SRel hh (s.update T F x a).1 (s'.update T F x a').1 ∧ AccRel L hh (s.update T F x a).2 (s'.update T F x a').2 ∧
    (∀ p h0, hh = some h0 → (s.update T F x a).2.oddConst = false → Bal p h0 s.compactors s'.compactors →
      Bal p h0 (s.update T F x a).1.compactors (s'.update T F x a').1.compactors) := by
  have r1 := append1_rel s s' x r
  have h1 := (append1_SInv s x hs).1
  simp only [Sketch.update] at hL ⊢
  rw [r1.ret, r1.maxNom]
  split
  · rename_i hc; rw [if_pos hc] at hL
    obtain ⟨c1, c2, c3⟩ := compress_rel hT F L hh _ _ a a' h1 r1 ra hL
    exact ⟨c1, c2, fun p h0 e hodd hb => c3 p h0 e hodd (append1_bal s s' x hs r p h0 hb)⟩
  · exact ⟨r1, ra, fun p h0 _ _ hb => append1_bal s s' x hs r p h0 hb⟩

/-! ### merge -/

theorem grow_rel {hh : Option Nat} (T : Tun) (F : SecFns ρ) (s s' : Sketch ρ) (d d' : Bool) (r : SRel hh s s')
    (h1 : ∀ h0, hh = some h0 → s.compactors.length < h0 → T.initCoinRandom = true → d' = d)
    (h2 : ∀ h0, hh = some h0 → s.compactors.length = h0 → T.initCoinRandom = true → d' = !d) :
    SRel hh (s.grow T F d) (s'.grow T F d') := by
  have hlen := CsRel_length _ _ r.cs
  have hcs : CsRel hh (s.compactors ++ [Compactor.mkC T F s.hra s.compactors.length s.k d]) (s'.compactors ++ [Compactor.mkC T F s'.hra s'.compactors.length s'.k d']) := by
    rw [r.hra, r.k, hlen]
    exact CsRel_append _ _ _ _ r.cs ⟨mk'_CRel T F hh _ _ _ d d' h1 h2, trivial⟩
  exact ⟨r.k, r.hra, (CsRel_sums T _ _ hcs).2, r.ret, r.n, r.mn, r.mx, hcs⟩

theorem mergeLevels_rel {hh : Option Nat} {T : Tun} (F : SecFns ρ) {hra : Bool} : ∀ (h : Nat) (cs cs' os os' : List (Compactor ρ)),
    CsInv T hra h cs → CsInv T hra h os → CsRel hh cs cs' → CsRel hh os os' →
    CsRel hh (mergeLevels T F cs os) (mergeLevels T F cs' os') := by
  intro h cs
  induction cs generalizing h with
  | nil =>
    intro cs' os os' _ _ r ro
    cases cs' with
    | nil => cases os <;> cases os' <;> simp [mergeLevels, CsRel] at ro ⊢
    | cons _ _ => exact absurd r (by simp [CsRel])
  | cons c t ih =>
    intro cs' os os' hc ho r ro
    cases cs' with
    | nil => exact absurd r (by simp [CsRel])
    | cons c' t' =>
      cases os with
      | nil => cases os' with
        | nil => simpa [mergeLevels] using r
        | cons _ _ => exact absurd ro (by simp [CsRel])
      | cons o ot => cases os' with
        | nil => exact absurd ro (by simp [CsRel])
        | cons o' ot' =>
          simp only [mergeLevels]
          exact ⟨cmerge_CRel T F r.1 ro.1 (by rw [ho.1.lg, hc.1.lg]), ih (h + 1) t' ot ot' hc.2 ho.2 r.2 ro.2⟩

theorem balL_append {hh : Option Nat} (p : Int → Bool) (h0 : Nat) : ∀ (a a' b b' : List (Compactor ρ)), CsRel hh a a' →
    balL p h0 (a ++ b) (a' ++ b') = balL p h0 a a' + balL p h0 b b' := by
  intro a
  induction a with
  | nil => intro a' b b' h; cases a' with
    | nil => simp [balL]
    | cons _ _ => exact absurd h (by simp [CsRel])
  | cons x t ih => intro a' b b' h; cases a' with
    | nil => exact absurd h (by simp [CsRel])
    | cons y t' => simp only [List.cons_append, balL, ih t' b b' h.2]; omega

theorem balR_append (p : Int → Bool) (h0 : Nat) (a b : List (Compactor ρ)) : balR p h0 (a ++ b) = balR p h0 a + balR p h0 b := by
  induction a with
  | nil => simp [balR]
  | cons x t ih => simp only [List.cons_append, balR, ih]; omega

theorem grow_bal {hh : Option Nat} (T : Tun) (F : SecFns ρ) (s s' : Sketch ρ) (d d' : Bool) (r : SRel hh s s') (p : Int → Bool) (h0 : Nat)
    (hb : Bal p h0 s.compactors s'.compactors) : Bal p h0 (s.grow T F d).compactors (s'.grow T F d').compactors := by
  unfold Bal at hb ⊢
  show balL p h0 (s.compactors ++ [_]) (s'.compactors ++ [_]) = balR p h0 (s.compactors ++ [_])
  rw [balL_append p h0 _ _ _ _ r.cs, balR_append]
  have := heads_empty p h0 (Compactor.mkC T F s.hra s.compactors.length s.k d) (Compactor.mkC T F s'.hra s'.compactors.length s'.k d')
    (mkC_fields T F _ _ _ _).1 (mkC_fields T F _ _ _ _).2.1 (mkC_fields T F _ _ _ _).2.1
  simp only [balL, balR, this.1, this.2]; omega

/-- `while (levels < target) grow()` in two runs -/
theorem growTo_rel {hh : Option Nat} (T : Tun) (F : SecFns ρ) (L : List Nat) (target : Nat) : ∀ (fuel : Nat) (s s' : Sketch ρ) (a a' : Acc),
    SRel hh s s' → AccRel L hh a a' → (growTo T F fuel target s a).2.lv <+: L →
    SRel hh (growTo T F fuel target s a).1 (growTo T F fuel target s' a').1 ∧ AccRel L hh (growTo T F fuel target s a).2 (growTo T F fuel target s' a').2 ∧
    (∀ p h0, Bal p h0 s.compactors s'.compactors → Bal p h0 (growTo T F fuel target s a).1.compactors (growTo T F fuel target s' a').1.compactors) := by
  intro fuel
  induction fuel with
  | zero => intro s s' a a' r ra _; exact ⟨r, ra, fun _ _ hb => hb⟩
  | succ n ih =>
    intro s s' a a' r ra hL
    simp only [growTo, CsRel_length _ _ r.cs] at hL ⊢
    split
    · rename_i hlt
      rw [if_pos hlt] at hL
      have hm := growTo_mono T F target n (s.grow T F a.peek) (a.drawIf T.initCoinRandom s.compactors.length)
      have hLu : T.initCoinRandom = true → L[a.used]? = some s.compactors.length := by
        intro hf
        have : (a.drawIf T.initCoinRandom s.compactors.length).lv = a.lv ++ [s.compactors.length] := (drawIf_acc a _ _).2.2.2.2.1 hf
        rw [← ra.lvlen]; exact prefix_get a.lv _ L (by rw [← this]; exact hm.pre.trans hL)
      have hpeek' : a'.peek = a'.coins a.used := by simp [Acc.peek, ra.used]
      have g := grow_rel T F s s' a.peek a'.peek r
        (by intro h0 e hl hf
            rw [hpeek', ra.coins h0 e, hLu hf]
            have : (some s.compactors.length == some h0) = false := by simp; omega
            simp [this, Acc.peek])
        (by intro h0 e hl hf
            rw [hpeek', ra.coins h0 e, hLu hf]
            have : (some s.compactors.length == some h0) = true := by simp; omega
            simp [this, Acc.peek])
      have IH := ih _ _ _ _ g (drawIf_AccRel T.initCoinRandom s.compactors.length ra) hL
      exact ⟨IH.1, IH.2.1, fun p h0 hb => IH.2.2 p h0 (grow_bal T F s s' a.peek a'.peek r p h0 hb)⟩
    · exact ⟨r, ra, fun _ _ hb => hb⟩

theorem mergeLevels_bal {hh : Option Nat} {T : Tun} (F : SecFns ρ) {hra : Bool} (p : Int → Bool) (h0 : Nat) :
    ∀ (h : Nat) (cs cs' os os' : List (Compactor ρ)),
    CsInv T hra h cs → CsInv T hra h os → CsRel hh cs cs' → CsRel hh os os' → os.length ≤ cs.length →
    balL p h0 (mergeLevels T F cs os) (mergeLevels T F cs' os') = balL p h0 cs cs' + balL p h0 os os' ∧
    balR p h0 (mergeLevels T F cs os) = balR p h0 cs + balR p h0 os := by
  intro h cs
  induction cs generalizing h with
  | nil =>
    intro cs' os os' _ _ r ro hl
    have : os = [] := by cases os <;> simp_all
    subst this
    cases cs' with
    | nil => cases os' with
      | nil => simp [mergeLevels, balL, balR]
      | cons _ _ => exact absurd ro (by simp [CsRel])
    | cons _ _ => exact absurd r (by simp [CsRel])
  | cons c t ih =>
    intro cs' os os' hc ho r ro hl
    cases cs' with
    | nil => exact absurd r (by simp [CsRel])
    | cons c' t' =>
      cases os with
      | nil => cases os' with
        | nil => simp [mergeLevels, balL, balR]
        | cons _ _ => exact absurd ro (by simp [CsRel])
      | cons o ot => cases os' with
        | nil => exact absurd ro (by simp [CsRel])
        | cons o' ot' =>
          have IH := ih (h + 1) t' ot ot' hc.2 ho.2 r.2 ro.2 (by simp at hl; omega)
          have hh' := heads_cmerge T F p h0 c c' o o' (by rw [ho.1.lg, hc.1.lg])
          simp only [mergeLevels, balL, balR, IH.1, IH.2, hh'.1, hh'.2]
          constructor <;> omega

/-- `merge` up to the final capacity check, in two runs -/
theorem mergePre_rel {hh : Option Nat} {T : Tun} (hT : TunOK T) (F : SecFns ρ) (L : List Nat) (s s' o o' : Sketch ρ) (a a' : Acc)
    (hs : SInv T s) (ho : SInv T o) (hhra : s.hra = o.hra) (r : SRel hh s s') (ro : SRel hh o o') (ra : AccRel L hh a a')
    (hL : (s.mergePre T F o a).2.lv <+: L) :
    SRel hh (s.mergePre T F o a).1 (s'.mergePre T F o' a').1 ∧ AccRel L hh (s.mergePre T F o a).2 (s'.mergePre T F o' a').2 ∧
    (∀ p h0, Bal p h0 s.compactors s'.compactors → Bal p h0 o.compactors o'.compactors →
      Bal p h0 (s.mergePre T F o a).1.compactors (s'.mergePre T F o' a').1.compactors) := by
  have hlo := CsRel_length _ _ ro.cs
  have g := (growTo_spec hT F o.compactors.length o.compactors.length s a (by omega) hs.cs hs.k2).1
  have gr := growTo_rel (hh := hh) T F L o.compactors.length o.compactors.length s s' a a' r ra hL
  simp only [Sketch.mergePre, hlo] at hL ⊢
  generalize growTo T F o.compactors.length o.compactors.length s a = g1 at g gr
  generalize growTo T F o.compactors.length o.compactors.length s' a' = g1' at gr
  obtain ⟨gr1, gr2, gr3⟩ := gr
  have hocs : CsInv T s.hra 0 o.compactors := by rw [hhra]; exact ho.cs
  have ml := mergeLevels_rel F 0 g1.1.compactors g1'.1.compactors o.compactors o'.compactors g.inv hocs gr1.cs ro.cs
  have hsum := CsRel_sums T _ _ ml
  refine ⟨⟨gr1.k, gr1.hra, hsum.2, hsum.1, by simp [r.n, ro.n], by simp [r.mn, ro.mn], by simp [r.mx, ro.mx], ml⟩, gr2, ?_⟩
  intro p h0 hb hbo
  have gb := gr3 p h0 hb
  have mb := mergeLevels_bal F p h0 0 g1.1.compactors g1'.1.compactors o.compactors o'.compactors g.inv hocs gr1.cs ro.cs g.ge
  unfold Bal at gb hbo ⊢
  show balL p h0 (mergeLevels T F g1.1.compactors o.compactors) (mergeLevels T F g1'.1.compactors o'.compactors) = balR p h0 (mergeLevels T F g1.1.compactors o.compactors)
  rw [mb.1, mb.2, gb, hbo]

theorem merge_rel {T : Tun} (hT : TunOK T) (F : SecFns ρ) (L : List Nat) (hh : Option Nat) (s s' o o' : Sketch ρ) (a a' : Acc)
    (hs : SInv T s) (ho : SInv T o) (r : SRel hh s s') (ro : SRel hh o o') (ra : AccRel L hh a a') :
    (s.merge T F o a = none → s'.merge T F o' a' = none) ∧
    (∀ res, s.merge T F o a = some res → res.2.lv <+: L →
      ∃ res', s'.merge T F o' a' = some res' ∧ SRel hh res.1 res'.1 ∧ AccRel L hh res.2 res'.2 ∧
        (∀ p h0, hh = some h0 → res.2.oddConst = false → Bal p h0 s.compactors s'.compactors → Bal p h0 o.compactors o'.compactors →
          Bal p h0 res.1.compactors res'.1.compactors)) := by
  by_cases hhra : (s.hra != o.hra) = true
  · have h' : (s'.hra != o'.hra) = true := by rw [r.hra, ro.hra]; exact hhra
    exact ⟨fun _ => by simp only [Sketch.merge, h', if_true], fun res hm => by simp [Sketch.merge, hhra] at hm⟩
  · have hhra' : s.hra = o.hra := by simpa using hhra
    have h' : ¬ (s'.hra != o'.hra) = true := by rw [r.hra, ro.hra]; exact hhra
    by_cases hn0 : o.n = 0
    · have hn0' : o'.n = 0 := by rw [ro.n]; exact hn0
      refine ⟨fun hm => by simp [Sketch.merge, hhra, hn0] at hm, fun res hm _ => ?_⟩
      have : res = (s, a) := by simpa [Sketch.merge, hhra, hn0] using hm.symm
      subst this
      exact ⟨(s', a'), by simp [Sketch.merge, h', hn0'], r, ra, fun _ _ _ _ hb _ => hb⟩
    · have hn0' : ¬ o'.n = 0 := by rw [ro.n]; exact hn0
      have hI := (mergePre_SInv hT F s o a hs ho hhra' hn0).1
      by_cases hc : (s.mergePre T F o a).1.numRetained ≥ (s.mergePre T F o a).1.maxNomSize
      · refine ⟨fun hm => by simp [Sketch.merge, hhra, hn0, hc] at hm, fun res hm hL => ?_⟩
        have : res = (s.mergePre T F o a).1.compress T F (s.mergePre T F o a).2 := by simpa [Sketch.merge, hhra, hn0, hc] using hm.symm
        subst this
        have hLp : (s.mergePre T F o a).2.lv <+: L := (compress_mono T F _ _).pre.trans hL
        obtain ⟨rp1, rp2, rp3⟩ := mergePre_rel hT F L s s' o o' a a' hs ho hhra' r ro ra hLp
        have hc' : (s'.mergePre T F o' a').1.numRetained ≥ (s'.mergePre T F o' a').1.maxNomSize := by rw [rp1.ret, rp1.maxNom]; exact hc
        obtain ⟨c1, c2, c3⟩ := compress_rel hT F L hh _ _ _ _ hI rp1 rp2 hL
        exact ⟨_, by simp only [Sketch.merge]; rw [if_neg h', if_neg hn0', if_pos hc'], c1, c2,
          fun p h0 e hodd hb hbo => c3 p h0 e hodd (rp3 p h0 hb hbo)⟩
      · refine ⟨fun hm => by simp [Sketch.merge, hhra, hn0, hc] at hm, fun res hm hL => ?_⟩
        have : res = s.mergePre T F o a := by simpa [Sketch.merge, hhra, hn0, hc] using hm.symm
        subst this
        obtain ⟨rp1, rp2, rp3⟩ := mergePre_rel hT F L s s' o o' a a' hs ho hhra' r ro ra hL
        have hc' : ¬ (s'.mergePre T F o' a').1.numRetained ≥ (s'.mergePre T F o' a').1.maxNomSize := by rw [rp1.ret, rp1.maxNom]; exact hc
        exact ⟨_, by simp only [Sketch.merge]; rw [if_neg h', if_neg hn0', if_neg hc'], rp1, rp2, fun p h0 _ _ hb hbo => rp3 p h0 hb hbo⟩

/-! ### queries, new -/

theorem sortAll_rel {hh : Option Nat} : ∀ (cs cs' : List (Compactor ρ)), CsRel hh cs cs' → CsRel hh (sortAll cs) (sortAll cs') := by
  intro cs
  induction cs with
  | nil => intro cs' r; cases cs' with
    | nil => trivial
    | cons _ _ => exact absurd r (by simp [CsRel])
  | cons c t ih => intro cs' r; cases cs' with
    | nil => exact absurd r (by simp [CsRel])
    | cons c' t' => exact ⟨sort_CRel r.1, ih t' r.2⟩

theorem afterRank_rel {hh : Option Nat} (s s' : Sketch ρ) (r : SRel hh s s') : SRel hh s.afterRank s'.afterRank :=
  ⟨r.k, r.hra, r.maxNom, r.ret, r.n, r.mn, r.mx, sortAll_rel _ _ r.cs⟩

theorem afterView_rel {hh : Option Nat} (s s' : Sketch ρ) (r : SRel hh s s') : SRel hh s.afterView s'.afterView := by
  refine ⟨r.k, r.hra, r.maxNom, r.ret, r.n, r.mn, r.mx, ?_⟩
  show CsRel hh (sortLevel0 s.compactors) (sortLevel0 s'.compactors)
  have := r.cs
  cases hc : s.compactors with
  | nil => cases hc' : s'.compactors with
    | nil => simp [sortLevel0, CsRel]
    | cons _ _ => rw [hc, hc'] at this; exact absurd this (by simp [CsRel])
  | cons c t => cases hc' : s'.compactors with
    | nil => rw [hc, hc'] at this; exact absurd this (by simp [CsRel])
    | cons c' t' => rw [hc, hc'] at this; exact ⟨sort_CRel this.1, this.2⟩

theorem sortAll_bal {hh : Option Nat} (p : Int → Bool) (h0 : Nat) : ∀ (cs cs' : List (Compactor ρ)), CsRel hh cs cs' →
    balL p h0 (sortAll cs) (sortAll cs') = balL p h0 cs cs' ∧ balR p h0 (sortAll cs) = balR p h0 cs := by
  intro cs
  induction cs with
  | nil => intro cs' r; cases cs' with
    | nil => exact ⟨rfl, rfl⟩
    | cons _ _ => exact absurd r (by simp [CsRel])
  | cons c t ih => intro cs' r; cases cs' with
    | nil => exact absurd r (by simp [CsRel])
    | cons c' t' =>
      have hs := heads_sort p h0 0 c c'
      simp only [sortIf0, if_true] at hs
      have IH := ih t' r.2
      simp only [sortAll, List.map_cons, balL, balR] at IH ⊢
      rw [IH.1, IH.2, hs.1, hs.2]; exact ⟨rfl, rfl⟩

theorem afterRank_bal {hh : Option Nat} (s s' : Sketch ρ) (r : SRel hh s s') (p : Int → Bool) (h0 : Nat)
    (hb : Bal p h0 s.compactors s'.compactors) : Bal p h0 s.afterRank.compactors s'.afterRank.compactors := by
  have := sortAll_bal p h0 _ _ r.cs
  unfold Bal at hb ⊢
  show balL p h0 (sortAll s.compactors) (sortAll s'.compactors) = balR p h0 (sortAll s.compactors)
  rw [this.1, this.2, hb]

theorem afterView_bal {hh : Option Nat} (s s' : Sketch ρ) (r : SRel hh s s') (p : Int → Bool) (h0 : Nat)
    (hb : Bal p h0 s.compactors s'.compactors) : Bal p h0 s.afterView.compactors s'.afterView.compactors := by
  have hr := r.cs
  unfold Bal at hb ⊢
  show balL p h0 (sortLevel0 s.compactors) (sortLevel0 s'.compactors) = balR p h0 (sortLevel0 s.compactors)
  cases hc : s.compactors with
  | nil => cases hc' : s'.compactors with
    | nil => rfl
    | cons _ _ => rw [hc, hc'] at hr; exact absurd hr (by simp [CsRel])
  | cons c t => cases hc' : s'.compactors with
    | nil => rw [hc, hc'] at hr; exact absurd hr (by simp [CsRel])
    | cons c' t' =>
      rw [hc, hc'] at hb
      have hs := heads_sort p h0 0 c c'
      simp only [sortIf0, if_true] at hs
      simp only [sortLevel0, balL, balR, hs.1, hs.2] at hb ⊢
      exact hb

theorem new_bal (T : Tun) (F : SecFns ρ) (k : Nat) (hra d d' : Bool) (p : Int → Bool) (h0 : Nat) :
    Bal p h0 (Sketch.new T F k hra d).compactors (Sketch.new T F k hra d').compactors := by
  have := heads_empty p h0 (Compactor.mkC T F hra 0 (effectiveK T k) d) (Compactor.mkC T F hra 0 (effectiveK T k) d')
    (mkC_fields T F _ _ _ _).1 (mkC_fields T F _ _ _ _).2.1 (mkC_fields T F _ _ _ _).2.1
  rw [(new_compactors T F k hra d).1, (new_compactors T F k hra d').1]
  simp only [Bal, balL, balR, this.1, this.2]

theorem new_rel (hh : Option Nat) (T : Tun) (F : SecFns ρ) (k : Nat) (hra d d' : Bool)
    (h1 : ∀ h0, hh = some h0 → 0 < h0 → T.initCoinRandom = true → d' = d)
    (h2 : ∀ h0, hh = some h0 → 0 = h0 → T.initCoinRandom = true → d' = !d) :
    SRel hh (Sketch.new T F k hra d) (Sketch.new T F k hra d') := by
  obtain ⟨e1, e2, e3, e4, e5, e6, e7, e8⟩ := new_compactors T F k hra d
  obtain ⟨f1, f2, f3, f4, f5, f6, f7, f8⟩ := new_compactors T F k hra d'
  have hc : CsRel hh [Compactor.mkC T F hra 0 (effectiveK T k) d] [Compactor.mkC T F hra 0 (effectiveK T k) d'] :=
    ⟨mk'_CRel T F hh hra 0 _ d d' h1 h2, trivial⟩
  exact ⟨by rw [e4, f4], by rw [e5, f5], by rw [e8, f8]; exact (CsRel_sums T _ _ hc).2, by rw [e3, f3], by rw [e2, f2], by rw [e6, f6], by rw [e7, f7],
    by rw [e1, f1]; exact hc⟩

end DS.Req

/- Two runs of the REQ model side by side: sketch operations and whole histories. (Helper lemmas for C08.) -/
import DSProofs.Lemmas.ReqRel2
namespace DS.Req

variable {ρ : Type}

theorem CsRel_append {hh : Option Nat} : ∀ (a a' b b' : List (Compactor ρ)), CsRel hh a a' → CsRel hh b b' → CsRel hh (a ++ b) (a' ++ b') := by
  intro a
  induction a with
  | nil => intro a' b b' h hb; cases a' with
    | nil => exact hb
    | cons _ _ => exact absurd h (by simp [CsRel])
  | cons x t ih => intro a' b b' h hb; cases a' with
    | nil => exact absurd h (by simp [CsRel])
    | cons y t' => exact ⟨h.1, ih t' b b' h.2 hb⟩

/-! ### compress, update -/

theorem compress_rel {T : Tun} (hT : TunOK T) (F : SecFns ρ) (L : List Nat) (hh : Option Nat) (s s' : Sketch ρ) (a a' : Acc)
    (hs : SInv T s) (r : SRel hh s s') (ra : AccRel L hh a a') (hL : (s.compress T F a).2.lv <+: L) :
    SRel hh (s.compress T F a).1 (s'.compress T F a').1 ∧ AccRel L hh (s.compress T F a).2 (s'.compress T F a').2 ∧
    (∀ p h0, hh = some h0 → (s.compress T F a).2.oddConst = false → Bal p h0 s.compactors s'.compactors →
      Bal p h0 (s.compress T F a).1.compactors (s'.compress T F a').1.compactors) := by
  have hsum := CsRel_sums T _ _ r.cs
  have hlen := CsRel_length _ _ r.cs
  simp only [Sketch.compress] at hL ⊢
  rw [r.hra, r.k, hsum.1, hlen, r.ret, r.maxNom]
  have cl := compressLoop_rel hT F s.hra s.k hs.k2 L hh (sumItems s.compactors + s.compactors.length + 1) 0 s.compactors s'.compactors
    { retained := s.numRetained, maxNom := s.maxNomSize } a a' hs.cs r.cs ra hL
  obtain ⟨c1, c2, c3, c4⟩ := cl
  refine ⟨⟨rfl, rfl, ?_, ?_, r.n, r.mn, r.mx, c1⟩, c3, ?_⟩
  · show (compressLoop _ _ _ _ _ _ s'.compactors _ a').2.1.maxNom = (compressLoop _ _ _ _ _ _ s.compactors _ a).2.1.maxNom
    rw [c2]
  · show (compressLoop _ _ _ _ _ _ s'.compactors _ a').2.1.retained = (compressLoop _ _ _ _ _ _ s.compactors _ a).2.1.retained
    rw [c2]
  · intro p h0 e hodd hb
    have := c4 p h0 e hodd
    unfold Bal at hb ⊢
    show balL p h0 (compressLoop _ _ _ _ _ _ s.compactors _ a).1 (compressLoop _ _ _ _ _ _ s'.compactors _ a').1 = balR p h0 (compressLoop _ _ _ _ _ _ s.compactors _ a).1
    omega

theorem append1_bal {T : Tun} {hh : Option Nat} (s s' : Sketch ρ) (x : Int) (hs : SInv T s) (r : SRel hh s s') (p : Int → Bool) (h0 : Nat)
    (hb : Bal p h0 s.compactors s'.compactors) : Bal p h0 (s.append1 x).compactors (s'.append1 x).compactors := by
  have hr := r.cs
  have hinv := hs.cs
  unfold Bal at hb ⊢
  show balL p h0 (appendLevel0 s.compactors x) (appendLevel0 s'.compactors x) = balR p h0 (appendLevel0 s.compactors x)
  cases hc : s.compactors with
  | nil => exact absurd hc hs.nonnil
  | cons c t => cases hc' : s'.compactors with
    | nil => rw [hc, hc'] at hr; exact absurd hr (by simp [CsRel])
    | cons c' t' =>
      rw [hc] at hinv; rw [hc, hc'] at hb
      have hlg : c.lgWeight = 0 := hinv.1.lg
      simp only [appendLevel0, balL, balR, headL, headR, Compactor.append, hlg] at hb ⊢
      have n1 : ¬ (0 = h0 + 1) := by omega
      simp only [n1, if_false, Nat.zero_add] at hb ⊢
      by_cases h00 : 0 = h0
      · simp only [h00, if_true] at hb ⊢
        cases c.hra <;> simp only [cntP_cons, cntP_append, cntP_nil, Bool.false_eq_true, if_false, if_true] <;> omega
      · simp only [h00, if_false] at hb ⊢
        exact hb

theorem append1_rel {hh : Option Nat} (s s' : Sketch ρ) (x : Int) (r : SRel hh s s') : SRel hh (s.append1 x) (s'.append1 x) := by
  refine ⟨r.k, r.hra, r.maxNom, by simp [Sketch.append1, r.ret], by simp [Sketch.append1, r.n],
    by simp [Sketch.append1, r.mn], by simp [Sketch.append1, r.mx], ?_⟩
  show CsRel hh (appendLevel0 s.compactors x) (appendLevel0 s'.compactors x)
  have := r.cs
  cases hc : s.compactors with
  | nil => cases hc' : s'.compactors with
    | nil => simp [appendLevel0, CsRel]
    | cons _ _ => rw [hc, hc'] at this; exact absurd this (by simp [CsRel])
  | cons c t => cases hc' : s'.compactors with
    | nil => rw [hc, hc'] at this; exact absurd this (by simp [CsRel])
    | cons c' t' => rw [hc, hc'] at this; exact ⟨append_CRel x this.1, this.2⟩

theorem update_rel {T : Tun} (hT : TunOK T) (F : SecFns ρ) (L : List Nat) (hh : Option Nat) (s s' : Sketch ρ) (x : Int) (a a' : Acc)
    (hs : SInv T s) (r : SRel hh s s') (ra : AccRel L hh a a') (hL : (s.update T F x a).2.lv <+: L) :
    SRel hh (s.update T F x a).1 (s'.update T F x a').1 ∧ AccRel L hh (s.update T F x a).2 (s'.update T F x a').2 ∧
    (∀ p h0, hh = some h0 → (s.update T F x a).2.oddConst = false → Bal p h0 s.compactors s'.compactors →
      Bal p h0 (s.update T F x a).1.compactors (s'.update T F x a').1.compactors) := by
  have r1 := append1_rel s s' x r
  have h1 := (append1_SInv s x hs).1
  simp only [Sketch.update] at hL ⊢
  rw [r1.ret, r1.maxNom]
  split
  · rename_i hc; rw [if_pos hc] at hL
    obtain ⟨c1, c2, c3⟩ := compress_rel hT F L hh _ _ a a' h1 r1 ra hL
    exact ⟨c1, c2, fun p h0 e hodd hb => c3 p h0 e hodd (append1_bal s s' x hs r p h0 hb)⟩
  · exact ⟨r1, ra, fun p h0 _ _ hb => append1_bal s s' x hs r p h0 hb⟩

/-! ### merge -/

theorem grow_rel {hh : Option Nat} (T : Tun) (F : SecFns ρ) (s s' : Sketch ρ) (r : SRel hh s s') : SRel hh (s.grow T F) (s'.grow T F) := by
  have hlen := CsRel_length _ _ r.cs
  have hcs : CsRel hh (s.compactors ++ [Compactor.mk' T F s.hra s.compactors.length s.k]) (s'.compactors ++ [Compactor.mk' T F s'.hra s'.compactors.length s'.k]) := by
    rw [r.hra, r.k, hlen]
    exact CsRel_append _ _ _ _ r.cs ⟨mk'_CRel T F hh _ _ _, trivial⟩
  exact ⟨r.k, r.hra, (CsRel_sums T _ _ hcs).2, r.ret, r.n, r.mn, r.mx, hcs⟩

theorem growTo_rel {hh : Option Nat} (T : Tun) (F : SecFns ρ) (target : Nat) : ∀ (fuel : Nat) (s s' : Sketch ρ), SRel hh s s' →
    SRel hh (growTo T F fuel target s) (growTo T F fuel target s') := by
  intro fuel
  induction fuel with
  | zero => intro s s' r; exact r
  | succ n ih =>
    intro s s' r
    simp only [growTo, CsRel_length _ _ r.cs]
    split
    · exact ih _ _ (grow_rel T F s s' r)
    · exact r

theorem mergeLevels_rel {hh : Option Nat} {T : Tun} (F : SecFns ρ) {hra : Bool} : ∀ (h : Nat) (cs cs' os os' : List (Compactor ρ)),
    CsInv T hra h cs → CsInv T hra h os → CsRel hh cs cs' → CsRel hh os os' →
    CsRel hh (mergeLevels T F cs os) (mergeLevels T F cs' os') := by
  intro h cs
  induction cs generalizing h with
  | nil =>
    intro cs' os os' _ _ r ro
    cases cs' with
    | nil => cases os <;> cases os' <;> simp [mergeLevels, CsRel] at ro ⊢
    | cons _ _ => exact absurd r (by simp [CsRel])
  | cons c t ih =>
    intro cs' os os' hc ho r ro
    cases cs' with
    | nil => exact absurd r (by simp [CsRel])
    | cons c' t' =>
      cases os with
      | nil => cases os' with
        | nil => simpa [mergeLevels] using r
        | cons _ _ => exact absurd ro (by simp [CsRel])
      | cons o ot => cases os' with
        | nil => exact absurd ro (by simp [CsRel])
        | cons o' ot' =>
          simp only [mergeLevels]
          exact ⟨cmerge_CRel T F r.1 ro.1 (by rw [ho.1.lg, hc.1.lg]), ih (h + 1) t' ot ot' hc.2 ho.2 r.2 ro.2⟩

theorem mergePre_rel {hh : Option Nat} {T : Tun} (hT : TunOK T) (F : SecFns ρ) (s s' o o' : Sketch ρ) (hs : SInv T s) (ho : SInv T o)
    (hhra : s.hra = o.hra) (r : SRel hh s s') (ro : SRel hh o o') : SRel hh (s.mergePre T F o) (s'.mergePre T F o') := by
  have hlo := CsRel_length _ _ ro.cs
  have g := growTo_spec hT F o.compactors.length o.compactors.length s (by omega) hs.cs hs.k2
  have gr := growTo_rel (hh := hh) T F o.compactors.length o.compactors.length s s' r
  simp only [Sketch.mergePre, hlo]
  generalize growTo T F o.compactors.length o.compactors.length s = s1 at g gr
  generalize growTo T F o.compactors.length o.compactors.length s' = s1' at gr
  have hocs : CsInv T s.hra 0 o.compactors := by rw [hhra]; exact ho.cs
  have ml := mergeLevels_rel F 0 s1.compactors s1'.compactors o.compactors o'.compactors g.inv hocs gr.cs ro.cs
  have hsum := CsRel_sums T _ _ ml
  exact ⟨gr.k, gr.hra, hsum.2, hsum.1, by simp [r.n, ro.n], by simp [r.mn, ro.mn], by simp [r.mx, ro.mx], ml⟩

theorem balL_append {hh : Option Nat} (p : Int → Bool) (h0 : Nat) : ∀ (a a' b b' : List (Compactor ρ)), CsRel hh a a' →
    balL p h0 (a ++ b) (a' ++ b') = balL p h0 a a' + balL p h0 b b' := by
  intro a
  induction a with
  | nil => intro a' b b' h; cases a' with
    | nil => simp [balL]
    | cons _ _ => exact absurd h (by simp [CsRel])
  | cons x t ih => intro a' b b' h; cases a' with
    | nil => exact absurd h (by simp [CsRel])
    | cons y t' => simp only [List.cons_append, balL, ih t' b b' h.2]; omega

theorem balR_append (p : Int → Bool) (h0 : Nat) (a b : List (Compactor ρ)) : balR p h0 (a ++ b) = balR p h0 a + balR p h0 b := by
  induction a with
  | nil => simp [balR]
  | cons x t ih => simp only [List.cons_append, balR, ih]; omega

theorem grow_bal {hh : Option Nat} (T : Tun) (F : SecFns ρ) (s s' : Sketch ρ) (r : SRel hh s s') (p : Int → Bool) (h0 : Nat)
    (hb : Bal p h0 s.compactors s'.compactors) : Bal p h0 (s.grow T F).compactors (s'.grow T F).compactors := by
  unfold Bal at hb ⊢
  show balL p h0 (s.compactors ++ [_]) (s'.compactors ++ [_]) = balR p h0 (s.compactors ++ [_])
  rw [balL_append p h0 _ _ _ _ r.cs, balR_append]
  have := heads_empty p h0 (Compactor.mk' T F s.hra s.compactors.length s.k) (Compactor.mk' T F s'.hra s'.compactors.length s'.k) rfl rfl rfl
  simp only [balL, balR, this.1, this.2]; omega

theorem growTo_bal {hh : Option Nat} (T : Tun) (F : SecFns ρ) (target : Nat) (p : Int → Bool) (h0 : Nat) : ∀ (fuel : Nat) (s s' : Sketch ρ),
    SRel hh s s' → Bal p h0 s.compactors s'.compactors →
    Bal p h0 (growTo T F fuel target s).compactors (growTo T F fuel target s').compactors := by
  intro fuel
  induction fuel with
  | zero => intro s s' _ hb; exact hb
  | succ n ih =>
    intro s s' r hb
    simp only [growTo, CsRel_length _ _ r.cs]
    split
    · exact ih _ _ (grow_rel T F s s' r) (grow_bal T F s s' r p h0 hb)
    · exact hb

theorem mergeLevels_bal {hh : Option Nat} {T : Tun} (F : SecFns ρ) {hra : Bool} (p : Int → Bool) (h0 : Nat) :
    ∀ (h : Nat) (cs cs' os os' : List (Compactor ρ)),
    CsInv T hra h cs → CsInv T hra h os → CsRel hh cs cs' → CsRel hh os os' → os.length ≤ cs.length →
    balL p h0 (mergeLevels T F cs os) (mergeLevels T F cs' os') = balL p h0 cs cs' + balL p h0 os os' ∧
    balR p h0 (mergeLevels T F cs os) = balR p h0 cs + balR p h0 os := by
  intro h cs
  induction cs generalizing h with
  | nil =>
    intro cs' os os' _ _ r ro hl
    have : os = [] := by cases os <;> simp_all
    subst this
    cases cs' with
    | nil => cases os' with
      | nil => simp [mergeLevels, balL, balR]
      | cons _ _ => exact absurd ro (by simp [CsRel])
    | cons _ _ => exact absurd r (by simp [CsRel])
  | cons c t ih =>
    intro cs' os os' hc ho r ro hl
    cases cs' with
    | nil => exact absurd r (by simp [CsRel])
    | cons c' t' =>
      cases os with
      | nil => cases os' with
        | nil => simp [mergeLevels, balL, balR]
        | cons _ _ => exact absurd ro (by simp [CsRel])
      | cons o ot => cases os' with
        | nil => exact absurd ro (by simp [CsRel])
        | cons o' ot' =>
          have IH := ih (h + 1) t' ot ot' hc.2 ho.2 r.2 ro.2 (by simp at hl; omega)
          have hh' := heads_cmerge T F p h0 c c' o o' (by rw [ho.1.lg, hc.1.lg])
          simp only [mergeLevels, balL, balR, IH.1, IH.2, hh'.1, hh'.2]
          constructor <;> omega

theorem mergePre_bal {hh : Option Nat} {T : Tun} (hT : TunOK T) (F : SecFns ρ) (s s' o o' : Sketch ρ) (hs : SInv T s) (ho : SInv T o)
    (hhra : s.hra = o.hra) (r : SRel hh s s') (ro : SRel hh o o') (p : Int → Bool) (h0 : Nat)
    (hb : Bal p h0 s.compactors s'.compactors) (hbo : Bal p h0 o.compactors o'.compactors) :
    Bal p h0 (s.mergePre T F o).compactors (s'.mergePre T F o').compactors := by
  have hlo := CsRel_length _ _ ro.cs
  have g := growTo_spec hT F o.compactors.length o.compactors.length s (by omega) hs.cs hs.k2
  have gr := growTo_rel (hh := hh) T F o.compactors.length o.compactors.length s s' r
  have gb := growTo_bal (hh := hh) T F o.compactors.length p h0 o.compactors.length s s' r hb
  simp only [Sketch.mergePre, hlo]
  generalize growTo T F o.compactors.length o.compactors.length s = s1 at g gr gb
  generalize growTo T F o.compactors.length o.compactors.length s' = s1' at gr gb
  have hocs : CsInv T s.hra 0 o.compactors := by rw [hhra]; exact ho.cs
  have ml := mergeLevels_bal F p h0 0 s1.compactors s1'.compactors o.compactors o'.compactors g.inv hocs gr.cs ro.cs g.ge
  unfold Bal at gb hbo ⊢
  show balL p h0 (mergeLevels T F s1.compactors o.compactors) (mergeLevels T F s1'.compactors o'.compactors) = balR p h0 (mergeLevels T F s1.compactors o.compactors)
  rw [ml.1, ml.2, gb, hbo]

theorem merge_rel {T : Tun} (hT : TunOK T) (F : SecFns ρ) (L : List Nat) (hh : Option Nat) (s s' o o' : Sketch ρ) (a a' : Acc)
    (hs : SInv T s) (ho : SInv T o) (r : SRel hh s s') (ro : SRel hh o o') (ra : AccRel L hh a a') :
    (s.merge T F o a = none ∧ s'.merge T F o' a' = none) ∨
    (∃ res res', s.merge T F o a = some res ∧ s'.merge T F o' a' = some res' ∧
      (res.2.lv <+: L → SRel hh res.1 res'.1 ∧ AccRel L hh res.2 res'.2 ∧
        (∀ p h0, hh = some h0 → res.2.oddConst = false → Bal p h0 s.compactors s'.compactors → Bal p h0 o.compactors o'.compactors →
          Bal p h0 res.1.compactors res'.1.compactors))) := by
  simp only [Sketch.merge, r.hra, ro.hra, ro.n]
  split
  · left; exact ⟨rfl, rfl⟩
  · rename_i hhra
    have hhra' : s.hra = o.hra := by simpa using hhra
    right
    split
    · exact ⟨_, _, rfl, rfl, fun _ => ⟨r, ra, fun _ _ _ _ hb _ => hb⟩⟩
    · rename_i hn0
      have rp := mergePre_rel hT F s s' o o' hs ho hhra' r ro
      have hI := (mergePre_SInv hT F s o hs ho hhra' hn0).1
      rw [rp.ret, rp.maxNom]
      split
      · refine ⟨_, _, rfl, rfl, fun hL => ?_⟩
        obtain ⟨c1, c2, c3⟩ := compress_rel hT F L hh _ _ a a' hI rp ra hL
        exact ⟨c1, c2, fun p h0 e hodd hb hbo => c3 p h0 e hodd (mergePre_bal hT F s s' o o' hs ho hhra' r ro p h0 hb hbo)⟩
      · exact ⟨_, _, rfl, rfl, fun _ => ⟨rp, ra, fun p h0 _ _ hb hbo => mergePre_bal hT F s s' o o' hs ho hhra' r ro p h0 hb hbo⟩⟩

/-! ### queries, new -/

theorem sortAll_rel {hh : Option Nat} : ∀ (cs cs' : List (Compactor ρ)), CsRel hh cs cs' → CsRel hh (sortAll cs) (sortAll cs') := by
  intro cs
  induction cs with
  | nil => intro cs' r; cases cs' with
    | nil => trivial
    | cons _ _ => exact absurd r (by simp [CsRel])
  | cons c t ih => intro cs' r; cases cs' with
    | nil => exact absurd r (by simp [CsRel])
    | cons c' t' => exact ⟨sort_CRel r.1, ih t' r.2⟩

theorem afterRank_rel {hh : Option Nat} (s s' : Sketch ρ) (r : SRel hh s s') : SRel hh s.afterRank s'.afterRank :=
  ⟨r.k, r.hra, r.maxNom, r.ret, r.n, r.mn, r.mx, sortAll_rel _ _ r.cs⟩

theorem afterView_rel {hh : Option Nat} (s s' : Sketch ρ) (r : SRel hh s s') : SRel hh s.afterView s'.afterView := by
  refine ⟨r.k, r.hra, r.maxNom, r.ret, r.n, r.mn, r.mx, ?_⟩
  show CsRel hh (sortLevel0 s.compactors) (sortLevel0 s'.compactors)
  have := r.cs
  cases hc : s.compactors with
  | nil => cases hc' : s'.compactors with
    | nil => simp [sortLevel0, CsRel]
    | cons _ _ => rw [hc, hc'] at this; exact absurd this (by simp [CsRel])
  | cons c t => cases hc' : s'.compactors with
    | nil => rw [hc, hc'] at this; exact absurd this (by simp [CsRel])
    | cons c' t' => rw [hc, hc'] at this; exact ⟨sort_CRel this.1, this.2⟩

theorem sortAll_bal {hh : Option Nat} (p : Int → Bool) (h0 : Nat) : ∀ (cs cs' : List (Compactor ρ)), CsRel hh cs cs' →
    balL p h0 (sortAll cs) (sortAll cs') = balL p h0 cs cs' ∧ balR p h0 (sortAll cs) = balR p h0 cs := by
  intro cs
  induction cs with
  | nil => intro cs' r; cases cs' with
    | nil => exact ⟨rfl, rfl⟩
    | cons _ _ => exact absurd r (by simp [CsRel])
  | cons c t ih => intro cs' r; cases cs' with
    | nil => exact absurd r (by simp [CsRel])
    | cons c' t' =>
      have hs := heads_sort p h0 0 c c'
      simp only [sortIf0, if_true] at hs
      have IH := ih t' r.2
      simp only [sortAll, List.map_cons, balL, balR] at IH ⊢
      rw [IH.1, IH.2, hs.1, hs.2]; exact ⟨rfl, rfl⟩

theorem afterRank_bal {hh : Option Nat} (s s' : Sketch ρ) (r : SRel hh s s') (p : Int → Bool) (h0 : Nat)
    (hb : Bal p h0 s.compactors s'.compactors) : Bal p h0 s.afterRank.compactors s'.afterRank.compactors := by
  have := sortAll_bal p h0 _ _ r.cs
  unfold Bal at hb ⊢
  show balL p h0 (sortAll s.compactors) (sortAll s'.compactors) = balR p h0 (sortAll s.compactors)
  rw [this.1, this.2, hb]

theorem afterView_bal {hh : Option Nat} (s s' : Sketch ρ) (r : SRel hh s s') (p : Int → Bool) (h0 : Nat)
    (hb : Bal p h0 s.compactors s'.compactors) : Bal p h0 s.afterView.compactors s'.afterView.compactors := by
  have hr := r.cs
  unfold Bal at hb ⊢
  show balL p h0 (sortLevel0 s.compactors) (sortLevel0 s'.compactors) = balR p h0 (sortLevel0 s.compactors)
  cases hc : s.compactors with
  | nil => cases hc' : s'.compactors with
    | nil => rfl
    | cons _ _ => rw [hc, hc'] at hr; exact absurd hr (by simp [CsRel])
  | cons c t => cases hc' : s'.compactors with
    | nil => rw [hc, hc'] at hr; exact absurd hr (by simp [CsRel])
    | cons c' t' =>
      rw [hc, hc'] at hb
      have hs := heads_sort p h0 0 c c'
      simp only [sortIf0, if_true] at hs
      simp only [sortLevel0, balL, balR, hs.1, hs.2] at hb ⊢
      exact hb

theorem new_bal (T : Tun) (F : SecFns ρ) (k : Nat) (hra : Bool) (p : Int → Bool) (h0 : Nat) :
    Bal p h0 (Sketch.new T F k hra).compactors (Sketch.new T F k hra).compactors := by
  have := heads_mk' p h0 T F hra 0 (effectiveK T k)
  simp only [Bal, Sketch.new, Sketch.grow, List.nil_append, List.length_nil, balL, balR, this.1, this.2]

theorem new_rel (hh : Option Nat) (T : Tun) (F : SecFns ρ) (k : Nat) (hra : Bool) : SRel hh (Sketch.new T F k hra) (Sketch.new T F k hra) :=
  ⟨rfl, rfl, rfl, rfl, rfl, rfl, rfl, ⟨mk'_CRel T F hh _ _ _, trivial⟩⟩

end DS.Req

/- Two runs of the REQ model side by side: sketch operations and whole histories. (Helper lemmas for C08.) -/
import DSProofs.Lemmas.ReqRel2
namespace DS.Req

variable {ρ : Type}

theorem CsRel_append {hh : Option Nat} : ∀ (a a' b b' : List (Compactor ρ)), CsRel hh a a' → CsRel hh b b' → CsRel hh (a ++ b) (a' ++ b') := by
  intro a
  induction a with
  | nil => intro a' b b' h hb; cases a' with
    | nil => exact hb
    | cons _ _ => exact absurd h (by simp [CsRel])
  | cons x t ih => intro a' b b' h hb; cases a' with
    | nil => exact absurd h (by simp [CsRel])
    | cons y t' => exact ⟨h.1, ih t' b b' h.2 hb⟩

/-! ### compress, update -/

theorem compress_rel {T : Tun} (hT : TunOK T) (F : SecFns ρ) (L : List Nat) (hh : Option Nat) (s s' : Sketch ρ) (a a' : Acc)
    (hs : SInv T s) (r : SRel hh s s') (ra : AccRel L hh a a') (hL : (s.compress T F a).2.lv <+: L) :
    SRel hh (s.compress T F a).1 (s'.compress T F a').1 ∧ AccRel L hh (s.compress T F a).2 (s'.compress T F a').2 := by
  have hsum := CsRel_sums T _ _ r.cs
  have hlen := CsRel_length _ _ r.cs
  simp only [Sketch.compress] at hL ⊢
  rw [r.hra, r.k, hsum.1, hlen, r.ret, r.maxNom]
  have cl := compressLoop_rel hT F s.hra s.k hs.k2 L hh (sumItems s.compactors + s.compactors.length + 1) 0 s.compactors s'.compactors
    { retained := s.numRetained, maxNom := s.maxNomSize } a a' hs.cs r.cs ra hL
  obtain ⟨c1, c2, c3⟩ := cl
  refine ⟨⟨rfl, rfl, ?_, ?_, r.n, r.mn, r.mx, c1⟩, c3⟩
  · show (compressLoop _ _ _ _ _ _ s'.compactors _ a').2.1.maxNom = (compressLoop _ _ _ _ _ _ s.compactors _ a).2.1.maxNom
    rw [c2]
  · show (compressLoop _ _ _ _ _ _ s'.compactors _ a').2.1.retained = (compressLoop _ _ _ _ _ _ s.compactors _ a).2.1.retained
    rw [c2]

theorem append1_rel {hh : Option Nat} (s s' : Sketch ρ) (x : Int) (r : SRel hh s s') : SRel hh (s.append1 x) (s'.append1 x) := by
  refine ⟨r.k, r.hra, r.maxNom, by simp [Sketch.append1, r.ret], by simp [Sketch.append1, r.n],
    by simp [Sketch.append1, r.mn], by simp [Sketch.append1, r.mx], ?_⟩
  show CsRel hh (appendLevel0 s.compactors x) (appendLevel0 s'.compactors x)
  have := r.cs
  cases hc : s.compactors with
  | nil => cases hc' : s'.compactors with
    | nil => simp [appendLevel0, CsRel]
    | cons _ _ => rw [hc, hc'] at this; exact absurd this (by simp [CsRel])
  | cons c t => cases hc' : s'.compactors with
    | nil => rw [hc, hc'] at this; exact absurd this (by simp [CsRel])
    | cons c' t' => rw [hc, hc'] at this; exact ⟨append_CRel x this.1, this.2⟩

theorem update_rel {T : Tun} (hT : TunOK T) (F : SecFns ρ) (L : List Nat) (hh : Option Nat) (s s' : Sketch ρ) (x : Int) (a a' : Acc)
    (hs : SInv T s) (r : SRel hh s s') (ra : AccRel L hh a a') (hL : (s.update T F x a).2.lv <+: L) :
    SRel hh (s.update T F x a).1 (s'.update T F x a').1 ∧ AccRel L hh (s.update T F x a).2 (s'.update T F x a').2 := by
  have r1 := append1_rel s s' x r
  have h1 := (append1_SInv s x hs).1
  simp only [Sketch.update] at hL ⊢
  rw [r1.ret, r1.maxNom]
  split
  · rename_i hc; rw [if_pos hc] at hL
    exact compress_rel hT F L hh _ _ a a' h1 r1 ra hL
  · exact ⟨r1, ra⟩

/-! ### merge -/

theorem grow_rel {hh : Option Nat} (T : Tun) (F : SecFns ρ) (s s' : Sketch ρ) (r : SRel hh s s') : SRel hh (s.grow T F) (s'.grow T F) := by
  have hlen := CsRel_length _ _ r.cs
  have hcs : CsRel hh (s.compactors ++ [Compactor.mk' T F s.hra s.compactors.length s.k]) (s'.compactors ++ [Compactor.mk' T F s'.hra s'.compactors.length s'.k]) := by
    rw [r.hra, r.k, hlen]
    exact CsRel_append _ _ _ _ r.cs ⟨mk'_CRel T F hh _ _ _, trivial⟩
  exact ⟨r.k, r.hra, (CsRel_sums T _ _ hcs).2, r.ret, r.n, r.mn, r.mx, hcs⟩

theorem growTo_rel {hh : Option Nat} (T : Tun) (F : SecFns ρ) (target : Nat) : ∀ (fuel : Nat) (s s' : Sketch ρ), SRel hh s s' →
    SRel hh (growTo T F fuel target s) (growTo T F fuel target s') := by
  intro fuel
  induction fuel with
  | zero => intro s s' r; exact r
  | succ n ih =>
    intro s s' r
    simp only [growTo, CsRel_length _ _ r.cs]
    split
    · exact ih _ _ (grow_rel T F s s' r)
    · exact r

theorem mergeLevels_rel {hh : Option Nat} {T : Tun} (F : SecFns ρ) {hra : Bool} : ∀ (h : Nat) (cs cs' os os' : List (Compactor ρ)),
    CsInv T hra h cs → CsInv T hra h os → CsRel hh cs cs' → CsRel hh os os' →
    CsRel hh (mergeLevels T F cs os) (mergeLevels T F cs' os') := by
  intro h cs
  induction cs generalizing h with
  | nil =>
    intro cs' os os' _ _ r ro
    cases cs' with
    | nil => cases os <;> cases os' <;> simp [mergeLevels, CsRel] at ro ⊢
    | cons _ _ => exact absurd r (by simp [CsRel])
  | cons c t ih =>
    intro cs' os os' hc ho r ro
    cases cs' with
    | nil => exact absurd r (by simp [CsRel])
    | cons c' t' =>
      cases os with
      | nil => cases os' with
        | nil => simpa [mergeLevels] using r
        | cons _ _ => exact absurd ro (by simp [CsRel])
      | cons o ot => cases os' with
        | nil => exact absurd ro (by simp [CsRel])
        | cons o' ot' =>
          simp only [mergeLevels]
          exact ⟨cmerge_CRel T F r.1 ro.1 (by rw [ho.1.lg, hc.1.lg]), ih (h + 1) t' ot ot' hc.2 ho.2 r.2 ro.2⟩

theorem mergePre_rel {hh : Option Nat} {T : Tun} (hT : TunOK T) (F : SecFns ρ) (s s' o o' : Sketch ρ) (hs : SInv T s) (ho : SInv T o)
    (hhra : s.hra = o.hra) (r : SRel hh s s') (ro : SRel hh o o') : SRel hh (s.mergePre T F o) (s'.mergePre T F o') := by
  have hlo := CsRel_length _ _ ro.cs
  have g := growTo_spec hT F o.compactors.length o.compactors.length s (by omega) hs.cs hs.k2
  have gr := growTo_rel (hh := hh) T F o.compactors.length o.compactors.length s s' r
  simp only [Sketch.mergePre, hlo]
  generalize growTo T F o.compactors.length o.compactors.length s = s1 at g gr
  generalize growTo T F o.compactors.length o.compactors.length s' = s1' at gr
  have hocs : CsInv T s.hra 0 o.compactors := by rw [hhra]; exact ho.cs
  have ml := mergeLevels_rel F 0 s1.compactors s1'.compactors o.compactors o'.compactors g.inv hocs gr.cs ro.cs
  have hsum := CsRel_sums T _ _ ml
  exact ⟨gr.k, gr.hra, hsum.2, hsum.1, by simp [r.n, ro.n], by simp [r.mn, ro.mn], by simp [r.mx, ro.mx], ml⟩

theorem merge_rel {T : Tun} (hT : TunOK T) (F : SecFns ρ) (L : List Nat) (hh : Option Nat) (s s' o o' : Sketch ρ) (a a' : Acc)
    (hs : SInv T s) (ho : SInv T o) (r : SRel hh s s') (ro : SRel hh o o') (ra : AccRel L hh a a') :
    (s.merge T F o a = none ∧ s'.merge T F o' a' = none) ∨
    (∃ res res', s.merge T F o a = some res ∧ s'.merge T F o' a' = some res' ∧
      (res.2.lv <+: L → SRel hh res.1 res'.1 ∧ AccRel L hh res.2 res'.2)) := by
  simp only [Sketch.merge, r.hra, ro.hra, ro.n]
  split
  · left; exact ⟨rfl, rfl⟩
  · rename_i hhra
    have hhra' : s.hra = o.hra := by simpa using hhra
    right
    split
    · exact ⟨_, _, rfl, rfl, fun _ => ⟨r, ra⟩⟩
    · rename_i hn0
      have rp := mergePre_rel hT F s s' o o' hs ho hhra' r ro
      have hI := (mergePre_SInv hT F s o hs ho hhra' hn0).1
      rw [rp.ret, rp.maxNom]
      split
      · exact ⟨_, _, rfl, rfl, fun hL => compress_rel hT F L hh _ _ a a' hI rp ra hL⟩
      · exact ⟨_, _, rfl, rfl, fun _ => ⟨rp, ra⟩⟩

/-! ### queries, new -/

theorem sortAll_rel {hh : Option Nat} : ∀ (cs cs' : List (Compactor ρ)), CsRel hh cs cs' → CsRel hh (sortAll cs) (sortAll cs') := by
  intro cs
  induction cs with
  | nil => intro cs' r; cases cs' with
    | nil => trivial
    | cons _ _ => exact absurd r (by simp [CsRel])
  | cons c t ih => intro cs' r; cases cs' with
    | nil => exact absurd r (by simp [CsRel])
    | cons c' t' => exact ⟨sort_CRel r.1, ih t' r.2⟩

theorem afterRank_rel {hh : Option Nat} (s s' : Sketch ρ) (r : SRel hh s s') : SRel hh s.afterRank s'.afterRank :=
  ⟨r.k, r.hra, r.maxNom, r.ret, r.n, r.mn, r.mx, sortAll_rel _ _ r.cs⟩

theorem afterView_rel {hh : Option Nat} (s s' : Sketch ρ) (r : SRel hh s s') : SRel hh s.afterView s'.afterView := by
  refine ⟨r.k, r.hra, r.maxNom, r.ret, r.n, r.mn, r.mx, ?_⟩
  show CsRel hh (sortLevel0 s.compactors) (sortLevel0 s'.compactors)
  have := r.cs
  cases hc : s.compactors with
  | nil => cases hc' : s'.compactors with
    | nil => simp [sortLevel0, CsRel]
    | cons _ _ => rw [hc, hc'] at this; exact absurd this (by simp [CsRel])
  | cons c t => cases hc' : s'.compactors with
    | nil => rw [hc, hc'] at this; exact absurd this (by simp [CsRel])
    | cons c' t' => rw [hc, hc'] at this; exact ⟨sort_CRel this.1, this.2⟩

theorem new_rel (hh : Option Nat) (T : Tun) (F : SecFns ρ) (k : Nat) (hra : Bool) : SRel hh (Sketch.new T F k hra) (Sketch.new T F k hra) :=
  ⟨rfl, rfl, rfl, rfl, rfl, rfl, rfl, ⟨mk'_CRel T F hh _ _ _, trivial⟩⟩

end DS.Req
